import PrologVerif.Driver.Common
import PrologVerif.Model.Ops
import PrologVerif.Spec.OpTable
namespace PrologVerif.Driver.C18
open PrologVerif PrologVerif.Ops PrologVerif.Driver

def row (o : OpDef) : String :=
  (Term.a3 "t" (.int o.pri) (.atom o.spec.name) (.atom o.name)).wire

def rows (t : List OpDef) : String := bracket (sortStrings (t.map row))

def errOut (e : Term) : String := "err " ++ e.canon.wire

/-- what the reader / writer probes must show for an alphanumeric name, given the table -/
def probeOut (t : Table) (n : String) : String :=
  let inf := definedInClass t n .inf
  let pre := definedInClass t n .pre
  let post := definedInClass t n .post
  let b := fun (x : Bool) => if x then "ok" else "synerr"
  let w2 := if inf then "a " ++ n ++ " b" else n ++ "(a,b)"
  let w1 := if pre then n ++ " a" else if post then "a " ++ n else n ++ "(a)"
  s!"probe {b inf} {b pre} {b post} {encName (w2 ++ "~" ++ w1)}"

/-- ten terms around '|' and '->' written by writeq and read back: whatever the table, the reader turns
    the writer's text back into the same term (both consult the one table op/3 maintains) -/
def rtOut : String := "rt " ++ " ".intercalate (List.replicate 10 "same")

/-- run the model over a history -/
def runModel (ops : List String) : String :=
  let (t, outs) := ops.foldl (fun (st : Table × List String) o =>
    let (t, outs) := st
    let (w, rest) := headWord o
    match w, parseTerms rest with
    | "op", some [p, s, n] =>
      let (t', e) := op t p s n
      (t', outs ++ [match e with | none => "true" | some e => errOut e])
    | "cm", some [p, s, n] =>
      -- the whole table is enumerated; op/3 runs between the first and the second solution
      let (t', e) := op t p s n
      (t', outs ++ ["ans " ++ rows t ++ " / " ++ (match e with | none => "true" | some e => errOut e)])
    | "cur", some [p, s, n] =>
      (t, outs ++ [match currentOp t p s n with
        | .ok r => "ans " ++ rows r
        | .error e => errOut e])
    | "probe", some [.atom n] => (t, outs ++ [probeOut t n])
    | "rt", _ => (t, outs ++ [rtOut])
    | _, _ => (t, outs ++ ["BAD-OP"])) (defaultTable, [])
  " ; ".intercalate (outs ++ ["tbl " ++ rows t])

/-! spec side: judges the implementation's output -/

def specParseNames : Term → Option (List String)
  | .atom "[]" => some []
  | .app "." (.cons (.atom a) (.cons t .nil)) => (specParseNames t).map (a :: ·)
  | _ => none

def specParse (p s n : Term) : Option (Nat × Spec × List String) :=
  match p, s with
  | .int i, .atom sp =>
    if 0 ≤ i ∧ i ≤ 1200 then
      match Spec.ofName sp, (match n with | .atom a => some [a] | l => specParseNames l) with
      | some sp, some ns => some (i.toNat, sp, ns)
      | _, _ => none
    else none
  | _, _ => none

def specPatternOk (p s n : Term) : Bool :=
  (match p with | .var _ => true | .int i => 0 ≤ i && i ≤ 1200 | _ => false) &&
  (match s with | .var _ => true | .atom a => (Spec.ofName a).isSome | _ => false) &&
  (match n with | .var _ => true | .atom _ => true | _ => false)

def judge (ops : List String) (impl : List String) : String :=
  let rec go (t : Table) : List String → List String → Nat → String
    | [], [last], _ => if last == "tbl " ++ rows t then "ok" else "FAIL final table differs from spec: " ++ rows t
    | o :: os, r :: rs, i =>
      let (w, rest) := headWord o
      match w, parseTerms rest with
      | "op", some [p, s, n] =>
        match specParse p s n with
        | some (pp, sp, ns) =>
          if specIllegal t pp sp ns then
            if r.startsWith "err " then go t os rs (i+1) else s!"FAIL op #{i}: illegal update must raise an error, got {r}"
          else if r == "true" then go (specOp t pp sp ns) os rs (i+1)
          else s!"FAIL op #{i}: legal update must succeed, got {r}"
        | none => if r.startsWith "err " then go t os rs (i+1) else s!"FAIL op #{i}: ill-typed op/3 must raise an error, got {r}"
      | "cm", some [p, s, n] =>
        -- the answers of one current_op/3 call are the table as it was when it was called, whatever
        -- op/3 does before the call is backtracked into; the update itself is judged as any other
        let ansWant := "ans " ++ rows t
        match r.splitOn " / " with
        | [a, u] =>
          if a != ansWant then s!"FAIL op #{i}: current_op enumeration with an update between two solutions: the answers must be the table at call time: want {ansWant}"
          else
            match specParse p s n with
            | some (pp, sp, ns) =>
              if specIllegal t pp sp ns then
                if u.startsWith "err " then go t os rs (i+1) else s!"FAIL op #{i}: illegal update must raise an error, got {u}"
              else if u == "true" then go (specOp t pp sp ns) os rs (i+1)
              else s!"FAIL op #{i}: legal update must succeed, got {u}"
            | none => if u.startsWith "err " then go t os rs (i+1) else s!"FAIL op #{i}: ill-typed op/3 must raise an error, got {u}"
        | _ => s!"FAIL op #{i}: unreadable outcome {r}"
      | "cur", some [p, s, n] =>
        if specPatternOk p s n then
          let want := "ans " ++ rows (t.filter fun o =>
            matchArg p (.int o.pri) && matchArg s (.atom o.spec.name) && matchArg n (.atom o.name))
          if r == want then go t os rs (i+1) else s!"FAIL op #{i}: current_op answers differ from spec table: want {want}"
        else if r.startsWith "err " then go t os rs (i+1) else s!"FAIL op #{i}: bad current_op pattern must raise an error, got {r}"
      | "probe", some [.atom n] =>
        if r == probeOut t n then go t os rs (i+1) else s!"FAIL op #{i}: reader/writer do not follow the table: want {probeOut t n}"
      | "rt", _ =>
        if r == rtOut then go t os rs (i+1) else s!"FAIL op #{i}: a term written under the current table is not read back as the same term: {r}"
      | _, _ => "FAIL unparsable op"
    | _, _, _ => "FAIL output length mismatch"
  go defaultTable ops impl 0

def handler : Handler := fun payload impl =>
  let ops := splitOps payload
  (runModel ops, judge ops (splitOps impl))

end PrologVerif.Driver.C18
