/-
  Model of the execution core: engine/vm.go (`exec`, `Arrive`), engine/clause.go (`clauses.call`),
  and the control builtins of engine/builtin.go (`Call`, `callN`, `Unify`, `Negate`, `FindAll`,
  `Catch`, `Throw`, `Repeat`, type checks, `Between`, `Append`, `Assertz/Asserta`), running on the
  trampoline model (Model/Promise.lean).

  Go closures are data (`Cont`, `Thunk`, `Handler`), one constructor per closure in the source.
  Everything that `bootstrap.pl` defines (`,`/2, `;`/2, `->`/2, `once/1`, `\=`/2, `fail/0`, `true/0`,
  `member/2`, …) is NOT modelled: the model loads the REGENERATED bootstrap clauses
  (`Generated.bootstrapTerms`) and executes them like any other clause.

  Variable 0 is `varContext` (bound by `Arrive` to the predicate indicator, read by the error
  constructors).  Fuel: one unit per instruction / call; `none` = out of fuel.
-/
import PrologVerif.Model.Compile
import PrologVerif.Model.Unify
import PrologVerif.Model.Promise
import PrologVerif.Model.Order
import PrologVerif.Generated.Bootstrap
namespace PrologVerif.VM
open PrologVerif PrologVerif.Promise

/-- what `opPop` closes in put mode -/
inductive Ctor where
  | functor (f : String)
  | list
  | partial_
  deriving DecidableEq

/-- an entry of `astack` -/
inductive Frame where
  | get (rest : List Term)                 -- get mode: the remaining arguments of the outer level
  | put (outer : List Term) (c : Ctor)     -- put mode: outer arguments so far + the compound being filled
  deriving DecidableEq

/-- continuations (`Cont` closures) -/
inductive Cont where
  | done                                                         -- `Success`
  | exec (pc : List Op) (vars : List Nat) (cutParent : Nat) (k : Cont)  -- the closure built by opCall
  | collect (tmpl : Term) (max : Nat)                            -- the query's hand-off: record the answer, ask for more
  | findallK (tmpl : Term) (slot : Nat)                          -- FindAll's inner continuation
  | catchExit (flag : Nat) (k : Cont)                            -- Catch's goal-exit continuation
  deriving DecidableEq

/-- thunks (`func(context.Context) *Promise` closures) -/
inductive Thunk where
  | clause (c : Clause) (args : List Term) (k : Cont) (env : Env) (parent : Nat)   -- clauses.call
  | afterCut (pc : List Op) (vars : List Nat) (k : Cont) (args : List Term) (astack : List Frame)
      (env : Env) (cutParent : Nat)                                               -- opCut
  | contK (k : Cont) (env : Env)                                                  -- Repeat: k(env)
  | exitAlt (flag : Nat) (b : Bool) (k : Option Cont) (env : Env)                 -- Catch's exit promise alternatives
  | negate (goal : Term) (k : Cont) (env : Env)
  | findall (tmpl goal inst : Term) (k : Cont) (env : Env)
  | catchBody (goal : Term) (flag : Nat) (k : Cont) (env : Env)
  | unifyK (x y : Term) (k : Cont) (env : Env)                                    -- Between / appendLists first alternative
  | betweenNext (low : Int) (upper value : Term) (k : Cont) (env : Env)
  | appendRec (xs ys zs : Term) (k : Cont) (env : Env)                            -- appendLists second alternative
  deriving DecidableEq

/-- Catch's recovery closure -/
structure Handler where
  flag : Nat
  catcher : Term
  recover : Term
  k : Cont
  env : Env
  deriving DecidableEq

/-- Go errors travelling through the trampoline -/
inductive Err where
  | exc (t : Term)            -- `Exception{term}`
  | goErr (msg : String)      -- any other error (context cancellation, a recovered panic)
  deriving DecidableEq

structure Proc where
  clauses : List Clause := []
  dynamic : Bool := false

structure St where
  nextVar : Nat := 1000000
  nextId : Nat := 1
  procs : List ((String × Nat) × Proc) := []
  flags : List (Nat × Bool) := []
  slots : List (Nat × List Term) := []   -- findall collectors, newest answer first
  answers : List Term := []              -- answers of the query, newest first
  cancelAt : Option Nat := none

abbrev Pr := P Thunk Handler Err
abbrev MS := M St

def varContext : Nat := 0

def failP : Pr := {}
def okP : Pr := { ok := true }
def errP (e : Err) : Pr := { err := some e }

def St.flag (s : St) (f : Nat) : Bool := (s.flags.lookup f).getD true

def lookupProc (s : St) (f : String) (n : Nat) : Option Proc := s.procs.lookup (f, n)

def setProc (s : St) (f : String) (n : Nat) (p : Proc) : St :=
  { s with procs := ((f, n), p) :: s.procs.filter (fun e => e.1 ≠ (f, n)) }

/-- internal fuel for Resolve/applyAll/unify inside one instruction (chains are short) -/
def inner : Nat := 100000

def res (env : Env) (t : Term) : Term := (resolve inner env t).getD t
def app (env : Env) (t : Term) : Term := (applyAll inner env t).getD t

def freshVars (n : Nat) (m : MS) : List Nat × MS :=
  ((List.range n).map (· + m.user.nextVar), { m with user := { m.user with nextVar := m.user.nextVar + n } })

def freshId (m : MS) : Nat × MS :=
  (m.user.nextId, { m with user := { m.user with nextId := m.user.nextId + 1 } })

mutual
  /-- variables of a term in order of first occurrence (`freeVariables`, on an applied term) -/
  def termVars : Term → List Nat → List Nat
    | .var v, acc => if acc.contains v then acc else acc ++ [v]
    | .app _ as, acc => argsVars as acc
    | _, acc => acc
  def argsVars : Args → List Nat → List Nat
    | .nil, acc => acc
    | .cons t ts, acc => argsVars ts (termVars t acc)
end

mutual
  def renameWith (ren : List (Nat × Nat)) : Term → Term
    | .var v => match ren.lookup v with | some w => .var w | none => .var v
    | .app f as => .app f (renameArgs ren as)
    | t => t
  def renameArgs (ren : List (Nat × Nat)) : Args → Args
    | .nil => .nil
    | .cons t ts => .cons (renameWith ren t) (renameArgs ren ts)
end

/-- `renamedCopy(t, nil, env)`: bindings applied, variables replaced by fresh ones in order of
    first occurrence -/
def renamedCopy (t : Term) (env : Env) (m : MS) : Term × MS :=
  let t' := app env t
  let vs := termVars t' []
  let (fs, m) := freshVars vs.length m
  (renameWith (vs.zip fs) t', m)

/-- `error(Formal, Context)` with the context the error constructors read from `varContext`,
    copied by `NewException` = `renamedCopy(term, nil, env)`: bindings applied, every variable (of the
    culprit, and an unbound context) replaced by a fresh one -/
def mkErr (formal : Term) (env : Env) (m : MS) : Pr × MS :=
  let (c, m) := renamedCopy (.app "error" (.cons formal (.cons (.var varContext) .nil))) env m
  (errP (.exc c), m)

def buildCtor (c : Ctor) (args : List Term) : Term :=
  match c with
  | .functor f => .app f (Args.ofList args)
  | .list => Term.list args
  | .partial_ =>
    match args with
    | tail :: elems => Term.list elems tail
    | [] => .atom "[]"

def tupleName : String := String.singleton (Char.ofNat 0)

/-- `clauses.call`: one alternative per clause (copies taken now), all sharing the new promise as
    their cut parent -/
def clausesCall (cs : List Clause) (args : List Term) (k : Cont) (env : Env) (m : MS) : Pr × MS :=
  let (id, m) := freshId m
  ({ id := id, delayed := cs.map fun c => Thunk.clause c args k env id }, m)

/-- the compile step of `Call`: `tuple(FVs) :- Goal` over the free variables of the goal -/
def compileCall (goal : Term) (env : Env) : Except Term (List Clause × List Term) :=
  let g := app env goal
  let fvs := (termVars g []).map Term.var
  let head := if fvs.isEmpty then Term.atom tupleName else Term.app tupleName (Args.ofList fvs)
  match compile (toRep (.app ":-" (.cons head (.cons g .nil)))) with
  | .ok cs => .ok (cs, fvs)
  | .error e => .error e

/-- `Call` -/
def callGoal (goal : Term) (k : Cont) (env : Env) (m : MS) : Pr × MS :=
  match res env goal with
  | .var _ => mkErr instErr env m
  | g =>
    match compileCall g env with
    | .ok (cs, fvs) => clausesCall cs fvs k env m
    | .error e => mkErr e env m

def isList (env : Env) (t : Term) (allowPartial : Bool) : Nat → Bool
  | 0 => false
  | n + 1 =>
    match res env t with
    | .atom "[]" => true
    | .var _ => allowPartial
    | .app "." (.cons _ (.cons tl .nil)) => isList env tl allowPartial n
    | _ => false

/-- the proper-list test of `Append`'s fast path: iterated with a nil environment, so a variable
    in the spine (bound or not) ends it -/
def properNoVars : Term → Nat → Bool
  | _, 0 => false
  | .atom "[]", _ => true
  | .app "." (.cons _ (.cons tl .nil)), n + 1 => properNoVars tl n
  | _, _ => false

/-- replace the terminating `[]` of a proper list by `tail` (the `*partial` the fast path builds) -/
def graftTail : Term → Term → Nat → Term
  | t, _, 0 => t
  | .atom "[]", tail, _ => tail
  | .app "." (.cons h (.cons tl .nil)), tail, n + 1 => .app "." (.cons h (.cons (graftTail tl tail n) .nil))
  | t, _, _ => t

mutual
  /-- `VM.exec` -/
  def exec : Nat → List Op → List Nat → Cont → List Term → List Frame → Env → Nat → MS → Option (Pr × MS)
    | 0, _, _, _, _, _, _, _, _ => none
    | _ + 1, [], _, _, _, _, _, _, m => some (errP (.goErr "panic: pc out of range"), m)
    | n + 1, op :: pc, vars, k, args, astack, env, cp, m =>
      let unifyThen := fun (a b : Term) (args' : List Term) (astack' : List Frame) (m' : MS) =>
        match unify inner false env a b with
        | some (env', .ok) => exec n pc vars k args' astack' env' cp m'
        | some _ => some (failP, m')
        | none => none
      match op with
      | .getConst c =>
        match args with
        | a :: rest => unifyThen a c rest astack m
        | [] => some (errP (.goErr "panic: args"), m)
      | .putConst c => exec n pc vars k (args ++ [c]) astack env cp m
      | .getVar i =>
        match vars[i]?, args with
        | some v, a :: rest => unifyThen a (.var v) rest astack m
        | _, _ => some (errP (.goErr "panic: get_var"), m)
      | .putVar i =>
        match vars[i]? with
        | some v => exec n pc vars k (args ++ [.var v]) astack env cp m
        | none => some (errP (.goErr "panic: put_var"), m)
      | .getFunctor f ar =>
        match args with
        | a :: rest =>
          let (fs, m') := freshVars ar m
          let ts := fs.map Term.var
          unifyThen a (.app f (Args.ofList ts)) ts (.get rest :: astack) m'
        | [] => some (errP (.goErr "panic: args"), m)
      | .putFunctor f _ => exec n pc vars k [] (.put args (.functor f) :: astack) env cp m
      | .pop =>
        match astack with
        | .get rest :: as' => exec n pc vars k rest as' env cp m
        | .put outer c :: as' => exec n pc vars k (outer ++ [buildCtor c args]) as' env cp m
        | [] => some (errP (.goErr "panic: astack"), m)
      | .enter => exec n pc vars k args astack env cp m
      | .call f _ => arrive n f args (.exec pc vars cp k) env m
      | .exit => applyCont n k env m
      | .cut => some ({ delayed := [.afterCut pc vars k args astack env cp], cutParent := some cp }, m)
      | .getList l =>
        match args with
        | a :: rest =>
          let (fs, m') := freshVars l m
          let ts := fs.map Term.var
          unifyThen a (Term.list ts) ts (.get rest :: astack) m'
        | [] => some (errP (.goErr "panic: args"), m)
      | .putList _ => exec n pc vars k [] (.put args .list :: astack) env cp m
      | .getPartial l =>
        match args with
        | a :: rest =>
          let (fs, m') := freshVars (l + 1) m
          let ts := fs.map Term.var
          unifyThen a (buildCtor .partial_ ts) ts (.get rest :: astack) m'
        | [] => some (errP (.goErr "panic: args"), m)
      | .putPartial _ => exec n pc vars k [] (.put args .partial_ :: astack) env cp m
      | .unsupported _ => some (errP (.goErr "unsupported encoding"), m)

  /-- a continuation is called with an environment -/
  def applyCont : Nat → Cont → Env → MS → Option (Pr × MS)
    | 0, _, _, _ => none
    | _ + 1, .done, _, m => some (okP, m)
    | n + 1, .exec pc vars cp k, env, m => exec n pc vars k [] [] env cp m
    | _ + 1, .collect tmpl max, env, m =>
      let m := { m with user := { m.user with answers := app env tmpl :: m.user.answers } }
      -- the consumer asks for more (false = backtrack) until it has `max` answers
      some (if m.user.answers.length ≥ max then okP else failP, m)
    | _ + 1, .findallK tmpl slot, env, m =>
      let (c, m) := renamedCopy tmpl env m
      let old := (m.user.slots.lookup slot).getD []
      some (failP, { m with user := { m.user with
        slots := (slot, c :: old) :: m.user.slots.filter (fun e => e.1 ≠ slot) } })
    | _ + 1, .catchExit flag k, env, m =>
      let (id, m) := freshId m
      some ({ id := id, delayed := [.exitAlt flag false (some k) env, .exitAlt flag true none env] }, m)

  /-- `VM.Arrive`: look the procedure up, bind the context variable, call it -/
  def arrive : Nat → String → List Term → Cont → Env → MS → Option (Pr × MS)
    | 0, _, _, _, _, _ => none
    | n + 1, f, args, k, env, m =>
      let ar := args.length
      let env := env.bind varContext (.app "/" (.cons (.atom f) (.cons (.int ar) .nil)))
      match builtin n f args k env m with
      | some r => r
      | none =>
        match lookupProc m.user f ar with
        | some p => some (clausesCall p.clauses args k env m)
        | none =>
          -- unknown flag = error
          some (mkErr (existenceErr "procedure" (.app "/" (.cons (.atom f) (.cons (.int ar) .nil)))) env m)

  /-- the Go builtins that are modelled; outer `none` = not a builtin -/
  def builtin : Nat → String → List Term → Cont → Env → MS → Option (Option (Pr × MS))
    | 0, _, _, _, _, _ => some none
    | n + 1, f, args, k, env, m =>
      match f, args with
      | "call", g :: extra =>
        if extra.isEmpty then some (some (callGoal g k env m))
        else
          -- callN: piArg of the closure, append the additional arguments
          match res env g with
          | .var _ => some (some (mkErr instErr env m))
          | .atom a => some (some (callGoal (.app a (Args.ofList extra)) k env m))
          | .app a as => some (some (callGoal (.app a (Args.ofList (as.toList ++ extra))) k env m))
          | other => some (some (mkErr (typeErr "callable" other) env m))
      | "=", [x, y] =>
        match unify inner false env x y with
        | some (env', .ok) => some (applyCont n k env' m)
        | some _ => some (some (failP, m))
        | none => some none
      | "unify_with_occurs_check", [x, y] =>
        match unify inner true env x y with
        | some (env', .ok) => some (applyCont n k env' m)
        | some _ => some (some (failP, m))
        | none => some none
      | "\\+", [g] =>
        let (id, m) := freshId m
        some (some ({ id := id, delayed := [.negate g k env] }, m))
      | "findall", [tmpl, goal, inst] =>
        if isList env inst true inner then
          let (id, m) := freshId m
          some (some ({ id := id, delayed := [.findall tmpl goal inst k env] }, m))
        else some (some (mkErr (typeErr "list" (res env inst)) env m))
      | "catch", [goal, catcher, recover] =>
        let (flag, m) := freshId m
        some (some ({ delayed := [.catchBody goal flag k env],
                      recover := some ⟨flag, catcher, recover, k, env⟩ }, m))
      | "throw", [ball] =>
        match res env ball with
        | .var _ => some (some (mkErr instErr env m))
        | b => let (c, m) := renamedCopy b env m; some (some (errP (.exc c), m))
      | "repeat", [] => some (some ({ delayed := [.contK k env], rep := true }, m))
      | "var", [t] =>
        match res env t with
        | .var _ => some (applyCont n k env m)
        | _ => some (some (failP, m))
      | "atom", [t] =>
        match res env t with
        | .atom _ => some (applyCont n k env m)
        | _ => some (some (failP, m))
      | "integer", [t] =>
        match res env t with
        | .int _ => some (applyCont n k env m)
        | _ => some (some (failP, m))
      | "float", [t] =>
        match res env t with
        | .flt _ => some (applyCont n k env m)
        | _ => some (some (failP, m))
      | "compound", [t] =>
        match res env t with
        | .app _ _ => some (applyCont n k env m)
        | _ => some (some (failP, m))
      | "between", [lower, upper, value] =>
        match res env lower, res env upper with
        | .int low, .int high =>
          if low > high then some (some (failP, m))
          else
            match res env value with
            | .int v => if v < low ∨ v > high then some (some (failP, m)) else some (applyCont n k env m)
            | .var v =>
              let (id, m) := freshId m
              let first := Thunk.unifyK (.var v) (.int low) k env
              some (some ({ id := id, delayed :=
                if low < high then [first, .betweenNext (low + 1) upper (.var v) k env] else [first] }, m))
            | other => some (some (mkErr (typeErr "integer" other) env m))
        | .var _, _ => some (some (mkErr instErr env m))
        | .int _, .var _ => some (some (mkErr instErr env m))
        | .int _, other => some (some (mkErr (typeErr "integer" other) env m))
        | other, _ => some (some (mkErr (typeErr "integer" other) env m))
      | "append", [xs, ys, zs] =>
        match res env xs with
        | .app "." (.cons h (.cons t .nil)) =>
          if properNoVars (.app "." (.cons h (.cons t .nil))) inner then
            -- fast path: Zs = Xs ++ Ys as one partial list
            match unify inner false env zs (graftTail (.app "." (.cons h (.cons t .nil))) ys inner) with
            | some (env', .ok) => some (applyCont n k env' m)
            | some _ => some (some (failP, m))
            | none => some none
          else some (some (appendLists xs ys zs k env m))
        | _ => some (some (appendLists xs ys zs k env m))
      | "compare", [order, x, y] =>
        -- builtin.go `Compare`: check `order`, then unify it with the outcome of Term.Compare
        let go := fun (_ : Unit) =>
          match unify inner false env order (Order.orderAtom (Order.compare (app env x) (app env y))) with
          | some (env', .ok) => some (applyCont n k env' m)
          | some _ => some (some (failP, m))
          | none => some none
        match res env order with
        | .var _ => go ()
        | .atom o =>
          if o = "<" ∨ o = "=" ∨ o = ">" then go ()
          else some (some (mkErr (domainErr "order" (.atom o)) env m))
        | other => some (some (mkErr (typeErr "atom" other) env m))
      | "atom_length", [a, l] =>
        match res env a with
        | .var _ => some (some (mkErr instErr env m))
        | .atom s =>
          let go := fun (_ : Unit) =>
            match unify inner false env l (.int s.length) with
            | some (env', .ok) => some (applyCont n k env' m)
            | some _ => some (some (failP, m))
            | none => some none
          match res env l with
          | .var _ => go ()
          | .int i => if i < 0 then some (some (mkErr (domainErr "not_less_than_zero" (.int i)) env m)) else go ()
          | other => some (some (mkErr (typeErr "integer" other) env m))
        | other => some (some (mkErr (typeErr "atom" other) env m))
      | "assertz", [t] => some (some (assertClause false t k env m n))
      | "asserta", [t] => some (some (assertClause true t k env m n))
      | _, _ => none

  /-- `appendLists`: the two-clause definition as two alternatives -/
  def appendLists (xs ys zs : Term) (k : Cont) (env : Env) (m : MS) : Pr × MS :=
    let (id, m) := freshId m
    ({ id := id, delayed := [
        .unifyK (.app tupleName (.cons xs (.cons ys .nil))) (.app tupleName (.cons (.atom "[]") (.cons zs .nil))) k env,
        .appendRec xs ys zs k env] }, m)

  /-- `Assertz`/`Asserta` (through `assertMerge`), reduced to what the streams use: the clause is
      compiled with the current bindings applied and appended/prepended; the continuation is called
      inline; errors for non-callable heads/bodies -/
  def assertClause (front : Bool) (t : Term) (k : Cont) (env : Env) (m : MS) (n : Nat) : Pr × MS :=
    let t' := app env t
    let head := match t' with
      | .app ":-" (.cons h (.cons _ .nil)) => h
      | h => h
    match head with
    | .var _ => mkErr instErr env m
    | .int _ | .flt _ | .str _ => mkErr (typeErr "callable" head) env m
    | _ =>
      match compile (toRep t') with
      | .error e => mkErr e env m
      | .ok cs =>
        match cs with
        | [] => (failP, m)
        | c :: _ =>
          let old := (lookupProc m.user c.name c.arity).getD { dynamic := true }
          let p := { old with clauses := if front then cs ++ old.clauses else old.clauses ++ cs }
          let m := { m with user := setProc m.user c.name c.arity p }
          match applyCont n k env m with
          | some r => r
          | none => (errP (.goErr "out of fuel"), m)
end

/-- nested trampolines run under the same context (`cancelAt`) -/
def evalRecover (h : Handler) (e : Err) (m : MS) : Option Pr × MS :=
  if m.user.flag h.flag then
    let ball := match e with
      | .exc t => t
      | .goErr msg => .app "error" (.cons (.atom "system_error") (.cons (.atom msg) .nil))
    match unify inner false h.env h.catcher ball with
    | some (env', .ok) => let r := callGoal h.recover h.k env' m; (some r.1, r.2)
    | _ => (none, m)
  else (none, m)

/-- calling a thunk -/
def evalThunk : Nat → Thunk → MS → Option (Pr × MS)
  | 0, _, _ => none
  | n + 1, t, m =>
    let sem : Sem Thunk Handler Err St := ⟨fun _ t m => evalThunk n t m, evalRecover⟩
    match t with
    | .clause c args k env parent =>
      let (vars, m) := freshVars c.vars.length m
      exec n c.code vars k args [] env parent m
    | .afterCut pc vars k args astack env cp => exec n pc vars k args astack env cp m
    | .contK k env => applyCont n k env m
    | .exitAlt flag b k env =>
      let m := { m with user := { m.user with flags := (flag, b) :: m.user.flags } }
      match k with
      | some k => applyCont n k env m
      | none => some (failP, m)
    | .negate goal k env =>
      let (p, m) := callGoal goal .done env m
      match force sem m.user.cancelAt n [p] m with
      | none => none
      | some (.yes, m') => some (failP, m')
      | some (.no, m') => applyCont n k env m'
      | some (.error e, m') => some (errP e, m')
      | some (.cancelled, m') => some (errP (.goErr "context canceled"), m')
    | .findall tmpl goal inst k env =>
      let (slot, m) := freshId m
      let (p, m) := callGoal goal (.findallK tmpl slot) env m
      match force sem m.user.cancelAt n [p] m with
      | none => none
      | some (.error e, m') => some (errP e, m')
      | some (.cancelled, m') => some (errP (.goErr "context canceled"), m')
      | some (_, m') =>
        let answers := ((m'.user.slots.lookup slot).getD []).reverse
        match unify inner false env inst (Term.list answers) with
        | some (env', .ok) => applyCont n k env' m'
        | some _ => some (failP, m')
        | none => none
    | .catchBody goal flag k env => some (callGoal goal (.catchExit flag k) env m)
    | .unifyK x y k env =>
      match unify inner false env x y with
      | some (env', .ok) => applyCont n k env' m
      | some _ => some (failP, m)
      | none => none
    | .betweenNext low upper value k env =>
      match builtin n "between" [.int low, upper, value] k env m with
      | some (some r) => some r
      | _ => none
    | .appendRec xs ys zs k env =>
      -- append([X|L1], L2, [X|L3]) :- append(L1, L2, L3).
      let (fs, m) := freshVars 3 m
      match fs with
      | [x, l1, l3] =>
        let cons := fun (h t : Term) => Term.app "." (.cons h (.cons t .nil))
        match unify inner false env (.app tupleName (.cons xs (.cons zs .nil)))
            (.app tupleName (.cons (cons (.var x) (.var l1)) (.cons (cons (.var x) (.var l3)) .nil))) with
        | some (env', .ok) => some (appendLists (.var l1) ys (.var l3) k env' m)
        | some _ => some (failP, m)
        | none => none
      | _ => none

def sem (n : Nat) : Sem Thunk Handler Err St := ⟨fun _ t m => evalThunk n t m, evalRecover⟩

/-- the clauses of bootstrap.pl (directives skipped), compiled by the model's own compiler -/
def loadClauses (s : St) (ts : List Term) : St :=
  ts.foldl (fun s t =>
    match t with
    | .app ":-" (.cons _ .nil) => s      -- directive
    | _ =>
      match compile (toRep t) with
      | .ok (c :: cs) =>
        let old := (lookupProc s c.name c.arity).getD {}
        setProc s c.name c.arity { old with clauses := old.clauses ++ (c :: cs) }
      | _ => s) s

def bootState : St := loadClauses {} Generated.bootstrapTerms

inductive End where
  | exhausted | more | err (formal : Term) | ball (t : Term) | cancelled | goErr (msg : String)

/-- run a query on top of `bootState` + the asserted program: answers (oldest first) and how it ended -/
def runQuery (fuel : Nat) (prog : List Term) (query : Term) (max : Nat) (cancelAt : Option Nat := none) :
    Option (List Term × End) :=
  -- the program is asserted clause by clause, as the harness does (assertz marks the predicates dynamic)
  let st0 : St := { loadClauses bootState [] with cancelAt := cancelAt }
  let st := prog.foldl (fun (s : St) c =>
    match compile (toRep c) with
    | .ok (c1 :: cs) =>
      let old := (lookupProc s c1.name c1.arity).getD { dynamic := true }
      setProc s c1.name c1.arity { old with clauses := old.clauses ++ (c1 :: cs) }
    | _ => s) st0
  let (p, m) := callGoal query (.collect query max) [] { user := st }
  match force (sem fuel) cancelAt fuel [p] m with
  | none => none
  | some (r, m') =>
    let answers := m'.user.answers.reverse
    some (answers, match r with
      | .yes => .more
      | .no => .exhausted
      | .cancelled => .cancelled
      | .error (.exc (.app "error" (.cons f (.cons _ .nil)))) => .err f
      | .error (.exc t) => .ball t
      | .error (.goErr msg) => .goErr msg)

end PrologVerif.VM
