/-
  Driver for the answer streams c01.answers / c03.answers / c04.answers (one payload format, one runner):

      <maxAnswers> | <Query wire> | <Clause wire> | ...          (payload)
      a <wire> ; a <wire> ; ... ; end exhausted|more|err F|ball B  (implementation line)

  Model column: the VM model (`Model/VM.lean`: compile, exec, Arrive, Call, the control built-ins, on
  the trampoline of `Model/Promise.lean`, loaded with the REGENERATED bootstrap clauses) runs the
  same program; a case that uses a built-in the VM model does not cover, or that exhausts its fuel,
  prints NOMODEL (not compared).
  Verdict: the reference interpreter `SLD.solveQuery` (cut transparency of the engine: iso = false)
  must produce the same line.
-/
import PrologVerif.Driver.Common
import PrologVerif.Model.VM
import PrologVerif.Spec.SLD
namespace PrologVerif.Driver.C01
open PrologVerif PrologVerif.Driver

mutual
  def shiftVars (k : Nat) : Term → Term
    | .var v => .var (v + k)
    | .app f as => .app f (shiftArgs k as)
    | t => t
  def shiftArgs (k : Nat) : Args → Args
    | .nil => .nil
    | .cons t ts => .cons (shiftVars k t) (shiftArgs k ts)
end

/-- bounds the depth of the reference search, not its size; the generators only emit cases whose
    reference search is far smaller -/
def fuel : Nat := 20000

/-- fuel of the VM model (bounds the number of trampoline steps and the nesting of exec) -/
def vmFuel : Nat := 60000

structure Case where
  max : Nat
  query : Term
  prog : List Term

mutual
  /-- `call_nth(G, 1)` is `once(G)` by definition (the first solution of G, no other); neither the
      reference interpreter nor the VM model has call_nth/2, so program clauses are read with that
      goal rewritten (only clauses: answers print the query term, which must be the same everywhere) -/
  def rewriteCallNth : Term → Term
    | .app f as =>
      match f, rewriteCallNthArgs as with
      | "call_nth", .cons g (.cons (.int 1) .nil) => .app "once" (.cons g .nil)
      | f, as' => .app f as'
    | t => t
  def rewriteCallNthArgs : Args → Args
    | .nil => .nil
    | .cons t ts => .cons (rewriteCallNth t) (rewriteCallNthArgs ts)
end

def parseCase (payload : String) : Option Case :=
  match fields payload with
  | m :: q :: cs =>
    match m.toNat?, Term.ofWire q, (cs.filter (· ≠ "")).mapM Term.ofWire with
    | some max, some query, some prog => some ⟨max, query, prog.map rewriteCallNth⟩
    | _, _, _ => none
  | _ => none

def showEnd : SLD.End → String
  | .exhausted => "end exhausted"
  | .more => "end more"
  | .err f => "end err " ++ f.canon.wire
  | .ball b => "end ball " ++ b.canon.wire

/-- the line the runner prints for this outcome -/
def showOutcome (r : List Term × SLD.End) : String :=
  " ; ".intercalate (r.1.map (fun a => "a " ++ a.canon.wire) ++ [showEnd r.2])

def specLine (c : Case) (iso : Bool) : Option String :=
  (SLD.solveQuery fuel c.prog c.query c.max iso).map showOutcome

def noOracle (impl : String) : Bool :=
  impl.endsWith "end cyclic" || impl.startsWith "assert-" || impl.startsWith "BAD-CASE" || impl.startsWith "SKIPPED"

def judge (c : Case) (iso : Bool) (impl : String) : String :=
  if noOracle impl then "-" else
  match specLine c iso with
  | none => "-"         -- out of fuel, or a unification subject to occurs check: undefined
  | some want =>
    if impl = want then "ok"
    else if impl.endsWith "end timeout" then
      -- the reference search is finite and small (a few thousand steps): not finishing within the time
      -- limit, twice, is non-termination
      "FAIL the implementation did not finish (time limit, confirmed by a second run with 4x the limit); spec says " ++ want
    else "FAIL spec says " ++ want

/-! ### the VM model's line -/

def showVMEnd : VM.End → Option String
  | .exhausted => some "end exhausted"
  | .more => some "end more"
  | .err f => some ("end err " ++ f.canon.wire)
  | .ball t => some ("end ball " ++ t.canon.wire)
  | .cancelled => none
  | .goErr _ => none

def vmLine (c : Case) : String :=
  match VM.runQuery vmFuel c.prog (shiftVars 10 c.query) c.max with
  | none => "NOMODEL out-of-fuel"
  | some (answers, e) =>
    match showVMEnd e with
    | none => "NOMODEL end"
    | some es => " ; ".intercalate (answers.map (fun a => "a " ++ a.canon.wire) ++ [es])

def handler (iso : Bool := false) : Handler := fun payload impl =>
  match parseCase payload with
  | none => ("BAD-CASE", "-")
  | some c => (if noOracle impl || impl.endsWith "end timeout" then "NOMODEL " ++ impl else vmLine c, judge c iso impl)

/-! ### c01.deep: closed-form answers of deep runs (the VM model is not run: its inner fuel is an artefact)

  `pt`, `lst`, `down`, `both` hand one value through N activations, `len` counts them, the chains bind N
  variables to each other: by induction on N the reference semantics gives exactly ONE answer, shown below. -/
def deepHandler : Handler := fun payload impl =>
  let want : Option String :=
    match words payload with
    | [k, n] =>
      match natOfChars n.toList with
      | none => none
      | some n =>
        if k == "len" || k == "last" then some s!"ans I{n}"
        else if k ∈ ["pass", "down", "both", "chain", "chainr", "chainm"] then some "ans Adone"
        else none
    | _ => none
  match want with
  | none => ("BAD-CASE", "-")
  | some w => (w, if impl == w then "ok" else s!"FAIL the reference semantics gives exactly one answer, {w}; the interpreter: {impl}")

/-! ### c04.consult: a ball thrown by a directive of one file of a consulted list (closed form)

  Files before the throwing one are loaded completely, the throwing file runs up to its throw and
  contributes nothing (a failed load is not committed, C20), the files after it are not touched, and
  the ball reaches the catcher / ends the query. -/
def consultHandler : Handler := fun payload impl =>
  match words payload with
  | [_, n, f] =>
    match natOfChars n.toList, natOfChars f.toList with
    | some n, some f =>
      let lines := ((List.range n).filter (· < f)).flatMap (fun k => [s!"f{k}_begin", s!"f{k}_end"]) ++
        (if f < n then [s!"f{f}_begin"] else [])
      let loaded := String.join ((List.range n).map fun k => if k < f then "1" else "0")
      let w := s!"out={",".intercalate lines} ball={if f < n then toString f else "none"} loaded={loaded}"
      (w, if impl == w then "ok" else s!"FAIL throw/1 inside a consulted file must abandon the load at once: want {w}")
    | _, _ => ("BAD-CASE", "-")
  | _ => ("BAD-CASE", "-")

end PrologVerif.Driver.C01
