package main

// C02: unification through every constructor path (c02.unify) and the persistent
// red-black tree environment (c02.env).

import (
	"strconv"
	"fmt"
	"math/rand"
	"sort"
	"strings"
	"time"

	"github.com/ichiban/prolog"
	"github.com/ichiban/prolog/engine"
)

func init() {
	register(&stream{name: "c02.unify", gen: genC02Unify, run: runC02Unify})
	register(&stream{name: "c02.env", gen: genC02Env, run: runC02Env})
}

// ---------------------------------------------------------------------------
// generic term generator over abstract wire terms (own tiny AST so that terms can be
// printed as wire AND built through different constructor paths)
// ---------------------------------------------------------------------------

type gt struct {
	kind string // var atom int flt app
	v    int
	s    string
	i    int64
	f    float64
	args []*gt
}

func gVar(n int) *gt        { return &gt{kind: "var", v: n} }
func gAtom(s string) *gt    { return &gt{kind: "atom", s: s} }
func gInt(i int64) *gt      { return &gt{kind: "int", i: i} }
func gFlt(f float64) *gt    { return &gt{kind: "flt", f: f} }
func gApp(f string, a ...*gt) *gt { return &gt{kind: "app", s: f, args: a} }
func gList(elems []*gt, tail *gt) *gt {
	t := tail
	for i := len(elems) - 1; i >= 0; i-- {
		t = gApp(".", elems[i], t)
	}
	return t
}

func (t *gt) wire(sb *strings.Builder) {
	if sb.Len() > 0 {
		sb.WriteByte(' ')
	}
	switch t.kind {
	case "var":
		fmt.Fprintf(sb, "V%d", t.v)
	case "atom":
		sb.WriteString("A" + encName(t.s))
	case "int":
		fmt.Fprintf(sb, "I%d", t.i)
	case "flt":
		sb.WriteString(wireRaw(engine.Float(t.f)))
	case "app":
		fmt.Fprintf(sb, "C%d:%s", len(t.args), encName(t.s))
		for _, a := range t.args {
			a.wire(sb)
		}
	}
}

func (t *gt) String() string {
	var sb strings.Builder
	t.wire(&sb)
	return sb.String()
}

// spine splits a '.'/2 chain into elements and tail.
func (t *gt) spine() ([]*gt, *gt) {
	var es []*gt
	for t.kind == "app" && t.s == "." && len(t.args) == 2 {
		es = append(es, t.args[0])
		t = t.args[1]
	}
	return es, t
}

type termGen struct {
	r     *rand.Rand
	nvars int
	depth int
}

var c02Atoms = []string{"a", "b", "c", "[]", "foo", "é", "x"}

func (g *termGen) term(d int) *gt {
	k := g.r.Intn(100)
	switch {
	case k < 28:
		return gVar(g.r.Intn(g.nvars))
	case k < 45:
		return gAtom(pick(g.r, c02Atoms))
	case k < 55:
		return gInt(int64(g.r.Intn(5)) + 96*int64(g.r.Intn(2)))
	case k < 58:
		return gFlt(pick(g.r, []float64{0, 1.5, -2.25, 1e10}))
	case d <= 0:
		return gAtom(pick(g.r, c02Atoms))
	case k < 80:
		n := 1 + g.r.Intn(3)
		args := make([]*gt, n)
		for i := range args {
			args[i] = g.term(d - 1)
		}
		return gApp(pick(g.r, []string{"f", "g", "h", "."}), args...)
	default:
		return g.list(d)
	}
}

func (g *termGen) list(d int) *gt {
	n := 1 + g.r.Intn(4)
	if g.r.Intn(5) == 0 {
		n = 4 + g.r.Intn(4)
	}
	elems := make([]*gt, n)
	style := g.r.Intn(4)
	for i := range elems {
		switch style {
		case 0: // chars
			elems[i] = gAtom(pick(g.r, []string{"a", "b", "c", "é"}))
		case 1: // codes
			elems[i] = gInt(int64(97 + g.r.Intn(3)))
		default:
			elems[i] = g.term(d - 1)
		}
		if style < 2 && g.r.Intn(6) == 0 {
			elems[i] = gVar(g.r.Intn(g.nvars))
		}
	}
	var tail *gt
	switch k := g.r.Intn(10); {
	case k < 6:
		tail = gAtom("[]")
	case k < 9:
		tail = gVar(g.r.Intn(g.nvars))
	default:
		tail = gAtom("t")
	}
	return gList(elems, tail)
}

// mutate returns a term that is likely to unify with t: some subterms replaced by variables.
func (g *termGen) mutate(t *gt, d int) *gt {
	if g.r.Intn(5) == 0 {
		return gVar(g.r.Intn(g.nvars))
	}
	if g.r.Intn(12) == 0 {
		return g.term(d)
	}
	if t.kind != "app" {
		return t
	}
	args := make([]*gt, len(t.args))
	for i, a := range t.args {
		args[i] = g.mutate(a, d-1)
	}
	// the same name with another arity (f/2 against f/3) must not unify
	if t.s != "." && g.r.Intn(14) == 0 {
		if len(args) > 1 && g.r.Intn(2) == 0 {
			args = args[:len(args)-1]
		} else {
			args = append(args, g.term(d-1))
		}
	}
	return gApp(t.s, args...)
}

func gtStripShare(t *gt) *gt {
	if t.kind != "app" {
		return t
	}
	if t.s == "$share" && len(t.args) == 2 {
		return gtStripShare(t.args[1])
	}
	args := make([]*gt, len(t.args))
	for i, a := range t.args {
		args[i] = gtStripShare(a)
	}
	return gApp(t.s, args...)
}

const c02Recipes = "bdscauftpwq"

func genC02Unify(r *rand.Rand, n int, tier string) []string {
	var out []string
	for i := 0; i < n; i++ {
		g := &termGen{r: r, nvars: 1 + r.Intn(5)}
		x := g.term(3)
		var y *gt
		if r.Intn(3) > 0 {
			y = g.mutate(x, 3)
		} else {
			y = g.term(3)
		}
		if r.Intn(2) == 0 {
			x, y = y, x
		}
		// one compound reached TWICE as the same object on one side, against two different counterparts
		sharing := false
		if x.kind == "app" && r.Intn(9) == 0 {
			sharing = true
			w := gApp("$share", gInt(1), x)
			y1, y2 := g.mutate(x, 3), g.mutate(x, 3)
			if r.Intn(3) == 0 {
				y2 = y1
			}
			x, y = gApp("p", w, w), gApp("p", y1, y2)
			if r.Intn(3) == 0 {
				x, y = y, x
			}
		}
		// two (or three) lists with THE SAME first elements and different tails inside one term, against
		// variables or mutants: with recipe q they are partial lists over one prefix object
		twin := false
		if !sharing && r.Intn(10) == 0 {
			twin, sharing = true, true
			np := 1 + r.Intn(2)
			pre := make([]*gt, np)
			for j := range pre {
				if r.Intn(4) > 0 {
					pre[j] = gAtom(pick(r, []string{"a", "b", "c"}))
				} else {
					pre[j] = g.term(1)
				}
			}
			nl := 2 + r.Intn(2)
			ls, vs := make([]*gt, nl), make([]*gt, nl)
			for j := range ls {
				var tail *gt
				switch r.Intn(3) {
				case 0:
					tail = gVar(r.Intn(g.nvars))
				case 1:
					tail = gList([]*gt{gAtom(pick(r, c02Atoms))}, gAtom("[]"))
				default:
					tail = gList([]*gt{gInt(int64(j))}, gVar(r.Intn(g.nvars)))
				}
				ls[j] = gList(pre, tail)
				if r.Intn(3) == 0 {
					vs[j] = g.mutate(ls[j], 2)
				} else {
					vs[j] = gVar(g.nvars + j)
				}
			}
			g.nvars += nl
			x, y = gApp("tw", ls...), gApp("tw", vs...)
			if r.Intn(3) == 0 {
				x, y = y, x
			}
		}
		mode := pick(r, []string{"u", "u", "r", "o", "o", "f", "h", "h", "m", "k"})
		if sharing && (mode == "h" || mode == "m" || mode == "k") {
			mode = pick(r, []string{"u", "r", "o", "f"})
		}
		if mode == "m" {
			// a SEQUENCE of unifications X1 = Y1, ..., Xn = Yn over a small pool of variables, so that
			// variables already aliased are unified again, in both directions
			n := 2 + r.Intn(4)
			g.nvars = 2 + r.Intn(3)
			side := func() *gt {
				as := make([]*gt, n)
				for j := range as {
					switch k := r.Intn(10); {
					case k < 7:
						as[j] = gVar(r.Intn(g.nvars))
					case k < 8:
						as[j] = gAtom(pick(r, c02Atoms))
					default:
						as[j] = gApp("f", gVar(r.Intn(g.nvars)))
					}
				}
				return gApp("e", as...)
			}
			x, y = side(), side()
		}
		// clause heads whose argument is a string (double-quoted text: charList / codeList, compiled to a
		// get_const) against the same list in every other encoding
		strHead := mode == "h" && r.Intn(3) == 0
		if strHead {
			n := 1 + r.Intn(4)
			elems := make([]*gt, n)
			codes := r.Intn(2) == 0
			for j := range elems {
				if codes {
					elems[j] = gInt(int64(97 + r.Intn(3)))
				} else {
					elems[j] = gAtom(pick(r, []string{"a", "b", "c", "é"}))
				}
			}
			x = gList(elems, gAtom("[]"))
			switch r.Intn(4) {
			case 0:
				y = g.mutate(x, 3)
			case 1: // a partial list with the same prefix
				y = gList(elems[:1+r.Intn(n)], gVar(r.Intn(g.nvars)))
			default:
				y = x
			}
		}
		// Pairs on which the occurs check would fire (STO) are undefined for =/2 and can send the
		// unchecked implementation into unbounded recursion on the cyclic bindings it created:
		// they are only given to unify_with_occurs_check/2.
		cx := x
		if mode == "h" { // clause variables are renamed apart
			cx = gtShift(x, 1000)
		}
		if classifyPair(gtStripShare(cx), gtStripShare(y)) == "occurs" {
			mode = "o"
		}
		rec := func() string {
			b := make([]byte, 1+r.Intn(4))
			for i := range b {
				b[i] = c02Recipes[r.Intn(len(c02Recipes))]
			}
			return string(b)
		}
		rx := rec()
		if twin {
			rx = "q"
		}
		if strHead {
			rx = pick(r, []string{"s", "c", "sc", "cs"})
		}
		if mode == "k" {
			// x and y are unified THROUGH a chain of n variable-to-variable bindings (C0 = C1, ..., then
			// Cn = x, then C0 = y): Resolve has to follow n links; the recipe slot carries n
			rx = strconv.Itoa(pick(r, []int{3, 60, 600, 1100, 1100, 2600}))
		}
		ry := rec()
		if twin {
			ry = "q"
		}
		out = append(out, fmt.Sprintf("%s | %s | %s | %s | %s", mode, rx, x, ry, y))
	}
	return out
}

// builder constructs engine terms from gt along a recipe.
type builder struct {
	i      *prolog.Interpreter
	vars   map[int]engine.Variable
	recipe string
	pos    int
	reps   map[string]bool
	head   bool // clause-head mode: only constructor paths the compiler accepts on the pinned tree
	// construction goals that must run (in order) before the unification, in the SAME query, and
	// the variables they bind to the constructed lists
	pre   *[]engine.Term
	lvars *[]engine.Variable
	// '$share'(K, T): every occurrence with the same K is THE SAME Go object (a variable bound to the
	// term by an earlier goal of the query); the abstract term is T
	shared map[int64]engine.Term
	// recipe 'q': prefix objects by their elements, shared by BOTH sides of the case
	prefixes map[string]engine.Term
}

func (b *builder) variable(n int) engine.Variable {
	if v, ok := b.vars[n]; ok {
		return v
	}
	v := engine.NewVariable()
	b.vars[n] = v
	return v
}

func (b *builder) next() byte {
	c := b.recipe[b.pos%len(b.recipe)]
	b.pos++
	return c
}

func ground(t *gt) bool {
	if t.kind == "var" {
		return false
	}
	for _, a := range t.args {
		if !ground(a) {
			return false
		}
	}
	return true
}

// ask schedules a construction goal; the constructed list is whatever the goal binds v to.
func (b *builder) ask(goal engine.Term, v engine.Variable) (engine.Term, bool) {
	*b.pre = append(*b.pre, goal)
	*b.lvars = append(*b.lvars, v)
	return v, true
}

func (b *builder) build(t *gt) engine.Term {
	switch t.kind {
	case "var":
		return b.variable(t.v)
	case "atom":
		return atom(t.s)
	case "int":
		return engine.Integer(t.i)
	case "flt":
		return engine.Float(t.f)
	}
	if t.s == "$share" && len(t.args) == 2 && t.args[0].kind == "int" {
		if b.shared == nil {
			b.shared = map[int64]engine.Term{}
		}
		if v, ok := b.shared[t.args[0].i]; ok {
			return v
		}
		v := engine.NewVariable()
		*b.pre = append(*b.pre, compound("=", v, b.build(t.args[1])))
		b.shared[t.args[0].i] = v
		return v
	}
	if !(t.s == "." && len(t.args) == 2) {
		args := make([]engine.Term, len(t.args))
		for i, a := range t.args {
			args[i] = b.build(a)
		}
		return atom(t.s).Apply(args...)
	}
	// a list cell chain: choose the constructor path
	es, tail := t.spine()
	elems := make([]engine.Term, len(es))
	for i, e := range es {
		elems[i] = b.build(e)
	}
	tl := b.build(tail)
	proper := tail.kind == "atom" && tail.s == "[]"
	allChars, allCodes := true, true
	var sb strings.Builder
	for _, e := range es {
		if e.kind == "atom" && len([]rune(e.s)) == 1 {
			sb.WriteString(e.s)
		} else {
			allChars = false
		}
		if !(e.kind == "int" && e.i > 0 && e.i < 0x10ffff) {
			allCodes = false
		}
	}
	bracket := func() engine.Term {
		if proper {
			return engine.List(elems...)
		}
		return engine.PartialList(tl, elems...)
	}
	path := b.next()
	if b.head && strings.IndexByte("bdsc", path) < 0 {
		path = 'b'
	}
	var res engine.Term
	switch path {
	case 'd':
		res = tl
		for i := len(elems) - 1; i >= 0; i-- {
			res = engine.Cons(elems[i], res)
		}
	case 's':
		if proper && allChars {
			res = engine.CharList(sb.String())
		}
	case 'c':
		if proper && allCodes {
			var cs strings.Builder
			for _, e := range es {
				cs.WriteRune(rune(e.i))
			}
			res = engine.CodeList(cs.String())
		}
	case 'a': // append(Prefix, Suffix, L): the fast path yields a *partial over the prefix's encoding
		k := 1 + (b.pos % len(elems))
		var pre engine.Term
		switch {
		case allChars && b.pos%2 == 0:
			pre = engine.CharList(string([]rune(sb.String())[:k]))
		case b.pos%3 == 0:
			// the prefix as a chain of generic '.'/2 compounds (canonical dot notation, =.., functor/3)
			pre = atom("[]")
			for i := k - 1; i >= 0; i-- {
				pre = engine.Cons(elems[i], pre)
			}
		default:
			pre = engine.List(elems[:k]...)
		}
		var suf engine.Term
		if k == len(elems) {
			suf = tl
		} else if proper {
			suf = engine.List(elems[k:]...)
		} else {
			suf = engine.PartialList(tl, elems[k:]...)
		}
		l := engine.NewVariable()
		if r, ok := b.ask(compound("append", pre, suf, l), l); ok {
			res = r
		}
	case 'q': // append(Prefix, Suffix, L) where lists with the same first elements use THE SAME prefix object
		// (two *partial values over one prefix that differ in their tails only)
		k := len(elems)
		if k > 2 {
			k = 2
		}
		chars := true
		var ks, cs strings.Builder
		for _, e := range es[:k] {
			ks.WriteString(e.String() + ";")
			if e.kind == "atom" && len([]rune(e.s)) == 1 {
				cs.WriteString(e.s)
			} else {
				chars = false
			}
		}
		if b.prefixes != nil {
			pre, ok := b.prefixes[ks.String()]
			if !ok {
				if chars && len(b.prefixes)%2 == 0 {
					pre = engine.CharList(cs.String())
				} else {
					pre = engine.List(elems[:k]...)
				}
				b.prefixes[ks.String()] = pre
			}
			var suf engine.Term
			if k == len(elems) {
				suf = tl
			} else if proper {
				suf = engine.List(elems[k:]...)
			} else {
				suf = engine.PartialList(tl, elems[k:]...)
			}
			l := engine.NewVariable()
			if r, ok := b.ask(compound("append", pre, suf, l), l); ok {
				res = r
			}
		}
	case 'u': // L =.. ['.', H, T]
		rest := tl
		if len(elems) > 1 {
			if proper {
				rest = engine.List(elems[1:]...)
			} else {
				rest = engine.PartialList(tl, elems[1:]...)
			}
		}
		l := engine.NewVariable()
		if r, ok := b.ask(compound("=..", l, engine.List(atom("."), elems[0], rest)), l); ok {
			res = r
		}
	case 'f': // findall/3 copy (ground lists only: copying renames variables)
		if ground(t) {
			l, z := engine.NewVariable(), engine.NewVariable()
			if r, ok := b.ask(compound("findall", z, compound("=", z, bracket()), engine.List(l)), l); ok {
				res = r
			}
		}
	case 'w': // a front list COLLECTED by findall/3 (a Go slice with spare capacity), extended twice by
		// append/3: the first result must stay what it was when the second one is made
		if proper && ground(t) && len(elems) >= 4 {
			k := 3
			if len(elems) >= 6 {
				k = 5
			}
			fr, z, l := engine.NewVariable(), engine.NewVariable(), engine.NewVariable()
			*b.pre = append(*b.pre, compound("findall", z, compound("member", z, engine.List(elems[:k]...)), fr))
			if r, ok := b.ask(compound("append", fr, engine.List(elems[k:]...), l), l); ok {
				res = r
				decoy := make([]engine.Term, len(elems)-k)
				for j := range decoy {
					decoy[j] = atom("decoy")
				}
				*b.pre = append(*b.pre, compound("append", fr, engine.List(decoy...), engine.NewVariable()))
			}
		}
	case 't': // atom_chars/2
		if proper && allChars {
			l := engine.NewVariable()
			if r, ok := b.ask(compound("atom_chars", atom(sb.String()), l), l); ok {
				res = r
			}
		}
	case 'p': // copy_term/2 (ground only)
		if ground(t) {
			l := engine.NewVariable()
			if r, ok := b.ask(compound("copy_term", bracket(), l), l); ok {
				res = r
			}
		}
	}
	if res == nil {
		res = bracket()
	}
	if _, isVar := res.(engine.Variable); !isVar {
		b.reps[engine.VerifTermRep(res)] = true
	}
	return res
}

func parseGT(s string) *gt {
	toks := strings.Fields(s)
	t, _ := parseGTToks(toks)
	return t
}

func parseGTToks(toks []string) (*gt, []string) {
	tok, rest := toks[0], toks[1:]
	switch tok[0] {
	case 'V':
		var n int
		fmt.Sscanf(tok[1:], "%d", &n)
		return gVar(n), rest
	case 'A':
		s, _ := decName(tok[1:])
		return gAtom(s), rest
	case 'I':
		var n int64
		fmt.Sscanf(tok[1:], "%d", &n)
		return gInt(n), rest
	case 'F':
		d := newTermDecoder()
		t, _, _ := d.dec([]string{tok})
		return gFlt(float64(t.(engine.Float))), rest
	case 'C':
		i := strings.IndexByte(tok, ':')
		var n int
		fmt.Sscanf(tok[1:i], "%d", &n)
		f, _ := decName(tok[i+1:])
		args := make([]*gt, n)
		for j := 0; j < n; j++ {
			args[j], rest = parseGTToks(rest)
		}
		return gApp(f, args...), rest
	}
	panic("bad token " + tok)
}

func runC02Unify(payload string) string {
	f := strings.Split(payload, " | ")
	mode, recX, xs, recY, ys := f[0], f[1], f[2], f[3], f[4]
	gx, gy := parseGT(xs), parseGT(ys)
	i, _ := newInterp("")
	vars := map[int]engine.Variable{}
	reps := map[string]bool{}
	var pre []engine.Term
	var lvars []engine.Variable
	prefixes := map[string]engine.Term{}
	bx := &builder{i: i, vars: vars, recipe: recX, reps: reps, head: mode == "h", pre: &pre, lvars: &lvars, prefixes: prefixes}
	by := &builder{i: i, vars: vars, recipe: recY, reps: reps, pre: &pre, lvars: &lvars, prefixes: prefixes}
	if mode == "h" {
		bx.vars = map[int]engine.Variable{} // clause variables are renamed apart anyway
	}
	x := bx.build(gx)
	y := by.build(gy)
	// all variables of the case, in index order, so that bindings of every variable are observed
	nv := 0
	for k := range vars {
		if k+1 > nv {
			nv = k + 1
		}
	}
	vs := make([]engine.Term, nv)
	for k := 0; k < nv; k++ {
		vs[k] = by.variable(k)
	}
	ident, res := engine.NewVariable(), engine.NewVariable()
	var goal engine.Term
	switch mode {
	case "u":
		goal = compound(",", compound("=", x, y), compound(";", compound("->", compound("==", x, y), compound("=", ident, atom("true"))), compound("=", ident, atom("false"))))
	case "r":
		goal = compound(",", compound("=", y, x), compound(";", compound("->", compound("==", x, y), compound("=", ident, atom("true"))), compound("=", ident, atom("false"))))
	case "o":
		goal = compound(",", compound("unify_with_occurs_check", x, y), compound(";", compound("->", compound("==", x, y), compound("=", ident, atom("true"))), compound("=", ident, atom("false"))))
	case "f":
		goal = compound(";", compound("->", compound("=", x, y), compound("=", res, atom("yes"))), compound("=", res, atom("no")))
	case "k":
		n, _ := strconv.Atoi(recX)
		chain := make([]engine.Term, n+1)
		for k := range chain {
			chain[k] = engine.NewVariable()
		}
		goal = compound(",", compound("=", chain[0], y), compound(";", compound("->", compound("==", x, y), compound("=", ident, atom("true"))), compound("=", ident, atom("false"))))
		goal = compound(",", compound("=", chain[n], x), goal)
		for k := n - 1; k >= 0; k-- {
			goal = compound(",", compound("=", chain[k], chain[k+1]), goal)
		}
	case "m":
		// X1 = Y1, ..., Xn = Yn one after the other; identity observed by the built-in compare/3 (the
		// goal after it only receives O and Ident)
		xc, okx := x.(engine.Compound)
		yc, oky := y.(engine.Compound)
		if !okx || !oky || xc.Arity() != yc.Arity() {
			return "BAD-CASE"
		}
		o := engine.NewVariable()
		goal = compound(",", compound("compare", o, x, y), compound(";", compound("->", compound("=", o, atom("=")), compound("=", ident, atom("true"))), compound("=", ident, atom("false"))))
		for k := xc.Arity() - 1; k >= 0; k-- {
			goal = compound(",", compound("=", xc.Arg(k), yc.Arg(k)), goal)
		}
	case "h":
		if err := solveOnce(&i.VM, compound("assertz", compound("c02_head", x))); err != "true" {
			return "assert-" + err
		}
		goal = compound("c02_head", y)
	}
	tmpl := compound("t", ident, res, x, y, engine.List(vs...))
	if mode == "h" {
		tmpl = compound("t", ident, res, y, y, engine.List(vs...))
	}
	for k := len(pre) - 1; k >= 0; k-- {
		goal = compound(",", pre[k], goal)
	}
	out := "fail"
	_, err := solve(&i.VM, goal, 1, 5*time.Second, func(env *engine.Env) bool {
		for _, l := range lvars {
			reps[engine.VerifTermRep(env.Resolve(l))] = true
		}
		// cyclic results cannot be printed
		okAcyclic := false
		_, _ = engine.AcyclicTerm(&i.VM, tmpl, func(*engine.Env) *engine.Promise { okAcyclic = true; return engine.Bool(true) }, env).Force(ctxBg())
		if !okAcyclic {
			out = "cyclic"
			return false
		}
		out = "ok " + wire(tmpl, env, newVarNamer())
		// the answer must not depend on having been copied: copy_term/2 and findall/3 return a variant
		// with the same sharing (variables named by first occurrence give the same text)
		c := engine.NewVariable()
		for _, g := range []engine.Term{compound("copy_term", tmpl, c), compound("findall", tmpl, atom("true"), engine.List(c))} {
			_, _ = engine.Call(&i.VM, g, func(e *engine.Env) *engine.Promise {
				if cw := "ok " + wire(c, e, newVarNamer()); cw != out {
					out = "copy-differs " + cw
				}
				return engine.Bool(true)
			}, env).Force(ctxBg())
		}
		return false
	})
	if err != nil {
		out = errWire(err)
	}
	var rs []string
	for r := range reps {
		rs = append(rs, r)
	}
	sort.Strings(rs)
	nt := 0
	if (gx.kind == "app" && gy.kind == "app") || len(rs) >= 2 {
		nt = 1
	}
	repTag := strings.ReplaceAll(strings.Join(rs, "+"), " ", "")
	if repTag == "" {
		repTag = "none"
	}
	return out + fmt.Sprintf(" ### nt=%d mode=%s reps=%s result=%s", nt, mode, repTag, strings.SplitN(out, " ", 2)[0])
}

// ---------------------------------------------------------------------------
// c02.env: bind sequences on persistent environments
// ---------------------------------------------------------------------------

func genC02Env(r *rand.Rand, n int, tier string) []string {
	var out []string
	for i := 0; i < n; i++ {
		nv := 1 + r.Intn(24)
		nops := 1 + r.Intn(40)
		ops := make([]string, nops)
		for j := range ops {
			base := -1
			if j > 0 {
				if r.Intn(4) == 0 {
					base = r.Intn(j + 1) - 1 // any earlier version (or the empty env): exercises persistence
				} else {
					base = j - 1
				}
			}
			v := r.Intn(nv)
			if r.Intn(3) == 0 { // ascending / descending runs unbalance a naive tree
				v = j % nv
			}
			ops[j] = fmt.Sprintf("b %d %d I%d", base, v, j)
		}
		out = append(out, fmt.Sprintf("%d ; %s", nv, strings.Join(ops, " ; ")))
	}
	return out
}

func dumpEnv(n *engine.VerifEnvNode, rank map[int64]int, sb *strings.Builder) {
	if n == nil {
		sb.WriteByte('.')
		return
	}
	c := "B"
	if n.Red {
		c = "R"
	}
	k, ok := rank[n.Key]
	ks := fmt.Sprintf("%d", k)
	if !ok {
		ks = fmt.Sprintf("key%d", n.Key)
		if n.Key == 1 {
			ks = "root"
		}
	}
	fmt.Fprintf(sb, "(%s %s=%s ", c, ks, wire(n.Value, nil, nil))
	dumpEnv(n.Left, rank, sb)
	sb.WriteByte(' ')
	dumpEnv(n.Right, rank, sb)
	sb.WriteByte(')')
}

func runC02Env(payload string) string {
	parts := strings.Split(payload, " ; ")
	var nv int
	fmt.Sscanf(parts[0], "%d", &nv)
	vars := make([]engine.Variable, nv)
	rank := map[int64]int{}
	for k := range vars {
		vars[k] = engine.NewVariable()
	}
	for k, v := range vars {
		// newEnvKey: -v for v >= 2
		rank[-int64(v)] = k
	}
	var versions []*engine.Env
	for _, op := range parts[1:] {
		var base, v int
		var val string
		fmt.Sscanf(op, "b %d %d %s", &base, &v, &val)
		d := newTermDecoder()
		ts, err := d.terms(val)
		must(err)
		var e *engine.Env
		if base >= 0 {
			e = versions[base]
		}
		versions = append(versions, e.VerifBind(vars[v], ts[0]))
	}
	// dump every version (shape, colours, keys, values) and every lookup: older versions must be intact
	var sb strings.Builder
	maxDepth := 0
	for k, e := range versions {
		if k > 0 {
			sb.WriteString(" ; ")
		}
		dumpEnv(e.VerifDump(), rank, &sb)
		sb.WriteString(" [")
		for j, v := range vars {
			if j > 0 {
				sb.WriteByte(' ')
			}
			if t, ok := e.VerifLookup(v); ok {
				sb.WriteString(wire(t, nil, nil))
			} else {
				sb.WriteByte('-')
			}
		}
		sb.WriteString("]")
		if d := envDepth(e.VerifDump()); d > maxDepth {
			maxDepth = d
		}
	}
	nt := 0
	if len(versions) >= 4 {
		nt = 1
	}
	return sb.String() + fmt.Sprintf(" ### nt=%d versions=%d depth=%d", nt, len(versions)/10*10, maxDepth)
}

func envDepth(n *engine.VerifEnvNode) int {
	if n == nil {
		return 0
	}
	l, r := envDepth(n.Left), envDepth(n.Right)
	if l > r {
		return l + 1
	}
	return r + 1
}

// ---------------------------------------------------------------------------
// generator-side classification of a pair: "mgu", "clash" or "occurs".  "occurs" = SUBJECT TO OCCURS
// CHECK in the sense of ISO 7.3.3: there is SOME way to proceed through the Herbrand algorithm in which
// the occurs check fires.  Clashing equations can always be postponed, so the test is: run the
// algorithm, set clashing equations aside, and see whether the occurs check ever fires.  (The engine's
// compiled head unification visits a partial list's tail before its elements, so the order matters:
// r5(h(A),[A|A]) against r5(D,[D|D]) overflows the Go stack on the cyclic binding it creates.)
// ---------------------------------------------------------------------------

func gtOccurs(v int, t *gt) bool {
	if t.kind == "var" {
		return t.v == v
	}
	for _, a := range t.args {
		if gtOccurs(v, a) {
			return true
		}
	}
	return false
}

func gtReplace(v int, s, t *gt) *gt {
	switch t.kind {
	case "var":
		if t.v == v {
			return s
		}
		return t
	case "app":
		args := make([]*gt, len(t.args))
		for i, a := range t.args {
			args[i] = gtReplace(v, s, a)
		}
		return gApp(t.s, args...)
	}
	return t
}

func gtEqual(a, b *gt) bool {
	if a.kind != b.kind || a.v != b.v || a.s != b.s || a.i != b.i || a.f != b.f || len(a.args) != len(b.args) {
		return false
	}
	for i := range a.args {
		if !gtEqual(a.args[i], b.args[i]) {
			return false
		}
	}
	return true
}

// stoClosure: over-approximation of "subject to occurs check" that does not depend on any order.
// Merge the equivalence classes the equations force (variables by number, other subterms by node),
// propagating to arguments whenever two members of a class have the same functor and arity —
// clashing members are merged all the same — and look for a cycle class -> class of an argument.
// Any way of proceeding through the Herbrand algorithm only ever derives equalities inside this
// closure, so: no cycle here => the occurs check cannot fire in any order.
func stoClosure(x, y *gt) bool {
	type node = int
	ids := map[*gt]node{}
	varID := map[int]node{}
	var terms []*gt
	var idOf func(t *gt) node
	idOf = func(t *gt) node {
		if t.kind == "var" {
			if id, ok := varID[t.v]; ok {
				return id
			}
			varID[t.v] = len(terms)
			terms = append(terms, t)
			return varID[t.v]
		}
		if id, ok := ids[t]; ok {
			return id
		}
		ids[t] = len(terms)
		terms = append(terms, t)
		id := ids[t]
		for _, a := range t.args {
			idOf(a)
		}
		return id
	}
	idOf(x)
	idOf(y)
	parent := make([]node, len(terms))
	members := make([][]node, len(terms))
	for i := range parent {
		parent[i] = i
		if terms[i].kind != "var" {
			members[i] = []node{i}
		}
	}
	var find func(n node) node
	find = func(n node) node {
		for parent[n] != n {
			parent[n] = parent[parent[n]]
			n = parent[n]
		}
		return n
	}
	type pr struct{ a, b node }
	work := []pr{{idOf(x), idOf(y)}}
	for len(work) > 0 {
		p := work[len(work)-1]
		work = work[:len(work)-1]
		a, b := find(p.a), find(p.b)
		if a == b {
			continue
		}
		for _, m := range members[a] {
			for _, n := range members[b] {
				tm, tn := terms[m], terms[n]
				if tm.kind == "app" && tn.kind == "app" && tm.s == tn.s && len(tm.args) == len(tn.args) {
					for i := range tm.args {
						work = append(work, pr{idOf(tm.args[i]), idOf(tn.args[i])})
					}
				}
			}
		}
		parent[b] = a
		members[a] = append(members[a], members[b]...)
		members[b] = nil
	}
	// cycle detection on the class graph
	color := map[node]int{}
	var visit func(c node) bool
	visit = func(c node) bool {
		switch color[c] {
		case 1:
			return true
		case 2:
			return false
		}
		color[c] = 1
		for _, m := range members[c] {
			for _, a := range terms[m].args {
				if visit(find(idOf(a))) {
					return true
				}
			}
		}
		color[c] = 2
		return false
	}
	for i := range terms {
		if visit(find(i)) {
			return true
		}
	}
	return false
}

func classifyPair(x, y *gt) string {
	if stoClosure(x, y) {
		return "occurs"
	}
	type eq struct{ a, b *gt }
	eqs := []eq{{x, y}}
	clash := false
	for steps := 0; len(eqs) > 0 && steps < 100000; steps++ {
		e := eqs[0]
		eqs = eqs[1:]
		a, b := e.a, e.b
		if gtEqual(a, b) {
			continue
		}
		if a.kind != "var" && b.kind == "var" {
			a, b = b, a
		}
		if a.kind == "var" {
			if gtOccurs(a.v, b) {
				return "occurs"
			}
			for i := range eqs {
				eqs[i] = eq{gtReplace(a.v, b, eqs[i].a), gtReplace(a.v, b, eqs[i].b)}
			}
			continue
		}
		if a.kind == "app" && b.kind == "app" && a.s == b.s && len(a.args) == len(b.args) {
			var front []eq
			for i := range a.args {
				front = append(front, eq{a.args[i], b.args[i]})
			}
			eqs = append(front, eqs...)
			continue
		}
		clash = true // set aside; keep going to see whether some order reaches an occurs-check failure
	}
	if clash {
		return "clash"
	}
	return "mgu"
}

func gtShift(t *gt, k int) *gt {
	switch t.kind {
	case "var":
		return gVar(t.v + k)
	case "app":
		args := make([]*gt, len(t.args))
		for i, a := range t.args {
			args[i] = gtShift(a, k)
		}
		return gApp(t.s, args...)
	}
	return t
}
