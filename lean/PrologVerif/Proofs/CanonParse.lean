/-
  The parser on the tokens of write_canonical text.
-/
import PrologVerif.Proofs.CanonTokens
set_option linter.unusedSimpArgs false
set_option linter.unusedVariables false
namespace PrologVerif.Write
open PrologVerif PrologVerif.Lexer PrologVerif.Ops PrologVerif.Read

abbrev Vars := List (List Char × Nat)

/-! ## atoms -/

theorem atom_atomToks {s : List Char} {toks : List Token} (h : AtomToks s toks) (dq : DoubleQuotes)
    (b r : List Token) (vs : Vars) (nv : Nat) :
    Read.atom dq ⟨b, toks ++ r, vs, nv⟩ = (.ok (String.ofList s), ⟨toks.reverse ++ b, r, vs, nv⟩) := by
  cases h with
  | name t hk hv =>
    rcases hk with hk | hk | hk | hk <;> simp [Read.atom, Read.name, Read.next, hk, hv]
  | quoted t hk hv => simp [Read.atom, Read.name, Read.next, hk, hv]
  | list t1 t2 h1 h2 hs => subst hs; simp [Read.atom, Read.name, Read.next, Read.backup, h1, h2]
  | curly t1 t2 h1 h2 hs => subst hs; simp [Read.atom, Read.name, Read.next, Read.backup, h1, h2]

/-- un-reading an atom: one backup, and another if that uncovered `]` or `}` -/
def rewind (p : PState) : PState :=
  let p := Read.backup p
  if currentKind p = .closeList ∨ currentKind p = .closeCurly then Read.backup p else p

theorem rewind_atomToks {s : List Char} {toks : List Token} (h : AtomToks s toks)
    (b r : List Token) (vs : Vars) (nv : Nat) :
    rewind ⟨toks.reverse ++ b, r, vs, nv⟩ = ⟨b, toks ++ r, vs, nv⟩ := by
  cases h with
  | name t hk hv =>
    rcases hk with hk | hk | hk | hk <;> simp [rewind, Read.backup, currentKind, hk]
  | quoted t hk hv => simp [rewind, Read.backup, currentKind, hk]
  | list t1 t2 h1 h2 hs => simp [rewind, Read.backup, currentKind, h2]
  | curly t1 t2 h1 h2 hs => simp [rewind, Read.backup, currentKind, h2]

theorem term0_atomToks {s : List Char} {toks : List Token} (h : AtomToks s toks) (ops : Table) (dq : DoubleQuotes)
    (fuel mp : Nat) (b r : List Token) (vs : Vars) (nv : Nat) :
    term0 ops dq (fuel + 1) mp ⟨b, toks ++ r, vs, nv⟩ = term0Atom ops dq fuel mp ⟨b, toks ++ r, vs, nv⟩ := by
  cases h with
  | name t hk hv =>
    rcases hk with hk | hk | hk | hk <;> simp [term0, Read.next, Read.backup, hk]
  | quoted t hk hv => simp [term0, Read.next, Read.backup, hk]
  | list t1 t2 h1 h2 hs => simp [term0, Read.next, Read.backup, h1, h2]
  | curly t1 t2 h1 h2 hs => simp [term0, Read.next, Read.backup, h1, h2]

/-- `[]` and `{}` are never operators for the reader -/
def isBracketAtom (s : List Char) : Prop := s = ['[', ']'] ∨ s = ['{', '}']

instance (s : List Char) : Decidable (isBracketAtom s) := by unfold isBracketAtom; infer_instance

theorem ofList_eq_brackets (s : List Char) :
    (String.ofList s = "[]" ↔ s = ['[', ']']) ∧ (String.ofList s = "{}" ↔ s = ['{', '}']) := by
  constructor <;> constructor <;> intro h
  · have := congrArg String.toList h; simpa using this
  · subst h; rfl
  · have := congrArg String.toList h; simpa using this
  · subst h; rfl

theorem op_atomToks {s : List Char} {toks : List Token} (h : AtomToks s toks) (dq : DoubleQuotes) (mp : Nat)
    (b r : List Token) (vs : Vars) (nv : Nat) :
    Read.op dq mp ⟨b, toks ++ r, vs, nv⟩ =
      if isBracketAtom s then (.error .noOp, ⟨b, toks ++ r, vs, nv⟩)
      else (.ok (String.ofList s), ⟨toks.reverse ++ b, r, vs, nv⟩) := by
  obtain ⟨e1, e2⟩ := ofList_eq_brackets s
  unfold Read.op
  rw [atom_atomToks h]
  simp only [e1, e2, isBracketAtom]
  by_cases h1 : s = ['[', ']']
  · simp only [h1, true_or, if_true]
    cases h with
    | name t hk hv => rcases hk with hk | hk | hk | hk <;> simp [Read.backup, currentKind, hk]
    | quoted t hk hv => simp [Read.backup, currentKind, hk]
    | list t1 t2 k1 k2 hs => simp [Read.backup, currentKind, k2]
    | curly t1 t2 k1 k2 hs => exact absurd (h1.symm.trans hs) (by decide)
  · by_cases h2 : s = ['{', '}']
    · simp only [h2, if_true, or_true, show (['{', '}'] : List Char) ≠ ['[', ']'] by decide, if_false]
      cases h with
      | name t hk hv => rcases hk with hk | hk | hk | hk <;> simp [Read.backup, currentKind, hk]
      | quoted t hk hv => simp [Read.backup, currentKind, hk]
      | list t1 t2 k1 k2 hs => exact absurd (h2.symm.trans hs) (by decide)
      | curly t1 t2 k1 k2 hs => simp [Read.backup, currentKind, k2]
    · simp [h1, h2]

/-- an atom that is not `[]` / `{}` is one token -/
theorem atomToks_single {s : List Char} {toks : List Token} (h : AtomToks s toks) (hb : ¬ isBracketAtom s) :
    ∃ t, toks = [t] := by
  cases h with
  | name t _ _ => exact ⟨t, rfl⟩
  | quoted t _ _ => exact ⟨t, rfl⟩
  | list _ _ _ _ hs => exact absurd (.inl hs) hb
  | curly _ _ _ _ hs => exact absurd (.inr hs) hb

/-! ## `prefix` on an atom -/

theorem prefix_atom_openCT {s : List Char} {toks : List Token} (h : AtomToks s toks) (ops : Table)
    (dq : DoubleQuotes) (mp : Nat) (nxt : Token) (hn : nxt.kind = .openCT)
    (b r : List Token) (vs : Vars) (nv : Nat) :
    «prefix» ops dq mp ⟨b, toks ++ nxt :: r, vs, nv⟩ = (.error .noOp, ⟨b, toks ++ nxt :: r, vs, nv⟩) := by
  unfold «prefix»
  rw [op_atomToks h]
  by_cases hb : isBracketAtom s
  · simp [hb]
  · obtain ⟨t, rfl⟩ := atomToks_single h hb
    simp only [hb, if_false]
    by_cases hm : String.ofList s = "-" <;>
      simp [hm, Read.next, Read.backup, isNumberKind, hn]

/-- what `prefix` answers for an atom followed by a token that is neither a number nor `(` -/
theorem prefix_atom_other {s : List Char} {toks : List Token} (h : AtomToks s toks) (hb : ¬ isBracketAtom s)
    (ops : Table) (dq : DoubleQuotes) (mp : Nat) (nxt : Token) (hn : nxt.kind ≠ .openCT)
    (hnum : isNumberKind nxt.kind = false) (b r : List Token) (vs : Vars) (nv : Nat) :
    «prefix» ops dq mp ⟨b, toks ++ nxt :: r, vs, nv⟩ =
      match (opOf ops (String.ofList s) .pre).filter (fun o => o.pri ≤ mp) with
      | some o => (.ok o, ⟨toks.reverse ++ b, nxt :: r, vs, nv⟩)
      | none => (.error .noOp, ⟨b, toks ++ nxt :: r, vs, nv⟩) := by
  obtain ⟨t, rfl⟩ := atomToks_single h hb
  unfold «prefix»
  rw [op_atomToks h]
  simp only [hb, if_false]
  cases hop : opOf ops (String.ofList s) .pre with
  | none =>
    by_cases hm : String.ofList s = "-" <;>
      simp [hm, Read.next, Read.backup, hn, hnum, hop, Option.filter]
  | some o =>
    by_cases hpri : o.pri ≤ mp <;> by_cases hm : String.ofList s = "-" <;>
      simp [hm, Read.next, Read.backup, hn, hnum, hop, hpri, Option.filter]

/-! ## an atom as a whole term -/

/-- tokens after which a term is complete and that are neither numbers nor `(` -/
def EndTok (t : Token) : Prop := t.kind = .end_ ∨ t.kind = .close ∨ t.kind = .comma

theorem EndTok.facts {t : Token} (h : EndTok t) : t.kind ≠ .openCT ∧ isNumberKind t.kind = false := by
  rcases h with h | h | h <;> simp [h, isNumberKind]

theorem term0Atom_atom {s : List Char} {toks : List Token} (h : AtomToks s toks) (ops : Table)
    (dq : DoubleQuotes) (fuel mp : Nat) (stop : Token) (hs : EndTok stop)
    (b r : List Token) (vs : Vars) (nv : Nat) :
    term0Atom ops dq (fuel + 2) mp ⟨b, toks ++ stop :: r, vs, nv⟩ =
      if mp < 1201 ∧ defined ops (String.ofList s) = true
      then (.error .expectation, Read.backup ⟨toks.reverse ++ b, stop :: r, vs, nv⟩)
      else (.ok (.atom (String.ofList s)), ⟨toks.reverse ++ b, stop :: r, vs, nv⟩) := by
  obtain ⟨h1, h2⟩ := hs.facts
  simp only [term0Atom, atom_atomToks h]
  by_cases hm : String.ofList s = "-" <;>
    simp [hm, Read.next, Read.backup, h1, h2, functionalNotation]

/-- an atom that the context accepts as an operand, read by `term` (given that `prefix` declines) -/
theorem term_atom_of_noPrefix {s : List Char} {toks : List Token} (h : AtomToks s toks) (ops : Table)
    (dq : DoubleQuotes) (fuel mp : Nat) (stop : Token) (hs : EndTok stop) (hst : Stops mp stop)
    (b r : List Token) (vs : Vars) (nv : Nat)
    (hp : «prefix» ops dq mp ⟨b, toks ++ stop :: r, vs, nv⟩ = (.error .noOp, ⟨b, toks ++ stop :: r, vs, nv⟩))
    (hok : ¬ (mp < 1201 ∧ defined ops (String.ofList s) = true)) :
    term ops dq (fuel + 4) mp ⟨b, toks ++ stop :: r, vs, nv⟩ =
      (.ok (.atom (String.ofList s)), ⟨toks.reverse ++ b, stop :: r, vs, nv⟩) := by
  simp only [term, hp, term0_atomToks h]
  rw [term0Atom_atom h ops dq fuel mp stop hs]
  simp only [hok, if_false]
  exact infixLoop_stop hst ops dq (fuel + 2) _ _ _ _ _

theorem prefix_bracket {s : List Char} {toks : List Token} (h : AtomToks s toks) (hb : isBracketAtom s)
    (ops : Table) (dq : DoubleQuotes) (mp : Nat) (b r : List Token) (vs : Vars) (nv : Nat) :
    «prefix» ops dq mp ⟨b, toks ++ r, vs, nv⟩ = (.error .noOp, ⟨b, toks ++ r, vs, nv⟩) := by
  unfold «prefix»; rw [op_atomToks h]; simp [hb]

theorem term_atom {s : List Char} {toks : List Token} (h : AtomToks s toks) (ops : Table)
    (dq : DoubleQuotes) (fuel mp : Nat) (stop : Token) (hs : EndTok stop) (hst : Stops mp stop)
    (hpre : (opOf ops (String.ofList s) .pre).filter (fun o => o.pri ≤ mp) = none)
    (hok : ¬ (mp < 1201 ∧ defined ops (String.ofList s) = true))
    (b r : List Token) (vs : Vars) (nv : Nat) :
    term ops dq (fuel + 4) mp ⟨b, toks ++ stop :: r, vs, nv⟩ =
      (.ok (.atom (String.ofList s)), ⟨toks.reverse ++ b, stop :: r, vs, nv⟩) := by
  refine term_atom_of_noPrefix h ops dq fuel mp stop hs hst b r vs nv ?_ hok
  by_cases hb : isBracketAtom s
  · exact prefix_bracket h hb ops dq mp b _ vs nv
  · rw [prefix_atom_other h hb ops dq mp stop hs.facts.1 hs.facts.2, hpre]

/-- `term` on a token that cannot start a term fails without consuming anything -/
theorem term_fails_on_stop (ops : Table) (dq : DoubleQuotes) (fuel mp : Nat) (stop : Token) (hs : EndTok stop)
    (hst : Stops mp stop) (b r : List Token) (vs : Vars) (nv : Nat) :
    term ops dq (fuel + 3) mp ⟨b, stop :: r, vs, nv⟩ = (.error .expectation, ⟨b, stop :: r, vs, nv⟩) := by
  have hp : «prefix» ops dq mp ⟨b, stop :: r, vs, nv⟩ = (.error .noOp, ⟨b, stop :: r, vs, nv⟩) := by
    simp [«prefix», op_stop hst]
  have ha := atom_stop hst dq b r vs nv
  rcases hs with hk | hk | hk <;>
    simp [term, hp, term0, term0Atom, Read.next, Read.backup, hk, ha]

/-- at the top (priority 1201) an atom that is a prefix operator is still read as an atom: the
    operand is missing, so `term` falls back to `term0` -/
theorem term_atom_top {s : List Char} {toks : List Token} (h : AtomToks s toks) (ops : Table)
    (dq : DoubleQuotes) (fuel : Nat) (stop : Token) (hk : stop.kind = .end_)
    (b r : List Token) (vs : Vars) (nv : Nat) :
    term ops dq (fuel + 5) 1201 ⟨b, toks ++ stop :: r, vs, nv⟩ =
      (.ok (.atom (String.ofList s)), ⟨toks.reverse ++ b, stop :: r, vs, nv⟩) := by
  have hs : EndTok stop := .inl hk
  by_cases hb : isBracketAtom s
  · exact term_atom_of_noPrefix h ops dq (fuel + 1) 1201 stop hs (.inl hk) b r vs nv
      (prefix_bracket h hb ops dq 1201 b _ vs nv) (by simp)
  cases hpre : (opOf ops (String.ofList s) .pre).filter (fun o => o.pri ≤ 1201) with
  | none =>
    exact term_atom h ops dq (fuel + 1) 1201 stop hs (.inl hk) hpre (by simp) b r vs nv
  | some o =>
    obtain ⟨t, rfl⟩ := atomToks_single h hb
    have hp := prefix_atom_other h hb ops dq 1201 stop hs.facts.1 hs.facts.2 b r vs nv
    rw [hpre] at hp
    have hfail := term_fails_on_stop ops dq (fuel + 1) (bindingPriorities o).2 stop hs
      (.inl hk) ([t].reverse ++ b) r vs nv
    have ht0 := term0_atomToks h ops dq (fuel + 3) 1201 b (stop :: r) vs nv
    have ht0a := term0Atom_atom h ops dq (fuel + 1) 1201 stop hs b r vs nv
    simp only [List.singleton_append] at hp ht0 ht0a
    simp only [term, List.singleton_append, hp, hfail]
    simp only [List.reverse_cons, List.reverse_nil, List.nil_append, List.singleton_append, Read.backup]
    rw [ht0, ht0a]
    simp

/-! ## `arg` -/

theorem opOf_none_of_not_defined (ops : Table) (a : String) (c : Class) (h : defined ops a = false) :
    opOf ops a c = none := by
  unfold opOf Ops.lookup
  have : ops.find? (fun o => slot o a c) = none := by
    rw [List.find?_eq_none]
    intro o ho hs
    have hd : defined ops a = true := by
      unfold defined
      rw [List.any_eq_true]
      refine ⟨o, ho, ?_⟩
      simp only [slot, Bool.and_eq_true] at hs
      exact hs.1
    rw [h] at hd; cases hd
  simp [this]

/-- an atom as an argument: an operator atom followed by `,` or `)` is taken as it is, any other
    atom goes through `term(999)` -/
theorem arg_atom {s : List Char} {toks : List Token} (h : AtomToks s toks) (ops : Table)
    (dq : DoubleQuotes) (fuel : Nat) (stop : Token) (hk : stop.kind = .comma ∨ stop.kind = .close)
    (b r : List Token) (vs : Vars) (nv : Nat) :
    arg ops dq (fuel + 5) ⟨b, toks ++ stop :: r, vs, nv⟩ =
      (.ok (.atom (String.ofList s)), ⟨toks.reverse ++ b, stop :: r, vs, nv⟩) := by
  have hs : EndTok stop := by rcases hk with hk | hk; exact .inr (.inr hk); exact .inr (.inl hk)
  have hst : Stops 999 stop := by
    rcases hk with hk | hk
    · exact .inr (.inr ⟨hk, by decide⟩)
    · exact .inr (.inl hk)
  simp only [arg, atom_atomToks h]
  by_cases hd : defined ops (String.ofList s) = true
  · rcases hk with hk | hk <;> simp [hd, Read.next, Read.backup, hk]
  · have hd' : defined ops (String.ofList s) = false := by simpa using hd
    simp only [hd, Bool.false_eq_true, if_false]
    change term ops dq (fuel + 4) 999 (rewind ⟨toks.reverse ++ b, stop :: r, vs, nv⟩) = _
    rw [rewind_atomToks h]
    exact term_atom h ops dq fuel 999 stop hs hst (by rw [opOf_none_of_not_defined ops _ _ hd']; rfl)
      (by simp [hd']) b r vs nv

theorem backup_cons (t : Token) (b a : List Token) (vs : Vars) (nv : Nat) :
    Read.backup ⟨t :: b, a, vs, nv⟩ = ⟨b, t :: a, vs, nv⟩ := rfl

/-- a term that starts with an atom followed by a token other than `,` `)` `|` `]` (a functor and its
    `(`, or `-` and a number): `arg` un-reads the atom and calls `term(999)` -/
theorem arg_to_term_atom {s : List Char} {toks : List Token} (h : AtomToks s toks) (ops : Table)
    (dq : DoubleQuotes) (fuel : Nat) (nxt : Token)
    (hn : nxt.kind ≠ .comma ∧ nxt.kind ≠ .close ∧ nxt.kind ≠ .bar ∧ nxt.kind ≠ .closeList)
    (b r : List Token) (vs : Vars) (nv : Nat) :
    arg ops dq (fuel + 1) ⟨b, toks ++ nxt :: r, vs, nv⟩ = term ops dq fuel 999 ⟨b, toks ++ nxt :: r, vs, nv⟩ := by
  simp only [arg, atom_atomToks h]
  by_cases hd : defined ops (String.ofList s) = true
  · simp only [hd, if_true, Read.next, hn.1, hn.2.1, hn.2.2.1, hn.2.2.2, or_self, if_false, backup_cons]
    change term ops dq fuel 999 (rewind ⟨toks.reverse ++ b, nxt :: r, vs, nv⟩) = _
    rw [rewind_atomToks h]
  · simp only [hd, Bool.false_eq_true, if_false]
    change term ops dq fuel 999 (rewind ⟨toks.reverse ++ b, nxt :: r, vs, nv⟩) = _
    rw [rewind_atomToks h]

/-- a term that starts with a variable or number token: `arg` is `term(999)` -/
theorem arg_to_term_tok (ops : Table) (dq : DoubleQuotes) (fuel : Nat) (t : Token)
    (hk : t.kind = .variable ∨ t.kind = .integer ∨ t.kind = .floatNumber)
    (b r : List Token) (vs : Vars) (nv : Nat) :
    arg ops dq (fuel + 1) ⟨b, t :: r, vs, nv⟩ = term ops dq fuel 999 ⟨b, t :: r, vs, nv⟩ := by
  rcases hk with hk | hk | hk <;> simp [arg, Read.atom, Read.name, Read.next, Read.backup, hk]

/-! ## variables -/

/-- `p.Vars` after the variables `seen` have been met, in this order -/
def mkVars (e : Env) : List Nat → Nat → Vars
  | [], _ => []
  | x :: xs, k => (e.varName x, k) :: mkVars e xs (k + 1)

def VarsOK (e : Env) (vs : Vars) (nv : Nat) (seen : List Nat) : Prop := vs = mkVars e seen 0 ∧ nv = seen.length

theorem lookup_mkVars (e : Env) (hinj : ∀ v w, e.varName v = e.varName w → v = w) (v : Nat) (xs : List Nat) (k : Nat) :
    (mkVars e xs k).lookup (e.varName v) = indexOf?.go v xs k := by
  induction xs generalizing k with
  | nil => simp [mkVars, indexOf?.go]
  | cons x xs ih =>
    simp only [mkVars, indexOf?.go, List.lookup]
    by_cases hx : x = v
    · subst hx; simp
    · have : (e.varName v == e.varName x) = false := by
        simp only [beq_eq_false_iff_ne, ne_eq]
        intro h; exact hx (hinj _ _ h).symm
      simp [this, hx, ih]

theorem mkVars_append (e : Env) (xs : List Nat) (v k : Nat) :
    mkVars e (xs ++ [v]) k = mkVars e xs k ++ [(e.varName v, k + xs.length)] := by
  induction xs generalizing k with
  | nil => simp [mkVars]
  | cons x xs ih => simp [mkVars, ih, Nat.add_assoc, Nat.add_comm 1]

theorem variable_spec (e : Env) (hinj : ∀ v w, e.varName v = e.varName w → v = w) (v : Nat)
    (hlen : 2 ≤ (e.varName v).length) (b a : List Token) (vs : Vars) (nv : Nat) (seen : List Nat)
    (hv : VarsOK e vs nv seen) :
    ∃ vs' nv', «variable» (e.varName v) ⟨b, a, vs, nv⟩ = (.ok ((Term.var v).canonAux seen).1, ⟨b, a, vs', nv'⟩) ∧
      VarsOK e vs' nv' ((Term.var v).canonAux seen).2 := by
  obtain ⟨rfl, rfl⟩ := hv
  have hne : e.varName v ≠ ['_'] := by
    intro h; rw [h] at hlen; simp at hlen
  simp only [«variable», hne, if_false, lookup_mkVars e hinj, Term.canonAux, indexOf?]
  cases hgo : indexOf?.go v seen 0 with
  | some i => exact ⟨_, _, rfl, rfl, rfl⟩
  | none =>
    refine ⟨_, _, rfl, ?_, by simp⟩
    simp [mkVars_append]

/-! ## the specifications -/

section
variable (e : Env) (G : UInt64 → GText) (P : UInt64 → Bool) (ops : Table) (dq : DoubleQuotes)

/-- `term` reads the tokens of `t` followed by a stop token as `t` (canonically renamed) -/
def TermSpec (t : Term) : Prop :=
  ∀ (fuel mp : Nat) (stop : Token) (b r : List Token) (vs : Vars) (nv : Nat) (seen : List Nat),
    Stops mp stop → EndTok stop → 8 * (ctoks e G t).length ≤ fuel → VarsOK e vs nv seen →
    ∃ vs' nv', term ops dq fuel mp ⟨b, ctoks e G t ++ stop :: r, vs, nv⟩ =
        (.ok (t.canonAux seen).1, ⟨(ctoks e G t).reverse ++ b, stop :: r, vs', nv'⟩) ∧
      VarsOK e vs' nv' (t.canonAux seen).2

/-- `arg` does the same for an argument followed by `,` or `)` -/
def ArgSpec (t : Term) : Prop :=
  ∀ (fuel : Nat) (stop : Token) (b r : List Token) (vs : Vars) (nv : Nat) (seen : List Nat),
    (stop.kind = .comma ∨ stop.kind = .close) → 8 * (ctoks e G t).length + 1 ≤ fuel → VarsOK e vs nv seen →
    ∃ vs' nv', arg ops dq fuel ⟨b, ctoks e G t ++ stop :: r, vs, nv⟩ =
        (.ok (t.canonAux seen).1, ⟨(ctoks e G t).reverse ++ b, stop :: r, vs', nv'⟩) ∧
      VarsOK e vs' nv' (t.canonAux seen).2

def isAtomTerm : Term → Bool
  | .atom _ => true
  | _ => false

theorem atomToks_atomTokens (he : EnvOK e G P) (a : String) : AtomToks a.toList (atomTokens e.cfg a.toList) :=
  (atomTokens_spec e.cfg he.conv a.toList [] (HeadIs.nil _)).1

theorem atomToks_length {s : List Char} {toks : List Token} (h : AtomToks s toks) : 1 ≤ toks.length := by
  cases h <;> simp

theorem stops999 {stop : Token} (hk : stop.kind = .comma ∨ stop.kind = .close) : Stops 999 stop ∧ EndTok stop := by
  rcases hk with hk | hk
  · exact ⟨.inr (.inr ⟨hk, by decide⟩), .inr (.inr hk)⟩
  · exact ⟨.inr (.inl hk), .inr (.inl hk)⟩

/-- an atom as an argument -/
theorem argSpec_atom (he : EnvOK e G P) (a : String) : ArgSpec e G ops dq (.atom a) := by
  intro fuel stop b r vs nv seen hk hf hv
  have hat := atomToks_atomTokens e G P he a
  have hl := atomToks_length hat
  simp only [ctoks] at hf ⊢
  obtain ⟨f, rfl⟩ : ∃ f, fuel = f + 5 := ⟨fuel - 5, by omega⟩
  refine ⟨vs, nv, ?_, hv⟩
  rw [arg_atom hat ops dq f stop hk]
  simp [Term.canonAux]

/-- anything else as an argument: `arg` is `term(999)` -/
theorem argSpec_of_termSpec (he : EnvOK e G P) (t : Term) (hw : wfTerm t = true) (hna : isAtomTerm t = false)
    (ht : TermSpec e G ops dq t) : ArgSpec e G ops dq t := by
  intro fuel stop b r vs nv seen hk hf hv
  obtain ⟨hst, hen⟩ := stops999 hk
  obtain ⟨f, rfl⟩ : ∃ f, fuel = f + 1 := ⟨fuel - 1, by omega⟩
  have key : arg ops dq (f + 1) ⟨b, ctoks e G t ++ stop :: r, vs, nv⟩ =
      term ops dq f 999 ⟨b, ctoks e G t ++ stop :: r, vs, nv⟩ := by
    cases t with
    | var v => exact arg_to_term_tok ops dq f _ (.inl rfl) b _ vs nv
    | atom a => simp [isAtomTerm] at hna
    | int i =>
      simp only [ctoks, intTokens]
      split
      · exact arg_to_term_atom (.name minusTok (.inr (.inl rfl)) rfl) ops dq f _ (by simp) b _ vs nv
      · exact arg_to_term_tok ops dq f _ (.inr (.inl rfl)) b _ vs nv
    | flt x =>
      simp only [ctoks, floatTokens]
      split
      · exact arg_to_term_atom (.name minusTok (.inr (.inl rfl)) rfl) ops dq f _ (by simp) b _ vs nv
      · exact arg_to_term_tok ops dq f _ (.inr (.inr rfl)) b _ vs nv
    | str _ => simp [wfTerm] at hw
    | app fn as =>
      cases as with
      | nil => simp [wfTerm] at hw
      | cons a rest =>
        simp only [ctoks, List.append_assoc, List.singleton_append, List.cons_append]
        exact arg_to_term_atom (atomToks_atomTokens e G P he fn) ops dq f _ (by simp) b _ vs nv
  rw [key]
  exact ht f 999 stop b r vs nv seen hst hen (by omega) hv

/-! ## leaves -/

theorem termSpec_var (he : EnvOK e G P) (v : Nat) : TermSpec e G ops dq (.var v) := by
  intro fuel mp stop b r vs nv seen hst hen hf hv
  simp only [ctoks, List.length_singleton] at hf
  obtain ⟨f, rfl⟩ : ∃ f, fuel = f + 2 := ⟨fuel - 2, by omega⟩
  obtain ⟨vs', nv', h1, h2⟩ := variable_spec e he.varInj v (he.varShape v).2 (⟨.variable, e.varName v⟩ :: b)
    (stop :: r) vs nv seen hv
  refine ⟨vs', nv', ?_, h2⟩
  have hp : «prefix» ops dq mp ⟨b, ⟨.variable, e.varName v⟩ :: stop :: r, vs, nv⟩ =
      (.error .noOp, ⟨b, ⟨.variable, e.varName v⟩ :: stop :: r, vs, nv⟩) := by
    simp [«prefix», Read.op, Read.atom, Read.name, Read.next, Read.backup]
  simp only [ctoks, List.singleton_append, term, hp, term0, Read.next, h1]
  simp only [List.reverse_cons, List.reverse_nil, List.nil_append, List.singleton_append]
  exact infixLoop_stop hst ops dq f _ _ _ _ _

theorem termSpec_int (i : Int) (hlo : -9223372036854775808 ≤ i) (hhi : i ≤ 9223372036854775807) :
    TermSpec e G ops dq (.int i) := by
  intro fuel mp stop b r vs nv seen hst hen hf hv
  have hint := integer_formatInt i hlo hhi
  refine ⟨vs, nv, ?_, by simpa [Term.canonAux] using hv⟩
  simp only [ctoks, intTokens] at hf ⊢
  by_cases hneg : i < 0
  · simp only [hneg, if_true, List.cons_append, List.nil_append, List.length_cons, List.length_nil] at hint hf ⊢
    obtain ⟨f, rfl⟩ : ∃ f, fuel = f + 3 := ⟨fuel - 3, by omega⟩
    rw [show minusTok = ⟨.graphic, ['-']⟩ from rfl,
      term_minus_number ops dq f mp _ stop (.int i) rfl (by simp [numberTerm, hint]; rfl) hst]
    simp [Term.canonAux]
  · simp only [hneg, if_false, List.nil_append, List.singleton_append, List.length_cons, List.length_nil] at hint hf ⊢
    obtain ⟨f, rfl⟩ : ∃ f, fuel = f + 2 := ⟨fuel - 2, by omega⟩
    rw [term_number ops dq f mp _ stop (.int i) rfl (by simp [numberTerm, hint]; rfl) hst]
    simp [Term.canonAux]

theorem termSpec_flt (he : EnvOK e G P) (x : UInt64) (hx : P x = true) : TermSpec e G ops dq (.flt x) := by
  intro fuel mp stop b r vs nv seen hst hen hf hv
  have hlaw := he.fltLaw x hx
  refine ⟨vs, nv, ?_, by simpa [Term.canonAux] using hv⟩
  simp only [ctoks, floatTokens] at hf ⊢
  by_cases hneg : (G x).neg = true
  · simp only [hneg, if_true, List.cons_append, List.nil_append, List.length_cons, List.length_nil] at hlaw hf ⊢
    obtain ⟨f, rfl⟩ : ∃ f, fuel = f + 3 := ⟨fuel - 3, by omega⟩
    rw [show minusTok = ⟨.graphic, ['-']⟩ from rfl,
      term_minus_number ops dq f mp _ stop (.flt x) rfl (by simp [numberTerm, hlaw]) hst]
    simp [Term.canonAux]
  · have hneg' : (G x).neg = false := by simpa using hneg
    simp only [hneg', Bool.false_eq_true, if_false, List.nil_append, List.singleton_append, List.length_cons,
      List.length_nil] at hlaw hf ⊢
    obtain ⟨f, rfl⟩ : ∃ f, fuel = f + 2 := ⟨fuel - 2, by omega⟩
    rw [term_number ops dq f mp _ stop (.flt x) rfl (by simp [numberTerm, hlaw]) hst]
    simp [Term.canonAux]

/-! ## compounds -/

/-- the `for` loop of `functionalNotation` on the remaining arguments and the closing `)` -/
def TailSpec (as : Args) : Prop :=
  ∀ (fuel : Nat) (functor : String) (acc : List Term) (closeTok : Token) (b r : List Token) (vs : Vars) (nv : Nat)
    (seen : List Nat),
    closeTok.kind = .close → 8 * (tailToks e G as).length + 1 ≤ fuel → VarsOK e vs nv seen →
    ∃ vs' nv', argsLoop ops dq fuel functor acc ⟨b, tailToks e G as ++ closeTok :: r, vs, nv⟩ =
        (.ok (Read.apply functor (acc ++ (as.canonAux seen).1.toList)),
          ⟨closeTok :: ((tailToks e G as).reverse ++ b), r, vs', nv'⟩) ∧
      VarsOK e vs' nv' (as.canonAux seen).2

theorem argSpec_any (he : EnvOK e G P) (a : Term) (hw : wfTerm a = true)
    (h : isAtomTerm a = false → TermSpec e G ops dq a) : ArgSpec e G ops dq a := by
  cases a with
  | atom s => exact argSpec_atom e G P ops dq he s
  | var v => exact argSpec_of_termSpec e G P ops dq he _ hw rfl (h rfl)
  | int i => exact argSpec_of_termSpec e G P ops dq he _ hw rfl (h rfl)
  | flt x => exact argSpec_of_termSpec e G P ops dq he _ hw rfl (h rfl)
  | str n => exact argSpec_of_termSpec e G P ops dq he _ hw rfl (h rfl)
  | app f as => exact argSpec_of_termSpec e G P ops dq he _ hw rfl (h rfl)

theorem tailSpec_nil : TailSpec e G ops dq .nil := by
  intro fuel functor acc closeTok b r vs nv seen hk hf hv
  obtain ⟨f, rfl⟩ : ∃ f, fuel = f + 1 := ⟨fuel - 1, by omega⟩
  refine ⟨vs, nv, ?_, by simpa [Args.canonAux] using hv⟩
  simp [tailToks, argsLoop, Read.next, hk, Args.canonAux, Args.toList]

/-- the first token after an argument -/
theorem tailToks_head (as : Args) (closeTok : Token) (r : List Token) (hk : closeTok.kind = .close) :
    ∃ stop r', tailToks e G as ++ closeTok :: r = stop :: r' ∧ (stop.kind = .comma ∨ stop.kind = .close) := by
  cases as with
  | nil => exact ⟨closeTok, r, by simp [tailToks], .inr hk⟩
  | cons a rest => exact ⟨⟨.comma, [',']⟩, ctoks e G a ++ (tailToks e G rest ++ closeTok :: r), by simp [tailToks], .inl rfl⟩

theorem tailSpec_cons (a : Term) (rest : Args) (ha : ArgSpec e G ops dq a) (hr : TailSpec e G ops dq rest) :
    TailSpec e G ops dq (.cons a rest) := by
  intro fuel functor acc closeTok b r vs nv seen hk hf hv
  simp only [tailToks, List.length_append, List.length_cons, List.length_nil] at hf
  obtain ⟨f, rfl⟩ : ∃ f, fuel = f + 1 := ⟨fuel - 1, by omega⟩
  obtain ⟨stop, r', hsr, hsk⟩ := tailToks_head e G rest closeTok r hk
  obtain ⟨vs1, nv1, h1, hv1⟩ := ha f stop (⟨.comma, [',']⟩ :: b) r' vs nv seen hsk (by omega) hv
  obtain ⟨vs2, nv2, h2, hv2⟩ := hr f functor (acc ++ [(a.canonAux seen).1]) closeTok
    ((ctoks e G a).reverse ++ ⟨.comma, [',']⟩ :: b) r vs1 nv1 (a.canonAux seen).2 hk (by omega) hv1
  refine ⟨vs2, nv2, ?_, by simpa [Args.canonAux] using hv2⟩
  have e1 : tailToks e G (.cons a rest) ++ closeTok :: r =
      ⟨.comma, [',']⟩ :: (ctoks e G a ++ stop :: r') := by
    simp only [tailToks, List.append_assoc, List.singleton_append, List.cons_append, List.nil_append, hsr]
  rw [e1]
  simp only [argsLoop, Read.next, h1]
  rw [← hsr, h2]
  simp [Args.canonAux, Args.toList, tailToks, List.append_assoc]

/-- the tokens of a compound, read by `term` -/
theorem termSpec_app (he : EnvOK e G P) (f : String) (a : Term) (rest : Args) (ha : ArgSpec e G ops dq a)
    (hr : TailSpec e G ops dq rest) : TermSpec e G ops dq (.app f (.cons a rest)) := by
  intro fuel mp stop b r vs nv seen hst hen hf hv
  have hat := atomToks_atomTokens e G P he f
  have hl := atomToks_length hat
  simp only [ctoks, List.length_append, List.length_cons, List.length_nil] at hf
  obtain ⟨F, rfl⟩ : ∃ F, fuel = F + 5 := ⟨fuel - 5, by omega⟩
  obtain ⟨stop1, r1, hsr, hsk⟩ := tailToks_head e G rest ⟨.close, [')']⟩ (stop :: r) rfl
  -- the state after the functor and `(`
  obtain ⟨vs1, nv1, h1, hv1⟩ := ha (F + 1) stop1
    (⟨.openCT, ['(']⟩ :: ((atomTokens e.cfg f.toList).reverse ++ b)) r1 vs nv seen hsk (by omega) hv
  obtain ⟨vs2, nv2, h2, hv2⟩ := hr (F + 1) f [(a.canonAux seen).1] ⟨.close, [')']⟩
    ((ctoks e G a).reverse ++ ⟨.openCT, ['(']⟩ :: ((atomTokens e.cfg f.toList).reverse ++ b)) (stop :: r) vs1 nv1
    (a.canonAux seen).2 rfl (by omega) hv1
  refine ⟨vs2, nv2, ?_, by simpa [Term.canonAux, Args.canonAux] using hv2⟩
  have e1 : ctoks e G (.app f (.cons a rest)) ++ stop :: r =
      atomTokens e.cfg f.toList ++ ⟨.openCT, ['(']⟩ :: (ctoks e G a ++ stop1 :: r1) := by
    simp only [ctoks, List.append_assoc, List.singleton_append, List.cons_append, List.nil_append, hsr]
  rw [e1]
  have hp := prefix_atom_openCT hat ops dq mp ⟨.openCT, ['(']⟩ rfl b (ctoks e G a ++ stop1 :: r1) vs nv
  have ht0 := term0_atomToks hat ops dq (F + 3) mp b (⟨.openCT, ['(']⟩ :: (ctoks e G a ++ stop1 :: r1)) vs nv
  simp only [term, hp, ht0]
  -- term0Atom: the functor, not followed by a number; functionalNotation
  have hta : term0Atom ops dq (F + 3) mp
      ⟨b, atomTokens e.cfg f.toList ++ ⟨.openCT, ['(']⟩ :: (ctoks e G a ++ stop1 :: r1), vs, nv⟩ =
      (.ok (.app f (.cons (a.canonAux seen).1 (rest.canonAux (a.canonAux seen).2).1)),
        ⟨⟨.close, [')']⟩ :: ((tailToks e G rest).reverse ++ ((ctoks e G a).reverse ++
          ⟨.openCT, ['(']⟩ :: ((atomTokens e.cfg f.toList).reverse ++ b))), stop :: r, vs2, nv2⟩) := by
    have hfs : String.ofList f.toList = f := by simp
    have hfn : functionalNotation ops dq (F + 2) f
        ⟨(atomTokens e.cfg f.toList).reverse ++ b, ⟨.openCT, ['(']⟩ :: (ctoks e G a ++ stop1 :: r1), vs, nv⟩ =
        (.ok (.app f (.cons (a.canonAux seen).1 (rest.canonAux (a.canonAux seen).2).1)),
          ⟨⟨.close, [')']⟩ :: ((tailToks e G rest).reverse ++ ((ctoks e G a).reverse ++
            ⟨.openCT, ['(']⟩ :: ((atomTokens e.cfg f.toList).reverse ++ b))), stop :: r, vs2, nv2⟩) := by
      simp only [functionalNotation, Read.next, if_true, h1]
      rw [← hsr, h2]
      simp [Read.apply, Term.mk, Args.ofList]
    have hnum : isNumberKind Kind.openCT = false := rfl
    simp only [term0Atom, atom_atomToks hat, hfs]
    by_cases hm : f = "-"
    · rw [if_pos hm]
      simp only [Read.next, hnum, Bool.false_eq_true, if_false, backup_cons, hfn]
    · rw [if_neg hm]
      simp only [hfn]
  rw [hta]
  simp only
  have := infixLoop_stop hst ops dq (F + 3) (.app f (.cons (a.canonAux seen).1 (rest.canonAux (a.canonAux seen).2).1))
    (⟨.close, [')']⟩ :: ((tailToks e G rest).reverse ++ ((ctoks e G a).reverse ++
      ⟨.openCT, ['(']⟩ :: ((atomTokens e.cfg f.toList).reverse ++ b)))) r vs2 nv2
  rw [this]
  simp [ctoks, Term.canonAux, Args.canonAux, List.append_assoc]

mutual
  theorem termSpec_all (he : EnvOK e G P) : (t : Term) → wfTerm t = true → numsOK P t = true →
      isAtomTerm t = false → TermSpec e G ops dq t
    | .var v, _, _, _ => termSpec_var e G P ops dq he v
    | .int i, _, hi, _ => by
      simp only [numsOK, decide_eq_true_eq] at hi
      exact termSpec_int e G ops dq i hi.1 hi.2
    | .flt x, _, hi, _ => termSpec_flt e G P ops dq he x (by simpa [numsOK] using hi)
    | .atom _, _, _, h => by simp [isAtomTerm] at h
    | .str _, hw, _, _ => by simp [wfTerm] at hw
    | .app _ .nil, hw, _, _ => by simp [wfTerm] at hw
    | .app f (.cons a rest), hw, hi, _ => by
      simp only [wfTerm, Bool.and_eq_true] at hw
      simp only [numsOK, numsOKArgs, Bool.and_eq_true] at hi
      exact termSpec_app e G P ops dq he f a rest
        (argSpec_any e G P ops dq he a hw.1 (fun h => termSpec_all he a hw.1 hi.1 h))
        (tailSpec_all he rest hw.2 hi.2)
  theorem tailSpec_all (he : EnvOK e G P) : (as : Args) → wfArgs as = true → numsOKArgs P as = true →
      TailSpec e G ops dq as
    | .nil, _, _ => tailSpec_nil e G ops dq
    | .cons a rest, hw, hi => by
      simp only [wfArgs, Bool.and_eq_true] at hw
      simp only [numsOKArgs, Bool.and_eq_true] at hi
      exact tailSpec_cons e G ops dq a rest
        (argSpec_any e G P ops dq he a hw.1 (fun h => termSpec_all he a hw.1 hi.1 h))
        (tailSpec_all he rest hw.2 hi.2)
end

end

end PrologVerif.Write
