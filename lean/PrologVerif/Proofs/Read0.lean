/-
  Lemmas about Model/Read0 on the current token buffer (`Zip`), flag `g = true`:

    Mono k s s'   the tape (everything the lexer delivers) is unchanged, the cursor advanced by at
                  least k tokens, and no backup() found nothing to undo — the invariant behind
                  "every backup() undoes a delivered token" and "a call never ends before the position
                  it started at".

  Leaf functions are proved by unfolding; the recursive descent by induction on the fuel.
-/
import PrologVerif.Model.Read0
set_option linter.unusedSimpArgs false
namespace PrologVerif.Read0
open PrologVerif PrologVerif.Ops

/-! ## primitives -/

structure Mono (k : Nat) (s s' : Zip) : Prop where
  tape : s'.tape = s.tape
  pos  : s.pos + k ≤ s'.pos
  bad  : s.bad = false → s'.bad = false

theorem Mono.refl (s : Zip) : Mono 0 s s := ⟨rfl, Nat.le_refl _, id⟩

theorem Mono.weaken {j k : Nat} {s s' : Zip} (h : Mono k s s') (hj : j ≤ k) : Mono j s s' :=
  ⟨h.tape, by have := h.pos; omega, h.bad⟩

theorem Mono.trans {j k : Nat} {s s' s'' : Zip} (h1 : Mono j s s') (h2 : Mono k s' s'') : Mono (j + k) s s'' :=
  ⟨h2.tape.trans h1.tape, by have := h1.pos; have := h2.pos; omega, fun h => h2.bad (h1.bad h)⟩

theorem next_none {s s' : Zip} (h : Buf.next s = (none, s')) : s' = s := by
  simp only [Buf.next, Zip.next] at h
  split at h
  · simp at h
  · split at h
    · simp at h
    · simp at h; exact h.symm

theorem next_some {s s' : Zip} {t : Token} (h : Buf.next s = (some t, s')) :
    s'.tape = s.tape ∧ s'.pos = s.pos + 1 ∧ s'.bad = s.bad ∧ s'.before = t :: s.before := by
  simp only [Buf.next, Zip.next] at h
  split at h
  · next a ha =>
    simp at h; obtain ⟨rfl, rfl⟩ := h
    simp [Zip.tape, Zip.pos, ha]
  · next ha =>
    split at h
    · next r hr =>
      simp at h; obtain ⟨rfl, rfl⟩ := h
      simp [Zip.tape, Zip.pos, ha, hr]
    · simp at h

theorem Mono.next {k : Nat} {s s1 s2 : Zip} {t : Token} (h : Mono k s s1) (hn : Buf.next s1 = (some t, s2)) :
    Mono (k + 1) s s2 := by
  obtain ⟨h1, h2, h3, _⟩ := next_some hn
  exact ⟨h1.trans h.tape, by have := h.pos; omega, fun hb => by rw [h3]; exact h.bad hb⟩

/-- the key step: a backup() is justified by a token delivered since the call started -/
theorem Mono.backup {k : Nat} {s s1 : Zip} (h : Mono (k + 1) s s1) : Mono k s (Buf.backup s1) := by
  have hp := h.pos
  simp only [Buf.backup, Zip.backup]
  cases hb : s1.before with
  | nil => simp [Zip.pos, hb] at hp
  | cons t b =>
    refine ⟨?_, ?_, ?_⟩
    · rw [← h.tape]; simp [Zip.tape, hb]
    · simp [Zip.pos, hb] at hp ⊢; omega
    · intro h0; simpa using h.bad h0

theorem backup_before {s : Zip} {t : Token} {b : List Token} (h : s.before = t :: b) :
    (Buf.backup s : Zip).before = b ∧ Buf.current (Buf.backup s : Zip) = t := by
  simp [Buf.backup, Buf.current, Zip.backup, Zip.current, h]

/-- how many tokens are left -/
theorem Mono.rem {k : Nat} {s s' : Zip} (h : Mono k s s') : s'.rem + k ≤ s.rem := by
  have h1 : s.tape.length = s.pos + s.rem := by simp [Zip.tape, Zip.pos, Zip.rem]
  have h2 : s'.tape.length = s'.pos + s'.rem := by simp [Zip.tape, Zip.pos, Zip.rem]
  have := h.pos
  rw [h.tape] at h2
  omega

/-! ## leaf functions -/

/-- the last token consumed is not `]` or `}` -/
def LastNotCloser (s : Zip) : Prop :=
  ∃ t b, s.before = t :: b ∧ t.kind ≠ .closeList ∧ t.kind ≠ .closeCurly

theorem name_spec (s : Zip) :
    match name s with
    | (.ok _, s') => Mono 1 s s' ∧ LastNotCloser s'
    | (.err _, s') => Mono 0 s s'
    | (.fuel, _) => False := by
  unfold name
  cases hn : (Buf.next s : Option Token × Zip) with
  | mk o s1 =>
    cases o with
    | none => simp only []; rw [next_none hn]; exact Mono.refl s
    | some t =>
      have h1 : Mono 1 s s1 := by simpa using (Mono.refl s).next hn
      have hb := (next_some hn).2.2.2
      simp only []
      cases hk : t.kind <;> simp only [] <;> first
        | exact ⟨h1, t, _, hb, by simp [hk], by simp [hk]⟩
        | exact h1.backup

theorem name_ok {s s' : Zip} {a : String} (h : name s = (.ok a, s')) : Mono 1 s s' ∧ LastNotCloser s' := by
  have := name_spec s; rw [h] at this; exact this
theorem name_err {s s' : Zip} {e : PErr} (h : name s = (.err e, s')) : Mono 0 s s' := by
  have := name_spec s; rw [h] at this; exact this
theorem name_fuel {s s' : Zip} (h : name s = (.fuel, s')) : False := by
  have := name_spec s; rw [h] at this; exact this

/-- what a successful `atom` consumed: two tokens (`[` `]` or `{` `}`), or one token that is not a closer -/
def AtomOk (s s' : Zip) : Prop := Mono 2 s s' ∨ (Mono 1 s s' ∧ LastNotCloser s')

theorem AtomOk.mono1 {s s' : Zip} (h : AtomOk s s') : Mono 1 s s' := by
  cases h with
  | inl h => exact h.weaken (by omega)
  | inr h => exact h.1

theorem atom_spec (c : Cfg) (s : Zip) :
    match atom c s with
    | (.ok _, s') => AtomOk s s'
    | (.err _, s') => Mono 0 s s'
    | (.fuel, _) => False := by
  unfold atom
  cases hn : name s with
  | mk r s1 =>
    have h0 : Mono 0 s s1 := by
      cases r with
      | ok a => exact (name_ok hn).1.weaken (by omega)
      | err e => exact name_err hn
      | fuel => exact (name_fuel hn).elim
    cases r with
    | ok a => simp only []; exact Or.inr (name_ok hn)
    | fuel => exact (name_fuel hn).elim
    | err e =>
      simp only []
      cases hn2 : (Buf.next s1 : Option Token × Zip) with
      | mk o s2 =>
        cases o with
        | none => simp only []; rw [next_none hn2]; exact h0
        | some t =>
          have h1 : Mono 1 s s2 := by simpa using h0.next hn2
          have hb := (next_some hn2).2.2.2
          simp only []
          cases hk : t.kind <;> simp only []
          case openList =>
            cases hn3 : (Buf.next s2 : Option Token × Zip) with
            | mk o3 s3 =>
              cases o3 with
              | none => simp only []; rw [next_none hn3]; exact h1.weaken (by omega)
              | some u =>
                have h2 : Mono 2 s s3 := by simpa using h1.next hn3
                simp only []
                by_cases hu : u.kind = .closeList
                · simp only [hu, ↓reduceIte]; exact Or.inl h2
                · simp only [hu, ↓reduceIte]; exact h2.backup.backup
          case openCurly =>
            cases hn3 : (Buf.next s2 : Option Token × Zip) with
            | mk o3 s3 =>
              cases o3 with
              | none => simp only []; rw [next_none hn3]; exact h1.weaken (by omega)
              | some u =>
                have h2 : Mono 2 s s3 := by simpa using h1.next hn3
                simp only []
                by_cases hu : u.kind = .closeCurly
                · simp only [hu, ↓reduceIte]; exact Or.inl h2
                · simp only [hu, ↓reduceIte]; exact h2.backup.backup
          case doubleQuotedList =>
            by_cases hd : c.dq = .atom
            · simp only [hd, ↓reduceIte]; exact Or.inr ⟨h1, t, _, hb, by simp [hk], by simp [hk]⟩
            · simp only [hd, ↓reduceIte]; exact h1.backup
          all_goals exact h1.backup

theorem atom_ok {c : Cfg} {s s' : Zip} {a : String} (h : atom c s = (.ok a, s')) : AtomOk s s' := by
  have := atom_spec c s; rw [h] at this; exact this
theorem atom_err {c : Cfg} {s s' : Zip} {e : PErr} (h : atom c s = (.err e, s')) : Mono 0 s s' := by
  have := atom_spec c s; rw [h] at this; exact this
theorem atom_fuel {c : Cfg} {s s' : Zip} (h : atom c s = (.fuel, s')) : False := by
  have := atom_spec c s; rw [h] at this; exact this

/-- un-reading an atom: `p.backup(); if p.current().kind == closer { p.backup() }` -/
theorem AtomOk.unread {s s1 : Zip} (h : AtomOk s s1) (p : Kind → Prop) [DecidablePred p]
    (hp : ∀ k, p k → k = .closeList ∨ k = .closeCurly) :
    Mono 0 s (if p (Buf.current (Buf.backup s1 : Zip)).kind then Buf.backup (Buf.backup s1) else Buf.backup s1) := by
  cases h with
  | inl h2 =>
    split
    · exact h2.backup.backup
    · exact h2.backup.weaken (by omega)
  | inr h1 =>
    obtain ⟨h1, t, b, hb, hk1, hk2⟩ := h1
    have hc := (backup_before hb).2
    rw [hc]
    split
    · next hpk => cases hp _ hpk <;> contradiction
    · exact h1.backup

theorem op_spec (c : Cfg) (maxP : Int) (s : Zip) :
    match op c maxP s with
    | (.ok _, s') => Mono 1 s s'
    | (.err _, s') => Mono 0 s s'
    | (.fuel, _) => False := by
  unfold op
  cases ha : atom c s with
  | mk r s1 =>
    cases r with
    | fuel => exact (atom_fuel ha).elim
    | ok a =>
      have hok := atom_ok ha
      simp only []
      by_cases h1 : a = "[]"
      · simp only [h1, ↓reduceIte]
        exact hok.unread (· = .closeList) (by intro k hk; exact Or.inl hk)
      · by_cases h2 : a = "{}"
        · simp only [h1, h2, ↓reduceIte]
          exact hok.unread (· = .closeCurly) (by intro k hk; exact Or.inr hk)
        · simp only [h1, h2, ↓reduceIte]; exact hok.mono1
    | err e =>
      have h0 := atom_err ha
      simp only []
      cases hn : (Buf.next s1 : Option Token × Zip) with
      | mk o s2 =>
        cases o with
        | none => simp only []; rw [next_none hn]; exact h0
        | some t =>
          have h1 : Mono 1 s s2 := by simpa using h0.next hn
          simp only []
          by_cases hc : t.kind = .comma ∧ maxP ≥ 1000
          · simp only [hc, and_self, ↓reduceIte]; exact h1
          · by_cases hb : t.kind = .bar
            · simp only [hc, hb, ↓reduceIte]; exact h1
            · simp only [hc, hb, ↓reduceIte]; exact h1.backup

theorem op_ok {c : Cfg} {m : Int} {s s' : Zip} {a : String} (h : op c m s = (.ok a, s')) : Mono 1 s s' := by
  have := op_spec c m s; rw [h] at this; exact this
theorem op_err {c : Cfg} {m : Int} {s s' : Zip} {e : PErr} (h : op c m s = (.err e, s')) : Mono 0 s s' := by
  have := op_spec c m s; rw [h] at this; exact this
theorem op_fuel {c : Cfg} {m : Int} {s s' : Zip} (h : op c m s = (.fuel, s')) : False := by
  have := op_spec c m s; rw [h] at this; exact this

theorem prefixTail_spec (c : Cfg) (maxP : Int) (a : String) (s s2 : Zip) (h2 : Mono 1 s s2) :
    match prefixTail c maxP a s2 with
    | (.ok _, s') => Mono 1 s s'
    | (.err _, s') => Mono 0 s s'
    | (.fuel, _) => False := by
  unfold prefixTail
  cases hn : (Buf.next s2 : Option Token × Zip) with
  | mk o s3 =>
    cases o with
    | none => simp only []; rw [next_none hn]; exact h2.weaken (by omega)
    | some t =>
      have h3 : Mono 2 s s3 := by simpa using h2.next hn
      simp only []
      by_cases hk : t.kind = Kind.openCT
      · simp only [hk, ↓reduceIte]; exact h3.backup.backup
      · simp only [hk, ↓reduceIte]
        cases lookup c.ops a .pre with
        | none => exact h3.backup.backup
        | some o =>
          simp only []
          by_cases hp : (o.pri : Int) ≤ maxP
          · simp only [hp, ↓reduceIte]; exact h3.backup
          · simp only [hp, ↓reduceIte]; exact h3.backup.backup

theorem prefix_spec (c : Cfg) (maxP : Int) (s : Zip) :
    match prefixOp c maxP s with
    | (.ok _, s') => Mono 1 s s'
    | (.err _, s') => Mono 0 s s'
    | (.fuel, _) => False := by
  unfold prefixOp
  cases ho : op c maxP s with
  | mk r s1 =>
    cases r with
    | fuel => exact (op_fuel ho).elim
    | err e => exact op_err ho
    | ok a =>
      have h1 : Mono 1 s s1 := op_ok ho
      simp only []
      by_cases hm : a = "-"
      · simp only [hm, ↓reduceIte]
        cases hn : (Buf.next s1 : Option Token × Zip) with
        | mk o s2 =>
          cases o with
          | none => simp only []; rw [next_none hn]; exact h1.weaken (by omega)
          | some t =>
            have h2 : Mono 2 s s2 := by simpa using h1.next hn
            simp only []
            by_cases hk : t.kind = Kind.integer ∨ t.kind = Kind.floatNumber
            · simp only [hk, ↓reduceIte]; exact h2.backup.backup
            · simp only [hk, ↓reduceIte]
              exact prefixTail_spec c maxP "-" s _ h2.backup
      · simp only [hm, ↓reduceIte]
        exact prefixTail_spec c maxP a s s1 h1

theorem prefix_ok {c : Cfg} {m : Int} {s s' : Zip} {o : OpDef} (h : prefixOp c m s = (.ok o, s')) : Mono 1 s s' := by
  have := prefix_spec c m s; rw [h] at this; exact this
theorem prefix_err {c : Cfg} {m : Int} {s s' : Zip} {e : PErr} (h : prefixOp c m s = (.err e, s')) : Mono 0 s s' := by
  have := prefix_spec c m s; rw [h] at this; exact this
theorem prefix_fuel {c : Cfg} {m : Int} {s s' : Zip} (h : prefixOp c m s = (.fuel, s')) : False := by
  have := prefix_spec c m s; rw [h] at this; exact this

theorem infix_spec (c : Cfg) (maxP : Int) (s : Zip) :
    match infixOp c maxP s with
    | (.ok _, s') => Mono 1 s s'
    | (.err _, s') => Mono 0 s s'
    | (.fuel, _) => False := by
  unfold infixOp
  cases ho : op c maxP s with
  | mk r s1 =>
    cases r with
    | fuel => exact (op_fuel ho).elim
    | err e => exact op_err ho
    | ok a =>
      have h1 : Mono 1 s s1 := op_ok ho
      simp only []
      cases (lookup c.ops a .inf).filter (fun o => (o.pri : Int) ≤ maxP) with
      | some o => exact h1
      | none =>
        simp only []
        cases (lookup c.ops a .post).filter (fun o => (o.pri : Int) ≤ maxP) with
        | some o => exact h1
        | none => exact h1.backup

theorem infix_ok {c : Cfg} {m : Int} {s s' : Zip} {o : OpDef} (h : infixOp c m s = (.ok o, s')) : Mono 1 s s' := by
  have := infix_spec c m s; rw [h] at this; exact this
theorem infix_err {c : Cfg} {m : Int} {s s' : Zip} {e : PErr} (h : infixOp c m s = (.err e, s')) : Mono 0 s s' := by
  have := infix_spec c m s; rw [h] at this; exact this
theorem infix_fuel {c : Cfg} {m : Int} {s s' : Zip} (h : infixOp c m s = (.fuel, s')) : False := by
  have := infix_spec c m s; rw [h] at this; exact this

theorem more_mono (s : Zip) : Mono 0 s (more s).2 := by
  unfold more
  cases hn : (Buf.next s : Option Token × Zip) with
  | mk o s1 =>
    cases o with
    | none => simp only []; rw [next_none hn]; exact Mono.refl s
    | some t => simp only []; exact ((Mono.refl s).next hn).backup

/-- a look-ahead (`next` then `backup`) keeps what is known about the atom just read -/
theorem AtomOk.peek {s b1 b2 : Zip} {t : Token} (h : AtomOk s b1) (hn : Buf.next b1 = (some t, b2)) :
    AtomOk s (Buf.backup b2) := by
  have hb := (next_some hn).2.2.2
  have hbb := (backup_before hb).1
  cases h with
  | inl h2 => exact Or.inl (h2.next hn).backup
  | inr h1 =>
    obtain ⟨h1, u, b, hu, hk⟩ := h1
    exact Or.inr ⟨(h1.next hn).backup, u, b, by rw [hbb, hu], hk⟩

theorem minusLook_spec (a : String) (s b1 : Zip) (h : AtomOk s b1) :
    match minusLook a b1 with
    | (some none, b2) => Mono 1 s b2
    | (some (some _), b2) => Mono 2 s b2
    | (none, b2) => Mono 1 s b2 := by
  unfold minusLook
  by_cases hm : a = "-"
  · simp only [hm, ↓reduceIte]
    cases hn : (Buf.next b1 : Option Token × Zip) with
    | mk o b2 =>
      cases o with
      | none => simp only []; rw [next_none hn]; exact h.mono1
      | some t =>
        simp only []
        by_cases hk : t.kind = Kind.integer ∨ t.kind = Kind.floatNumber
        · simp only [hk, ↓reduceIte]; exact h.mono1.next hn
        · simp only [hk, ↓reduceIte]; exact (h.peek hn).mono1
  · simp only [hm, ↓reduceIte]; exact h.mono1

theorem argLook_spec (c : Cfg) (hg : c.g = true) (a : String) (s b1 : Zip) (h : AtomOk s b1) :
    match argLook c a b1 with
    | (true, b2) => Mono 1 s b2
    | (false, b2) => AtomOk s b2 := by
  unfold argLook
  by_cases hd : defined c.ops a = true
  · simp only [hd, ↓reduceIte]
    cases hn : (Buf.next b1 : Option Token × Zip) with
    | mk o b2 =>
      cases o with
      | none => simp only [hg, ↓reduceIte]; rw [next_none hn]; exact h
      | some t =>
        simp only []
        by_cases hk : t.kind = Kind.comma ∨ t.kind = Kind.close ∨ t.kind = Kind.bar ∨ t.kind = Kind.closeList
        · simp only [hk, ↓reduceIte]; exact (h.peek hn).mono1
        · simp only [hk, ↓reduceIte]; exact h.peek hn
  · simp only [hd]; exact h

theorem unreadAtom_spec (s b2 : Zip) (h : AtomOk s b2) : Mono 0 s (unreadAtom b2) := by
  unfold unreadAtom
  exact h.unread (fun k => k = Kind.closeList ∨ k = Kind.closeCurly) (fun _ hk => hk)

end PrologVerif.Read0
