/-
  Model of the all-solutions predicates:
    engine/builtin.go   FindAll, BagOf, SetOf, collectionOf, variant, iteratedGoalTerm, renamedCopy
    engine/variable.go  newVariableSet, newExistentialVariablesSet, newFreeVariablesSet
    engine/compound.go  Env.set, tuple
    engine/env.go       Resolve, Unify (without occurs check) as far as collectionOf/FindAll use them

  The model is independent of the execution model: the goal's behaviour is an INPUT, namely the
  sequence of its solutions (each solution = the instantiation of the call's terms) and the error
  it raised, if any.  All terms handed to the model are resolved in the environment of the call
  (Go resolves node by node with `env.Resolve`; for the acyclic environments of the streams that
  is the same as resolving up front), so the model starts from the empty environment.

  Deviations in form, not in behaviour (each is covered by the `c11.collect` stream):
  * Go's explicit work-lists (newVariableSet, newExistentialVariablesSet, variant) are written as
    structural recursion; the results are sets / a boolean and do not depend on the visiting order.
  * Go's `variableSet` (map variable ↦ number of occurrences) is the list of occurrences.
  * `NewVariable()` draws from a global counter; here the next fresh variable is threaded (`next`).
    Only the relative age of variables is observable (standard order), and it is preserved.
  * `sort.Slice` is modelled by insertion sort (trusted: it returns a sorted permutation; ties are
    identical terms, so the result does not depend on stability).
  * floats are compared by bit pattern (the stream generates no floats).
  * Go's unbounded recursion (Resolve, unify, writing a term) takes fuel; `none` = fuel exhausted,
    never a silently wrong value.  Properties/C11 gives explicit sufficient fuel where it matters.
  * `variant` is the function AFTER the repair of defect D11; `variantPinned` is the function of the
    pinned commit, kept for the witness theorems.
-/
import PrologVerif.Model.Errors
namespace PrologVerif.Collect
open PrologVerif

/-! ## variable sets (engine/variable.go) -/

mutual
  /-- `newVariableSet`: every variable occurrence, left to right -/
  def vars : Term → List Nat
    | .var v => [v]
    | .app _ as => varsArgs as
    | _ => []
  def varsArgs : Args → List Nat
    | .nil => []
    | .cons t ts => vars t ++ varsArgs ts
end

abbrev newVariableSet := vars

mutual
  /-- `newExistentialVariablesSet`: walks down the `^`-prefix `V1^V2^…^G` collecting vars(Vi) -/
  def newExistentialVariablesSet : Term → List Nat
    | .app f as => if f = "^" then existArgs as else []
    | _ => []
  def existArgs : Args → List Nat
    | .cons v (.cons g .nil) => vars v ++ newExistentialVariablesSet g
    | _ => []
end

/-- `newFreeVariablesSet(t, v)`: vars(t) minus (vars(v) ∪ existential vars of t) -/
def newFreeVariablesSet (t v : Term) : List Nat :=
  let bv := vars v ++ newExistentialVariablesSet t
  (vars t).filter fun x => decide (x ∉ bv)

def insertVar (x : Nat) : List Nat → List Nat
  | [] => [x]
  | y :: ys => if x < y then x :: y :: ys else if x = y then y :: ys else y :: insertVar x ys

/-- the keys of the Go map, sorted by variable number (`sort.Slice(w, …)` in collectionOf) -/
def sortVars (l : List Nat) : List Nat := l.foldr insertVar []

/-- `tuple`: `Atom(0).Apply(args...)` — the atom itself when there is no argument -/
def tuple (args : List Term) : Term := Term.mk "\x00" args

/-- the sorted free variables of `template^goal` -/
def freeVariables (goal template : Term) : List Nat := sortVars (newFreeVariablesSet goal template)

/-- the witness term of collectionOf -/
def witnessOf (goal template : Term) : Term := tuple ((freeVariables goal template).map .var)

mutual
  /-- `iteratedGoalTerm`: strips the `^`-prefix -/
  def iteratedGoalTerm : Term → Term
    | .app f as => if f = "^" then iterArgs (.app f as) as else .app f as
    | t => t
  def iterArgs (whole : Term) : Args → Term
    | .cons _ (.cons g .nil) => iteratedGoalTerm g
    | _ => whole
end

/-! ## renamedCopy -/

abbrev CopyMap := List (Nat × Nat)

mutual
  /-- `renamedCopy(t, copied, env)`: `m` is the `copied` map restricted to variables, `n` the next
      fresh variable; returns the copy, the extended map and the next fresh variable -/
  def renamedCopy : Term → CopyMap → Nat → Term × CopyMap × Nat
    | .var v, m, n =>
      match m.lookup v with
      | some v' => (.var v', m, n)
      | none => (.var n, (v, n) :: m, n + 1)
    | .app f as, m, n => let r := renamedCopyArgs as m n; (.app f r.1, r.2.1, r.2.2)
    | t, m, n => (t, m, n)
  def renamedCopyArgs : Args → CopyMap → Nat → Args × CopyMap × Nat
    | .nil, m, n => (.nil, m, n)
    | .cons t ts, m, n =>
      let r := renamedCopy t m n
      let r' := renamedCopyArgs ts r.2.1 r.2.2
      (.cons r.1 r'.1, r'.2.1, r'.2.2)
end

/-- the collecting continuation of FindAll: one `renamedCopy(template, nil, env)` per solution -/
def copyAll : List Term → Nat → List Term × Nat
  | [], n => ([], n)
  | t :: ts, n =>
    let r := renamedCopy t [] n
    let r' := copyAll ts r.2.2
    (r.1 :: r'.1, r'.2)

/-- the same for solutions of the form `W+T` (collectionOf), kept as pairs -/
def copyPairs : List (Term × Term) → Nat → List (Term × Term) × Nat
  | [], n => ([], n)
  | (w, t) :: ps, n =>
    let r := renamedCopy w [] n
    let r' := renamedCopy t r.2.1 r.2.2
    let rest := copyPairs ps r'.2.2
    ((r.1, r'.1) :: rest.1, rest.2)

/-! ## environments, Resolve, Unify (engine/env.go) -/

/-- bindings, newest first (the Go red-black tree is a finite map; C02 models its shape) -/
abbrev Env := List (Nat × Term)

def bind (e : Env) (v : Nat) (t : Term) : Env := (v, t) :: e

/-- `Env.Resolve`: follows variable bindings until an unbound variable or a non-variable.
    The Go loop is unbounded (its `stop` list only guards against variable cycles, which unify never
    creates); here it takes fuel, `none` = the chain is longer than the fuel. -/
def resolve (e : Env) : Nat → Term → Option Term
  | fuel + 1, .var v =>
    match e.lookup v with
    | some t => resolve e fuel t
    | none => some (.var v)
  | 0, .var v =>
    match e.lookup v with
    | some _ => none
    | none => some (.var v)
  | _, t => some t

mutual
  /-- `Env.unify(x, y, false)`.  `none` = out of fuel.  As in Go the environment returned on
      failure keeps the bindings made before the mismatch. -/
  def unify (e : Env) : Nat → Term → Term → Option (Env × Bool)
    | 0, _, _ => none
    | fuel + 1, x, y =>
      match resolve e fuel x, resolve e fuel y with
      | some (.var a), some y' => if Term.var a = y' then some (e, true) else some (bind e a y', true)
      | some (.app f as), some (.var b) => some (bind e b (.app f as), true)
      | some (.app f as), some (.app g bs) =>
        if f ≠ g then some (e, false)
        else if as.length ≠ bs.length then some (e, false)
        else unifyArgs e fuel as bs
      | some (.app _ _), some _ => some (e, false)
      | some x', some (.var b) => some (bind e b x', true)
      | some x', some y' => some (e, decide (x' = y'))
      | _, _ => none
  def unifyArgs (e : Env) : Nat → Args → Args → Option (Env × Bool)
    | 0, _, _ => none
    | _ + 1, .nil, .nil => some (e, true)
    | _ + 1, .nil, .cons _ _ => some (e, false)
    | _ + 1, .cons _ _, .nil => some (e, false)
    | fuel + 1, .cons a as, .cons b bs =>
      match unify e fuel a b with
      | some (e', true) => unifyArgs e' fuel as bs
      | r => r
end

mutual
  /-- full resolution of a term (what writing an answer does).  `path` = variables being expanded;
      meeting one of them again means the environment is cyclic (possible without occurs check):
      `none`. -/
  def applyEnv (e : Env) : Nat → List Nat → Term → Option Term
    | 0, _, _ => none
    | fuel + 1, path, .var v =>
      if v ∈ path then none else
      match e.lookup v with
      | some t => applyEnv e fuel (v :: path) t
      | none => some (.var v)
    | fuel + 1, path, .app f as => (applyArgs e fuel path as).map (.app f)
    | _ + 1, _, t => some t
  def applyArgs (e : Env) : Nat → List Nat → Args → Option Args
    | 0, _, _ => none
    | _ + 1, _, .nil => some .nil
    | fuel + 1, path, .cons t ts =>
      match applyEnv e fuel path t, applyArgs e fuel path ts with
      | some t', some ts' => some (.cons t' ts')
      | _, _ => none
end

/-! ## variant (engine/builtin.go) -/

abbrev VMap := List (Nat × Nat)

/-- the variable/variable case of `variant`: `s[x]` must be `y` if present, else it is set -/
def stepMap (s : VMap) (x y : Nat) : Option VMap :=
  match s.lookup x with
  | some z => if z = y then some s else none
  | none => some ((x, y) :: s)

/-- pinned tree: only the map t1-variables ↦ t2-variables is kept (not checked for injectivity) -/
def stepPinned (s : VMap) (x y : Nat) : Option VMap := stepMap s x y

/-- repaired tree: the inverse map is kept and checked too -/
def stepFixed (sr : VMap × VMap) (x y : Nat) : Option (VMap × VMap) :=
  match stepMap sr.1 x y with
  | none => none
  | some s =>
    match stepMap sr.2 y x with
    | none => none
    | some r => some (s, r)

mutual
  def variantAux {σ : Type} (step : σ → Nat → Nat → Option σ) : Term → Term → σ → Option σ
    | .var x, .var y, s => step s x y
    | .var _, _, _ => none
    | .app f as, .app g bs, s => if f = g then variantArgs step as bs s else none
    | .app _ _, _, _ => none
    | x, y, s => if x = y then some s else none
  def variantArgs {σ : Type} (step : σ → Nat → Nat → Option σ) : Args → Args → σ → Option σ
    | .nil, .nil, s => some s
    | .cons a as, .cons b bs, s =>
      match variantAux step a b s with
      | some s' => variantArgs step as bs s'
      | none => none
    | _, _, _ => none
end

/-- `variant` as it is at the pinned commit (defect D11) -/
def variantPinned (t1 t2 : Term) : Bool := (variantAux stepPinned t1 t2 []).isSome

/-- `variant` after the repair -/
def variant (t1 t2 : Term) : Bool := (variantAux stepFixed t1 t2 ([], [])).isSome

/-! ## the grouping loop of collectionOf -/

/-- `for len(s) > 0 { take s[0]; move every later pair whose witness is a variant of it }`.
    The inner loop is a stable partition; the outer loop runs at most `len(s)` times (fuel). -/
def groupsAux (test : Term → Term → Bool) : Nat → List (Term × Term) → List (List (Term × Term))
  | _, [] => []
  | 0, _ :: _ => []
  | fuel + 1, (w, t) :: s =>
    let r := s.partition fun p => test p.1 w
    ((w, t) :: r.1) :: groupsAux test fuel r.2

def groupsBy (test : Term → Term → Bool) (s : List (Term × Term)) : List (List (Term × Term)) :=
  groupsAux test s.length s

def groups := groupsBy variant

/-! ## Env.set (engine/compound.go): sort, then drop adjacent duplicates -/

def insertSorted {α : Type} (cmp : α → α → Ordering) (x : α) : List α → List α
  | [] => [x]
  | y :: ys => if cmp x y = .lt then x :: y :: ys else y :: insertSorted cmp x ys

def sortBy {α : Type} (cmp : α → α → Ordering) (l : List α) : List α := l.foldr (insertSorted cmp) []

/-- the `us` loop of `Env.set`: skip `t` when it compares equal to the last element kept -/
def dedupFrom {α : Type} (cmp : α → α → Ordering) (last : α) : List α → List α
  | [] => []
  | t :: ts => if cmp last t = .eq then dedupFrom cmp last ts else t :: dedupFrom cmp t ts

def dedupAdj {α : Type} (cmp : α → α → Ordering) : List α → List α
  | [] => []
  | x :: xs => x :: dedupFrom cmp x xs

def set {α : Type} (cmp : α → α → Ordering) (l : List α) : List α := dedupAdj cmp (sortBy cmp l)

/-! ## standard order on resolved terms (the `Compare` methods), as far as Env.set needs it -/

def typeRank : Term → Nat
  | .var _ => 0 | .flt _ => 1 | .int _ => 2 | .atom _ => 3 | .str _ => 4 | .app _ _ => 5

mutual
  def compareStd : Term → Term → Ordering
    | .var a, .var b => compare a b
    | .flt a, .flt b => compare a.toNat b.toNat
    | .int a, .int b => compare a b
    | .atom a, .atom b => compare a b
    | .str a, .str b => compare a b
    | .app f as, .app g bs =>
      (compare as.length bs.length).then ((compare f g).then (compareArgs as bs))
    | x, y => compare (typeRank x) (typeRank y)
  def compareArgs : Args → Args → Ordering
    | .cons a as, .cons b bs => (compareStd a b).then (compareArgs as bs)
    | _, _ => .eq
end

/-! ## FindAll, collectionOf -/

inductive Res where
  | err (e : Term)            -- a Prolog error is raised
  | fuelOut                   -- the model ran out of fuel (cyclic bindings)
  | ok (answers : List Env)   -- the answer environments, in order
  deriving DecidableEq

/-- the `ListIterator{AllowPartial: true}` check of the Instances argument -/
def checkInstances (instances : Term) : Option Term :=
  match instances.spine.2 with
  | .var _ => none
  | .atom a => if a = "[]" then none else some (typeErr "list" instances)
  | _ => some (typeErr "list" instances)

/-- the final `Unify(vm, instances, List(answers...), k, env)`: one answer or failure -/
def unifyRes : Option (Env × Bool) → Res
  | none => .fuelOut
  | some (e, true) => .ok [e]
  | some (_, false) => .ok []

/-- `FindAll`.  `sols` = the template instantiated by each solution of the goal, in solution order;
    `gerr` = the error the goal raised after delivering them, if any. -/
def findAll (instances : Term) (sols : List Term) (gerr : Option Term) (next fuel : Nat) : Res :=
  match checkInstances instances with
  | some e => .err e
  | none =>
    match gerr with
    | some e => .err e
    | none =>
      unifyRes (unify [] fuel instances (Term.list (copyAll sols next).1))

inductive Kind | bag | set
  deriving DecidableEq

/-- the witness unifications of one group: `for _, w = range wList { env, _ = env.Unify(witness, w) }` -/
def unifyWitnesses (witness : Term) (fuel : Nat) : List Term → Env → Option Env
  | [], e => some e
  | w :: ws, e =>
    match unify e fuel witness w with
    | none => none
    | some (e', _) => unifyWitnesses witness fuel ws e'

/-- `agg`: `List(tList...)` for bagof, `env.set(tList...)` for setof (terms compared as resolved in
    the environment after the witness unifications) -/
def aggregate (kind : Kind) (e : Env) (fuel : Nat) (ts : List Term) : Option Term :=
  match kind with
  | .bag => some (Term.list ts)
  | .set =>
    match ts.mapM (fun t => (applyEnv e fuel [] t).map fun k => (k, t)) with
    | none => none
    | some kts => some (Term.list ((set (fun a b => compareStd a.1 b.1) kts).map (·.2)))

/-- the continuation built for one group -/
def groupAnswer (kind : Kind) (witness instances : Term) (fuel : Nat) (g : List (Term × Term)) :
    Option (Option Env) :=
  match unifyWitnesses witness fuel (g.map (·.1)) [] with
  | none => none
  | some e =>
    match aggregate kind e fuel (g.map (·.2)) with
    | none => none
    | some l =>
      match unify e fuel l instances with
      | none => none
      | some (e', true) => some (some e')
      | some (_, false) => some none

/-- `collectionOf`.  `sols` = (witness, template) instantiated by each solution of the iterated goal
    term, in solution order (`witness = witnessOf goal template`). -/
def collectionOfBy (test : Term → Term → Bool) (kind : Kind) (witness instances : Term)
    (sols : List (Term × Term)) (gerr : Option Term) (next fuel : Nat) : Res :=
  match checkInstances instances with
  | some e => .err e
  | none =>
    match gerr with
    | some e => .err e
    | none =>
      -- `s := NewVariable()` is drawn before the solutions are copied
      let copies := (copyPairs sols (next + 1)).1
      match (groupsBy test copies).mapM (groupAnswer kind witness instances fuel) with
      | none => .fuelOut
      | some as => .ok (as.filterMap id)

def collectionOf := collectionOfBy variant

/-! ## helpers for callers of the model -/

mutual
  /-- simultaneous substitution (a solution of the goal, as delivered by the execution model) -/
  def subst (σ : List (Nat × Term)) : Term → Term
    | .var v => match σ.lookup v with | some t => t | none => .var v
    | .app f as => .app f (substArgs σ as)
    | t => t
  def substArgs (σ : List (Nat × Term)) : Args → Args
    | .nil => .nil
    | .cons t ts => .cons (subst σ t) (substArgs σ ts)
end

/-- the (witness, template) pairs of a solution sequence -/
def solutionPairs (goal template : Term) (σs : List (List (Nat × Term))) : List (Term × Term) :=
  σs.map fun σ => (subst σ (witnessOf goal template), subst σ template)

/-- one more than the largest variable of a term (0 if none) -/
def varBound (t : Term) : Nat := (vars t).foldl (fun m v => max m (v + 1)) 0

end PrologVerif.Collect
