/-
  P2: the parser lemma for every well-formed term, by induction on the term, and `read_term` on the
  tokens of `writeq`.
-/
import PrologVerif.Proofs.OpRoundtripParse5
import PrologVerif.Proofs.CanonRoundtrip
set_option linter.unusedSimpArgs false
set_option linter.unusedVariables false
namespace PrologVerif.Write
open PrologVerif PrologVerif.Lexer PrologVerif.Ops PrologVerif.Read

section
variable (e : Env) (G : UInt64 → GText) (P : UInt64 → Bool) (ops : Table) (dq : DoubleQuotes)

mutual
  /-- `term(mp)` reads the tokens of every written term back, in every context the writer's options describe -/
  theorem qspec_all (he : EnvOK e G P) (hs : SignOK G P) (hops : tableOK ops = true) :
      (t : Term) → wfTerm t = true → numsOK P t = true → (o : WOpts) → QOpts ops o → QSpec e G ops dq t o
    | .var v, _, _, o, _ => qspec_var e G P ops dq he v o
    | .atom a, _, _, o, hq => qspec_atom e G P ops dq he a o hq.tab
    | .int i, _, hn, o, _ => by
      simp only [numsOK, decide_eq_true_eq] at hn
      exact qspec_int e G ops dq i hn.1 hn.2 o
    | .flt x, _, hn, o, _ => qspec_flt e G P ops dq he x (by simpa [numsOK] using hn) o
    | .str _, hw, _, _, _ => by simp [wfTerm] at hw
    | .app f .nil, hw, _, _, _ => by simp [wfTerm] at hw
    | .app f (.cons a0 .nil), hw, hn, o, hq => by
      simp only [wfTerm, wfArgs, Bool.and_eq_true] at hw
      simp only [numsOK, numsOKArgs, Bool.and_eq_true] at hn
      have ih0 : ∀ o', QOpts ops o' → QSpec e G ops dq a0 o' := fun o' hq' => qspec_all he hs hops a0 hw.1 hn.1 o' hq'
      intro mp rest vs nv seen hmp hrest hright hctx hv
      have hcan : ((Term.app f (.cons a0 .nil)).canonAux seen) =
          (.app f (.cons (a0.canonAux seen).1 .nil), (a0.canonAux seen).2) := by
        simp [Term.canonAux, Args.canonAux]
      rw [hcan]
      by_cases hf : f = "{}"
      · subst hf
        simp only [qt, qtC, if_true]
        exact qspec_curly e G P ops dq he hs a0 hw.1 hn.1 o hq ih0 mp rest vs nv seen hv
      · cases hpick : pickOp o.ops f 1 with
        | none =>
          simp only [qt, qtC, hf, if_false, hpick]
          have h9 := opts9_o999 ops hq
          have := qspec_functional e G P ops dq he f a0 .nil (o999 o)
            (qargSpec_of_qspec e G P ops dq he hs hops a0 _ h9 hw.1 hn.1 (ih0 _ h9.q))
            (qargsSpec_nil e G ops dq _) mp rest vs nv seen hv
          simpa [qtA, Args.canonAux] using this
        | some opr =>
          rw [hq.tab] at hpick
          rcases pickOp_one hpick with ⟨hc, hop⟩ | ⟨hc, hop⟩
          · simp only [qt, qtC, hf, if_false, hq.tab, hpick, hc, if_true]
            exact qspec_prefix e G P ops dq he hs hops f a0 opr hw.1 hn.1 hop o hq ih0 mp rest vs nv seen hmp hrest hright hv
          · have hc' : ¬ opr.spec.cls = .pre := by rw [hc]; decide
            simp only [qt, qtC, hf, if_false, hq.tab, hpick, hc']
            exact qspec_postfix e G P ops dq he hops f a0 opr hop o hq ih0 mp rest vs nv seen hmp hv
    | .app f (.cons a0 (.cons a1 .nil)), hw, hn, o, hq => by
      simp only [wfTerm, wfArgs, Bool.and_eq_true] at hw
      simp only [numsOK, numsOKArgs, Bool.and_eq_true] at hn
      have ih0 : ∀ o', QOpts ops o' → QSpec e G ops dq a0 o' := fun o' hq' => qspec_all he hs hops a0 hw.1 hn.1 o' hq'
      have ih1 : ∀ o', QOpts ops o' → QSpec e G ops dq a1 o' := fun o' hq' => qspec_all he hs hops a1 hw.2.1 hn.2.1 o' hq'
      intro mp rest vs nv seen hmp hrest hright hctx hv
      have hcan : ((Term.app f (.cons a0 (.cons a1 .nil))).canonAux seen) =
          (.app f (.cons (a0.canonAux seen).1 (.cons (a1.canonAux (a0.canonAux seen).2).1 .nil)),
            (a1.canonAux (a0.canonAux seen).2).2) := by
        simp [Term.canonAux, Args.canonAux]
      rw [hcan]
      have h9 := opts9_o999 ops hq
      have harg0 := qargSpec_of_qspec e G P ops dq he hs hops a0 _ h9 hw.1 hn.1 (ih0 _ h9.q)
      have harg1 := qargSpec_of_qspec e G P ops dq he hs hops a1 _ h9 hw.2.1 hn.2.1 (ih1 _ h9.q)
      by_cases hf : f = "."
      · subst hf
        simp only [qt, qtC, if_true]
        exact qspec_list e G P ops dq he hs a0 a1 (o999 o) hw.1 hn.1 hw.2.1 harg0
          (qlistSpec_all he hs hops a1 hw.2.1 hn.2.1 (o999 o) h9 harg1) mp rest vs nv seen hv
      · cases hpick : pickOp o.ops f 2 with
        | none =>
          simp only [qt, qtC, hf, if_false, hpick]
          have := qspec_functional e G P ops dq he f a0 (.cons a1 .nil) (o999 o) harg0
            (qargsSpec_cons e G ops dq a1 .nil _ harg1 (qargsSpec_nil e G ops dq _)) mp rest vs nv seen hv
          simpa [qtA, Args.canonAux] using this
        | some opr =>
          rw [hq.tab] at hpick
          obtain ⟨hc, hop⟩ := pickOp_two hpick
          simp only [qt, qtC, hf, if_false, hq.tab, hpick]
          exact qspec_infix e G P ops dq he hops f a0 a1 opr hop o hq ih0 ih1 mp rest vs nv seen hmp hrest hright hv
    | .app f (.cons a0 (.cons a1 (.cons a2 as))), hw, hn, o, hq => by
      simp only [wfTerm, wfArgs, Bool.and_eq_true] at hw
      simp only [numsOK, numsOKArgs, Bool.and_eq_true] at hn
      have h9 := opts9_o999 ops hq
      have harg0 := qargSpec_of_qspec e G P ops dq he hs hops a0 _ h9 hw.1 hn.1
        (qspec_all he hs hops a0 hw.1 hn.1 _ h9.q)
      have harg1 := qargSpec_of_qspec e G P ops dq he hs hops a1 _ h9 hw.2.1 hn.2.1
        (qspec_all he hs hops a1 hw.2.1 hn.2.1 _ h9.q)
      have harg2 := qargSpec_of_qspec e G P ops dq he hs hops a2 _ h9 hw.2.2.1 hn.2.2.1
        (qspec_all he hs hops a2 hw.2.2.1 hn.2.2.1 _ h9.q)
      intro mp rest vs nv seen hmp hrest hright hctx hv
      have := qspec_functional e G P ops dq he f a0 (.cons a1 (.cons a2 as)) (o999 o) harg0
        (qargsSpec_cons e G ops dq a1 _ _ harg1 (qargsSpec_cons e G ops dq a2 as _ harg2
          (qargsSpec_all he hs hops as hw.2.2.2 hn.2.2.2 (o999 o) h9))) mp rest vs nv seen hv
      simpa [qt, qtC, qtA, Term.canonAux, Args.canonAux] using this
  /-- the remaining arguments of a compound in functional notation -/
  theorem qargsSpec_all (he : EnvOK e G P) (hs : SignOK G P) (hops : tableOK ops = true) :
      (as : Args) → wfArgs as = true → numsOKArgs P as = true → (o : WOpts) → Opts9 ops o → QArgsSpec e G ops dq as o
    | .nil, _, _, o, _ => qargsSpec_nil e G ops dq o
    | .cons a as, hw, hn, o, h9 => by
      simp only [wfArgs, Bool.and_eq_true] at hw
      simp only [numsOKArgs, Bool.and_eq_true] at hn
      exact qargsSpec_cons e G ops dq a as o
        (qargSpec_of_qspec e G P ops dq he hs hops a o h9 hw.1 hn.1 (qspec_all he hs hops a hw.1 hn.1 o h9.q))
        (qargsSpec_all he hs hops as hw.2 hn.2 o h9)
  /-- the rest of a list after its first element -/
  theorem qlistSpec_all (he : EnvOK e G P) (hs : SignOK G P) (hops : tableOK ops = true) :
      (t : Term) → wfTerm t = true → numsOK P t = true → (o : WOpts) → Opts9 ops o →
      QArgSpec e G ops dq t o → QListSpec e G ops dq t o
    | .var v, _, _, o, _, hself => qlistSpec_other e G ops dq _ o (by simp [qtL, qt]) hself
    | .atom a, _, _, o, _, hself => by
      by_cases ha : a = "[]"
      · subst ha; exact qlistSpec_nil e G ops dq o
      · exact qlistSpec_other e G ops dq _ o (by simp [qtL, ha, qt]) hself
    | .int i, _, _, o, _, hself => qlistSpec_other e G ops dq _ o (by simp [qtL, qt]) hself
    | .flt b, _, _, o, _, hself => qlistSpec_other e G ops dq _ o (by simp [qtL, qt]) hself
    | .str _, hw, _, _, _, _ => by simp [wfTerm] at hw
    | .app f .nil, hw, _, _, _, _ => by simp [wfTerm] at hw
    | .app f (.cons h .nil), _, _, o, _, hself => qlistSpec_other e G ops dq _ o (by simp [qtL, qt]) hself
    | .app f (.cons h (.cons t2 .nil)), hw, hn, o, h9, hself => by
      simp only [wfTerm, wfArgs, Bool.and_eq_true] at hw
      simp only [numsOK, numsOKArgs, Bool.and_eq_true] at hn
      by_cases hf : f = "."
      · subst hf
        exact qlistSpec_cons e G ops dq h t2 o hw.2.1
          (qargSpec_of_qspec e G P ops dq he hs hops h o h9 hw.1 hn.1 (qspec_all he hs hops h hw.1 hn.1 o h9.q))
          (qlistSpec_all he hs hops t2 hw.2.1 hn.2.1 o h9
            (qargSpec_of_qspec e G P ops dq he hs hops t2 o h9 hw.2.1 hn.2.1 (qspec_all he hs hops t2 hw.2.1 hn.2.1 o h9.q)))
      · exact qlistSpec_other e G ops dq _ o (by simp [qtL, hf, qt]) hself
    | .app f (.cons h (.cons t2 (.cons t3 r))), _, _, o, _, hself =>
      qlistSpec_other e G ops dq _ o (by simp [qtL, qt]) hself
end

/-- `read_term` on a text whose token sequence is that of `writeq(T)` followed by the end token returns `T`
    (variables renamed by first occurrence) -/
theorem readTerm_of_tokens (he : EnvOK e G P) (hs : SignOK G P) (hops : tableOK ops = true) (t : Term)
    (hw : wfTerm t = true) (hn : numsOK P t = true) (text : List Char)
    (htoks : (tokens e.cfg (text.length + 1) (Lexer.ofList text)).1 = qt e G t (qopts ops) ++ [⟨.end_, ['.']⟩]) :
    readTerm e.cfg ops dq text = .ok t.canon := by
  unfold readTerm
  rw [htoks]
  have hend : HardStop (⟨.end_, ['.']⟩ : Token) := .inl rfl
  obtain ⟨vs', nv', ⟨hl, hp⟩, _⟩ := qspec_all e G P ops dq he hs hops t hw hn (qopts ops) (qopts_ok ops) 1201
    [⟨.end_, ['.']⟩] [] 0 [] (by simp [qopts]) ⟨_, [], rfl, hend.follow⟩
    (rightOK_hard ops dq hend _ []) (fun _ _ _ _ _ => ⟨rfl, _, [], rfl, hend⟩) ⟨rfl, rfl⟩
  obtain ⟨k, hk, e1⟩ := hp (readFuel (qt e G t (qopts ops) ++ [⟨.end_, ['.']⟩])) [] (by simp [readFuel]; omega)
  obtain ⟨F, hF⟩ : ∃ F, readFuel (qt e G t (qopts ops) ++ [⟨.end_, ['.']⟩]) - k = F + 1 :=
    ⟨readFuel (qt e G t (qopts ops) ++ [⟨.end_, ['.']⟩]) - k - 1, by simp [readFuel]; omega⟩
  rw [hF, infixLoop_stopAt (stopAt_hard hend ops dq 1201 [])] at e1
  exact parseTerm_end (he := rfl) (h := by simpa [Term.canon] using e1)

/-- … in particular on a text that lexes (`LexSeq`) to these tokens -/
theorem readTerm_of_lexSeq (he : EnvOK e G P) (hs : SignOK G P) (hops : tableOK ops = true) (t : Term)
    (hw : wfTerm t = true) (hn : numsOK P t = true) (text : List Char)
    (hseq : LexSeq e.cfg text (qt e G t (qopts ops) ++ [⟨.end_, ['.']⟩]) []) :
    readTerm e.cfg ops dq text = .ok t.canon :=
  readTerm_of_tokens e G P ops dq he hs hops t hw hn text
    (tokens_all e.cfg hseq _ (by have := hseq.length_le; omega))

end

end PrologVerif.Write
