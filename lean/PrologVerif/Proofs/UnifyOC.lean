/-
  The occurs check: agreement of =/2 with unify_with_occurs_check/2 on pairs that are not
  subject to occurs check (NSTO), and the classical most-general-unifier statement.
-/
import PrologVerif.Proofs.Unify
namespace PrologVerif

/-! ### NSTO agreement -/

mutual
  /-- if the checked run finishes without the occurs check firing, the unchecked run takes exactly
      the same steps: same environment, same outcome -/
  theorem unify_oc_agrees : ∀ (n : Nat) (e : Env) (x y : Term) (e' : Env) (r : Res),
      unify n true e x y = some (e', r) → r ≠ .occurs → unify n false e x y = some (e', r)
    | 0, _, _, _, _, _, h, _ => by simp [unify] at h
    | n + 1, e, x, y, e', r, h, hr => by
      simp only [unify] at h
      unfold unify
      split at h
      · rename_i x' y' hx hy
        split at h
        · -- variable
          rename_i v
          split at h
          · rename_i heq; simp only [heq, if_true] at h ⊢; exact h
          · rename_i hne
            simp only [hne, if_false] at ⊢
            simp only [if_true] at h
            split at h
            · simp at h
            · simp only [Option.some.injEq, Prod.mk.injEq] at h; exact absurd h.2.symm hr
            · simpa using h
        · exact unify_oc_agrees n e _ x' e' r h hr
        · rename_i f as g bs
          split at h
          · rename_i hfg; rw [if_pos hfg]; exact h
          · rename_i hfg
            rw [if_neg hfg]
            split at h
            · rename_i hl; rw [if_pos hl]; exact h
            · rename_i hl; rw [if_neg hl]; exact unifyArgs_oc_agrees n e as bs e' r h hr
        · exact h
      · simp at h
  theorem unifyArgs_oc_agrees : ∀ (n : Nat) (e : Env) (xs ys : Args) (e' : Env) (r : Res),
      unifyArgs n true e xs ys = some (e', r) → r ≠ .occurs → unifyArgs n false e xs ys = some (e', r)
    | 0, _, _, _, _, _, h, _ => by simp [unifyArgs] at h
    | n + 1, e, .nil, .nil, e', r, h, _ => by simpa [unifyArgs] using h
    | n + 1, e, .nil, .cons _ _, e', r, h, _ => by simpa [unifyArgs] using h
    | n + 1, e, .cons _ _, .nil, e', r, h, _ => by simpa [unifyArgs] using h
    | n + 1, e, .cons a as, .cons b bs, e', r, h, hr => by
      simp only [unifyArgs] at h
      unfold unifyArgs
      split at h
      · simp at h
      · rename_i e1 h1
        rw [unify_oc_agrees n e a b e1 .ok h1 (by decide)]
        exact unifyArgs_oc_agrees n e1 as bs e' r h hr
      · rename_i e1 r1 hne h1
        simp only [Option.some.injEq, Prod.mk.injEq] at h
        obtain ⟨rfl, rfl⟩ := h
        rw [unify_oc_agrees n e a b e1 r1 h1 hr]
        cases r1 with
        | ok => exact absurd rfl hne
        | clash => rfl
        | occurs => exact absurd rfl hr
end

end PrologVerif

namespace PrologVerif

/-! ### idempotent most general unifiers -/

def upd (v : Nat) (t : Term) : Subst := fun w => if w = v then t else .var w

mutual
  def Term.hasVar (v : Nat) : Term → Bool
    | .var w => w == v
    | .app _ as => Args.hasVar v as
    | _ => false
  def Args.hasVar (v : Nat) : Args → Bool
    | .nil => false
    | .cons t ts => Term.hasVar v t || Args.hasVar v ts
end

mutual
  theorem Term.subst_comp (θ σ : Subst) : ∀ t : Term, (t.subst σ).subst θ = t.subst (θ.comp σ)
    | .var _ => rfl
    | .atom _ => rfl
    | .int _ => rfl
    | .flt _ => rfl
    | .str _ => rfl
    | .app f as => by simp [Term.subst, Args.subst_comp θ σ as]
  theorem Args.subst_comp (θ σ : Subst) : ∀ as : Args, (as.subst σ).subst θ = as.subst (θ.comp σ)
    | .nil => rfl
    | .cons t ts => by simp [Args.subst, Term.subst_comp θ σ t, Args.subst_comp θ σ ts]
end

theorem Term.subst_ext {θ θ' : Subst} (h : ∀ v, θ v = θ' v) (t : Term) : t.subst θ = t.subst θ' := by
  have : θ = θ' := funext h
  rw [this]

mutual
  theorem Term.subst_id : ∀ t : Term, t.subst (fun v => .var v) = t
    | .var _ => rfl
    | .atom _ => rfl
    | .int _ => rfl
    | .flt _ => rfl
    | .str _ => rfl
    | .app f as => by simp [Term.subst, Args.subst_id as]
  theorem Args.subst_id : ∀ as : Args, as.subst (fun v => .var v) = as
    | .nil => rfl
    | .cons t ts => by simp [Args.subst, Term.subst_id t, Args.subst_id ts]
end

mutual
  theorem Term.subst_upd_of_not_hasVar (v : Nat) (s : Term) : ∀ t : Term,
      t.hasVar v = false → t.subst (upd v s) = t
    | .var w, h => by
      simp only [Term.hasVar, beq_eq_false_iff_ne] at h
      simp [Term.subst, upd, h]
    | .atom _, _ => rfl
    | .int _, _ => rfl
    | .flt _, _ => rfl
    | .str _, _ => rfl
    | .app f as, h => by
      simp only [Term.hasVar] at h
      simp [Term.subst, Args.subst_upd_of_not_hasVar v s as h]
  theorem Args.subst_upd_of_not_hasVar (v : Nat) (s : Term) : ∀ as : Args,
      as.hasVar v = false → as.subst (upd v s) = as
    | .nil, _ => rfl
    | .cons t ts, h => by
      simp only [Args.hasVar, Bool.or_eq_false_iff] at h
      simp [Args.subst, Term.subst_upd_of_not_hasVar v s t h.1, Args.subst_upd_of_not_hasVar v s ts h.2]
end

/-- σ is an idempotent most general solution of the equations of `e`: it solves them, leaves
    unbound variables alone, and every solution factors through it (θ = θ ∘ σ) -/
structure IsMGU (e : Env) (σ : Subst) : Prop where
  sol : Sol e σ
  idUnbound : ∀ v, e.lookup v = none → σ v = .var v
  general : ∀ θ, Sol e θ → ∀ v, θ v = (σ v).subst θ

theorem isMGU_empty : IsMGU [] (fun v => .var v) :=
  ⟨fun v t h => by simp [Env.lookup] at h, fun _ _ => rfl, fun _ _ _ => rfl⟩

theorem IsMGU.subst_general {e : Env} {σ : Subst} (h : IsMGU e σ) (θ : Subst) (hs : Sol e θ) (t : Term) :
    (t.subst σ).subst θ = t.subst θ := by
  rw [Term.subst_comp]
  exact Term.subst_ext (fun v => (h.general θ hs v).symm) t

theorem isMGU_bind (e : Env) (σ : Subst) (v : Nat) (t : Term) (h : IsMGU e σ)
    (hv : e.lookup v = none) (hocc : (t.subst σ).hasVar v = false) :
    IsMGU (e.bind v t) (fun u => (σ u).subst (upd v (t.subst σ))) := by
  have hσv : σ v = .var v := h.idUnbound v hv
  refine ⟨?_, ?_, ?_⟩
  · rw [sol_bind e v t _ hv]
    constructor
    · intro u s hu
      show (σ u).subst _ = s.subst _
      rw [h.sol u s hu, Term.subst_comp]
      exact Term.subst_ext (fun w => rfl) s
    · show (σ v).subst _ = t.subst _
      rw [hσv]
      simp only [Term.subst, upd, if_true]
      have : t.subst (fun u => (σ u).subst (upd v (t.subst σ))) = (t.subst σ).subst (upd v (t.subst σ)) := by
        rw [Term.subst_comp]; exact Term.subst_ext (fun w => rfl) t
      rw [this, Term.subst_upd_of_not_hasVar v _ _ hocc]
  · intro u hu
    rw [Env.lookup_bind] at hu
    by_cases hvu : v = u
    · simp [hvu] at hu
    · simp only [hvu, if_false] at hu
      show (σ u).subst _ = _
      rw [h.idUnbound u hu]
      simp [Term.subst, upd, Ne.symm hvu]
  · intro θ hθ u
    rw [sol_bind e v t θ hv] at hθ
    obtain ⟨hθe, hθv⟩ := hθ
    show θ u = ((σ u).subst (upd v (t.subst σ))).subst θ
    rw [Term.subst_comp]
    have hpt : ∀ w, (Subst.comp θ (upd v (t.subst σ))) w = θ w := by
      intro w
      simp only [Subst.comp, upd]
      by_cases hw : w = v
      · subst hw
        simp only [if_true]
        rw [h.subst_general θ hθe t, hθv]
      · simp [hw, Term.subst]
    rw [Term.subst_ext hpt]
    exact h.general θ hθe u

mutual
  /-- a negative answer of the occurs check is correct w.r.t. the idempotent solution -/
  theorem contains_false_hasVar {e : Env} {σ : Subst} (hσ : IsMGU e σ) :
      ∀ (n : Nat) (t : Term) (v : Nat), contains n e t v = some false → (t.subst σ).hasVar v = false
    | 0, _, _, h => by simp [contains] at h
    | n + 1, .var w, v, h => by
      simp only [contains] at h
      split at h
      · simp at h
      · rename_i hwv
        split at h
        · rename_i hl
          simp [Term.subst, hσ.idUnbound w hl, Term.hasVar, hwv]
        · rename_i t2 hl
          have := contains_false_hasVar hσ n t2 v h
          simpa [Term.subst, hσ.sol w t2 hl] using this
    | n + 1, .app f as, v, h => by
      simp only [contains] at h
      simpa [Term.subst, Term.hasVar] using containsArgs_false_hasVar hσ n as v h
    | n + 1, .atom _, v, _ => rfl
    | n + 1, .int _, v, _ => rfl
    | n + 1, .flt _, v, _ => rfl
    | n + 1, .str _, v, _ => rfl
  theorem containsArgs_false_hasVar {e : Env} {σ : Subst} (hσ : IsMGU e σ) :
      ∀ (n : Nat) (as : Args) (v : Nat), containsArgs n e as v = some false → (as.subst σ).hasVar v = false
    | 0, _, _, h => by simp [containsArgs] at h
    | n + 1, .nil, v, _ => rfl
    | n + 1, .cons t ts, v, h => by
      simp only [containsArgs] at h
      split at h
      · simp at h
      · simp at h
      · rename_i ht
        simp [Args.subst, Args.hasVar, contains_false_hasVar hσ n t v ht,
          containsArgs_false_hasVar hσ n ts v h]
end

mutual
  /-- with the occurs check, every environment reached by `unify` (also the partially extended one
      returned on failure) still has an idempotent most general solution -/
  theorem unify_oc_mgu : ∀ (n : Nat) (e : Env) (x y : Term) (e' : Env) (r : Res),
      unify n true e x y = some (e', r) → (∃ σ, IsMGU e σ) → ∃ σ', IsMGU e' σ'
    | 0, _, _, _, _, _, h, _ => by simp [unify] at h
    | n + 1, e, x, y, e', r, h, ⟨σ, hσ⟩ => by
      simp only [unify] at h
      split at h
      · rename_i x' y' hx hy
        split at h
        · rename_i v
          have hv : e.lookup v = none := resolve_var_unbound n e x v hx
          split at h
          · simp only [Option.some.injEq, Prod.mk.injEq] at h; exact ⟨σ, h.1 ▸ hσ⟩
          · simp only [if_true] at h
            split at h
            · simp at h
            · simp only [Option.some.injEq, Prod.mk.injEq] at h; exact ⟨σ, h.1 ▸ hσ⟩
            · rename_i hc
              simp only [Option.some.injEq, Prod.mk.injEq] at h
              exact ⟨_, h.1 ▸ isMGU_bind e σ v y' hσ hv (contains_false_hasVar hσ n y' v hc)⟩
        · exact unify_oc_mgu n e _ x' e' r h ⟨σ, hσ⟩
        · split at h
          · simp only [Option.some.injEq, Prod.mk.injEq] at h; exact ⟨σ, h.1 ▸ hσ⟩
          · split at h
            · simp only [Option.some.injEq, Prod.mk.injEq] at h; exact ⟨σ, h.1 ▸ hσ⟩
            · exact unifyArgs_oc_mgu n e _ _ e' r h ⟨σ, hσ⟩
        · simp only [Option.some.injEq, Prod.mk.injEq] at h; exact ⟨σ, h.1 ▸ hσ⟩
      · simp at h
  theorem unifyArgs_oc_mgu : ∀ (n : Nat) (e : Env) (xs ys : Args) (e' : Env) (r : Res),
      unifyArgs n true e xs ys = some (e', r) → (∃ σ, IsMGU e σ) → ∃ σ', IsMGU e' σ'
    | 0, _, _, _, _, _, h, _ => by simp [unifyArgs] at h
    | n + 1, e, .nil, .nil, e', r, h, hσ => by
      simp only [unifyArgs, Option.some.injEq, Prod.mk.injEq] at h; exact h.1 ▸ hσ
    | n + 1, e, .nil, .cons _ _, e', r, h, hσ => by
      simp only [unifyArgs, Option.some.injEq, Prod.mk.injEq] at h; exact h.1 ▸ hσ
    | n + 1, e, .cons _ _, .nil, e', r, h, hσ => by
      simp only [unifyArgs, Option.some.injEq, Prod.mk.injEq] at h; exact h.1 ▸ hσ
    | n + 1, e, .cons a as, .cons b bs, e', r, h, hσ => by
      simp only [unifyArgs] at h
      split at h
      · simp at h
      · rename_i e1 h1
        exact unifyArgs_oc_mgu n e1 as bs e' r h (unify_oc_mgu n e a b e1 .ok h1 hσ)
      · rename_i e1 r1 _ h1
        simp only [Option.some.injEq, Prod.mk.injEq] at h
        exact h.1 ▸ unify_oc_mgu n e a b e1 r1 h1 hσ
end

/-! ### full application of the bindings (what `==`, `compare/3` and answers observe) -/

mutual
  theorem applyAll_eq_subst {e : Env} {σ : Subst} (hσ : IsMGU e σ) :
      ∀ (n : Nat) (t t' : Term), applyAll n e t = some t' → t' = t.subst σ
    | 0, _, _, h => by simp [applyAll] at h
    | n + 1, t, t', h => by
      simp only [applyAll] at h
      split at h
      · simp at h
      · rename_i f as hr
        have h1 := resolve_sol n e t _ σ hr hσ.sol
        rw [← h1]
        simp only [Option.map_eq_some_iff] at h
        obtain ⟨as', has, rfl⟩ := h
        simp [Term.subst, applyAllArgs_eq_subst hσ n as as' has]
      · rename_i t2 hnapp hr
        simp only [Option.some.injEq] at h
        subst h
        have h1 := resolve_sol n e t _ σ hr hσ.sol
        rw [← h1]
        cases t2 with
        | var v => simp [Term.subst, hσ.idUnbound v (resolve_var_unbound n e t v hr)]
        | app f as => exact absurd rfl (hnapp f as)
        | _ => rfl
  theorem applyAllArgs_eq_subst {e : Env} {σ : Subst} (hσ : IsMGU e σ) :
      ∀ (n : Nat) (as as' : Args), applyAllArgs n e as = some as' → as' = as.subst σ
    | 0, _, _, h => by simp [applyAllArgs] at h
    | n + 1, .nil, as', h => by simp [applyAllArgs] at h; subst h; rfl
    | n + 1, .cons t ts, as', h => by
      simp only [applyAllArgs] at h
      split at h
      · rename_i t' ts' ht hts
        simp only [Option.some.injEq] at h
        subst h
        simp [Args.subst, applyAll_eq_subst hσ n t t' ht, applyAllArgs_eq_subst hσ n ts ts' hts]
      · simp at h
end

end PrologVerif
