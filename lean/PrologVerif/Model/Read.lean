/-
  Model of engine/parser.go: the Pratt parser `Parser.Term` with all its helper methods
  (`term prefix infix op term0 term0Atom variable openClose atom name list curlyBracketedTerm
  functionalNotation arg number`), `integer()`, `float()`.

  * The token ring buffer is a zipper over the token sequence of the whole text (`before` =
    delivered tokens, most recent first; `after` = tokens still to come, pushed-back ones first).
    Lexing is independent of parsing, so delivering tokens lazily (Go) or from the pre-computed
    sequence (here) is the same; the lexer error that ends the sequence is always io.EOF.
  * Go does not undo the effects of a failed method; the methods back up explicitly.  So every
    function returns the state also in the error case: `PState → Except PErr α × PState`.
  * Recursion takes fuel (`PErr.fuel` = out of fuel).
  * Placeholders (`p.placeholder`, `p.args`) are not modelled (read_term never sets them).
  * `float()`: `strconv.ParseFloat(s, 64)` is the correctly rounded decimal→binary conversion; it
    is modelled by exact rational arithmetic (`Model/FloatDec.lean`).
-/
import PrologVerif.Model.Lexer
import PrologVerif.Model.Ops
import PrologVerif.Model.FloatDec
namespace PrologVerif.Read
open PrologVerif PrologVerif.Lexer PrologVerif.Ops

inductive PErr
  | expectation            -- errExpectation
  | noOp                   -- errNoOp
  | eof                    -- the lexer's error (io.EOF)
  | notANumber             -- errNotANumber
  | rep (flag : String)    -- representation_error(flag) from integer()
  | fuel
  deriving DecidableEq, Repr

inductive DoubleQuotes | chars | codes | atom
  deriving DecidableEq, Repr

structure PState where
  before : List Token := []
  after : List Token
  /-- `p.Vars`: name ↦ variable, in order of first occurrence -/
  vars : List (List Char × Nat) := []
  /-- stands for the global `varCounter` -/
  nextVar : Nat := 0
  deriving DecidableEq, Repr

abbrev PM (α : Type) := PState → Except PErr α × PState

/-- `p.next()` -/
def next : PM Token := fun p =>
  match p.after with
  | [] => (.error .eof, p)
  | t :: ts => (.ok t, { p with before := t :: p.before, after := ts })

/-- `p.backup()` (backing up over nothing would read a stale slot in Go; unreachable, no-op here) -/
def backup (p : PState) : PState :=
  match p.before with
  | [] => p
  | t :: b => { p with before := b, after := t :: p.after }

/-- `p.current().kind` -/
def currentKind (p : PState) : Kind :=
  match p.after with
  | [] => .invalid
  | t :: _ => t.kind

/-! ## operator table access -/

structure Op where
  pri : Nat
  spec : Spec
  name : String
  deriving DecidableEq, Repr

/-- `p.operators[a][class]` (`none` = the zero value `operator{}`) -/
def opOf (ops : Table) (a : String) (c : Class) : Option Op :=
  (lookup ops a c).map fun o => ⟨o.pri, o.spec, o.name⟩

/-- `operators.defined` -/
def defined (ops : Table) (a : String) : Bool := ops.any (fun o => o.name == a)

/-- `bindingPriorities` -/
def bindingPriorities (o : Op) : Nat × Nat :=
  match o.spec with
  | .fx => (1202, o.pri - 1)
  | .fy => (1202, o.pri)
  | .xf => (o.pri - 1, 1202)
  | .yf => (o.pri, 1202)
  | .xfx => (o.pri - 1, o.pri - 1)
  | .xfy => (o.pri - 1, o.pri)
  | .yfx => (o.pri, o.pri - 1)

/-! ## numbers -/

def digitVal (c : Char) : Nat := hexDigitVal c

def natOfDigits (base : Nat) (ds : List Char) : Nat :=
  ds.foldl (fun acc c => acc * base + digitVal c) 0

/-- `big.ParseFloat(s, base, 0, big.ToZero)` on an integer literal: the value truncated (toward
    zero) to a 64-bit mantissa -/
def trunc64 (v : Nat) : Nat :=
  let k := Nat.log2 v + 1 - 64
  (v >>> k) <<< k

/-- the radix prefixes of `integer` -/
def radixOf (s : List Char) : Nat × List Char :=
  match s with
  | '0' :: 'b' :: ds => (2, ds)
  | '0' :: 'o' :: ds => (8, ds)
  | '0' :: 'x' :: ds => (16, ds)
  | ds => (10, ds)

/-- `f.Int64()` and the `switch` on its accuracy: Above = the exact value is below minInt, Below =
    it is above maxInt -/
def toInt64 (f : Int) : Except PErr Int :=
  if f < -9223372036854775808 then .error (.rep "min_integer")
  else if f > 9223372036854775807 then .error (.rep "max_integer")
  else .ok f

/-- `integer(sign, s)` -/
def integer (sign : Int) (s : List Char) : Except PErr Int :=
  match s with
  | '0' :: '\'' :: cs =>
    match unescapeFrom '\'' .norm cs with
    | c :: _ => .ok (sign * c.toNat)
    | [] => .ok 0   -- `[]rune(s)[0]` would panic; no integer token has an empty character part
  | _ => toInt64 (sign * (trunc64 (natOfDigits (radixOf s).1 (radixOf s).2) : Nat))

/-- `float(sign, s)`: bits of the result -/
def float (negative : Bool) (s : List Char) : UInt64 :=
  let b := FloatDec.parseBits s
  if negative then b ||| 0x8000000000000000 else b

/-! ## atoms -/

/-- `p.name()` -/
def name : PM String := fun p =>
  match next p with
  | (.error e, p) => (.error e, p)
  | (.ok t, p) =>
    match t.kind with
    | .letterDigit | .graphic | .semicolon | .cut => (.ok (String.ofList t.val), p)
    | .quoted => (.ok (String.ofList (unquote t.val)), p)
    | _ => (.error .expectation, backup p)

/-- `p.atom()` -/
def atom (dq : DoubleQuotes) : PM String := fun p =>
  match name p with
  | (.ok a, p) => (.ok a, p)
  | (.error _, p) =>
    match next p with
    | (.error e, p) => (.error e, p)
    | (.ok t, p) =>
      match t.kind with
      | .openList =>
        match next p with
        | (.error e, p) => (.error e, p)
        | (.ok t, p) =>
          if t.kind = .closeList then (.ok "[]", p) else (.error .expectation, backup (backup p))
      | .openCurly =>
        match next p with
        | (.error e, p) => (.error e, p)
        | (.ok t, p) =>
          if t.kind = .closeCurly then (.ok "{}", p) else (.error .expectation, backup (backup p))
      | .doubleQuotedList =>
        if dq = .atom then (.ok (String.ofList (unDoubleQuote t.val)), p)
        else (.error .expectation, backup p)
      | _ => (.error .expectation, backup p)

/-- `p.op(maxPriority)` -/
def op (dq : DoubleQuotes) (maxPriority : Nat) : PM String := fun p =>
  match atom dq p with
  | (.ok a, p) =>
    if a = "[]" then
      let p := backup p
      (.error .noOp, if currentKind p = .closeList then backup p else p)
    else if a = "{}" then
      let p := backup p
      (.error .noOp, if currentKind p = .closeCurly then backup p else p)
    else (.ok a, p)
  | (.error _, p) =>
    match next p with
    | (.error e, p) => (.error e, p)
    | (.ok t, p) =>
      if t.kind = .comma ∧ maxPriority ≥ 1000 then (.ok (String.ofList t.val), p)
      else if t.kind = .bar then (.ok (String.ofList t.val), p)
      else (.error .expectation, backup p)

def isNumberKind (k : Kind) : Bool := k = .integer || k = .floatNumber

/-- `p.prefix(maxPriority)` -/
def «prefix» (ops : Table) (dq : DoubleQuotes) (maxPriority : Nat) : PM Op := fun p =>
  match op dq maxPriority p with
  | (.error _, p) => (.error .noOp, p)
  | (.ok a, p) =>
    -- `if a == atomMinus`
    let r : Except PErr Unit × PState :=
      if a = "-" then
        match next p with
        | (.error e, p) => (.error e, p)
        | (.ok t, p) =>
          if isNumberKind t.kind then (.error .noOp, backup (backup p)) else (.ok (), backup p)
      else (.ok (), p)
    match r with
    | (.error e, p) => (.error e, p)
    | (.ok (), p) =>
      match next p with
      | (.error e, p) => (.error e, p)
      | (.ok t, p) =>
        if t.kind = .openCT then (.error .noOp, backup (backup p))
        else
          let p := backup p
          match opOf ops a .pre with
          | some o => if o.pri ≤ maxPriority then (.ok o, p) else (.error .noOp, backup p)
          | none => (.error .noOp, backup p)

/-- `p.infix(maxPriority)` -/
def «infix» (ops : Table) (dq : DoubleQuotes) (maxPriority : Nat) : PM Op := fun p =>
  match op dq maxPriority p with
  | (.error _, p) => (.error .noOp, p)
  | (.ok a, p) =>
    match (opOf ops a .inf).filter (fun o => o.pri ≤ maxPriority) with
    | some o => (.ok o, p)
    | none =>
      match (opOf ops a .post).filter (fun o => o.pri ≤ maxPriority) with
      | some o => (.ok o, p)
      | none => (.error .noOp, backup p)

/-- `p.variable(s)` -/
def «variable» (s : List Char) : PM Term := fun p =>
  if s = ['_'] then (.ok (.var p.nextVar), { p with nextVar := p.nextVar + 1 })
  else
    match p.vars.lookup s with
    | some v => (.ok (.var v), p)
    | none => (.ok (.var p.nextVar), { p with vars := p.vars ++ [(s, p.nextVar)], nextVar := p.nextVar + 1 })

/-- `CharList(s)` / `CodeList(s)` -/
def charList (s : List Char) : Term := Term.list (s.map fun c => .atom (String.singleton c))
def codeList (s : List Char) : Term := Term.list (s.map fun c => .int c.toNat)

def apply (f : String) (args : List Term) : Term := Term.mk f args

def numberTerm (negative : Bool) (t : Token) : Except PErr Term :=
  if t.kind = .integer then (integer (if negative then -1 else 1) t.val).map Term.int
  else .ok (.flt (float negative t.val))

mutual
  /-- `p.term(maxPriority)` -/
  def term (ops : Table) (dq : DoubleQuotes) : Nat → Nat → PM Term
    | 0, _ => fun p => (.error .fuel, p)
    | fuel + 1, maxPriority => fun p =>
      match «prefix» ops dq maxPriority p with
      | (.ok o, p) =>
        match term ops dq fuel (bindingPriorities o).2 p with
        | (.error .fuel, p) => (.error .fuel, p)
        | (.error _, p) => term0 ops dq fuel maxPriority (backup p)      -- `return p.term0(maxPriority)`
        | (.ok t, p) => infixLoop ops dq fuel maxPriority (apply o.name [t]) p
      | (.error .noOp, p) =>
        match term0 ops dq fuel maxPriority p with
        | (.error e, p) => (.error e, p)
        | (.ok lhs, p) => infixLoop ops dq fuel maxPriority lhs p
      | (.error e, p) => (.error e, p)
  /-- the `for` loop of `term` -/
  def infixLoop (ops : Table) (dq : DoubleQuotes) : Nat → Nat → Term → PM Term
    | 0, _, _ => fun p => (.error .fuel, p)
    | fuel + 1, maxPriority, lhs => fun p =>
      match «infix» ops dq maxPriority p with
      | (.error _, p) => (.ok lhs, p)
      | (.ok o, p) =>
        if (bindingPriorities o).2 > 1200 then infixLoop ops dq fuel maxPriority (apply o.name [lhs]) p
        else
          match term ops dq fuel (bindingPriorities o).2 p with
          | (.error e, p) => (.error e, p)
          | (.ok rhs, p) => infixLoop ops dq fuel maxPriority (apply o.name [lhs, rhs]) p
  /-- `p.term0(maxPriority)` -/
  def term0 (ops : Table) (dq : DoubleQuotes) : Nat → Nat → PM Term
    | 0, _ => fun p => (.error .fuel, p)
    | fuel + 1, maxPriority => fun p =>
      match next p with
      | (.error e, p) => (.error e, p)
      | (.ok t, p) =>
        match t.kind with
        | .open_ | .openCT => openClose ops dq fuel p
        | .integer | .floatNumber =>
          match numberTerm false t with
          | .ok n => (.ok n, p)
          | .error e => (.error e, p)
        | .variable => «variable» t.val p
        | .openList =>
          -- `if t, _ := p.next(); t.kind == tokenCloseList`
          match next p with
          | (.ok t', p') =>
            if t'.kind = .closeList then term0Atom ops dq fuel maxPriority (backup (backup p'))
            else list ops dq fuel (backup p')
          | (.error _, p') => list ops dq fuel (backup p')
        | .openCurly =>
          match next p with
          | (.ok t', p') =>
            if t'.kind = .closeCurly then term0Atom ops dq fuel maxPriority (backup (backup p'))
            else curlyBracketedTerm ops dq fuel (backup p')
          | (.error _, p') => curlyBracketedTerm ops dq fuel (backup p')
        | .doubleQuotedList =>
          match dq with
          | .chars => (.ok (charList (unDoubleQuote t.val)), p)
          | .codes => (.ok (codeList (unDoubleQuote t.val)), p)
          | .atom => term0Atom ops dq fuel maxPriority (backup p)
        | _ => term0Atom ops dq fuel maxPriority (backup p)
  /-- `p.term0Atom(maxPriority)` -/
  def term0Atom (ops : Table) (dq : DoubleQuotes) : Nat → Nat → PM Term
    | 0, _ => fun p => (.error .fuel, p)
    | fuel + 1, maxPriority => fun p =>
      match atom dq p with
      | (.error e, p) => (.error e, p)
      | (.ok a, p) =>
        let cont (p : PState) : Except PErr Term × PState :=
          match functionalNotation ops dq fuel a p with
          | (.error e, p) => (.error e, p)
          | (.ok t, p) =>
            match t with
            | .atom _ =>
              if maxPriority < 1201 ∧ defined ops a then (.error .expectation, backup p)
              else (.ok t, p)
            | _ => (.ok t, p)
        if a = "-" then
          match next p with
          | (.error e, p) => (.error e, p)
          | (.ok t, p) =>
            if isNumberKind t.kind then
              match numberTerm true t with
              | .ok n => (.ok n, p)
              | .error e => (.error e, p)
            else cont (backup p)
        else cont p
  /-- `p.openClose()` -/
  def openClose (ops : Table) (dq : DoubleQuotes) : Nat → PM Term
    | 0 => fun p => (.error .fuel, p)
    | fuel + 1 => fun p =>
      match term ops dq fuel 1201 p with
      | (.error e, p) => (.error e, p)
      | (.ok t, p) =>
        match next p with
        | (.ok t', p') => if t'.kind = .close then (.ok t, p') else (.error .expectation, backup p')
        | (.error _, p') => (.error .expectation, backup p')
  /-- `p.list()` -/
  def list (ops : Table) (dq : DoubleQuotes) : Nat → PM Term
    | 0 => fun p => (.error .fuel, p)
    | fuel + 1 => fun p =>
      match arg ops dq fuel p with
      | (.error e, p) => (.error e, p)
      | (.ok a, p) => listLoop ops dq fuel [a] p
  /-- the `for` loop of `list`; `args` in order -/
  def listLoop (ops : Table) (dq : DoubleQuotes) : Nat → List Term → PM Term
    | 0, _ => fun p => (.error .fuel, p)
    | fuel + 1, args => fun p =>
      let (k, p) : Kind × PState :=
        match next p with
        | (.ok t, p) => (t.kind, p)
        | (.error _, p) => (.invalid, p)
      match k with
      | .comma =>
        match arg ops dq fuel p with
        | (.error e, p) => (.error e, p)
        | (.ok a, p) => listLoop ops dq fuel (args ++ [a]) p
      | .bar =>
        match arg ops dq fuel p with
        | (.error e, p) => (.error e, p)
        | (.ok rest, p) =>
          match next p with
          | (.ok t, p') =>
            if t.kind = .closeList then (.ok (Term.list args rest), p')
            else (.error .expectation, backup p')
          | (.error _, p') => (.error .expectation, backup p')
      | .closeList => (.ok (Term.list args), p)
      | _ => (.error .expectation, backup p)
  /-- `p.curlyBracketedTerm()` -/
  def curlyBracketedTerm (ops : Table) (dq : DoubleQuotes) : Nat → PM Term
    | 0 => fun p => (.error .fuel, p)
    | fuel + 1 => fun p =>
      match term ops dq fuel 1201 p with
      | (.error e, p) => (.error e, p)
      | (.ok t, p) =>
        match next p with
        | (.ok t', p') =>
          if t'.kind = .closeCurly then (.ok (apply "{}" [t]), p') else (.error .expectation, backup p')
        | (.error _, p') => (.error .expectation, backup p')
  /-- `p.functionalNotation(functor)` -/
  def functionalNotation (ops : Table) (dq : DoubleQuotes) : Nat → String → PM Term
    | 0, _ => fun p => (.error .fuel, p)
    | fuel + 1, functor => fun p =>
      match next p with
      | (.ok t, p') =>
        if t.kind = .openCT then
          match arg ops dq fuel p' with
          | (.error e, p) => (.error e, p)
          | (.ok a, p) => argsLoop ops dq fuel functor [a] p
        else (.ok (.atom functor), backup p')
      | (.error _, p') => (.ok (.atom functor), backup p')
  /-- the `for` loop of `functionalNotation` -/
  def argsLoop (ops : Table) (dq : DoubleQuotes) : Nat → String → List Term → PM Term
    | 0, _, _ => fun p => (.error .fuel, p)
    | fuel + 1, functor, args => fun p =>
      let (k, p) : Kind × PState :=
        match next p with
        | (.ok t, p) => (t.kind, p)
        | (.error _, p) => (.invalid, p)
      match k with
      | .comma =>
        match arg ops dq fuel p with
        | (.error e, p) => (.error e, p)
        | (.ok a, p) => argsLoop ops dq fuel functor (args ++ [a]) p
      | .close => (.ok (apply functor args), p)
      | _ => (.error .expectation, backup p)
  /-- `p.arg()` -/
  def arg (ops : Table) (dq : DoubleQuotes) : Nat → PM Term
    | 0 => fun p => (.error .fuel, p)
    | fuel + 1 => fun p =>
      match atom dq p with
      | (.ok a, p) =>
        let rewind (p : PState) : PState :=
          let p := backup p
          if currentKind p = .closeList ∨ currentKind p = .closeCurly then backup p else p
        if defined ops a then
          let (k, p) : Kind × PState :=
            match next p with
            | (.ok t, p) => (t.kind, p)
            | (.error _, p) => (.invalid, p)
          if k = .comma ∨ k = .close ∨ k = .bar ∨ k = .closeList then (.ok (.atom a), backup p)
          else term ops dq fuel 999 (rewind (backup p))
        else term ops dq fuel 999 (rewind p)
      | (.error _, p) => term ops dq fuel 999 p
end

/-- `p.Term()`: a term followed by a full stop -/
def parseTerm (ops : Table) (dq : DoubleQuotes) (fuel : Nat) : PM Term := fun p =>
  match term ops dq fuel 1201 p with
  | (.error e, p) => (.error e, p)
  | (.ok t, p) =>
    match next p with
    | (.ok t', p') => if t'.kind = .end_ then (.ok t, p') else (.error .expectation, backup p')
    | (.error _, p') => (.error .expectation, backup p')

/-! ## reading from text -/

/-- fuel that suffices for a token sequence (every recursive call either consumes a token or
    follows a bounded chain `term → term0 → term0Atom → functionalNotation → arg → term`) -/
def readFuel (toks : List Token) : Nat := 8 * toks.length + 16

/-- `read_term` on a text: all tokens, then `Parser.Term`.  The result is the term with variables
    numbered in order of creation. -/
def readTerm (cfg : Cfg) (ops : Table) (dq : DoubleQuotes) (text : List Char) : Except PErr Term :=
  let toks := (tokens cfg (text.length + 1) (Lexer.ofList text)).1
  (parseTerm ops dq (readFuel toks) { after := toks }).1

/-- `Parser.number()` as used by number_chars/number_codes: an optionally negated number token
    followed by the end of the text (`p.lexer.rawNext()` must report io.EOF) -/
def number (cfg : Cfg) (text : List Char) : Except PErr Term :=
  let l0 := Lexer.ofList text
  match lexToken cfg l0 with
  | .error _ => .error .eof
  | .ok (t, l1) =>
    let fin (neg : Bool) (t : Token) (l : Lexer) : Except PErr Term :=
      match numberTerm neg t with
      | .error e => .error e
      | .ok n => if l.rest = [] then .ok n else .error .notANumber
    if isNumberKind t.kind then fin false t l1
    else
      -- `p.name()` must deliver the atom `-`
      let isMinus : Bool :=
        match t.kind with
        | .letterDigit | .graphic | .semicolon | .cut => t.val = ['-']
        | .quoted => unquote t.val = ['-']
        | _ => false
      if isMinus then
        match lexToken cfg l1 with
        | .error _ => .error .notANumber
        | .ok (t2, l2) => if isNumberKind t2.kind then fin true t2 l2 else .error .notANumber
      else .error .notANumber

end PrologVerif.Read
