/-
  Sorting facts for an arbitrary lawful three-way comparison (total preorder):
  adjacent-duplicate removal after any ascending permutation is THE strictly ascending list with
  the same elements (unique up to `=`); a stable sort is unique; insertion sort is one.
-/
import PrologVerif.Proofs.OrderBase
namespace PrologVerif.OrderProofs
open PrologVerif PrologVerif.Order PrologVerif.OrderSpec

section
variable {α : Type} {cmp : α → α → Ordering} (L : Lawful cmp)
include L

/-! ### `SameElems` is an equivalence, `EqvLists` too -/

theorem sameElems_refl (l : List α) : SameElems cmp l l :=
  ⟨fun x hx => ⟨x, hx, L.refl x⟩, fun y hy => ⟨y, hy, L.refl y⟩⟩

theorem sameElems_symm {l r : List α} (h : SameElems cmp l r) : SameElems cmp r l :=
  ⟨fun y hy => let ⟨x, hx, e⟩ := h.2 y hy; ⟨x, hx, L.eq_symm e⟩,
   fun x hx => let ⟨y, hy, e⟩ := h.1 x hx; ⟨y, hy, L.eq_symm e⟩⟩

theorem sameElems_trans {l m r : List α} (h : SameElems cmp l m) (k : SameElems cmp m r) :
    SameElems cmp l r :=
  ⟨fun x hx => let ⟨y, hy, e⟩ := h.1 x hx; let ⟨z, hz, e'⟩ := k.1 y hy; ⟨z, hz, L.eq_trans e e'⟩,
   fun z hz => let ⟨y, hy, e⟩ := k.2 z hz; let ⟨x, hx, e'⟩ := h.2 y hy; ⟨x, hx, L.eq_trans e' e⟩⟩

theorem sameElems_of_perm {l r : List α} (h : l.Perm r) : SameElems cmp l r :=
  ⟨fun x hx => ⟨x, h.mem_iff.mp hx, L.refl x⟩, fun y hy => ⟨y, h.mem_iff.mpr hy, L.refl y⟩⟩

theorem eqvLists_refl : ∀ l : List α, EqvLists cmp l l
  | [] => trivial
  | a :: as => ⟨L.refl a, eqvLists_refl as⟩

theorem eqvLists_symm : ∀ {l r : List α}, EqvLists cmp l r → EqvLists cmp r l
  | [], [], _ => trivial
  | [], _ :: _, h => h.elim
  | _ :: _, [], h => h.elim
  | _ :: _, _ :: _, h => ⟨L.eq_symm h.1, eqvLists_symm h.2⟩

theorem eqvLists_trans : ∀ {l m r : List α}, EqvLists cmp l m → EqvLists cmp m r → EqvLists cmp l r
  | [], [], [], _, _ => trivial
  | [], [], _ :: _, _, k => k.elim
  | [], _ :: _, _, h, _ => h.elim
  | _ :: _, [], _, h, _ => h.elim
  | _ :: _, _ :: _, [], _, k => k.elim
  | _ :: _, _ :: _, _ :: _, h, k => ⟨L.eq_trans h.1 k.1, eqvLists_trans h.2 k.2⟩

/-! ### duplicate removal -/

theorem dedupFrom_spec : ∀ (ts : List α) (u : α), Ascending cmp (u :: ts) →
    StrictAscending cmp (u :: dedupFrom cmp (some u) ts) ∧
    SameElems cmp (u :: ts) (u :: dedupFrom cmp (some u) ts)
  | [], u, _ => by
    simp only [dedupFrom]
    exact ⟨List.pairwise_singleton _ _, sameElems_refl L _⟩
  | t :: ts, u, h => by
    have hut : cmp t u ≠ .lt := (List.pairwise_cons.mp h).1 t (by simp)
    have hts : Ascending cmp (t :: ts) := (List.pairwise_cons.mp h).2
    have huts : Ascending cmp (u :: ts) := by
      refine List.pairwise_cons.mpr ⟨fun a ha => (List.pairwise_cons.mp h).1 a (by simp [ha]), ?_⟩
      exact (List.pairwise_cons.mp hts).2
    simp only [dedupFrom]
    by_cases e : cmp u t = .eq
    · simp only [e, if_true]
      obtain ⟨ih1, ih2⟩ := dedupFrom_spec ts u huts
      refine ⟨ih1, ?_⟩
      constructor
      · intro x hx
        rcases List.mem_cons.mp hx with rfl | hx
        · exact ⟨x, by simp, L.refl x⟩
        · rcases List.mem_cons.mp hx with rfl | hx
          · exact ⟨u, by simp, L.eq_symm e⟩
          · exact ih2.1 x (by simp [hx])
      · intro y hy
        obtain ⟨x, hx, hxy⟩ := ih2.2 y hy
        refine ⟨x, ?_, hxy⟩
        rcases List.mem_cons.mp hx with rfl | hx
        · simp
        · simp [hx]
    · simp only [e, if_false]
      have hlt : cmp u t = .lt := by
        have := L.swap u t
        cases h' : cmp u t <;> simp_all [Ordering.swap]
      obtain ⟨ih1, ih2⟩ := dedupFrom_spec ts t hts
      constructor
      · refine List.pairwise_cons.mpr ⟨?_, ih1⟩
        intro a ha
        rcases List.mem_cons.mp ha with rfl | ha
        · exact hlt
        · exact L.lt_trans hlt ((List.pairwise_cons.mp ih1).1 a ha)
      · constructor
        · intro x hx
          rcases List.mem_cons.mp hx with rfl | hx
          · exact ⟨x, by simp, L.refl x⟩
          · obtain ⟨y, hy, hxy⟩ := ih2.1 x hx
            exact ⟨y, by simp [hy], hxy⟩
        · intro y hy
          rcases List.mem_cons.mp hy with rfl | hy
          · exact ⟨y, by simp, L.refl y⟩
          · obtain ⟨x, hx, hxy⟩ := ih2.2 y hy
            exact ⟨x, by simp [hx], hxy⟩

/-- after ANY ascending arrangement, adjacent-duplicate removal gives a strictly ascending list
    with the same elements -/
theorem dedupAdjacent_spec (p : List α) (h : Ascending cmp p) :
    StrictAscending cmp (dedupAdjacent cmp p) ∧ SameElems cmp p (dedupAdjacent cmp p) := by
  cases p with
  | nil => exact ⟨List.Pairwise.nil, sameElems_refl L _⟩
  | cons u ts => simp only [dedupAdjacent, dedupFrom]; exact dedupFrom_spec L ts u h

/-- two strictly ascending lists with the same elements are element-wise `=` -/
theorem strictAscending_unique : ∀ (r1 r2 : List α), StrictAscending cmp r1 → StrictAscending cmp r2 →
    SameElems cmp r1 r2 → EqvLists cmp r1 r2
  | [], [], _, _, _ => trivial
  | [], b :: r2, _, _, h => by
    obtain ⟨x, hx, _⟩ := h.2 b (by simp)
    simp at hx
  | a :: r1, [], _, _, h => by
    obtain ⟨x, hx, _⟩ := h.1 a (by simp)
    simp at hx
  | a :: r1, b :: r2, h1, h2, h => by
    have ha := (List.pairwise_cons.mp h1).1
    have hb := (List.pairwise_cons.mp h2).1
    have hab : cmp a b = .eq := by
      obtain ⟨y, hy, hay⟩ := h.1 a (by simp)
      obtain ⟨x, hx, hxb⟩ := h.2 b (by simp)
      rcases List.mem_cons.mp hy with rfl | hy
      · exact hay
      · rcases List.mem_cons.mp hx with rfl | hx
        · exact hxb
        · -- b < y = a  and  a < x = b : impossible
          have h1 : cmp b a = .lt := by rw [← L.congr_right hay b]; exact hb y hy
          have h2 : cmp a b = .lt := by rw [L.congr_right hxb a]; exact ha x hx
          rw [L.swap a b, h2] at h1
          simp [Ordering.swap] at h1
    refine ⟨hab, strictAscending_unique r1 r2 (List.pairwise_cons.mp h1).2 (List.pairwise_cons.mp h2).2 ?_⟩
    constructor
    · intro x hx
      obtain ⟨y, hy, hxy⟩ := h.1 x (by simp [hx])
      rcases List.mem_cons.mp hy with rfl | hy
      · -- x = b = a but a < x
        have : cmp a x = .eq := L.eq_trans hab (L.eq_symm hxy)
        rw [ha x hx] at this; cases this
      · exact ⟨y, hy, hxy⟩
    · intro y hy
      obtain ⟨x, hx, hxy⟩ := h.2 y (by simp [hy])
      rcases List.mem_cons.mp hx with rfl | hx
      · have : cmp b y = .eq := L.eq_trans (L.eq_symm hab) hxy
        rw [hb y hy] at this; cases this
      · exact ⟨x, hx, hxy⟩

omit L in
theorem dedupFrom_of_strict : ∀ (ts : List α) (u : α), StrictAscending cmp (u :: ts) →
    dedupFrom cmp (some u) ts = ts
  | [], _, _ => rfl
  | t :: ts, u, h => by
    have hut : cmp u t = .lt := (List.pairwise_cons.mp h).1 t (by simp)
    simp only [dedupFrom, hut]
    rw [dedupFrom_of_strict ts t (List.pairwise_cons.mp h).2]
    simp

omit L in
/-- a strictly ascending list has no adjacent duplicates to remove -/
theorem dedupAdjacent_of_strict (l : List α) (h : StrictAscending cmp l) : dedupAdjacent cmp l = l := by
  cases l with
  | nil => rfl
  | cons u ts => simp only [dedupAdjacent, dedupFrom]; rw [dedupFrom_of_strict ts u h]

omit L in
/-- the only ascending arrangement of a strictly ascending list is the list itself -/
theorem ascending_perm_of_strict : ∀ (l p : List α), StrictAscending cmp l → p.Perm l → Ascending cmp p → p = l
  | [], p, _, hp, _ => List.Perm.eq_nil hp
  | a :: l, [], _, hp, _ => by have := hp.length_eq; simp at this
  | a :: l, b :: p, hl, hp, ha => by
    have hal := (List.pairwise_cons.mp hl).1
    have hbp := (List.pairwise_cons.mp ha).1
    have hb : b = a := by
      have hb : b ∈ a :: l := hp.mem_iff.mp (by simp)
      rcases List.mem_cons.mp hb with rfl | hb
      · rfl
      · have hlt := hal b hb
        have ha' : a ∈ b :: p := hp.mem_iff.mpr (by simp)
        rcases List.mem_cons.mp ha' with rfl | ha'
        · rfl
        · exact absurd hlt (hbp a ha')
    subst hb
    rw [ascending_perm_of_strict l p (List.pairwise_cons.mp hl).2 (List.Perm.cons_inv hp)
      (List.pairwise_cons.mp ha).2]

/-! ### insertion sort -/

omit L in
theorem orderedInsert_perm (x : α) : ∀ ys : List α, (orderedInsert cmp x ys).Perm (x :: ys)
  | [] => List.Perm.refl _
  | y :: ys => by
    simp only [orderedInsert]
    split
    · exact ((orderedInsert_perm x ys).cons y).trans (List.Perm.swap x y ys)
    · exact List.Perm.refl _

omit L in
theorem insertionSort_perm : ∀ l : List α, (insertionSort cmp l).Perm l
  | [] => List.Perm.refl _
  | x :: xs => (orderedInsert_perm x _).trans ((insertionSort_perm xs).cons x)

theorem orderedInsert_ascending (x : α) : ∀ ys : List α, Ascending cmp ys →
    Ascending cmp (orderedInsert cmp x ys)
  | [], _ => List.pairwise_singleton _ _
  | y :: ys, h => by
    simp only [orderedInsert]
    split
    · rename_i hgt
      refine List.pairwise_cons.mpr ⟨?_, orderedInsert_ascending x ys (List.pairwise_cons.mp h).2⟩
      intro a ha
      rcases List.mem_cons.mp ((orderedInsert_perm x ys).mem_iff.mp ha) with rfl | ha
      · rw [hgt]; simp
      · exact (List.pairwise_cons.mp h).1 a ha
    · rename_i hng
      refine List.pairwise_cons.mpr ⟨?_, h⟩
      intro a ha
      have hxy : cmp y x ≠ .lt := by rw [L.swap x y]; cases h' : cmp x y <;> simp_all [Ordering.swap]
      rcases List.mem_cons.mp ha with rfl | ha
      · exact hxy
      · -- x ≤ y ≤ a
        have hya : cmp a y ≠ .lt := (List.pairwise_cons.mp h).1 a ha
        intro hax
        have : cmp a y = .lt := L.lt_of_lt_of_le hax hng
        exact hya this

theorem insertionSort_ascending : ∀ l : List α, Ascending cmp (insertionSort cmp l)
  | [] => List.Pairwise.nil
  | x :: xs => orderedInsert_ascending L x _ (insertionSort_ascending xs)

omit L in
theorem filter_orderedInsert_of_not (p : α → Bool) (x : α) (hx : p x = false) :
    ∀ ys : List α, (orderedInsert cmp x ys).filter p = ys.filter p
  | [] => by simp [orderedInsert, hx]
  | y :: ys => by
    simp only [orderedInsert]
    split
    · simp only [List.filter_cons, filter_orderedInsert_of_not p x hx ys]
    · simp [List.filter_cons, hx]

theorem filter_orderedInsert_of_mem (z x : α) (hx : cmp z x = .eq) :
    ∀ ys : List α, (orderedInsert cmp x ys).filter (fun y => cmp z y == .eq)
      = x :: ys.filter (fun y => cmp z y == .eq)
  | [] => by simp [orderedInsert, hx]
  | y :: ys => by
    simp only [orderedInsert]
    split
    · rename_i hgt
      -- y < x ~ z : y is not in the class
      have : cmp z y = .gt := by rw [L.congr_left hx y]; exact hgt
      simp [List.filter_cons, this, filter_orderedInsert_of_mem z x hx ys]
    · simp [List.filter_cons, hx]

/-- insertion sort is a stable sort -/
theorem insertionSort_stable : ∀ l : List α, IsStableSortOf cmp l (insertionSort cmp l) := by
  intro l
  refine ⟨insertionSort_perm l, insertionSort_ascending L l, fun z hz => ?_⟩
  clear hz
  induction l with
  | nil => rfl
  | cons x xs ih =>
    simp only [insertionSort]
    by_cases hx : cmp z x = .eq
    · rw [filter_orderedInsert_of_mem L z x hx, ih]; simp [hx]
    · rw [filter_orderedInsert_of_not _ x (by simp [hx]), ih]; simp [hx]

/-- two ascending lists with the same class subsequences are equal -/
theorem stable_unique : ∀ (r1 r2 : List α), Ascending cmp r1 → Ascending cmp r2 →
    (∀ x, (x ∈ r1 ∨ x ∈ r2) →
      r1.filter (fun y => cmp x y == .eq) = r2.filter (fun y => cmp x y == .eq)) → r1 = r2
  | [], [], _, _, _ => rfl
  | [], b :: r2, _, _, h => by
    have := h b (by simp); simp [L.refl b] at this
  | a :: r1, [], _, _, h => by
    have := h a (by simp); simp [L.refl a] at this
  | a :: r1, b :: r2, h1, h2, h => by
    have hab : cmp a b = .eq := by
      have ha : a ∈ (b :: r2).filter (fun y => cmp a y == .eq) := by
        rw [← h a (by simp)]; simp [L.refl a]
      have hb : b ∈ (a :: r1).filter (fun y => cmp b y == .eq) := by
        rw [h b (by simp)]; simp [L.refl b]
      have ha' : cmp a b ≠ .lt := by
        rcases List.mem_cons.mp (List.mem_filter.mp ha).1 with rfl | hm
        · rw [L.refl]; simp
        · exact (List.pairwise_cons.mp h2).1 a hm
      have hb' : cmp b a ≠ .lt := by
        rcases List.mem_cons.mp (List.mem_filter.mp hb).1 with rfl | hm
        · rw [L.refl]; simp
        · exact (List.pairwise_cons.mp h1).1 b hm
      rw [L.swap a b] at hb'
      cases h' : cmp a b <;> simp_all [Ordering.swap]
    have heq : a = b := by
      have := h a (by simp)
      simp [L.refl a, hab] at this
      exact this.1
    subst heq
    congr 1
    apply stable_unique r1 r2 (List.pairwise_cons.mp h1).2 (List.pairwise_cons.mp h2).2
    intro x hx
    have := h x (by rcases hx with hx | hx <;> simp [hx])
    by_cases hx : cmp x a = .eq
    · simpa [List.filter_cons, hx] using this
    · simpa [List.filter_cons, hx] using this

/-- **uniqueness of stable sorting**: any stable sort of `l` is the insertion sort of `l` -/
theorem stableSort_unique (l r : List α) (h : IsStableSortOf cmp l r) : r = insertionSort cmp l := by
  have hs := insertionSort_stable L l
  apply stable_unique L r _ h.2.1 hs.2.1
  intro x hx
  have hxl : x ∈ l := by
    rcases hx with hx | hx
    · exact h.1.mem_iff.mp hx
    · exact hs.1.mem_iff.mp hx
  rw [h.2.2 x hxl, hs.2.2 x hxl]

end

/-! ### changing the comparison on a list where two comparisons agree -/

section
variable {α : Type} {c1 c2 : α → α → Ordering}

theorem dedupFrom_congr : ∀ (ts : List α) (o : Option α),
    (∀ x, (x ∈ ts ∨ o = some x) → ∀ y, (y ∈ ts ∨ o = some y) → c1 x y = c2 x y) →
    dedupFrom c1 o ts = dedupFrom c2 o ts
  | [], _, _ => rfl
  | t :: ts, none, h => by
    simp only [dedupFrom]
    rw [dedupFrom_congr ts (some t)]
    intro x hx y hy
    apply h
    · rcases hx with hx | hx
      · simp [hx]
      · simp at hx; simp [hx]
    · rcases hy with hy | hy
      · simp [hy]
      · simp at hy; simp [hy]
  | t :: ts, some u, h => by
    simp only [dedupFrom]
    rw [h u (by simp) t (by simp)]
    split
    · apply dedupFrom_congr ts (some u)
      intro x hx y hy
      apply h
      · rcases hx with hx | hx
        · simp [hx]
        · simp [hx]
      · rcases hy with hy | hy
        · simp [hy]
        · simp [hy]
    · rw [dedupFrom_congr ts (some t)]
      intro x hx y hy
      apply h
      · rcases hx with hx | hx
        · simp [hx]
        · simp at hx; simp [hx]
      · rcases hy with hy | hy
        · simp [hy]
        · simp at hy; simp [hy]

theorem dedupAdjacent_congr (ts : List α) (h : ∀ x ∈ ts, ∀ y ∈ ts, c1 x y = c2 x y) :
    dedupAdjacent c1 ts = dedupAdjacent c2 ts := by
  unfold dedupAdjacent
  apply dedupFrom_congr
  intro x hx y hy
  simp at hx hy
  exact h x hx y hy

theorem pairwise_congr {R1 R2 : α → α → Prop} : ∀ (l : List α),
    (∀ x ∈ l, ∀ y ∈ l, R1 x y ↔ R2 x y) → (l.Pairwise R1 ↔ l.Pairwise R2)
  | [], _ => by simp
  | a :: l, h => by
    simp only [List.pairwise_cons]
    rw [pairwise_congr l (fun x hx y hy => h x (by simp [hx]) y (by simp [hy]))]
    constructor
    · intro ⟨h1, h2⟩
      exact ⟨fun b hb => (h a (by simp) b (by simp [hb])).mp (h1 b hb), h2⟩
    · intro ⟨h1, h2⟩
      exact ⟨fun b hb => (h a (by simp) b (by simp [hb])).mpr (h1 b hb), h2⟩

theorem ascending_congr (l : List α) (h : ∀ x ∈ l, ∀ y ∈ l, c1 x y = c2 x y) :
    Ascending c1 l ↔ Ascending c2 l := by
  unfold Ascending
  apply pairwise_congr
  intro x hx y hy
  rw [h y hy x hx]

theorem strictAscending_congr (l : List α) (h : ∀ x ∈ l, ∀ y ∈ l, c1 x y = c2 x y) :
    StrictAscending c1 l ↔ StrictAscending c2 l := by
  unfold StrictAscending
  apply pairwise_congr
  intro x hx y hy
  rw [h x hx y hy]

theorem orderedInsert_congr (x : α) : ∀ (ys : List α), (∀ y ∈ ys, c1 x y = c2 x y) →
    orderedInsert c1 x ys = orderedInsert c2 x ys
  | [], _ => rfl
  | y :: ys, h => by
    simp only [orderedInsert]
    rw [h y (by simp), orderedInsert_congr x ys (fun z hz => h z (by simp [hz]))]

theorem insertionSort_congr : ∀ (l : List α), (∀ x ∈ l, ∀ y ∈ l, c1 x y = c2 x y) →
    insertionSort c1 l = insertionSort c2 l
  | [], _ => rfl
  | x :: xs, h => by
    simp only [insertionSort]
    rw [insertionSort_congr xs (fun a ha b hb => h a (by simp [ha]) b (by simp [hb]))]
    apply orderedInsert_congr
    intro y hy
    have : y ∈ xs := (insertionSort_perm (cmp := c2) xs).mem_iff.mp hy
    exact h x (by simp) y (by simp [this])

theorem eqvLists_congr : ∀ (l r : List α), (∀ x ∈ l, ∀ y ∈ r, c1 x y = c2 x y) →
    (EqvLists c1 l r ↔ EqvLists c2 l r)
  | [], [], _ => Iff.rfl
  | [], _ :: _, _ => Iff.rfl
  | _ :: _, [], _ => Iff.rfl
  | a :: l, b :: r, h => by
    simp only [EqvLists]
    rw [h a (by simp) b (by simp),
      eqvLists_congr l r (fun x hx y hy => h x (by simp [hx]) y (by simp [hy]))]

theorem sameElems_congr (l r : List α) (h : ∀ x ∈ l, ∀ y ∈ r, c1 x y = c2 x y) :
    SameElems c1 l r ↔ SameElems c2 l r := by
  unfold SameElems
  constructor
  · intro ⟨h1, h2⟩
    exact ⟨fun x hx => let ⟨y, hy, e⟩ := h1 x hx; ⟨y, hy, by rw [← h x hx y hy]; exact e⟩,
      fun y hy => let ⟨x, hx, e⟩ := h2 y hy; ⟨x, hx, by rw [← h x hx y hy]; exact e⟩⟩
  · intro ⟨h1, h2⟩
    exact ⟨fun x hx => let ⟨y, hy, e⟩ := h1 x hx; ⟨y, hy, by rw [h x hx y hy]; exact e⟩,
      fun y hy => let ⟨x, hx, e⟩ := h2 y hy; ⟨x, hx, by rw [h x hx y hy]; exact e⟩⟩

theorem isSetOf_congr (l r : List α) (h : ∀ x, (x ∈ l ∨ x ∈ r) → ∀ y ∈ r, c1 x y = c2 x y) :
    IsSetOf c1 l r ↔ IsSetOf c2 l r := by
  unfold IsSetOf
  rw [strictAscending_congr r (fun x hx y hy => h x (Or.inr hx) y hy),
    sameElems_congr l r (fun x hx y hy => h x (Or.inl hx) y hy)]

theorem mem_of_mem_dedupFrom (c : α → α → Ordering) : ∀ (l : List α) (o : Option α),
    ∀ t ∈ dedupFrom c o l, t ∈ l
  | [], o, t, ht => by cases o <;> simp [dedupFrom] at ht
  | a :: l, none, t, ht => by
    simp only [dedupFrom] at ht
    rcases List.mem_cons.mp ht with rfl | ht
    · simp
    · exact List.mem_cons_of_mem _ (mem_of_mem_dedupFrom c l _ t ht)
  | a :: l, some u, t, ht => by
    simp only [dedupFrom] at ht
    split at ht
    · exact List.mem_cons_of_mem _ (mem_of_mem_dedupFrom c l _ t ht)
    · rcases List.mem_cons.mp ht with rfl | ht
      · simp
      · exact List.mem_cons_of_mem _ (mem_of_mem_dedupFrom c l _ t ht)

theorem isStableSortOf_congr (l r : List α)
    (h : ∀ x, (x ∈ l ∨ x ∈ r) → ∀ y, (y ∈ l ∨ y ∈ r) → c1 x y = c2 x y) :
    IsStableSortOf c1 l r ↔ IsStableSortOf c2 l r := by
  unfold IsStableSortOf
  rw [ascending_congr r (fun x hx y hy => h x (Or.inr hx) y (Or.inr hy))]
  have e : ∀ x ∈ l, (r.filter (fun y => c1 x y == .eq) = l.filter (fun y => c1 x y == .eq)) ↔
      (r.filter (fun y => c2 x y == .eq) = l.filter (fun y => c2 x y == .eq)) := by
    intro x hx
    rw [List.filter_congr (l := r) (q := fun y => c2 x y == .eq)
        (fun y hy => by rw [h x (Or.inl hx) y (Or.inr hy)]),
      List.filter_congr (l := l) (q := fun y => c2 x y == .eq)
        (fun y hy => by rw [h x (Or.inl hx) y (Or.inl hy)])]
  constructor
  · intro ⟨h0, h1, h2⟩; exact ⟨h0, h1, fun x hx => (e x hx).mp (h2 x hx)⟩
  · intro ⟨h0, h1, h2⟩; exact ⟨h0, h1, fun x hx => (e x hx).mpr (h2 x hx)⟩

end

end PrologVerif.OrderProofs
