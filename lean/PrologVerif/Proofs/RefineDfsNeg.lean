/-
  Refine, part 11d — the search, continued: `\+ G`.  The VM's thunk calls `G` with the continuation
  `.done` in a trampoline of its own (`force` on an empty stack: by `force_dfsG_conv` and
  `vm_nested_well_scoped` a reference search `dfsP` from the empty path), then fails (a solution was
  found), goes on with its continuation (no solution) or passes the error on.  The reference runs
  `(call(G) -> fail ; true)`: the nested search of the VM corresponds to the then-branch
  `call(call(G)), !, call(fail)` — the refinement for thunk fuel `F - 1`, in the mode `some d`
  (`d` the level of the cut) —, the continuation to the else-branch `call(true)`.
-/
import PrologVerif.Proofs.RefineDfsAlt
import PrologVerif.Proofs.VMScoped
namespace PrologVerif.Refine
open PrologVerif PrologVerif.VM PrologVerif.DecompileCompile PrologVerif.Activation
  PrologVerif.RefineITree PrologVerif.RefineRobinson PrologVerif.VMScoped
  PrologVerif.Promise PrologVerif.DFSG PrologVerif.ForceDFSGConv

theorem evalThunk_negate (n : Nat) (g : Term) (k : Cont) (env : Env) (m : MS) :
    evalThunk (n + 1) (.negate g k env) m =
      match force (VM.sem n) (callGoal g .done env m).2.user.cancelAt n [(callGoal g .done env m).1]
          (callGoal g .done env m).2 with
      | none => none
      | some (.yes, m') => some (failP, m')
      | some (.no, m') => applyCont n k env m'
      | some (.error e, m') => some (errP e, m')
      | some (.cancelled, m') => some (errP (.goErr "context canceled"), m') := by
  rw [evalThunk]; rfl

section
variable {fl : Bool} {mo : Option Nat} {tmpl : Term} {max : Nat} {prog : List Term} {F : Nat}

/-- **`\+ G`** -/
theorem tn_succ {k : Nat} (ihP : TPk fl mo tmpl max prog F k) (hprog : ∀ c ∈ prog, clauseS fl c = true)
    (ihF : ∀ nF, F = nF + 1 → ∀ (mo' : Option Nat) (k' : Nat), TPk fl mo' tmpl max prog nF k')
    {g c : Term} {id : Nat} {K : Cont} {env : Env} {R : List SLD.Frame} {q : Term} {nv n d l : Nat} {r : SLD.Res}
    {lv : Lv} {m : MS} {sig : SigG Err} {m' : MS} {ans0 : List Term}
    (hda : dfsAlts (VM.sem F) 0 (k + 1) (Thunk.negate g K env) ({ id := id, delayed := [] } : Pr)
      (lv.map Prod.fst) m = some (sig, m'))
    (hgood : GoodA fl F (k + 1) (Thunk.negate g K env) { id := id, delayed := [] } (lv.map Prod.fst) m)
    (hans : m.user.answers = ans0) (hid0 : id ≠ 0) (hidn : id ∉ lv.map Prod.fst) (hfl : fl = true)
    (hsim : SimAt fl mo tmpl max lv K env m.user.nextVar R q nv (fun σ π D => InD D g ∧ c = img σ π g))
    (hs : SLD.solveAlts false (progS prog) n d nv (negAlts c d l) R q (max - ans0.length) = some r)
    (hok : LvOK mo lv d) (hst : StOK prog m) (hlt : ans0.length < max) :
    sig = .illScoped ∨ Match mo tmpl max prog lv ans0 m m' sig r := by
  subst hans
  cases hev : evalThunk F (Thunk.negate g K env) m with
  | none => rw [dfsAlts_thunk_none (sem := VM.sem F) (by exact hev)] at hda; cases hda
  | some pr =>
  obtain ⟨q0, m1⟩ := pr
  cases F with
  | zero => simp [evalThunk] at hev
  | succ nF =>
  obtain ⟨hcok, hgoodN⟩ := (hgood _ _ .here).neg hfl
  obtain ⟨N, σ, π, D, G, hN, hW, hcg, hgr, hco, hq', hgD, hc⟩ := hsim
  subst hc
  -- the reference: the then-branch `call(call(G)), !, call(fail)`
  cases n with
  | zero => rw [solveAlts_zero] at hs; cases hs
  | succ n' =>
  unfold negAlts at hs
  rw [solveAlts_frames_cons] at hs
  cases hs1 : SLD.solve false (progS prog) n' (d + 1) nv
      ([SLD.Frame.goal (SLD.call1 (SLD.call1 (img σ π g))) d, .goal (.atom "!") d,
        .goal (SLD.call1 (.atom "fail")) l] ++ R) q (max - m.user.answers.length) with
  | none => rw [hs1] at hs; simp at hs
  | some r1 =>
  rw [hs1] at hs
  simp only at hs
  obtain ⟨n1, r1', hs1', hr1⟩ := solve_callw_some (c := img σ π g) (by simpa using hs1)
  -- the nested search
  obtain ⟨p0, hp0⟩ : ∃ p0, p0 = (callGoal g .done env m).1 := ⟨_, rfl⟩
  obtain ⟨m0, hm0⟩ : ∃ m0, m0 = (callGoal g .done env m).2 := ⟨_, rfl⟩
  have hst0 : StOK prog m0 ∧ m0.user.answers = m.user.answers ∧ m.user.nextVar ≤ m0.user.nextVar ∧
      PSpecW fl (some d) tmpl max prog [] (d + 1 + 1) p0 m0 m.user.answers r1' := by
    obtain ⟨g0, hres0, hcase⟩ := hcok
    have hsub : g0.subst σ = g.subst σ := resolve_sol inner env g g0 σ hres0 hW.mg.mgu.sol
    by_cases hv : ∃ v, g0 = .var v
    · -- an unbound variable: instantiation error on both sides
      obtain ⟨v, rfl⟩ := hv
      obtain ⟨c1, N', hN', hmk⟩ := mkErr_closed instErr (fun _ => rfl) env m
      have hcg0 : callGoal g .done env m = (errP (.exc (errT instErr c1)), bump m N') := by
        rw [callGoal_var g .done env m v hres0, hmk]
      have e1 : p0 = errP (.exc (errT instErr c1)) := by rw [hp0, hcg0]
      have e2 : m0 = bump m N' := by rw [hm0, hcg0]
      have hσv : σ v = .var v := hW.mg.mgu.idUnbound v (resolve_var_unbound inner env g v hres0)
      have hix : img σ π g = .var (π v) := by
        simp only [img, ← hsub, Term.subst, hσv]; rfl
      rw [hix] at hs1'
      cases n1 with
      | zero => rw [solve_zero] at hs1'; cases hs1'
      | succ n2 =>
      rw [solve_call_var] at hs1'
      simp only [SLD.raise, Option.some.injEq] at hs1'
      subst hs1'
      rw [e1, e2]
      exact ⟨stOK_bump hst N', rfl, hN', (PSpec.err (F := instErr) (c2 := .var 0) rfl).toW⟩
    · have hnv0 : ∀ v, g0 ≠ .var v := fun v hv' => hv ⟨v, hv'⟩
      rcases hcase with ⟨v, hv'⟩ | ⟨g', happ, hw, hb⟩
      · exact absurd hv' (hnv0 v)
      have hg' : g' = g.subst σ := by
        rw [applyAll_eq_subst hW.mg.mgu inner g0 g' happ, hsub]
      have hg'nv : ∀ v, g' ≠ .var v := by
        rw [applyAll_eq_subst hW.mg.mgu inner g0 g' happ]
        cases g0 with
        | var v => exact absurd rfl (hnv0 v)
        | _ => intro v hv'; simp [Term.subst] at hv'
      obtain ⟨cs, hrel, hcg0⟩ := callGoal_okM g .done env m g0 g' hres0 hnv0 happ hb hw
      have hix : img σ π g = g'.rename π := by rw [hg']; rfl
      have hrnv : ∀ v, g'.rename π ≠ .var v := by
        intro v hv'
        cases g' with
        | var w => exact absurd rfl (hg'nv w)
        | _ => simp [Term.rename, Term.subst] at hv'
      have htop : ∀ f, g'.rename π ≠ .app f .nil := by
        intro f hf
        obtain ⟨as', rfl, has⟩ := rename_eq_app hf
        rw [subst_eq_nil has] at hw
        simp [wfT] at hw
      cases n1 with
      | zero => rw [solve_zero] at hs1'; cases hs1'
      | succ n2 =>
      rw [hix, solve_call1M _ _ _ _ _ _ _ _ _ (fl := fl) (by rw [dbodyS_rename]; exact hb) htop hrnv] at hs1'
      have hgv : ∀ v, g'.hasVar v = true → RV σ D v := fun v hv' => by rw [hg'] at hv'; exact vars_subst_rv hgD hv'
      obtain ⟨hW2, hgD2, its, hits1, hits2, hitsR⟩ := call_items (fl := fl) (d + 1 + 1) hW hgv hrel
      have e1 : p0 = ({ id := m.user.nextId, delayed := its.map (fun it => Thunk.clause it.1 (argList (qHead g')) .done env m.user.nextId) } : Pr) := by
        rw [hp0, hcg0, ← hits1]; simp [clausesCall, freshId, List.map_map, Function.comp_def]
      have e2 : m0 = { m with user := { m.user with nextId := m.user.nextId + 1 } } := by
        rw [hm0, hcg0]; rfl
      rw [e1, e2]
      refine ⟨hst.nextId, rfl, Nat.le_refl _, (PSpec.alts
        (m := { m with user := { m.user with nextId := m.user.nextId + 1 } })
        (its := its)
        (g := qHead g') (R := .goal (.atom "!") d :: .goal (SLD.call1 (.atom "fail")) l :: R)
        rfl (Nat.pos_iff_ne_zero.1 hst.2.1) (qHead_shape g')
        ⟨N, σ, π, _, [], hN, hW2, .done rfl, .nil (show TailOK (some d) _ from ⟨l, R, rfl⟩), CutsOK.nil _, hq', hgD2,
          hitsR⟩
        (by rw [hits2]; exact hs1')).toW⟩
  obtain ⟨hst0, hans0, hnv0, hspecN⟩ := hst0
  have hcan : m0.user.cancelAt = none := hst0.2.2
  rw [evalThunk_negate] at hev
  rw [← hp0, ← hm0, hcan] at hev
  cases hforce : force (VM.sem nF) none nF [p0] m0 with
  | none => rw [hforce] at hev; cases hev
  | some RR =>
  obtain ⟨res, mN⟩ := RR
  obtain ⟨k', sig', mN', hdn, hresN⟩ := force_dfsG_conv (VM.sem nF) (fuelFree_VM nF) 0 nF p0 m0 (res, mN) hforce
  have hsig' : sig' ≠ .illScoped :=
    vm_nested_well_scoped nF 0 k' g .done env m mN' sig' trivial hst.2.1 (by rw [← hp0, ← hm0]; exact hdn)
  have hresN' := hresN hsig'
  simp only [Prod.mk.injEq] at hresN'
  obtain ⟨rfl, rfl⟩ := hresN'
  have hokN : LvOK (some d) ([] : Lv) (d + 1 + 1) :=
    ⟨List.nodup_nil, fun _ h => by simp at h, .nil, fun _ h => by simp at h,
      (fun dN h => by simp only [Option.some.injEq] at h; omega), (fun _ _ _ h => by simp at h)⟩
  rcases ihF nF rfl (some d) k' p0 ([] : Lv) m0 sig' mN hdn (by rw [hp0, hm0]; exact hgoodN k') (d + 1 + 1)
      m.user.answers r1' hspecN hokN hst0 hlt with hill | hmN
  · exact absurd hill hsig'
  -- no answers in the nested search
  obtain ⟨newN, hnewN, hfaN, hnaN⟩ := hmN.ans
  have hr1a : r1'.answers = [] := hnaN rfl
  have hnewN' : newN = [] := by
    rw [hr1a] at hfaN
    have := hfaN.length_eq
    simpa using this
  have hansN : mN.user.answers = m.user.answers := by rw [hnewN, hnewN']; rfl
  have hmmN : m.user.nextVar ≤ mN.user.nextVar := Nat.le_trans hnv0 hmN.nvar
  rw [hforce] at hev
  rcases hmN.stop with ⟨h1, hstop, hlen⟩ | ⟨c0, l0, _, _, h3, _⟩ | ⟨h1, hstop⟩ | ⟨F', c1, c2, ex, co, h1, hstop⟩
  · -- no solution: the continuation, the else-branch `call(true)`
    subst h1
    have hr1' : r1 = ⟨[], .exhausted⟩ := by rw [hr1]; simp [post, hstop, hr1a]
    subst hr1'
    simp only [List.length_nil, Nat.sub_zero, Option.map_eq_some_iff] at hs
    obtain ⟨r2, hs2, rfl⟩ := hs
    rw [prepend_nil]
    cases n' with
    | zero => rw [solveAlts_zero] at hs2; cases hs2
    | succ n2 =>
    rw [solveAlts_single] at hs2
    simp only [Option.map_eq_some_iff] at hs2
    obtain ⟨r3, hs3, rfl⟩ := hs2
    obtain ⟨n4, r4, hs4, rfl⟩ := solve_skip_some (by simpa using hs3)
    have hcont : applyCont nF K env mN = some (q0, m1) := hev
    have hext := hext_push (lv := lv) (id := id) none hidn
    have hev0 : evalThunk (nF + 1) (Thunk.negate g K env) m = some (q0, m1) := by
      rw [evalThunk_negate, ← hp0, ← hm0, hcan, hforce]; exact hcont
    obtain ⟨hspec, hst1, hnv1⟩ := cont_run tmpl max prog hprog nF K env mN q0 m1 hcont
      (fun hfl' => (hgood _ _ .here).fine hfl' _ hev0) ((id, none) :: lv) R q nv
      (simAt_ext hext ⟨N, σ, π, D, G, Nat.le_trans hN hmmN, hW, hcg, hgr, hco, hq', trivial⟩) hmN.st
      n4 (d + 1 + 1) r4 (by rw [hansN]; exact hs4)
    rw [hansN] at hspec
    have hok2 : LvOK mo lv (d + 1 + 1) := hok.deeper (by omega)
    have hok1 : LvOK mo lv (d + 1) := hok.deeper (by omega)
    rcases direct_tail ihP hda hgood hev0 hid0 hidn hspec hok2 hst1 hlt (Nat.le_trans hmmN hnv1) with hill | hm
    · exact Or.inl hill
    · exact Or.inr (match_post hok (match_post hok1 hm))
  · simp [Lv.lev] at h3
  · -- a solution: the reference cuts and fails; the VM fails
    subst h1
    have hstop' : r1'.stop = .cut d := hstop
    have hr1' : r1 = ⟨[], .cut d⟩ := by
      rw [hr1]
      cases r1'
      simp_all [post]
    subst hr1'
    have hs' : some ({ answers := [], stop := if d = d then .exhausted else .cut d } : SLD.Res) = some r := hs
    rw [if_pos rfl] at hs'
    have hs'' := (Option.some.inj hs').symm
    subst hs''
    clear hs hs'
    have hev' : some (failP, mN) = some (q0, m1) := hev
    simp only [Option.some.injEq, Prod.mk.injEq] at hev'
    obtain ⟨rfl, rfl⟩ := hev'
    have hev0 : evalThunk (nF + 1) (Thunk.negate g K env) m = some (failP, mN) := by
      rw [evalThunk_negate, ← hp0, ← hm0, hcan, hforce]; rfl
    cases k with
    | zero =>
      rw [dfsAlts_child_none (sem := VM.sem (nF + 1)) (q := failP) (m1 := mN) (by exact hev0) (by simp [dfsP])] at hda
      cases hda
    | succ k1 =>
      have hq : dfsP (VM.sem (nF + 1)) 0 (k1 + 1) failP (push ({ id := id, delayed := [] } : Pr).id (lv.map Prod.fst)) mN =
          some (.exhausted none, tick mN) := by
        rw [leaf_ok' rfl rfl]; rfl
      rw [dfsAlts_exh (sem := VM.sem (nF + 1)) (by exact hev0) hq, leaf_ok' rfl rfl] at hda
      simp only [Option.some.injEq, Prod.mk.injEq] at hda
      obtain ⟨rfl, rfl⟩ := hda
      right
      refine ⟨⟨[], by show mN.user.answers = [] ++ m.user.answers; simpa using hansN, .nil, fun _ => rfl⟩,
        Or.inl ⟨rfl, rfl, by show mN.user.answers.length < max; rw [hansN]; exact hlt⟩, hmN.st, hmmN⟩
  · -- an error
    subst h1
    have hr1' : r1 = r1' := by rw [hr1]; simp [post, hstop]
    subst hr1'
    rw [hstop] at hs
    simp only [Option.some.injEq] at hs
    subst hs
    have hev' : some (errP (.exc (errT F' c1)), mN) = some (q0, m1) := hev
    simp only [Option.some.injEq, Prod.mk.injEq] at hev'
    obtain ⟨rfl, rfl⟩ := hev'
    have hev0 : evalThunk (nF + 1) (Thunk.negate g K env) m = some (errP (.exc (errT F' c1)), mN) := by
      rw [evalThunk_negate, ← hp0, ← hm0, hcan, hforce]; rfl
    cases k with
    | zero =>
      rw [dfsAlts_child_none (sem := VM.sem (nF + 1)) (q := errP (.exc (errT F' c1))) (m1 := mN) (by exact hev0)
        (by simp [dfsP])] at hda
      cases hda
    | succ k1 =>
      have hq : dfsP (VM.sem (nF + 1)) 0 (k1 + 1) (errP (.exc (errT F' c1)))
          (push ({ id := id, delayed := [] } : Pr).id (lv.map Prod.fst)) mN =
          some (.raised (.exc (errT F' c1)) none, tick mN) := by
        rw [leaf_err' rfl rfl]
      rw [dfsAlts_raised_none (sem := VM.sem (nF + 1)) (by exact hev0) hq rfl] at hda
      simp only [Option.some.injEq, Prod.mk.injEq] at hda
      obtain ⟨rfl, rfl⟩ := hda
      right
      refine ⟨⟨[], by show mN.user.answers = [] ++ m.user.answers; simpa using hansN,
          (by rw [hr1a]; exact Forall2.nil), fun _ => hr1a⟩,
        Or.inr (Or.inr (Or.inr ⟨F', c1, c2, ex, none, rfl, hstop⟩)), hmN.st, hmmN⟩

end

end PrologVerif.Refine
