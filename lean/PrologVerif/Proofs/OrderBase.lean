/-
  Helper lemmas for C08: laws of three-way comparisons (`Ordering`-valued functions), closed under
  the lexicographic combination `Ordering.then`; the machine-level comparisons of Model/Order.lean.
-/
import PrologVerif.Model.Order
import PrologVerif.Spec.Order
namespace PrologVerif.OrderProofs
open PrologVerif PrologVerif.Order PrologVerif.OrderSpec

/-- the outcomes on a triple (x,y), (y,z), (x,z) are those of a total preorder: `=` is a
    congruence on both sides, `<` and `>` are transitive.  Unlike "≤ is transitive" alone this is
    closed under lexicographic products, which is what the induction over terms needs. -/
def Trans3 (o1 o2 o3 : Ordering) : Prop :=
  (o1 = .eq → o3 = o2) ∧ (o2 = .eq → o3 = o1) ∧
  (o1 = .lt → o2 = .lt → o3 = .lt) ∧ (o1 = .gt → o2 = .gt → o3 = .gt)

theorem Trans3.then {o1 o2 o3 p1 p2 p3 : Ordering} (h : Trans3 o1 o2 o3) (k : Trans3 p1 p2 p3) :
    Trans3 (o1.then p1) (o2.then p2) (o3.then p3) := by
  unfold Trans3 at *
  cases o1 <;> cases o2 <;> cases o3 <;> simp at h <;> simp [Ordering.then] <;> exact k

theorem Trans3.const_eq : Trans3 .eq .eq .eq := by simp [Trans3]

/-- a three-way comparison that behaves like a total preorder -/
structure Lawful {α : Type} (cmp : α → α → Ordering) : Prop where
  swap : ∀ x y, cmp y x = (cmp x y).swap
  trans : ∀ x y z, Trans3 (cmp x y) (cmp y z) (cmp x z)

namespace Lawful
variable {α : Type} {cmp : α → α → Ordering} (L : Lawful cmp)
include L

theorem refl (x : α) : cmp x x = .eq := by
  have := L.swap x x
  cases h : cmp x x <;> simp [h] at this ⊢

theorem eq_symm {x y : α} (h : cmp x y = .eq) : cmp y x = .eq := by rw [L.swap, h]; rfl
theorem gt_of_lt {x y : α} (h : cmp x y = .lt) : cmp y x = .gt := by rw [L.swap, h]; rfl
theorem lt_of_gt {x y : α} (h : cmp x y = .gt) : cmp y x = .lt := by rw [L.swap, h]; rfl
theorem lt_iff_gt {x y : α} : cmp x y = .lt ↔ cmp y x = .gt := by
  rw [L.swap x y]; cases h : cmp x y <;> simp [Ordering.swap]

theorem eq_trans {x y z : α} (h1 : cmp x y = .eq) (h2 : cmp y z = .eq) : cmp x z = .eq := by
  rw [(L.trans x y z).1 h1, h2]
theorem lt_trans {x y z : α} (h1 : cmp x y = .lt) (h2 : cmp y z = .lt) : cmp x z = .lt :=
  (L.trans x y z).2.2.1 h1 h2
theorem gt_trans {x y z : α} (h1 : cmp x y = .gt) (h2 : cmp y z = .gt) : cmp x z = .gt :=
  (L.trans x y z).2.2.2 h1 h2
theorem congr_left {x y : α} (h : cmp x y = .eq) (z : α) : cmp x z = cmp y z := (L.trans x y z).1 h
theorem congr_right {y z : α} (h : cmp y z = .eq) (x : α) : cmp x z = cmp x y := (L.trans x y z).2.1 h

/-- `≤` is transitive -/
theorem le_trans {x y z : α} (h1 : cmp x y ≠ .gt) (h2 : cmp y z ≠ .gt) : cmp x z ≠ .gt := by
  have t := L.trans x y z
  unfold Trans3 at t
  cases h : cmp x y <;> cases k : cmp y z <;> simp_all

theorem lt_of_lt_of_le {x y z : α} (h1 : cmp x y = .lt) (h2 : cmp y z ≠ .gt) : cmp x z = .lt := by
  have t := L.trans x y z
  unfold Trans3 at t
  cases k : cmp y z <;> simp_all

theorem lt_of_le_of_lt {x y z : α} (h1 : cmp x y ≠ .gt) (h2 : cmp y z = .lt) : cmp x z = .lt := by
  have t := L.trans x y z
  unfold Trans3 at t
  cases k : cmp x y <;> simp_all

end Lawful

/-- comparing through a key function keeps the laws -/
theorem Lawful.pullback {α β : Type} {cmp : β → β → Ordering} (L : Lawful cmp) (f : α → β) :
    Lawful (fun x y => cmp (f x) (f y)) :=
  ⟨fun x y => L.swap (f x) (f y), fun x y z => L.trans (f x) (f y) (f z)⟩

/-! ### base comparisons -/

/-- unfold the if-cascades of the machine comparisons, split, finish by arithmetic -/
macro "ord_split" : tactic =>
  `(tactic| ((try simp only [cmpOfLt, cmpNat, cmpInt, Trans3]); (repeat' split) <;>
      (try simp_all [Ordering.swap]) <;> (try omega)))

theorem cmpOfLt_nat_lawful : Lawful (cmpOfLt (α := Nat) (· < ·)) := by
  constructor
  · intro x y; ord_split
  · intro x y z; ord_split

theorem cmpOfLt_int_lawful : Lawful (cmpOfLt (α := Int) (· < ·)) := by
  constructor
  · intro x y; ord_split
  · intro x y z; ord_split

theorem cmpOfLt_nat_eq {x y : Nat} : cmpOfLt (· < ·) x y = .eq ↔ x = y := by ord_split
theorem cmpOfLt_int_eq {x y : Int} : cmpOfLt (· < ·) x y = .eq ↔ x = y := by ord_split
theorem cmpOfLt_nat_lt {x y : Nat} : cmpOfLt (· < ·) x y = .lt ↔ x < y := by ord_split
theorem cmpOfLt_nat_gt {x y : Nat} : cmpOfLt (· < ·) x y = .gt ↔ y < x := by ord_split

/-- Go's switch on naturals is the comparison by `<` -/
theorem cmpNat_eq (x y : Nat) : cmpNat x y = cmpOfLt (· < ·) x y := by ord_split

theorem cmpInt_eq (x y : Int) : cmpInt x y = cmpOfLt (· < ·) x y := by ord_split

theorem fltKey_eq (b : UInt64) : fltKey b = floatKey b := by
  unfold fltKey floatKey fltNeg fltMag; rfl

theorem fltIsNaN_iff (b : UInt64) : fltIsNaN b ↔ isNaN b = true := by
  unfold fltIsNaN isNaN fltMag; simp

/-- on non-NaN operands Go's float switch is the comparison of the positions on the real line -/
theorem cmpFlt_eq (f g : UInt64) (hf : isNaN f = false) (hg : isNaN g = false) :
    cmpFlt f g = cmpOfLt (· < ·) (floatKey f) (floatKey g) := by
  have hf' : ¬ fltIsNaN f := by rw [fltIsNaN_iff]; simp [hf]
  have hg' : ¬ fltIsNaN g := by rw [fltIsNaN_iff]; simp [hg]
  unfold cmpFlt fltLt
  simp only [hf', hg', not_false_eq_true, true_and, fltKey_eq]
  ord_split

/-- the float switch is antisymmetric even with NaN operands -/
theorem cmpFlt_swap (f g : UInt64) : cmpFlt g f = (cmpFlt f g).swap := by
  unfold cmpFlt fltLt
  by_cases h1 : fltIsNaN f <;> by_cases h2 : fltIsNaN g <;> simp only [h1, h2, not_true_eq_false,
    not_false_eq_true, false_and, and_false, true_and, if_false]
  · rfl
  · rfl
  · rfl
  · ord_split

/-! ### lexicographic comparison of lists -/

theorem cmpList_lawful {α : Type} {cmp : α → α → Ordering} (L : Lawful cmp) : Lawful (cmpList cmp) := by
  constructor
  · intro x
    induction x with
    | nil => intro y; cases y <;> simp [cmpList, Ordering.swap]
    | cons a as ih =>
      intro y
      cases y with
      | nil => simp [cmpList, Ordering.swap]
      | cons b bs => simp only [cmpList, Ordering.swap_then]; rw [L.swap a b, ih bs]
  · intro x
    induction x with
    | nil => intro y z; cases y <;> cases z <;> simp [cmpList, Trans3]
    | cons a as ih =>
      intro y z
      cases y with
      | nil => cases z <;> simp [cmpList, Trans3]
      | cons b bs =>
        cases z with
        | nil => simp only [cmpList, Trans3]; cases cmp a b <;> cases cmpList cmp as bs <;> simp [Ordering.then]
        | cons c cs => simp only [cmpList]; exact (L.trans a b c).then (ih bs cs)

theorem cmpList_eq_iff {α : Type} {cmp : α → α → Ordering} (h : ∀ x y, cmp x y = .eq ↔ x = y) :
    ∀ x y : List α, cmpList cmp x y = .eq ↔ x = y := by
  intro x
  induction x with
  | nil => intro y; cases y <;> simp [cmpList]
  | cons a as ih =>
    intro y
    cases y with
    | nil => simp [cmpList]
    | cons b bs =>
      simp only [cmpList, List.cons.injEq, ← h a b, ← ih bs]
      cases cmp a b <;> simp [Ordering.then]

theorem cmpList_congr {α : Type} {c1 c2 : α → α → Ordering} (h : ∀ x y, c1 x y = c2 x y) :
    ∀ x y : List α, cmpList c1 x y = cmpList c2 x y := by
  have : c1 = c2 := by funext x y; exact h x y
  subst this; intros; rfl

theorem cmpList_append_same {α : Type} {cmp : α → α → Ordering} (hr : ∀ x, cmp x x = .eq)
    (p r1 r2 : List α) : cmpList cmp (p ++ r1) (p ++ r2) = cmpList cmp r1 r2 := by
  induction p with
  | nil => rfl
  | cons a as ih => simp [cmpList, hr a, ih, Ordering.then]

end PrologVerif.OrderProofs
