/-
  Clause activation — what the compiled code of a clause DOES when the VM runs it
  (Model/VM.lean `exec`, `evalThunk (.clause …)`), in terms of substitutions (Spec/Subst.lean):

  (A) `head_is_mgu`      the get-instructions of the head unify the call arguments with the head
                         RENAMED to the activation's variables; the environment afterwards is the
                         old one plus a most general unifier (up to the fresh skeleton variables of
                         get_functor / get_list / get_partial), or the run fails and no unifier exists;
  (B) `body_goal_call`   the put-instructions + `call` of one body goal ARE `arrive` at the renamed
      `body_goal_cut`    goal with the rest of the clause as continuation (no unification, no fresh
      `body_in_order`    variable, same environment); `!` is the cut instruction; the body code is
                         the goals' segments in order;
  (C) `activation_fact`, `activation_rule`, `activation_rule_first_goal`
                         a clause produced by `compile`, called through `evalThunk (.clause …)`.

  Vocabulary (defined in Proofs/ActivationLemmas.lean, all elementary):
    `t.rename ρ`              t with every variable v replaced by ρ v
    `Renames tbl vars ρ`      ρ (tbl[i]) = vars[i] for every offset i of the variable table
    `renOf tbl vars`          the canonical such ρ (identity off the table)
    `UnifiesL θ xs ys`        θ unifies the lists xs, ys pointwise
    `AgreeBelow N θ θ'`       θ v = θ' v for all v < N
    `TBelow N t`              t.subst θ only depends on θ below N   (⇐ all variables of t are < N)
    `SolBelow N env`          Sol env θ only depends on θ below N    (⇐ all variables of env are < N)
    `bump m N'`               the machine state m with the variable counter set to N'
    `freshL N n`              [N, N+1, …, N+n-1] — what `freshVars n` draws at counter N

  Fuel: `exec … = some res` says the run finished within the fuel (also the inner fuel of `unify`).

  Not covered: encodings outside `WF` (a `*partial` over a compound/partial prefix compiles to the
  `unsupported` instruction), heads that are not `CallableHead` (list cells as clause heads; (A)
  itself applies to any argument list), and progress (that enough fuel exists).
-/
import PrologVerif.Proofs.ActivationLemmas
namespace PrologVerif.Activation
open PrologVerif PrologVerif.VM PrologVerif.DecompileCompile

/-! # (A) the head -/

/-- the instructions `compileHeadArgs hargs` appends to the code of `c0` -/
def headCode (hargs : RepList) (c0 : CState) : List Op :=
  (compileHeadArgs hargs c0).code.drop c0.code.length

theorem headCode_spec (hargs : RepList) (c0 : CState) (hwf : WFs hargs = true) :
    (compileHeadArgs hargs c0).code = c0.code ++ headCode hargs c0 ∧
    c0.vars <+: (compileHeadArgs hargs c0).vars ∧
    (c0.vars.Nodup → (compileHeadArgs hargs c0).vars.Nodup) ∧
    Gets (compileHeadArgs hargs c0).vars (headCode hargs c0) (Rep.absArgs hargs).toList := by
  obtain ⟨ops, hcode, hp, hn, hg⟩ := compileHeadArgs_gets hargs c0 hwf
  have : headCode hargs c0 = ops := by simp [headCode, hcode]
  rw [this]
  exact ⟨hcode, hp, hn, hg⟩

/-- **(A) HEAD = MGU WITH THE RENAMED HEAD.**

    `hargs` are the head argument patterns (any encoding the compiler handles: `WFs`), compiled
    after `c0`; `vars` are the activation's variables and ρ the renaming they induce on the
    variable table; `H'` are the renamed head arguments.  Freshness: the activation variables,
    the variables of the call arguments and of the environment are below the variable counter
    `m.user.nextVar`, from which the skeleton variables are drawn.

    A finished run of the head code on `args` either
    * FAILS (`failP`; only the counter moved) and no solution of `env` unifies `args` with `H'`; or
    * CONTINUES with the code after the head, no arguments left, under `env'`, with the counter at
      `N'` and nothing else changed, where `env'` = `env` + mgu(args, H'):
        - a substitution θ extends (on the skeleton variables `[m.user.nextVar, N')`, on which `env`,
          `args`, `H'` do not depend) to a solution of `env'` IFF θ solves `env` and unifies `args`
          with `H'` — "⊆" is soundness, "⊇" is most-generality in equational form;
        - the extension is unique: the skeleton variables are determined;
        - `env'` mentions no variable from `N'` on (the invariant for the next activation). -/
theorem head_is_mgu (hargs : RepList) (c0 : CState) (hwf : WFs hargs = true)
    (vars : List Nat) (ρ : Nat → Nat) (hρ : Renames (compileHeadArgs hargs c0).vars vars ρ)
    (fuel : Nat) (rest : List Op) (k : Cont) (args : List Term) (env : Env) (cp : Nat) (m : MS)
    (res : Pr × MS)
    (hlen : args.length = hargs.length)
    (hvars : ∀ v ∈ vars, v < m.user.nextVar)
    (hargsB : ∀ a ∈ args, TBelow m.user.nextVar a)
    (henv : SolBelow m.user.nextVar env)
    (hrun : exec fuel (headCode hargs c0 ++ rest) vars k args [] env cp m = some res) :
    (∃ N', m.user.nextVar ≤ N' ∧ res = (failP, bump m N') ∧
      ¬ ∃ θ, Sol env θ ∧ UnifiesL θ args ((Rep.absArgs hargs).toList.map (Term.rename ρ))) ∨
    (∃ fuel' env' N', fuel' ≤ fuel ∧ m.user.nextVar ≤ N' ∧
      exec fuel' rest vars k [] [] env' cp (bump m N') = some res ∧
      (∀ θ, (∃ θ', AgreeBelow m.user.nextVar θ' θ ∧ Sol env' θ') ↔
        (Sol env θ ∧ UnifiesL θ args ((Rep.absArgs hargs).toList.map (Term.rename ρ)))) ∧
      (∀ θ₁ θ₂, Sol env' θ₁ → Sol env' θ₂ → AgreeBelow m.user.nextVar θ₁ θ₂ → AgreeBelow N' θ₁ θ₂) ∧
      SolBelow N' env') := by
  obtain ⟨_, _, _, hv, hr⟩ := headCode_spec hargs c0 hwf
  have hP : ∀ p ∈ (Rep.absArgs hargs).toList.map (Term.rename ρ), TBelow m.user.nextVar p := by
    intro p hp
    obtain ⟨t, ht, rfl⟩ := List.mem_map.1 hp
    exact rename_below t (fun v hvv => hvars _ (hρ.mem (hv t ht v hvv)))
  have := hr vars ρ hρ fuel rest k args [] [] env cp m res
    (by simp [hlen, absArgs_len]) hargsB hP henv (by simpa using hrun)
  rcases this with ⟨N', hN, hres, hf⟩ | ⟨fuel', env', N', hfu, hx, hs⟩
  · exact Or.inl ⟨N', hN, hres, fun ⟨θ, hs, hu⟩ => hf θ hs hu⟩
  · exact Or.inr ⟨fuel', env', N', hfu, hs.le, hx, hs.iff, hs.det, hs.below⟩

/-- (A) in general position: further argument registers `extra` behind the ones the head code
    consumes and an arbitrary `astack` are left untouched (this is how the theorem applies to the
    sub-patterns of a compound, which run with the outer arguments saved on `astack`) -/
theorem head_is_mgu_general (hargs : RepList) (c0 : CState) (hwf : WFs hargs = true)
    (vars : List Nat) (ρ : Nat → Nat) (hρ : Renames (compileHeadArgs hargs c0).vars vars ρ)
    (fuel : Nat) (rest : List Op) (k : Cont) (args extra : List Term) (astack : List Frame)
    (env : Env) (cp : Nat) (m : MS) (res : Pr × MS)
    (hlen : args.length = hargs.length)
    (hvars : ∀ v ∈ vars, v < m.user.nextVar)
    (hargsB : ∀ a ∈ args, TBelow m.user.nextVar a)
    (henv : SolBelow m.user.nextVar env)
    (hrun : exec fuel (headCode hargs c0 ++ rest) vars k (args ++ extra) astack env cp m = some res) :
    (∃ N', m.user.nextVar ≤ N' ∧ res = (failP, bump m N') ∧
      ¬ ∃ θ, Sol env θ ∧ UnifiesL θ args ((Rep.absArgs hargs).toList.map (Term.rename ρ))) ∨
    (∃ fuel' env' N', fuel' ≤ fuel ∧
      exec fuel' rest vars k extra astack env' cp (bump m N') = some res ∧
      MGUStep m.user.nextVar env
        (fun θ => UnifiesL θ args ((Rep.absArgs hargs).toList.map (Term.rename ρ))) N' env') := by
  obtain ⟨_, _, _, hv, hr⟩ := headCode_spec hargs c0 hwf
  have hP : ∀ p ∈ (Rep.absArgs hargs).toList.map (Term.rename ρ), TBelow m.user.nextVar p := by
    intro p hp
    obtain ⟨t, ht, rfl⟩ := List.mem_map.1 hp
    exact rename_below t (fun v hvv => hvars _ (hρ.mem (hv t ht v hvv)))
  rcases hr vars ρ hρ fuel rest k args extra astack env cp m res
      (by simp [hlen, absArgs_len]) hargsB hP henv hrun with
    ⟨N', hN, hres, hf⟩ | ⟨fuel', env', N', hfu, hx, hs⟩
  · exact Or.inl ⟨N', hN, hres, fun ⟨θ, hs, hu⟩ => hf θ hs hu⟩
  · exact Or.inr ⟨fuel', env', N', hfu, hx, hs⟩

/-- the renamed head arguments only mention activation variables -/
theorem head_renamed_vars (hargs : RepList) (c0 : CState) (hwf : WFs hargs = true)
    (vars : List Nat) (ρ : Nat → Nat) (hρ : Renames (compileHeadArgs hargs c0).vars vars ρ) :
    ∀ t ∈ (Rep.absArgs hargs).toList, ∀ v, t.hasVar v = true → ρ v ∈ vars := by
  obtain ⟨_, _, _, hv, _⟩ := headCode_spec hargs c0 hwf
  exact fun t ht v hvv => hρ.mem (hv t ht v hvv)

/-! # (B) the body -/

/-- the instructions `compilePred g` appends to the code of `c` -/
def goalCode (g : Rep) (c : CState) : List Op :=
  match compilePred g c with
  | some c' => c'.code.drop c.code.length
  | none => []

theorem goalCode_spec (g : Rep) (c c' : CState) (hw : WF g = true) (hc : compilePred g c = some c') :
    c'.code = c.code ++ goalCode g c ∧ c.vars <+: c'.vars ∧ (c.vars.Nodup → c'.vars.Nodup) ∧
    GoalSem c'.vars (goalCode g c) g := by
  obtain ⟨seg, hcode, hp, hn, hg⟩ := compilePred_sem g c c' hw hc
  have : goalCode g c = seg := by simp [goalCode, hc, hcode]
  rw [this]
  exact ⟨hcode, hp, hn, hg⟩

/-- **(B) ONE BODY GOAL = `arrive` AT THE RENAMED GOAL.**  For a goal `g` other than `!`, compiled
    after `c` (a variable goal V is `call(V)`: `goalTerm`), running its code in front of `rest` with
    empty argument registers IS `arrive` at functor/arguments of the renamed goal term, the
    continuation being the rest of the clause with the same variables and cut parent; the
    environment and the machine state are handed over unchanged: no unification, no fresh variable.
    Fuel: one unit per instruction; fewer than `(goalCode g c).length` units are not enough. -/
theorem body_goal_call (g : Rep) (c c' : CState) (hw : WF g = true) (hc : compilePred g c = some c')
    (hcut : g ≠ .atom "!")
    (vars : List Nat) (ρ : Nat → Nat) (hρ : Renames c'.vars vars ρ)
    (fuel : Nat) (rest : List Op) (k : Cont) (env : Env) (cp : Nat) (m : MS) :
    exec fuel (goalCode g c ++ rest) vars k [] [] env cp m =
      if (goalCode g c).length ≤ fuel then
        arrive (fuel - (goalCode g c).length)
          (functorName ((goalTerm g).rename ρ)) (argList ((goalTerm g).rename ρ))
          (.exec rest vars cp k) env m
      else none := by
  obtain ⟨_, _, _, hg⟩ := goalCode_spec g c c' hw hc
  rcases hg with ⟨h, _⟩ | ⟨_, _, h⟩
  · exact absurd h hcut
  · exact h vars ρ hρ fuel rest k env cp m

/-- the renamed goal only mentions activation variables -/
theorem body_goal_vars (g : Rep) (c c' : CState) (hw : WF g = true) (hc : compilePred g c = some c')
    (hcut : g ≠ .atom "!") (vars : List Nat) (ρ : Nat → Nat) (hρ : Renames c'.vars vars ρ) :
    ∀ v, (goalTerm g).hasVar v = true → ρ v ∈ vars := by
  obtain ⟨_, _, _, hg⟩ := goalCode_spec g c c' hw hc
  rcases hg with ⟨h, _⟩ | ⟨_, hv, _⟩
  · exact absurd h hcut
  · exact fun v hvv => hρ.mem (hv _ (by simp) v hvv)

/-- **(B, cut)** the goal `!` is the single instruction `cut`; running it returns the cut promise:
    cut back to the activation's cut parent, then go on with the rest of the clause -/
theorem body_goal_cut (c : CState) (vars : List Nat) (fuel : Nat) (rest : List Op) (k : Cont)
    (env : Env) (cp : Nat) (m : MS) :
    compilePred (.atom "!") c = some (emit c .cut) ∧ goalCode (.atom "!") c = [.cut] ∧
    exec (fuel + 1) (goalCode (.atom "!") c ++ rest) vars k [] [] env cp m =
      some ({ delayed := [.afterCut rest vars k [] [] env cp], cutParent := some cp }, m) := by
  have h1 : compilePred (.atom "!") c = some (emit c .cut) := by simp [compilePred]
  have h2 : goalCode (.atom "!") c = [.cut] := by simp [goalCode, h1]
  exact ⟨h1, h2, by rw [h2]; exact exec_cut fuel rest vars k [] [] env cp m⟩

/-- **(B, order)** the code of a body is `enter` followed by the segments of its goals
    (`seqGoals`), in order; each segment means its goal (`GoalSem`: `cut` for `!`, otherwise
    `CallSem` = the statement of `body_goal_call` for every activation) -/
theorem body_in_order (body : Rep) (c c' : CState) (hw : WF body = true)
    (h : compileBody body c = some c') :
    ∃ ops, c'.code = c.code ++ Op.enter :: ops ∧ c.vars <+: c'.vars ∧
      (c.vars.Nodup → c'.vars.Nodup) ∧ BodySem c'.vars ops (seqGoals body) :=
  compileBody_sem body c c' (wf_seqGoals body hw) h

/-- the `i`-th goal of a body: its segment sits between the code of the goals before and after -/
theorem BodySem.nth {tbl : List Nat} {ops : List Op} {gs : List Rep} (h : BodySem tbl ops gs) :
    ∀ (i : Nat) (g : Rep), gs[i]? = some g →
    ∃ pre seg post, ops = pre ++ seg ++ post ∧ GoalSem tbl seg g ∧
      BodySem tbl pre (gs.take i) ∧ BodySem tbl post (gs.drop (i + 1)) := by
  induction h with
  | nil => intro i g hg; simp at hg
  | @cons seg ops g0 gs hg0 hb ih =>
    intro i g hg
    cases i with
    | zero =>
      simp only [List.getElem?_cons_zero, Option.some.injEq] at hg
      subst hg
      exact ⟨[], seg, ops, by simp, hg0, .nil, by simpa using hb⟩
    | succ i =>
      simp only [List.getElem?_cons_succ] at hg
      obtain ⟨pre, seg', post, he, hg', hpre, hpost⟩ := ih i g hg
      exact ⟨seg ++ pre, seg', post, by simp [he], hg', by simpa using .cons hg0 hpre,
        by simpa using hpost⟩

/-- running the code of a non-empty goal sequence: the first goal is cut / called, with the code of
    the remaining goals (and whatever follows) as the continuation -/
theorem first_goal {tbl : List Nat} {ops : List Op} {g : Rep} {gs : List Rep}
    (h : BodySem tbl ops (g :: gs)) :
    ∃ seg ops', ops = seg ++ ops' ∧ GoalSem tbl seg g ∧ BodySem tbl ops' gs ∧
      (g = .atom "!" → ∀ (vars : List Nat) (fuel : Nat) (rest : List Op) (k : Cont) (env : Env)
          (cp : Nat) (m : MS) (res : Pr × MS),
        exec fuel (ops ++ rest) vars k [] [] env cp m = some res →
        res = ({ delayed := [.afterCut (ops' ++ rest) vars k [] [] env cp], cutParent := some cp }, m)) ∧
      (g ≠ .atom "!" → ∀ (vars : List Nat) (ρ : Nat → Nat), Renames tbl vars ρ →
        ∀ (fuel : Nat) (rest : List Op) (k : Cont) (env : Env) (cp : Nat) (m : MS) (res : Pr × MS),
        exec fuel (ops ++ rest) vars k [] [] env cp m = some res →
        ∃ fuel', fuel' ≤ fuel ∧
          arrive fuel' (functorName ((goalTerm g).rename ρ)) (argList ((goalTerm g).rename ρ))
            (.exec (ops' ++ rest) vars cp k) env m = some res) := by
  cases h with
  | @cons seg ops' _ _ hg hb =>
    refine ⟨seg, ops', rfl, hg, hb, ?_, ?_⟩
    · intro hcut vars fuel rest k env cp m res hrun
      rcases hg with ⟨_, rfl⟩ | ⟨hne, _⟩
      · cases fuel with
        | zero => simp [exec_zero] at hrun
        | succ n =>
          rw [show ([Op.cut] ++ ops' ++ rest) = Op.cut :: (ops' ++ rest) by simp, exec_cut] at hrun
          exact (Option.some.inj hrun).symm
      · exact absurd hcut hne
    · intro hne vars ρ hρ fuel rest k env cp m res hrun
      rcases hg with ⟨hcut, _⟩ | ⟨_, _, hcall⟩
      · exact absurd hcut hne
      · rw [List.append_assoc, hcall vars ρ hρ] at hrun
        by_cases hl : seg.length ≤ fuel
        · rw [if_pos hl] at hrun
          exact ⟨fuel - seg.length, by omega, hrun⟩
        · rw [if_neg hl] at hrun; cases hrun

/-- the body code starts with `enter` (a no-op), then the first goal -/
theorem enter_first_goal {tbl : List Nat} {ops : List Op} {g : Rep} {gs : List Rep}
    (h : BodySem tbl ops (g :: gs)) :
    ∃ seg ops', ops = seg ++ ops' ∧ GoalSem tbl seg g ∧ BodySem tbl ops' gs ∧
      (g = .atom "!" → ∀ (vars : List Nat) (fuel : Nat) (rest : List Op) (k : Cont) (env : Env)
          (cp : Nat) (m : MS) (res : Pr × MS),
        exec fuel (.enter :: (ops ++ rest)) vars k [] [] env cp m = some res →
        res = ({ delayed := [.afterCut (ops' ++ rest) vars k [] [] env cp], cutParent := some cp }, m)) ∧
      (g ≠ .atom "!" → ∀ (vars : List Nat) (ρ : Nat → Nat), Renames tbl vars ρ →
        ∀ (fuel : Nat) (rest : List Op) (k : Cont) (env : Env) (cp : Nat) (m : MS) (res : Pr × MS),
        exec fuel (.enter :: (ops ++ rest)) vars k [] [] env cp m = some res →
        ∃ fuel', fuel' < fuel ∧
          arrive fuel' (functorName ((goalTerm g).rename ρ)) (argList ((goalTerm g).rename ρ))
            (.exec (ops' ++ rest) vars cp k) env m = some res) := by
  obtain ⟨seg, ops', he, hg, hb, h1, h2⟩ := first_goal h
  refine ⟨seg, ops', he, hg, hb, ?_, ?_⟩
  · intro hcut vars fuel rest k env cp m res hrun
    cases fuel with
    | zero => simp [exec_zero] at hrun
    | succ n => rw [exec_enter] at hrun; exact h1 hcut vars n rest k env cp m res hrun
  · intro hne vars ρ hρ fuel rest k env cp m res hrun
    cases fuel with
    | zero => simp [exec_zero] at hrun
    | succ n =>
      rw [exec_enter] at hrun
      obtain ⟨f', hf', harr⟩ := h2 hne vars ρ hρ n rest k env cp m res hrun
      exact ⟨f', by omega, harr⟩

/-- when the callee calls the continuation built by `call`, the clause resumes after that goal:
    no arguments, empty stack, the activation's variables and cut parent, the NEW environment -/
theorem continuation_resumes (fuel : Nat) (rest : List Op) (vars : List Nat) (cp : Nat) (k : Cont)
    (env : Env) (m : MS) :
    applyCont (fuel + 1) (.exec rest vars cp k) env m = exec fuel rest vars k [] [] env cp m := by
  rw [applyCont]

/-- after the last goal: `exit` hands the environment to the clause's own continuation -/
theorem body_done (fuel : Nat) (vars : List Nat) (k : Cont) (env : Env) (cp : Nat) (m : MS) :
    exec (fuel + 1) [.exit] vars k [] [] env cp m = applyCont fuel k env m :=
  exec_exit fuel [] vars k [] [] env cp m

/-! # (C) clause activation -/

/-- argument patterns and name of a callable head -/
def headArgs : Rep → RepList
  | .compound _ args => args
  | _ => .nil

def headName : Rep → String
  | .atom s => s
  | .compound f _ => f
  | _ => ""

theorem compileHead_callable (head : Rep) (c : CState) (hc : CallableHead head = true) :
    compileHead head c = (headName head, (headArgs head).length, compileHeadArgs (headArgs head) c) := by
  cases head <;> simp [CallableHead] at hc <;> simp [compileHead, headName, headArgs, compileHeadArgs, RepList.length]

theorem wfs_headArgs (head : Rep) (hw : WF head = true) : WFs (headArgs head) = true := by
  cases head <;> simp [headArgs, WFs]
  simp only [WF, Bool.and_eq_true] at hw
  exact hw.2

/-- calling the thunk of a clause: draw one fresh variable per entry of the variable table, run the code -/
theorem evalThunk_clause (n : Nat) (c : Clause) (args : List Term) (k : Cont) (env : Env)
    (parent : Nat) (m : MS) :
    evalThunk (n + 1) (.clause c args k env parent) m =
      exec n c.code (freshL m.user.nextVar c.vars.length) k args [] env parent
        (bump m (m.user.nextVar + c.vars.length)) := by
  rw [evalThunk]; rfl

/-- **the freshness hypotheses of (A) hold in a clause activation**: if the call arguments and the
    environment are below the variable counter, then after `evalThunk` has drawn the activation
    variables `vars` (pairwise distinct, from the counter upward) everything — `vars` included — is
    below the new counter, and the canonical renaming maps table offset `i` to `vars[i]`,
    one-to-one -/
theorem activation_fresh_ok (tbl : List Nat) (hnd : tbl.Nodup) (args : List Term) (env : Env) (N : Nat)
    (hargsB : ∀ a ∈ args, TBelow N a) (henv : SolBelow N env) :
    let vars := freshL N tbl.length
    vars.Nodup ∧ (∀ v ∈ vars, N ≤ v ∧ v < N + tbl.length) ∧
    Renames tbl vars (renOf tbl vars) ∧
    (∀ v ∈ tbl, ∀ w ∈ tbl, renOf tbl vars v = renOf tbl vars w → v = w) ∧
    (∀ a ∈ args, TBelow (N + tbl.length) a) ∧ SolBelow (N + tbl.length) env := by
  have hr : Renames tbl (freshL N tbl.length) (renOf tbl (freshL N tbl.length)) :=
    renames_renOf hnd (by simp)
  exact ⟨freshL_nodup _ _, fun v hv => freshL_mem hv, hr,
    fun v hv w hw he => hr.inj (freshL_nodup _ _) hv hw he,
    fun a ha => (hargsB a ha).mono (Nat.le_add_right _ _), henv.mono (Nat.le_add_right _ _)⟩

/-- the head part of an activation, for any clause whose code starts with the head code of `hargs`
    and whose variable table extends the table after the head -/
theorem activation_head (c : Clause) (hargs : RepList) (rest : List Op) (hwf : WFs hargs = true)
    (hcode : c.code = headCode hargs {} ++ rest)
    (hpre : (compileHeadArgs hargs {}).vars <+: c.vars) (hnd : c.vars.Nodup)
    (fuel : Nat) (args : List Term) (k : Cont) (env : Env) (parent : Nat) (m : MS) (res : Pr × MS)
    (hlen : args.length = hargs.length)
    (hargsB : ∀ a ∈ args, TBelow m.user.nextVar a) (henv : SolBelow m.user.nextVar env)
    (hrun : evalThunk fuel (.clause c args k env parent) m = some res) :
    (∃ N', m.user.nextVar + c.vars.length ≤ N' ∧ res = (failP, bump m N') ∧
      ¬ ∃ θ, Sol env θ ∧ UnifiesL θ args ((Rep.absArgs hargs).toList.map
        (Term.rename (renOf c.vars (freshL m.user.nextVar c.vars.length))))) ∨
    (∃ fuel' env' N', fuel' < fuel ∧
      exec fuel' rest (freshL m.user.nextVar c.vars.length) k [] [] env' parent (bump m N') = some res ∧
      MGUStep (m.user.nextVar + c.vars.length) env
        (fun θ => UnifiesL θ args ((Rep.absArgs hargs).toList.map
          (Term.rename (renOf c.vars (freshL m.user.nextVar c.vars.length))))) N' env') := by
  cases fuel with
  | zero => simp [evalThunk] at hrun
  | succ n =>
    rw [evalThunk_clause, hcode] at hrun
    obtain ⟨_, hvs, hren, _, hA, hE⟩ := activation_fresh_ok c.vars hnd args env _ hargsB henv
    have hvs' : ∀ v ∈ freshL m.user.nextVar c.vars.length,
        v < (bump m (m.user.nextVar + c.vars.length)).user.nextVar := fun v hv => (hvs v hv).2
    rcases head_is_mgu hargs {} hwf _ _ (hren.mono hpre) n rest k args env parent
        (bump m (m.user.nextVar + c.vars.length)) res hlen hvs' hA hE hrun with
      ⟨N', hN, hres, hf⟩ | ⟨fuel', env', N', hfu, hN, hx, hiff, hdet, hb⟩
    · exact Or.inl ⟨N', hN, by simpa using hres, hf⟩
    · exact Or.inr ⟨fuel', env', N', by omega, by simpa using hx, ⟨hN, hb, hiff, hdet⟩⟩

/-! ### what `compile` produces -/

/-- a clause of a rule: head code, `enter`, the body goals' segments in order, `exit` -/
theorem rule_clause_layout (head body : Rep) (cs : List Clause)
    (hwh : WF head = true) (hwb : WF body = true) (hch : CallableHead head = true)
    (hcomp : compile (.compound ":-" (.cons head (.cons body .nil))) = .ok cs)
    (i : Nat) (c : Clause) (alt : Rep) (hc : cs[i]? = some c) (ha : (altBodies body)[i]? = some alt) :
    ∃ bops, c.code = headCode (headArgs head) {} ++ Op.enter :: (bops ++ [Op.exit]) ∧
      BodySem c.vars bops (seqGoals alt) ∧
      (compileHeadArgs (headArgs head) {}).vars <+: c.vars ∧ c.vars.Nodup ∧
      c.name = headName head ∧ c.arity = (headArgs head).length := by
  rw [compile_rule_eq] at hcomp
  rcases fold_spec head (Rep.abs (.compound ":-" (.cons head (.cons body .nil))))
      (typeErr "callable" (Rep.abs body)) (altBodies body) [] with
    ⟨cs', h1, _, _, h4⟩ | ⟨h1, _⟩
  · rw [h1] at hcomp
    simp only [List.nil_append, Except.ok.injEq] at hcomp
    subst hcomp
    obtain ⟨r, hr, rfl⟩ := h4 i c alt hc ha
    have hm : alt ∈ altBodies body := List.mem_of_getElem? ha
    have hwa := wf_seqGoals alt (wf_altBodies body hwb alt hm)
    obtain ⟨hcode, _, hn, _⟩ := headCode_spec (headArgs head) {} (wfs_headArgs head hwh)
    simp only [compileClause, compileHead_callable head {} hch] at hr
    cases hb : compileBody alt (compileHeadArgs (headArgs head) {}) with
    | none => simp [hb] at hr
    | some cb =>
      obtain ⟨bops, hcode2, hp2, hn2, hsem⟩ := compileBody_sem alt _ cb hwa hb
      simp only [hb, Option.map_some, Option.some.injEq] at hr
      subst hr
      refine ⟨bops, ?_, by simpa [mkClause] using hsem, by simpa [mkClause] using hp2,
        by simpa [mkClause] using hn2 (hn (by simp)), rfl, rfl⟩
      simp [mkClause, hcode2, hcode]
  · rw [h1] at hcomp
    cases hcomp

/-- the clause of a fact: head code, `exit` -/
theorem fact_clause_layout (t : Rep) (cs : List Clause)
    (hw : WF t = true) (hc : CallableHead t = true)
    (hne : ∀ h b, t ≠ .compound ":-" (.cons h (.cons b .nil)))
    (hcomp : compile t = .ok cs) :
    ∃ c, cs = [c] ∧ c.code = headCode (headArgs t) {} ++ [Op.exit] ∧
      c.vars = (compileHeadArgs (headArgs t) {}).vars ∧ c.vars.Nodup ∧
      c.name = headName t ∧ c.arity = (headArgs t).length := by
  have hco : compile t =
      match compileClause t none with
      | none => .error (typeErr "callable" (Rep.abs t))
      | some (f, n, c) => .ok [{ name := f, arity := n, raw := Rep.abs t, vars := c.vars, code := c.code }] := by
    unfold compile
    split
    · exact (hne _ _ rfl).elim
    · rfl
  rw [hco] at hcomp
  obtain ⟨hcode, _, hn, _⟩ := headCode_spec (headArgs t) {} (wfs_headArgs t hw)
  simp only [compileClause, compileHead_callable t {} hc, Except.ok.injEq] at hcomp
  subst hcomp
  exact ⟨_, rfl, by simp [hcode], rfl, hn (by simp), rfl, rfl⟩

theorem seqGoals_ne_nil (b : Rep) : seqGoals b ≠ [] := by
  fun_induction seqGoals b with
  | case1 a b iha ih => simp [iha]
  | case2 g hne => simp

/-! ### the activation theorems

  In all three: `N = m.user.nextVar` is the counter before the call, `L = c.vars.length`,
  `vars = freshL N L` the activation's variables, `ρ = renOf c.vars vars` the renaming,
  `H' = (the head arguments).map (rename ρ)`.  `MGUStep (N + L) env E N' env'` is the conclusion of
  (A) as a structure: fields `le`, `iff`, `det`, `below`. -/

/-- **(C, fact)** a fact `t`, compiled and called on `args` under `env`: one fresh variable per
    table entry is drawn; then either the call fails and the renamed head does not unify with
    `args` under `env`, or the continuation `k` of the call is applied to `env'` = `env` + mgu -/
theorem activation_fact (t : Rep) (cs : List Clause)
    (hw : WF t = true) (hc : CallableHead t = true)
    (hne : ∀ h b, t ≠ .compound ":-" (.cons h (.cons b .nil)))
    (hcomp : compile t = .ok cs) (c : Clause) (hmem : c ∈ cs)
    (fuel : Nat) (args : List Term) (k : Cont) (env : Env) (parent : Nat) (m : MS) (res : Pr × MS)
    (hlen : args.length = c.arity)
    (hargsB : ∀ a ∈ args, TBelow m.user.nextVar a) (henv : SolBelow m.user.nextVar env)
    (hrun : evalThunk fuel (.clause c args k env parent) m = some res) :
    (∃ N', m.user.nextVar + c.vars.length ≤ N' ∧ res = (failP, bump m N') ∧
      ¬ ∃ θ, Sol env θ ∧ UnifiesL θ args ((Rep.absArgs (headArgs t)).toList.map
        (Term.rename (renOf c.vars (freshL m.user.nextVar c.vars.length))))) ∨
    (∃ fuel' env' N', fuel' < fuel ∧ applyCont fuel' k env' (bump m N') = some res ∧
      MGUStep (m.user.nextVar + c.vars.length) env
        (fun θ => UnifiesL θ args ((Rep.absArgs (headArgs t)).toList.map
          (Term.rename (renOf c.vars (freshL m.user.nextVar c.vars.length))))) N' env') := by
  obtain ⟨c', rfl, hcode, hvars, hnd, _, har⟩ := fact_clause_layout t _ hw hc hne hcomp
  simp only [List.mem_singleton] at hmem
  subst hmem
  rcases activation_head c (headArgs t) [.exit] (wfs_headArgs t hw) hcode (by rw [hvars]; exact List.prefix_refl _) hnd
      fuel args k env parent m res (by rw [hlen, har]) hargsB henv hrun with
    hfail | ⟨fuel', env', N', hfu, hx, hs⟩
  · exact Or.inl hfail
  · cases fuel' with
    | zero => simp [exec_zero] at hx
    | succ f =>
      rw [body_done] at hx
      exact Or.inr ⟨f, env', N', by omega, hx, hs⟩

/-- **(C, rule)** the `i`-th clause of a rule (one clause per top-level disjunct `alt` of the body),
    called on `args` under `env`: fresh variables are drawn; then either the call fails and the
    renamed head does not unify with `args` under `env`, or the body code (`enter`, the goals'
    segments `bops` in order — `BodySem` —, `exit`) runs with empty registers under `env'` =
    `env` + mgu, with the activation's variables, `parent` as the cut parent and `k` as the
    continuation of the clause -/
theorem activation_rule (head body : Rep) (cs : List Clause)
    (hwh : WF head = true) (hwb : WF body = true) (hch : CallableHead head = true)
    (hcomp : compile (.compound ":-" (.cons head (.cons body .nil))) = .ok cs)
    (i : Nat) (c : Clause) (alt : Rep) (hc : cs[i]? = some c) (ha : (altBodies body)[i]? = some alt) :
    ∃ bops, c.code = headCode (headArgs head) {} ++ Op.enter :: (bops ++ [Op.exit]) ∧
      BodySem c.vars bops (seqGoals alt) ∧
      ∀ (fuel : Nat) (args : List Term) (k : Cont) (env : Env) (parent : Nat) (m : MS) (res : Pr × MS),
      args.length = c.arity →
      (∀ a ∈ args, TBelow m.user.nextVar a) → SolBelow m.user.nextVar env →
      evalThunk fuel (.clause c args k env parent) m = some res →
      (∃ N', m.user.nextVar + c.vars.length ≤ N' ∧ res = (failP, bump m N') ∧
        ¬ ∃ θ, Sol env θ ∧ UnifiesL θ args ((Rep.absArgs (headArgs head)).toList.map
          (Term.rename (renOf c.vars (freshL m.user.nextVar c.vars.length))))) ∨
      (∃ fuel' env' N', fuel' < fuel ∧
        exec fuel' (Op.enter :: (bops ++ [Op.exit])) (freshL m.user.nextVar c.vars.length) k [] []
          env' parent (bump m N') = some res ∧
        MGUStep (m.user.nextVar + c.vars.length) env
          (fun θ => UnifiesL θ args ((Rep.absArgs (headArgs head)).toList.map
            (Term.rename (renOf c.vars (freshL m.user.nextVar c.vars.length))))) N' env') := by
  obtain ⟨bops, hcode, hsem, hpre, hnd, _, har⟩ :=
    rule_clause_layout head body cs hwh hwb hch hcomp i c alt hc ha
  refine ⟨bops, hcode, hsem, ?_⟩
  intro fuel args k env parent m res hlen hargsB henv hrun
  exact activation_head c (headArgs head) _ (wfs_headArgs head hwh) hcode hpre hnd
    fuel args k env parent m res (by rw [hlen, har]) hargsB henv hrun

/-- **(C) + (B): HEAD UNIFICATION, THEN THE FIRST BODY GOAL.**  The body of a rule clause has a first
    goal `g` (and further goals `gs`, whose code + `exit` is `rest`).  A finished activation either
    fails in the head (no unifier), or — under `env'` = `env` + mgu, the machine state changed only
    in the variable counter —
    * `g` is `!`: the result is the cut promise: cut back to `parent`, then go on with `rest`;
    * otherwise: the result is that of `arrive` at the renamed goal `(goalTerm g).rename ρ`, with the
      continuation `.exec rest vars parent k`: the rest of the clause, the activation's variables,
      the activation's cut parent `parent`, the clause's continuation `k`. -/
theorem activation_rule_first_goal (head body : Rep) (cs : List Clause)
    (hwh : WF head = true) (hwb : WF body = true) (hch : CallableHead head = true)
    (hcomp : compile (.compound ":-" (.cons head (.cons body .nil))) = .ok cs)
    (i : Nat) (c : Clause) (alt : Rep) (hc : cs[i]? = some c) (ha : (altBodies body)[i]? = some alt) :
    ∃ g gs rest, seqGoals alt = g :: gs ∧ (∃ ops', rest = ops' ++ [Op.exit] ∧ BodySem c.vars ops' gs) ∧
      ∀ (fuel : Nat) (args : List Term) (k : Cont) (env : Env) (parent : Nat) (m : MS) (res : Pr × MS),
      args.length = c.arity →
      (∀ a ∈ args, TBelow m.user.nextVar a) → SolBelow m.user.nextVar env →
      evalThunk fuel (.clause c args k env parent) m = some res →
      (∃ N', m.user.nextVar + c.vars.length ≤ N' ∧ res = (failP, bump m N') ∧
        ¬ ∃ θ, Sol env θ ∧ UnifiesL θ args ((Rep.absArgs (headArgs head)).toList.map
          (Term.rename (renOf c.vars (freshL m.user.nextVar c.vars.length))))) ∨
      (∃ env' N',
        MGUStep (m.user.nextVar + c.vars.length) env
          (fun θ => UnifiesL θ args ((Rep.absArgs (headArgs head)).toList.map
            (Term.rename (renOf c.vars (freshL m.user.nextVar c.vars.length))))) N' env' ∧
        (g = .atom "!" →
          res = ({ delayed := [.afterCut rest (freshL m.user.nextVar c.vars.length) k [] [] env' parent],
                   cutParent := some parent }, bump m N')) ∧
        (g ≠ .atom "!" → ∃ fuel', fuel' < fuel ∧
          arrive fuel'
            (functorName ((goalTerm g).rename (renOf c.vars (freshL m.user.nextVar c.vars.length))))
            (argList ((goalTerm g).rename (renOf c.vars (freshL m.user.nextVar c.vars.length))))
            (.exec rest (freshL m.user.nextVar c.vars.length) parent k) env' (bump m N') = some res)) := by
  obtain ⟨bops, hcode, hsem, hpre, hnd, _, har⟩ :=
    rule_clause_layout head body cs hwh hwb hch hcomp i c alt hc ha
  obtain ⟨g, gs, hgs⟩ : ∃ g gs, seqGoals alt = g :: gs := by
    cases h : seqGoals alt with
    | nil => exact absurd h (seqGoals_ne_nil alt)
    | cons g gs => exact ⟨g, gs, rfl⟩
  rw [hgs] at hsem
  obtain ⟨seg, ops', rfl, _, hb', hcutc, hcallc⟩ := enter_first_goal hsem
  refine ⟨g, gs, ops' ++ [.exit], hgs, ⟨ops', rfl, hb'⟩, ?_⟩
  intro fuel args k env parent m res hlen hargsB henv hrun
  rcases activation_head c (headArgs head) _ (wfs_headArgs head hwh) hcode hpre hnd
      fuel args k env parent m res (by rw [hlen, har]) hargsB henv hrun with
    hfail | ⟨fuel', env', N', hfu, hx, hs⟩
  · exact Or.inl hfail
  · refine Or.inr ⟨env', N', hs, ?_, ?_⟩
    · intro hcut
      exact hcutc hcut _ fuel' [.exit] k env' parent _ res hx
    · intro hne
      have hren : Renames c.vars (freshL m.user.nextVar c.vars.length)
          (renOf c.vars (freshL m.user.nextVar c.vars.length)) := renames_renOf hnd (by simp)
      obtain ⟨f', hf', harr⟩ := hcallc hne _ _ hren fuel' [.exit] k env' parent _ res hx
      exact ⟨f', by omega, harr⟩

/-! # non-vacuity: the theorems instantiated on
    `p(f(X,Y), [X|T], "ab", Z, Z) :- q(Y, T), !, r(Z).`      (X=0, Y=1, T=2, Z=3)
    called as `p(f(a,V7), [V8,c], [a|V9], V9, [b])` in the empty environment -/
namespace Example

def hargsEx : RepList :=
  .cons (.compound "f" (.cons (.var 0) (.cons (.var 1) .nil)))
  (.cons (.part (.list (.cons (.var 0) .nil)) (.var 2))
  (.cons (.charList ['a', 'b'])
  (.cons (.var 3) (.cons (.var 3) .nil))))

def headEx : Rep := .compound "p" hargsEx
def qEx : Rep := .compound "q" (.cons (.var 1) (.cons (.var 2) .nil))
def rEx : Rep := .compound "r" (.cons (.var 3) .nil)
def bodyEx : Rep := .compound "," (.cons qEx (.cons (.compound "," (.cons (.atom "!") (.cons rEx .nil))) .nil))
def ruleEx : Rep := .compound ":-" (.cons headEx (.cons bodyEx .nil))

/-- machine state in which four activation variables 1000000 … 1000003 have just been drawn -/
def mEx : MS := bump { user := {} } 1000004
def varsEx : List Nat := freshL 1000000 4
def argsEx : List Term :=
  [.app "f" (.cons (.atom "a") (.cons (.var 7) .nil)), Term.list [.var 8, .atom "c"],
   Term.list [.atom "a"] (.var 9), .var 9, Term.list [.atom "b"]]

theorem mEx_next : mEx.user.nextVar = 1000004 := rfl

macro "vm_norm" : tactic => `(tactic|
  simp only [mEx_next, bump_nextVar, bump_bump, freshL_succ, freshL_zero, List.map_cons, List.map_nil,
    Nat.reduceAdd])

theorem hcodeEx : headCode hargsEx {} =
    [.getFunctor "f" 2, .getVar 0, .getVar 1, .pop, .getPartial 1, .getVar 2, .getVar 0, .pop,
     .getConst (Term.list [.atom "a", .atom "b"]), .getVar 3, .getVar 3] := by decide +kernel

/-- the head code runs to the end on these arguments (all nine unifications succeed) -/
theorem head_runs (n : Nat) (rest : List Op) (k : Cont) (cp : Nat) :
    ∃ env' : Env, exec (n + 11) (headCode hargsEx {} ++ rest) varsEx k argsEx [] [] cp mEx =
      exec n rest varsEx k [] [] env' cp (bump mEx 1000008) := by
  constructor
  rw [hcodeEx]
  simp only [List.cons_append, List.nil_append, argsEx]
  rw [exec_getFunctor, unifyThen_ok (by decide +kernel)]
  vm_norm
  rw [exec_getVar' (h := by decide), unifyThen_ok (by decide +kernel)]
  rw [exec_getVar' (h := by decide), unifyThen_ok (by decide +kernel)]
  rw [exec_pop_get]
  rw [exec_getPartial, unifyThen_ok (by decide +kernel)]
  vm_norm
  rw [exec_getVar' (h := by decide), unifyThen_ok (by decide +kernel)]
  rw [exec_getVar' (h := by decide), unifyThen_ok (by decide +kernel)]
  rw [exec_pop_get]
  rw [exec_getConst, unifyThen_ok (by decide +kernel)]
  rw [exec_getVar' (h := by decide), unifyThen_ok (by decide +kernel)]
  rw [exec_getVar' (h := by decide), unifyThen_ok (by decide +kernel)]

theorem hrunA : ∃ res, exec 13 (headCode hargsEx {} ++ [.exit]) varsEx .done argsEx [] [] 0 mEx = some res := by
  obtain ⟨env', h⟩ := head_runs 2 [.exit] .done 0
  exact ⟨_, by rw [h, exec_exit, applyCont]⟩

theorem hrenEx : Renames (compileHeadArgs hargsEx {}).vars varsEx
    (renOf (compileHeadArgs hargsEx {}).vars varsEx) :=
  renames_renOf (by decide +kernel) (by decide +kernel)

theorem hargsBEx : ∀ a ∈ argsEx, TBelow mEx.user.nextVar a := tbelow_of_check (by decide +kernel)

/-- (A) instantiated: every hypothesis of `head_is_mgu` holds -/
example := head_is_mgu hargsEx {} (by decide) varsEx _ hrenEx 13 [.exit] .done argsEx [] 0 mEx _
  (by decide) (by decide +kernel) hargsBEx (SolBelow.nil _) hrunA.choose_spec

/-- the renamed head arguments of the example: `f(V0,V1), [V0|V2], "ab", V3, V3` over the activation variables -/
example : (Rep.absArgs hargsEx).toList.map (Term.rename (renOf (compileHeadArgs hargsEx {}).vars varsEx)) =
    [.app "f" (.cons (.var 1000000) (.cons (.var 1000001) .nil)),
     Term.list [.var 1000000] (.var 1000002), Term.list [.atom "a", .atom "b"],
     .var 1000003, .var 1000003] := by decide +kernel

/-- (A), failure branch: `p(g, …)` clashes at get_functor -/
example : exec 12 (headCode hargsEx {} ++ [.exit]) varsEx .done
    (.atom "g" :: argsEx.drop 1) [] [] 0 mEx = some (failP, bump mEx 1000006) := by
  rw [hcodeEx]
  simp only [List.cons_append, argsEx, List.drop_succ_cons, List.drop_zero]
  rw [exec_getFunctor, unifyThen_clash (by decide +kernel)]
  rfl

/-! (B): the goal `q(Y, T)` compiled after the head -/

def cHeadEx : CState := compileHeadArgs hargsEx {}
def cGoalEx : CState := emit (compileBodyArgs (.cons (.var 1) (.cons (.var 2) .nil)) cHeadEx) (.call "q" 2)

theorem hrenGoalEx : Renames cGoalEx.vars varsEx (renOf cGoalEx.vars varsEx) :=
  renames_renOf (by decide +kernel) (by decide +kernel)

/-- (B) instantiated -/
example (fuel : Nat) (rest : List Op) (k : Cont) (env : Env) (cp : Nat) (m : MS) :=
  body_goal_call qEx cHeadEx cGoalEx (by decide) rfl (by decide) varsEx _ hrenGoalEx fuel rest k env cp m

/-- … its code and the goal it arrives at: `q(V1, V2)` over the activation variables -/
example : goalCode qEx cHeadEx = [.putVar 1, .putVar 2, .call "q" 2] ∧
    functorName ((goalTerm qEx).rename (renOf cGoalEx.vars varsEx)) = "q" ∧
    argList ((goalTerm qEx).rename (renOf cGoalEx.vars varsEx)) = [.var 1000001, .var 1000002] := by
  decide +kernel

/-! (C): the rule and the fact -/

def clauseEx : Clause :=
  { name := "p", arity := 5, raw := Rep.abs ruleEx, vars := [0, 1, 2, 3],
    code := headCode hargsEx {} ++ [.enter, .putVar 1, .putVar 2, .call "q" 2, .cut, .putVar 3, .call "r" 1, .exit] }

theorem hcompEx : compile ruleEx = .ok [clauseEx] := by rfl

def m0 : MS := bump { user := {} } 1000000

theorem builtin_q (n : Nat) (a b : Term) (k : Cont) (env : Env) (m : MS) :
    builtin (n + 1) "q" [a, b] k env m = none := by
  rw [builtin]
  all_goals simp

/-- the activation of the rule runs: head, `enter`, the arguments of `q`, `call q/2` (unknown procedure here) -/
theorem hrunC : ∃ res, evalThunk 20 (.clause clauseEx argsEx .done [] 7) m0 = some res := by
  have e : bump m0 (m0.user.nextVar + clauseEx.vars.length) = mEx := rfl
  have ev : freshL m0.user.nextVar clauseEx.vars.length = varsEx := rfl
  rw [evalThunk_clause, e, ev]
  obtain ⟨env', h⟩ := head_runs 8 [.enter, .putVar 1, .putVar 2, .call "q" 2, .cut, .putVar 3, .call "r" 1, .exit] .done 7
  constructor
  show exec (8 + 11) _ _ _ _ _ _ _ _ = _
  rw [show clauseEx.code = headCode hargsEx {} ++ [.enter, .putVar 1, .putVar 2, .call "q" 2, .cut, .putVar 3, .call "r" 1, .exit] from rfl, h]
  rw [exec_enter, exec_putVar (v := 1000001) (hv := by decide +kernel),
    exec_putVar (v := 1000002) (hv := by decide +kernel)]
  simp only [List.nil_append, List.singleton_append]
  rw [exec_call, arrive, builtin_q]
  rfl

/-- (C) instantiated: every hypothesis of `activation_rule_first_goal` holds -/
example : True := by
  obtain ⟨g, gs, rest, _, _, hact⟩ := activation_rule_first_goal headEx bodyEx [clauseEx]
    (by decide) (by decide) (by decide) hcompEx 0 clauseEx bodyEx rfl rfl
  have := hact 20 argsEx .done [] 7 m0 _ (by decide) (tbelow_of_check (by decide +kernel))
    (SolBelow.nil _) hrunC.choose_spec
  trivial

/-- the fact `p(f(X,Y), [X|T], "ab", Z, Z).` -/
def factEx : Clause :=
  { name := "p", arity := 5, raw := Rep.abs headEx, vars := [0, 1, 2, 3],
    code := headCode hargsEx {} ++ [.exit] }

theorem hcompFactEx : compile headEx = .ok [factEx] := by rfl

theorem hrunFact : ∃ res, evalThunk 14 (.clause factEx argsEx .done [] 7) m0 = some res := by
  have e : bump m0 (m0.user.nextVar + factEx.vars.length) = mEx := rfl
  have ev : freshL m0.user.nextVar factEx.vars.length = varsEx := rfl
  rw [evalThunk_clause, e, ev]
  obtain ⟨env', h⟩ := head_runs 2 [.exit] .done 7
  exact ⟨_, by
    show exec (2 + 11) _ _ _ _ _ _ _ _ = _
    rw [show factEx.code = headCode hargsEx {} ++ [.exit] from rfl, h, exec_exit, applyCont]⟩

/-- (C, fact) instantiated -/
example := activation_fact headEx [factEx] (by decide) (by decide) (by simp [headEx]) hcompFactEx
  factEx (by simp) 14 argsEx .done [] 7 m0 _ (by decide) (tbelow_of_check (by decide +kernel))
  (SolBelow.nil _) hrunFact.choose_spec

end Example

end PrologVerif.Activation
