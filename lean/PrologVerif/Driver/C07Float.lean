/-
  Driver/C07Float — the hardware instance of `FloatOps` used by the DRIVER ONLY (correspondence runs):
  Lean's `Float` is IEEE-754 binary64 on the same hardware as Go's float64.  Never used in a theorem.
  Also: exact reading of a float as a rational-free pair (for the specification oracle).
-/
import PrologVerif.Model.ArithBase
namespace PrologVerif.Driver.C07
open PrologVerif.Arith

def two63 : Float := Float.ofBits 0x43e0000000000000

/-- Go's `int64(f)` on amd64 (CVTTSD2SQ): truncation; NaN and out-of-range values give the
    "integer indefinite" 0x8000000000000000 -/
def goToInt (f : Float) : I64 :=
  if f.isNaN || f >= two63 || f < -two63 then I64.minInt
  else I64.ofInt f.toInt64.toInt

def ftrunc (x : Float) : Float := if x < 0 then x.ceil else x.floor

instance : FloatOps Float where
  ofInt z := (Int.toInt64 z).toFloat
  toInt := goToInt
  add := (· + ·)
  sub := (· - ·)
  mul := (· * ·)
  div := (· / ·)
  neg x := -x
  abs := Float.abs
  floor := Float.floor
  trunc := ftrunc
  round := Float.round
  ceil := Float.ceil
  lt x y := decide (x < y)
  le x y := decide (x ≤ y)
  eq x y := x == y
  isInf := Float.isInf
  isNaN := Float.isNaN
  maxFloat := Float.ofBits 0x7fefffffffffffff
  lib1 name x :=
    match name with
    | "Sin" => x.sin | "Cos" => x.cos | "Tan" => x.tan
    | "Asin" => x.asin | "Acos" => x.acos | "Atan" => x.atan
    | "Exp" => x.exp | "Log" => x.log | "Sqrt" => x.sqrt
    | _ => Float.ofBits 0x7ff8000000000000
  lib2 name x y :=
    match name with
    | "Pow" => Float.pow x y
    | "Atan2" => Float.atan2 x y
    | _ => Float.ofBits 0x7ff8000000000000
  bits := Float.toBits
  ofBits := Float.ofBits

/-- the exact integer value of a finite float that is integral (`none` otherwise), from its bits -/
def exactInt (f : Float) : Option Int :=
  let b := f.toBits.toNat
  let neg := b / 2 ^ 63 == 1
  let e : Nat := (b / 2 ^ 52) % 2048
  let m : Nat := b % 2 ^ 52
  if e == 2047 then none
  else
    let (mant, ex) : Nat × Int := if e == 0 then (m, -1074) else (m + 2 ^ 52, Int.ofNat e - 1075)
    let mag : Option Nat :=
      if ex ≥ 0 then some (mant * 2 ^ ex.toNat)
      else
        let d : Nat := 2 ^ (-ex).toNat
        if mant % d == 0 then some (mant / d) else none
    mag.map fun n => if neg then - (n : Int) else (n : Int)

end PrologVerif.Driver.C07
