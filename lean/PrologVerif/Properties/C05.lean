/-
  C05 — no input crashes or wedges the host; every failure is a Prolog error term.

  PARTIAL by design (DESIGN.md §6 C05): the quantifier of the property ranges over all byte strings
  and all goals over ~150 procedures; what is PROVED here is

    (a) the error constructors of exception.go, over their regenerated vocabulary tables, only build
        ISO error terms, and the residue of a recovered Go panic is not one            (C05_errors_*, C05_panic_*)
    (b) the token-level term reader of parser.go terminates on every token list, under every
        operator table, and its token buffer stays in step with what was read           (C05_parser_*, C05_ring_*, C05_read_*)
    (c) the list of registered procedures the matrix stream runs over is the one in the source (C05_*_tie)

  and, for the pinned code, the negations: the witnesses of defects D1 (`[-` never returns), D20
  (the 4-slot ring aliases, tokens are skipped) and D21 (backup() at end of input).
  Everything else (the ~120 builtins themselves, the lexer, the VM) is driven through the streams
  c05.matrix / c05.text / c05.parse, not proved here.
-/
import PrologVerif.Spec.IsoError
import PrologVerif.Spec.AnswerBound
import PrologVerif.Spec.Relations
import PrologVerif.Model.Exception
import PrologVerif.Generated.Builtins
import PrologVerif.Proofs.Read0Rec
import PrologVerif.Proofs.Read0Pinned
import PrologVerif.Properties.C05VM
namespace PrologVerif.C05
open PrologVerif PrologVerif.IsoError PrologVerif.Exception PrologVerif.Generated PrologVerif.Read0

/-! ## (a) errors -/

/-- Tie + vocabulary: every entry of every table of exception.go (regenerated on each run) is in
    the corresponding ISO vocabulary (or one of the three listed extensions). -/
theorem C05_error_tables_iso :
    (∀ a ∈ ErrorAtoms.validTypeAtoms, a ∈ validTypes) ∧
    (∀ a ∈ ErrorAtoms.validDomainAtoms, a ∈ validDomains) ∧
    (∀ a ∈ ErrorAtoms.objectTypeAtoms, a ∈ isoObjectTypes) ∧
    (∀ a ∈ ErrorAtoms.operationAtoms, a ∈ isoOperations) ∧
    (∀ a ∈ ErrorAtoms.permissionTypeAtoms, a ∈ isoPermissionTypes) ∧
    (∀ a ∈ ErrorAtoms.flagAtoms, a ∈ isoFlags) ∧
    (∀ a ∈ ErrorAtoms.exceptionalValueAtoms, a ∈ isoEvaluationErrors) := by decide

/-- The implementation's extensions of the 1995 vocabularies are exactly `pair`, `float` (types) and
    `order` (domain): nothing else in the tables is outside the standard's lists. -/
theorem C05_error_extensions_exact :
    ErrorAtoms.validTypeAtoms.filter (fun a => !isoValidTypes.contains a) = extValidTypes ∧
    ErrorAtoms.validDomainAtoms.filter (fun a => !isoValidDomains.contains a) = extValidDomains := by decide

/-- Every term the error constructors of exception.go can build — for every table index, every
    culprit, every context, every message — is an ISO error term `error(Formal, Context)`. -/
theorem C05_errors_iso :
    (∀ ctx, isIsoError (InstantiationError ctx) = true) ∧
    (∀ i culprit ctx, isIsoError (typeError i culprit ctx) = true) ∧
    (∀ i culprit ctx, isIsoError (domainError i culprit ctx) = true) ∧
    (∀ i culprit ctx, isIsoError (existenceError i culprit ctx) = true) ∧
    (∀ o p culprit ctx, isIsoError (permissionError o p culprit ctx) = true) ∧
    (∀ i ctx, isIsoError (representationError i ctx) = true) ∧
    (∀ i ctx, isIsoError (resourceError i ctx) = true) ∧
    (∀ i ctx, isIsoError (evaluationError i ctx) = true) ∧
    (∀ msg ctx, isIsoError (syntaxError msg ctx) = true) := by
  obtain ⟨h1, h2, h3, h4, h5, h6, h7⟩ := C05_error_tables_iso
  refine ⟨fun _ => rfl, ?_, ?_, ?_, ?_, ?_, ?_, ?_, fun _ _ => rfl⟩
  · intro i c x
    have := h1 _ (List.get_mem ErrorAtoms.validTypeAtoms i)
    simpa [typeError, TypeError, errorTerm, tbl, Term.a2, isIsoError, isIsoFormal] using this
  · intro i c x
    have := h2 _ (List.get_mem ErrorAtoms.validDomainAtoms i)
    simpa [domainError, DomainError, errorTerm, tbl, Term.a2, isIsoError, isIsoFormal] using this
  · intro i c x
    have := h3 _ (List.get_mem ErrorAtoms.objectTypeAtoms i)
    simpa [existenceError, ExistenceError, errorTerm, tbl, Term.a2, isIsoError, isIsoFormal] using this
  · intro o p c x
    have ho := h4 _ (List.get_mem ErrorAtoms.operationAtoms o)
    have hp := h5 _ (List.get_mem ErrorAtoms.permissionTypeAtoms p)
    simp [permissionError, PermissionError, errorTerm, tbl, Term.a2, Term.a3, isIsoError, isIsoFormal]
    exact ⟨by simpa using ho, by simpa using hp⟩
  · intro i x
    have := h6 _ (List.get_mem ErrorAtoms.flagAtoms i)
    simpa [representationError, RepresentationError, errorTerm, tbl, Term.a1, Term.a2, isIsoError, isIsoFormal] using this
  · intro i x
    simp [resourceError, ResourceError, errorTerm, tbl, Term.a1, Term.a2, isIsoError, isIsoFormal]
  · intro i x
    have := h7 _ (List.get_mem ErrorAtoms.exceptionalValueAtoms i)
    simpa [evaluationError, EvaluationError, errorTerm, tbl, Term.a1, Term.a2, isIsoError, isIsoFormal] using this

/-- is a Go error value, as returned by a predicate, an ISO error? -/
def isIsoGoErr : GoErr → Bool
  | .exception t => isIsoError t
  | .other _ => false

/-- The residue of a recovered Go panic (promise.go `panicError`) is never an ISO error: so "no panic
    residue is returned" is the same as "no Go panic reached `ensurePromise`". -/
theorem C05_panic_not_iso (r : String) : isIsoGoErr (panicError r) = false := rfl

/-- Inside catch/3 the residue is dressed as `error(system_error, 'panic: …')` (builtin.go `Catch`);
    it stays recognisable by its context (the streams report it as `syserr`, a failing outcome). -/
theorem C05_panic_residue_in_catch (r : String) :
    catchTerm (panicError r) = errorTerm (.atom "system_error") (.atom ("panic: " ++ r)) := rfl

/-- Tie: the constructors, typed wrappers and `atomError.Apply` sites of the source are the ones
    modelled in Model/Exception.lean (a new constructor or a new site breaks this). -/
theorem C05_error_constructors_tie :
    ErrorAtoms.constructors =
      [("InstantiationError", "instantiation_error", [], "varContext"),
       ("TypeError", "type_error", ["typ", "culprit"], "varContext"),
       ("DomainError", "domain_error", ["domain", "culprit"], "varContext"),
       ("ExistenceError", "existence_error", ["objectType", "culprit"], "varContext"),
       ("PermissionError", "permission_error", ["operation", "permissionType", "culprit"], "varContext"),
       ("RepresentationError", "representation_error", ["limit"], "varContext"),
       ("ResourceError", "resource_error", ["resource"], "env.Resolve(varContext)"),
       ("SyntaxError", "syntax_error", ["error"], "varContext"),
       ("EvaluationError", "evaluation_error", ["error"], "varContext")] ∧
    ErrorAtoms.wrappers =
      [("typeError", "TypeError", ["validTypeAtoms"]),
       ("domainError", "DomainError", ["validDomainAtoms"]),
       ("existenceError", "ExistenceError", ["objectTypeAtoms"]),
       ("permissionError", "PermissionError", ["operationAtoms", "permissionTypeAtoms"]),
       ("representationError", "RepresentationError", ["flagAtoms"]),
       ("resourceError", "ResourceError", ["resourceAtoms"]),
       ("evaluationError", "EvaluationError", ["exceptionalValueAtoms"])] ∧
    ErrorAtoms.outsideSites = ["builtin.go:Catch:system_error"] ∧
    ErrorAtoms.panicFormat = "panic: %v" := by decide

/-! ## (c) the registered procedures -/

/-- the `Register<n>` calls the matrix stream is known to cover -/
def expectedRegistered : List (String × Nat × String) :=
  [
   ("call", 1, "engine.Call"), ("catch", 3, "engine.Catch"), ("throw", 1, "engine.Throw"),
   ("=", 2, "engine.Unify"), ("unify_with_occurs_check", 2, "engine.UnifyWithOccursCheck"), ("subsumes_term", 2, "engine.SubsumesTerm"),
   ("var", 1, "engine.TypeVar"), ("atom", 1, "engine.TypeAtom"), ("integer", 1, "engine.TypeInteger"),
   ("float", 1, "engine.TypeFloat"), ("compound", 1, "engine.TypeCompound"), ("acyclic_term", 1, "engine.AcyclicTerm"),
   ("compare", 3, "engine.Compare"), ("sort", 2, "engine.Sort"), ("keysort", 2, "engine.KeySort"),
   ("functor", 3, "engine.Functor"), ("arg", 3, "engine.Arg"), ("=..", 2, "engine.Univ"),
   ("copy_term", 2, "engine.CopyTerm"), ("term_variables", 2, "engine.TermVariables"), ("is", 2, "engine.Is"),
   ("=:=", 2, "engine.Equal"), ("=\\=", 2, "engine.NotEqual"), ("<", 2, "engine.LessThan"),
   ("=<", 2, "engine.LessThanOrEqual"), (">", 2, "engine.GreaterThan"), (">=", 2, "engine.GreaterThanOrEqual"),
   ("clause", 2, "engine.Clause"), ("current_predicate", 1, "engine.CurrentPredicate"), ("asserta", 1, "engine.Asserta"),
   ("assertz", 1, "engine.Assertz"), ("retract", 1, "engine.Retract"), ("abolish", 1, "engine.Abolish"),
   ("findall", 3, "engine.FindAll"), ("bagof", 3, "engine.BagOf"), ("setof", 3, "engine.SetOf"),
   ("current_input", 1, "engine.CurrentInput"), ("current_output", 1, "engine.CurrentOutput"), ("set_input", 1, "engine.SetInput"),
   ("set_output", 1, "engine.SetOutput"), ("open", 4, "engine.Open"), ("close", 2, "engine.Close"),
   ("flush_output", 1, "engine.FlushOutput"), ("stream_property", 2, "engine.StreamProperty"), ("set_stream_position", 2, "engine.SetStreamPosition"),
   ("get_char", 2, "engine.GetChar"), ("peek_char", 2, "engine.PeekChar"), ("put_char", 2, "engine.PutChar"),
   ("get_byte", 2, "engine.GetByte"), ("peek_byte", 2, "engine.PeekByte"), ("put_byte", 2, "engine.PutByte"),
   ("read_term", 3, "engine.ReadTerm"), ("write_term", 3, "engine.WriteTerm"), ("op", 3, "engine.Op"),
   ("current_op", 3, "engine.CurrentOp"), ("char_conversion", 2, "engine.CharConversion"), ("current_char_conversion", 2, "engine.CurrentCharConversion"),
   ("\\+", 1, "engine.Negate"), ("repeat", 0, "engine.Repeat"), ("call", 2, "engine.Call1"),
   ("call", 3, "engine.Call2"), ("call", 4, "engine.Call3"), ("call", 5, "engine.Call4"),
   ("call", 6, "engine.Call5"), ("call", 7, "engine.Call6"), ("call", 8, "engine.Call7"),
   ("atom_length", 2, "engine.AtomLength"), ("atom_concat", 3, "engine.AtomConcat"), ("sub_atom", 5, "engine.SubAtom"),
   ("atom_chars", 2, "engine.AtomChars"), ("atom_codes", 2, "engine.AtomCodes"), ("char_code", 2, "engine.CharCode"),
   ("number_chars", 2, "engine.NumberChars"), ("number_codes", 2, "engine.NumberCodes"), ("set_prolog_flag", 2, "engine.SetPrologFlag"),
   ("current_prolog_flag", 2, "engine.CurrentPrologFlag"), ("halt", 1, "engine.Halt"), ("consult", 1, "engine.Consult"),
   ("phrase", 3, "engine.Phrase"), ("expand_term", 2, "engine.ExpandTerm"), ("append", 3, "engine.Append"),
   ("length", 2, "engine.Length"), ("between", 3, "engine.Between"), ("succ", 2, "engine.Succ"),
   ("nth0", 3, "engine.Nth0"), ("nth1", 3, "engine.Nth1"), ("call_nth", 2, "engine.CallNth")
  ]

/-- the predicates bootstrap.pl is known to define -/
def expectedBootstrap : List (String × Nat) :=
  [
   ("!", 0), (",", 2), ("->", 2), (".", 2), (";", 2), ("==", 2),
   ("@<", 2), ("@=<", 2), ("@>", 2), ("@>=", 2), ("\\=", 2), ("\\==", 2),
   ("at_end_of_stream", 0), ("at_end_of_stream", 1), ("atomic", 1), ("callable", 1), ("close", 1), ("fail", 0),
   ("false", 0), ("flush_output", 0), ("get_byte", 1), ("get_char", 1), ("get_code", 1), ("get_code", 2),
   ("ground", 1), ("halt", 0), ("maplist", 2), ("maplist", 3), ("maplist", 4), ("maplist", 5),
   ("maplist", 6), ("maplist", 7), ("maplist", 8), ("member", 2), ("nl", 0), ("nl", 1),
   ("nonvar", 1), ("number", 1), ("once", 1), ("open", 3), ("peek_byte", 1), ("peek_char", 1),
   ("peek_code", 1), ("peek_code", 2), ("phrase", 2), ("put_byte", 1), ("put_char", 1), ("put_code", 1),
   ("put_code", 2), ("read", 1), ("read", 2), ("read_term", 2), ("retractall", 1), ("select", 3),
   ("true", 0), ("write", 1), ("write", 2), ("write_canonical", 1), ("write_canonical", 2), ("write_term", 2),
   ("writeq", 1), ("writeq", 2)
  ]

/-- Tie: the `Register*` calls of interpreter.go and the predicates bootstrap.pl defines
    (both regenerated on every run) are the expected ones; a new builtin breaks this until it is listed
    (and the stream c05.matrix checks that a fresh interpreter knows exactly these procedures). -/
theorem C05_builtins_tie :
    Builtins.registered = expectedRegistered ∧ Builtins.bootstrapDefined = expectedBootstrap := by decide

/-! ## (c') the answer-count oracle -/

/-- The count the stream c05.matrix holds between/3 to (Spec/AnswerBound `betweenCount`) is the number of
    integers of the relation of Spec/Relations: `x` is between `l` and `h` iff it is one of the
    `betweenCount l h` integers from `l` on — in particular no integer beyond `h`, however the
    implementation's `l + 1` wraps. -/
theorem C05_between_count (l h x : Int) :
    Relations.between l h x ↔ l ≤ x ∧ x - l < (AnswerBound.betweenCount l h : Int) := by
  unfold Relations.between AnswerBound.betweenCount; omega

/-- non-vacuity / the seeded witness: between(max_integer, max_integer, X) has exactly one answer -/
example : AnswerBound.bound "between" [some (.int 9223372036854775807), some (.int 9223372036854775807), some (.var 0)]
    = .exactly 1 := by decide

/-! ## (b) the token-level reader -/

/-- what "the buffer stays in step" means between two states of the token buffer: the tape (all
    tokens the lexer delivers, in order) is the same, the cursor did not move back, and no backup()
    found nothing to undo -/
def Sound (s s' : Zip) : Prop :=
  s'.tape = s.tape ∧ s.pos ≤ s'.pos ∧ (s.bad = false → s'.bad = false)

theorem sound_of_mono {s s' : Zip} (h : Mono 0 s s') : Sound s s' := ⟨h.tape, by simpa using h.pos, h.bad⟩

/-- **Every backup() undoes a delivered token.**  For the current reader (`g = true`), for every
    operator table and flag, every fuel, every state it is entered in and all arguments: each of the
    eleven functions of the recursive descent returns with the tape unchanged, the cursor at or after
    the position the call started at, and without a backup() that found nothing to undo — each
    backup() in a call is matched by a token that a next() of the same call delivered. -/
theorem C05_ring_buffer_sound (c : Cfg) (hg : c.g = true) (n : Nat) (m : Int) (f : String) (l : List Term)
    (t : Term) (s : PS Zip) :
    Sound s.buf (term c n m s).2.buf ∧ Sound s.buf (termLoop c n m t s).2.buf ∧
    Sound s.buf (term0 c n m s).2.buf ∧ Sound s.buf (term0Atom c n m s).2.buf ∧
    Sound s.buf (openClose c n s).2.buf ∧ Sound s.buf (curly c n s).2.buf ∧
    Sound s.buf (list c n s).2.buf ∧ Sound s.buf (listLoop c n l s).2.buf ∧
    Sound s.buf (functionalNotation c n f s).2.buf ∧ Sound s.buf (fnLoop c n f l s).2.buf ∧
    Sound s.buf (arg c n s).2.buf ∧ Sound s.buf (readTerm c n s).2.buf := by
  have h := allGood c hg n
  exact ⟨sound_of_mono (h.term m s).1, sound_of_mono (h.termLoop m t s).1, sound_of_mono (h.term0 m s).1,
    sound_of_mono (h.term0Atom m s).1, sound_of_mono (h.openClose s).1, sound_of_mono (h.curly s).1,
    sound_of_mono (h.list s).1, sound_of_mono (h.listLoop l s).1, sound_of_mono (h.functionalNotation f s).1,
    sound_of_mono (h.fnLoop f l s).1, sound_of_mono (h.arg s).1, sound_of_mono (readTerm_good c hg n s).1⟩

/-- The leaf functions too (`name atom op prefix infix More`). -/
theorem C05_ring_buffer_sound_leaf (c : Cfg) (m : Int) (s : Zip) :
    Sound s (name s).2 ∧ Sound s (atom c s).2 ∧ Sound s (op c m s).2 ∧ Sound s (prefixOp c m s).2 ∧
    Sound s (infixOp c m s).2 ∧ Sound s (more s).2 := by
  refine ⟨?_, ?_, ?_, ?_, ?_, sound_of_mono (more_mono s)⟩
  · have := name_spec s; revert this
    cases name s with | mk r s' => cases r <;> intro h <;> first | exact sound_of_mono (h.1.weaken (by omega)) | exact sound_of_mono h | exact h.elim
  · have := atom_spec c s; revert this
    cases atom c s with | mk r s' => cases r <;> intro h <;> first | exact sound_of_mono (h.mono1.weaken (by omega)) | exact sound_of_mono h | exact h.elim
  · have := op_spec c m s; revert this
    cases op c m s with | mk r s' => cases r <;> intro h <;> first | exact sound_of_mono (h.weaken (by omega)) | exact sound_of_mono h | exact h.elim
  · have := prefix_spec c m s; revert this
    cases prefixOp c m s with | mk r s' => cases r <;> intro h <;> first | exact sound_of_mono (h.weaken (by omega)) | exact sound_of_mono h | exact h.elim
  · have := infix_spec c m s; revert this
    cases infixOp c m s with | mk r s' => cases r <;> intro h <;> first | exact sound_of_mono (h.weaken (by omega)) | exact sound_of_mono h | exact h.elim

/-- **The reader terminates.**  Every call consumes input or moves to a function of smaller rank
    (`arg › term › term0 › term0Atom`, lexicographically after the number of tokens left): with more
    fuel than 5·(tokens left) + 4 none of the eleven functions runs out of fuel — for every operator
    table, every state and all arguments.  No bound on the input is assumed. -/
theorem C05_parser_terminates (c : Cfg) (hg : c.g = true) (n : Nat) (m : Int) (f : String) (l : List Term)
    (t : Term) (s : PS Zip) (hfuel : 5 * s.buf.rem + 4 < n) :
    (term c n m s).1 ≠ .fuel ∧ (termLoop c n m t s).1 ≠ .fuel ∧ (term0 c n m s).1 ≠ .fuel ∧
    (term0Atom c n m s).1 ≠ .fuel ∧ (openClose c n s).1 ≠ .fuel ∧ (curly c n s).1 ≠ .fuel ∧
    (list c n s).1 ≠ .fuel ∧ (listLoop c n l s).1 ≠ .fuel ∧ (functionalNotation c n f s).1 ≠ .fuel ∧
    (fnLoop c n f l s).1 ≠ .fuel ∧ (arg c n s).1 ≠ .fuel := by
  have h := allGood c hg n
  exact ⟨(h.term m s).2 (by omega), (h.termLoop m t s).2 (by omega), (h.term0 m s).2 (by omega),
    (h.term0Atom m s).2 (by omega), (h.openClose s).2 (by omega), (h.curly s).2 (by omega),
    (h.list s).2 (by omega), (h.listLoop l s).2 (by omega), (h.functionalNotation f s).2 (by omega),
    (h.fnLoop f l s).2 (by omega), (h.arg s).2 (by omega)⟩

/-- Reading a whole text (the loop of text.go `compile`: `for p.More() { p.Term() … }`, any number `k` of
    terms) from ANY token list: with the fuel the driver uses (6·tokens + 6) no read runs out of fuel, the
    tape at the end is the token list that was given, and no backup() found nothing to undo. -/
theorem C05_read_terminates_sound (c : Cfg) (hg : c.g = true) (toks : List Token) (k : Nat) :
    let r := readAll c (6 * toks.length + 6) k ({ buf := Zip.init toks } : PS Zip)
    (∀ x ∈ r.1, x ≠ .fuel) ∧ r.2.buf.tape = toks ∧ r.2.buf.bad = false := by
  have h := readAll_good c hg (6 * toks.length + 6) k ({ buf := Zip.init toks } : PS Zip)
  have hrem : (Zip.init toks).rem = toks.length := by simp [Zip.init, Zip.rem]
  refine ⟨h.2 (by simp only [hrem]; omega), ?_, h.1.bad rfl⟩
  rw [h.1.tape]; simp [Zip.init, Zip.tape]

/-- The loader's loop terminates too: whatever the bound `k` on the number of terms, `for p.More() { p.Term() }`
    calls `Term` at most (number of tokens) + 1 times — every successful `Term` consumes at least its end
    token. -/
theorem C05_read_loop_bounded (c : Cfg) (hg : c.g = true) (toks : List Token) (fuel k : Nat) :
    (readAll c fuel k ({ buf := Zip.init toks } : PS Zip)).1.length ≤ toks.length + 1 := by
  have h := readAll_length c hg fuel k ({ buf := Zip.init toks } : PS Zip)
  simpa [Zip.init, Zip.rem] using h

/-! ### the pinned reader violates all three -/

/-- D1.  On the pinned reader the token list `[` `-` (the text `X = [-` ends like this) never returns:
    for EVERY fuel the read runs out of fuel (`list → arg → term → term0 → list` re-enters the same
    state: arg() backs up two tokens after consuming one).  On the real code: `fatal error: stack
    overflow`, the process dies. -/
theorem C05_parser_terminates_witness :
    ¬ ∃ fuel, (readTerm Pinned.cfg fuel ({ buf := Ring.init Pinned.d1 } : PS Ring)).1 ≠ .fuel := by
  intro ⟨n, h⟩; exact h (Pinned.readTerm_diverges n)

/-- … while the current reader returns the lexer's error (end of input) on the same tokens. -/
example : (readTerm { ops := Ops.defaultTable } 100 ({ buf := Zip.init Pinned.d1 } : PS Zip)).1 = .err .lex := by
  decide +kernel

/-- D20 -/
def d20 : List Token :=
  [⟨.graphic, "-"⟩, ⟨.graphic, "-"⟩, ⟨.graphic, "*"⟩, ⟨.end_, "."⟩, ⟨.letterDigit, "foo"⟩, ⟨.end_, "."⟩]

/-- D20.  The 4-slot ring does not stay in step with what was read: on `- - * . foo .` three nested
    fall-backs of `term` back up 4 tokens, the ring then looks empty, and the reader continues AFTER the
    full stop: it returns the term `foo` for a text whose first clause is malformed (Exec defined foo/0
    silently).  The tape semantics (the current buffer) reports the unexpected `-`.  Independent of the
    end-of-input guards (`g = true` here). -/
theorem C05_ring_buffer_sound_witness :
    (readAll { ops := Ops.defaultTable } 100 6 ({ buf := Ring.init d20 } : PS Ring)).1 = [.ok (.atom "foo")] ∧
    (readAll { ops := Ops.defaultTable } 100 6 ({ buf := Zip.init d20 } : PS Zip)).1
      = [.err (.unexpected ⟨.graphic, "-"⟩)] := by decide +kernel

/-- D21.  `( 1` at end of input on the pinned reader: openClose looks for `)`, next() delivers
    nothing, backup() nevertheless un-reads the `1` that had been consumed — the syntax error blames the
    token that was fine.  The current reader backs up nothing (`Token{}` is reported). -/
theorem C05_backup_at_eof_witness :
    (readTerm Pinned.cfg 100 ({ buf := Ring.init [⟨.open_, "("⟩, ⟨.integer, "1"⟩] } : PS Ring)).1
      = .err (.unexpected ⟨.integer, "1"⟩) ∧
    (readTerm { ops := Ops.defaultTable } 100 ({ buf := Zip.init [⟨.open_, "("⟩, ⟨.integer, "1"⟩] } : PS Zip)).1
      = .err (.unexpected Token.zero) := by decide +kernel

/-! ### non-vacuity -/

/-- `foo(X, [1|_]) :- a, -3 + X.` -/
def sample : List Token :=
  [⟨.letterDigit, "foo"⟩, ⟨.openCT, "("⟩, ⟨.variable, "X"⟩, ⟨.comma, ","⟩, ⟨.openList, "["⟩, ⟨.integer, "1"⟩,
   ⟨.bar, "|"⟩, ⟨.variable, "_"⟩, ⟨.closeList, "]"⟩, ⟨.close, ")"⟩, ⟨.graphic, ":-"⟩, ⟨.letterDigit, "a"⟩,
   ⟨.comma, ","⟩, ⟨.graphic, "-"⟩, ⟨.integer, "3"⟩, ⟨.graphic, "+"⟩, ⟨.variable, "X"⟩, ⟨.end_, "."⟩]

/-- a text the reader accepts (18 tokens; the fuel 6·18 + 6 of `C05_read_terminates_sound`) -/
example :
    (readAll { ops := Ops.defaultTable } 114 6 ({ buf := Zip.init sample } : PS Zip)).1
    = [.ok (.app ":-" (.cons (.app "foo" (.cons (.var 0) (.cons (Term.list [.int 1] (.var 1)) .nil)))
        (.cons (.app "," (.cons (.atom "a") (.cons (.app "+" (.cons (.int (-3)) (.cons (.var 0) .nil))) .nil))) .nil)))] := by
  decide +kernel

/-- the default table satisfies the hypothesis of the theorems (any table does) and the flag of the
    current code is `g = true` -/
example : ({ ops := Ops.defaultTable } : Cfg).g = true := rfl

/-- an error term of the matrix is judged ISO; the residue of a panic is not -/
example : isIsoFormal (typeErr "callable" (.int 1)) = true := by decide
example : isIsoFormal (.atom "panic: runtime error: slice bounds out of range") = false := by decide

end PrologVerif.C05
