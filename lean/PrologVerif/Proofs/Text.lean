/-
  Helper lemmas for C20 (loader).
-/
import PrologVerif.Spec.Load
namespace PrologVerif.Load
open PrologVerif
open PrologVerif.DB (PI clausePI)

/-! ### finite maps -/

theorem Table.get_set (ps : Table α) (pi pi' : PI) (p : α) :
    (ps.set pi p).get pi' = if pi' = pi then some p else ps.get pi' := by
  induction ps with
  | nil =>
    simp only [Table.set, Table.get]
    by_cases h : pi = pi'
    · simp [h]
    · have : ¬ pi' = pi := fun e => h e.symm
      simp [h, this]
  | cons kv ps ih =>
    obtain ⟨k, v⟩ := kv
    simp only [Table.set]
    by_cases hk : k = pi
    · subst hk
      simp only [if_true, Table.get]
      by_cases h : k = pi'
      · simp [h]
      · have : ¬ pi' = k := fun e => h e.symm
        simp [h, this]
    · simp only [hk, if_false, Table.get, ih]
      by_cases h : k = pi'
      · subst h
        have : ¬ k = pi := hk
        simp [this]
      · simp [h]

/-! ### the live table is touched by directives only -/

def Step.state : Step → LoadState
  | .next ls => ls
  | .splice _ ls => ls
  | .stop ls _ => ls

theorem declare_procs (ls : LoadState) (a : Term) (f : UProc → UProc) :
    (declare ls a f).state.procs = ls.procs := by
  unfold declare
  split <;> rfl

theorem directiveResult_procs (ls : LoadState) (r : Procs × GoalResult) :
    (directiveResult ls r).1.procs = r.1 := by
  unfold directiveResult
  split <;> rfl

theorem directive_live (fs : FS) (call : Call) (P : Procs → Prop)
    (hcall : ∀ p g, P p → P (call p g).1) (ls : LoadState) (hP : P ls.procs) (d : Term) :
    P (directive fs call ls d).state.procs := by
  unfold directive
  split
  · exact hP
  · dsimp only
    split
    · rw [declare_procs]; exact hP
    · rw [declare_procs]; exact hP
    · rw [declare_procs]; exact hP
    · exact hP
    · split <;> exact hP
    · have h1 := hcall ls.procs d hP
      have h2 := directiveResult_procs { ls with tx := ‹Text› } (call ls.procs d)
      split
      · rename_i heq
        rw [heq] at h2
        exact h2 ▸ h1
      · rename_i heq
        rw [heq] at h2
        exact h2 ▸ h1

theorem stageClause_procs (ls : LoadState) (t : Term) : (stageClause ls t).state.procs = ls.procs := by
  unfold stageClause
  split
  · rfl
  · dsimp only
    split
    · rfl
    · split <;> rfl

theorem stepItem_live (fs : FS) (call : Call) (P : Procs → Prop)
    (hcall : ∀ p g, P p → P (call p g).1) (ls : LoadState) (hP : P ls.procs) (it : Item) :
    P (stepItem fs call ls it).state.procs := by
  unfold stepItem
  split
  · exact hP
  · exact directive_live fs call P hcall ls hP _
  · rw [stageClause_procs]; exact hP

theorem compileLoop_live (fs : FS) (call : Call) (P : Procs → Prop)
    (hcall : ∀ p g, P p → P (call p g).1) (fuel : Nat) (items : List Item) (ls : LoadState)
    (hP : P ls.procs) : P (compileLoop fs call fuel items ls).1.procs := by
  induction fuel generalizing items ls with
  | zero => unfold compileLoop; exact hP
  | succ fuel ih =>
    cases items with
    | nil => unfold compileLoop; exact hP
    | cons it rest =>
      unfold compileLoop
      have := stepItem_live fs call P hcall ls hP it
      split
      · rename_i ls' heq; rw [heq] at this; exact ih _ _ this
      · rename_i items ls' heq; rw [heq] at this; exact ih _ _ this
      · rename_i ls' e heq; rw [heq] at this; exact this

theorem stage_live (fs : FS) (call : Call) (P : Procs → Prop)
    (hcall : ∀ p g, P p → P (call p g).1) (fuel : Nat) (procs : Procs) (items : List Item)
    (hP : P procs) : P (stage fs call fuel procs items).1.procs := by
  unfold stage
  have := compileLoop_live fs call P hcall fuel items ⟨procs, Text.empty⟩ hP
  split
  · rename_i ls e heq; rw [heq] at this; exact this
  · rename_i ls heq; rw [heq] at this
    split <;> exact this

/-! ### staging: what the staging text holds for a predicate -/

def stagedClauses (tx : Text) (pi : PI) : List Term :=
  match tx.clauses.get pi with
  | some u => u.clauses
  | none => []

/-- staged clauses of `pi` followed by the part of the current run that belongs to `pi` -/
def view (tx : Text) (pi : PI) : List Term :=
  stagedClauses tx pi ++ (tx.buf.filter (fun e => e.1 = pi)).map (·.2)

/-- the current run holds clauses of one predicate only -/
def BufOK (tx : Text) : Prop := ∀ e ∈ tx.buf, ∀ e' ∈ tx.buf, e.1 = e'.1

theorem flush_view {tx tx' : Text} (h : flush tx = .ok tx') (hb : BufOK tx) :
    tx'.buf = [] ∧ tx'.goals = tx.goals ∧ ∀ pi, view tx' pi = view tx pi := by
  unfold flush at h
  split at h
  · rename_i hbuf
    simp only [Except.ok.injEq] at h
    subst h
    exact ⟨hbuf, rfl, fun _ => rfl⟩
  · rename_i pi0 r0 b hbuf
    dsimp only at h
    generalize hu : orEmpty (tx.clauses.get pi0) = u at h
    by_cases hc : u.clauses ≠ [] ∧ u.discontiguous = false
    · simp [hc] at h
    · simp only [hc, if_false, Except.ok.injEq] at h
      subst h
      refine ⟨rfl, rfl, ?_⟩
      intro pi
      have hall : ∀ e ∈ tx.buf, e.1 = pi0 := by
        intro e he
        exact hb e he (pi0, r0) (by rw [hbuf]; simp)
      have hst : stagedClauses tx pi0 = u.clauses := by
        unfold stagedClauses
        cases hg : tx.clauses.get pi0 <;> simp [hg, orEmpty] at hu <;> simp [← hu, UProc.empty]
      unfold view
      by_cases hpi : pi = pi0
      · subst hpi
        have hf : tx.buf.filter (fun e => decide (e.1 = pi)) = tx.buf := by
          apply List.filter_eq_self.mpr
          intro e he
          simp [hall e he]
        rw [hf, hst]
        simp [stagedClauses, Table.get_set]
      · have hf : tx.buf.filter (fun e => decide (e.1 = pi)) = [] := by
          apply List.filter_eq_nil_iff.mpr
          intro e he
          simp only [decide_eq_true_eq]
          intro e1
          exact hpi (e1 ▸ hall e he)
        simp [hf, stagedClauses, Table.get_set, hpi]

theorem forEach_go_clauses (f : UProc → UProc) (hf : ∀ u, (f u).clauses = u.clauses) (tailErr : Option LoadErr)
    (es : List Term) (cs cs' : Table UProc) (h : forEachUserDefined.go f tailErr es cs = .ok cs') (pi : PI) :
    (match cs'.get pi with | some u => u.clauses | none => []) =
    (match cs.get pi with | some u => u.clauses | none => []) := by
  induction es generalizing cs with
  | nil =>
    unfold forEachUserDefined.go at h
    split at h
    · simp only [Except.ok.injEq] at h; subst h; rfl
    · simp at h
  | cons e es ih =>
    unfold forEachUserDefined.go at h
    split at h
    · simp at h
    · rename_i pi0 _
      rw [ih _ h]
      simp only [Table.get_set]
      by_cases hpi : pi = pi0
      · subst hpi
        simp only [if_true, hf]
        cases cs.get pi <;> simp [UProc.empty, orEmpty]
      · simp [hpi]

theorem forEach_view {tx tx' : Text} {a : Term} {f : UProc → UProc} (hf : ∀ u, (f u).clauses = u.clauses)
    (h : forEachUserDefined tx a f = .ok tx') :
    tx'.buf = tx.buf ∧ tx'.goals = tx.goals ∧ ∀ pi, view tx' pi = view tx pi := by
  unfold forEachUserDefined at h
  split at h
  rename_i elems tailErr _
  split at h
  · rename_i cs hgo
    simp only [Except.ok.injEq] at h
    subst h
    refine ⟨rfl, rfl, fun pi => ?_⟩
    unfold view stagedClauses
    simp only
    rw [forEach_go_clauses f hf tailErr elems tx.clauses cs hgo pi]
  · simp at h

/-! ### source order -/

def isInclude : Item → Bool
  | .term (.app ":-" (.cons (.app "include" (.cons _ .nil)) .nil)) => true
  | _ => false

/-- what one reading contributes to the definition of `pi` -/
def contrib (r : Reading) (pi : PI) : List Term :=
  match r with
  | .clause pi' raws => if pi' = pi then raws else []
  | _ => []

theorem clausesFor_cons (r : Reading) (rs : List Reading) (pi : PI) :
    clausesFor (r :: rs) pi = contrib r pi ++ clausesFor rs pi := by
  unfold clausesFor contrib
  rw [List.flatMap_cons]
  cases r <;> rfl

theorem clausesFor_nil (pi : PI) : clausesFor [] pi = [] := rfl

theorem contrib_directive (d : Term) (pi : PI) :
    contrib (classify (.term (.app ":-" (.cons d .nil)))) pi = [] := by
  unfold classify
  split
  · rfl
  · rename_i d' heq
    simp only [Item.term.injEq, Term.app.injEq, Args.cons.injEq, true_and, and_true] at heq
    subst heq
    split
    · split <;> rfl
    · split <;> rfl
    · split <;> rfl
    · rfl
    · rfl
  · rename_i t hne heq
    simp only [Item.term.injEq] at heq
    exact absurd heq.symm (hne d)

theorem bufOK_nil {tx : Text} (h : tx.buf = []) : BufOK tx := by
  intro e he
  rw [h] at he
  cases he

theorem declare_next {ls ls' : LoadState} {a : Term} {f : UProc → UProc} (hf : ∀ u, (f u).clauses = u.clauses)
    (hbuf : ls.tx.buf = []) (h : declare ls a f = .next ls') :
    BufOK ls'.tx ∧ ∀ pi, view ls'.tx pi = view ls.tx pi := by
  unfold declare at h
  split at h
  · rename_i tx' hfe
    simp only [Step.next.injEq] at h
    subst h
    obtain ⟨h1, _, h3⟩ := forEach_view hf hfe
    exact ⟨bufOK_nil (by simp [h1, hbuf]), h3⟩
  · cases h

theorem declare_not_splice {ls ls' : LoadState} {a : Term} {f : UProc → UProc} {items : List Item} :
    declare ls a f ≠ .splice items ls' := by
  unfold declare
  split <;> simp

theorem directive_not_splice (fs : FS) (call : Call) (ls ls' : LoadState) (d : Term) (items : List Item)
    (hni : isInclude (.term (.app ":-" (.cons d .nil))) = false) :
    directive fs call ls d ≠ .splice items ls' := by
  unfold directive
  split
  · simp
  · dsimp only
    split
    · exact declare_not_splice
    · exact declare_not_splice
    · exact declare_not_splice
    · simp
    · simp [isInclude] at hni
    · split <;> simp

theorem directive_next (fs : FS) (call : Call) (ls ls' : LoadState) (d : Term) (hb : BufOK ls.tx)
    (h : directive fs call ls d = .next ls') :
    BufOK ls'.tx ∧ ∀ pi, view ls'.tx pi = view ls.tx pi := by
  unfold directive at h
  split at h
  · cases h
  · rename_i tx hfl
    obtain ⟨h1, _, h3⟩ := flush_view hfl hb
    dsimp only at h
    split at h
    · have := declare_next (ls := { ls with tx := tx }) (by intro u; rfl) h1 h
      exact ⟨this.1, fun pi => by rw [this.2 pi]; exact h3 pi⟩
    · have := declare_next (ls := { ls with tx := tx }) (by intro u; rfl) h1 h
      exact ⟨this.1, fun pi => by rw [this.2 pi]; exact h3 pi⟩
    · have := declare_next (ls := { ls with tx := tx }) (by intro u; rfl) h1 h
      exact ⟨this.1, fun pi => by rw [this.2 pi]; exact h3 pi⟩
    · simp only [Step.next.injEq] at h
      subst h
      exact ⟨bufOK_nil h1, fun pi => by rw [← h3 pi]; rfl⟩
    · split at h <;> cases h
    · split at h
      · rename_i ls1 heq
        simp only [Step.next.injEq] at h
        subst h
        unfold directiveResult at heq
        have htx : ls1.tx = tx := by
          split at heq <;> simp only [Prod.mk.injEq] at heq <;> obtain ⟨rfl, _⟩ := heq <;> rfl
        rw [htx]
        exact ⟨bufOK_nil h1, h3⟩
      · cases h

theorem stageClause_not_splice (ls ls' : LoadState) (t : Term) (items : List Item) :
    stageClause ls t ≠ .splice items ls' := by
  unfold stageClause
  split
  · simp
  · dsimp only
    split
    · simp
    · split <;> simp

theorem classify_clause (t : Term) (hnd : ∀ d, t ≠ .app ":-" (.cons d .nil)) (pi : PI) (raws : List Term)
    (h1 : clausePI t = .ok pi) (h2 : DB.compile t = .ok raws) : classify (.term t) = .clause pi raws := by
  unfold classify
  split
  · rename_i heq; cases heq
  · rename_i d heq
    simp only [Item.term.injEq] at heq
    exact absurd heq (hnd d)
  · rename_i t' _ heq
    simp only [Item.term.injEq] at heq
    subst heq
    simp [h1, h2]

theorem filter_map_pair_same (pi : PI) (raws : List Term) :
    ((raws.map fun r => (pi, r)).filter (fun e => decide (e.1 = pi))).map (·.2) = raws := by
  induction raws with
  | nil => rfl
  | cons r rs ih => simp [List.filter_cons, ih]

theorem filter_map_pair_other (pi pi' : PI) (h : pi ≠ pi') (raws : List Term) :
    ((raws.map fun r => (pi, r)).filter (fun e => decide (e.1 = pi'))).map (·.2) = [] := by
  induction raws with
  | nil => rfl
  | cons r rs ih => simp [List.filter_cons, ih, h]

theorem stageClause_next (ls ls' : LoadState) (t : Term) (hnd : ∀ d, t ≠ .app ":-" (.cons d .nil))
    (hb : BufOK ls.tx) (h : stageClause ls t = .next ls') :
    BufOK ls'.tx ∧ ∀ pi, view ls'.tx pi = view ls.tx pi ++ contrib (classify (.term t)) pi := by
  unfold stageClause at h
  split at h
  · cases h
  · rename_i pi hpi
    dsimp only at h
    split at h
    · cases h
    · rename_i tx hfl
      split at h
      · cases h
      · rename_i raws hc
        simp only [Step.next.injEq] at h
        subst h
        rw [classify_clause t hnd pi raws hpi hc]
        -- what the conditional flush leaves: same views, a run of `pi` only
        have hkey : (∀ pi', view tx pi' = view ls.tx pi') ∧ (∀ e ∈ tx.buf, e.1 = pi) := by
          split at hfl
          · rename_i pi0 r0 b hbuf
            split at hfl
            · obtain ⟨h1, _, h3⟩ := flush_view hfl hb
              exact ⟨h3, fun e he => by rw [h1] at he; cases he⟩
            · rename_i hne
              simp only [Except.ok.injEq] at hfl
              subst hfl
              have hpp : pi = pi0 := Classical.not_not.mp hne
              exact ⟨fun _ => rfl, fun e he => by rw [hpp]; exact hb e he (pi0, r0) (by rw [hbuf]; simp)⟩
          · rename_i hbuf
            simp only [Except.ok.injEq] at hfl
            subst hfl
            exact ⟨fun _ => rfl, fun e he => by rw [hbuf] at he; cases he⟩
        obtain ⟨hv, hall⟩ := hkey
        constructor
        · intro e he e' he'
          simp only [List.mem_append, List.mem_map] at he he'
          have h1 : e.1 = pi := by
            rcases he with he | ⟨r, _, rfl⟩
            · exact hall e he
            · rfl
          have h2 : e'.1 = pi := by
            rcases he' with he' | ⟨r, _, rfl⟩
            · exact hall e' he'
            · rfl
          rw [h1, h2]
        · intro pi'
          rw [← hv pi']
          unfold view stagedClauses contrib
          simp only [List.filter_append, List.map_append]
          by_cases hpp : pi = pi'
          · subst hpp
            simp only [if_true]
            rw [filter_map_pair_same]
            simp
          · simp only [hpp, if_false]
            rw [filter_map_pair_other pi pi' hpp]
            simp

theorem stepItem_not_splice (fs : FS) (call : Call) (ls ls' : LoadState) (it : Item) (items : List Item)
    (hni : isInclude it = false) : stepItem fs call ls it ≠ .splice items ls' := by
  unfold stepItem
  split
  · simp
  · exact directive_not_splice fs call ls ls' _ items hni
  · exact stageClause_not_splice ls ls' _ items

theorem stepItem_next (fs : FS) (call : Call) (ls ls' : LoadState) (it : Item) (hb : BufOK ls.tx)
    (h : stepItem fs call ls it = .next ls') :
    BufOK ls'.tx ∧ ∀ pi, view ls'.tx pi = view ls.tx pi ++ contrib (classify it) pi := by
  unfold stepItem at h
  split at h
  · cases h
  · rename_i d
    have := directive_next fs call ls ls' d hb h
    exact ⟨this.1, fun pi => by rw [this.2 pi, contrib_directive]; simp⟩
  · rename_i t hnd
    exact stageClause_next ls ls' t (fun d e => hnd d e) hb h

/-- the staging invariant over the whole read loop: every predicate's staged clauses (plus its
    part of the current run) grow by exactly its clauses among the items read, in order -/
theorem compileLoop_view (fs : FS) (call : Call) (fuel : Nat) (items : List Item) (ls ls' : LoadState)
    (hni : ∀ it ∈ items, isInclude it = false) (hb : BufOK ls.tx)
    (h : compileLoop fs call fuel items ls = (ls', none)) :
    BufOK ls'.tx ∧ ∀ pi, view ls'.tx pi = view ls.tx pi ++ clausesFor (items.map classify) pi := by
  induction fuel generalizing items ls with
  | zero => unfold compileLoop at h; simp at h
  | succ fuel ih =>
    cases items with
    | nil =>
      unfold compileLoop at h
      simp only [Prod.mk.injEq, and_true] at h
      subst h
      exact ⟨hb, fun pi => by simp [clausesFor_nil]⟩
    | cons it rest =>
      unfold compileLoop at h
      split at h
      · rename_i ls1 hstep
        obtain ⟨hb1, hv1⟩ := stepItem_next fs call ls ls1 it hb hstep
        obtain ⟨hb2, hv2⟩ := ih rest ls1 (fun i hi => hni i (List.mem_cons_of_mem _ hi)) hb1 h
        refine ⟨hb2, fun pi => ?_⟩
        rw [hv2 pi, hv1 pi, List.map_cons, clausesFor_cons, List.append_assoc]
      · rename_i items1 ls1 hstep
        exact absurd hstep (stepItem_not_splice fs call ls ls1 it items1 (hni it (by simp)))
      · simp at h

/-! ### the commit loop -/

def keys (t : Table α) : List PI := t.map (·.1)

theorem Table.get_none_of_not_mem (t : Table α) (pi : PI) (h : pi ∉ keys t) : t.get pi = none := by
  induction t with
  | nil => rfl
  | cons kv t ih =>
    obtain ⟨k, v⟩ := kv
    simp only [keys, List.map_cons, List.mem_cons, not_or] at h
    have hk : ¬ k = pi := fun e => h.1 e.symm
    simp only [Table.get, hk, if_false]
    exact ih h.2

theorem keys_set (t : Table α) (pi : PI) (v : α) :
    keys (t.set pi v) = if pi ∈ keys t then keys t else keys t ++ [pi] := by
  induction t with
  | nil => simp [Table.set, keys]
  | cons kv t ih =>
    obtain ⟨k, w⟩ := kv
    simp only [Table.set]
    by_cases hk : k = pi
    · subst hk
      simp [keys]
    · have hk' : ¬ pi = k := fun e => hk e.symm
      simp only [hk, if_false]
      simp only [keys, List.map_cons, List.mem_cons, hk', false_or] at ih ⊢
      rw [ih]
      by_cases hm : pi ∈ List.map (fun x => x.fst) t <;> simp [hm]

theorem keys_set_nodup (t : Table α) (pi : PI) (v : α) (h : (keys t).Nodup) : (keys (t.set pi v)).Nodup := by
  rw [keys_set]
  split
  · exact h
  · rename_i hn
    exact List.nodup_append.mpr ⟨h, by simp, fun a ha b hb => by
      simp only [List.mem_singleton] at hb; subst hb; intro e; exact hn (e ▸ ha)⟩

theorem commitStep_eq (ps : Procs) (e : PI × UProc) :
    commitStep ps e = ps.set e.1 (newEntry (ps.get e.1) e.2) := by
  unfold commitStep newEntry
  cases h : ps.get e.1 with
  | none => rfl
  | some p =>
    cases p with
    | builtin => rfl
    | user ex =>
      by_cases hm : ex.multifile = true ∧ e.2.multifile = true
      · simp [hm]
      · simp [hm]

/-- what the commit loop leaves for every predicate: the staged definition (appended to the old
    one when both are multifile) if the text staged one, the old entry otherwise -/
theorem commit_get (procs : Procs) (staged : Table UProc) (hnd : (keys staged).Nodup) (pi : PI) :
    (commit procs staged).get pi =
      match staged.get pi with
      | some u => some (newEntry (procs.get pi) u)
      | none => procs.get pi := by
  unfold commit
  induction staged generalizing procs with
  | nil => rfl
  | cons kv rest ih =>
    obtain ⟨k, u⟩ := kv
    simp only [keys, List.map_cons, List.nodup_cons] at hnd
    rw [List.foldl_cons, commitStep_eq]
    rw [ih _ hnd.2]
    by_cases hk : k = pi
    · subst hk
      have : Table.get rest k = none := Table.get_none_of_not_mem rest k hnd.1
      simp [this, Table.get, Table.get_set]
    · have hk' : ¬ pi = k := fun e => hk e.symm
      simp [Table.get, hk, Table.get_set, hk']

/-! ### an invariant of the staging text's table: keys stay unique -/

theorem flush_keys {tx tx' : Text} (h : flush tx = .ok tx') (hk : (keys tx.clauses).Nodup) :
    (keys tx'.clauses).Nodup := by
  unfold flush at h
  split at h
  · simp only [Except.ok.injEq] at h; subst h; exact hk
  · dsimp only at h
    split at h
    · cases h
    · simp only [Except.ok.injEq] at h
      subst h
      exact keys_set_nodup _ _ _ hk

theorem forEach_go_keys (f : UProc → UProc) (tailErr : Option LoadErr) (es : List Term) (cs cs' : Table UProc)
    (h : forEachUserDefined.go f tailErr es cs = .ok cs') (hk : (keys cs).Nodup) : (keys cs').Nodup := by
  induction es generalizing cs with
  | nil =>
    unfold forEachUserDefined.go at h
    split at h
    · simp only [Except.ok.injEq] at h; subst h; exact hk
    · cases h
  | cons e es ih =>
    unfold forEachUserDefined.go at h
    split at h
    · cases h
    · exact ih _ h (keys_set_nodup _ _ _ hk)

theorem forEach_keys {tx tx' : Text} {a : Term} {f : UProc → UProc}
    (h : forEachUserDefined tx a f = .ok tx') (hk : (keys tx.clauses).Nodup) : (keys tx'.clauses).Nodup := by
  unfold forEachUserDefined at h
  split at h
  split at h
  · rename_i cs hgo
    simp only [Except.ok.injEq] at h
    subst h
    exact forEach_go_keys _ _ _ _ _ hgo hk
  · cases h

theorem stepItem_keys (fs : FS) (call : Call) (ls : LoadState) (it : Item)
    (hk : (keys ls.tx.clauses).Nodup) : (keys (stepItem fs call ls it).state.tx.clauses).Nodup := by
  have hdecl : ∀ (ls : LoadState) a f, (keys ls.tx.clauses).Nodup → (keys (declare ls a f).state.tx.clauses).Nodup := by
    intro ls a f hk
    unfold declare
    split
    · rename_i tx' h; exact forEach_keys h hk
    · exact hk
  unfold stepItem
  split
  · exact hk
  · unfold directive
    split
    · exact hk
    · rename_i tx hfl
      have hk1 := flush_keys hfl hk
      dsimp only
      split
      · exact hdecl _ _ _ hk1
      · exact hdecl _ _ _ hk1
      · exact hdecl _ _ _ hk1
      · exact hk1
      · split <;> exact hk1
      · split
        · rename_i ls1 heq
          unfold directiveResult at heq
          have htx : ls1.tx = tx := by
            split at heq <;> simp only [Prod.mk.injEq] at heq <;> obtain ⟨rfl, _⟩ := heq <;> rfl
          simp only [Step.state, htx]; exact hk1
        · rename_i ls1 e heq
          unfold directiveResult at heq
          have htx : ls1.tx = tx := by
            split at heq <;> simp only [Prod.mk.injEq] at heq <;> obtain ⟨rfl, _⟩ := heq <;> rfl
          simp only [Step.state, htx]; exact hk1
  · unfold stageClause
    split
    · exact hk
    · dsimp only
      split
      · exact hk
      · rename_i tx hfl
        have hk1 : (keys tx.clauses).Nodup := by
          split at hfl
          · split at hfl
            · exact flush_keys hfl hk
            · simp only [Except.ok.injEq] at hfl; subst hfl; exact hk
          · simp only [Except.ok.injEq] at hfl; subst hfl; exact hk
        split <;> exact hk1

theorem compileLoop_keys (fs : FS) (call : Call) (fuel : Nat) (items : List Item) (ls : LoadState)
    (hk : (keys ls.tx.clauses).Nodup) : (keys (compileLoop fs call fuel items ls).1.tx.clauses).Nodup := by
  induction fuel generalizing items ls with
  | zero => unfold compileLoop; exact hk
  | succ fuel ih =>
    cases items with
    | nil => unfold compileLoop; exact hk
    | cons it rest =>
      unfold compileLoop
      have := stepItem_keys fs call ls it hk
      split
      · rename_i ls' heq; rw [heq] at this; exact ih _ _ this
      · rename_i items ls' heq; rw [heq] at this; exact ih _ _ this
      · rename_i ls' e heq; rw [heq] at this; exact this

theorem stage_keys (fs : FS) (call : Call) (fuel : Nat) (procs : Procs) (items : List Item) :
    (keys (stage fs call fuel procs items).1.tx.clauses).Nodup := by
  unfold stage
  have := compileLoop_keys fs call fuel items ⟨procs, Text.empty⟩ (by simp [Text.empty, keys])
  split
  · rename_i ls e heq; rw [heq] at this; exact this
  · rename_i ls heq; rw [heq] at this
    split
    · exact this
    · rename_i tx hfl; exact flush_keys hfl this

/-! ### directives and initialization goals: order -/

def initOf : Reading → List Term
  | .init g => [g]
  | _ => []

/-- the effect of one reading on the LIVE table: only a goal directive has one -/
def liveStep (call : Call) (p : Procs) : Reading → Procs
  | .goal g => (call p g).1
  | _ => p

theorem flush_goals {tx tx' : Text} (h : flush tx = .ok tx') : tx'.goals = tx.goals := by
  unfold flush at h
  split at h
  · simp only [Except.ok.injEq] at h; subst h; rfl
  · dsimp only at h
    split at h
    · cases h
    · simp only [Except.ok.injEq] at h; subst h; rfl

theorem forEach_goals {tx tx' : Text} {a : Term} {f : UProc → UProc}
    (h : forEachUserDefined tx a f = .ok tx') : tx'.goals = tx.goals := by
  unfold forEachUserDefined at h
  split at h
  split at h
  · simp only [Except.ok.injEq] at h; subst h; rfl
  · cases h

theorem declare_next_order {ls ls' : LoadState} {a : Term} {f : UProc → UProc}
    (h : declare ls a f = .next ls') : ls'.tx.goals = ls.tx.goals ∧ ls'.procs = ls.procs := by
  unfold declare at h
  split at h
  · rename_i tx' hfe
    simp only [Step.next.injEq] at h
    subst h
    exact ⟨forEach_goals hfe, rfl⟩
  · cases h

theorem classify_declare_order (call : Call) (p : Procs) (name : String) (a : Term)
    (hn : name = "dynamic" ∨ name = "multifile" ∨ name = "discontiguous") :
    initOf (classify (.term (.app ":-" (.cons (.app name (.cons a .nil)) .nil)))) = [] ∧
    liveStep call p (classify (.term (.app ":-" (.cons (.app name (.cons a .nil)) .nil)))) = p := by
  rcases hn with rfl | rfl | rfl <;> (unfold classify; simp only; split <;> exact ⟨rfl, rfl⟩)

theorem directive_next_order (fs : FS) (call : Call) (ls ls' : LoadState) (d : Term)
    (h : directive fs call ls d = .next ls') :
    ls'.tx.goals = ls.tx.goals ++ initOf (classify (.term (.app ":-" (.cons d .nil)))) ∧
    ls'.procs = liveStep call ls.procs (classify (.term (.app ":-" (.cons d .nil)))) := by
  unfold directive at h
  split at h
  · cases h
  · rename_i tx hfl
    have hg := flush_goals hfl
    dsimp only at h
    split at h
    · obtain ⟨h1, h2⟩ := declare_next_order h
      obtain ⟨c1, c2⟩ := classify_declare_order call ls.procs "dynamic" ‹Term› (Or.inl rfl)
      rw [c1, c2, h1, h2]; simp [hg]
    · obtain ⟨h1, h2⟩ := declare_next_order h
      obtain ⟨c1, c2⟩ := classify_declare_order call ls.procs "multifile" ‹Term› (Or.inr (Or.inl rfl))
      rw [c1, c2, h1, h2]; simp [hg]
    · obtain ⟨h1, h2⟩ := declare_next_order h
      obtain ⟨c1, c2⟩ := classify_declare_order call ls.procs "discontiguous" ‹Term› (Or.inr (Or.inr rfl))
      rw [c1, c2, h1, h2]; simp [hg]
    · simp only [Step.next.injEq] at h
      subst h
      simp [classify, initOf, liveStep, hg]
    · split at h <;> cases h
    · rename_i h1 h2 h3 h4 h5
      have hc : classify (.term (.app ":-" (.cons d .nil))) = .goal d := by
        have h1' : ∀ a, d ≠ .app "dynamic" (.cons a .nil) := fun a e => h1 a e
        have h2' : ∀ a, d ≠ .app "multifile" (.cons a .nil) := fun a e => h2 a e
        have h3' : ∀ a, d ≠ .app "discontiguous" (.cons a .nil) := fun a e => h3 a e
        have h4' : ∀ a, d ≠ .app "initialization" (.cons a .nil) := fun a e => h4 a e
        unfold classify
        simp only
      rw [hc]
      split at h
      · rename_i ls1 heq
        simp only [Step.next.injEq] at h
        subst h
        unfold directiveResult at heq
        have : ls1 = { procs := (call ls.procs d).1, tx := tx } := by
          split at heq <;> simp only [Prod.mk.injEq] at heq <;> obtain ⟨rfl, _⟩ := heq <;> rfl
        subst this
        simp [initOf, liveStep, hg]
      · cases h

theorem stageClause_next_order (call : Call) (ls ls' : LoadState) (t : Term)
    (hnd : ∀ d, t ≠ .app ":-" (.cons d .nil)) (h : stageClause ls t = .next ls') :
    ls'.tx.goals = ls.tx.goals ++ initOf (classify (.term t)) ∧
    ls'.procs = liveStep call ls.procs (classify (.term t)) := by
  unfold stageClause at h
  split at h
  · cases h
  · rename_i pi hpi
    dsimp only at h
    split at h
    · cases h
    · rename_i tx hfl
      split at h
      · cases h
      · rename_i raws hc
        simp only [Step.next.injEq] at h
        subst h
        rw [classify_clause t hnd pi raws hpi hc]
        have hg : tx.goals = ls.tx.goals := by
          split at hfl
          · split at hfl
            · exact flush_goals hfl
            · simp only [Except.ok.injEq] at hfl; subst hfl; rfl
          · simp only [Except.ok.injEq] at hfl; subst hfl; rfl
        simp [initOf, liveStep, hg]

theorem stepItem_next_order (fs : FS) (call : Call) (ls ls' : LoadState) (it : Item)
    (h : stepItem fs call ls it = .next ls') :
    ls'.tx.goals = ls.tx.goals ++ initOf (classify it) ∧ ls'.procs = liveStep call ls.procs (classify it) := by
  unfold stepItem at h
  split at h
  · cases h
  · exact directive_next_order fs call ls ls' _ h
  · rename_i t hnd
    exact stageClause_next_order call ls ls' t (fun d e => hnd d e) h

theorem compileLoop_order (fs : FS) (call : Call) (fuel : Nat) (items : List Item) (ls ls' : LoadState)
    (hni : ∀ it ∈ items, isInclude it = false)
    (h : compileLoop fs call fuel items ls = (ls', none)) :
    ls'.tx.goals = ls.tx.goals ++ (items.map classify).flatMap initOf ∧
    ls'.procs = (items.map classify).foldl (liveStep call) ls.procs := by
  induction fuel generalizing items ls with
  | zero => unfold compileLoop at h; simp at h
  | succ fuel ih =>
    cases items with
    | nil =>
      unfold compileLoop at h
      simp only [Prod.mk.injEq, and_true] at h
      subst h
      simp
    | cons it rest =>
      unfold compileLoop at h
      split at h
      · rename_i ls1 hstep
        obtain ⟨h1, h2⟩ := stepItem_next_order fs call ls ls1 it hstep
        obtain ⟨h3, h4⟩ := ih rest ls1 (fun i hi => hni i (List.mem_cons_of_mem _ hi)) h
        refine ⟨?_, ?_⟩
        · rw [h3, h1]; simp
        · rw [h4, h2]; simp
      · rename_i items1 ls1 hstep
        exact absurd hstep (stepItem_not_splice fs call ls ls1 it items1 (hni it (by simp)))
      · simp at h

end PrologVerif.Load
