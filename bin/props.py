"""Per-property configuration of bin/check (streams, sizes, trusted base). See DESIGN.md §6."""

COMMON_TRUSTED = [
    "Lean 4.33.0 kernel (thorough tier: re-checked with leanchecker); axioms allowed in property theorems: propext, Classical.choice, Quot.sound only (audited on every run by PrologVerif/Audit.lean); no sorry/admit/native_decide/bv_decide/own axioms (grep on every run)",
    "hand-written Lean model mirrors the Go code: CHECKED by the correspondence streams (differential testing, bounded by the generators; distributions are in this file), not proved",
    "/verif/extract (regenerated facts / translated definitions) and /verif/harness (in-process runner, canonicalisation: variables renamed by first occurrence, map-ordered output sorted, error context dropped)",
    "Go compiler/runtime and standard library behave as documented",
]

NOT_APPLICABLE = {}

PROPS = {
    "C18": dict(
        level_text="Proof: the operator-table state machine (Op/validateOp/CurrentOp and the operators methods) is modelled in Lean; for ALL histories of op/3 calls with arbitrary argument terms the ISO invariant (C18_inv), atomicity of failed updates (C18_atomic), the exact effect of successful updates (C18_update_exact: latest wins, 0 removes, other classes kept) and exactness of current_op/3 (C18_current_op_exact) are kernel-checked theorems, the default table being regenerated from bootstrap.pl. The model is tied to the Go code by the c18.hist correspondence stream (impl vs model, plus an independent executable ISO specification as oracle, plus reader/writer probes).",
        level_note="Trusted: Lean kernel; the hand-written model of Op/validateOp/CurrentOp (checked by differential runs, not proved); harness canonicalisation; reader/writer use of the table is only probed, not modelled. Pattern variables of current_op/3 assumed pairwise distinct.",
        technique="Lean 4 invariant proof by induction over op/3 histories + regenerated default table + model/implementation correspondence",
        lean_module="PrologVerif.Properties.C18",
        ns="PrologVerif.C18",
        streams=[dict(name="c18.hist", quick=3000, thorough=40000)],
        rule="histories of 1..8 operations over op/3 (valid and invalid priorities, specifiers, names, lists with invalid members, partial lists, special names , | [] {}), current_op/3 in every instantiation pattern, and a reader/writer probe; generated from one PRNG (VERIF_SEED); non-trivial = at least two op/3 calls in the history changed the table, or one changed it and another was rejected; distinct = distinct case text",
        trusted=[
            "modelled (hand-written, correspondence-checked): engine/builtin.go Op, validateOp, appendUniqNewAtom, CurrentOp; engine/parser.go operators.define/remove/definedInClass; ListIterator as used by Op",
            "regenerated from source on every run: the default operator table = the op/3 directives of bootstrap.pl read by the real parser (Generated/Bootstrap.lean); C18_default_valid is re-proved against it by kernel evaluation",
            "not modelled: the reader and writer themselves (only probed: 'a n b', 'n a', 'a n' parse / writeq(n(a,b)), writeq(n(a)) print according to the table); Go map iteration order (answers compared as sets)",
        ],
        modelled={"hand_modelled": ["Op", "validateOp", "appendUniqNewAtom", "CurrentOp", "operators.define", "operators.remove", "operators.definedInClass"],
                  "regenerated": ["bootstrap.pl op/3 directives"], "observed_only": ["Parser (probe)", "WriteCompound (probe)"]},
        assumptions=["pattern variables of current_op/3 calls are pairwise distinct (the model matches argument-wise)"],
    ),
    "C14": dict(
        level_text="Proof (partial): the process-wide state shared by all interpreters (the atom table and the variable counter) is modelled in Lean as N clients issuing newAtom/atomName/newVar against one state, each operation one atomic step. For ALL schedules and any number of clients, kernel-checked: the table is a linearizable interning function (C14_atom_table_linearizable: injective, stable across clients and time, atomName(newAtom s)=s, ids only grow, table invariant); every client's view equals, up to an injective name-preserving renaming of atom ids and a strictly monotone renaming of variable numbers, what it would see running ALONE (C14_view_as_alone, by simulation); variables are fresh, increasing and never shared (C14_var_supply); identity, standard order, canonical answers (C14_id_parametric) and unification (C14_unify_parametric) of id-level terms are invariant under exactly such renamings, hence other interpreters cannot change an interpreter's answers (C14_answers_unchanged). C14_nonatomic_witness shows the result fails when NewAtom is not atomic. That the operations ARE atomic and that no other package-level mutable state exists are facts regenerated from the source with go/types on every run and tied by decide (C14_facts_atom_table_locked, C14_facts_var_counter_atomic, C14_facts_no_other_shared_state). Absence of data races under the Go memory model is not a theorem: it is OBSERVED by running the real code under the Go race detector (streams c14.table, c14.race; schedules sampled, not enumerated), and isolation of the per-interpreter state is checked on all pairs (state-changing directive, observer) in c14.isolation.",
        level_note="Partial: race freedom itself is a runtime property of the Go memory model and is observed with `go build -race` on sampled schedules (2..8 goroutines, randomized GOMAXPROCS and Gosched injection), not proved. Trusted: Lean kernel; the hand-written model of NewAtom/Atom.String/NewVariable (correspondence-checked by c14.table, sequential interleavings exactly, parallel runs through schedule-independent views plus an independent linearizability checker); extract/shared.go (lock-discipline and package-variable facts are syntactic: aliasing through pointers is not tracked); the Go race detector; sync.RWMutex and sync/atomic behave as documented. Interpreters exchanging terms through the host program, halt/0 (terminates the process) and the file system are outside the property.",
        technique="Lean 4 linearizability + simulation proof over all schedules, id-parametricity of the layers above, regenerated lock-discipline facts (go/types) tied by decide, model/implementation correspondence and whole-interpreter differential runs under the Go race detector",
        lean_module="PrologVerif.Properties.C14",
        ns="PrologVerif.C14",
        streams=[
            dict(name="c14.table", quick=700, thorough=3000, race=True, isolated=True, case_timeout=60),
            dict(name="c14.race", quick=200, thorough=500, race=True, isolated=True, case_timeout=120),
            dict(name="c14.isolation", quick=3864, thorough=6000),
        ],
        thorough_seeds=3,
        rule="c14.table: 1..8 goroutines issuing 1..60 (thorough 150) NewAtom/Atom.String/NewVariable calls each on the real shared table, names drawn from a small per-case pool (multi-rune, one-rune, empty, U+FFFD, pre-existing) so that clients collide, half in a generated interleaving (compared step by step with the model), half freely in parallel under randomized GOMAXPROCS and Gosched injection (views compared with the model, raw ids judged by the linearizability checker); non-trivial = at least two clients interned a common fresh multi-rune name. c14.race: 2..8 interpreters, one goroutine each, through New/Exec/Query/Next/Scan/Close on programs assembled from 10 snippet families (database updates, run-time atom creation with colliding names, variable creation and ordering, writing/quoting, op/3, flags and char_conversion, list programs, read/get_char, DCG, errors and their messages), a yield predicate and a yielding output writer injecting runtime.Gosched, built with -race (a race report kills the worker and is attributed to the case); every interpreter's canonical answers and output compared with its sequential run; non-trivial = at least 2 interpreters and new atoms were interned during the concurrent phase. c14.isolation: the full cross product 28 state-changing directives x 23 observers x 3 creation orders x 2 set-ups = 3864 cases, all run in both tiers (thorough adds chains of 2..3 random directives), observer answers in interpreter B before/after the change in A; non-trivial = the change is observable in A itself. One PRNG (VERIF_SEED); distinct = distinct case text.",
        trusted=[
            "modelled (hand-written, correspondence-checked by c14.table): engine/atom.go NewAtom, Atom.String; engine/variable.go NewVariable",
            "regenerated from source on every run (extract/shared.go, go/types): every access to atomTable.names/atoms with the lock held, every access to varCounter, callers of lastVariable, all package-level variables of engine and prolog and every write/address-taking/pointer-method call on them outside init(), the fields of VM (Generated/SharedState.lean; tied by C14_facts_*)",
            "observed only (not modelled): the interpreters themselves in c14.race / c14.isolation (public API); data-race freedom through the Go race detector; sync.RWMutex / sync/atomic semantics",
            "not covered: aliasing of package-level variables through pointers (the extractor is syntactic), names that are not valid UTF-8, overflow of the 63-bit variable counter, terms passed between interpreters by the host program, halt/0, the file system",
        ],
        modelled={"hand_modelled": ["NewAtom", "Atom.String", "NewVariable", "Atom.Compare/Variable.Compare (id-level standard order, for parametricity)"],
                  "regenerated": ["atomTable accesses + lock held", "varCounter accesses", "package-level variables and writes", "VM fields"],
                  "observed_only": ["prolog.New/Exec/Query/Solutions (c14.race, c14.isolation)", "Go race detector"]},
        assumptions=["each interpreter is used from one goroutine at a time (the property's own premise)",
                     "a client only asks for names of atoms it obtained itself (one-rune atoms, atoms present at start, results of its own NewAtom calls); Atom values are not forged or passed between interpreters by the host program",
                     "sync.RWMutex provides mutual exclusion and atomic.AddInt64 is atomic (then every model operation is one atomic step)",
                     "variable counter does not overflow int64"],
    ),
}
