/-
  P2, lexing half: two kernel-checked counterexamples that justify how the final statements of
  Proofs/OpRoundtripLex.lean differ from the first formulation.

  1. `cex_capOK`: without the hypothesis `CapOK` on the character-class oracle, `lexSeq_writeq` is false: if the
     oracle counts the graphic character `∀` (U+2200) as a capital letter, the text `a∀b` of the term `∀(a,b)`
     (`∀` an infix operator) is ONE letter-digit token.
  2. `cex_right`: `lexSeq_qt` needs `o.right = none` (or the continuation form `lexSeq_qt_cont`): under
     `o.right = mod` the atom `a` is written `a ` and the space is not consumed by the token `a`.
-/
import PrologVerif.Proofs.OpRoundtripLex
set_option linter.unusedSimpArgs false
set_option linter.unusedVariables false
namespace PrologVerif.Write
open PrologVerif PrologVerif.Lexer PrologVerif.Ops PrologVerif.Read

theorem LexSeq.cons_inv {cfg : Cfg} {text : List Char} {t : Token} {ts : List Token} {tail : List Char}
    (h : LexSeq cfg text (t :: ts) tail) :
    ∃ x y, text = x ++ y ∧ LexTok cfg x t (y ++ tail) ∧ LexSeq cfg y ts tail := by
  generalize hts : t :: ts = tt at h
  cases h with
  | nil => cases hts
  | cons hx hy => cases hts; exact ⟨_, _, rfl, hx, hy⟩

theorem LexSeq.nil_inv {cfg : Cfg} {text : List Char} {tail : List Char} (h : LexSeq cfg text [] tail) : text = [] := by
  generalize hts : ([] : List Token) = tt at h
  cases h with
  | nil => rfl
  | cons hx hy => cases hts

/-- if `Token()` delivers another token first, the text does not lex to `t :: ts` -/
theorem not_lexSeq_of_first {cfg : Cfg} {text : List Char} {t t' : Token} {ts : List Token} {l' : Lexer}
    (h : lexToken cfg ⟨[], text, [], {}⟩ = .ok (t', l')) (hne : t' ≠ t) : ¬ LexSeq cfg text (t :: ts) [] := by
  intro hs
  obtain ⟨x, y, rfl, hx, _⟩ := hs.cons_inv
  obtain ⟨l'', e1, _⟩ := hx [] [] {}
  simp only [List.append_nil] at e1
  rw [h] at e1
  simp only [Except.ok.injEq, Prod.mk.injEq] at e1
  exact hne e1.1

def cexCfg : Cfg := { Cfg.ascii with upper := fun c => c = '∀' }
def cexEnv : Env := { cfg := cexCfg, fmtFloat := fun _ => ['0'], varName := fun n => '_' :: List.replicate (n + 1) 'G' }
def cexG : UInt64 → GText := fun _ => ⟨false, ['0'], [], none⟩
def cexOps : Table := [⟨"∀", 700, .xfx⟩]
def cexTerm : Term := .app "∀" (.cons (.atom "a") (.cons (.atom "b") .nil))

theorem cexEnv_ok : EnvOK cexEnv cexG (fun _ => false) := by
  refine ⟨fun _ => rfl, fun v => ⟨⟨_, rfl, ?_⟩, by simp [cexEnv]⟩, ?_, ?_, ?_, ?_⟩
  · intro x hx
    rw [List.eq_of_mem_replicate hx]
    rfl
  · intro v w h
    have := congrArg List.length h
    simp [cexEnv] at this
    exact this
  · intro b hb; cases hb
  · intro b hb; cases hb
  · intro b hb; cases hb

/-- without `CapOK`, `lexSeq_writeq` fails -/
theorem cex_capOK :
    EnvOK cexEnv cexG (fun _ => false) ∧ SignOK cexG (fun _ => false) ∧ tableOK cexOps = true ∧
    wfTerm cexTerm = true ∧ numsOK (fun _ => false) cexTerm = true ∧ noVAR cexTerm = true ∧
    writeq cexEnv cexOps cexTerm = ['a', '∀', 'b'] ∧
    ¬ LexSeq cexEnv.cfg (writeq cexEnv cexOps cexTerm ++ [' ', '.'])
        (qt cexEnv cexG cexTerm (qopts cexOps) ++ [⟨.end_, ['.']⟩]) [] := by
  have hw : writeq cexEnv cexOps cexTerm = ['a', '∀', 'b'] := by decide
  have hq : qt cexEnv cexG cexTerm (qopts cexOps) =
      [⟨.letterDigit, ['a']⟩, ⟨.graphic, ['∀']⟩, ⟨.letterDigit, ['b']⟩] := by decide
  have hs : SignOK cexG (fun _ => false) := fun b hb => by cases hb
  refine ⟨cexEnv_ok, hs, by decide, by decide, by decide, by decide, hw, ?_⟩
  rw [hw, hq]
  exact not_lexSeq_of_first (t' := ⟨.letterDigit, ['a', '∀', 'b']⟩)
    (l' := ⟨['b', '∀', 'a'], [' ', '.'], ['a', '∀', 'b'], _⟩) (by rfl) (by decide)

def cexOps2 : Table := [⟨"mod", 400, .yfx⟩]
def cexOpts2 : WOpts := { qopts cexOps2 with right := some ⟨400, .yfx, "mod"⟩ }
def cexEnv2 : Env := { cexEnv with cfg := Cfg.ascii }

/-- the statement of `lexSeq_qt` without `o.right = none` fails: the writer ends the term with a space -/
theorem cex_right :
    QOpts cexOps2 cexOpts2 ∧ TailOK cexEnv2 cexOpts2 ['}'] ∧ tableOK cexOps2 = true ∧
    writeTerm cexEnv2 (.atom "a") cexOpts2 = ['a', ' '] ∧
    ¬ LexSeq cexEnv2.cfg (writeTerm cexEnv2 (.atom "a") cexOpts2) (qt cexEnv2 cexG (.atom "a") cexOpts2) ['}'] := by
  have hw : writeTerm cexEnv2 (.atom "a") cexOpts2 = ['a', ' '] := by decide
  have hq : qt cexEnv2 cexG (.atom "a") cexOpts2 = [⟨.letterDigit, ['a']⟩] := by decide
  refine ⟨⟨rfl, rfl, rfl, rfl, by decide⟩, .inl (HeadIs.cons (by simp [Closer])), by decide, hw, ?_⟩
  rw [hw, hq]
  intro hs
  obtain ⟨x, y, hxy, hx, hy⟩ := hs.cons_inv
  have hy0 := hy.nil_inv
  subst hy0
  simp only [List.append_nil] at hxy
  subst hxy
  obtain ⟨l'', e1, e2⟩ := hx [] [] {}
  have h : lexToken cexEnv2.cfg ⟨[], ['a', ' '] ++ ([] ++ ['}']), [], {}⟩ =
      .ok (⟨.letterDigit, ['a']⟩, ⟨['a'], [' ', '}'], ['a'], ⟨1, 1, true⟩⟩) := by rfl
  rw [h] at e1
  simp only [Except.ok.injEq, Prod.mk.injEq] at e1
  rw [← e1.2] at e2
  simp at e2

end PrologVerif.Write
