/-
  C20 — loading defines clauses in source order; a failed load defines nothing.

  Property theorems only (helper lemmas: Proofs/Text.lean).  They are about `Model/Text.lean`, which
  mirrors engine/text.go `VM.Compile / VM.compile / text.flush / VM.directive /
  text.forEachUserDefined`; the tie to the source is the correspondence stream `c20.load`.  The
  reader is abstracted: a text is the list of its read results, so "for all `items`" ranges over
  every text with every fault at every position.  Directives run through an oracle `call` that
  may change the live procedure table; where a theorem needs side-effect freedom it says so.
-/
import PrologVerif.Proofs.TextContig
import PrologVerif.Proofs.Files
namespace PrologVerif.C20
open PrologVerif PrologVerif.Load
open PrologVerif.DB (PI)

/-! ### a failed load defines nothing -/

/-- **C20_staging_is_invisible**: everything `Compile` does before its commit loop — reading,
    staging, flushing, declarations, for every text, every fault, every fuel — changes the live
    procedure table only through the execution of directives: any property of the table that
    directive execution preserves still holds when staging ends (successfully or with an error).
    No clause of the text gets anywhere near the table. -/
theorem C20_staging_is_invisible (fs : FS) (call : Call) (P : Procs → Prop)
    (hcall : ∀ p g, P p → P (call p g).1) (fuel : Nat) (procs : Procs) (items : List Item) (hP : P procs) :
    P (stage fs call fuel procs items).1.procs :=
  stage_live fs call P hcall fuel procs items hP

/-- **C20_all_or_nothing**: with side-effect-free directives, a load that fails before the commit
    loop — a syntax error anywhere, a non-callable clause, a discontiguous predicate, a failing or
    erroring directive, a malformed declaration, a missing include file, for EVERY text and EVERY
    position of the fault — returns the error and leaves `procedures` EQUAL to its value before. -/
theorem C20_all_or_nothing (fs : FS) (call : Call) (hpure : ∀ p g, (call p g).1 = p)
    (fuel : Nat) (procs : Procs) (items : List Item) (e : LoadErr)
    (herr : (stage fs call fuel procs items).2 = some e) :
    Compile fs call fuel procs items = (procs, some e) := by
  have hlive := stage_live fs call (· = procs) (fun p g hp => by rw [hpure]; exact hp) fuel procs items rfl
  unfold Compile
  split
  · rename_i ls e' heq
    rw [heq] at herr hlive
    simp only [Option.some.injEq] at herr
    subst herr
    simp only at hlive
    rw [hlive]
  · rename_i ls heq
    rw [heq] at herr
    cases herr

/-- a successful staging, conversely, is followed by the commit and then by the initialization
    goals (the only errors that can be returned after something was committed) -/
theorem C20_commit_then_init (fs : FS) (call : Call) (fuel : Nat) (procs : Procs) (items : List Item)
    (hok : (stage fs call fuel procs items).2 = none) :
    Compile fs call fuel procs items =
      runGoals call (stage fs call fuel procs items).1.tx.goals
        (commit (stage fs call fuel procs items).1.procs (stage fs call fuel procs items).1.tx.clauses) := by
  unfold Compile
  split
  · rename_i ls e heq
    rw [heq] at hok
    cases hok
  · rename_i ls heq
    rw [heq]

/-! ### source order -/

/-- the text contains no `include/1` directive (for which the model splices the file's items in;
    the order theorems are stated over the items of one text) -/
def IncludeFree (items : List Item) : Prop := ∀ it ∈ items, isInclude it = false

/-- **C20_source_order**: when staging succeeds, what is staged for EVERY predicate is exactly the
    clauses the text has for it, in source order — a rule whose body has n top-level alternatives
    counting as n clauses — however the predicates are interleaved. -/
theorem C20_source_order (fs : FS) (call : Call) (fuel : Nat) (procs : Procs) (items : List Item)
    (hni : IncludeFree items) (hok : (stage fs call fuel procs items).2 = none) (pi : PI) :
    stagedClauses (stage fs call fuel procs items).1.tx pi = clausesFor (items.map classify) pi := by
  unfold stage at hok ⊢
  split at hok
  · cases hok
  · rename_i ls hloop
    split at hok
    · cases hok
    · rename_i tx hfl
      simp only
      have hb0 : BufOK Text.empty := bufOK_nil rfl
      obtain ⟨hb, hv⟩ := compileLoop_view fs call fuel items ⟨procs, Text.empty⟩ ls hni hb0 hloop
      obtain ⟨h1, _, h3⟩ := flush_view hfl hb
      have := h3 pi
      rw [hv pi] at this
      unfold view at this
      simp only [h1, List.filter_nil, List.map_nil, List.append_nil] at this
      rw [this]
      simp [stagedClauses, Text.empty, Table.get]

/-! ### declarations set exactly their flags -/

/-- **C20_flags**: when staging succeeds, the staged entry of EVERY predicate is dynamic /
    multifile / discontiguous exactly if the text declares it so (anywhere), and public exactly if
    dynamic; a predicate the text does not declare has none of the flags. -/
theorem C20_flags (fs : FS) (call : Call) (fuel : Nat) (procs : Procs) (items : List Item)
    (hni : IncludeFree items) (hok : (stage fs call fuel procs items).2 = none) (pi : PI) :
    let u := orEmpty ((stage fs call fuel procs items).1.tx.clauses.get pi)
    u.dynamic = declared (items.map classify) .dynamic pi ∧
    u.multifile = declared (items.map classify) .multifile pi ∧
    u.discontiguous = declared (items.map classify) .discontiguous pi ∧
    u.isPublic = u.dynamic := by
  unfold stage at hok ⊢
  split at hok
  · cases hok
  · rename_i ls hloop
    split at hok
    · cases hok
    · rename_i tx hfl
      simp only
      obtain ⟨h1, h2⟩ := compileLoop_flags fs call fuel items ⟨procs, Text.empty⟩ ls hni hloop
      obtain ⟨h3, h4⟩ := flush_flags hfl
      have h0 : ∀ fl, stagedFlag Text.empty fl pi = false := by
        intro fl; cases fl <;> simp [stagedFlag, flagVal, Text.empty, Table.get, orEmpty, UProc.empty]
      have hd := h3 .dynamic pi
      have hm := h3 .multifile pi
      have hc := h3 .discontiguous pi
      rw [h1, h0, Bool.false_or] at hd hm hc
      have hp : PublicOK tx := h4 (h2 (fun pi => by simp [Text.empty, Table.get, orEmpty, UProc.empty]))
      exact ⟨hd, hm, hc, hp pi⟩

/-! ### contiguity -/

/-- **C20_contiguity**: take any text whose items can fail for no other reason (every item reads
    as a clause, a well-formed declaration, an initialization directive or a goal directive that
    succeeds; `Benign`).  Then staging fails IF AND ONLY IF the text is not contiguous in the sense
    of the specification — some predicate has a later run of clauses (separated from the earlier
    one by a clause of another predicate or by any directive) that is not preceded by a
    discontiguous declaration for it — and the error is the contiguity error. -/
theorem C20_contiguity (fs : FS) (call : Call) (fuel : Nat) (procs : Procs) (items : List Item)
    (hfuel : items.length < fuel) (hb : ∀ it ∈ items, Benign call it) :
    ((stage fs call fuel procs items).2 = none ↔ contiguous (items.map classify) = true) ∧
    (∀ e, (stage fs call fuel procs items).2 = some e → ∃ pi, e = .discontiguous pi) := by
  obtain ⟨h1, h2⟩ := compileLoop_sim fs call fuel items ⟨procs, Text.empty⟩ ⟨none, [], []⟩ hfuel sim_empty hb
  unfold stage contiguous
  cases hsc : scanItems (items.map classify) ⟨none, [], []⟩ with
  | none =>
    obtain ⟨ls', pi, hloop⟩ := h1 hsc
    rw [hloop]
    simp only
    refine ⟨⟨?_, ?_⟩, ?_⟩
    · intro h; cases h
    · intro h; cases h
    · intro e he; exact ⟨pi, by simpa using he.symm⟩
  | some s' =>
    obtain ⟨ls', hloop, hsim⟩ := h2 s' hsc
    rw [hloop]
    simp only
    obtain ⟨f1, f2⟩ := flush_sim hsim
    cases he : endRun s' with
    | none =>
      obtain ⟨pi, hf⟩ := f1 he
      rw [hf]
      simp only [Option.isSome_none]
      refine ⟨⟨?_, ?_⟩, ?_⟩
      · intro h; cases h
      · intro h; cases h
      · intro e he; exact ⟨pi, by simpa using he.symm⟩
    | some s'' =>
      obtain ⟨tx', hf, _, _⟩ := f2 s'' he
      rw [hf]
      simp only [Option.isSome_some, true_and]
      intro e he
      cases he

/-- a decidable sufficient condition for `Benign`: not a fault, not an include, not a goal directive -/
def benignB (it : Item) : Bool :=
  match classify it with
  | .fault | .goal _ => false
  | _ => !isInclude it

theorem benign_of_benignB (call : Call) (it : Item) (h : benignB it = true) : Benign call it := by
  unfold benignB at h
  refine ⟨?_, ?_, ?_⟩
  · intro e; rw [e] at h; cases h
  · split at h <;> simp_all
  · intro p g e; rw [e] at h; cases h

/-! ### the commit: replace, or append when both are multifile; nothing else is touched -/

/-- **C20_commit**: after the commit loop, a predicate for which the text staged a definition
    `u` holds `u` — or the old clauses followed by `u`'s when the old definition and `u` are both
    multifile —, and every other predicate holds what it held. -/
theorem C20_commit (fs : FS) (call : Call) (fuel : Nat) (procs : Procs) (items : List Item) (pi : PI) :
    let ls := (stage fs call fuel procs items).1
    (commit ls.procs ls.tx.clauses).get pi =
      match ls.tx.clauses.get pi with
      | some u => some (newEntry (ls.procs.get pi) u)
      | none => ls.procs.get pi :=
  commit_get _ _ (stage_keys fs call fuel procs items) pi

/-- replaced … -/
example (e u : UProc) (h : e.multifile = false) : newEntry (some (.user e)) u = .user u := by
  simp [newEntry, h]
/-- … or appended -/
example (e u : UProc) (h1 : e.multifile = true) (h2 : u.multifile = true) :
    newEntry (some (.user e)) u = .user { e with clauses := e.clauses ++ u.clauses } := by
  simp [newEntry, h1, h2]

/-! ### directives run at their position, initialization goals after the commit, both in order -/

/-- **C20_directive_order**: when the read loop succeeds on an include-free text,
    (1) the live table is the result of running the text's GOAL directives, and only them, in
        source order, each on the table its predecessors left (no clause, declaration or
        initialization directive of the text contributes — a directive never sees the text's own
        clauses);
    (2) the deferred goals are the text's initialization directives in source order — and by
        `C20_commit_then_init` they run after the commit. -/
theorem C20_directive_order (fs : FS) (call : Call) (fuel : Nat) (procs : Procs) (items : List Item)
    (hni : IncludeFree items) (hok : (stage fs call fuel procs items).2 = none) :
    (stage fs call fuel procs items).1.procs = (items.map classify).foldl (liveStep call) procs ∧
    (stage fs call fuel procs items).1.tx.goals = (items.map classify).flatMap initOf := by
  unfold stage at hok ⊢
  split at hok
  · cases hok
  · rename_i ls hloop
    split at hok
    · cases hok
    · rename_i tx hfl
      simp only
      obtain ⟨h1, h2⟩ := compileLoop_order fs call fuel items ⟨procs, Text.empty⟩ ls hni hloop
      refine ⟨h2, ?_⟩
      rw [flush_goals hfl, h1]
      simp [Text.empty]

/-- initialization goals run in list order, each on the table its predecessors left; the first
    one that does not succeed ends the load with an error — after the commit -/
theorem C20_init_goals_in_order (call : Call) (g : Term) (gs : List Term) (ps : Procs) :
    runGoals call (g :: gs) ps =
      match call ps g with
      | (ps', .ok) => runGoals call gs ps'
      | (ps', .failed) => (ps', some .failedInit)
      | (ps', .raisedIso e) => (ps', some (.iso e))
      | (ps', .raisedBall t) => (ps', some (.ball t)) := by
  cases h : call ps g with
  | mk ps' r => cases r <;> simp [runGoals, h]

/-! ### non-vacuity -/

def pureCall : Call := fun p g => (p, if g = .atom "fail" then .failed else .ok)

/-- `a(1). b(1). a(2).` — two runs of a/1, not declared: fails, nothing defined -/
def demoBad : List Item :=
  [.term (Term.a1 "a" (.int 1)), .term (Term.a1 "b" (.int 1)), .term (Term.a1 "a" (.int 2))]

/-- the same after `:- discontiguous(a/1).`, then a syntax error at the very end -/
def demoSyntax : List Item :=
  .term (Term.a1 ":-" (Term.a1 "discontiguous" (Term.a2 "/" (.atom "a") (.int 1)))) :: demoBad ++ [.syntaxError]

def demoGood : List Item :=
  .term (Term.a1 ":-" (Term.a1 "discontiguous" (Term.a2 "/" (.atom "a") (.int 1)))) :: demoBad

example : (stage (fun _ => none) pureCall 100 [] demoBad).2 = some (.discontiguous ⟨"a", 1⟩) := by
  decide +kernel
example : (stage (fun _ => none) pureCall 100 [] demoSyntax).2 = some .syntax := by decide +kernel
example : Compile (fun _ => none) pureCall 100 [] demoSyntax = ([], some .syntax) :=
  C20_all_or_nothing _ _ (fun _ _ => rfl) _ _ _ _ (by decide +kernel)
example : (stage (fun _ => none) pureCall 100 [] demoGood).2 = none := by decide +kernel
example : stagedClauses (stage (fun _ => none) pureCall 100 [] demoGood).1.tx ⟨"a", 1⟩ =
    [Term.a1 "a" (.int 1), Term.a1 "a" (.int 2)] := by decide +kernel
example : IncludeFree demoGood := by unfold IncludeFree; decide
example : ∀ it ∈ demoGood, Benign pureCall it := by
  have : ∀ it ∈ demoGood, benignB it = true := by decide +kernel
  exact fun it hit => benign_of_benignB _ it (this it hit)
example : contiguous (demoGood.map classify) = true := by decide +kernel
example : contiguous (demoBad.map classify) = false := by decide +kernel

/-! ## loading FILES: `vm.loaded`, consult/1, ensure_loaded/1 over a changing file system

  `Model/Files.lean`: `ensureLoaded`, `consultAll`, `compileV` … with policy `.code` mirror
  engine/text.go `VM.ensureLoaded / VM.open / Consult`; policy `.spec` is the specification in which
  a name is registered only when its load has succeeded.  A history is any list of steps: write
  or remove a file, `?- consult(Arg).`, Exec of a text — whose texts may load further files, nested,
  recursively or mutually. -/

section Files
open PrologVerif.Files

/-- **C20_file_loads_refine_spec**: for ALL histories (any file contents AND ANY FAULT PLANS —
    open errors, read errors after any number of items, directories —, broken, repaired or
    changed between any two steps; any nesting of loads; any fuel; any evaluator of ordinary
    goals) the model of the code — which registers a file before compiling it and unregisters it
    when the load fails — returns at every step the result of the specification — in which a
    failed load cannot leave a trace because a name is registered only on success —, ends with the
    same procedure table, and has registered exactly the files the specification has loaded. -/
theorem C20_file_loads_refine_spec (ev : Eval) (fuel : Nat) (steps : List Files.Step) :
    (run .code ev fuel World.empty steps).2 = (run .spec ev fuel World.empty steps).2 ∧
    (run .code ev fuel World.empty steps).1.vm.procs = (run .spec ev fuel World.empty steps).1.vm.procs ∧
    ∀ f, f ∈ (run .code ev fuel World.empty steps).1.vm.loaded ↔
         f ∈ (run .spec ev fuel World.empty steps).1.vm.loaded := by
  obtain ⟨h1, h2⟩ := run_refines ev fuel World.empty World.empty wrel_empty steps
  refine ⟨h1, h2.vm.procs, fun f => ?_⟩
  rw [h2.vm.mem f, h2.idle]
  simp

/-- **C20_failed_load_leaves_no_trace**: in the model of the code, whenever a load of a file (found
    under the name `f`) returns an error — whatever the fault and wherever it is, in this file or
    in one it loads —, `f` is NOT registered afterwards, and every name that was registered before
    still is. -/
theorem C20_failed_load_leaves_no_trace (fs : FileSys) (ev : Eval) (fuel : Nat) (vm : VM) (file : Term)
    (f : String) (items : List Item) (e : LoadErr)
    (hopen : openFile fs file = .ok (f, items))
    (herr : (ensureLoaded .code fs ev (fuel + 1) vm file).2 = some e) :
    f ∉ (ensureLoaded .code fs ev (fuel + 1) vm file).1.loaded ∧
    ∀ x, x ∈ vm.loaded → x ∈ (ensureLoaded .code fs ev (fuel + 1) vm file).1.loaded := by
  refine ⟨?_, fun x hx => (mono_all fs ev (fuel + 1)).1 vm file x hx⟩
  rw [ensureLoaded] at herr ⊢
  simp only [hopen] at herr ⊢
  by_cases hin : f ∈ vm.loaded
  · simp [hin] at herr
  · simp only [hin, if_false] at herr ⊢
    generalize compileV .code fs ev fuel { vm with loaded := f :: vm.loaded } items = r at herr ⊢
    obtain ⟨vm', e'⟩ := r
    cases e' with
    | none => simp at herr
    | some e' => simp

/-- **C20_retry_is_first_load**: a file that is not registered — in particular (previous theorem)
    one whose last load failed — is loaded like a file never seen before: its CURRENT content, in
    whatever file system the history has produced by then, is compiled (it is not skipped). -/
theorem C20_retry_is_first_load (fs : FileSys) (ev : Eval) (fuel : Nat) (vm : VM) (file : Term)
    (f : String) (items : List Item) (hopen : openFile fs file = .ok (f, items)) (hnot : f ∉ vm.loaded) :
    ensureLoaded .code fs ev (fuel + 1) vm file =
      match compileV .code fs ev fuel { vm with loaded := f :: vm.loaded } items with
      | (vm', some e) => ({ vm' with loaded := vm'.loaded.filter (· ≠ f) }, some e)
      | (vm', none) => (vm', none) := by
  rw [ensureLoaded]
  simp only [hopen, hnot, if_false]
  generalize compileV .code fs ev fuel { vm with loaded := f :: vm.loaded } items = r
  obtain ⟨vm', e'⟩ := r
  cases e' <;> rfl

/-- **C20_ensure_loaded_idempotent**: a load that succeeds leaves the file registered, and
    loading a registered file (consult/1 or ensure_loaded/1, under any spelling that finds the
    same file) is a no-op: nothing is read, nothing changes. -/
theorem C20_ensure_loaded_idempotent (fs : FileSys) (ev : Eval) (fuel : Nat) (vm : VM) (file : Term)
    (f : String) (items : List Item) (hopen : openFile fs file = .ok (f, items)) :
    ((ensureLoaded .code fs ev (fuel + 1) vm file).2 = none →
      f ∈ (ensureLoaded .code fs ev (fuel + 1) vm file).1.loaded) ∧
    (f ∈ vm.loaded → ensureLoaded .code fs ev (fuel + 1) vm file = (vm, none)) := by
  constructor
  · intro hok
    rw [ensureLoaded] at hok ⊢
    simp only [hopen] at hok ⊢
    by_cases hin : f ∈ vm.loaded
    · simp [hin]
    · simp only [hin, if_false] at hok ⊢
      have := (mono_all fs ev fuel).2.2.2.2 { vm with loaded := f :: vm.loaded } items f (by simp)
      generalize compileV .code fs ev fuel { vm with loaded := f :: vm.loaded } items = r at hok this ⊢
      obtain ⟨vm', e'⟩ := r
      cases e' with
      | none => exact this
      | some e' => simp at hok
  · intro hin
    rw [ensureLoaded]
    simp [hopen, hin]

/-- **C20_loaded_persists**: over any history, a registered file stays registered (so a
    successfully loaded file is never read again, whatever happens to it on disk — consult/1 in
    this engine is load-once) -/
theorem C20_loaded_persists (ev : Eval) (fuel : Nat) (w : World) (steps : List Files.Step) (f : String)
    (h : f ∈ w.vm.loaded) : f ∈ (run .code ev fuel w steps).1.vm.loaded := by
  induction steps generalizing w with
  | nil => exact h
  | cons st steps ih =>
    simp only [run]
    apply ih
    cases st with
    | write n items => exact h
    | remove n => exact h
    | consult arg => exact (mono_all w.fs ev fuel).2.1 w.vm (fileNames arg) f h
    | exec items => exact (mono_all w.fs ev fuel).2.2.2.2 w.vm items f h

/-! ### faulty file systems: read errors

  A `Files.Step.write` carries the file's FAULT PLAN, so every theorem above that quantifies over
  `fs : FileSys` or over histories already quantifies over all fault plans (open fails, read fails
  after any number of items, inside a clause or on a clause boundary, the name is a directory),
  changing arbitrarily between the steps. -/

/-- a candidate with ANY fault — `Open` fails, the name is a directory, `Read` fails after `k`
    items for every `k`, inside a clause or exactly on a clause boundary — is not usable, however
    much of it `fs.ReadFile` handed back -/
theorem C20_faulty_candidate_is_skipped (fs : FileSys) (n : String) (fl : File)
    (hread : fs.read n = some fl) (hfault : fl.fault ≠ .none) : tryCandidate fs n = none := by
  unfold tryCandidate readFile
  rw [hread]
  cases hf : fl.fault with
  | none => exact absurd hf hfault
  | openFails => simp [hf]
  | readFails k inside => simp [hf]
  | directory => simp [hf]

/-- **C20_no_partial_text**: the text `VM.open` hands to the loader is never a proper prefix (nor
    any other part) of a file: it is the WHOLE content of the file found, and that file was read
    without error — for every file system and every fault plan. -/
theorem C20_no_partial_text (fs : FileSys) (file : Term) (f : String) (items : List Item)
    (hopen : openFile fs file = .ok (f, items)) :
    ∃ fl, fs.read f = some fl ∧ fl.fault = .none ∧ items = fl.content := by
  have key : ∀ n its, tryCandidate fs n = some its →
      ∃ fl, fs.read n = some fl ∧ fl.fault = .none ∧ its = fl.content := by
    intro n its h
    unfold tryCandidate at h
    cases hr : fs.read n with
    | none => simp [hr] at h
    | some fl =>
      simp only [hr] at h
      unfold readFile at h
      cases hf : fl.fault with
      | none =>
        simp only [hf, Option.some.injEq] at h
        exact ⟨fl, rfl, hf, h.symm⟩
      | openFails => simp [hf] at h
      | readFails k inside => simp [hf] at h
      | directory => simp [hf] at h
  unfold Files.openFile at hopen
  split at hopen
  · cases hopen
  · rename_i s
    cases h1 : tryCandidate fs s with
    | some its =>
      simp only [h1, Except.ok.injEq, Prod.mk.injEq] at hopen
      obtain ⟨rfl, rfl⟩ := hopen
      exact key _ _ h1
    | none =>
      simp only [h1] at hopen
      cases h2 : tryCandidate fs (s ++ ".pl") with
      | some its =>
        simp only [h2, Except.ok.injEq, Prod.mk.injEq] at hopen
        obtain ⟨rfl, rfl⟩ := hopen
        exact key _ _ h2
      | none => simp [h2] at hopen
  · cases hopen

/-- **C20_read_fault_is_load_failure**: when no candidate name can be read completely — absent or
    faulty in any way — the load (both in the model of the code and in the specification) raises
    existence_error(source_sink, File) and the WHOLE VM state, procedure table and registrations,
    is exactly as before: nothing of what was read before the error is compiled, nothing is
    registered. -/
theorem C20_read_fault_is_load_failure (pol : Policy) (fs : FileSys) (ev : Eval) (fuel : Nat) (vm : VM) (s : String)
    (h1 : tryCandidate fs s = none) (h2 : tryCandidate fs (s ++ ".pl") = none) :
    ensureLoaded pol fs ev (fuel + 1) vm (.atom s) =
      (vm, some (.iso (existenceErr "source_sink" (.atom s)))) := by
  rw [ensureLoaded]
  simp [Files.openFile, h1, h2]

/-! non-vacuity: the outside tester's scenario — consult a broken lib, repair it, consult again -/

def libBroken : List Item := [.term (Term.a1 "lib" (.int 1)), .syntaxError, .term (Term.a1 "lib" (.int 3))]
def libFixed : List Item := [.term (Term.a1 "lib" (.int 1)), .term (Term.a1 "lib" (.int 2))]
def demoFiles : List Files.Step :=
  [ .write "lib.pl" ⟨libBroken, .none⟩, .consult (.atom "lib"), .consult (.atom "lib"),
    .write "lib.pl" ⟨libFixed, .none⟩, .consult (.atom "lib"), .write "lib.pl" ⟨libBroken, .none⟩,
    .consult (.atom "lib.pl") ]

example : (run .code (fun _ _ => .ok) 50 World.empty demoFiles).2 =
    [none, some .syntax, some .syntax, none, none, none, none] := by decide +kernel
example : (run .code (fun _ _ => .ok) 50 World.empty demoFiles).1.vm.loaded = ["lib.pl"] := by decide +kernel

/-- facts.pl = q(a). q(b). q(c). r(a). whose read fails after q(b): the load fails, q/1 keeps its old
    clause, nothing is registered; after the repair the whole file is loaded -/
def factsItems : List Item :=
  [.term (Term.a1 "q" (.atom "a")), .term (Term.a1 "q" (.atom "b")), .term (Term.a1 "q" (.atom "c")),
   .term (Term.a1 "r" (.atom "a"))]
def demoReadFault : List Files.Step :=
  [ .exec [.term (Term.a1 "q" (.atom "old"))], .write "facts.pl" ⟨factsItems, .readFails 2 false⟩,
    .consult (.atom "facts"), .write "facts.pl" ⟨factsItems, .none⟩, .consult (.atom "facts") ]
example : (run .code (fun _ _ => .ok) 50 World.empty (demoReadFault.take 3)).2 =
    [none, none, some (.iso (existenceErr "source_sink" (.atom "facts")))] := by decide +kernel
example : ((run .code (fun _ _ => .ok) 50 World.empty (demoReadFault.take 3)).1.vm.procs.get ⟨"q", 1⟩) =
    some (.user ⟨false, false, false, false, [Term.a1 "q" (.atom "old")]⟩) := by decide +kernel
example : (run .code (fun _ _ => .ok) 50 World.empty (demoReadFault.take 3)).1.vm.loaded = [] := by decide +kernel
example : ((run .code (fun _ _ => .ok) 50 World.empty demoReadFault).1.vm.procs.get ⟨"q", 1⟩) =
    some (.user ⟨false, false, false, false,
      [Term.a1 "q" (.atom "a"), Term.a1 "q" (.atom "b"), Term.a1 "q" (.atom "c")]⟩) := by decide +kernel
example : stagedClauses ⟨[], [], []⟩ ⟨"lib", 1⟩ = [] := rfl
example : ((run .code (fun _ _ => .ok) 50 World.empty demoFiles).1.vm.procs.get ⟨"lib", 1⟩) =
    some (.user ⟨false, false, false, false, [Term.a1 "lib" (.int 1), Term.a1 "lib" (.int 2)]⟩) := by
  decide +kernel

end Files

end PrologVerif.C20
