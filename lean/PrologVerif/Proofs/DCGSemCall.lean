/-
  Proofs/DCGSemCall — calls: resolving a translated non-terminal with the translated rules
  corresponds to trying the rules in the denotation; and the induction on the fuel.
-/
import PrologVerif.Proofs.DCGSem
namespace PrologVerif.Grammar
open PrologVerif

/-! ### renaming apart does nothing to ground terms and shifts the hidden variables -/

mutual
  theorem renameT_ground (k : Nat) : (t : Term) → groundT t = true → renameT k t = t
    | .var _, h => by simp [groundT] at h
    | .app f as, h => by
      simp only [renameT]
      rw [renameA_ground k as (by simpa [groundT] using h)]
    | .atom _, _ => rfl
    | .int _, _ => rfl
    | .flt _, _ => rfl
    | .str _, _ => rfl
  theorem renameA_ground (k : Nat) : (as : Args) → groundA as = true → renameA k as = as
    | .nil, _ => rfl
    | .cons t ts, h => by
      simp only [groundA, Bool.and_eq_true] at h
      simp only [renameA]
      rw [renameT_ground k t h.1, renameA_ground k ts h.2]
end

theorem renameL_ground (k : Nat) (ts : List Term) (h : ∀ t ∈ ts, groundT t = true) :
    ts.map (renameT k) = ts := by
  induction ts with
  | nil => rfl
  | cons t ts ih =>
    simp only [List.map_cons]
    rw [renameT_ground k t (h t (by simp)), ih (fun t ht => h t (by simp [ht]))]

theorem renameT_a2 (k : Nat) (f : String) (x y : Term) :
    renameT k (Term.a2 f x y) = Term.a2 f (renameT k x) (renameT k y) := by
  simp [Term.a2, renameT, renameA]

theorem renameT_list (k : Nat) (s : Term) : ∀ ts : List Term,
    renameT k (Term.list ts s) = Term.list (ts.map (renameT k)) (renameT k s)
  | [] => by simp [Term.list]
  | t :: ts => by
    have ih := renameT_list k s ts
    simp only [Term.list, List.foldr_cons, List.map_cons] at ih ⊢
    simp [Term.consT, renameT, renameA, ih]

/-- renaming a translated simple body apart = translating with the renamed hidden arguments and
    the shifted supply -/
theorem tr_rename (k : Nat) (b : Body) (hb : b.simple = true) :
    ∀ (i o : Term) (n : Nat), renameT k (b.tr i o n).1 = (b.tr (renameT k i) (renameT k o) (n + k)).1 := by
  induction b with
  | eps => intro i o n; simp [Body.tr, renameT_a2]
  | terminals ts =>
    intro i o n
    simp only [Body.simple, List.all_eq_true] at hb
    simp [Body.tr, renameT_a2, renameT_list, renameL_ground k ts hb]
  | nt f as =>
    intro i o n
    simp only [Body.simple, Bool.and_eq_true, List.isEmpty_iff] at hb
    obtain ⟨rfl, _⟩ := hb
    simp [Body.tr, Term.mk, Args.ofList, renameT, renameA]
  | seq a b iha ihb =>
    intro i o n
    simp only [Body.simple, Bool.and_eq_true] at hb
    simp only [Body.tr, tr_next, renameT_a2, iha hb.1, ihb hb.2]
    simp [renameT, Nat.add_assoc, Nat.add_comm]
  | alt a b iha ihb =>
    intro i o n
    simp only [Body.simple, Bool.and_eq_true] at hb
    simp only [Body.tr, tr_next, renameT_a2, iha hb.1.1, ihb hb.1.2]
    rw [Nat.add_right_comm n a.nhid k]
  | ite c t e ihc iht ihe =>
    intro i o n
    simp only [Body.simple, Bool.and_eq_true] at hb
    simp only [Body.tr, tr_next, renameT_a2, ihc hb.1.1, iht hb.1.2, ihe hb.2]
    simp [renameT, Nat.add_assoc, Nat.add_comm, Nat.add_left_comm]
  | ifthen c t ihc iht =>
    intro i o n
    simp only [Body.simple, Bool.and_eq_true] at hb
    simp only [Body.tr, tr_next, renameT_a2, ihc hb.1, iht hb.2]
    simp [renameT, Nat.add_assoc, Nat.add_comm, Nat.add_left_comm]
  | block g =>
    intro i o n
    simp only [Body.simple, blockGoal, Bool.or_eq_true, beq_iff_eq] at hb
    rcases hb with ((rfl | rfl) | rfl) | rfl <;> simp [Body.tr, renameT_a2, renameT]
  | not b ih =>
    intro i o n
    simp only [Body.simple] at hb
    simp only [Body.tr, renameT_a2, Term.a1, renameT, renameA, ih hb]
    simp [Nat.add_assoc, Nat.add_comm, Nat.add_left_comm]
  | cut => intro i o n; simp [Body.tr, renameT_a2, renameT]
  | _ => simp [Body.simple] at hb

theorem rename_simple (k : Nat) (b : Body) (hb : b.simple = true) : b.rename k = b := by
  induction b with
  | eps => rfl
  | terminals ts =>
    simp only [Body.simple, List.all_eq_true] at hb
    simp [Body.rename, renameL_ground k ts hb]
  | nt f as =>
    simp only [Body.simple, Bool.and_eq_true, List.isEmpty_iff] at hb
    obtain ⟨rfl, _⟩ := hb
    simp [Body.rename]
  | seq a b iha ihb =>
    simp only [Body.simple, Bool.and_eq_true] at hb
    simp [Body.rename, iha hb.1, ihb hb.2]
  | alt a b iha ihb =>
    simp only [Body.simple, Bool.and_eq_true] at hb
    simp [Body.rename, iha hb.1.1, ihb hb.1.2]
  | ite c t e ihc iht ihe =>
    simp only [Body.simple, Bool.and_eq_true] at hb
    simp [Body.rename, ihc hb.1.1, iht hb.1.2, ihe hb.2]
  | ifthen c t ihc iht =>
    simp only [Body.simple, Bool.and_eq_true] at hb
    simp [Body.rename, ihc hb.1, iht hb.2]
  | block g =>
    simp only [Body.simple, blockGoal, Bool.or_eq_true, beq_iff_eq] at hb
    rcases hb with ((rfl | rfl) | rfl) | rfl <;> simp [Body.rename, renameT]
  | not b ih =>
    simp only [Body.simple] at hb
    simp [Body.rename, ih hb]
  | cut => rfl
  | _ => simp [Body.simple] at hb

theorem Rule.simple_iff (r : Rule) : r.simple = true ↔
    r.args = [] ∧ (∀ pb, r.pushback = some pb → ∀ t ∈ pb, groundT t = true) ∧ r.body.simple = true ∧
      r.nv = 0 ∧ reserved.contains r.name = false := by
  unfold Rule.simple
  cases r.pushback <;> simp [List.isEmpty_iff, and_assoc]

/-- the clause of a simple rule -/
theorem clause_simple (r : Rule) (hr : r.simple = true) :
    r.clause = { head := .app r.name (.cons (.var 0) (.cons (.var 2) .nil)),
                 body := (match r.pushback with
                   | none => (r.body.tr (.var 0) (.var 2) 3).1
                   | some pb => Term.a2 "," (r.body.tr (.var 0) (.var 1) 3).1
                       (Term.a2 "=" (.var 2) (Term.list pb (.var 1)))),
                 nv := 3 + r.body.nhid } := by
  obtain ⟨ha, _, _, hn, _⟩ := (Rule.simple_iff r).1 hr
  cases hp : r.pushback <;>
    simp [Rule.clause, Rule.tr, ha, hp, hn, Term.mk, Args.ofList, Term.a2, tr_next]

/-! ### head unification -/

theorem unify_head (uf : Nat) (huf : 2 ≤ uf) (σ : Subst) (f : String) (x : Term) (s k : Nat)
    (hx : isVar (walk σ x) = false) (hs : ∀ p ∈ σ, p.1 ≠ s)
    (hk : ∀ p ∈ σ, p.1 < k) (hsk : s < k) :
    unify uf σ (.app f (.cons x (.cons (.var s) .nil))) (.app f (.cons (.var k) (.cons (.var (k + 2)) .nil))) =
      .done (some ((s, .var (k + 2)) :: (k, walk σ x) :: σ)) := by
  obtain ⟨j, rfl⟩ : ∃ j, uf = j + 2 := ⟨uf - 2, by omega⟩
  have hk0 : ∀ p ∈ σ, p.1 ≠ k := fun p hp => by have := hk p hp; omega
  have h1 := unify_nonvar_var j σ x _ k rfl hx hk0
  have hs1 : ∀ p ∈ (k, walk σ x) :: σ, p.1 ≠ s := by
    intro p hp
    rcases List.mem_cons.1 hp with rfl | hp
    · simp; omega
    · exact hs p hp
  have hk2 : ∀ p ∈ (k, walk σ x) :: σ, p.1 ≠ k + 2 := by
    intro p hp
    rcases List.mem_cons.1 hp with rfl | hp
    · simp
    · have := hk p hp; omega
  have h2 := unify_var_var j ((k, walk σ x) :: σ) s (k + 2) (by omega) hs1 hk2
  unfold unify
  rw [walk_nonvar σ _ rfl, walk_nonvar σ _ rfl]
  simp [unifyArgsWith, h1, h2]

theorem unify_var_nonvar (k : Nat) (σ : Subst) (a : Nat) (u : Term)
    (ha : ∀ p ∈ σ, p.1 ≠ a) (hu : isVar (walk σ u) = false) :
    unify (k + 1) σ (.var a) u = .done (some ((a, walk σ u) :: σ)) := by
  unfold unify
  rw [walk_unbound σ a ha]
  cases h : walk σ u <;> simp_all [isVar]

theorem Denotes.of_walk_eq {σ : Subst} {t t' : Term} {l : List Term} (h : Denotes σ t' l)
    (e : walk σ t = walk σ t') : Denotes σ t l := by
  cases h with
  | nil hw => exact .nil (e.trans hw)
  | cons hw hg ht => exact .cons (e.trans hw) hg ht

theorem Denotes.prepend {σ : Subst} {tl : Term} {r : List Term} (h : Denotes σ tl r) :
    ∀ pb : List Term, (∀ t ∈ pb, groundT t = true) → Denotes σ (Term.list pb tl) (pb ++ r)
  | [], _ => h
  | p :: pb, hp =>
    .cons (PrologVerif.Grammar.walk_nonvar σ _ rfl) (hp p (by simp))
      (Denotes.prepend h pb (fun t ht => hp t (by simp [ht])))

theorem list_append (pb r : List Term) :
    Term.list pb (Term.list r Term.nilT) = Term.list (pb ++ r) Term.nilT := by
  simp [Term.list, List.foldr_append]

theorem All2.map {α β γ δ : Type} {R : α → β → Prop} {S : γ → δ → Prop} {as : List α} {bs : List β}
    (f : α → γ) (g : β → δ) (h : All2 R as bs) (hfg : ∀ a b, R a b → S (f a) (g b)) :
    All2 S (as.map f) (bs.map g) := by
  induction h with
  | nil => exact .nil
  | cons r _ ih => exact .cons (hfg _ _ r) ih

theorem All2.forall_left {α β : Type} {R : α → β → Prop} {as : List α} {bs : List β} (p : α → Prop)
    (h : All2 R as bs) (hp : ∀ a b, R a b → p a) : ∀ a ∈ as, p a := by
  induction h with
  | nil => intro a ha; simp at ha
  | cons r _ ih =>
    intro a ha
    rcases List.mem_cons.1 ha with rfl | ha
    · exact hp _ _ r
    · exact ih a ha

/-- a step that turns every answer into exactly one answer -/
theorem sAndThen_single (k : St → Res SOut) (f : St → St) :
    ∀ As : List St, (∀ st' ∈ As, k st' = .ok ⟨[f st'], false⟩) → sAndThen k As = .ok ⟨As.map f, false⟩
  | [], _ => rfl
  | st' :: As, h => by
    have h1 := h st' (by simp)
    have h2 := sAndThen_single k f As (fun st'' hs => h st'' (by simp [hs]))
    simp [sAndThen, h1, h2]

/-! ### rules -/

/-- the statement at one fuel level -/
def LevelSim (cfg : Cfg) (gr : Grammar) (n : Nat) : Prop :=
  ∀ (b : Body), b.simple = true → b.need ≤ cfg.uf →
    ∀ (top : Bool) (st dst : St) (x : Term) (l : List Term) (s m : Nat),
      Pre st x l s m (m + b.nhid) →
      Rel st s m (m + b.nhid) dst (solve cfg.uf (programOf gr) n (b.tr x (.var s) m).1 st)
        (den cfg gr n top b dst (Term.list l Term.nilT))

def RelL (st : St) (s : Nat) (dst : St) : Res (List St) → Res (List (St × Term)) → Prop
  | .error _, .error _ => True
  | .ok A, .ok D => All2 (AnsRel st s 0 0 dst) A D
  | _, _ => False

def GoodRule (cfg : Cfg) (r : Rule) : Prop := r.simple = true ∧ r.body.need ≤ cfg.uf

/-- the state after unifying a call `f(x, S)` with the renamed head `f(S0', S')` -/
def afterHead (st : St) (x : Term) (s nh : Nat) : St :=
  { σ := (s, .var (st.next + 2)) :: (st.next, walk st.σ x) :: st.σ, next := st.next + (3 + nh) }

theorem afterHead_pre {st : St} {x : Term} {l : List Term} {s : Nat} (P : Pre st x l s 0 0) (nh o : Nat)
    (ho : o = st.next + 1 ∨ o = st.next + 2) :
    Pre (afterHead st x s nh) (.var st.next) l o (st.next + 3) (st.next + 3 + nh) := by
  have hk0 : ∀ p ∈ st.σ, p.1 ≠ st.next := fun p hp => by have := P.wf p hp; omega
  have hmem : ∀ p ∈ (afterHead st x s nh).σ, p.1 = s ∨ p.1 = st.next ∨ p ∈ st.σ := by
    intro p hp
    simp only [afterHead, List.mem_cons] at hp
    rcases hp with rfl | rfl | hp
    · exact .inl rfl
    · exact .inr (.inl rfl)
    · exact .inr (.inr hp)
  have hlt : ∀ p ∈ (afterHead st x s nh).σ, p.1 ≤ st.next := by
    intro p hp
    rcases hmem p hp with h | h | h
    · have := P.sLt; omega
    · omega
    · have := P.wf p h; omega
  refine ⟨?_, ?_, ?_, ?_, ?_, ?_, ?_⟩
  · have h1 : Denotes ((st.next, walk st.σ x) :: st.σ) (.var st.next) l :=
      Denotes.of_bind st.next P.inp.walked P.inp.walk_nonvar hk0
    exact h1.cons_bind _
  · intro p hp; have := hlt p hp; omega
  · intro p hp; have := hlt p hp; omega
  · simp [afterHead]; omega
  · simp [afterHead]; omega
  · omega
  · intro p hp; have := hlt p hp; simp [afterHead]; omega

/-- an answer obtained inside the clause, seen from the caller -/
theorem ans_to_caller {st : St} {x : Term} {l : List Term} {s : Nat} (P : Pre st x l s 0 0) (nh : Nat)
    (dst st' : St) (r : List Term)
    (hn : (afterHead st x s nh).next ≤ st'.next) (hwf : ∀ p ∈ st'.σ, p.1 < st'.next)
    (hΔ : ∃ Δ, st'.σ = Δ ++ (afterHead st x s nh).σ ∧ ∀ p ∈ Δ, st.next + 1 ≤ p.1 ∧ p.1 < st'.next)
    (hd : Denotes st'.σ (.var (st.next + 2)) r) :
    AnsRel st s 0 0 dst st' (dst, Term.list r Term.nilT) := by
  obtain ⟨Δ, e1, g1⟩ := hΔ
  have hs2 : ∀ p ∈ (st.next, walk st.σ x) :: st.σ, p.1 ≠ s := by
    intro p hp
    rcases List.mem_cons.1 hp with rfl | hp
    · simp; have := P.sLt; omega
    · exact P.sUnb p hp
  have hw1 : walk (afterHead st x s nh).σ (.var s) = .var (st.next + 2) := walk_bind _ _ _ hs2
  have hw2 : walk (afterHead st x s nh).σ (.var (st.next + 2)) = .var (st.next + 2) :=
    walk_unbound _ _ (afterHead_pre P nh (st.next + 2) (.inr rfl)).sUnb
  refine ⟨rfl, r, rfl, ?_, ?_⟩
  · refine hd.of_walk_eq ?_
    rw [e1, walk_append, walk_append, hw1, hw2]
  · have hnn : st.next + (3 + nh) ≤ st'.next := hn
    refine ⟨by omega, hwf, Δ ++ [(s, .var (st.next + 2)), (st.next, walk st.σ x)], ?_, ?_⟩
    · rw [e1]; simp [afterHead]
    · intro p hp
      rcases List.mem_append.1 hp with hp | hp
      · have := g1 p hp
        exact .inr (.inr ⟨by omega, this.2⟩)
      · simp only [List.mem_cons, List.mem_nil_iff, or_false] at hp
        rcases hp with rfl | rfl
        · exact .inl rfl
        · exact .inr (.inr ⟨Nat.le_refl _, by simp; omega⟩)

/-- the frame of an answer inside the clause, in the form `ans_to_caller` wants -/
theorem ext_inside {st2 st' : St} {o lo hi k : Nat} (h : Ext st2 o lo hi st') (ho : k + 1 ≤ o)
    (hlo : k + 1 ≤ lo) (hlt : o < st2.next) (hk : k + 1 ≤ st2.next) (hhi : hi ≤ st2.next) :
    ∃ Δ, st'.σ = Δ ++ st2.σ ∧ ∀ p ∈ Δ, k + 1 ≤ p.1 ∧ p.1 < st'.next := by
  obtain ⟨n1, _, Δ, e, f⟩ := h
  refine ⟨Δ, e, fun p hp => ?_⟩
  rcases f p hp with h | h | h <;> omega

/-- one rule: the body of its clause, run after the head unification, and the body of the rule in
    the denotation followed by the push-back -/
theorem rule_sim (cfg : Cfg) (huf : 2 ≤ cfg.uf) (gr : Grammar) (n : Nat) (L : LevelSim cfg gr n)
    (st dst : St) (x : Term) (l : List Term) (s : Nat) (P : Pre st x l s 0 0)
    (r : Rule) (hr : GoodRule cfg r) :
    match solve cfg.uf (programOf gr) n (renameT st.next r.clause.body) (afterHead st x s r.body.nhid),
          den cfg gr n r.pushback.isNone r.body dst (Term.list l Term.nilT) with
    | .error _, .error _ => True
    | .ok A, .ok D =>
      A.cut = D.cut ∧
      All2 (AnsRel st s 0 0 dst) A.answers
        (match r.pushback with
         | none => D.answers
         | some pb => D.answers.map (fun a => (a.1, Term.list pb a.2)))
    | _, _ => False := by
  obtain ⟨hsimple, hneed⟩ := hr
  obtain ⟨_, hpbg, hbody, _, _⟩ := (Rule.simple_iff r).1 hsimple
  have hst2n : (afterHead st x s r.body.nhid).next = st.next + (3 + r.body.nhid) := rfl
  rw [clause_simple r hsimple]
  cases hpb : r.pushback with
  | none =>
    simp only [Option.isNone_none]
    have hbodyR : renameT st.next (r.body.tr (.var 0) (.var 2) 3).1 =
        (r.body.tr (.var st.next) (.var (st.next + 2)) (st.next + 3)).1 := by
      rw [tr_rename st.next r.body hbody]
      simp [renameT, Nat.add_comm]
    rw [hbodyR]
    have Pb := afterHead_pre P r.body.nhid (st.next + 2) (.inr rfl)
    have hL := L r.body hbody hneed true _ dst (.var st.next) l (st.next + 2) (st.next + 3) Pb
    cases hx : solve cfg.uf (programOf gr) n (r.body.tr (.var st.next) (.var (st.next + 2)) (st.next + 3)).1
        (afterHead st x s r.body.nhid) with
    | error e =>
      cases hy : den cfg gr n true r.body dst (Term.list l Term.nilT) with
      | error e' => trivial
      | ok od => simp [hx, hy, Rel] at hL
    | ok o =>
      cases hy : den cfg gr n true r.body dst (Term.list l Term.nilT) with
      | error e' => simp [hx, hy, Rel] at hL
      | ok od =>
        simp only [hx, hy, Rel] at hL
        refine ⟨hL.1, hL.2.imp (fun st' a h => ?_)⟩
        obtain ⟨f1, r', f2, f4, f5⟩ := h
        obtain ⟨sa, ra⟩ := a
        simp only at f1 f2
        subst f1 f2
        exact ans_to_caller P r.body.nhid sa st' r' f5.1 f5.2.1
          (ext_inside f5 (by omega) (by omega) (by omega) (by omega) (by omega)) f4
  | some pb =>
    simp only [Option.isNone_some]
    have hpbG : ∀ t ∈ pb, groundT t = true := hpbg pb hpb
    have hren : renameT st.next (Term.a2 "," (r.body.tr (.var 0) (.var 1) 3).1
          (Term.a2 "=" (.var 2) (Term.list pb (.var 1)))) =
        Term.a2 "," (r.body.tr (.var st.next) (.var (st.next + 1)) (st.next + 3)).1
          (Term.a2 "=" (.var (st.next + 2)) (Term.list pb (.var (st.next + 1)))) := by
      rw [renameT_a2, renameT_a2, renameT_list, renameL_ground st.next pb hpbG, tr_rename st.next r.body hbody]
      simp [renameT, Nat.add_comm]
    rw [hren]
    have Pb := afterHead_pre P r.body.nhid (st.next + 1) (.inl rfl)
    have P2 := afterHead_pre P r.body.nhid (st.next + 2) (.inr rfl)
    have hL := L r.body hbody hneed false _ dst (.var st.next) l (st.next + 1) (st.next + 3) Pb
    cases n with
    | zero => simp [solve, den]
    | succ n' =>
      have hsolve : ∀ g st', solve cfg.uf (programOf gr) (n' + 1) g st' = solveGoal cfg.uf _ g st' :=
        fun g st' => rfl
      rw [hsolve, solveGoal_conj]
      simp only [← hsolve]
      cases hx : solve cfg.uf (programOf gr) (n' + 1)
          (r.body.tr (.var st.next) (.var (st.next + 1)) (st.next + 3)).1 (afterHead st x s r.body.nhid) with
      | error e =>
        cases hy : den cfg gr (n' + 1) false r.body dst (Term.list l Term.nilT) with
        | error e' => trivial
        | ok od => simp [hx, hy, Rel] at hL
      | ok o =>
        cases hy : den cfg gr (n' + 1) false r.body dst (Term.list l Term.nilT) with
        | error e' => simp [hx, hy, Rel] at hL
        | ok od =>
          simp only [hx, hy, Rel] at hL
          obtain ⟨c1, hall⟩ := hL
          -- the step  S = [pb… | S1]  in one answer of the body
          let bindS : St → St := fun st' =>
            { st' with σ := (st.next + 2, walk st'.σ (Term.list pb (.var (st.next + 1)))) :: st'.σ }
          obtain ⟨j, hj⟩ : ∃ j, cfg.uf = j + 1 := ⟨cfg.uf - 1, by omega⟩
          have hfacts : ∀ st' a, AnsRel (afterHead st x s r.body.nhid) (st.next + 1) (st.next + 3)
              (st.next + 3 + r.body.nhid) dst st' a →
              (∀ p ∈ st'.σ, p.1 ≠ st.next + 2) ∧
              ∃ r', a = (dst, Term.list r' Term.nilT) ∧
                Denotes st'.σ (Term.list pb (.var (st.next + 1))) (pb ++ r') := by
            intro st' a h
            obtain ⟨f1, r', f2, f4, f5⟩ := h
            obtain ⟨sa, ra⟩ := a
            simp only at f1 f2
            subst f1 f2
            exact ⟨f5.unbound (st.next + 2) P2.sUnb (by omega) (fun h => by omega) (by rw [hst2n]; omega),
              r', rfl, f4.prepend pb hpbG⟩
          have hstep : ∀ st' ∈ o.answers,
              (fun st' => solve cfg.uf (programOf gr) (n' + 1)
                (Term.a2 "=" (.var (st.next + 2)) (Term.list pb (.var (st.next + 1)))) st') st'
                = .ok ⟨[bindS st'], false⟩ := by
            intro st' hst'
            obtain ⟨hunb, r', _, hd⟩ := hall.forall_left
              (fun st' => (∀ p ∈ st'.σ, p.1 ≠ st.next + 2) ∧ ∃ r', True ∧
                Denotes st'.σ (Term.list pb (.var (st.next + 1))) (pb ++ r'))
              (fun st' a h => by
                obtain ⟨h1, r', _, h3⟩ := hfacts st' a h
                exact ⟨h1, r', trivial, h3⟩) st' hst'
            simp only []
            rw [hsolve, solveGoal_eq, hj, unify_var_nonvar j st'.σ (st.next + 2) _ hunb hd.walk_nonvar]
          simp only []
          rw [sAndThen_single _ bindS o.answers hstep]
          simp only []
          refine ⟨by simp [c1], ?_⟩
          refine hall.map bindS (fun a => (a.1, Term.list pb a.2)) (fun st' a h => ?_)
          obtain ⟨hunb, r', ha, hd⟩ := hfacts st' a h
          obtain ⟨_, _, _, _, f5⟩ := h
          subst ha
          simp only [list_append]
          refine ans_to_caller P r.body.nhid dst (bindS st') (pb ++ r') f5.1 ?_ ?_ ?_
          · intro p hp
            simp only [bindS, List.mem_cons] at hp
            rcases hp with rfl | hp
            · have := f5.1; simp only [hst2n] at this; simp [bindS]; omega
            · exact f5.2.1 p hp
          · obtain ⟨Δ, e, g⟩ := ext_inside (k := st.next) f5 (by omega) (by omega) (by rw [hst2n]; omega)
              (by rw [hst2n]; omega) (by rw [hst2n]; omega)
            refine ⟨(st.next + 2, walk st'.σ (Term.list pb (.var (st.next + 1)))) :: Δ, by simp [bindS, e], ?_⟩
            intro p hp
            rcases List.mem_cons.1 hp with rfl | hp
            · have := f5.1; simp only [hst2n] at this; simp [bindS]; omega
            · exact g p hp
          · exact Denotes.of_bind (st.next + 2) hd.walked hd.walk_nonvar hunb

theorem rules_sim (cfg : Cfg) (huf : 2 ≤ cfg.uf) (gr : Grammar) (n : Nat) (L : LevelSim cfg gr n)
    (f : String) (st dst : St) (x : Term) (l : List Term) (s : Nat) (P : Pre st x l s 0 0) :
    ∀ rules : List Rule, (∀ r ∈ rules, GoodRule cfg r ∧ r.name = f) →
      RelL st s dst
        (tryClauses cfg.uf (solve cfg.uf (programOf gr) n) (.app f (.cons x (.cons (.var s) .nil))) st
          (rules.map Rule.clause))
        (tryRules cfg.uf (den cfg gr n) [] dst (Term.list l Term.nilT) rules) := by
  intro rules
  induction rules with
  | nil => intro _; simp [tryClauses, tryRules, RelL]; exact .nil
  | cons r rs ih =>
    intro hr
    obtain ⟨hgood, hname⟩ := hr r (by simp)
    have ih' := ih (fun r' h' => hr r' (by simp [h']))
    obtain ⟨hargs, hpbg, hbody, hnv, _⟩ := (Rule.simple_iff r).1 hgood.1
    have hone := rule_sim cfg huf gr n L st dst x l s P r hgood
    have hhead := unify_head cfg.uf huf st.σ f x s st.next P.inp.walk_nonvar P.sUnb P.wf P.sLt
    have hcl := clause_simple r hgood.1
    -- unfold one step on both sides
    have hden : tryRules cfg.uf (den cfg gr n) [] dst (Term.list l Term.nilT) (r :: rs) =
        (match den cfg gr n r.pushback.isNone r.body dst (Term.list l Term.nilT) with
         | .error e => .error e
         | .ok o =>
           if o.cut then .ok (match r.pushback with
             | none => o.answers
             | some pb => o.answers.map (fun a => (a.1, Term.list pb a.2)))
           else match tryRules cfg.uf (den cfg gr n) [] dst (Term.list l Term.nilT) rs with
             | .error e => .error e
             | .ok more => .ok ((match r.pushback with
               | none => o.answers
               | some pb => o.answers.map (fun a => (a.1, Term.list pb a.2))) ++ more)) := by
      cases hp : r.pushback with
      | none =>
        simp [tryRules, hargs, hp, hnv, unifyList, rename_simple _ _ hbody]
        rfl
      | some pb =>
        simp [tryRules, hargs, hp, hnv, unifyList, rename_simple _ _ hbody,
          renameL_ground dst.next pb (hpbg pb hp)]
        rfl
    have hsld : tryClauses cfg.uf (solve cfg.uf (programOf gr) n) (.app f (.cons x (.cons (.var s) .nil))) st
          ((r :: rs).map Rule.clause) =
        (match solve cfg.uf (programOf gr) n (renameT st.next r.clause.body) (afterHead st x s r.body.nhid) with
         | .error e => .error e
         | .ok o =>
           if o.cut then .ok o.answers
           else match tryClauses cfg.uf (solve cfg.uf (programOf gr) n) (.app f (.cons x (.cons (.var s) .nil))) st
                (rs.map Rule.clause) with
             | .error e => .error e
             | .ok more => .ok (o.answers ++ more)) := by
      have hh : renameT st.next r.clause.head =
          .app f (.cons (.var st.next) (.cons (.var (st.next + 2)) .nil)) := by
        rw [hcl]; simp [renameT, renameA, hname, Nat.add_comm]
      have hnv' : r.clause.nv = 3 + r.body.nhid := by rw [hcl]
      simp only [List.map_cons, tryClauses, hh, hnv', hhead]
      rfl
    rw [hden, hsld]
    cases hx : solve cfg.uf (programOf gr) n (renameT st.next r.clause.body) (afterHead st x s r.body.nhid) with
    | error e =>
      cases hy : den cfg gr n r.pushback.isNone r.body dst (Term.list l Term.nilT) with
      | error e' => simp [RelL]
      | ok od => simp [hx, hy] at hone
    | ok o =>
      cases hy : den cfg gr n r.pushback.isNone r.body dst (Term.list l Term.nilT) with
      | error e' => simp [hx, hy] at hone
      | ok od =>
        simp only [hx, hy] at hone
        obtain ⟨c1, hconv⟩ := hone
        by_cases hc : o.cut = true
        · have hc' : od.cut = true := c1 ▸ hc
          simp only [hc, hc', if_true, RelL]
          exact hconv
        · have hc0 : o.cut = false := by simpa using hc
          have hc' : od.cut = false := c1 ▸ hc0
          simp only [hc0, hc', Bool.false_eq_true, if_false]
          cases hx2 : tryClauses cfg.uf (solve cfg.uf (programOf gr) n) (.app f (.cons x (.cons (.var s) .nil))) st
              (rs.map Rule.clause) with
          | error e =>
            cases hy2 : tryRules cfg.uf (den cfg gr n) [] dst (Term.list l Term.nilT) rs with
            | error e' => simp [RelL]
            | ok more' => simp [hx2, hy2, RelL] at ih'
          | ok more =>
            cases hy2 : tryRules cfg.uf (den cfg gr n) [] dst (Term.list l Term.nilT) rs with
            | error e' => simp [hx2, hy2, RelL] at ih'
            | ok more' =>
              simp only [hx2, hy2, RelL] at ih' ⊢
              exact hconv.append ih'

/-! ### the induction on the fuel -/

theorem filter_clauses (gr : Grammar) (hgr : ∀ r ∈ gr, r.simple = true) (f : String) :
    (programOf gr).filter (fun c => decide (sig c.head = some (f, 2))) =
      (gr.filter (fun r => decide (r.name = f ∧ r.args.length = ([] : List Term).length))).map Rule.clause := by
  unfold programOf
  rw [List.filter_map]
  congr 1
  apply List.filter_congr
  intro r hr
  have hs := hgr r hr
  rw [Function.comp_apply, clause_simple r hs]
  simp only [Rule.simple, Bool.and_eq_true, List.isEmpty_iff] at hs
  simp [sig, Args.length, hs.1.1.1.1]

theorem level_sim (cfg : Cfg) (hcfg : cfg.engine = false) (huf : 2 ≤ cfg.uf) (gr : Grammar)
    (hgr : ∀ r ∈ gr, GoodRule cfg r) : ∀ n, LevelSim cfg gr n := by
  intro n
  induction n with
  | zero => intro b _ _ top st dst x l s m _; simp [solve, den, Rel]
  | succ n ih =>
    intro b hs hn top st dst x l s m P
    show Rel _ _ _ _ _ (solveGoal cfg.uf _ _ st) (denBody cfg _ top b dst _)
    refine body_sim cfg hcfg (by omega) _ _ ?_ b hs hn top st dst x l s m P
    intro f hf st dst x l s P
    have hsig : sig (Term.app f (.cons x (.cons (.var s) .nil))) = some (f, 2) := rfl
    have hfc : f ≠ "call" := by intro h; subst h; simp [reserved] at hf
    simp only []
    split
    · rename_i heq; injection heq with h1 _; exact absurd h1 hfc
    · rename_i heq; injection heq with _ h2; injection h2 with _ h3; injection h3 with _ h4; cases h4
    simp only [hsig]
    rw [filter_clauses gr (fun r hr => (hgr r hr).1) f]
    simp only [List.isEmpty_map]
    split
    · simp [Rel]
    · have hr := rules_sim cfg huf gr n ih f st dst x l s P
        (gr.filter (fun r => decide (r.name = f ∧ r.args.length = ([] : List Term).length)))
        (fun r hr => by
          rw [List.mem_filter] at hr
          exact ⟨hgr r hr.1, by simpa using (of_decide_eq_true hr.2).1⟩)
      cases hx : tryClauses cfg.uf (solve cfg.uf (programOf gr) n)
          (.app f (.cons x (.cons (.var s) .nil))) st
          ((gr.filter (fun r => decide (r.name = f ∧ r.args.length = ([] : List Term).length))).map Rule.clause) with
      | error e =>
        cases hy : tryRules cfg.uf (den cfg gr n) [] dst (Term.list l Term.nilT)
            (gr.filter (fun r => decide (r.name = f ∧ r.args.length = ([] : List Term).length))) with
        | error e' => simp [Rel]
        | ok ds => simp only [hx, hy, RelL] at hr
      | ok as =>
        cases hy : tryRules cfg.uf (den cfg gr n) [] dst (Term.list l Term.nilT)
            (gr.filter (fun r => decide (r.name = f ∧ r.args.length = ([] : List Term).length))) with
        | error e' => simp only [hx, hy, RelL] at hr
        | ok ds =>
          simp only [hx, hy, RelL] at hr
          exact ⟨rfl, hr⟩

/-! ### definitions used to state the property theorems (Properties/C17.lean) -/

/-- the instantiation of the two hidden arguments S0 = `x`, S = `y` of a clause by actual
    arguments `l`, `r` -/
def inst (x : Nat) (l : Term) (y : Nat) (r : Term) : Nat → Term :=
  fun w => if w = x then l else if w = y then r else .var w

/-- the answers of a query, projected on a template: the template under each answer
    substitution, variables renamed by first occurrence -/
def projected (uf : Nat) (tmpl : Term) (sts : List St) : List (Option Term) :=
  sts.map fun st => (resolve uf st.σ tmpl).map Term.canon

/-- a rule whose name and arity, with the two hidden arguments added, is a control construct or
    built-in of the reference evaluation (`'='`//0 would become =/2, …) -/
def clash (f : String) (nargs : Nat) : Bool :=
  (nargs == 0 && [",", ";", "->", "=", "\\=", "==", "\\=="].contains f) || (f == "call" && nargs < 2)

/-- the fragment for which the statement is proved: ISO mode; rules without arguments, with or
    without a push-back of ground terminals; bodies from `[]`, ground terminal lists, non-terminals
    without arguments (not named like a control construct), `,`, `;`, if-then(-else), `\\+`, `!`,
    `{true}`, `{fail}`, `{!}`; a ground input list; enough unification fuel for the terminal lists -/
structure SimpleSetting (cfg : Cfg) (gr : Grammar) (b : Body) (l : List Term) : Prop where
  iso : cfg.engine = false
  uf : 2 ≤ cfg.uf
  rules : ∀ r ∈ gr, r.simple = true ∧ r.body.need ≤ cfg.uf
  body : b.simple = true ∧ b.need ≤ cfg.uf
  input : ∀ t ∈ l, groundT t = true

/-- a grammar in the fragment (the D16 witness plus recursion, negation and a condition):
      a --> [x], !, [y].     a --> [x], [z].     a --> \\+ [z], ( b -> [] ; [y] ).
      b --> [x], b ; [].     c, [y, x] --> [x], b. -/
def exampleGrammar : Grammar :=
  let x := Term.atom "x"; let y := Term.atom "y"; let z := Term.atom "z"
  [ { name := "a", args := [], pushback := none, nv := 0,
      body := .seq (.terminals [x]) (.seq .cut (.terminals [y])) },
    { name := "a", args := [], pushback := none, nv := 0,
      body := .seq (.terminals [x]) (.terminals [z]) },
    { name := "a", args := [], pushback := none, nv := 0,
      body := .seq (.not (.terminals [z])) (.ite (.nt "b" []) .eps (.terminals [y])) },
    { name := "b", args := [], pushback := none, nv := 0,
      body := .alt (.seq (.terminals [x]) (.nt "b" [])) .eps },
    { name := "c", args := [], pushback := some [y, x], nv := 0,
      body := .seq (.terminals [x]) (.nt "b" []) } ]

end PrologVerif.Grammar
