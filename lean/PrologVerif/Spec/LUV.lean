/-
  Specification: the logical update view of the clause database (ISO 7.5.4, 8.9; as worded by
  property C09).

  * Every clause gets a unique identity when it is added; identities are never reused.
  * asserta/assertz add at the front / at the end.  A clause term whose body has n top-level
    alternatives counts as n clauses, one per alternative, which are added as a BLOCK IN THE ORDER
    OF THE ALTERNATIVES — by asserta/1 as by assertz/1 (shared vocabulary with the model:
    `clausePI`, `compile`, `altsOf`).
  * A call or a retract that is started holds the clauses (identities) ALIVE AT THAT MOMENT, in
    their order at that moment.  Nothing that happens later changes what it holds.
  * The answers of a call are, for each held clause IN THAT ORDER, the answers of that clause
    (head unification, then the solutions of its own alternative, in order) — whether or not the
    clause has been retracted in the meantime.
  * Backtracking into a retract: the next held clause that unifies AND IS STILL IN THE DATABASE;
    exactly that identity is removed.
  * abolish removes the procedure; modifying a static procedure is a permission error; an
    operation that raises an error changes nothing.

  The machine has the same operations and outputs as the model (`DB.Op`, `DB.Out`) so that the
  two can be run side by side on any history.
-/
import PrologVerif.Model.DB
namespace PrologVerif.LUV
open PrologVerif PrologVerif.DB

inductive Iter where
  | call (goal : Term) (alive : List Stored) (pending : List Term)
  | retract (pat : Term) (pi : PI) (alive : List Stored)
  | closed
  deriving DecidableEq

structure State where
  procs : Procs
  /-- next unused identity -/
  fresh : Nat
  nextVar : Nat
  iters : List Iter
  deriving DecidableEq

def State.empty : State := ⟨[], 0, 0, []⟩

def clausesOf (ps : Procs) (pi : PI) : List Stored :=
  match ps.get pi with
  | some p => p.clauses
  | none => []

/-- is the clause with this identity still in the database? -/
def present (ps : Procs) (pi : PI) (id : Nat) : Bool := (clausesOf ps pi).any (fun c => c.id = id)

/-- remove exactly this identity -/
def erase (ps : Procs) (pi : PI) (id : Nat) : Procs :=
  match ps.get pi with
  | some p => ps.set pi { p with clauses := p.clauses.filter (fun c => c.id ≠ id) }
  | none => ps

def isStatic (ps : Procs) (pi : PI) : Bool :=
  match ps.get pi with
  | some p => !p.dynamic
  | none => false

def opened (st : State) (it : Iter) : State × Out :=
  ({ st with iters := st.iters ++ [it] }, .opened st.iters.length)

/-- asserta/assertz -/
def insert (st : State) (c : Term) (front : Bool) : State × Out :=
  match clausePI c with
  | .error e => (st, .error e)
  | .ok pi =>
    match compile c with
    | .error e => (st, .error e)
    | .ok raws =>
      if isStatic st.procs pi then (st, .error (permissionErr "modify" "static_procedure" pi.term))
      else
        let old := clausesOf st.procs pi
        let new := stamp st.fresh ((altsOf c).map fun alt => (c, alt))
        ({ st with procs := st.procs.set pi ⟨true, if front then new ++ old else old ++ new⟩
                   fresh := st.fresh + raws.length }, .ok)

/-- abolish/1.  (Abolishing a procedure that does not exist: ISO says "succeeds", the code
    raises the same permission error as for a static procedure.  Either way the database is
    unchanged, which is all C09 speaks about; the specification follows the code here.) -/
def abolish (st : State) (pi : Term) : State × Out :=
  match pi with
  | .var _ => (st, .error instErr)
  | .app "/" (.cons (.var _) (.cons _ .nil)) => (st, .error instErr)
  | .app "/" (.cons (.atom _) (.cons (.var _) .nil)) => (st, .error instErr)
  | .app "/" (.cons (.atom n) (.cons (.int a) .nil)) =>
    if a < 0 then (st, .error (domainErr "not_less_than_zero" (.int a)))
    else
      let key : PI := ⟨n, a.toNat⟩
      match st.procs.get key with
      | some p =>
        if p.dynamic then ({ st with procs := st.procs.del key }, .ok)
        else (st, .error (permissionErr "modify" "static_procedure" key.term))
      | none => (st, .error (permissionErr "modify" "static_procedure" key.term))
  | .app "/" (.cons (.atom _) (.cons other .nil)) => (st, .error (typeErr "integer" other))
  | .app "/" (.cons other (.cons _ .nil)) => (st, .error (typeErr "atom" other))
  | other => (st, .error (typeErr "predicate_indicator" other))

def startCall (st : State) (goal : Term) : State × Out :=
  match piArg goal with
  | .error e => (st, .error e)
  | .ok pi =>
    match st.procs.get pi with
    | none => (st, .error (existenceErr "procedure" pi.term))
    | some p => opened st (.call goal p.clauses [])

def startRetract (st : State) (pat : Term) : State × Out :=
  match piArg (headOf pat) with
  | .error e => (st, .error e)
  | .ok pi =>
    if isStatic st.procs pi then (st, .error (permissionErr "modify" "static_procedure" pi.term))
    else opened st (.retract pat pi (clausesOf st.procs pi))

/-- next solution of a call when the clause in hand has no more answers: go on with the first
    held clause that has one -/
def redoCall (st : State) (h : Nat) (goal : Term) : List Stored → State × Out
  | [] => ({ st with iters := st.iters.set h (.call goal [] []) }, .no)
  | c :: alive =>
    let st' := { st with nextVar := st.nextVar + maxVar c.raw }
    match clauseAnswers st.nextVar goal c with
    | a :: more => ({ st' with iters := st.iters.set h (.call goal alive more) }, .answer a)
    | [] => redoCall st' h goal alive

/-- next solution of a retract: first held clause that (renamed apart) unifies and is still present -/
def redoRetract (st : State) (h : Nat) (pat : Term) (pi : PI) : List Stored → State × Out
  | [] => ({ st with iters := st.iters.set h (.retract pat pi []) }, .no)
  | c :: alive =>
    let st' := { st with nextVar := st.nextVar + maxVar c.raw }
    match unify fuelU [] (rulify pat) (rulify (shift st.nextVar c.raw)) with
    | some σ =>
      if present st.procs pi c.id then
        ({ st' with procs := erase st.procs pi c.id, iters := st.iters.set h (.retract pat pi alive) },
         .answer (resolve fuelU σ pat))
      else redoRetract st' h pat pi alive
    | none => redoRetract st' h pat pi alive

def step (st : State) : Op → State × Out
  | .asserta c => insert st c true
  | .assertz c => insert st c false
  | .abolish pi => abolish st pi
  | .openCall g => startCall st g
  | .openRetract p => startRetract st p
  | .next h =>
    match st.iters[h]? with
    | some (.call goal alive (a :: more)) => ({ st with iters := st.iters.set h (.call goal alive more) }, .answer a)
    | some (.call goal alive []) => redoCall st h goal alive
    | some (.retract pat pi alive) => redoRetract st h pat pi alive
    | some .closed => (st, .no)
    | none => (st, .badHandle)
  | .close h =>
    if h < st.iters.length then ({ st with iters := st.iters.set h .closed }, .ok) else (st, .badHandle)
  | .listing pi =>
    match st.procs.get pi with
    | none => (st, .listing false false [])
    | some p => (st, .listing true p.dynamic (p.clauses.map (·.raw)))

/-- retractall/1: remove every clause that a retract of `Head :- _` started now would remove -/
def drain : Nat → State → Nat → State × Out
  | 0, st, _ => (st, .badHandle)
  | fuel + 1, st, h =>
    match step st (.next h) with
    | (st', .answer _) => drain fuel st' h
    | r => r

def retractall (fuel : Nat) (st : State) (head : Term) : State × Out :=
  match step st (.openRetract (.a2 ":-" head (.var (maxVar head)))) with
  | (st1, .opened h) =>
    match drain fuel st1 h with
    | (st2, .no) => (st2, .ok)
    | r => r
  | r => r

/-- the clauses of a list that do NOT unify (renamed apart, variable counter threaded) with a pattern -/
def survivors (pat : Term) : Nat → List Stored → List Stored
  | _, [] => []
  | nv, c :: cs =>
    if (unify fuelU [] (rulify pat) (rulify (shift nv c.raw))).isSome then survivors pat (nv + maxVar c.raw) cs
    else c :: survivors pat (nv + maxVar c.raw) cs

def run : State → List Op → State × List Out
  | st, [] => (st, [])
  | st, o :: os =>
    let r := step st o
    let r' := run r.1 os
    (r'.1, r.2 :: r'.2)

end PrologVerif.LUV
