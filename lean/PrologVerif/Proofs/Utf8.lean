/-
  UTF-8 is order preserving: comparing the encodings of two texts byte-wise (Go's
  `strings.Compare`) is comparing the texts lexicographically by code point.

  `String.utf8EncodeChar` is core Lean's definition of the encoding (the one `String` itself is
  built on: `String.utf8Encode_toList`); it is the RFC 3629 table written with div/mod.
-/
import PrologVerif.Proofs.OrderBase
namespace PrologVerif.OrderProofs
open PrologVerif PrologVerif.Order PrologVerif.OrderSpec

theorem cmpByte_lawful : Lawful cmpByte := by
  constructor
  · intro x y; unfold cmpByte; rw [cmpNat_eq, cmpNat_eq]; exact cmpOfLt_nat_lawful.swap _ _
  · intro x y z; unfold cmpByte; rw [cmpNat_eq, cmpNat_eq, cmpNat_eq]; exact cmpOfLt_nat_lawful.trans _ _ _

theorem cmpByte_cons_lt {x y : UInt8} (r1 r2 : List UInt8) (h : x.toNat < y.toNat) :
    cmpList cmpByte (x :: r1) (y :: r2) = .lt := by
  have : cmpByte x y = .lt := by unfold cmpByte; rw [cmpNat_eq, cmpOfLt_nat_lt]; exact h
  simp [cmpList, this, Ordering.then]

theorem cmpByte_cons_eq {x y : UInt8} (r1 r2 : List UInt8) (h : x.toNat = y.toNat) :
    cmpList cmpByte (x :: r1) (y :: r2) = cmpList cmpByte r1 r2 := by
  have : cmpByte x y = .eq := by unfold cmpByte; rw [cmpNat_eq, cmpOfLt_nat_eq]; exact h
  simp [cmpList, this, Ordering.then]

/-- first byte smaller -/
macro "byte_lt" : tactic =>
  `(tactic| (apply cmpByte_cons_lt; simp only [UInt8.toNat_ofNat']; omega))
/-- first byte equal: drop it -/
macro "byte_eq" : tactic =>
  `(tactic| (rw [cmpByte_cons_eq _ _ (by simp only [UInt8.toNat_ofNat']; omega)]))

/-- a smaller code point has a byte-wise smaller encoding, whatever follows (the code is
    prefix-free and monotone) -/
theorem utf8EncodeChar_lt (c d : Char) (h : c.toNat < d.toNat) (r1 r2 : List UInt8) :
    cmpList cmpByte (String.utf8EncodeChar c ++ r1) (String.utf8EncodeChar d ++ r2) = .lt := by
  have hd : d.toNat < 1114112 := by
    have := d.valid
    simp only [UInt32.isValidChar, Nat.isValidChar] at this
    unfold Char.toNat; omega
  unfold Char.toNat at h hd
  simp only [String.utf8EncodeChar]
  generalize c.val.toNat = v at *
  generalize d.val.toNat = w at *
  by_cases v1 : v ≤ 127 <;> by_cases v2 : v ≤ 2047 <;> by_cases v3 : v ≤ 65535 <;>
  by_cases w1 : w ≤ 127 <;> by_cases w2 : w ≤ 2047 <;> by_cases w3 : w ≤ 65535 <;>
    simp only [v1, v2, v3, w1, w2, w3, if_true, if_false, List.cons_append, List.nil_append] <;>
    first
    | omega
    | byte_lt
    | skip
  · -- 2 bytes each
    by_cases e1 : v / 64 = w / 64
    · byte_eq; byte_lt
    · byte_lt
  · -- 3 bytes each
    by_cases e1 : v / 4096 = w / 4096
    · byte_eq
      by_cases e2 : v / 64 = w / 64
      · byte_eq; byte_lt
      · byte_lt
    · byte_lt
  · -- 4 bytes each
    by_cases e1 : v / 262144 = w / 262144
    · byte_eq
      by_cases e2 : v / 4096 = w / 4096
      · byte_eq
        by_cases e3 : v / 64 = w / 64
        · byte_eq; byte_lt
        · byte_lt
      · byte_lt
    · byte_lt

theorem utf8EncodeChar_ne_nil (c : Char) : String.utf8EncodeChar c ≠ [] := by
  simp only [String.utf8EncodeChar]; (repeat' split) <;> simp

/-- **UTF-8 order fact**: byte-wise comparison of the encodings = code-point comparison -/
theorem utf8_cmp (l1 l2 : List Char) :
    cmpList cmpByte (l1.flatMap String.utf8EncodeChar) (l2.flatMap String.utf8EncodeChar)
      = cmpCodePoints l1 l2 := by
  induction l1 generalizing l2 with
  | nil =>
    cases l2 with
    | nil => rfl
    | cons d ds =>
      simp only [List.flatMap_nil, List.flatMap_cons, cmpCodePoints]
      cases h : String.utf8EncodeChar d with
      | nil => exact absurd h (utf8EncodeChar_ne_nil d)
      | cons b bs => rfl
  | cons c cs ih =>
    cases l2 with
    | nil =>
      simp only [List.flatMap_nil, List.flatMap_cons, cmpCodePoints]
      cases h : String.utf8EncodeChar c with
      | nil => exact absurd h (utf8EncodeChar_ne_nil c)
      | cons b bs => rfl
    | cons d ds =>
      simp only [List.flatMap_cons, cmpCodePoints]
      rcases Nat.lt_trichotomy c.toNat d.toNat with h | h | h
      · rw [utf8EncodeChar_lt c d h, cmpOfLt_nat_lt.mpr h]; rfl
      · have : c = d := by apply Char.ext; apply UInt32.toNat_inj.mp; exact h
        subst this
        rw [cmpList_append_same cmpByte_lawful.refl, ih, cmpOfLt_nat_eq.mpr rfl]; rfl
      · rw [(cmpList_lawful cmpByte_lawful).swap, utf8EncodeChar_lt d c h, cmpOfLt_nat_gt.mpr h]; rfl

/-- `strings.Compare` on atom texts is the lexicographic order of their code points -/
theorem cmpText_eq (a b : String) : cmpText a b = cmpCodePoints a.toList b.toList := by
  unfold cmpText utf8; exact utf8_cmp _ _

/-- the `utf8` of the model is the byte sequence Lean's own `String` stores -/
theorem utf8_eq_toByteArray (s : String) : utf8 s = s.toByteArray.data.toList := by
  unfold utf8
  rw [← String.utf8Encode_toList]
  simp [List.utf8Encode]

end PrologVerif.OrderProofs
