/-
  Proofs/ArithEval — dispatch (the tables unaryFunctors/binaryFunctors map every integer functor to a
  kernel that meets the specification) and whole expression trees: the hand model of `eval`
  (Model/Eval) over the translated kernels computes, for EVERY integer expression tree, what
  Spec/ExactArith computes over the unbounded integers.
-/
import PrologVerif.Proofs.ArithFunctors
import PrologVerif.Model.Eval
namespace PrologVerif.ArithProofs
open PrologVerif.Arith PrologVerif.Generated.Arith
open PrologVerif.Spec.ExactArith (Outcome inRange checked Expr)

variable {F : Type} [FloatOps F]

/-- the test-pinned corner of `^` (D21) -/
def PowCorner (f : String) (x y : Int) : Prop :=
  f = "^" ∧ y = -9223372036854775808 ∧ (x = 1 ∨ x = -1)

/-- every binary evaluable functor the integer specification covers is in the dispatch table and
    yields the specified outcome on all integer operands -/
theorem binary_exact (f : String) (x y : I64) (o : Outcome) (hc : ¬ PowCorner f x.val y.val)
    (h : Spec.ExactArith.applyBin f x.val y.val = some o) :
    ∃ g, evalBinary (F := F) f = some g ∧ outcomeN (g (.int x) (.int y)) = some o := by
  unfold Spec.ExactArith.applyBin at h
  split at h
  all_goals first
    | (injection h with h; subst h)
    | skip
  · exact ⟨_, rfl, add_exact x y⟩
  · exact ⟨_, rfl, sub_exact x y⟩
  · exact ⟨_, rfl, mul_exact x y⟩
  · exact ⟨_, rfl, intDiv_exact x y⟩
  · exact ⟨_, rfl, rem_exact x y⟩
  · exact ⟨_, rfl, mod_exact x y⟩
  · exact ⟨_, rfl, intFloorDiv_exact x y⟩
  · exact ⟨_, rfl, max_exact x y⟩
  · exact ⟨_, rfl, min_exact x y⟩
  · refine ⟨_, rfl, integerPower_exact x y ?_⟩
    intro hcorner; exact hc ⟨rfl, hcorner.1, hcorner.2⟩
  · exact ⟨_, rfl, bitwiseAnd_exact x y⟩
  · exact ⟨_, rfl, bitwiseOr_exact x y⟩
  · exact ⟨_, rfl, xor_exact x y⟩
  · exact ⟨_, rfl, shiftLeft_exact x y o h⟩
  · exact ⟨_, rfl, shiftRight_exact x y o h⟩
  · simp at h

theorem unary_exact (f : String) (x : I64) (o : Outcome)
    (h : Spec.ExactArith.applyUn f x.val = some o) :
    ∃ g, evalUnary (F := F) f = some g ∧ outcomeN (g (.int x)) = some o := by
  unfold Spec.ExactArith.applyUn at h
  split at h
  all_goals first
    | (injection h with h; subst h)
    | skip
  · exact ⟨_, rfl, neg_exact x⟩
  · exact ⟨_, rfl, pos_exact x⟩
  · exact ⟨_, rfl, abs_exact x⟩
  · exact ⟨_, rfl, sign_exact x⟩
  · exact ⟨_, rfl, bitwiseComplement_exact x⟩
  · simp at h

/-! ### whole expression trees -/

open PrologVerif (Term Args evaluationErr typeErr)

/-- an integer expression as the term `eval` receives -/
def toTerm : Expr → Term
  | .lit z => .int z
  | .un f a => .app f (.cons (toTerm a) .nil)
  | .bin f a b => .app f (.cons (toTerm a) (.cons (toTerm b) .nil))

/-- integer literals are 64-bit (what the parser and the Go API deliver) -/
def LitsInRange : Expr → Prop
  | .lit z => InRange z
  | .un _ a => LitsInRange a
  | .bin _ a b => LitsInRange a ∧ LitsInRange b

/-- no `^` node meets the test-pinned corner (±1) ^ minInt -/
def NoPowCorner : Expr → Prop
  | .lit _ => True
  | .un _ a => NoPowCorner a
  | .bin f a b => NoPowCorner a ∧ NoPowCorner b ∧
      ∀ x y, Spec.ExactArith.eval a = some (.value x) → Spec.ExactArith.eval b = some (.value y) → ¬ PowCorner f x y

/-- the model's answer is the specification's outcome -/
def Matches : Eval.Res F → Outcome → Prop
  | .num (.int v), .value z => v.val = z
  | .err t, .evalError a => t = evaluationErr a
  | .err t, .typeError ty c => t = typeErr ty (.int c)
  | _, _ => False

omit [FloatOps F] in
theorem matches_ofKernel {r : Except Err (Num F)} {o : Outcome} (h : outcomeN r = some o) :
    Matches (Eval.ofKernel r) o := by
  unfold outcomeN at h
  split at h <;> simp at h <;> subst h <;> simp [Eval.ofKernel, Matches, Eval.culpritTerm]

omit [FloatOps F] in
theorem matches_value {r : Eval.Res F} {z : Int} (h : Matches r (.value z)) :
    ∃ v : I64, r = .num (.int v) ∧ v.val = z := by
  unfold Matches at h
  split at h <;> simp_all

theorem evalBinary_covered (f : String) (h : f ∈ Spec.ExactArith.binaryCovered) :
    ∃ g, evalBinary (F := F) f = some g := by
  simp [Spec.ExactArith.binaryCovered] at h
  rcases h with h | h | h | h | h | h | h | h | h | h | h | h | h | h | h <;> subst h <;> exact ⟨_, rfl⟩

theorem evalUnary_covered (f : String) (h : f ∈ Spec.ExactArith.unaryCovered) :
    ∃ g, evalUnary (F := F) f = some g := by
  simp [Spec.ExactArith.unaryCovered] at h
  rcases h with h | h | h | h | h <;> subst h <;> exact ⟨_, rfl⟩

/-- `eval` on every integer expression tree: the value the specification computes over the unbounded
    integers, or the first evaluation error in left-to-right order -/
theorem eval_tree_exact : ∀ (e : Expr) (o : Outcome), LitsInRange e → NoPowCorner e →
    Spec.ExactArith.eval e = some o → Matches (Eval.eval (F := F) (toTerm e)) o := by
  intro e
  induction e with
  | lit z =>
    intro o hl _ h
    simp [Spec.ExactArith.eval] at h; subst h
    simp only [toTerm, Eval.eval, Matches, I64.val_ofInt]
    exact wrap_eq_self hl
  | un f a ih =>
    intro o hl hp h
    simp only [Spec.ExactArith.eval] at h
    split at h
    · rename_i hcov
      obtain ⟨g, hg⟩ := evalUnary_covered (F := F) f hcov
      simp only [toTerm, Eval.eval, hg]
      split at h
      · rename_i x hx
        obtain ⟨v, hv, hvx⟩ := matches_value (ih _ hl hp hx)
        rw [hv]; simp only []
        subst hvx
        obtain ⟨g', hg', hout⟩ := unary_exact (F := F) f v o h
        rw [hg] at hg'; injection hg' with hg'; subst hg'
        exact matches_ofKernel hout
      · rename_i r hne
        have := ih o hl hp h
        cases o with
        | value z => exact absurd h (hne z)
        | evalError a =>
          unfold Matches at this
          split at this <;> simp_all [Matches]
        | typeError ty c =>
          unfold Matches at this
          split at this <;> simp_all [Matches]
    · simp at h
  | bin f a b iha ihb =>
    intro o hl hp h
    simp only [Spec.ExactArith.eval] at h
    obtain ⟨hla, hlb⟩ := hl
    obtain ⟨hpa, hpb, hpc⟩ := hp
    split at h
    · rename_i hcov
      obtain ⟨g, hg⟩ := evalBinary_covered (F := F) f hcov
      simp only [toTerm, Eval.eval, hg]
      split at h
      · rename_i x hx
        obtain ⟨v, hv, hvx⟩ := matches_value (iha _ hla hpa hx)
        rw [hv]; simp only []
        subst hvx
        split at h
        · rename_i y hy
          obtain ⟨w, hw, hwy⟩ := matches_value (ihb _ hlb hpb hy)
          rw [hw]; simp only []
          subst hwy
          obtain ⟨g', hg', hout⟩ := binary_exact (F := F) f v w o (hpc _ _ hx hy) h
          rw [hg] at hg'; injection hg' with hg'; subst hg'
          exact matches_ofKernel hout
        · rename_i r hne
          have := ihb o hlb hpb h
          cases o with
          | value z => exact absurd h (hne z)
          | evalError a =>
            unfold Matches at this
            split at this <;> simp_all [Matches]
          | typeError ty c =>
            unfold Matches at this
            split at this <;> simp_all [Matches]
      · rename_i r hne
        have := iha o hla hpa h
        cases o with
        | value z => exact absurd h (hne z)
        | evalError a =>
          unfold Matches at this
          split at this <;> simp_all [Matches]
        | typeError ty c =>
          unfold Matches at this
          split at this <;> simp_all [Matches]
    · simp at h

end PrologVerif.ArithProofs
