/-
  `Valid` is preserved by every step of the mutation loop of `Op` whose name passed `validateOp`.
-/
import PrologVerif.Proofs.Ops
namespace PrologVerif.Ops

theorem validateOp_none_facts (t : Table) (p : Nat) (s : Spec) (n : String)
    (hc : definedInClass t "," .inf = true)
    (h : validateOp t p s n = none) :
    n ≠ "," ∧ n ≠ "[]" ∧ n ≠ "{}" ∧
    (n = "|" → s.cls = .inf ∧ (p = 0 ∨ 1001 ≤ p)) ∧
    (s.cls = .inf → definedInClass t n .post = false) ∧
    (s.cls = .post → definedInClass t n .inf = false) := by
  unfold validateOp at h
  split at h
  · simp at h
  rename_i h1
  split at h
  · simp at h
  rename_i h2
  split at h
  · simp at h
  rename_i h3
  split at h
  · simp at h
  rename_i h4
  split at h
  · simp at h
  rename_i h5
  have hn1 : n ≠ "," := fun e => h1 ⟨e, e ▸ hc⟩
  refine ⟨hn1, fun e => h3 (Or.inr e), fun e => h3 (Or.inl e), ?_, ?_, ?_⟩
  · intro hb
    have : ¬ (s.cls ≠ .inf ∨ (0 < p ∧ p < 1001)) := fun e => h2 ⟨hb, e⟩
    have h6 : s.cls = .inf := Classical.byContradiction fun e => this (Or.inl e)
    refine ⟨h6, ?_⟩
    have h7 : ¬ (0 < p ∧ p < 1001) := fun e => this (Or.inr e)
    omega
  · intro hi
    cases hd : definedInClass t n .post with
    | false => rfl
    | true => exact absurd ⟨hi, hd⟩ h4
  · intro hi
    cases hd : definedInClass t n .inf with
    | false => rfl
    | true => exact absurd ⟨hi, hd⟩ h5

theorem valid_stepName (t : Table) (p : Nat) (s : Spec) (n : String)
    (hv : Valid t) (hp : p ≤ 1200) (hok : validateOp t p s n = none) :
    Valid (stepName t p s n) := by
  obtain ⟨hcomma, hnil, hblk, hbar, hinf, hpost⟩ := validateOp_none_facts t p s n hv.commaDefined hok
  refine ⟨?_, ?_, ?_, ?_, ?_, ?_, ?_⟩
  · -- unique
    rw [stepName_eq]
    rw [List.pairwise_append]
    refine ⟨?_, ?_, ?_⟩
    · exact List.Pairwise.sublist (List.filter_sublist) hv.unique
    · by_cases h0 : p = 0 <;> simp [h0]
    · intro a ha b hb
      by_cases h0 : p = 0
      · simp [h0] at hb
      · simp [h0] at hb
        subst hb
        rw [mem_remove] at ha
        exact ha.2
  · -- range
    intro o ho
    rw [mem_stepName] at ho
    rcases ho with ⟨ho, _⟩ | ⟨h0, rfl⟩
    · exact hv.range o ho
    · simp; omega
  · -- no infix + postfix
    intro m
    by_cases hm : m = n
    · subst hm
      cases hs : s.cls with
      | pre =>
        rw [definedInClass_stepName_other t p s m m .inf (Or.inr (by simp [hs])),
            definedInClass_stepName_other t p s m m .post (Or.inr (by simp [hs]))]
        exact hv.noInfixPostfix m
      | inf =>
        rw [definedInClass_stepName_other t p s m m .post (Or.inr (by simp [hs]))]
        simp [hinf hs]
      | post =>
        rw [definedInClass_stepName_other t p s m m .inf (Or.inr (by simp [hs]))]
        simp [hpost hs]
    · rw [definedInClass_stepName_other t p s n m .inf (Or.inl hm),
          definedInClass_stepName_other t p s n m .post (Or.inl hm)]
      exact hv.noInfixPostfix m
  · -- comma
    intro o ho hn
    rw [mem_stepName] at ho
    rcases ho with ⟨ho, _⟩ | ⟨_, rfl⟩
    · exact hv.comma o ho hn
    · exact absurd hn hcomma
  · -- comma stays defined
    rw [definedInClass_stepName_other t p s n "," .inf (Or.inl (Ne.symm hcomma))]
    exact hv.commaDefined
  · -- bar
    intro o ho hn
    rw [mem_stepName] at ho
    rcases ho with ⟨ho, _⟩ | ⟨h0, rfl⟩
    · exact hv.bar o ho hn
    · have := hbar hn
      simp at *
      exact ⟨this.1, by omega⟩
  · -- brackets
    intro o ho
    rw [mem_stepName] at ho
    rcases ho with ⟨ho, _⟩ | ⟨_, rfl⟩
    · exact hv.noBrackets o ho
    · exact ⟨hnil, hblk⟩

theorem valid_applyNames (p : Nat) (s : Spec) (hp : p ≤ 1200) :
    ∀ (ns : List String) (t : Table), ns.Nodup → Valid t →
      (∀ n ∈ ns, validateOp t p s n = none) → Valid (applyNames t p s ns)
  | [], t, _, hv, _ => by simpa [applyNames] using hv
  | n :: ns, t, hnd, hv, hok => by
    rw [applyNames_eq, List.foldl_cons, ← applyNames_eq]
    have hnd' := List.nodup_cons.mp hnd
    apply valid_applyNames p s hp ns _ hnd'.2 (valid_stepName t p s n hv hp (hok n (by simp)))
    intro m hm
    have hmn : m ≠ n := fun h => hnd'.1 (h ▸ hm)
    rw [validateOp_stepName_other t p s n m hmn]
    exact hok m (by simp [hm])

/-- names collected by `Op` are duplicate free -/
theorem appendUniq_nodup (xs : List String) (x : String) (h : xs.Nodup) : (appendUniq xs x).Nodup := by
  unfold appendUniq
  split
  · exact h
  · rename_i hc
    rw [List.nodup_append]
    refine ⟨h, by simp, ?_⟩
    intro a ha b hb
    simp at hb
    subst hb
    intro hab
    subst hab
    simp at hc
    exact hc ha

theorem collectAtoms_nodup : ∀ (xs : List Term) (acc ns : List String),
    acc.Nodup → collectAtoms xs acc = .ok ns → ns.Nodup
  | [], acc, ns, hacc, h => by simp [collectAtoms] at h; subst h; exact hacc
  | .atom a :: rest, acc, ns, hacc, h => by
    simp only [collectAtoms] at h
    exact collectAtoms_nodup rest _ ns (appendUniq_nodup acc a hacc) h
  | .var _ :: _, _, _, _, h => by simp [collectAtoms] at h
  | .int _ :: _, _, _, _, h => by simp [collectAtoms] at h
  | .flt _ :: _, _, _, _, h => by simp [collectAtoms] at h
  | .str _ :: _, _, _, _, h => by simp [collectAtoms] at h
  | .app _ _ :: _, _, _, _, h => by simp [collectAtoms] at h

theorem collectNames_nodup (l : Term) (ns : List String) (h : collectNames l = .ok ns) : ns.Nodup := by
  unfold collectNames at h
  split at h
  · simp at h
  · rename_i ns' heq
    have hnd := collectAtoms_nodup _ _ _ List.nodup_nil heq
    split at h <;> simp at h
    subst h; exact hnd

end PrologVerif.Ops
