/-
  `restate New := Old` — declares the theorem `New` (in the current namespace) with EXACTLY the
  statement of the already proved theorem `Old` and the proof `Old`.  Used by the property modules
  to list, under the property's namespace (where the audit and the statement lock look), theorems
  whose long statements live next to their proofs.  The kernel checks the new declaration like any
  other (`addDecl`).
-/
import Lean
open Lean Elab Command

elab "restate " n:ident " := " src:ident : command => do
  let srcName ← liftCoreM <| realizeGlobalConstNoOverloadWithInfo src
  let env ← getEnv
  let some ci := env.find? srcName | throwError "unknown constant {srcName}"
  unless ci matches .thmInfo _ do throwError "{srcName} is not a theorem"
  let ns ← getCurrNamespace
  let name := ns ++ n.getId
  let decl := Declaration.thmDecl {
    name, levelParams := ci.levelParams, type := ci.type,
    value := mkConst srcName (ci.levelParams.map mkLevelParam) }
  liftCoreM <| addDecl decl
