/-
  C19 — a stream is one forward cursor: peeks do not consume, nothing skipped/repeated.

  Property theorems only; helper lemmas live in Proofs/Utf8, StreamBuf, StreamSim, StreamOps.
  Everything is about `Model/Stream.lean` (engine/stream.go and GetChar/PeekChar/GetByte/PeekByte/
  ReadTerm of engine/builtin.go, as repaired for D17 and D18) and `Model/StreamOut.lean` (output
  side), judged by `Spec/Cursor.lean` (bytes + one index + "end_of_file was delivered").  The tie to
  the source are the correspondence streams `c19.ops` and `c19.out`.

  Quantifiers.  `c : Cfg` is any source (list of bytes), any behaviour of the underlying io.Reader
  (how many bytes each Read returns — a function —, whether the last bytes come with io.EOF,
  whether it is a file of known size), text or binary, any eof_action.  `sc : Scanner σ` is ANY term
  reader that pulls runes one at a time and stops on its look-ahead rune or at the end of the input.
  `prog : List (List Op)` is any finite sequence of queries, each any conjunction of the eight
  operations — i.e. every operation sequence in every grouping into conjunctions.
-/
import PrologVerif.Proofs.StreamOps
import PrologVerif.Proofs.StreamSeg
import PrologVerif.Spec.CursorSeg
import PrologVerif.Proofs.StreamOut
import PrologVerif.Model.ClauseScanner
namespace PrologVerif.C19
open PrologVerif PrologVerif.Stream PrologVerif.Stream.Spec

variable {σ : Type}

/-- the streams a program can produce: the state after any sequence of queries on a fresh stream -/
def Reachable (c : Cfg) (sc : Scanner σ) (s : Stream) : Prop :=
  ∃ prog : List (List Op), s = (runProg c sc prog Stream.init).2

/-! ### the continuation structure is irrelevant (D17 repaired) -/

/-- **C19_conj_sequential**: a conjunction in continuation-passing style — every built-in receives
    the rest of the conjunction as its continuation and runs it inline, as `Unify(…, k, env)` does in
    Go — delivers exactly what running the goals one after the other delivers, and leaves the same
    stream.  Nothing a goal does to the stream happens after its continuation has started. -/
theorem C19_conj_sequential (c : Cfg) (sc : Scanner σ) (ops : List Op) (s : Stream) :
    runConj c sc ops s = seqConj c sc ops s := by
  rw [runConj_eq_seqConj]

/-- **C19_grouping_irrelevant**: if no goal raises an error, the results and the final stream do not
    depend on how the goals are grouped into queries: all goals as ONE conjunction deliver the
    concatenation of what the separate queries deliver.  (An error ends its conjunction, so with
    errors the grouping decides which goals run at all; `C19_refines_cursor` covers that.) -/
theorem C19_grouping_irrelevant (c : Cfg) (sc : Scanner σ) (prog : List (List Op)) (s : Stream)
    (h : ∀ r ∈ (runProg c sc prog s).1.flatten, r.isErr = false) :
    runConj c sc prog.flatten s = ((runProg c sc prog s).1.flatten, (runProg c sc prog s).2) := by
  rw [runConj_eq_seqConj]
  exact runProg_flatten c sc prog s h

/-! ### refinement of the cursor specification -/

/-- **C19_refines_cursor**: for every source, reader behaviour, stream type, eof action, term reader
    and every finite sequence of queries (every grouping of every operation sequence), starting from
    a fresh stream: the specification accepts every result in turn — each get/peek/read_term returns
    what the specification returns from ITS index, so consecutive reads deliver consecutive
    characters/bytes/terms across kinds, nothing lost or delivered twice, peeks deliver without
    advancing, the end delivers end_of_file / -1 and then the eof action applies — and afterwards
    `position` equals the number of bytes the specification has consumed, `end_of_stream` is `past`
    exactly if end_of_file was delivered, and is `not` unless no input remains. -/
theorem C19_refines_cursor (c : Cfg) (hv : c.Valid) (sc : Scanner σ) (prog : List (List Op)) :
    ∃ cu : Cursor,
      Spec.judge c.spec sc prog (runProg c sc prog Stream.init).1 {} = some cu ∧
      (runProg c sc prog Stream.init).2.position = (cu.idx : Int) ∧
      ((runProg c sc prog Stream.init).2.endOfStream = .past ↔ cu.delivered = true) ∧
      ((runProg c sc prog Stream.init).2.endOfStream ≠ .not → cu.idx = c.src.length) := by
  obtain ⟨cu, hj, hs⟩ := runProg_sim hv sc prog (sim_init c hv)
  exact ⟨cu, hj, hs.pos_eq, hs.past_iff, hs.end_of⟩

/-- **C19_bytes_in_order**: "nothing lost, nothing delivered twice" spelled out for a binary stream.
    Whatever else the queries do in between (peeks, property queries, character or term goals that
    raise their type error, reads at and past the end, errors that end a conjunction), the bytes
    handed out by the `get_byte` goals are, in program order, exactly the first bytes of the source —
    as many as `position` says. -/
theorem C19_bytes_in_order (c : Cfg) (hv : c.Valid) (hb : c.typ = .binary) (sc : Scanner σ)
    (prog : List (List Op)) :
    gotBytes prog (runProg c sc prog Stream.init).1 =
      c.src.take (gotBytes prog (runProg c sc prog Stream.init).1).length ∧
    (runProg c sc prog Stream.init).2.position =
      ((gotBytes prog (runProg c sc prog Stream.init).1).length : Int) := by
  obtain ⟨cu, hj, hs⟩ := runProg_sim hv sc prog (sim_init c hv)
  obtain ⟨_, hgot⟩ := judge_bytes c.spec hb sc prog _ {} cu hj
  have hle := hs.idx_le
  have hlen : (gotBytes prog (runProg c sc prog Stream.init).1).length = cu.idx := by
    rw [hgot]; simp [Cfg.spec]; omega
  constructor
  · rw [hlen]; rw [hgot]; simp [Cfg.spec]
  · rw [hlen]; exact hs.pos_eq

/-- **C19_chars_in_order**: the same for a text stream whose source is the UTF-8 text of the characters
    `runes` (any Unicode scalar values other than U+FFFD, so 1 to 4 bytes each): whatever the queries
    do in between (peeks, property queries, byte goals that raise their type error, reads at and past
    the end) — as long as there is no read_term, which consumes characters without handing them out —
    the characters handed out by the `get_char` goals are, in program order, exactly the first
    characters of the source, and `position` is the length of their encoding. -/
theorem C19_chars_in_order (c : Cfg) (hv : c.Valid) (ht : c.typ = .text) (runes : List Nat)
    (hg : GoodRunes runes) (hsrc : c.src = encAll runes) (sc : Scanner σ) (prog : List (List Op))
    (hnr : ∀ q ∈ prog, Op.readTerm ∉ q) :
    gotChars prog (runProg c sc prog Stream.init).1 =
      runes.take (gotChars prog (runProg c sc prog Stream.init).1).length ∧
    (runProg c sc prog Stream.init).2.position =
      ((encAll (gotChars prog (runProg c sc prog Stream.init).1)).length : Int) := by
  obtain ⟨cu, hj, hs⟩ := runProg_sim hv sc prog (sim_init c hv)
  obtain ⟨k', _, hk', hidx, hgot⟩ :=
    judge_chars c.spec ht runes hg hsrc sc prog _ {} cu 0 hnr (Nat.zero_le _) (by simp [encAll]) hj
  simp only [List.drop_zero, Nat.sub_zero] at hgot
  have hlen : (gotChars prog (runProg c sc prog Stream.init).1).length = k' := by
    rw [hgot]; simp; omega
  constructor
  · rw [hlen]; exact hgot
  · rw [hs.pos_eq, hidx, hgot]

/-- **C19_reachable_sim**: every reachable stream is in the simulation relation with some cursor of the
    specification (the invariant behind the theorems below) -/
theorem C19_reachable_sim {c : Cfg} (hv : c.Valid) {sc : Scanner σ} {s : Stream} (h : Reachable c sc s) :
    ∃ cu, Sim c s cu := by
  obtain ⟨prog, rfl⟩ := h
  obtain ⟨cu, _, hs⟩ := runProg_sim hv sc prog (sim_init c hv)
  exact ⟨cu, hs⟩

/-- **C19_no_internal_error**: on a reachable stream no operation ends in the catch-all error of the
    model (io.ErrNoProgress, fuel of the reader loop exhausted, impossible buffer states): the model's
    totalisations are never exercised. -/
theorem C19_no_internal_error (c : Cfg) (hv : c.Valid) (sc : Scanner σ) (s : Stream) (hr : Reachable c sc s)
    (o : Op) : (stepOp c sc o s).1 ≠ .err .other := by
  obtain ⟨cu, hs⟩ := C19_reachable_sim hv hr
  obtain ⟨_, _, _, hne⟩ := stepOp_sim hv sc hs o
  exact hne

/-! ### peeks do not consume -/

/-- **C19_peek_idempotent**: on every reachable stream, `peek_char` (and likewise `peek_byte`)
    (1) leaves `position` and the number of consumed bytes unchanged,
    (2) delivers the same again when repeated,
    (3) delivers what the following `get_char` delivers (peek = read without advancing),
    (4) leaves `end_of_stream` unchanged — except that peeking the end of file on a stream that did
        not know it was at its end turns `not` into `at` (never into `past`).  (A stream that is
        past with eof_action(reset) is reset by any input operation, a peek included; that is the eof
        action, not the peek, and is excluded from (4).) -/
theorem C19_peek_idempotent (c : Cfg) (hv : c.Valid) (sc : Scanner σ) (s : Stream) (hr : Reachable c sc s) :
    ((stepOp c sc .peekChar s).2.position = s.position ∧
     (stepOp c sc .peekChar s).2.buf.cur = s.buf.cur ∧
     (stepOp c sc .peekChar (stepOp c sc .peekChar s).2).1 = (stepOp c sc .peekChar s).1 ∧
     (stepOp c sc .getChar (stepOp c sc .peekChar s).2).1 = (stepOp c sc .peekChar s).1 ∧
     (s.endOfStream ≠ .past ∨ c.action ≠ .reset →
       (stepOp c sc .peekChar s).2.endOfStream = s.endOfStream ∨
       ((stepOp c sc .peekChar s).1 = .eof ∧ s.endOfStream = .not ∧
         (stepOp c sc .peekChar s).2.endOfStream = .at))) ∧
    ((stepOp c sc .peekByte s).2.position = s.position ∧
     (stepOp c sc .peekByte s).2.buf.cur = s.buf.cur ∧
     (stepOp c sc .peekByte (stepOp c sc .peekByte s).2).1 = (stepOp c sc .peekByte s).1 ∧
     (stepOp c sc .getByte (stepOp c sc .peekByte s).2).1 = (stepOp c sc .peekByte s).1 ∧
     (s.endOfStream ≠ .past ∨ c.action ≠ .reset →
       (stepOp c sc .peekByte s).2.endOfStream = s.endOfStream ∨
       ((stepOp c sc .peekByte s).1 = .eofByte ∧ s.endOfStream = .not ∧
         (stepOp c sc .peekByte s).2.endOfStream = .at))) := by
  obtain ⟨cu, hs⟩ := C19_reachable_sim hv hr
  constructor
  · obtain ⟨hres, _, hpk⟩ := readRune_sim hv hs
    obtain ⟨hres2, _, _⟩ := readRune_sim hv hpk
    have hidx := cursorReadRune_peek_idx c cu
    have hfix := cursorReadRune_peek_fix c cu
    simp only [stepOp]
    refine ⟨?_, ?_, ?_, ?_, ?_⟩
    · rw [hpk.pos_eq, hs.pos_eq, hidx]
    · rw [hpk.cur_eq, hs.cur_eq, hidx]
    · rw [hres2, hfix, hres]
    · rw [hres2, hfix, hres]
    · intro hnr
      rcases peekRune_eos hv hs hnr with h1 | ⟨h1, h2, h3⟩
      · left; exact h1
      · right; exact ⟨by rw [h1]; rfl, h2, h3⟩
  · obtain ⟨hres, _, hpk⟩ := readByte_sim hv hs
    obtain ⟨hres2, _, _⟩ := readByte_sim hv hpk
    have hidx := cursorReadByte_peek_idx c cu
    have hfix := cursorReadByte_peek_fix c cu
    simp only [stepOp]
    refine ⟨?_, ?_, ?_, ?_, ?_⟩
    · rw [hpk.pos_eq, hs.pos_eq, hidx]
    · rw [hpk.cur_eq, hs.cur_eq, hidx]
    · rw [hres2, hfix, hres]
    · rw [hres2, hfix, hres]
    · intro hnr
      rcases peekByte_eos hv hs hnr with h1 | ⟨h1, h2, h3⟩
      · left; exact h1
      · right; exact ⟨by rw [h1]; rfl, h2, h3⟩

/-! ### end_of_stream -/

/-- **C19_eos_sound**: on every reachable stream
    (a) `end_of_stream` is `at` or `past` only if no input remains (all bytes of the source are consumed);
    (b) a `get_char`, `get_byte` or `read_term` that delivers end_of_file / -1 leaves the stream `past`;
    (c) on a stream that is `past`, every input operation follows the eof action: with `error` it raises
        permission_error(input, past_end_of_stream, S) and consumes nothing, the stream stays `past`;
        with `eof_code` and with `reset` a `get_char` on a text stream (`get_byte` on a binary one)
        delivers end_of_file (-1) again and the stream is `past` again. -/
theorem C19_eos_sound (c : Cfg) (hv : c.Valid) (sc : Scanner σ) (s : Stream) (hr : Reachable c sc s) :
    (s.endOfStream ≠ .not → s.buf.cur = c.src.length) ∧
    (((stepOp c sc .getChar s).1 = .eof → (stepOp c sc .getChar s).2.endOfStream = .past) ∧
     ((stepOp c sc .getByte s).1 = .eofByte → (stepOp c sc .getByte s).2.endOfStream = .past) ∧
     ((stepOp c sc .readTerm s).1 = .eof → (stepOp c sc .readTerm s).2.endOfStream = .past)) ∧
    (s.endOfStream = .past →
      (c.action = .error → ∀ o, o = .getChar ∨ o = .peekChar ∨ o = .getByte ∨ o = .peekByte ∨ o = .readTerm →
        (stepOp c sc o s).1 = .err .pastEOS ∧ (stepOp c sc o s).2.endOfStream = .past ∧
        (stepOp c sc o s).2.position = s.position) ∧
      (c.action ≠ .error → c.typ = .text →
        (stepOp c sc .getChar s).1 = .eof ∧ (stepOp c sc .getChar s).2.endOfStream = .past) ∧
      (c.action ≠ .error → c.typ = .binary →
        (stepOp c sc .getByte s).1 = .eofByte ∧ (stepOp c sc .getByte s).2.endOfStream = .past)) := by
  obtain ⟨cu, hs⟩ := C19_reachable_sim hv hr
  refine ⟨?_, ⟨?_, ?_, ?_⟩, ?_⟩
  · intro hne; rw [hs.cur_eq]; exact hs.end_of hne
  · intro he
    obtain ⟨cu', hck, hs', _⟩ := stepOp_sim hv sc hs .getChar
    have := check_exact_getChar _ _ _ _ _ hck
    rw [he] at this
    exact hs'.past_iff.mpr (spec_readChar_eof _ _ _ this)
  · intro he
    obtain ⟨cu', hck, hs', _⟩ := stepOp_sim hv sc hs .getByte
    have := check_exact_getByte _ _ _ _ _ hck
    rw [he] at this
    exact hs'.past_iff.mpr (spec_readByte_eof _ _ _ this)
  · intro he
    obtain ⟨cu', hck, hs', _⟩ := stepOp_sim hv sc hs .readTerm
    have := check_exact_readTerm _ _ _ _ _ hck
    rw [he] at this
    exact hs'.past_iff.mpr (spec_readTerm_eof _ _ _ _ this)
  · intro hpast
    have hd : cu.delivered = true := hs.past_iff.mp hpast
    have hidx := hs.delivered_end hd
    refine ⟨?_, ?_, ?_⟩
    · intro ha o ho
      have hpa : pastAction c.action cu = (some .pastEOS, cu) := by unfold pastAction; simp [hd, ha]
      have hcr : cursorReadRune c cu = (.err .pastEOS, cu, cu) := by unfold cursorReadRune; rw [hpa]
      have hcb : cursorReadByte c cu = (.err .pastEOS, cu, cu) := by unfold cursorReadByte; rw [hpa]
      obtain ⟨hr1, hg1, hp1⟩ := readRune_sim hv hs
      obtain ⟨hr2, hg2, hp2⟩ := readByte_sim hv hs
      rw [hcr] at hr1 hg1 hp1
      rw [hcb] at hr2 hg2 hp2
      rcases ho with rfl | rfl | rfl | rfl | rfl
      · simp only [stepOp, hr1]
        exact ⟨rfl, hg1.past_iff.mpr hd, by rw [hg1.pos_eq, hs.pos_eq]⟩
      · simp only [stepOp, hr1]
        exact ⟨rfl, hp1.past_iff.mpr hd, by rw [hp1.pos_eq, hs.pos_eq]⟩
      · simp only [stepOp, hr2]
        exact ⟨rfl, hg2.past_iff.mpr hd, by rw [hg2.pos_eq, hs.pos_eq]⟩
      · simp only [stepOp, hr2]
        exact ⟨rfl, hp2.past_iff.mpr hd, by rw [hp2.pos_eq, hs.pos_eq]⟩
      · have hsl := scanLoop_err c sc (c.src.length + 1) sc.init s .pastEOS hr1
        simp only [stepOp, hsl]
        exact ⟨rfl, hp1.past_iff.mpr hd, by rw [hp1.pos_eq, hs.pos_eq]⟩
    · intro ha ht
      obtain ⟨cu', hck, hs', _⟩ := stepOp_sim hv sc hs .getChar
      have hex := check_exact_getChar _ _ _ _ _ hck
      have hsp : Spec.readChar c.spec true cu = (.eof, { idx := cu.idx, delivered := true }) := by
        unfold Spec.readChar pastAction
        cases hac : c.action with
        | error => exact absurd hac ha
        | eofCode => simp [Cfg.spec, hd, hac, ht, hidx, deliverEOF]
        | reset => simp [Cfg.spec, hd, hac, ht, hidx, deliverEOF]
      rw [hsp] at hex
      have h1 : (stepOp c sc .getChar s).1 = .eof := (Prod.mk.inj hex).1.symm
      have h2 : cu' = { idx := cu.idx, delivered := true } := (Prod.mk.inj hex).2.symm
      exact ⟨h1, hs'.past_iff.mpr (by rw [h2])⟩
    · intro ha ht
      obtain ⟨cu', hck, hs', _⟩ := stepOp_sim hv sc hs .getByte
      have hex := check_exact_getByte _ _ _ _ _ hck
      have hnone : c.src[cu.idx]? = none := by simp [hidx]
      have hsp : Spec.readByte c.spec true cu = (.eofByte, { idx := cu.idx, delivered := true }) := by
        unfold Spec.readByte pastAction
        cases hac : c.action with
        | error => exact absurd hac ha
        | eofCode => simp [Cfg.spec, hd, hac, ht, hnone, deliverEOF]
        | reset => simp [Cfg.spec, hd, hac, ht, hnone, deliverEOF]
      rw [hsp] at hex
      have h1 : (stepOp c sc .getByte s).1 = .eofByte := (Prod.mk.inj hex).1.symm
      have h2 : cu' = { idx := cu.idx, delivered := true } := (Prod.mk.inj hex).2.symm
      exact ⟨h1, hs'.past_iff.mpr (by rw [h2])⟩

/-! ### reads that fail -/

/-- **C19_read_error_consumes_what_it_read**: a `read_term` that ends in a syntax error is a cursor
    operation like any other.  On every reachable text stream that is not past its end, if the reader
    fails — on a rune, which is then its look-ahead, or at the end of the input — then
    (1) the cursor stands exactly behind the bytes of the runes the reader consumed (`Spec.scan`: the runes
        it was fed minus the look-ahead it stopped on): nothing more is swallowed, nothing is given back twice;
    (2) `position` has advanced by the same number;
    (3) the stream is not `past`: an end of file the reader ran into was only looked at, not delivered;
    (4) the operation that follows starts there: `get_char` delivers what the specification delivers from
        that cursor (the look-ahead rune itself if the reader stopped on one, end_of_file if it ran into the
        end), and `peek_char` likewise. -/
theorem C19_read_error_consumes_what_it_read (c : Cfg) (hv : c.Valid) (sc : Scanner σ) (s : Stream)
    (hr : Reachable c sc s) (ht : c.typ = .text) (hnp : s.endOfStream ≠ .past)
    (herr : (stepOp c sc .readTerm s).1 = .err .syntax) :
    (stepOp c sc .readTerm s).2.buf.cur =
      s.buf.cur + (Spec.scan sc (c.src.length + 2) sc.init (c.src.drop s.buf.cur) 0).2 ∧
    (stepOp c sc .readTerm s).2.position =
      s.position + ((Spec.scan sc (c.src.length + 2) sc.init (c.src.drop s.buf.cur) 0).2 : Int) ∧
    (stepOp c sc .readTerm s).2.endOfStream ≠ .past ∧
    (stepOp c sc .getChar (stepOp c sc .readTerm s).2).1 =
      (Spec.readChar c.spec true
        { idx := s.buf.cur + (Spec.scan sc (c.src.length + 2) sc.init (c.src.drop s.buf.cur) 0).2,
          delivered := false }).1 ∧
    (stepOp c sc .peekChar (stepOp c sc .readTerm s).2).1 =
      (Spec.readChar c.spec false
        { idx := s.buf.cur + (Spec.scan sc (c.src.length + 2) sc.init (c.src.drop s.buf.cur) 0).2,
          delivered := false }).1 := by
  obtain ⟨cu, hs⟩ := C19_reachable_sim hv hr
  have hd : cu.delivered = false := by
    cases hd : cu.delivered with
    | false => rfl
    | true => exact absurd (hs.past_iff.mpr hd) hnp
  obtain ⟨cu', hck, hs', _⟩ := stepOp_sim hv sc hs .readTerm
  have hex := check_exact_readTerm _ _ _ _ _ hck
  rw [herr] at hex
  have hcu' := spec_readTerm_syntax c.spec sc cu cu' ht hd hex
  have hcur : cu.idx = s.buf.cur := hs.cur_eq.symm
  simp only [Cfg.spec] at hcu'
  rw [hcur] at hcu'
  have hd' : cu'.delivered = false := by rw [hcu']; exact hd
  obtain ⟨cg, hckg, _, _⟩ := stepOp_sim hv sc hs' .getChar
  obtain ⟨cp, hckp, _, _⟩ := stepOp_sim hv sc hs' .peekChar
  have hg := check_exact_getChar _ _ _ _ _ hckg
  have hp := check_exact_peekChar _ _ _ _ _ hckp
  have hcu'' : cu' = { idx := s.buf.cur + (Spec.scan sc (c.src.length + 2) sc.init (c.src.drop s.buf.cur) 0).2,
                       delivered := false } := by rw [hcu', hd]
  refine ⟨?_, ?_, ?_, ?_, ?_⟩
  · rw [hs'.cur_eq, hcu']
  · rw [hs'.pos_eq, hcu', hs.pos_eq, hcur]; simp
  · intro hpast; have := hs'.past_iff.mp hpast; rw [hd'] at this; exact absurd this (by decide)
  · rw [← hcu'', hg]
  · rw [← hcu'', hp]

/-! ### sources that go on after an end of file (eof_action(reset) over a terminal-like reader) -/

/-- **C19_reset_segments_statement** (open): for every source that goes on after its ends of file (any list of
    segments, any chunking, last bytes with or without io.EOF), eof_action reset or error, any term reader and
    every sequence of queries, the model is accepted by the segment specification Spec/CursorSeg.lean
    (`at` only when the current segment has no unread byte, reset moves to the next segment).  Checked by
    the correspondence stream c19.ops (rd=seg) on model and implementation; proved below for the buffer. -/
def C19_reset_segments_statement : Prop :=
  ∀ (σ : Type) (sc : Scanner σ) (c : Cfg), MarksOk c → c.rd.fileSize = none → c.action ≠ .eofCode →
    ∀ prog : List (List Op),
      (SegSpec.judge { bytes := c.src, typ := c.typ, action := c.action, marks := c.rd.marks } sc prog
        (runProg c sc prog Stream.init).1 {}).isSome = true

/-- **C19_reset_segments_partial**: the buffer level of it, for ALL segment lists (ascending marks), all
    chunkings and ALL sequences of the buffer operations a stream performs — reads, unreads and resets in
    any order, across any number of ends of file:
    (1) the buffer never fetches from behind an end-of-file mark the source has not reported yet;
    (2) "the source's last Read reported io.EOF" — the fact checkEOS turns into end_of_stream(at) when the
        buffer is empty — holds only while the buffer has fetched exactly up to the end of file that was
        reported; so whenever checkEOS's test `Buffered() == 0 && ReadErr() == io.EOF` succeeds, the cursor
        stands exactly at that end of file: no byte of the segment that ended is unread, and (by (1)) nothing
        of the next segment is in the buffer.  In particular a reset clears the recorded error: `at` is never
        reported because an EARLIER segment ended. -/
theorem C19_reset_segments_partial (c : Cfg) (hm : MarksOk c) (ops : List BufOp) :
    SegInv c (ops.foldl (fun b o => applyBufOp c o b) {}) ∧
    ((ops.foldl (fun b o => applyBufOp c o b) {}).buffered = 0 →
     (ops.foldl (fun b o => applyBufOp c o b) {}).rdErr = true →
      (ops.foldl (fun b o => applyBufOp c o b) {}).cur = (ops.foldl (fun b o => applyBufOp c o b) {}).fetched ∧
      ((1 ≤ (ops.foldl (fun b o => applyBufOp c o b) {}).eofs ∧
          c.rd.marks[(ops.foldl (fun b o => applyBufOp c o b) {}).eofs - 1]? =
            some (ops.foldl (fun b o => applyBufOp c o b) {}).cur) ∨
       ((ops.foldl (fun b o => applyBufOp c o b) {}).eofs = c.rd.marks.length ∧
          (ops.foldl (fun b o => applyBufOp c o b) {}).cur = c.src.length))) := by
  have hinit : SegInv c ({} : Buf) := by
    refine ⟨Nat.le_refl _, Nat.zero_le _, Nat.zero_le _, ?_, ?_⟩ <;> (intro hh; exact absurd hh (by decide))
  have key : ∀ (ops : List BufOp) (b : Buf), SegInv c b → SegInv c (ops.foldl (fun b o => applyBufOp c o b) b) := by
    intro ops
    induction ops with
    | nil => intro b h; exact h
    | cons o os ih =>
      intro b h
      apply ih
      cases o with
      | readRune => exact (bufReadRune_seg_inv hm h).1
      | readByte => exact (bufReadByte_seg_inv hm h).1
      | unreadRune =>
        simp only [applyBufOp]
        cases hu : bufUnreadRune b with
        | none => exact h
        | some b' => exact bufUnreadRune_seg_inv h hu
      | unreadByte =>
        simp only [applyBufOp]
        cases hu : bufUnreadByte b with
        | none => exact h
        | some b' => exact bufUnreadByte_seg_inv h hu
      | reset => exact reset_seg_inv h
  have hfin := key ops {} hinit
  exact ⟨hfin, fun he hr => at_means_segment_end hfin he hr⟩

/-- a segmented source: `ab`, end of file, `cd`, end of file, `e` -/
example : MarksOk { src := [97, 98, 99, 100, 101],
                    rd := { chunk := fun _ => 1, eofWithData := false, fileSize := none, marks := [2, 4] },
                    typ := .text, action := .reset } := by
  refine ⟨by decide, by decide, by decide⟩

/-! ### UTF-8 -/

/-- **C19_utf8**: on a reachable text stream that is not past its end,
    (a) if the unconsumed input starts with the UTF-8 encoding of a character `r` (any Unicode scalar
        value other than U+FFFD — 1 to 4 bytes), `get_char` delivers `r` and advances `position` by the
        encoded length; `peek_char` delivers `r` and does not move;
    (b) if it starts with bytes that are not an encoding (`DecodeRune` = (RuneError, 1): a byte that
        cannot start a character, a truncated or overlong sequence, a surrogate), `get_char` raises
        representation_error(character) and advances `position` by exactly 1; `peek_char` raises the
        same and does not move. -/
theorem C19_utf8 (c : Cfg) (hv : c.Valid) (sc : Scanner σ) (s : Stream) (hr : Reachable c sc s)
    (ht : c.typ = .text) (hnp : s.endOfStream ≠ .past) :
    (∀ r rest, validRune r → r ≠ runeError → c.src.drop s.buf.cur = encodeRune r ++ rest →
      (stepOp c sc .getChar s).1 = .char r ∧
      (stepOp c sc .getChar s).2.position = s.position + ((encodeRune r).length : Int) ∧
      (stepOp c sc .peekChar s).1 = .char r ∧
      (stepOp c sc .peekChar s).2.position = s.position) ∧
    (∀ b rest, c.src.drop s.buf.cur = b :: rest → decodeRune (b :: rest) = (runeError, 1) →
      (stepOp c sc .getChar s).1 = .err .reprChar ∧
      (stepOp c sc .getChar s).2.position = s.position + 1 ∧
      (stepOp c sc .peekChar s).1 = .err .reprChar ∧
      (stepOp c sc .peekChar s).2.position = s.position) := by
  obtain ⟨cu, hs⟩ := C19_reachable_sim hv hr
  have hd : cu.delivered = false := by
    cases hd : cu.delivered with
    | false => rfl
    | true => exact absurd (hs.past_iff.mpr hd) hnp
  obtain ⟨hres, hg, hpk⟩ := readRune_sim hv hs
  rw [cursorReadRune_of_none c cu (pastAction_not_delivered _ _ hd)] at hres hg hpk
  have key : ∀ (bytes : List Nat), bytes ≠ [] → c.src.drop s.buf.cur = bytes →
      (readRune c s).1 = .ok (decodeRune bytes) ∧
      (readRune c s).2.position = s.position + ((decodeRune bytes).2 : Int) ∧
      (unreadRune c (readRune c s).2).position = s.position := by
    intro bytes hne hb
    rw [hs.cur_eq] at hb
    have hlt : cu.idx < c.src.length := by
      by_cases hl : cu.idx < c.src.length
      · exact hl
      · have : c.src.drop cu.idx = [] := by apply List.drop_eq_nil_of_le; omega
        rw [this] at hb; exact absurd hb.symm hne
    rw [cursorRuneBody_lt c cu ht hlt, hb] at hres hg hpk
    refine ⟨hres, ?_, ?_⟩
    · rw [hg.pos_eq, hs.pos_eq]; simp
    · rw [hpk.pos_eq, hs.pos_eq]
  constructor
  · intro r rest hvr hne hb
    obtain ⟨k1, k2, k3⟩ := key (encodeRune r ++ rest) (by
      intro h; have := congrArg List.length h
      rw [List.length_append, encodeRune_length] at this
      simp at this; split at this <;> (try split at this) <;> (try split at this) <;> omega) hb
    rw [decodeRune_encodeRune r hvr rest] at k1 k2
    simp only [stepOp, k1, charRes, hne, if_false]
    exact ⟨trivial, k2, trivial, k3⟩
  · intro b rest hb hdec
    obtain ⟨k1, k2, k3⟩ := key (b :: rest) (by simp) hb
    rw [hdec] at k1 k2
    simp only [stepOp, k1, charRes, if_true]
    exact ⟨trivial, by simpa using k2, trivial, k3⟩

/-- bytes that cannot start a character (0x80–0xC1, 0xF5–0xFF) are such non-encodings -/
theorem C19_utf8_invalid_lead (b : Nat) (rest : List Nat) (h : (0x80 ≤ b ∧ b < 0xC2) ∨ 0xF5 ≤ b) :
    decodeRune (b :: rest) = (runeError, 1) := by
  apply decodeRune_invalid_lead
  unfold leadSize
  rcases h with ⟨h1, h2⟩ | h1
  · have : ¬ b < 0x80 := by omega
    simp [this, h2]
  · have h2 : ¬ b < 0x80 := by omega
    have h3 : ¬ b < 0xC2 := by omega
    have h4 : ¬ b < 0xE0 := by omega
    have h5 : ¬ b < 0xF0 := by omega
    have h6 : ¬ b < 0xF5 := by omega
    simp [h2, h3, h4, h5, h6]

/-! ### output -/

open PrologVerif.StreamOut in
/-- **C19_output_order**: for every sequence of queries made of put_char / nl / put_byte / write /
    writeq goals on an output stream of either type, the sink has received exactly the bytes of the
    goals that succeeded, each completely, in program order (an error ends its conjunction and sends
    nothing), and `position` has advanced by their number. -/
theorem C19_output_order (typ : StreamType) (prog : List (List StreamOut.OutOp)) (s : StreamOut.Sink) :
    (StreamOut.runProg typ prog s).bytes = s.bytes ++ StreamOut.specSink typ prog ∧
    (StreamOut.runProg typ prog s).position = s.position + ((StreamOut.specSink typ prog).length : Int) := by
  induction prog generalizing s with
  | nil => simp [StreamOut.runProg, specSink]
  | cons q qs ih =>
    simp only [StreamOut.runProg]
    obtain ⟨i1, i2⟩ := ih (StreamOut.runConj typ q s).2
    obtain ⟨j1, j2⟩ := StreamOut.out_runConj typ q s
    rw [i1, i2, j1, j2]
    simp only [specSink, List.map_cons, List.flatten_cons, List.append_assoc, List.length_append, true_and]
    omega

/-! ### what D17 was, and non-vacuity -/

/-- the source `é1` behind a strings.Reader, text, eof_action(reset) -/
def exCfg : Cfg :=
  { src := [0xC3, 0xA9, 0x31], rd := { chunk := fun _ => 4096, eofWithData := false, fileSize := none },
    typ := .text, action := .reset }

/-- the source `a. b.` as a file opened with eof_action(error) -/
def exFile : Cfg :=
  { src := [97, 46, 32, 98, 46], rd := { chunk := fun _ => 4096, eofWithData := false, fileSize := some 5 },
    typ := .text, action := .error }

/-- **C19_deferred_unread_witness** (D17, the pinned shape): if PeekChar's unread is deferred until its
    continuation has returned, a peek is NOT a peek for the goal that follows in the same conjunction:
    on `é1`, `peek_char(S, X), peek_char(S, Y)` delivers `é` and then `1`.  The repaired `peekChar` of the
    model delivers `é` twice (`C19_peek_idempotent`, and the example below). -/
theorem C19_deferred_unread_witness :
    ¬ (∀ (c : Cfg) (k : Cont) (s : Stream), (Deferred.peekChar c k s).1 = (peekChar c k s).1) := by
  intro h
  have := h exCfg (peekChar exCfg (fun s => ([], s))) Stream.init
  revert this
  decide +kernel

example : exCfg.Valid := ⟨by intro n h; simp [exCfg] at h, rfl⟩
example : exFile.Valid := ⟨by intro n h; simp [exFile] at h ⊢; omega, rfl⟩

/-- one conjunction `peek_char, peek_char, get_char, get_char, get_char` on `é1` -/
example : (runConj exCfg Clause.scanner [.peekChar, .peekChar, .getChar, .getChar, .getChar] Stream.init).1 =
    [.char 0xE9, .char 0xE9, .char 0xE9, .char 0x31, .eof] := by decide +kernel

/-- `read(T), get_char(C), read(U), read(V), read(W)` on the file `a. b.` with eof_action(error):
    the look-ahead blank is not lost, the second term ends exactly at the end of the file, the next read
    delivers end_of_file, the one after that raises the permission error -/
example : (runProg exFile Clause.scanner [[.readTerm, .getChar], [.readTerm], [.propEos], [.readTerm], [.readTerm]] Stream.init).1 =
    [[.term (.atom "a"), .char 32], [.term (.atom "b")], [.eos .at], [.eof], [.err .pastEOS]] := by decide +kernel

/-- hypotheses of C19_chars_in_order: `é1` is the encoding of the characters é, 1 -/
example : GoodRunes [0xE9, 0x31] ∧ exCfg.src = encAll [0xE9, 0x31] ∧ exCfg.typ = .text := by
  refine ⟨?_, by decide, rfl⟩
  intro r hr
  simp at hr
  rcases hr with rfl | rfl <;> decide

/-- the source `foo(.%zap.` NL `bar.` NL behind a strings.Reader -/
def exBad : Cfg :=
  { src := [102, 111, 111, 40, 46, 37, 122, 97, 112, 46, 10, 98, 97, 114, 46, 10],
    rd := { chunk := fun _ => 4096, eofWithData := false, fileSize := none }, typ := .text, action := .error }

/-- the real reader, measured: fed `foo(.%` it raises a syntax error, `%` being its look-ahead -/
def exBadReader : Scanner Clause.Measured.St :=
  Clause.Measured.scanner [([102, 111, 111, 40, 46, 37], .synRune)] false

/-- the failed read consumes `foo(.` (5 bytes), the `%` it looked at is still there, and the next read
    delivers `bar`, not the commented-out `zap` -/
example : (runProg exBad exBadReader [[.readTerm], [.propPos, .peekChar], [.readTerm]] Stream.init).1 =
    [[.err .syntax], [.pos 5, .char 37], [.term (.atom "bar")]] := by decide +kernel

/-- the hypotheses of C19_read_error_consumes_what_it_read are met by that read -/
example : (stepOp exBad exBadReader .readTerm Stream.init).1 = .err .syntax ∧
    (Spec.scan exBadReader (exBad.src.length + 2) exBadReader.init (exBad.src.drop 0) 0).2 = 5 := by
  decide +kernel

example : Reachable exCfg Clause.scanner (runProg exCfg Clause.scanner [[.peekChar]] Stream.init).2 := ⟨_, rfl⟩

end PrologVerif.C19
