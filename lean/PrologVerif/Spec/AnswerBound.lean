/-
  Specification: how many answers a call may have — the part of "the call returns" (C05) that a first
  answer does not show.  A predicate that keeps producing answers its relation does not have never
  lets `G, fail`, findall/3 or \+ return.

    * the built-in predicates ISO/IEC 13211-1 (and the Prolog prologue) specify as NOT re-executable
      have at most one answer, whatever their arguments;
    * between/3 with integer bounds and an unbound third argument has exactly max(0, H−L+1) answers
      (the integers L..H, Spec/Relations `between`), with an integer third argument at most one.

  Everything else is `unknown` here (the relational built-ins are C16's subject).
-/
import PrologVerif.Basic
namespace PrologVerif.AnswerBound

/-- not re-executable (8.2–8.17 of the standard, Cor.2, and the deterministic predicates of the prologue
    and of bootstrap.pl) -/
def semidet : List (String × Nat) :=
  [("var", 1), ("atom", 1), ("integer", 1), ("float", 1), ("atomic", 1), ("compound", 1), ("nonvar", 1),
   ("number", 1), ("callable", 1), ("ground", 1), ("acyclic_term", 1),
   ("=", 2), ("\\=", 2), ("unify_with_occurs_check", 2), ("subsumes_term", 2),
   ("==", 2), ("\\==", 2), ("@<", 2), ("@=<", 2), ("@>", 2), ("@>=", 2), ("compare", 3),
   ("functor", 3), ("arg", 3), ("=..", 2), ("copy_term", 2), ("term_variables", 2),
   ("is", 2), ("=:=", 2), ("=\\=", 2), ("<", 2), ("=<", 2), (">", 2), (">=", 2),
   ("asserta", 1), ("assertz", 1), ("abolish", 1), ("retractall", 1), ("findall", 3),
   ("atom_length", 2), ("char_code", 2), ("atom_chars", 2), ("atom_codes", 2), ("number_chars", 2), ("number_codes", 2),
   ("set_prolog_flag", 2), ("op", 3), ("char_conversion", 2), ("sort", 2), ("keysort", 2), ("succ", 2),
   ("open", 3), ("open", 4), ("close", 1), ("close", 2), ("set_input", 1), ("set_output", 1),
   ("current_input", 1), ("current_output", 1), ("flush_output", 0), ("flush_output", 1), ("set_stream_position", 2),
   ("at_end_of_stream", 0), ("at_end_of_stream", 1),
   ("get_char", 1), ("get_char", 2), ("peek_char", 1), ("peek_char", 2), ("put_char", 1), ("put_char", 2),
   ("get_code", 1), ("get_code", 2), ("peek_code", 1), ("peek_code", 2), ("put_code", 1), ("put_code", 2),
   ("get_byte", 1), ("get_byte", 2), ("peek_byte", 1), ("peek_byte", 2), ("put_byte", 1), ("put_byte", 2),
   ("nl", 0), ("nl", 1), ("read", 1), ("read", 2), ("read_term", 2), ("read_term", 3),
   ("write", 1), ("write", 2), ("writeq", 1), ("writeq", 2), ("write_canonical", 1), ("write_canonical", 2),
   ("write_term", 2), ("write_term", 3),
   ("\\+", 1), ("once", 1), ("true", 0), ("fail", 0), ("false", 0), ("!", 0), ("throw", 1),
   ("expand_term", 2), ("consult", 1)]

/-- the number of integers in L..H -/
def betweenCount (l h : Int) : Nat := (h - l + 1).toNat

inductive Bound
  | exactly (n : Nat)
  | atMost (n : Nat)
  | unknown
  deriving DecidableEq, Repr

/-- `args`: the arguments of the call as far as the case names them (`none`: a term the spec does not look at) -/
def bound (pred : String) (args : List (Option Term)) : Bound :=
  match pred, args with
  | "between", [some (.int l), some (.int h), some (.var _)] => .exactly (betweenCount l h)
  | "between", [some (.int _), some (.int _), some (.int _)] => .atMost 1
  | _, _ => if semidet.contains (pred, args.length) then .atMost 1 else .unknown

/-- judge an observed count: `n` answers were delivered; `more`: the harness stopped at its cap (`n` = cap)
    without exhausting the goal; `failed`: the call ended with an error (then only upper bounds apply) -/
def judge (b : Bound) (n : Nat) (more : Bool) (errored : Bool) : Option String :=
  match b with
  | .unknown => none
  | .atMost k => if n > k then some s!"{n}{if more then "+" else ""} answers, the predicate has at most {k}" else none
  | .exactly k =>
    if n > k then some s!"{n}{if more then "+" else ""} answers, the relation has {k}"
    else if !errored && !more && n < k then some s!"{n} answers, the relation has {k}"
    else none

end PrologVerif.AnswerBound
