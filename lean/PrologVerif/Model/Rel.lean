/-
  Model of the relational built-ins of engine/builtin.go (C16):

    AtomLength AtomConcat SubAtom AtomChars AtomCodes CharCode Between Succ
    Functor Arg Univ Nth0/Nth1/nth Length/lengthRundown/lengthAddendum/SkipMaxList
    Append/appendLists, and member/2, select/3 of bootstrap.pl (SLD over the regenerated clauses).

  A call is given by its *resolved* argument terms (no environment: the harness passes fresh,
  unbound variables).  Each builtin returns `Except Term Answers`:
    `.error e`  the ISO error term (context dropped), raised before any answer;
    `.ok ans`   the alternatives that succeed, IN ORDER; an answer is the tuple of the argument
                terms after the answer substitution has been applied.
  Infinite enumerations (between/3 over a long range, length/2 and append/3 with an unbound spine)
  take a bound `k`/`fuel`; theorems are stated per prefix.

  Text is handled as `List Char` (code points): `String.toList`, `String.length` count code points.
  The byte-level behaviour of the Go code (`for i := range s` over UTF-8 bytes, `[]rune(s)`) is
  modelled separately in `Model/Utf8.lean` and proved equal (C16 `text_is_chars`).

  Unification of the call pattern with a candidate tuple:
    * every text/integer builtin unifies with a GROUND candidate, which is one-way matching
      (`matchT`/`matchL`, structural recursion, verified in Proofs/RelMatch.lean);
    * the structural builtins unify with possibly non-ground data; `unifyM` dispatches to the
      matcher when one side is ground and to a Robinson unifier (`unifyE`) otherwise.
  The Go code has no occurs check; calls on which the occurs check would fire (cyclic answers)
  are outside the model (the generators are NSTO by construction).
-/
import PrologVerif.Model.Errors
import PrologVerif.Generated.Bootstrap
namespace PrologVerif.Rel
open PrologVerif

def minInt : Int := -9223372036854775808
def maxInt : Int := 9223372036854775807

/-! ## substitutions, groundness, variable bound -/

mutual
  /-- apply a substitution (a function on variables) -/
  def substT (f : Nat → Term) : Term → Term
    | .var v => f v
    | .app g as => .app g (substA f as)
    | .atom s => .atom s
    | .int i => .int i
    | .flt b => .flt b
    | .str n => .str n
  def substA (f : Nat → Term) : Args → Args
    | .nil => .nil
    | .cons t ts => .cons (substT f t) (substA f ts)
end

mutual
  def groundT : Term → Bool
    | .var _ => false
    | .app _ as => groundA as
    | _ => true
  def groundA : Args → Bool
    | .nil => true
    | .cons t ts => groundT t && groundA ts
end

mutual
  /-- all variables of the term are `< boundT t` -/
  def boundT : Term → Nat
    | .var v => v + 1
    | .app _ as => boundA as
    | _ => 0
  def boundA : Args → Nat
    | .nil => 0
    | .cons t ts => max (boundT t) (boundA ts)
end

mutual
  def occursT (x : Nat) : Term → Bool
    | .var v => v == x
    | .app _ as => occursA x as
    | _ => false
  def occursA (x : Nat) : Args → Bool
    | .nil => false
    | .cons t ts => occursT x t || occursA x ts
end

def boundL (ts : List Term) : Nat := ts.foldr (fun t n => max (boundT t) n) 0

/-- binding list produced by the matcher; the range is ground, so it is applied once -/
abbrev Subst := List (Nat × Term)

def Subst.fn (θ : Subst) (v : Nat) : Term :=
  match θ.lookup v with
  | some t => t
  | none => .var v

/-! ## one-way matching: unification of a pattern with a ground candidate -/

mutual
  def matchT : Term → Term → Subst → Option Subst
    | .var v, g, θ =>
      match θ.lookup v with
      | some t => if t = g then some θ else none
      | none => some ((v, g) :: θ)
    | .app f as, g, θ =>
      match g with
      | .app f' bs => if f = f' then matchA as bs θ else none
      | _ => none
    | .atom s, g, θ => if g = .atom s then some θ else none
    | .int i, g, θ => if g = .int i then some θ else none
    | .flt b, g, θ => if g = .flt b then some θ else none
    | .str n, g, θ => if g = .str n then some θ else none
  def matchA : Args → Args → Subst → Option Subst
    | .nil, bs, θ => match bs with | .nil => some θ | _ => none
    | .cons a as, bs, θ =>
      match bs with
      | .cons b bs' =>
        match matchT a b θ with
        | some θ' => matchA as bs' θ'
        | none => none
      | .nil => none
end

def matchL : List Term → List Term → Subst → Option Subst
  | [], [], θ => some θ
  | p :: ps, g :: gs, θ =>
    match matchT p g θ with
    | some θ' => matchL ps gs θ'
    | none => none
  | _, _, _ => none

abbrev Answers := List (List Term)
abbrev Result := Except Term Answers

deriving instance DecidableEq for Except

/-- `Delay(ks…)` whose alternatives each unify the call with one GROUND candidate tuple:
    the answers are the candidates that match, in order -/
def selectCands (args : List Term) (cands : Answers) : Answers :=
  cands.filter fun c => (matchL args c []).isSome

/-! ## text helpers -/

def mkAtom (cs : List Char) : Term := .atom (String.ofList cs)
def charAtom (c : Char) : Term := mkAtom [c]
/-- `charList(s)` / `[]` for the empty text -/
def charList (cs : List Char) : Term := Term.list (cs.map charAtom)
/-- `codeList(s)` / `[]` for the empty text -/
def codeList (cs : List Char) : Term := Term.list (cs.map fun c => Term.int (Int.ofNat c.toNat))

/-- `utf8.ValidRune` on an integer: a Unicode scalar value -/
def validRune (i : Int) : Prop := 0 ≤ i ∧ i.toNat.isValidChar
instance (i : Int) : Decidable (validRune i) := by unfold validRune; infer_instance

def runeOf (i : Int) : Char :=
  if h : i.toNat.isValidChar then Char.ofNatAux i.toNat h else '�'

/-! ## the iterator checks (`ListIterator.Err`) -/

/-- error left by a `ListIterator` that walked the whole list `l` and stopped at tail `tl` -/
def listErr (allowPartial : Bool) (l tl : Term) : Option Term :=
  match tl with
  | .var _ => if allowPartial then none else some instErr
  | .atom a => if a = "[]" then none else some (typeErr "list" l)
  | _ => some (typeErr "list" l)

/-- `checkPositiveInteger` -/
def checkPositiveInteger (n : Term) : Option Term :=
  match n with
  | .var _ => none
  | .int b => if b < 0 then some (domainErr "not_less_than_zero" n) else none
  | _ => some (typeErr "integer" n)

def isVarOrAtom : Term → Bool
  | .var _ => true
  | .atom _ => true
  | _ => false

/-! ## atom_length/2 -/

def atomLength (atom length : Term) : Result :=
  match atom with
  | .var _ => .error instErr
  | .atom a =>
    match checkPositiveInteger length with
    | some e => .error e
    | none => .ok (selectCands [atom, length] [[atom, .int (Int.ofNat a.toList.length)]])
  | _ => .error (typeErr "atom" atom)

/-! ## atom_concat/3 -/

/-- `for i := range s { s[:i], s[i:] }` followed by `(s, "")`, on code points -/
def concatSplits (s : List Char) : List (List Char × List Char) :=
  (List.range s.length).map (fun i => (s.take i, s.drop i)) ++ [(s, [])]

def atomConcat (atom1 atom2 atom3 : Term) : Result :=
  match atom3 with
  | .var _ =>
    match atom1 with
    | .var _ => .error instErr
    | .atom a1 =>
      match atom2 with
      | .var _ => .error instErr
      | .atom a2 =>
        .ok (selectCands [atom1, atom2, atom3] [[atom1, atom2, mkAtom (a1.toList ++ a2.toList)]])
      | _ => .error (typeErr "atom" atom2)
    | _ => .error (typeErr "atom" atom1)
  | .atom a3 =>
    if isVarOrAtom atom1 = false then .error (typeErr "atom" atom1)
    else if isVarOrAtom atom2 = false then .error (typeErr "atom" atom2)
    else .ok (selectCands [atom1, atom2, atom3]
      ((concatSplits a3.toList).map fun p => [mkAtom p.1, mkAtom p.2, atom3]))
  | _ => .error (typeErr "atom" atom3)

/-! ## sub_atom/5 -/

/-- the double loop `for i := 0..n { for j := i..n }`, as (before, length) pairs -/
def subAtomCands (w : List Char) : Answers :=
  (List.range (w.length + 1)).flatMap fun i =>
    (List.range (w.length - i + 1)).map fun l =>
      [mkAtom w, .int (Int.ofNat i), .int (Int.ofNat l), .int (Int.ofNat (w.length - i - l)),
       mkAtom ((w.drop i).take l)]

def subAtom (atom before length after sub : Term) : Result :=
  match atom with
  | .var _ => .error instErr
  | .atom w =>
    match checkPositiveInteger before with
    | some e => .error e
    | none =>
    match checkPositiveInteger length with
    | some e => .error e
    | none =>
    match checkPositiveInteger after with
    | some e => .error e
    | none =>
    if isVarOrAtom sub = false then .error (typeErr "atom" sub)
    else .ok (selectCands [atom, before, length, after, sub] (subAtomCands w.toList))
  | _ => .error (typeErr "atom" atom)

/-! ## atom_chars/2, atom_codes/2 -/

/-- element loop of `AtomChars` when the atom is unbound: every element must be a one-char atom -/
def charsStrict : List Term → Except Term (List Char)
  | [] => .ok []
  | e :: es =>
    match e with
    | .var _ => .error instErr
    | .atom s =>
      match s.toList with
      | [c] => match charsStrict es with
        | .ok cs => .ok (c :: cs)
        | .error e => .error e
      | _ => .error (typeErr "character" e)
    | _ => .error (typeErr "character" e)

/-- element loop of `AtomChars` when the atom is bound: variables are allowed -/
def charsLax : List Term → Option Term
  | [] => none
  | e :: es =>
    match e with
    | .var _ => charsLax es
    | .atom s => if s.toList.length = 1 then charsLax es else some (typeErr "character" e)
    | _ => some (typeErr "character" e)

def atomChars (atom chars : Term) : Result :=
  match atom with
  | .var _ =>
    match charsStrict chars.spine.1 with
    | .error e => .error e
    | .ok cs =>
      match listErr false chars chars.spine.2 with
      | some e => .error e
      | none => .ok (selectCands [atom, chars] [[mkAtom cs, chars]])
  | .atom a =>
    match charsLax chars.spine.1 with
    | some e => .error e
    | none =>
      match listErr true chars chars.spine.2 with
      | some e => .error e
      | none => .ok (selectCands [atom, chars] [[atom, charList a.toList]])
  | _ => .error (typeErr "atom" atom)

/-- element loop of `AtomCodes` when the atom is unbound; a code must be a Unicode scalar value
    (`e < 0 || e > unicode.MaxRune || !utf8.ValidRune(rune(e))`; the pinned tree let surrogates through
    and `sb.WriteRune` turned them into U+FFFD — defect D21, repaired) -/
def codesStrict : List Term → Except Term (List Char)
  | [] => .ok []
  | e :: es =>
    match e with
    | .var _ => .error instErr
    | .int i =>
      if validRune i then
        match codesStrict es with
        | .ok cs => .ok (runeOf i :: cs)
        | .error e => .error e
      else .error (representationErr "character_code")
    | _ => .error (typeErr "integer" e)

def codesLax : List Term → Option Term
  | [] => none
  | e :: es =>
    match e with
    | .var _ => codesLax es
    | .int i => if validRune i then codesLax es else some (representationErr "character_code")
    | _ => some (typeErr "integer" e)

def atomCodes (atom codes : Term) : Result :=
  match atom with
  | .var _ =>
    match codesStrict codes.spine.1 with
    | .error e => .error e
    | .ok cs =>
      match listErr false codes codes.spine.2 with
      | some e => .error e
      | none => .ok (selectCands [atom, codes] [[mkAtom cs, codes]])
  | .atom a =>
    match codesLax codes.spine.1 with
    | some e => .error e
    | none =>
      match listErr true codes codes.spine.2 with
      | some e => .error e
      | none => .ok (selectCands [atom, codes] [[atom, codeList a.toList]])
  | _ => .error (typeErr "atom" atom)

/-! ## char_code/2 -/

/-- `CharCode` with the character bound: `rs := []rune(ch.String()); len(rs) != 1 → type_error` -/
def charCodeOfAtom (char code : Term) (ch : String) : Result :=
  match ch.toList with
  | [c] => .ok (selectCands [char, code] [[char, .int (Int.ofNat c.toNat)]])
  | _ => .error (typeErr "character" char)

def charCode (char code : Term) : Result :=
  match char with
  | .var _ =>
    match code with
    | .var _ => .error instErr
    | .int cd =>
      if validRune cd then .ok (selectCands [char, code] [[charAtom (runeOf cd), code]])
      else .error (representationErr "character_code")
    | _ => .error (typeErr "integer" code)
  | .atom ch =>
    match code with
    | .var _ => charCodeOfAtom char code ch
    | .int _ => charCodeOfAtom char code ch
    | _ => .error (typeErr "integer" code)
  | _ => .error (typeErr "character" char)

/-! ## between/3 -/

/-- the alternatives of `Between` with an unbound value: `low`, then `Between(low+1, …)` while `low < high`;
    `k` bounds the number of alternatives taken -/
def betweenAlts : Nat → Int → Int → List Int
  | 0, _, _ => []
  | k + 1, low, high => low :: (if low < high then betweenAlts k (low + 1) high else [])

def between (k : Nat) (lower upper value : Term) : Result :=
  match lower with
  | .int low =>
    match upper with
    | .int high =>
      if low > high then .ok []
      else
        match value with
        | .int v => if v < low ∨ v > high then .ok [] else .ok [[lower, upper, value]]
        | .var _ => .ok ((betweenAlts k low high).map fun x => [lower, upper, .int x])
        | _ => .error (typeErr "integer" value)
    | .var _ => .error instErr
    | _ => .error (typeErr "integer" upper)
  | .var _ => .error instErr
  | _ => .error (typeErr "integer" lower)

/-! ## succ/2 -/

def succ (x s : Term) : Result :=
  match x with
  | .var _ =>
    match s with
    | .var _ => .error instErr
    | .int sv =>
      if sv < 0 then .error (domainErr "not_less_than_zero" s)
      else if sv = 0 then .ok []
      else .ok (selectCands [x, s] [[.int (sv - 1), s]])
    | _ => .error (typeErr "integer" s)
  | .int xv =>
    if xv < 0 then .error (domainErr "not_less_than_zero" x)
    else if xv > maxInt - 1 then .error (evaluationErr "int_overflow")   -- `addI` overflow guard
    else
      match s with
      | .var _ => .ok (selectCands [x, s] [[x, .int (xv + 1)]])
      | .int sv =>
        if sv < 0 then .error (domainErr "not_less_than_zero" s)
        else .ok (selectCands [x, s] [[x, .int (xv + 1)]])
      | _ => .error (typeErr "integer" s)
  | _ => .error (typeErr "integer" x)

/-! ## general unification (structural builtins) -/

def bind1 (x : Nat) (t : Term) : Nat → Term := fun v => if v = x then t else .var v

def zipArgs : Args → Args → List (Term × Term)
  | .cons a as, .cons b bs => (a, b) :: zipArgs as bs
  | _, _ => []

/-- Robinson unification with occurs check on a work list; `none` = fuel exhausted,
    `some none` = not unifiable, `some (some δ)` = most general unifier (idempotent) -/
def unifyE : Nat → List (Term × Term) → Option (Option (Nat → Term))
  | 0, _ => none
  | _ + 1, [] => some (some Term.var)
  | f + 1, (a, b) :: rest =>
    let elim (x : Nat) (t : Term) : Option (Option (Nat → Term)) :=
      if occursT x t then some none
      else
        let ρ := bind1 x t
        match unifyE f (rest.map fun p => (substT ρ p.1, substT ρ p.2)) with
        | some (some δ) => some (some fun v => substT δ (ρ v))
        | r => r
    match a, b with
    | .var x, .var y => if x = y then unifyE f rest else elim x (.var y)
    | .var x, t => elim x t
    | t, .var x => elim x t
    | .app g as, .app h bs =>
      if g = h ∧ as.length = bs.length then unifyE f (zipArgs as bs ++ rest) else some none
    | s, t => if s = t then unifyE f rest else some none

/-- the fuel given to the Robinson unifier -/
def unifyFuel (a b : Term) : Nat := 4 * (a.size + b.size) * (max (boundT a) (boundT b) + 2) + 8

/-- `Env.Unify` on resolved terms: matching when one side is ground, Robinson otherwise -/
def unifyM (a b : Term) : Option (Nat → Term) :=
  if groundT b then (matchT a b []).map Subst.fn
  else if groundT a then (matchT b a []).map Subst.fn
  else
    match unifyE (unifyFuel a b) [(a, b)] with
    | some r => r
    | none => none

/-- `unifyM a b` did not run out of fuel (checked by the driver on every unification of a run) -/
def unifyDefinedB (a b : Term) : Bool :=
  groundT b || groundT a || (unifyE (unifyFuel a b) [(a, b)]).isSome

def tuple (ts : List Term) : Term := .app "" (Args.ofList ts)

/-- one alternative `Unify(a, b, k, env)`: the call's arguments under the unifier, if any -/
def unifyAns (args : List Term) (a b : Term) : Answers :=
  match unifyM a b with
  | some δ => [args.map (substT δ)]
  | none => []

/-- marker for calls outside the model (the Go code would build a cyclic term) -/
def notModelled : Term := .atom "$not_modelled"

/-- `makeSlice`: requests above this size fail with `errOutOfMemory` (len out of range / above the
    memory limit); requests between 2^20 and this bound depend on the host and are not generated -/
def allocLimit : Int := 17592186044416   -- 2^44

def freshVars (start n : Nat) : List Term := (List.range n).map fun i => Term.var (start + i)

/-! ## functor/3, arg/3, =../2 -/

def functor (t name arity : Term) : Result :=
  let args := [t, name, arity]
  match t with
  | .var tv =>
    match arity with
    | .var _ => .error instErr
    | .int n =>
      if n < 0 then .error (domainErr "not_less_than_zero" arity)
      else
        match name with
        | .var _ => .error instErr
        | .app _ _ => .error (typeErr "atomic" name)
        | _ =>
          if n = 0 then .ok [args.map (substT (bind1 tv name))]
          else
            match name with
            | .atom f =>
              if n > allocLimit then .error (resourceErr "memory")
              else .ok [args.map (substT (bind1 tv (.app f (Args.ofList (freshVars (boundL args) n.toNat)))))]
            | _ => .error (typeErr "atom" name)
    | _ => .error (typeErr "integer" arity)
  | .app f as => .ok (unifyAns args (tuple [name, arity]) (tuple [.atom f, .int (Int.ofNat as.length)]))
  | _ => .ok (unifyAns args (tuple [name, arity]) (tuple [t, .int 0]))

def arg (nth t a : Term) : Result :=
  let args := [nth, t, a]
  match t with
  | .var _ => .error instErr
  | .app _ as =>
    match nth with
    | .var _ => .error instErr
    | .int n =>
      if n = 0 ∨ n > Int.ofNat as.length then .ok []
      else if n < 0 then .error (domainErr "not_less_than_zero" nth)
      else
        match as.toList[(n - 1).toNat]? with
        | some e => .ok (unifyAns args a e)
        | none => .ok []     -- unreachable: 1 ≤ n ≤ arity
    | _ => .error (typeErr "integer" nth)
  | _ => .error (typeErr "compound" t)

def univ (t list : Term) : Result :=
  let args := [t, list]
  match t with
  | .var tv =>
    let es := list.spine.1
    match listErr false list list.spine.2 with
    | some e => .error e
    | none =>
      if occursT tv list then .error notModelled else
      match es with
      | [] => .error (domainErr "non_empty_list" list)
      | [e] =>
        match e with
        | .var _ => .error instErr
        | .app _ _ => .error (typeErr "atomic" e)
        | _ => .ok [args.map (substT (bind1 tv e))]
      | e :: rest =>
        match e with
        | .var _ => .error instErr
        | .atom f => .ok [args.map (substT (bind1 tv (.app f (Args.ofList rest))))]
        | _ => .error (typeErr "atom" e)
  | .app f as =>
    match listErr true list list.spine.2 with
    | some e => .error e
    | none => .ok (unifyAns args list (Term.list (.atom f :: as.toList)))
  | _ =>
    match listErr true list list.spine.2 with
    | some e => .error e
    | none => .ok (unifyAns args list (Term.list [t]))

/-! ## nth0/3, nth1/3 -/

def nth (base : Int) (n list elem : Term) : Result :=
  let args := [n, list, elem]
  let es := list.spine.1
  match n with
  | .var _ =>
    match listErr false list list.spine.2 with
    | some e => .error e
    | none =>
      .ok ((List.range es.length).flatMap fun i =>
        match es[i]? with
        | some e => unifyAns args (tuple [n, elem]) (tuple [.int (base + Int.ofNat i), e])
        | none => [])
  | .int nv =>
    if nv < base then .ok []
    else
      match es[(nv - base).toNat]? with
      | some e => .ok (unifyAns args elem e)
      | none =>
        match listErr false list list.spine.2 with
        | some e => .error e
        | none => .ok []
  | _ => .error (typeErr "integer" n)

def nth0 := nth 0
def nth1 := nth 1

/-! ## length/2 -/

/-- `SkipMaxList`: the number of elements skipped, at most the given length -/
def skipMax (len : Term) (es : List Term) : Nat :=
  match len with
  | .int n => min n.toNat es.length
  | _ => es.length

/-- the continuation of `Length` after `SkipMaxList`: `skipped` elements were skipped, `suffix` is the rest -/
def lengthSuffix (k : Nat) (args : List Term) (len : Term) (skipped : Nat) (suffix : Term) : Result :=
  match suffix with
  | .var s =>
    match len with
    | .int n =>
      -- lengthRundown
      let c := n - Int.ofNat skipped
      if c > allocLimit then .error (resourceErr "memory")
      else .ok [args.map (substT (bind1 s (Term.list (freshVars (boundL args) c.toNat))))]
    | .var nv =>
      if nv = s then .error (resourceErr "finite_memory")
      else
        -- lengthAddendum: suffix = [], [_], [_,_], … ; length = skipped, skipped+1, …
        .ok ((List.range k).map fun j =>
          args.map (substT fun v =>
            if v = s then Term.list (freshVars (boundL args) j)
            else if v = nv then .int (Int.ofNat (skipped + j))
            else .var v))
    | _ => .ok []
  | .atom a => if a = "[]" then .ok (unifyAns args len (.int (Int.ofNat skipped))) else .ok []
  | .app _ _ => .ok []   -- `[a,b|T]` against a shorter length, or a non-list tail
  | _ => .ok []

def length (k : Nat) (list len : Term) : Result :=
  match checkPositiveInteger len with
  | some e => .error e
  | none =>
    lengthSuffix k [list, len] len (skipMax len list.spine.1)
      (Term.list (list.spine.1.drop (skipMax len list.spine.1)) list.spine.2)

/-! ## pure SLD resolution over a clause list (member/2, select/3, the two clauses of appendLists) -/

def conj : Nat → Term → List Term
  | 0, t => [t]
  | f + 1, t =>
    match t with
    | .app "," (.cons a (.cons b .nil)) => conj f a ++ conj f b
    | .atom "true" => []
    | t => [t]

def clauseParts (c : Term) : Term × List Term :=
  match c with
  | .app ":-" (.cons h (.cons b .nil)) => (h, conj b.size b)
  | t => (t, [])

/-- a clause as (head, body goals) -/
abbrev Clause := Term × List Term

/-- rename the variables of a clause apart: shift them above `next` -/
def shift (next : Nat) : Nat → Term := fun v => .var (v + next)

/-- depth-first, left-to-right, clauses in order; `fuel` bounds the length of a derivation.
    A clause is renamed apart by shifting its variables above every variable of the current goals
    and of the call.  Returns the call's arguments under each answer substitution. -/
def sld (clauses : List Clause) : Nat → List Term → List Term → Answers
  | 0, _, _ => []
  | _ + 1, [], args => [args]
  | f + 1, g :: gs, args =>
    clauses.flatMap fun c =>
      let next := boundL (g :: gs ++ args)
      match unifyM g (substT (shift next) c.1) with
      | some δ =>
        sld clauses f ((c.2.map (substT (shift next)) ++ gs).map (substT δ)) (args.map (substT δ))
      | none => []

/-- no unification of the run `sld clauses f goals args` ran out of fuel -/
def sldDefinedB (clauses : List Clause) : Nat → List Term → List Term → Bool
  | 0, _, _ => true
  | _ + 1, [], _ => true
  | f + 1, g :: gs, args =>
    clauses.all fun c =>
      let next := boundL (g :: gs ++ args)
      unifyDefinedB g (substT (shift next) c.1) &&
        match unifyM g (substT (shift next) c.1) with
        | some δ =>
          sldDefinedB clauses f ((c.2.map (substT (shift next)) ++ gs).map (substT δ)) (args.map (substT δ))
        | none => true

def headIs (name : String) (arity : Nat) (c : Term) : Bool :=
  match (clauseParts c).1 with
  | .app f as => f == name && as.length == arity
  | _ => false

/-- the clauses of `name/arity` in bootstrap.pl (regenerated from the source on every run) -/
def bootClauses (name : String) (arity : Nat) : List Term :=
  Generated.bootstrapTerms.filter (headIs name arity)

def member (fuel : Nat) (x l : Term) : Result :=
  .ok (sld ((bootClauses "member" 2).map clauseParts) fuel [Term.a2 "member" x l] [x, l])

def select (fuel : Nat) (e l r : Term) : Result :=
  .ok (sld ((bootClauses "select" 3).map clauseParts) fuel [Term.a3 "select" e l r] [e, l, r])

/-! ## append/3 -/

/-- the definition quoted in `appendLists` -/
def appendClauses : List Term :=
  [ Term.a3 "append" Term.nilT (.var 0) (.var 0),
    Term.a2 ":-" (Term.a3 "append" (Term.consT (.var 0) (.var 1)) (.var 2) (Term.consT (.var 0) (.var 3)))
                 (Term.a3 "append" (.var 1) (.var 2) (.var 3)) ]

/-- the special case of `Append`: a non-empty list without a variable in the spine -/
def appendFast (xs : Term) : Bool :=
  match xs with
  | .app _ _ => xs.spine.2 == Term.nilT
  | _ => false

def append (fuel : Nat) (xs ys zs : Term) : Result :=
  if appendFast xs = true then .ok (unifyAns [xs, ys, zs] zs (Term.list xs.spine.1 ys))
  else .ok (sld (appendClauses.map clauseParts) fuel [Term.a3 "append" xs ys zs] [xs, ys, zs])

/-! ## dispatch used by the driver -/

def call (pred : String) (k : Nat) (args : List Term) : Option Result :=
  match pred, args with
  | "atom_length", [a, b] => some (atomLength a b)
  | "atom_concat", [a, b, c] => some (atomConcat a b c)
  | "sub_atom", [a, b, c, d, e] => some (subAtom a b c d e)
  | "atom_chars", [a, b] => some (atomChars a b)
  | "atom_codes", [a, b] => some (atomCodes a b)
  | "char_code", [a, b] => some (charCode a b)
  | "between", [a, b, c] => some (between k a b c)
  | "succ", [a, b] => some (succ a b)
  | "functor", [a, b, c] => some (functor a b c)
  | "arg", [a, b, c] => some (arg a b c)
  | "univ", [a, b] => some (univ a b)
  | "nth0", [a, b, c] => some (nth0 a b c)
  | "nth1", [a, b, c] => some (nth1 a b c)
  | "length", [a, b] => some (length k a b)
  | "member", [a, b] => some (member (k + a.size + b.size + 4) a b)
  | "select", [a, b, c] => some (select (k + a.size + b.size + c.size + 4) a b c)
  | "append", [a, b, c] => some (append (k + a.size + b.size + c.size + 4) a b c)
  | _, _ => none

end PrologVerif.Rel
