/-
  Lemmas about the trampoline model (shared by C03, C04, C13).
-/
import PrologVerif.Model.Promise
namespace PrologVerif.Promise

variable {τ ρ ε σ : Type}

theorem popUntil_append (c : Nat) (above : List (P τ ρ ε)) (pc : P τ ρ ε) (below : List (P τ ρ ε))
    (hpc : pc.id = c) (habove : ∀ p ∈ above, p.id ≠ c) :
    popUntil c (above ++ pc :: below) = below := by
  induction above with
  | nil => simp [popUntil, hpc]
  | cons a as ih =>
    have ha : a.id ≠ c := habove a (by simp)
    simp only [List.cons_append, popUntil, ha, if_false]
    exact ih (fun p hp => habove p (by simp [hp]))

theorem popUntil_not_found (c : Nat) (stack : List (P τ ρ ε)) (h : ∀ p ∈ stack, p.id ≠ c) :
    popUntil c stack = [] := by
  induction stack with
  | nil => rfl
  | cons a as ih =>
    have ha : a.id ≠ c := h a (by simp)
    simp only [popUntil, ha, if_false]
    exact ih (fun p hp => h p (by simp [hp]))

/-- the stack only ever shrinks to a suffix under a cut -/
theorem popUntil_suffix (c : Nat) : ∀ stack : List (P τ ρ ε), ∃ pre, stack = pre ++ popUntil c stack
  | [] => ⟨[], rfl⟩
  | a :: as => by
    simp only [popUntil]
    split
    · exact ⟨[a], rfl⟩
    · obtain ⟨pre, h⟩ := popUntil_suffix c as
      exact ⟨a :: pre, by rw [List.cons_append, ← h]⟩

theorem recoverStack_no_handler (sem : Sem τ ρ ε σ) (e : ε) (p : P τ ρ ε) (rest : List (P τ ρ ε)) (m : M σ)
    (h : p.recover = none) : recoverStack sem e (p :: rest) m = recoverStack sem e rest m := by
  simp [recoverStack, h]

end PrologVerif.Promise
