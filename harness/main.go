package main

import (
	"bufio"
	"flag"
	"fmt"
	"math/rand"
	"os"
	"sort"
	"strings"
	"sync"
	"sync/atomic"
	"time"
)

// A stream is a named family of cases: a generator (one PRNG), an optional exhaustive
// enumerator for the thorough tier, and a runner that executes one case on the real code
// and returns one canonical output line.
type stream struct {
	name string
	gen  func(r *rand.Rand, n int, tier string) []string
	run  func(payload string) string
	// serial streams are run one case at a time (they observe process-wide state or timing)
	serial bool
}

var streams = map[string]*stream{}

func register(s *stream) { streams[s.name] = s }

func usage() {
	names := make([]string, 0, len(streams))
	for n := range streams {
		names = append(names, n)
	}
	sort.Strings(names)
	fmt.Fprintf(os.Stderr, "usage: harness gen <stream> -seed S -n N -tier T | harness run <stream> [-j N] < cases | harness worker <stream>\nstreams: %s\n", strings.Join(names, " "))
	os.Exit(2)
}

func main() {
	if len(os.Args) < 3 {
		usage()
	}
	cmd, name := os.Args[1], os.Args[2]
	s, ok := streams[name]
	if !ok {
		usage()
	}
	fs := flag.NewFlagSet(cmd, flag.ExitOnError)
	seed := fs.Int64("seed", 1, "PRNG seed")
	n := fs.Int("n", 1000, "number of generated cases")
	tier := fs.String("tier", "quick", "quick|thorough")
	j := fs.Int("j", 8, "parallel runners")
	_ = fs.Parse(os.Args[3:])

	w := bufio.NewWriterSize(os.Stdout, 1<<20)
	defer w.Flush()

	switch cmd {
	case "gen":
		r := rand.New(rand.NewSource(*seed))
		for _, c := range s.gen(r, *n, *tier) {
			fmt.Fprintln(w, c)
		}
	case "run":
		var cases []string
		sc := bufio.NewScanner(os.Stdin)
		sc.Buffer(make([]byte, 1<<20), 1<<26)
		for sc.Scan() {
			cases = append(cases, sc.Text())
		}
		out := make([]string, len(cases))
		if s.serial || *j <= 1 {
			for i, c := range cases {
				out[i] = safeRun(s, c)
			}
		} else {
			var wg sync.WaitGroup
			ch := make(chan int)
			for k := 0; k < *j; k++ {
				wg.Add(1)
				go func() {
					defer wg.Done()
					for i := range ch {
						out[i] = safeRun(s, cases[i])
					}
				}()
			}
			for i := range cases {
				ch <- i
			}
			close(ch)
			wg.Wait()
		}
		for _, o := range out {
			fmt.Fprintln(w, o)
		}
	case "worker":
		// one case per line, flushed after each: used for cases that may kill the process
		sc := bufio.NewScanner(os.Stdin)
		sc.Buffer(make([]byte, 1<<20), 1<<26)
		for sc.Scan() {
			fmt.Fprintln(w, safeRun(s, sc.Text()))
			w.Flush()
		}
	default:
		usage()
	}
}

// Watchdog: a case that has produced no result within caseLimit is reported as HANG (a goroutine of
// the code under test is spinning outside every poll, or blocked for good - e.g. on a lock); the
// goroutine cannot be stopped and may hold locks of the package under test, so every later case of
// this process is SKIPPED (not judged).  The limit is two orders of magnitude above the slowest
// healthy case of any stream.
var hung int32

func caseLimit() time.Duration {
	if v := os.Getenv("VERIF_CASE_LIMIT"); v != "" {
		if d, err := time.ParseDuration(v); err == nil {
			return d
		}
	}
	return 300 * time.Second
}

func safeRun(s *stream, c string) string {
	if atomic.LoadInt32(&hung) != 0 {
		return "SKIPPED after a hang in this process"
	}
	ch := make(chan string, 1)
	go func() { ch <- safeRun1(s, c) }()
	select {
	case out := <-ch:
		return out
	case <-time.After(caseLimit()):
		atomic.StoreInt32(&hung, 1)
		return fmt.Sprintf("HANG no result within %s", caseLimit())
	}
}

func safeRun1(s *stream, c string) (out string) {
	defer func() {
		if r := recover(); r != nil {
			out = "HARNESS-PANIC " + encName(fmt.Sprint(r))
		}
	}()
	out = s.run(c)
	out = strings.ReplaceAll(out, "\n", "\\n")
	return out
}

// pick helpers
func pick[T any](r *rand.Rand, xs []T) T { return xs[r.Intn(len(xs))] }
