/-
  Driver plumbing shared by all streams.  A stream handler maps
  (case payload, implementation output) to (model output, spec verdict).
  Verdict: "-" = no oracle for this case, "ok", or "FAIL <reason>".
-/
import PrologVerif.Basic
namespace PrologVerif.Driver

abbrev Handler := String → String → String × String

def splitOnStr (s : String) (sep : String) : List String := s.splitOn sep

def trim (s : String) : String := String.ofList (trimSp s.toList)

/-- split "a ; b ; c" into ops -/
def splitOps (s : String) : List String :=
  ((s.splitOn " ; ").map trim).filter (· ≠ "")

/-- first word and the rest -/
def headWord (s : String) : String × String :=
  let cs := trimSp s.toList
  (String.ofList (cs.takeWhile (· != ' ')), String.ofList (trimSp (cs.dropWhile (· != ' '))))

def parseTerms (s : String) : Option (List Term) :=
  let toks := words s
  decTerms (toks.length + 1) toks

/-- insertion sort on strings (the harness sorts rows with Go's sort.Strings; rows are ASCII) -/
def sortStrings (xs : List String) : List String :=
  xs.foldl (fun acc x =>
    let (lo, hi) := acc.span (fun y => y ≤ x)
    lo ++ x :: hi) []

def bracket (rows : List String) : String := "[" ++ ", ".intercalate rows ++ "]"

end PrologVerif.Driver
