import PrologVerif.Driver.Common
namespace PrologVerif.Driver.C13
open PrologVerif PrologVerif.Driver

/-- c13.latency: no model (the runtime half of C13 is observed); the verdict is the property's own
    statement on the measured run: the pending call returned the CONTEXT's error within the bound and
    the interpreter answered the follow-up query correctly -/
def latencyHandler : Handler := fun payload impl =>
  let want := match fields payload with
    | [_, "deadline"] => "err=deadline"
    | _ => "err=canceled"
  let lat := match impl.splitOn "latency_ms=" with
    | _ :: rest :: _ => ((rest.splitOn " ").headD "").toNat?
    | _ => none
  let verdict :=
    if impl.startsWith "NOT-STOPPED" then "FAIL the execution did not stop after cancellation"
    else if !(impl.startsWith want) then "FAIL the pending call did not return the context's error: " ++ impl
    else match lat with
      | none => "FAIL unreadable latency"
      | some l =>
        if l > 500 then s!"FAIL latency {l} ms exceeds the 500 ms bound"
        else if (impl.splitOn "follow=ok").length < 2 then "FAIL the interpreter did not answer the follow-up query correctly"
        else "ok"
  (impl, verdict)

end PrologVerif.Driver.C13
