/-
  Proofs/DCGSem2Post — phrase/3 with an ARBITRARY third argument `r`.  The translation passes
  `r` down to the last goal of every branch, where it is unified as soon as the remainder is
  known; the specification parses first (⟦b⟧) and unifies every remainder with `r` afterwards.
  This file is about the denotation's side only: `post` = "unify every remainder with `r`, keep
  the answers for which that succeeds", and `post` moves inside the combinators of ⟦·⟧ (towards
  the last part of a sequence, into both branches of an alternation, …) — whenever the
  post-processed result exists.
-/
import PrologVerif.Proofs.DCGSem2Phrase
namespace PrologVerif.Grammar
open PrologVerif

/-- unify the remainder of every answer with `r`; an answer whose remainder does not unify is
    dropped -/
def postL (uf : Nat) (r : Term) : List (St × Term) → Res (List (St × Term))
  | [] => .ok []
  | a :: rest =>
    match unify uf a.1.σ a.2 r with
    | .out => .error .fuel
    | .done none => postL uf r rest
    | .done (some σ') =>
      match postL uf r rest with
      | .error e => .error e
      | .ok as => .ok (({ a.1 with σ := σ' }, a.2) :: as)

def post (uf : Nat) (r : Term) : Res Out → Res Out
  | .error e => .error e
  | .ok o =>
    match postL uf r o.answers with
    | .error e => .error e
    | .ok as => .ok ⟨as, o.cut⟩

def postR (uf : Nat) (r : Term) : Res (List (St × Term)) → Res (List (St × Term))
  | .error e => .error e
  | .ok as => postL uf r as

theorem postL_append (uf : Nat) (r : Term) : ∀ (xs ys : List (St × Term)) (as : List (St × Term)),
    postL uf r (xs ++ ys) = .ok as →
    ∃ as1 as2, postL uf r xs = .ok as1 ∧ postL uf r ys = .ok as2 ∧ as = as1 ++ as2
  | [], ys, as, h => ⟨[], as, rfl, h, rfl⟩
  | a :: xs, ys, as, h => by
    simp only [List.cons_append, postL] at h ⊢
    cases hu : unify uf a.1.σ a.2 r with
    | out => simp [hu] at h
    | done o =>
      cases o with
      | none =>
        simp only [hu] at h ⊢
        exact postL_append uf r xs ys as h
      | some σ' =>
        simp only [hu] at h ⊢
        cases hrest : postL uf r (xs ++ ys) with
        | error e => simp [hrest] at h
        | ok as' =>
          simp only [hrest, Except.ok.injEq] at h
          obtain ⟨as1, as2, e1, e2, e3⟩ := postL_append uf r xs ys as' hrest
          refine ⟨({ a.1 with σ := σ' }, a.2) :: as1, as2, by simp [e1], e2, ?_⟩
          rw [← h, e3]; rfl

/-- the fold of `Grammar.phrase` is `postL`, forgetting the remainders -/
theorem phraseFold_postL (uf : Nat) (r : Term) : ∀ (Ds : List (St × Term)) (D : List St),
    phraseFold uf r Ds = .ok D → ∃ as, postL uf r Ds = .ok as ∧ D = as.map (·.1)
  | [], D, h => by simp [phraseFold] at h; exact ⟨[], rfl, by simp [← h]⟩
  | a :: Ds, D, h => by
    have hstep : phraseFold uf r (a :: Ds) = phraseStep uf r a (phraseFold uf r Ds) := rfl
    rw [hstep] at h
    cases hrest : phraseFold uf r Ds with
    | error e => rw [hrest] at h; simp [phraseStep] at h
    | ok rest =>
      obtain ⟨as, e1, e2⟩ := phraseFold_postL uf r Ds rest hrest
      rw [hrest] at h
      unfold phraseStep at h
      simp only [postL]
      cases hu : unify uf a.1.σ a.2 r with
      | out => simp [hu] at h
      | done o =>
        cases o with
        | none => simp only [hu, Except.ok.injEq] at h; exact ⟨as, by simp [e1], by rw [← h, e2]⟩
        | some σ' =>
          simp only [hu, Except.ok.injEq] at h
          exact ⟨({ a.1 with σ := σ' }, a.2) :: as, by simp [e1], by rw [← h, e2]; rfl⟩

/-! ### `post` moves inside the combinators -/

theorem andThen_post (uf : Nat) (r : Term) (kd : St → Term → Res Out) :
    ∀ (Ds : List (St × Term)) (ob : Out) (as : List (St × Term)),
      andThen kd Ds = .ok ob → postL uf r ob.answers = .ok as →
      andThen (fun st l => post uf r (kd st l)) Ds = .ok ⟨as, ob.cut⟩
  | [], ob, as, h, hp => by
    simp only [andThen, Except.ok.injEq] at h
    subst h
    simp only [postL, Except.ok.injEq] at hp
    subst hp
    rfl
  | (st, l) :: rest, ob, as, h, hp => by
    simp only [andThen] at h ⊢
    cases hk : kd st l with
    | error e => simp [hk] at h
    | ok o =>
      simp only [hk] at h
      by_cases hc : o.cut = true
      · simp only [hc, if_true, Except.ok.injEq] at h
        subst h
        have hpk : post uf r (.ok o) = .ok ⟨as, true⟩ := by
          simp only [post]; rw [hp, hc]
        simp only [hpk, if_true]
      · have hc0 : o.cut = false := by simpa using hc
        simp only [hc0, Bool.false_eq_true, if_false] at h
        cases hrest : andThen kd rest with
        | error e => simp [hrest] at h
        | ok o' =>
          simp only [hrest, Except.ok.injEq] at h
          subst h
          obtain ⟨as1, as2, e1, e2, e3⟩ := postL_append uf r _ _ as hp
          have ih := andThen_post uf r kd rest o' as2 hrest e2
          have hpk : post uf r (.ok o) = .ok ⟨as1, false⟩ := by simp [post, e1, hc0]
          simp only [hpk, Bool.false_eq_true, if_false, ih, e3]

theorem post_dConj (uf : Nat) (r : Term) (rD : Res Out) (kd : St → Term → Res Out) (o : Out)
    (h : post uf r (dConj rD kd) = .ok o) : dConj rD (fun st l => post uf r (kd st l)) = .ok o := by
  cases rD with
  | error e => simp [dConj, post] at h
  | ok oa =>
    simp only [dConj] at h ⊢
    cases hk : andThen kd oa.answers with
    | error e => simp [hk, post] at h
    | ok ob =>
      simp only [hk, post] at h
      cases hp : postL uf r ob.answers with
      | error e => simp [hp] at h
      | ok as =>
        simp only [hp, Except.ok.injEq] at h
        rw [andThen_post uf r kd oa.answers ob as hk hp]
        simp only [← h]

theorem post_dAlt (uf : Nat) (r : Term) (rDa rDb : Res Out) (o : Out)
    (h : post uf r (dAlt rDa rDb) = .ok o) : dAlt (post uf r rDa) (post uf r rDb) = .ok o := by
  cases rDa with
  | error e => simp [dAlt, post] at h
  | ok oa =>
    simp only [dAlt] at h
    by_cases hc : oa.cut = true
    · simp only [hc, if_true, post] at h
      cases hp : postL uf r oa.answers with
      | error e => simp [hp] at h
      | ok as =>
        simp only [hp, Except.ok.injEq] at h
        simp only [dAlt, post, hp, hc, if_true]
        rw [← h]
    · have hc0 : oa.cut = false := by simpa using hc
      simp only [hc0, Bool.false_eq_true, if_false] at h
      cases rDb with
      | error e => simp [post] at h
      | ok ob =>
        simp only [post] at h
        cases hp : postL uf r (oa.answers ++ ob.answers) with
        | error e => simp [hp] at h
        | ok as =>
          simp only [hp, Except.ok.injEq] at h
          obtain ⟨as1, as2, e1, e2, e3⟩ := postL_append uf r _ _ as hp
          simp only [dAlt, post, e1, e2, hc0, Bool.false_eq_true, if_false]
          rw [← h, e3]

theorem post_dIte (uf : Nat) (r : Term) (rDc : Res Out) (kt : St → Term → Res Out) (rDe : Res Out) (o : Out)
    (h : post uf r (dIte rDc kt rDe) = .ok o) :
    dIte rDc (fun st l => post uf r (kt st l)) (post uf r rDe) = .ok o := by
  cases rDc with
  | error e => simp [dIte, post] at h
  | ok oc =>
    obtain ⟨ans, c⟩ := oc
    cases ans with
    | nil => exact h
    | cons a rest => exact h

theorem post_barrier (uf : Nat) (r : Term) (rD : Res Out) (o : Out)
    (h : post uf r (barrier rD) = .ok o) : barrier (post uf r rD) = .ok o := by
  cases rD with
  | error e => simp [barrier, post] at h
  | ok od =>
    simp only [barrier, post] at h ⊢
    cases hp : postL uf r od.answers with
    | error e => simp [hp] at h
    | ok as => simp only [hp, Except.ok.injEq] at h ⊢; exact h

theorem post_dTry (uf : Nat) (r : Term) (rD : Res Out) (rest : Res (List (St × Term))) (as : List (St × Term))
    (h : postR uf r (dTry rD rest) = .ok as) : dTry (post uf r rD) (postR uf r rest) = .ok as := by
  cases rD with
  | error e => simp [dTry, postR] at h
  | ok o =>
    simp only [dTry] at h
    by_cases hc : o.cut = true
    · simp only [hc, if_true, postR] at h
      simp only [dTry, post, h, hc, if_true]
    · have hc0 : o.cut = false := by simpa using hc
      simp only [hc0, Bool.false_eq_true, if_false] at h
      cases rest with
      | error e => simp [postR] at h
      | ok more =>
        simp only [postR] at h
        obtain ⟨as1, as2, e1, e2, e3⟩ := postL_append uf r _ _ as h
        simp only [dTry, post, postR, e1, e2, hc0, Bool.false_eq_true, if_false, e3]

/-- post-processing a single answer -/
def postOne (uf : Nat) (r : Term) (st : St) (rem : Term) (c : Bool) : Res Out :=
  match unify uf st.σ rem r with
  | .out => .error .fuel
  | .done none => .ok ⟨[], c⟩
  | .done (some σ') => .ok ⟨[({ st with σ := σ' }, rem)], c⟩

theorem post_single (uf : Nat) (r : Term) (st : St) (rem : Term) (c : Bool) :
    post uf r (.ok ⟨[(st, rem)], c⟩) = postOne uf r st rem c := by
  simp only [post, postL, postOne]
  cases unify uf st.σ rem r with
  | out => rfl
  | done o => cases o <;> rfl

theorem post_nil (uf : Nat) (r : Term) (c : Bool) : post uf r (.ok ⟨[], c⟩) = .ok ⟨[], c⟩ := rfl

end PrologVerif.Grammar
