/-
  Refine, part 6 — the program on both sides: the procedure table the VM builds when the clauses
  of a Horn program are asserted one by one (`VMScoped.initState`), and the clause list the
  reference interpreter resolves against (`prog.flatMap splitClause ++ library`), related clause by
  clause, in database order (`CRel`).
-/
import PrologVerif.Proofs.RefineCont
import PrologVerif.Proofs.VMScopedDefs
namespace PrologVerif.Refine
open PrologVerif PrologVerif.VM PrologVerif.DecompileCompile PrologVerif.Activation PrologVerif.VMScoped

variable {fl : Bool}

/-- the compiled clause `cl` is the clause with head `h` and body `b` (`true` for a fact) -/
inductive CRel (fl : Bool) : Clause → Term → Term → Prop
  | rule {cl : Clause} {h b : Term} {hargs : RepList} {bops : List Op} {gs : List Rep} :
      HeadLayout h cl hargs → cl.code = headCode hargs {} ++ Op.enter :: (bops ++ [Op.exit]) →
      BodySem cl.vars bops gs → gs.map goalTerm = SLD.conjuncts b →
      (∀ g ∈ gs, g = .atom "!" ∨ stepGoal fl (goalTerm g) = true) → CRel fl cl h b
  | fact {cl : Clause} {h : Term} {hargs : RepList} :
      HeadLayout h cl hargs → cl.code = headCode hargs {} ++ [Op.exit] → CRel fl cl h (.atom "true")

theorem CRel.name {cl : Clause} {h b : Term} (hr : CRel fl cl h b) :
    cl.name = functorName h ∧ cl.arity = (argList h).length := by
  cases hr with
  | rule hl _ _ _ _ => exact ⟨hl.name, hl.arity⟩
  | fact hl _ => exact ⟨hl.name, hl.arity⟩

/-- every clause of the fragment compiles to exactly one clause, related to its head and body -/
theorem horn_crel (c : Term) (hc : clauseC fl c = true) :
    ∃ cl, compile (toRep c) = .ok [cl] ∧ CRel fl cl (SLD.headBody c).1 (SLD.headBody c).2 := by
  by_cases hr : ∃ h b, c = .app ":-" (.cons h (.cons b .nil))
  · obtain ⟨h, b, rfl⟩ := hr
    obtain ⟨cl, hargs, bops, gs, hcomp, hl, hcode, hsem, hgs, hg⟩ := horn_rule_layout h b hc
    exact ⟨cl, hcomp, .rule hl hcode hsem hgs hg⟩
  · have hne : ∀ h b, c ≠ .app ":-" (.cons h (.cons b .nil)) := fun h b heq => hr ⟨h, b, heq⟩
    obtain ⟨cl, hargs, hcomp, hl, hcode⟩ := horn_fact_layout c hc hne
    have hhb : SLD.headBody c = (c, .atom "true") := by
      unfold SLD.headBody
      split
      · exact absurd rfl (hne _ _)
      · rfl
    rw [hhb]
    exact ⟨cl, hcomp, .fact hl hcode⟩

theorem forall2_of_index {α β : Type} {R : α → β → Prop} : ∀ {as : List α} {bs : List β},
    as.length = bs.length → (∀ (i : Nat) a b, as[i]? = some a → bs[i]? = some b → R a b) → Forall2 R as bs
  | [], [], _, _ => .nil
  | [], _ :: _, h, _ => by simp at h
  | _ :: _, [], h, _ => by simp at h
  | a :: as, b :: bs, h, hR =>
    .cons (hR 0 a b rfl rfl) (forall2_of_index (by simpa using h) (fun i a' b' ha hb => hR (i + 1) a' b' (by simpa using ha) (by simpa using hb)))

/-- **a rule whose body has several alternatives** compiles to one clause per alternative, each
    related to the head and that alternative -/
theorem rule_layouts (h b : Term) (hwh : wfT h = true) (hwb : wfT b = true) (hh : headOK h = true)
    (hds : ∀ dj ∈ SLD.disjuncts b, bodyS fl dj = true) :
    ∃ cs, compile (toRep (.app ":-" (.cons h (.cons b .nil)))) = .ok cs ∧
      Forall2 (fun cl dj => CRel fl cl h dj) cs (SLD.disjuncts b) := by
  obtain ⟨hch, hwfh, hname, hargs, _⟩ := hornHead_toRep hh hwh
  have hwfb := toRep_wf b hwb
  have hrep : toRep (.app ":-" (.cons h (.cons b .nil))) =
      .compound ":-" (.cons (toRep h) (.cons (toRep b) .nil)) := by
    rw [toRep_app_ne_dot _ _ (by decide)]; rfl
  rw [hrep]
  have halt := altBodies_disj b
  cases hcomp : compile (.compound ":-" (.cons (toRep h) (.cons (toRep b) .nil))) with
  | error e =>
    exfalso
    obtain ⟨alt, hm, g, hg, hcg⟩ := (error_statement (toRep h) (toRep b) hwfh hwfb hch).1 ⟨e, hcomp⟩
    rw [halt, List.mem_map] at hm
    obtain ⟨dj, hdj, rfl⟩ := hm
    rw [(bodyOK_goals dj (hds dj hdj) g hg).1] at hcg
    cases hcg
  | ok cs =>
    obtain ⟨hlen, _⟩ := rule_statement (toRep h) (toRep b) cs hwfh hwfb hch hcomp
    refine ⟨cs, rfl, forall2_of_index (by rw [hlen, halt, List.length_map]) ?_⟩
    intro i cl dj hcl hdj
    have hdjm : dj ∈ SLD.disjuncts b := List.mem_of_getElem? hdj
    have ha : (altBodies (toRep b))[i]? = some (toRep dj) := by
      rw [halt, List.getElem?_map, hdj]; rfl
    obtain ⟨bops, hcode, hsem, hpre, hnd, hn, har⟩ :=
      rule_clause_layout (toRep h) (toRep b) cs hwfh hwfb hch hcomp i cl (toRep dj) hcl ha
    refine .rule (hargs := headArgs (toRep h))
      ⟨wfs_headArgs _ hwfh, hpre, hnd, by rw [hn, hname], ?_, hargs, hh⟩ hcode hsem (seqGoals_toRep dj) ?_
    · rw [har, ← hargs, absArgs_toList_length]
    · intro g hg
      exact (bodyOK_goals dj (hds dj hdjm) g hg).2

/-- the clause a term of the fragment compiles to -/
def clauseOf (c : Term) : Clause :=
  match compile (toRep c) with
  | .ok (c1 :: _) => c1
  | _ => ⟨"", 0, .atom "", [], []⟩

theorem clauseOf_spec (c : Term) (hc : clauseC fl c = true) :
    compile (toRep c) = .ok [clauseOf c] ∧ CRel fl (clauseOf c) (SLD.headBody c).1 (SLD.headBody c).2 := by
  obtain ⟨cl, hcomp, hr⟩ := horn_crel c hc
  have : clauseOf c = cl := by simp [clauseOf, hcomp]
  rw [this]
  exact ⟨hcomp, hr⟩

theorem hornHead_user {h : Term} (hh : hornHead h = true) :
    userPred (functorName h) (argList h).length = true := by
  cases h with
  | atom f => simpa [hornHead, functorName, argList] using hh
  | app f as =>
    simp only [hornHead, Bool.and_eq_true] at hh
    simpa [functorName, argList] using hh.2
  | _ => simp [hornHead] at hh

/-- predicate indicator of the head of a clause term -/
def headKey (c : Term) : String × Nat :=
  (functorName (SLD.headBody c).1, (argList (SLD.headBody c).1).length)

theorem hornHead_functor {h : Term} (hh : hornHead h = true) :
    SLD.functor h = some (functorName h, argList h) := by
  cases h <;> simp_all [hornHead, SLD.functor, functorName, argList]

theorem sameProc_horn (f : String) (n : Nat) (c : Term) (hc : clauseS fl c = true) :
    SLD.sameProc f n c = decide (headKey c = (f, n)) := by
  simp only [clauseS, Bool.and_eq_true] at hc
  simp only [SLD.sameProc, hornHead_functor hc.1.2, headKey]
  by_cases h1 : functorName (SLD.headBody c).1 = f <;> by_cases h2 : (argList (SLD.headBody c).1).length = n <;>
    simp [h1, h2]

/-! ## the VM's procedure table -/

theorem lookup_filter_ne {α β : Type} [BEq α] [LawfulBEq α] [DecidableEq α] (k k' : α) (hne : k' ≠ k) :
    ∀ l : List (α × β), (l.filter (fun e => decide (e.1 ≠ k))).lookup k' = l.lookup k'
  | [] => rfl
  | (a, b) :: l => by
    have ih := lookup_filter_ne k k' hne l
    by_cases ha : a = k
    · subst ha
      have : (k' == a) = false := by simpa using hne
      simp only [List.filter_cons, ne_eq, not_true_eq_false, decide_false, Bool.false_eq_true, if_false,
        List.lookup, this]
      exact ih
    · by_cases hk : k' = a
      · subst hk
        simp [ha, List.lookup]
      · have : (k' == a) = false := by simpa using hk
        simp only [List.filter_cons, ne_eq, ha, not_false_eq_true, decide_true, if_true, List.lookup, this]
        exact ih

theorem lookupProc_setProc (s : St) (f : String) (n : Nat) (p : Proc) (g : String) (k : Nat) :
    lookupProc (setProc s f n p) g k = if (g, k) = (f, n) then some p else lookupProc s g k := by
  unfold lookupProc setProc
  by_cases h : (g, k) = (f, n)
  · rw [if_pos h, h]
    simp [List.lookup]
  · rw [if_neg h]
    have : ((g, k) == (f, n)) = false := by simpa using h
    simp only [List.lookup, this]
    exact lookup_filter_ne (f, n) (g, k) h s.procs

/-- clauses of a procedure (none for an unknown one) -/
def clausesOf (s : St) (f : String) (n : Nat) : List Clause :=
  match lookupProc s f n with
  | some p => p.clauses
  | none => []

theorem Forall2.map_right {α β γ : Type} {R : α → γ → Prop} {f : β → γ} {as : List α} {bs : List β}
    (h : Forall2 (fun a b => R a (f b)) as bs) : Forall2 R as (bs.map f) := by
  induction h with
  | nil => exact .nil
  | cons hd _ ih => exact .cons hd ih

theorem Forall2.flatMap {α β γ : Type} {R : β → γ → Prop} {f : α → List β} {g : α → List γ} :
    ∀ (l : List α), (∀ a ∈ l, Forall2 R (f a) (g a)) → Forall2 R (l.flatMap f) (l.flatMap g)
  | [], _ => .nil
  | a :: l, h => by
    rw [List.flatMap_cons, List.flatMap_cons]
    exact (h a (by simp)).append (Forall2.flatMap l (fun a' ha' => h a' (by simp [ha'])))

theorem Forall2.mem_left {α β : Type} {R : α → β → Prop} {as : List α} {bs : List β} (h : Forall2 R as bs)
    {a : α} (ha : a ∈ as) : ∃ b ∈ bs, R a b := by
  induction h with
  | nil => simp at ha
  | cons hd _ ih =>
    rcases List.mem_cons.1 ha with rfl | ha
    · exact ⟨_, by simp, hd⟩
    · obtain ⟨b, hb, hr⟩ := ih ha
      exact ⟨b, by simp [hb], hr⟩

theorem disjuncts_ne_nil (b : Term) : SLD.disjuncts b ≠ [] := by
  fun_induction SLD.disjuncts b <;> simp

/-- the clauses a clause term compiles to: one per alternative of its body -/
def compiled (c : Term) : List Clause :=
  match compile (toRep c) with
  | .ok cs => cs
  | _ => []

/-- **a clause of the fragment** compiles to one clause per alternative of its body, each related to
    the clause `Head :- Alternative` the reference stores -/
theorem compile_split (c : Term) (hc : clauseS fl c = true) :
    compile (toRep c) = .ok (compiled c) ∧
    Forall2 (fun cl r => CRel fl cl (SLD.headBody r).1 (SLD.headBody r).2) (compiled c) (SLD.splitClause c) := by
  by_cases hr : ∃ h b, c = .app ":-" (.cons h (.cons b .nil))
  · obtain ⟨h, b, rfl⟩ := hr
    simp only [clauseS, SLD.headBody, Bool.and_eq_true, wfT, wfAs, Bool.and_true] at hc
    obtain ⟨⟨⟨hwh, hwb⟩, hh⟩, hb⟩ := hc
    obtain ⟨cs, hcomp, hrel⟩ := rule_layouts (fl := fl) h b hwh hwb (headOK_of_horn hh)
      (by simpa [dbodyS, List.all_eq_true] using hb)
    have hcs : compiled (.app ":-" (.cons h (.cons b .nil))) = cs := by simp [compiled, hcomp]
    rw [hcs]
    refine ⟨hcomp, ?_⟩
    simp only [SLD.splitClause, SLD.headBody]
    exact Forall2.map_right hrel
  · have hne : ∀ h b, c ≠ .app ":-" (.cons h (.cons b .nil)) := fun h b heq => hr ⟨h, b, heq⟩
    have hhb : SLD.headBody c = (c, .atom "true") := by
      unfold SLD.headBody
      split
      · exact absurd rfl (hne _ _)
      · rfl
    have hcC : clauseC fl c = true := by
      simp only [clauseS, hhb, Bool.and_eq_true] at hc
      simp only [clauseC, hhb, Bool.and_eq_true]
      refine ⟨⟨hc.1.1, headOK_of_horn hc.1.2⟩, ?_⟩
      simp [bodyS, SLD.conjuncts, SLD.wrapVar, goalS, stepGoal, hornGoal, SLD.disjuncts]
    obtain ⟨cl, hargs, hcomp, hl, hcode⟩ := horn_fact_layout c hcC hne
    have hcs : compiled c = [cl] := by simp [compiled, hcomp]
    rw [hcs]
    refine ⟨hcomp, ?_⟩
    have hsp : SLD.splitClause c = [SLD.rule c (.atom "true")] := by
      simp [SLD.splitClause, hhb, SLD.disjuncts]
    rw [hsp]
    exact .cons (.fact hl hcode) .nil

theorem split_head {c r : Term} (h : r ∈ SLD.splitClause c) : (SLD.headBody r).1 = (SLD.headBody c).1 := by
  simp only [SLD.splitClause, List.mem_map] at h
  obtain ⟨dj, _, rfl⟩ := h
  rfl

theorem compiled_key (c : Term) (hc : clauseS fl c = true) :
    ∀ cl ∈ compiled c, (cl.name, cl.arity) = headKey c := by
  intro cl hcl
  obtain ⟨r, hr, hcr⟩ := (compile_split c hc).2.mem_left hcl
  obtain ⟨h1, h2⟩ := hcr.name
  rw [split_head hr] at h1 h2
  simp [headKey, h1, h2]

theorem compiled_ne (c : Term) (hc : clauseS fl c = true) : compiled c ≠ [] := by
  intro h
  have := (compile_split c hc).2.length_eq
  rw [h] at this
  simp only [List.length_nil, SLD.splitClause, List.length_map] at this
  exact disjuncts_ne_nil _ (List.length_eq_zero_iff.1 this.symm)

theorem assertStep_S (s : St) (c : Term) (hc : clauseS fl c = true) :
    assertStep s c =
      setProc s (headKey c).1 (headKey c).2
        { (lookupProc s (headKey c).1 (headKey c).2).getD { dynamic := true } with
          clauses := ((lookupProc s (headKey c).1 (headKey c).2).getD { dynamic := true }).clauses ++ compiled c } := by
  unfold assertStep
  rw [(compile_split c hc).1]
  cases hcs : compiled c with
  | nil => exact absurd hcs (compiled_ne c hc)
  | cons c1 cs =>
    have := compiled_key c hc c1 (by rw [hcs]; simp)
    simp only [Prod.ext_iff] at this
    simp only [this.1, this.2]

/-- **the table after asserting a program**: for every predicate indicator, whether it is
    defined and with which clauses, in terms of the program clauses with that head, in order -/
theorem foldl_assert (f : String) (n : Nat) : ∀ (prog : List Term) (s : St), (∀ c ∈ prog, clauseS fl c = true) →
    clausesOf (prog.foldl assertStep s) f n =
      clausesOf s f n ++ (prog.filter (fun c => decide (headKey c = (f, n)))).flatMap compiled ∧
    ((lookupProc (prog.foldl assertStep s) f n).isSome =
      ((lookupProc s f n).isSome || !(prog.filter (fun c => decide (headKey c = (f, n)))).isEmpty))
  | [], s, _ => by simp
  | c :: prog, s, h => by
    have hc := h c (by simp)
    obtain ⟨ih1, ih2⟩ := foldl_assert f n prog (assertStep s c) (fun c' hc' => h c' (by simp [hc']))
    rw [List.foldl_cons, ih1, ih2]
    rw [assertStep_S s c hc]
    by_cases hk : headKey c = (f, n)
    · have hk1 : (headKey c).1 = f := by rw [hk]
      have hk2 : (headKey c).2 = n := by rw [hk]
      rw [hk1, hk2]
      simp only [clausesOf, lookupProc_setProc, if_true, List.filter_cons, hk, decide_true,
        List.flatMap_cons, Option.isSome_some, Bool.true_or, List.isEmpty_cons, Bool.not_false, Bool.or_true, and_true]
      cases lookupProc s f n <;> simp
    · have hk' : ¬ (f, n) = ((headKey c).1, (headKey c).2) := fun e => hk e.symm
      simp only [clausesOf, lookupProc_setProc, if_neg hk', List.filter_cons, hk, decide_false]
      simp

theorem loadClauses_nil (s : St) : loadClauses s [] = s := rfl

theorem initState_eq (prog : List Term) : initState prog none = prog.foldl assertStep { bootState with cancelAt := none } := by
  simp only [initState, loadClauses_nil]

theorem lookupProc_cancel (s : St) (c : Option Nat) (f : String) (n : Nat) :
    lookupProc { s with cancelAt := c } f n = lookupProc s f n := rfl

/-- a user predicate after loading: unknown iff no clause of the program has that head; otherwise
    its clauses are the compiled forms of those clauses, in order -/
theorem lookup_user (prog : List Term) (hp : ∀ c ∈ prog, clauseS fl c = true) (f : String) (n : Nat)
    (hu : userPred f n = true) :
    (lookupProc (initState prog none) f n = none ↔ prog.filter (fun c => decide (headKey c = (f, n))) = []) ∧
    (∀ p, lookupProc (initState prog none) f n = some p →
      p.clauses = (prog.filter (fun c => decide (headKey c = (f, n)))).flatMap compiled) := by
  have hboot : lookupProc { bootState with cancelAt := none } f n = none := by
    simp only [userPred, Bool.and_eq_true, Option.isNone_iff_eq_none] at hu
    rw [lookupProc_cancel]; exact hu.2
  obtain ⟨h1, h2⟩ := foldl_assert f n prog { bootState with cancelAt := none } hp
  rw [initState_eq]
  simp only [clausesOf, hboot, Option.isSome_none, Bool.false_or, List.nil_append] at h1 h2
  constructor
  · constructor
    · intro hn
      rw [hn] at h2
      simpa using h2
    · intro he
      rw [he] at h2
      cases hl : lookupProc (List.foldl assertStep { bootState with cancelAt := none } prog) f n with
      | none => rfl
      | some p => rw [hl] at h2; simp at h2
  · intro p hl
    rw [hl] at h1
    exact h1

/-- predicates the program does not define keep their bootstrap definition -/
theorem lookup_other (prog : List Term) (hp : ∀ c ∈ prog, clauseS fl c = true) (f : String) (n : Nat)
    (hu : userPred f n = false) :
    lookupProc (initState prog none) f n = lookupProc bootState f n := by
  have hnil : prog.filter (fun c => decide (headKey c = (f, n))) = [] := by
    rw [List.filter_eq_nil_iff]
    intro c hc
    simp only [decide_eq_true_eq]
    intro hk
    have hcs := hp c hc
    simp only [clauseS, Bool.and_eq_true] at hcs
    have := (hornHead_user hcs.1.2)
    simp only [headKey, Prod.mk.injEq] at hk
    rw [hk.1, hk.2, hu] at this
    cases this
  obtain ⟨h1, h2⟩ := foldl_assert f n prog { bootState with cancelAt := none } hp
  rw [initState_eq]
  simp only [hnil, List.flatMap_nil, List.append_nil, List.isEmpty_nil, Bool.not_true, Bool.or_false,
    lookupProc_cancel] at h1 h2
  -- same clauses, same definedness: and the Proc record itself is untouched — go through the fold again
  clear h1 h2
  have key : ∀ (prog : List Term) (s : St), (∀ c ∈ prog, clauseS fl c = true) →
      prog.filter (fun c => decide (headKey c = (f, n))) = [] →
      lookupProc (prog.foldl assertStep s) f n = lookupProc s f n := by
    intro prog
    induction prog with
    | nil => intro s _ _; rfl
    | cons c prog ih =>
      intro s hp hnil
      have hc := hp c (by simp)
      have hk : headKey c ≠ (f, n) := by
        intro hk
        simp [hk] at hnil
      rw [List.foldl_cons, ih (assertStep s c) (fun c' hc' => hp c' (by simp [hc']))
        (by simpa [List.filter_cons, hk] using hnil), assertStep_S s c hc, lookupProc_setProc]
      have hk' : ¬ (f, n) = ((headKey c).1, (headKey c).2) := fun e => hk e.symm
      rw [if_neg hk']
  rw [key prog _ hp hnil, lookupProc_cancel]

/-! ## the reference's clause list -/

/-- the clause as the reference stores it: `Head :- Body` -/
def ruleOf (c : Term) : Term := SLD.rule (SLD.headBody c).1 (SLD.headBody c).2

theorem headBody_rule (h b : Term) : SLD.headBody (SLD.rule h b) = (h, b) := rfl

theorem sameProc_ruleOf (f : String) (n : Nat) (c : Term) : SLD.sameProc f n (ruleOf c) = SLD.sameProc f n c := by
  simp [SLD.sameProc, ruleOf, headBody_rule]

theorem sameProc_of_functor {c : Term} {f : String} {n : Nat} {g : String} {as : List Term}
    (h : SLD.functor (SLD.headBody c).1 = some (g, as)) : SLD.sameProc f n c = (g == f && as.length == n) := by
  simp [SLD.sameProc, h]

theorem sameProc_library (f : String) (n : Nat) (hf : f ∉ reservedNames) :
    SLD.library.filter (SLD.sameProc f n) = [] := by
  have h1 : ("member" == f) = false := by
    simp only [beq_eq_false_iff_ne, ne_eq]; intro e; exact hf (e ▸ (by decide))
  have h2 : ("append" == f) = false := by
    simp only [beq_eq_false_iff_ne, ne_eq]; intro e; exact hf (e ▸ (by decide))
  rw [List.filter_eq_nil_iff]
  intro c hc
  simp only [SLD.library, List.mem_cons, List.not_mem_nil, or_false] at hc
  rcases hc with rfl | rfl | rfl | rfl
  · rw [sameProc_of_functor (g := "member") (as := _) rfl, h1]; simp
  · rw [sameProc_of_functor (g := "member") (as := _) rfl, h1]; simp
  · rw [sameProc_of_functor (g := "append") (as := _) rfl, h2]; simp
  · rw [sameProc_of_functor (g := "append") (as := _) rfl, h2]; simp

theorem ruleOf_split {c r : Term} (h : r ∈ SLD.splitClause c) : ruleOf r = r := by
  simp only [SLD.splitClause, List.mem_map] at h
  obtain ⟨dj, _, rfl⟩ := h
  rfl

theorem sameProc_split {f : String} {n : Nat} {c r : Term} (h : r ∈ SLD.splitClause c) :
    SLD.sameProc f n r = SLD.sameProc f n c := by
  simp only [SLD.sameProc, split_head h]

/-- the reference's clauses for a user predicate: the alternatives of the program clauses with that
    head, in order -/
theorem sld_filter (prog : List Term) (hp : ∀ c ∈ prog, clauseS fl c = true) (f : String) (n : Nat)
    (hf : f ∉ reservedNames) :
    (prog.flatMap SLD.splitClause ++ SLD.library).filter (SLD.sameProc f n) =
      (prog.filter (fun c => decide (headKey c = (f, n)))).flatMap SLD.splitClause := by
  rw [List.filter_append, sameProc_library f n hf, List.append_nil]
  induction prog with
  | nil => rfl
  | cons c prog ih =>
    have hc := hp c (by simp)
    rw [List.flatMap_cons, List.filter_append, ih (fun c' hc' => hp c' (by simp [hc'])), List.filter_cons]
    have hsp : (SLD.splitClause c).filter (SLD.sameProc f n) =
        if headKey c = (f, n) then SLD.splitClause c else [] := by
      by_cases hk : headKey c = (f, n)
      · rw [if_pos hk, List.filter_eq_self]
        intro r hr
        rw [sameProc_split hr, sameProc_horn f n c hc]; simpa using hk
      · rw [if_neg hk, List.filter_eq_nil_iff]
        intro r hr
        rw [sameProc_split hr, sameProc_horn f n c hc]; simpa using hk
    rw [hsp]
    by_cases hk : headKey c = (f, n) <;> simp [hk]

end PrologVerif.Refine
