/-
  C05, VM part — `VM.exec` never panics: on the code the compiler emits, for every program, query
  and fuel, no run of the VM model ends in the residue of a Go run-time panic (index out of range
  on args / astack / vars, pc running off the code).  Proofs: Proofs/ExecSafe*.lean.
-/
import PrologVerif.Proofs.ExecSafe
namespace PrologVerif.C05
open PrologVerif PrologVerif.VM PrologVerif.ExecSafe

/-- **C05_vm_run_never_panics**: whatever the program (bootstrap + any asserted clauses), the query,
    the answer limit, the cancellation point and the fuel — if a run of the VM model ends with a Go
    error, that error is not the residue of a panic inside `VM.exec` -/
theorem C05_vm_run_never_panics (fuel : Nat) (prog : List Term) (query : Term) (max : Nat)
    (cancelAt : Option Nat) (answers : List Term) (msg : String)
    (h : runQuery fuel prog query max cancelAt = some (answers, .goErr msg)) :
    msg.startsWith "panic" = false :=
  run_safe fuel prog query max cancelAt answers msg h

/-- **C05_compiled_code_is_safe**: every clause `compile` emits — for every term encoding, also for
    heads that are not callable — passes the abstract interpretation `safe`: entered with `arity`
    arguments it never reads an argument, a variable slot or an `astack` frame that is not there and
    ends in `exit` -/
theorem C05_compiled_code_is_safe (r : Rep) (cs : List Clause) (h : compile r = .ok cs) :
    ∀ c ∈ cs, ClauseOK c :=
  compile_safe r cs h

/-- **C05_vm_step_preserves_safety**: from a well-formed configuration (safe code, well-formed
    continuation, every stored clause safe and stored under its own arity) `exec`, `applyCont`,
    `arrive` and the evaluation of any thunk return a well-formed promise — never a panic residue —
    and a well-formed state (assertz/asserta included) -/
theorem C05_vm_step_preserves_safety : ExecSafeStatement := exec_safe

/-- the bootstrap state is well-formed and so is the promise of any called goal -/
theorem C05_vm_initial_ok : InitialOKStatement := initial_ok

/-- the hypothesis is needed and the conclusion is not vacuous: code that is not `safe` does panic -/
theorem C05_unsafe_code_panics_witness (m : MS) :
    safe [.getConst (.atom "a"), .exit] 0 0 [] = false ∧
    ∃ p, exec 1 [.getConst (.atom "a"), .exit] [] .done [] [] [] 0 m = some (p, m) ∧ IsPanic p :=
  exec_needs_safe_witness m

end PrologVerif.C05
