/-
  Spec/DcgSubst — the little logic-programming kit the DCG specification needs: triangular
  substitutions, `walk`, unification without occurs check (as `=`/2 of the engine), full
  application.  Core Lean only.  Short on purpose: it is part of the specification of C17.
-/
import PrologVerif.Basic
import PrologVerif.Model.Errors
namespace PrologVerif.Grammar
open PrologVerif

/-- A substitution in triangular form, newest binding first.  Bindings are only ever added for
    a variable that is unbound at that moment, so a chain `X ↦ Y ↦ …` always runs from older
    to newer bindings, i.e. towards the head of the list. -/
abbrev Subst := List (Nat × Term)

/-- dereference the root of a term: one pass from the oldest binding to the newest -/
def walk : Subst → Term → Term
  | [], t => t
  | (v, u) :: σ, t =>
    match walk σ t with
    | .var w => if w = v then u else .var w
    | t' => t'

mutual
  /-- no variable occurs in the term -/
  def groundT : Term → Bool
    | .var _ => false
    | .app _ as => groundA as
    | _ => true
  def groundA : Args → Bool
    | .nil => true
    | .cons t ts => groundT t && groundA ts
end

/-- `Denotes σ t l`: under the substitution `σ` the term `t` is the list `l` of ground elements
    (every list cell and the final `[]` are reached by dereferencing) -/
inductive Denotes (σ : Subst) : Term → List Term → Prop
  | nil {t : Term} : walk σ t = Term.nilT → Denotes σ t []
  | cons {t h tl : Term} {l : List Term} :
      walk σ t = Term.consT h tl → groundT h = true → Denotes σ tl l → Denotes σ t (h :: l)

/-- outcome of a computation that may run out of fuel -/
inductive Fuel (α : Type) where
  | out                -- not enough fuel
  | done (a : α)
deriving DecidableEq

/-- unify the argument lists pairwise with `u`, threading the substitution -/
def unifyArgsWith (u : Subst → Term → Term → Fuel (Option Subst)) :
    Subst → Args → Args → Fuel (Option Subst)
  | σ, .nil, .nil => .done (some σ)
  | σ, .cons a as, .cons b bs =>
    match u σ a b with
    | .done (some σ') => unifyArgsWith u σ' as bs
    | r => r
  | _, _, _ => .done none

/-- syntactic unification, no occurs check; fuel bounds the depth of the recursion into terms.
    A variable is bound to the dereferenced other side; of two distinct variables the left one
    is bound (as engine/env.go does). -/
def unify : Nat → Subst → Term → Term → Fuel (Option Subst)
  | 0, _, _, _ => .out
  | k + 1, σ, t, u =>
    match walk σ t, walk σ u with
    | .var a, .var b => if a = b then .done (some σ) else .done (some ((a, .var b) :: σ))
    | .var a, u' => .done (some ((a, u') :: σ))
    | t', .var b => .done (some ((b, t') :: σ))
    | .app f as, .app g bs => if f = g then unifyArgsWith (unify k) σ as bs else .done none
    | t', u' => .done (if t' = u' then some σ else none)

def unifyList (k : Nat) : Subst → List Term → List Term → Fuel (Option Subst)
  | σ, [], [] => .done (some σ)
  | σ, a :: as, b :: bs =>
    match unify k σ a b with
    | .done (some σ') => unifyList k σ' as bs
    | r => r
  | _, _, _ => .done none

/-- apply `r` to every argument -/
def resolveArgsWith (r : Term → Option Term) : Args → Option Args
  | .nil => some .nil
  | .cons a as =>
    match r a, resolveArgsWith r as with
    | some a', some as' => some (.cons a' as')
    | _, _ => none

/-- apply a substitution completely (none = out of fuel, e.g. on a cyclic binding) -/
def resolve : Nat → Subst → Term → Option Term
  | 0, _, _ => none
  | k + 1, σ, t =>
    match walk σ t with
    | .app f as => (resolveArgsWith (resolve k σ) as).map (.app f)
    | t' => some t'

mutual
  /-- add `off` to every variable (renaming a rule or clause apart) -/
  def renameT (off : Nat) : Term → Term
    | .var v => .var (v + off)
    | .app f as => .app f (renameA off as)
    | t => t
  def renameA (off : Nat) : Args → Args
    | .nil => .nil
    | .cons t ts => .cons (renameT off t) (renameA off ts)
end

mutual
  /-- one more than the largest variable of a term (0 if ground) -/
  def boundT : Term → Nat
    | .var v => v + 1
    | .app _ as => boundA as
    | _ => 0
  def boundA : Args → Nat
    | .nil => 0
    | .cons t ts => max (boundT t) (boundA ts)
end

end PrologVerif.Grammar
