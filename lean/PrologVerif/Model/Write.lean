/-
  Model of the term writer: engine/atom.go (`Atom.WriteTerm`, `needQuoted`, `quote`,
  `quotedIdentEscape`, `letterDigit`, `graphic`), engine/integer.go, engine/float.go,
  engine/variable.go (`WriteTerm`), engine/compound.go (`WriteCompound` and the `writeCompound*`
  family).

  * `needQuoted` is what the Go code does: run the real reader's `atom()` on the text and
    compare — so the model calls the lexer and parser models.
  * `strconv.FormatFloat(f, 'g', -1, 64)` (shortest representation) and the names of variables
    (`_<n>`, n from the global counter) are parameters (`Env`); everything else is computed.
  * `max_depth` and the cycle check (`visited`) are not modelled: terms are finite trees and
    `max_depth` is 0 (unlimited) in writeq / write_canonical / print.
-/
import PrologVerif.Model.Read
namespace PrologVerif.Write
open PrologVerif PrologVerif.Lexer PrologVerif.Ops PrologVerif.Read

/-! ## atoms -/

/-- the configuration `needQuoted` lexes with: a fresh `Parser{}` has no char conversions -/
def plain (cfg : Cfg) : Cfg := { cfg with conv := id }

/-- `Parser{lexer: …(a.String())}.atom()`: the operator table is empty and double_quotes = chars -/
def parseAtom (cfg : Cfg) (s : List Char) : Option (List Char) :=
  let toks := (tokens (plain cfg) 2 (Lexer.ofList s)).1
  match (Read.atom .chars { after := toks }).1 with
  | .ok a => some a.toList
  | .error _ => none

/-- `needQuoted(a)` -/
def needQuoted (cfg : Cfg) (s : List Char) : Bool := parseAtom cfg s ≠ some s

def hexDigitLower (n : Nat) : Char :=
  if n < 10 then Char.ofNat (48 + n) else Char.ofNat (87 + n)

/-- `fmt.Sprintf("%x", n)`; structural on fuel, 6 digits cover every code point -/
def hexDigitsAux : Nat → Nat → List Char → List Char
  | 0, _, acc => acc
  | fuel + 1, n, acc =>
    if n < 16 then hexDigitLower n :: acc
    else hexDigitsAux fuel (n / 16) (hexDigitLower (n % 16) :: acc)

def hexDigits (n : Nat) : List Char := hexDigitsAux 8 n []

/-- `quotedIdentEscape(string(r))` -/
def quotedIdentEscape (r : Char) : List Char :=
  if r = '\x07' then ['\\', 'a'] else if r = '\x08' then ['\\', 'b'] else if r = '\x0c' then ['\\', 'f']
  else if r = '\n' then ['\\', 'n'] else if r = '\r' then ['\\', 'r'] else if r = '\t' then ['\\', 't']
  else if r = '\x0b' then ['\\', 'v'] else if r = '\\' then ['\\', '\\'] else if r = '\'' then ['\\', '\'']
  else '\\' :: 'x' :: hexDigits r.toNat ++ ['\\']

/-- the body of `quote`: every rune the lexer accepts verbatim inside single quotes is copied, every
    other rune is escaped -/
def quoteBody (cfg : Cfg) : List Char → List Char
  | [] => []
  | r :: rs =>
    (if isSingleQuotedCharacter cfg r then [r] else quotedIdentEscape r) ++ quoteBody cfg rs

/-- `quote(s)` -/
def quote (cfg : Cfg) (s : List Char) : List Char := '\'' :: quoteBody cfg s ++ ['\'']

/-- `quote` of the pinned tree (before the repair of D12): only ASCII control characters, `\` and
    `'` were escaped (`[[:cntrl:]]|\\|'`) -/
def quotePinned (s : List Char) : List Char :=
  '\'' :: s.flatMap (fun r => if r.toNat < 32 ∨ r.toNat = 127 ∨ r = '\\' ∨ r = '\'' then quotedIdentEscape r else [r]) ++ ['\'']

/-- the text `writeq` emits for an atom outside any operator context -/
def atomText (cfg : Cfg) (s : List Char) : List Char :=
  if needQuoted cfg s then quote cfg s else s

/-- `letterDigit(a)` -/
def letterDigit (cfg : Cfg) (s : List Char) : Bool :=
  match s with
  | [] => false
  | c :: _ => isSmallLetterChar cfg c

/-- `graphic(a)` -/
def graphic (s : List Char) : Bool :=
  match s with
  | [] => false
  | c :: _ => isGraphicChar c || decide (c = '\\')

/-! ## integers -/

/-- decimal digits of a natural number; structural on fuel (20 digits cover 64 bits) -/
def decDigitsAux : Nat → Nat → List Char → List Char
  | 0, _, acc => acc
  | fuel + 1, n, acc =>
    if n < 10 then Char.ofNat (48 + n) :: acc
    else decDigitsAux fuel (n / 10) (Char.ofNat (48 + n % 10) :: acc)

def decDigits (n : Nat) : List Char := decDigitsAux 20 n []

/-- `strconv.FormatInt(i, 10)` -/
def formatInt (i : Int) : List Char :=
  if i < 0 then '-' :: decDigits i.natAbs else decDigits i.natAbs

/-! ## floats -/

/-- the patch `Float.WriteTerm` applies to the 'g' text: make sure there is a `.` -/
def patchFloat (s : List Char) : List Char :=
  if '.' ∈ s then s
  else if 'e' ∈ s then s.takeWhile (· ≠ 'e') ++ ['.', '0'] ++ s.dropWhile (· ≠ 'e')
  else s ++ ['.', '0']

/-! ## the writer -/

structure Env where
  cfg : Cfg
  /-- `strconv.FormatFloat(f, 'g', -1, 64)` by bit pattern -/
  fmtFloat : UInt64 → List Char
  /-- `fmt.Sprintf("_%d", v)` with the run's variable numbers -/
  varName : Nat → List Char

structure WOpts where
  ignoreOps : Bool := false
  quoted : Bool := true
  numberVars : Bool := false
  ops : Table
  priority : Nat := 1200
  left : Option Op := none
  right : Option Op := none

def WOpts.bare (o : WOpts) : WOpts := { o with left := none, right := none }

def opName (o : Option Op) : List Char :=
  match o with
  | some o => o.name.toList
  | none => ['\x00']     -- `Atom(0).String()`

def isPrefixOp (o : Option Op) : Bool :=
  match o with
  | some o => o.spec.cls = .pre
  | none => false

/-- `left.name == atomMinus && left.specifier.class() == operatorClassPrefix` -/
def isPrefixMinus (o : Option Op) : Bool :=
  match o with
  | some o => o.name = "-" && o.spec.cls = .pre
  | none => false

def sp (b : Bool) : List Char := if b then [' '] else []

/-- `Atom.WriteTerm` -/
def writeAtom (e : Env) (o : WOpts) (a : List Char) : List Char :=
  let openClose := (o.left.isSome || o.right.isSome) && defined o.ops (String.ofList a)
  let pre := if openClose then sp (isPrefixOp o.left) ++ ['('] else []
  let o := if openClose then o.bare else o
  let body :=
    if o.quoted && needQuoted e.cfg a then
      sp (o.left.isSome && needQuoted e.cfg (opName o.left)) ++ quote e.cfg a ++
      sp (o.right.isSome && needQuoted e.cfg (opName o.right))
    else
      sp ((letterDigit e.cfg (opName o.left) && letterDigit e.cfg a) || (graphic (opName o.left) && graphic a)) ++ a ++
      sp ((letterDigit e.cfg (opName o.right) && letterDigit e.cfg a) || (graphic (opName o.right) && graphic a))
  pre ++ body ++ (if openClose then [')'] else [])

/-- `Integer.WriteTerm` -/
def writeInt (e : Env) (o : WOpts) (i : Int) : List Char :=
  let openClose := isPrefixMinus o.left && decide (i ≥ 0)
  if openClose then [' ', '('] ++ formatInt i ++ [')']
  else
    sp (o.left.isSome && (letterDigit e.cfg (opName o.left) || (decide (i < 0) && graphic (opName o.left)))) ++
    formatInt i ++
    sp (o.right.isSome && (letterDigit e.cfg (opName o.right) ||
      (needQuoted e.cfg (opName o.right) && opName o.right ≠ [','] && opName o.right ≠ ['|'])))

/-- `math.Signbit` on the bit pattern -/
def signbit (b : UInt64) : Bool := b ≥ 0x8000000000000000

/-- `startsWithExponentChar(a)`: written directly after a float, such an operator (`e`, `e1`, …) would be
    taken for the float's exponent -/
def startsWithExponentChar (s : List Char) : Bool :=
  match s with
  | [] => false
  | c :: _ => decide (c = 'e') || decide (c = 'E')

/-- `Float.WriteTerm` -/
def writeFloat (e : Env) (o : WOpts) (b : UInt64) : List Char :=
  let openClose := isPrefixMinus o.left && !signbit b
  sp (openClose || (o.left.isSome && (signbit b || letterDigit e.cfg (opName o.left)))) ++
  (if openClose then ['('] else []) ++
  patchFloat (e.fmtFloat b) ++ (if openClose then [')'] else []) ++
  sp (!openClose && o.right.isSome && startsWithExponentChar (opName o.right))

/-- `Variable.WriteTerm` for an unbound variable without a name in `variable_names` -/
def writeVar (e : Env) (o : WOpts) (v : Nat) : List Char :=
  sp (letterDigit e.cfg (opName o.left)) ++ e.varName v ++ sp (letterDigit e.cfg (opName o.right))

/-- `writeCompoundNumberVars` -/
def numberVarsText (n : Nat) : List Char :=
  Char.ofNat (65 + n % 26) :: (if n / 26 = 0 then [] else decDigits (n / 26))

/-- the operator `WriteCompound` picks: the first of prefix, postfix, infix whose arity matches -/
def pickOp (ops : Table) (f : String) (arity : Nat) : Option Op :=
  let ar (o : Op) : Nat := if o.spec.cls = .inf then 2 else 1
  [opOf ops f .pre, opOf ops f .post, opOf ops f .inf].findSome? fun o =>
    match o with
    | some o => if ar o = arity then some o else none
    | none => none

/-- `writeCompoundOpPrefix`; `wa` writes the argument under the given options -/
def writePrefix (e : Env) (f : String) (wa : WOpts → List Char) (o : WOpts) (op : Op) : List Char :=
  let r := (bindingPriorities op).2
  let openClose := decide (o.priority < op.pri) ||
    (match o.right with | some ro => decide (r ≥ ro.pri) | none => false)
  let o' := if openClose then o.bare else o
  sp o.left.isSome ++ (if openClose then ['('] else []) ++
  writeAtom e o'.bare f.toList ++
  wa { o' with priority := r, left := some op } ++
  (if openClose then [')'] else [])

/-- `writeCompoundOpPostfix` -/
def writePostfix (e : Env) (f : String) (wa : WOpts → List Char) (o : WOpts) (op : Op) : List Char :=
  let l := (bindingPriorities op).1
  let openClose := decide (o.priority < op.pri) || isPrefixMinus o.left
  let o' := if openClose then o.bare else o
  (if openClose then sp o.left.isSome ++ ['('] else []) ++
  wa { o' with priority := l, right := some op } ++
  writeAtom e o'.bare f.toList ++
  (if openClose then [')'] else sp o'.right.isSome)

/-- `writeCompoundOpInfix` -/
def writeInfix (e : Env) (f : String) (wa wb : WOpts → List Char) (o : WOpts) (op : Op) : List Char :=
  let l := (bindingPriorities op).1
  let r := (bindingPriorities op).2
  let openClose := decide (o.priority < op.pri) || isPrefixMinus o.left ||
    (match o.right with | some ro => decide (r ≥ ro.pri) | none => false)
  let o' := if openClose then o.bare else o
  (if openClose then sp (isPrefixOp o.left) ++ ['('] else []) ++
  wa { o' with priority := l, right := some op } ++
  (if f = "," ∨ f = "|" then f.toList else writeAtom e o'.bare f.toList) ++
  wb { o' with priority := r, left := some op } ++
  (if openClose then [')'] else [])

/-- `$VAR(N)` under numbervars(true) -/
def numberVarsOf (o : WOpts) (f : String) (a0 : Term) : Option Nat :=
  match a0 with
  | .int n => if o.numberVars ∧ f = "$VAR" ∧ n ≥ 0 then some n.toNat else none
  | _ => none

def isPair : Args → Bool
  | .cons _ (.cons _ .nil) => true
  | _ => false

def o999 (o : WOpts) : WOpts := { o.bare with priority := 999 }

/-- the functor of `writeCompoundFunctionalNotation`: an operator is not bracketed here, only kept apart
    from the operator on its left -/
def writeFunctor (e : Env) (o : WOpts) (f : String) : List Char :=
  if o.left.isSome ∧ defined o.ops f then [' '] ++ writeAtom e o.bare f.toList
  else writeAtom e { o with right := none } f.toList

mutual
  /-- `Term.WriteTerm` -/
  def writeTerm (e : Env) : Term → WOpts → List Char
    | .var v, o => writeVar e o v
    | .atom a, o => writeAtom e o a.toList
    | .int i, o => writeInt e o i
    | .flt b, o => writeFloat e o b
    | .str _, _ => ['<', 's', 't', 'r', 'e', 'a', 'm', '>']
    | .app f as, o => writeCompound e f as o
  /-- `WriteCompound` (with `writeCompoundFunctionalNotation`, `writeCompoundList`,
      `writeCompoundCurlyBracketed` inlined), by arity -/
  def writeCompound (e : Env) (f : String) : Args → WOpts → List Char
    | .nil, o => writeAtom e o f.toList          -- not a compound; `Term.mk` never builds it
    | .cons a0 .nil, o =>
      let functional : List Char :=
        writeFunctor e o f ++ ['('] ++ writeTerm e a0 (o999 o) ++ [')']
      match numberVarsOf o f a0 with
      | some n => numberVarsText n
      | none =>
        if o.ignoreOps then functional
        else if f = "{}" then ['{'] ++ writeTerm e a0 { o with left := none } ++ ['}']
        else
          match pickOp o.ops f 1 with
          | some opr =>
            if opr.spec.cls = .pre then writePrefix e f (writeTerm e a0) o opr
            else writePostfix e f (writeTerm e a0) o opr
          | none => functional
    | .cons a0 (.cons a1 .nil), o =>
      let functional : List Char :=
        writeFunctor e o f ++ ['('] ++ writeTerm e a0 (o999 o) ++ [','] ++
          writeTerm e a1 (o999 o) ++ [')']
      if o.ignoreOps then functional
      else if f = "." then ['['] ++ writeTerm e a0 (o999 o) ++ writeListTail e a1 (o999 o) ++ [']']
      else
        match pickOp o.ops f 2 with
        | some opr => writeInfix e f (writeTerm e a0) (writeTerm e a1) o opr
        | none => functional
    | .cons a0 (.cons a1 (.cons a2 rest)), o =>
      writeFunctor e o f ++ ['('] ++ writeTerm e a0 (o999 o) ++ [','] ++
        writeTerm e a1 (o999 o) ++ [','] ++ writeTerm e a2 (o999 o) ++ writeArgsTail e rest (o999 o) ++ [')']
  /-- the `ListIterator` loop of `writeCompoundList` and the tail, on the second argument of a list cell -/
  def writeListTail (e : Env) : Term → WOpts → List Char
    | .app f (.cons h (.cons t .nil)), o =>
      if f = "." then [','] ++ writeTerm e h o ++ writeListTail e t o
      else ['|'] ++ writeCompound e f (.cons h (.cons t .nil)) o
    | .app f as, o => ['|'] ++ writeCompound e f as o
    | .atom a, o => if a = "[]" then [] else ['|'] ++ writeAtom e o a.toList
    | .var v, o => ['|'] ++ writeVar e o v
    | .int i, o => ['|'] ++ writeInt e o i
    | .flt b, o => ['|'] ++ writeFloat e o b
    | .str _, _ => ['|', '<', 's', 't', 'r', 'e', 'a', 'm', '>']
  /-- the rest of the argument loop of `writeCompoundFunctionalNotation` -/
  def writeArgsTail (e : Env) : Args → WOpts → List Char
    | .nil, _ => []
    | .cons a rest, o => [','] ++ writeTerm e a o ++ writeArgsTail e rest o
end

/-- `writeq(T)`: write_term(T, [quoted(true), numbervars(true)]) -/
def writeq (e : Env) (ops : Table) (t : Term) : List Char :=
  writeTerm e t { ops := ops, quoted := true, numberVars := true }

/-- `write_canonical(T)`: write_term(T, [quoted(true), ignore_ops(true)]) -/
def writeCanonical (e : Env) (ops : Table) (t : Term) : List Char :=
  writeTerm e t { ops := ops, quoted := true, ignoreOps := true }

/-- `write_term(T, [quoted(true)])` -/
def writeQuoted (e : Env) (ops : Table) (t : Term) : List Char :=
  writeTerm e t { ops := ops, quoted := true }

end PrologVerif.Write
