package main

import (
	"bytes"
	"context"
	"errors"
	"fmt"
	"strings"
	"time"

	"github.com/ichiban/prolog"
	"github.com/ichiban/prolog/engine"
)

// newInterp returns a fresh interpreter with in-memory user input/output.
func newInterp(input string) (*prolog.Interpreter, *bytes.Buffer) {
	var out bytes.Buffer
	i := prolog.New(strings.NewReader(input), &out)
	return i, &out
}

// errWire canonicalises an error returned by the engine:
//   error(Formal, Context) -> "err <Formal>"; other balls -> "ball <Term>"; Go errors -> "goerr <msg>"
func errWire(err error) string {
	var ex engine.Exception
	if errors.As(err, &ex) {
		t := ex.Term()
		if c, ok := t.(engine.Compound); ok && c.Functor().String() == "error" && c.Arity() == 2 {
			return "err " + wire(c.Arg(0), nil, newVarNamer())
		}
		return "ball " + wire(t, nil, newVarNamer())
	}
	msg := err.Error()
	if strings.HasPrefix(msg, "panic:") {
		return "panic " + encName(msg)
	}
	return "goerr " + encName(msg)
}

type answer struct {
	env *engine.Env
}

// solve runs goal on vm and calls visit for each answer until visit returns false,
// the search is exhausted, max answers were seen or the timeout expires.
func solve(vm *engine.VM, goal engine.Term, max int, timeout time.Duration, visit func(env *engine.Env) bool) (n int, err error) {
	ctx, cancel := context.WithTimeout(context.Background(), timeout)
	defer cancel()
	_, err = engine.Call(vm, goal, func(env *engine.Env) *engine.Promise {
		n++
		if !visit(env) || n >= max {
			return engine.Bool(true)
		}
		return engine.Bool(false)
	}, nil).Force(ctx)
	return n, err
}

// solveOnce runs goal for its first answer: "true", "false", or the error.
func solveOnce(vm *engine.VM, goal engine.Term) string {
	ok := false
	_, err := solve(vm, goal, 1, 5*time.Second, func(*engine.Env) bool { ok = true; return false })
	if err != nil {
		return errWire(err)
	}
	if ok {
		return "true"
	}
	return "false"
}

// solveAll collects wire(template) for every answer.
func solveAll(vm *engine.VM, goal, template engine.Term, max int) ([]string, error) {
	var out []string
	_, err := solve(vm, goal, max, 10*time.Second, func(env *engine.Env) bool {
		// a cyclic answer (possible with =/2 on pairs subject to occurs check) cannot be printed
		acyclic := false
		_, _ = engine.AcyclicTerm(vm, template, func(*engine.Env) *engine.Promise { acyclic = true; return engine.Bool(true) }, env).Force(context.Background())
		if !acyclic {
			out = append(out, "cyclic")
			return true
		}
		out = append(out, wire(template, env, newVarNamer()))
		return true
	})
	return out, err
}

func atom(s string) engine.Atom { return engine.NewAtom(s) }

func compound(f string, args ...engine.Term) engine.Term { return engine.NewAtom(f).Apply(args...) }

func must(err error) {
	if err != nil {
		panic(fmt.Sprintf("harness: %v", err))
	}
}

func ctxBg() context.Context { return context.Background() }
