/-
  C01 — answers are those of depth-first, left-to-right SLD resolution, in order.

  Sanity theorems about the reference interpreter `Spec/SLD` (the oracle of the answer streams).
  this file by the owner of C01; what is here are sanity theorems about the reference interpreter
  itself, universally quantified over fuel, answer limit and (where it does not matter) the program,
  so that the pipeline of the answer streams (c01.answers, c03.answers, c04.answers) has a property
  module to build and audit.
-/
import PrologVerif.Spec.SLD
namespace PrologVerif.C01
open PrologVerif PrologVerif.SLD

/-- `true` has exactly one answer against every program, whatever the fuel beyond the six steps the
    derivation takes; asking for one answer only ends with "more". -/
theorem C01_spec_true (prog : List Term) (max n : Nat) :
    solveQuery (n + 6) prog (.atom "true") max
      = some ([.atom "true"], if max = 1 then .more else .exhausted) := by
  by_cases h : max = 1 <;>
  simp [h, solveQuery, solve, solveAlts, functor, addArgs, call1, Term.mk, Args.toList, okBody,
    disjuncts, conjuncts, wrapVar, isGoal, bodyAlts, bodyFrames, builtin, maxVar, failed, Res.prepend]

/-- a fact answers the query that is identical to it, once -/
theorem C01_spec_fact (max n : Nat) :
    solveQuery (n + 8) [.atom "p"] (.atom "p") max
      = some ([.atom "p"], if max = 1 then .more else .exhausted) := by
  by_cases h : max = 1 <;>
  simp [h, solveQuery, solve, solveAlts, functor, addArgs, call1, Term.mk, Args.toList, okBody,
    disjuncts, conjuncts, wrapVar, isGoal, bodyAlts, bodyFrames, builtin, maxVar, library, sameProc,
    headBody, rule, mk2, Term.consT, Term.nilT, splitClause, unify, Robinson.solve, shift, shiftArgs,
    Robinson.applySubst, Frame.subst, failed, Res.prepend]

/-- calling a procedure that has no clause raises existence_error(procedure, Name/Arity) -/
theorem C01_spec_unknown_procedure (max n : Nat) :
    solveQuery (n + 4) [] (.atom "p") max
      = some ([], .err (mk2 "existence_error" (.atom "procedure") (mk2 "/" (.atom "p") (.int 0)))) := by
  simp [solveQuery, solve, solveAlts, functor, addArgs, call1, Term.mk, Args.toList, okBody,
    disjuncts, conjuncts, wrapVar, isGoal, bodyAlts, bodyFrames, builtin, maxVar, library, sameProc,
    headBody, rule, mk2, raise, existenceErr, errorT, Term.consT, Term.nilT]

/-- without fuel there is no verdict -/
theorem C01_spec_no_fuel (prog : List Term) (q : Term) (max : Nat) (iso : Bool) :
    solveQuery 0 prog q max iso = none := by
  simp [solveQuery, solve]

end PrologVerif.C01
