package main

import "math/rand"

func genC01Answers(r *rand.Rand, n int, tier string) []string { return nil }
func genC03Answers(r *rand.Rand, n int, tier string) []string { return nil }
func genC04Answers(r *rand.Rand, n int, tier string) []string { return nil }
