/-
  The pinned reader (4-slot ring, `t, _ := p.next(); … p.backup()` at end of input) on the
  witness of defect D1, the token list `[` `-`: the descent
      list → arg → term(999) → term0 → list
  comes back to the same ring state after four calls, for every fuel.
-/
import PrologVerif.Model.Read0
namespace PrologVerif.Read0.Pinned
open PrologVerif PrologVerif.Read0 PrologVerif.Ops

def tk (k : Kind) (v : String) : Token := ⟨k, v⟩

/-- the pinned code with the default operator table -/
def cfg : Cfg := { ops := defaultTable, g := false }

/-- D1: `[-` -/
def d1 : List Token := [tk .openList "[", tk .graphic "-"]

/-- the ring after `[` was consumed and `-` was looked at and backed up: the state `list` is entered in -/
def ringA : Ring := { rest := [], b0 := tk .openList "[", b1 := tk .graphic "-", start := 1, stop := 2 }
def SA : PS Ring := { buf := ringA }

theorem e0 : prefixOp cfg 1201 (Ring.init d1) = (.err .noOp, { ringA with start := 0 }) := by decide +kernel
theorem e1 : atom cfg ringA = (.ok "-", { ringA with start := 2 }) := by decide +kernel
/-- the defect: the look-ahead delivers nothing, yet the cursor is moved back -/
theorem e2 : argLook cfg "-" { ringA with start := 2 } = (false, { ringA with start := 1 }) := by decide +kernel
/-- … and the atom is un-read on top of that: the cursor is now BEFORE the `[` the caller consumed -/
theorem e3 : unreadAtom ({ ringA with start := 1 } : Ring) = { ringA with start := 0 } := by decide +kernel
theorem e4 : prefixOp cfg 999 ({ ringA with start := 0 } : Ring) = (.err .noOp, { ringA with start := 0 }) := by decide +kernel
theorem e5 : (Buf.next ({ ringA with start := 0 } : Ring) : Option Token × Ring) = (some (tk .openList "["), ringA) := by
  decide +kernel
theorem e6 : (Buf.next ringA : Option Token × Ring) = (some (tk .graphic "-"), { ringA with start := 2 }) := by
  decide +kernel
theorem e7 : (Buf.backup ({ ringA with start := 2 } : Ring) : Ring) = ringA := by decide +kernel

/-- four calls later `list` is entered again in the same state -/
theorem loop (n : Nat) (s : PS Ring) (h : list cfg n SA = (.fuel, s)) : list cfg (n + 4) SA = (.fuel, s) := by
  rw [list, arg]
  simp only [SA, e1, e2, e3, withBuf]
  rw [term]
  simp only [e4, withBuf]
  rw [term0]
  simp only [e5, e6, e7, tk, withBuf]
  simp only [SA] at h
  simp [h]

theorem list_diverges : ∀ n, (list cfg n SA).1 = .fuel
  | 0 => rfl
  | 1 => rfl
  | 2 => by decide +kernel
  | 3 => by decide +kernel
  | n + 4 => by
    have ih := list_diverges n
    cases hl : list cfg n SA with
    | mk r s =>
      rw [hl] at ih
      simp only [] at ih
      subst ih
      rw [loop n s hl]

theorem readTerm_diverges : ∀ n, (readTerm cfg n ({ buf := Ring.init d1 } : PS Ring)).1 = .fuel
  | 0 => rfl
  | 1 => by decide +kernel
  | n + 2 => by
    have h := list_diverges n
    cases hl : list cfg n SA with
    | mk r s =>
      rw [hl] at h; simp only [] at h; subst h
      rw [readTerm, term]
      simp only [e0, withBuf]
      rw [term0]
      simp only [e5, e6, e7, tk, withBuf]
      simp only [SA] at hl
      simp [hl]

end PrologVerif.Read0.Pinned
