/-
  Helper lemmas for C18 (operator table).
-/
import PrologVerif.Spec.OpTable
namespace PrologVerif.Ops

theorem slot_iff (o : OpDef) (n : String) (c : Class) :
    slot o n c = true ↔ o.name = n ∧ o.spec.cls = c := by
  simp [slot]

theorem definedInClass_iff (t : Table) (n : String) (c : Class) :
    definedInClass t n c = true ↔ ∃ o ∈ t, o.name = n ∧ o.spec.cls = c := by
  simp [definedInClass, List.any_eq_true, slot_iff]

theorem mem_remove (t : Table) (n : String) (c : Class) (o : OpDef) :
    o ∈ remove t n c ↔ o ∈ t ∧ ¬ (o.name = n ∧ o.spec.cls = c) := by
  simp only [remove, List.mem_filter, Bool.not_eq_true', ← Bool.not_eq_true, slot_iff]

theorem remove_of_not_defined (t : Table) (n : String) (c : Class)
    (h : definedInClass t n c = false) : remove t n c = t := by
  unfold remove
  apply List.filter_eq_self.mpr
  intro o ho
  have : ¬ (definedInClass t n c = true) := by simp [h]
  rw [definedInClass_iff] at this
  simp only [Bool.not_eq_true', ← Bool.not_eq_true]
  intro hs
  rw [slot_iff] at hs
  exact this ⟨o, ho, hs⟩

/-- one iteration of the mutation loop of `Op` -/
def stepName (t : Table) (p : Nat) (s : Spec) (n : String) : Table :=
  define (if definedInClass t n s.cls then remove t n s.cls else t) p s n

theorem remove_idem (t : Table) (n : String) (c : Class) :
    remove (remove t n c) n c = remove t n c := by
  simp [remove, List.filter_filter]

theorem stepName_eq (t : Table) (p : Nat) (s : Spec) (n : String) :
    stepName t p s n = remove t n s.cls ++ (if p = 0 then [] else [⟨n, p, s⟩]) := by
  unfold stepName define
  by_cases hd : definedInClass t n s.cls = true
  · simp only [hd, if_true]
    by_cases hp : p = 0
    · simp [hp]
    · simp [hp, remove_idem]
  · have hd' : definedInClass t n s.cls = false := by simpa using hd
    simp only [hd', Bool.false_eq_true, if_false]
    by_cases hp : p = 0
    · simp [hp, remove_of_not_defined t n s.cls hd']
    · simp [hp, remove_of_not_defined t n s.cls hd']

theorem applyNames_eq (t : Table) (p : Nat) (s : Spec) (ns : List String) :
    applyNames t p s ns = ns.foldl (fun t n => stepName t p s n) t := rfl

theorem mem_stepName (t : Table) (p : Nat) (s : Spec) (n : String) (o : OpDef) :
    o ∈ stepName t p s n ↔
      (o ∈ t ∧ ¬ (o.name = n ∧ o.spec.cls = s.cls)) ∨ (p ≠ 0 ∧ o = ⟨n, p, s⟩) := by
  rw [stepName_eq]
  by_cases hp : p = 0
  · simp [hp, mem_remove]
  · simp [hp, mem_remove]

/-- other names / other classes are untouched by a step -/
theorem definedInClass_stepName_other (t : Table) (p : Nat) (s : Spec) (n m : String) (c : Class)
    (h : m ≠ n ∨ c ≠ s.cls) :
    definedInClass (stepName t p s n) m c = definedInClass t m c := by
  rw [Bool.eq_iff_iff, definedInClass_iff, definedInClass_iff]
  constructor
  · rintro ⟨o, ho, hn, hc⟩
    rw [mem_stepName] at ho
    rcases ho with ⟨ho, _⟩ | ⟨_, rfl⟩
    · exact ⟨o, ho, hn, hc⟩
    · simp at hn hc
      rcases h with h | h
      · exact absurd hn.symm h
      · exact absurd hc.symm h
  · rintro ⟨o, ho, hn, hc⟩
    refine ⟨o, ?_, hn, hc⟩
    rw [mem_stepName]
    left
    refine ⟨ho, ?_⟩
    rintro ⟨h1, h2⟩
    rcases h with h | h
    · exact h (hn.symm.trans h1)
    · exact h (hc.symm.trans h2)

theorem validateOp_stepName_other (t : Table) (p : Nat) (s : Spec) (n m : String) (hmn : m ≠ n) :
    validateOp (stepName t p s n) p s m = validateOp t p s m := by
  unfold validateOp
  simp only [definedInClass_stepName_other t p s n m _ (Or.inl hmn)]

/-- the abstract effect of one step -/
theorem lookup_stepName_other (t : Table) (p : Nat) (s : Spec) (n m : String) (c : Class)
    (h : m ≠ n ∨ c ≠ s.cls) :
    lookup (stepName t p s n) m c = lookup t m c := by
  rw [stepName_eq]
  unfold lookup
  have hnew : ∀ o ∈ (if p = 0 then [] else [(⟨n, p, s⟩ : OpDef)]), slot o m c = false := by
    intro o ho
    by_cases hp : p = 0
    · simp [hp] at ho
    · simp [hp] at ho
      subst ho
      rw [← Bool.not_eq_true, slot_iff]
      simp
      intro h1 h2
      rcases h with h | h
      · exact h h1.symm
      · exact h h2.symm
  rw [List.find?_append]
  have h2 : List.find? (slot · m c) (if p = 0 then [] else [(⟨n, p, s⟩ : OpDef)]) = none := by
    rw [List.find?_eq_none]; intro o ho; simp [hnew o ho]
  rw [h2, Option.or_none]
  -- find? over the filtered list
  unfold remove
  induction t with
  | nil => rfl
  | cons a t ih =>
    simp only [List.filter_cons]
    by_cases hs : slot a n s.cls = true
    · have hm : slot a m c = false := by
        rw [← Bool.not_eq_true, slot_iff]
        rw [slot_iff] at hs
        rintro ⟨h1, h2⟩
        rcases h with h | h
        · exact h (h1.symm.trans hs.1)
        · exact h (h2.symm.trans hs.2)
      simp [hs, hm, ih]
    · have hs' : slot a n s.cls = false := by simpa using hs
      simp only [hs', Bool.not_false, if_true, List.find?_cons]
      cases slot a m c <;> simp [ih]

theorem lookup_stepName_same (t : Table) (p : Nat) (s : Spec) (n : String) :
    lookup (stepName t p s n) n s.cls = if p = 0 then none else some ⟨n, p, s⟩ := by
  rw [stepName_eq]
  unfold lookup
  rw [List.find?_append]
  have h1 : List.find? (slot · n s.cls) (remove t n s.cls) = none := by
    rw [List.find?_eq_none]
    intro o ho
    rw [mem_remove] at ho
    rw [Bool.not_eq_true, ← Bool.not_eq_true, slot_iff]
    exact ho.2
  rw [h1, Option.none_or]
  by_cases hp : p = 0
  · simp [hp]
  · simp [hp, slot]

end PrologVerif.Ops
