/-
  Model/StreamOut.lean — the output side of engine/stream.go (WriteByte, WriteRune, textWriter,
  binaryWriter) and PutChar / nl / PutByte / WriteTerm of engine/builtin.go (C19, output order).

  There is no buffering layer between a built-in and the sink: `textWriter.Write` /
  `binaryWriter.Write` call `sink.Write(p)` directly and add the count to `position`.  The sink is
  the list of bytes it has received.  The term writer itself is C06's subject; here it is the
  function `termText` on the small fragment the generator uses (atoms, integers, canonical
  compounds without operators), `none` outside it.
-/
import PrologVerif.Model.StreamTypes
namespace PrologVerif.StreamOut
open PrologVerif PrologVerif.Stream

inductive OutOp
  | putChar (r : Nat)
  | nl
  | putByte (b : Nat)
  | write (t : Term)
  | writeq (t : Term)
  deriving DecidableEq

inductive OutRes
  | ok
  | err (e : Err)
  deriving DecidableEq

/-- an output stream over a recording sink -/
structure Sink where
  bytes : List Nat := []
  position : Int := 0

/-- sink.Write(p) through textWriter / binaryWriter -/
def Sink.write (s : Sink) (p : List Nat) : Sink :=
  { bytes := s.bytes ++ p, position := s.position + p.length }

def strBytes (s : String) : List Nat := s.toUTF8.toList.map (·.toNat)

def bareAtom (s : String) : Bool :=
  match s.toList with
  | [] => false
  | c :: cs => ('a' ≤ c && c ≤ 'z') && cs.all (fun c => c.isAlphanum || c == '_')

def plainQuoted (s : String) : Bool := s.toList.all (fun c => c.isAlphanum || c == '_' || c == ' ')

mutual
  /-- what write/1 (quoted = false) and writeq/1 (quoted = true) print, on the fragment -/
  def termText (quoted : Bool) : Term → Option String
    | .atom s =>
      if bareAtom s then some s
      else if plainQuoted s then some (if quoted then "'" ++ s ++ "'" else s)
      else none
    | .int i => some (toString i)
    | .app f as =>
      if bareAtom f then (argsText quoted as).map (fun a => f ++ "(" ++ a ++ ")") else none
    | _ => none
  def argsText (quoted : Bool) : Args → Option String
    | .nil => none
    | .cons t .nil => termText quoted t
    | .cons t ts =>
      match termText quoted t, argsText quoted ts with
      | some a, some b => some (a ++ "," ++ b)
      | _, _ => none
end

/-- the bytes an operation sends to a stream of the given type, or the error it raises -/
def opBytes (typ : StreamType) : OutOp → Except Err (List Nat)
  | .putChar r => if typ = .text then .ok (encodeRune r) else .error .binaryStream
  | .nl => if typ = .text then .ok [10] else .error .binaryStream
  | .putByte b => if typ = .binary then .ok [b] else .error .textStream
  | .write t =>
    if typ = .text then (match termText false t with | some s => .ok (strBytes s) | none => .error .other)
    else .error .binaryStream
  | .writeq t =>
    if typ = .text then (match termText true t with | some s => .ok (strBytes s) | none => .error .other)
    else .error .binaryStream

abbrev Cont := Sink → List OutRes × Sink

/-- PutChar / PutByte / WriteTerm: write, then the continuation; an error ends the conjunction -/
def runOp (typ : StreamType) (o : OutOp) (k : Cont) (s : Sink) : List OutRes × Sink :=
  match opBytes typ o with
  | .ok p => let r := k (s.write p); (.ok :: r.1, r.2)
  | .error e => ([.err e], s)

def runConj (typ : StreamType) : List OutOp → Cont
  | [] => fun s => ([], s)
  | o :: os => runOp typ o (runConj typ os)

def runProg (typ : StreamType) : List (List OutOp) → Sink → Sink
  | [], s => s
  | q :: qs, s => runProg typ qs (runConj typ q s).2

/-! specification: the bytes of the successful operations, in program order -/

/-- bytes of a conjunction: those of its goals up to the first error -/
def specConj (typ : StreamType) : List OutOp → List Nat
  | [] => []
  | o :: os =>
    match opBytes typ o with
    | .ok p => p ++ specConj typ os
    | .error _ => []

def specSink (typ : StreamType) (prog : List (List OutOp)) : List Nat :=
  (prog.map (specConj typ)).flatten

end PrologVerif.StreamOut
