/-
  Proofs/DCGSem2Flip — corresponding unifications whose arguments are in OPPOSITE order on the two
  sides: the clause of a rule with push-back ends in `S = [pb… | S1]` (the remainder argument on
  the left), phrase/3 of the specification unifies `[pb… | rem]` with its third argument (on the
  right).  Of two distinct unbound variables each side binds its left one, so the two sides bind
  DIFFERENT variables; the correspondence is updated accordingly (`World.crossPar`).
-/
import PrologVerif.Proofs.DCGSem2Post
namespace PrologVerif.Grammar
open PrologVerif

/-- the SLD side binds `x ↦ y`, the denotation's side `y' ↦ x'` (x ~ x', y ~ y') -/
def World.crossPar (W : World) (x y x' y' : Nat) : World :=
  { W with σS := (x, .var y) :: W.σS, σD := (y', .var x') :: W.σD,
           ρ := fun a b => (W.ρ a b ∧ a ≠ x ∧ a ≠ y) ∨ (a = y ∧ b = x') }

theorem World.crossPar_ok {W : World} (hW : W.Good) {x y x' y' : Nat} (hx : W.ρ x x') (hy : W.ρ y y')
    (hxy : x ≠ y) :
    (W.crossPar x y x' y').Good ∧ Step W (W.crossPar x y x' y') (fun _ => False) := by
  have hxy' : x' ≠ y' := fun e => hxy (hW.inj _ _ _ hx (e ▸ hy))
  have tS : ∀ v, (W.crossPar x y x' y').TS v → W.TS v := by
    intro v hv
    rcases hv with ⟨p, hp, e⟩ | ⟨b, r⟩
    · simp only [World.crossPar, List.mem_cons] at hp
      rcases hp with rfl | hp
      · exact .inr ⟨x', e ▸ hx⟩
      · exact .inl ⟨p, hp, e⟩
    · rcases r with r | r
      · exact .inr ⟨b, r.1⟩
      · exact .inr ⟨y', r.1 ▸ hy⟩
  have tD : ∀ v, (W.crossPar x y x' y').TD v → W.TD v := by
    intro v hv
    rcases hv with ⟨p, hp, e⟩ | ⟨a, r⟩
    · simp only [World.crossPar, List.mem_cons] at hp
      rcases hp with rfl | hp
      · exact .inr ⟨y, e ▸ hy⟩
      · exact .inl ⟨p, hp, e⟩
    · rcases r with r | r
      · exact .inr ⟨a, r.1⟩
      · exact .inr ⟨x, r.2 ▸ hx⟩
  have hunb : ∀ a b, (W.crossPar x y x' y').ρ a b →
      (∀ p ∈ (W.crossPar x y x' y').σS, p.1 ≠ a) ∧ (∀ p ∈ (W.crossPar x y x' y').σD, p.1 ≠ b) := by
    intro a b r
    rcases r with r | r
    · have hb : b ≠ y' := fun e => r.2.2 (hW.inj _ _ _ r.1 (e ▸ hy))
      constructor
      · intro p hp
        simp only [World.crossPar, List.mem_cons] at hp
        rcases hp with rfl | hp
        · exact fun e => r.2.1 e.symm
        · exact (hW.unb a b r.1).1 p hp
      · intro p hp
        simp only [World.crossPar, List.mem_cons] at hp
        rcases hp with rfl | hp
        · exact fun e => hb e.symm
        · exact (hW.unb a b r.1).2 p hp
    · constructor
      · intro p hp
        simp only [World.crossPar, List.mem_cons] at hp
        rw [r.1]
        rcases hp with rfl | hp
        · exact hxy
        · exact (hW.unb y y' hy).1 p hp
      · intro p hp
        simp only [World.crossPar, List.mem_cons] at hp
        rw [r.2]
        rcases hp with rfl | hp
        · exact fun e => hxy' e.symm
        · exact (hW.unb x x' hx).2 p hp
  refine ⟨⟨?_, ?_, fun v hv => hW.scS v (tS v hv), fun v hv => hW.scD v (tD v hv), hunb⟩,
    ⟨?_, ⟨[(x, .var y)], rfl⟩, ⟨[(y', .var x')], rfl⟩, Nat.le_refl _, Nat.le_refl _,
      fun v hv => .inl (tS v hv), fun v hv => .inl (tD v hv)⟩⟩
  · intro a b b' h h'
    rcases h with h | h <;> rcases h' with h' | h'
    · exact hW.fn _ _ _ h.1 h'.1
    · exact absurd h'.1 h.2.2
    · exact absurd h.1 h'.2.2
    · rw [h.2, h'.2]
  · intro a a' b h h'
    rcases h with h | h <;> rcases h' with h' | h'
    · exact hW.inj _ _ _ h.1 h'.1
    · exact absurd (hW.inj _ _ _ h.1 (h'.2 ▸ hx)) h.2.1
    · exact absurd (hW.inj _ _ _ h'.1 (h.2 ▸ hx)) h'.2.1
    · rw [h.1, h'.1]
  · refine persist (ΔS := [(x, .var y)]) (ΔD := [(y', .var x')]) rfl rfl ?_
    intro a b r k _
    rw [walk_single, walk_single]
    by_cases ha : a = x
    · subst ha
      have hb : b = x' := hW.fn _ _ _ r hx
      subst hb
      simp only [if_true, hxy', if_false]
      exact .var (.inr ⟨rfl, rfl⟩)
    · by_cases hay : a = y
      · subst hay
        have hb : b = y' := hW.fn _ _ _ r hy
        subst hb
        simp only [ha, if_false, if_true]
        exact .var (.inr ⟨rfl, rfl⟩)
      · have hb : b ≠ y' := fun e => hay (hW.inj _ _ _ (e ▸ r) hy)
        simp only [ha, hb, if_false]
        exact .var (.inl ⟨r, ha, hay⟩)

theorem unifyArgs_simF (kS kD : Nat)
    (IH : ∀ (W : World), W.Good → ∀ tS uS tD uD, W.Eq tS tD → W.Eq uS uD →
      UOut W (unify kS W.σS tS uS) (unify kD W.σD uD tD)) :
    ∀ (as as' : Args) (bs bs' : Args) (W : World), W.Good → ArgsRel W.Eq as as' → ArgsRel W.Eq bs bs' →
      UOut W (unifyArgsWith (unify kS) W.σS as bs) (unifyArgsWith (unify kD) W.σD bs' as')
  | .nil, _, _, _, W, hW, h1, h2 => by
    cases h1
    cases h2 with
    | nil => simp only [unifyArgsWith]; exact UOut.same hW
    | cons _ _ => simp only [unifyArgsWith]; trivial
  | .cons a as, _, _, _, W, hW, h1, h2 => by
    cases h1 with
    | cons ra ras =>
      cases h2 with
      | nil => simp only [unifyArgsWith]; trivial
      | cons rb rbs =>
        rename_i a' as' b b' bs bs'
        simp only [unifyArgsWith]
        have h := IH W hW a b a' b' ra rb
        match hS : unify kS W.σS a b, hD : unify kD W.σD b' a', h with
        | .out, _, _ => trivial
        | .done none, .done none, _ => trivial
        | .done (some σ1), .done (some σ1'), ⟨W1, e1, e2, e3, e4, g, s⟩ =>
          simp only []
          subst e1 e2
          exact UOut.trans s e3 e4
            (unifyArgs_simF kS kD IH as as' bs bs' W1 g (ras.mono (fun _ _ h => s.eq _ _ h))
              (rbs.mono (fun _ _ h => s.eq _ _ h)))

/-- **corresponding unifications, arguments swapped on the denotation's side** -/
theorem unify_simF : ∀ (kS kD : Nat), kS ≤ kD → ∀ (W : World), W.Good → ∀ tS uS tD uD : Term,
    W.Eq tS tD → W.Eq uS uD → UOut W (unify kS W.σS tS uS) (unify kD W.σD uD tD)
  | 0, _, _, _, _, _, _, _, _, _, _ => by simp only [unify]; trivial
  | kS + 1, 0, h, _, _, _, _, _, _, _, _ => by omega
  | kS + 1, kD + 1, hk, W, hW, tS, uS, tD, uD, h1, h2 => by
    have IH := unify_simF kS kD (by omega)
    unfold unify
    have h1' := (W.Eq_unfold tS tD).1 h1
    have h2' := (W.Eq_unfold uS uD).1 h2
    revert h1' h2'
    generalize walk W.σS tS = a
    generalize walk W.σD tD = a'
    generalize walk W.σS uS = b
    generalize walk W.σD uD = b'
    intro h1' h2'
    cases h1' with
    | var ra =>
      rename_i x x'
      cases h2' with
      | var rb =>
        rename_i y y'
        simp only []
        by_cases hxy : x = y
        · subst hxy
          have : x' = y' := hW.fn _ _ _ ra rb
          subst this
          simp only [if_true]
          exact UOut.same hW
        · have : y' ≠ x' := fun e => hxy (hW.inj _ _ _ ra (e ▸ rb))
          simp only [hxy, this, if_false]
          obtain ⟨g, s⟩ := World.crossPar_ok hW ra rb hxy
          exact ⟨W.crossPar x y x' y', rfl, rfl, rfl, rfl, g, s⟩
      | atom c => exact bind_out hW ra (.atom c) (by simp)
      | int c => exact bind_out hW ra (.int c) (by simp)
      | flt c => exact bind_out hW ra (.flt c) (by simp)
      | str c => exact bind_out hW ra (.str c) (by simp)
      | app r => exact bind_out hW ra (.app r) (by simp)
    | atom c =>
      cases h2' with
      | var rb => exact bind_out hW rb (.atom c) (by simp)
      | atom d =>
        simp only []
        by_cases hcd : c = d
        · subst hcd; simp only [if_true]; exact UOut.same hW
        · have h1 : Term.atom c ≠ Term.atom d := fun e => hcd (by injection e)
          have h2 : Term.atom d ≠ Term.atom c := fun e => hcd (by injection e with e; exact e.symm)
          simp only [h1, h2, if_false]; trivial
      | int d => simp only [reduceCtorEq, if_false]; trivial
      | flt d => simp only [reduceCtorEq, if_false]; trivial
      | str d => simp only [reduceCtorEq, if_false]; trivial
      | app r => simp only [reduceCtorEq, if_false]; trivial
    | int c =>
      cases h2' with
      | var rb => exact bind_out hW rb (.int c) (by simp)
      | int d =>
        simp only []
        by_cases hcd : c = d
        · subst hcd; simp only [if_true]; exact UOut.same hW
        · have h1 : Term.int c ≠ Term.int d := fun e => hcd (by injection e)
          have h2 : Term.int d ≠ Term.int c := fun e => hcd (by injection e with e; exact e.symm)
          simp only [h1, h2, if_false]; trivial
      | atom d => simp only [reduceCtorEq, if_false]; trivial
      | flt d => simp only [reduceCtorEq, if_false]; trivial
      | str d => simp only [reduceCtorEq, if_false]; trivial
      | app r => simp only [reduceCtorEq, if_false]; trivial
    | flt c =>
      cases h2' with
      | var rb => exact bind_out hW rb (.flt c) (by simp)
      | flt d =>
        simp only []
        by_cases hcd : c = d
        · subst hcd; simp only [if_true]; exact UOut.same hW
        · have h1 : Term.flt c ≠ Term.flt d := fun e => hcd (by injection e)
          have h2 : Term.flt d ≠ Term.flt c := fun e => hcd (by injection e with e; exact e.symm)
          simp only [h1, h2, if_false]; trivial
      | atom d => simp only [reduceCtorEq, if_false]; trivial
      | int d => simp only [reduceCtorEq, if_false]; trivial
      | str d => simp only [reduceCtorEq, if_false]; trivial
      | app r => simp only [reduceCtorEq, if_false]; trivial
    | str c =>
      cases h2' with
      | var rb => exact bind_out hW rb (.str c) (by simp)
      | str d =>
        simp only []
        by_cases hcd : c = d
        · subst hcd; simp only [if_true]; exact UOut.same hW
        · have h1 : Term.str c ≠ Term.str d := fun e => hcd (by injection e)
          have h2 : Term.str d ≠ Term.str c := fun e => hcd (by injection e with e; exact e.symm)
          simp only [h1, h2, if_false]; trivial
      | atom d => simp only [reduceCtorEq, if_false]; trivial
      | int d => simp only [reduceCtorEq, if_false]; trivial
      | flt d => simp only [reduceCtorEq, if_false]; trivial
      | app r => simp only [reduceCtorEq, if_false]; trivial
    | app r =>
      rename_i f as as'
      cases h2' with
      | var rb => exact bind_out hW rb (.app r) (by simp)
      | app r' =>
        rename_i g bs bs'
        simp only []
        by_cases hfg : f = g
        · subst hfg
          simp only [if_true]
          exact unifyArgs_simF kS kD IH as as' bs bs' W hW r r'
        · have : ¬ g = f := fun e => hfg e.symm
          simp only [hfg, this, if_false]; trivial
      | atom d => simp only [reduceCtorEq, if_false]; trivial
      | int d => simp only [reduceCtorEq, if_false]; trivial
      | flt d => simp only [reduceCtorEq, if_false]; trivial
      | str d => simp only [reduceCtorEq, if_false]; trivial

end PrologVerif.Grammar
