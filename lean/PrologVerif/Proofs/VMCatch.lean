/-
  C04 at the VM level — catch/3 and throw/1 of the VM model (`Model/VM.lean`: builtins "catch",
  "throw", `mkErr`, `renamedCopy`, `evalRecover`, the thunks `.catchBody`, `.exitAlt`, the
  continuation `.catchExit`).

  B1  the ball is a renamed copy: `renamedCopy_spec`, `vm_ball_is_copy`
  B2  the recovery runs under the call-time environment of catch/3 extended by the unifier of
      catcher and ball only: `vm_recovery_env`, `vm_recovery_declines`
  B3  the activity flag protocol of catch/3: `vm_catch_call`, `vm_catch_body`, `vm_catch_exit`,
      `vm_exit_alt_off`, `vm_exit_alt_on`, `vm_catch_exit_run`
  B4  one statement about `force (sem fuel)`: `vm_throw_to_innermost`, `vm_throw_unhandled`
-/
import PrologVerif.Model.VM
import PrologVerif.Proofs.Promise
import PrologVerif.Proofs.Unify
import PrologVerif.Proofs.CollectVariant
namespace PrologVerif.VMCatch
open PrologVerif PrologVerif.VM PrologVerif.Promise
open PrologVerif.Collect (vars varsArgs)
open PrologVerif.CollectSpec (rename Variant)

/-! ## B1 — the ball is a renamed copy -/

mutual
  theorem mem_termVars {v : Nat} : ∀ (t : Term) (acc : List Nat), v ∈ termVars t acc ↔ v ∈ acc ∨ v ∈ vars t
    | .var x, acc => by
      simp only [termVars, Collect.vars_var, List.mem_singleton]
      split
      · rename_i h
        have hx : x ∈ acc := by simpa using h
        constructor
        · exact Or.inl
        · rintro (h | rfl)
          · exact h
          · exact hx
      · simp
    | .app f as, acc => by simp only [termVars, Collect.vars_app]; exact mem_argsVars as acc
    | .atom _, acc => by simp [termVars]
    | .int _, acc => by simp [termVars]
    | .flt _, acc => by simp [termVars]
    | .str _, acc => by simp [termVars]
  theorem mem_argsVars {v : Nat} : ∀ (as : Args) (acc : List Nat), v ∈ argsVars as acc ↔ v ∈ acc ∨ v ∈ varsArgs as
    | .nil, acc => by simp [argsVars]
    | .cons t ts, acc => by
      simp only [argsVars, Collect.varsArgs_cons, List.mem_append]
      rw [mem_argsVars ts, mem_termVars t]
      exact or_assoc
end

mutual
  theorem termVars_nodup : ∀ (t : Term) (acc : List Nat), acc.Nodup → (termVars t acc).Nodup
    | .var x, acc, h => by
      simp only [termVars]
      split
      · exact h
      · rename_i hx
        have hx' : x ∉ acc := by simpa using hx
        rw [List.nodup_append]
        refine ⟨h, by simp, ?_⟩
        intro a ha b hb
        simp only [List.mem_singleton] at hb
        subst hb
        intro hab
        subst hab
        exact hx' ha
    | .app f as, acc, h => by simp only [termVars]; exact argsVars_nodup as acc h
    | .atom _, acc, h => by simpa [termVars] using h
    | .int _, acc, h => by simpa [termVars] using h
    | .flt _, acc, h => by simpa [termVars] using h
    | .str _, acc, h => by simpa [termVars] using h
  theorem argsVars_nodup : ∀ (as : Args) (acc : List Nat), acc.Nodup → (argsVars as acc).Nodup
    | .nil, acc, h => by simpa [argsVars] using h
    | .cons t ts, acc, h => by
      simp only [argsVars]
      exact argsVars_nodup ts _ (termVars_nodup t acc h)
end

/-- `renameWith` over an association list is `rename` with the function it denotes -/
def renFn (ren : List (Nat × Nat)) (v : Nat) : Nat := (ren.lookup v).getD v

mutual
  theorem renameWith_eq (ren : List (Nat × Nat)) : ∀ t : Term, renameWith ren t = rename (renFn ren) t
    | .var v => by
      simp only [renameWith, rename, renFn]
      split <;> rename_i h <;> simp [h]
    | .app f as => by simp only [renameWith, rename, renameArgs_eq ren as]
    | .atom _ => by simp [renameWith, rename]
    | .int _ => by simp [renameWith, rename]
    | .flt _ => by simp [renameWith, rename]
    | .str _ => by simp [renameWith, rename]
  theorem renameArgs_eq (ren : List (Nat × Nat)) : ∀ as : Args,
      VM.renameArgs ren as = CollectSpec.renameArgs (renFn ren) as
    | .nil => by simp [VM.renameArgs, CollectSpec.renameArgs]
    | .cons t ts => by
      simp only [VM.renameArgs, CollectSpec.renameArgs, renameWith_eq ren t, renameArgs_eq ren ts]
end

theorem lookup_zip_some : ∀ (vs fs : List Nat), vs.length ≤ fs.length → ∀ a ∈ vs,
    ∃ b, (vs.zip fs).lookup a = some b
  | [], _, _, a, ha => by simp at ha
  | v :: vs, [], h, _, _ => by simp at h
  | v :: vs, f :: fs, h, a, ha => by
    simp only [List.zip_cons_cons, List.lookup]
    by_cases hav : a = v
    · subst hav; simp
    · have hb : (a == v) = false := by simpa using hav
      simp only [hb]
      rcases List.mem_cons.1 ha with h1 | h1
      · exact absurd h1 hav
      · exact lookup_zip_some vs fs (by simpa using h) a h1

theorem lookup_zip_mem : ∀ (vs fs : List Nat) (a b : Nat), (vs.zip fs).lookup a = some b → b ∈ fs
  | [], _, a, b, h => by simp at h
  | v :: vs, [], a, b, h => by simp at h
  | v :: vs, f :: fs, a, b, h => by
    simp only [List.zip_cons_cons, List.lookup] at h
    split at h
    · simp only [Option.some.injEq] at h; subst h; simp
    · exact List.mem_cons_of_mem _ (lookup_zip_mem vs fs a b h)

theorem lookup_zip_inj : ∀ (vs fs : List Nat), fs.Nodup → ∀ (a a' b : Nat),
    (vs.zip fs).lookup a = some b → (vs.zip fs).lookup a' = some b → a = a'
  | [], _, _, a, a', b, h, _ => by simp at h
  | v :: vs, [], _, a, a', b, h, _ => by simp at h
  | v :: vs, f :: fs, hf, a, a', b, h, h' => by
    obtain ⟨hf1, hf2⟩ := List.nodup_cons.1 hf
    simp only [List.zip_cons_cons, List.lookup] at h h'
    split at h
    · rename_i hav
      simp only [Option.some.injEq] at h
      subst h
      split at h'
      · rename_i ha'v
        have e1 : a = v := by simpa using hav
        have e2 : a' = v := by simpa using ha'v
        rw [e1, e2]
      · exact absurd (lookup_zip_mem vs fs a' _ h') hf1
    · split at h'
      · simp only [Option.some.injEq] at h'
        subst h'
        exact absurd (lookup_zip_mem vs fs a _ h) hf1
      · exact lookup_zip_inj vs fs hf2 a a' b h h'

theorem nodup_range_add (n k : Nat) : ((List.range n).map (· + k)).Nodup := by
  exact List.Pairwise.map _ (fun a b h => by simpa using h) List.nodup_range

/-- **renamedCopy_spec**: `renamedCopy t env m` — what `NewException` / findall's collector take —
    is the term `t` with the bindings of `env` applied (`app env t`) and its variables renamed ONE TO
    ONE (a variant in the sense of ISO 7.1.6.1) to variables that did not exist before: all of them
    lie in `[old nextVar, new nextVar)`; nothing else in the state changes -/
theorem renamedCopy_spec (t : Term) (env : Env) (m : MS) :
    Variant (app env t) (renamedCopy t env m).1 ∧
    (∀ v ∈ vars (renamedCopy t env m).1, m.user.nextVar ≤ v ∧ v < (renamedCopy t env m).2.user.nextVar) ∧
    (renamedCopy t env m).2 =
      { m with user := { m.user with nextVar := m.user.nextVar + (termVars (app env t) []).length } } := by
  have hcopy : (renamedCopy t env m).1 = rename (renFn ((termVars (app env t) []).zip
      ((List.range (termVars (app env t) []).length).map (· + m.user.nextVar)))) (app env t) := by
    simp only [renamedCopy, freshVars]
    exact renameWith_eq _ _
  have hst : (renamedCopy t env m).2 =
      { m with user := { m.user with nextVar := m.user.nextVar + (termVars (app env t) []).length } } := rfl
  generalize hvs : termVars (app env t) [] = vs at hcopy hst
  generalize hfs : (List.range vs.length).map (· + m.user.nextVar) = fs at hcopy
  have hlen : vs.length ≤ fs.length := by rw [← hfs]; simp
  have hfnd : fs.Nodup := by rw [← hfs]; exact nodup_range_add _ _
  have hmem : ∀ v, v ∈ vars (app env t) → v ∈ vs := by
    intro v hv
    rw [← hvs]
    exact (mem_termVars (app env t) []).2 (Or.inr hv)
  have hfr : ∀ b ∈ fs, m.user.nextVar ≤ b ∧ b < m.user.nextVar + vs.length := by
    intro b hb
    rw [← hfs] at hb
    simp only [List.mem_map, List.mem_range] at hb
    obtain ⟨i, hi, rfl⟩ := hb
    omega
  refine ⟨?_, ?_, hst⟩
  · rw [Collect.variant_def]
    refine ⟨renFn (vs.zip fs), ?_, hcopy.symm⟩
    intro a ha b hb hab
    obtain ⟨a', ha'⟩ := lookup_zip_some vs fs hlen a (hmem a ha)
    obtain ⟨b', hb'⟩ := lookup_zip_some vs fs hlen b (hmem b hb)
    simp only [renFn, ha', hb', Option.getD_some] at hab
    subst hab
    exact lookup_zip_inj vs fs hfnd a b a' ha' hb'
  · intro v hv
    rw [hcopy, Collect.vars_rename] at hv
    obtain ⟨a, ha, rfl⟩ := List.mem_map.1 hv
    obtain ⟨a', ha'⟩ := lookup_zip_some vs fs hlen a (hmem a ha)
    simp only [renFn, ha', Option.getD_some]
    rw [hst]
    exact hfr a' (lookup_zip_mem vs fs a a' ha')

/-- the variables of a copy are new: none of them is below the old `nextVar` -/
theorem renamedCopy_fresh (t : Term) (env : Env) (m : MS) (v : Nat) (hv : v < m.user.nextVar) :
    v ∉ vars (renamedCopy t env m).1 := fun h => by
  have := ((renamedCopy_spec t env m).2.1 v h).1
  omega

/-- what throw/1 does: a variable ball is an instantiation error; otherwise the error carries the
    `renamedCopy` of the (resolved) ball -/
theorem vm_throw_eq (n : Nat) (ball : Term) (k : Cont) (env : Env) (m : MS) :
    builtin (n + 1) "throw" [ball] k env m =
      match res env ball with
      | .var _ => some (some (mkErr instErr env m))
      | b => some (some (errP (.exc (renamedCopy b env m).1), (renamedCopy b env m).2)) := by
  simp only [builtin]
  split <;> simp_all

/-- resolving the top-level variable chain first does not change the applied term (if applying the
    bindings finishes within the internal fuel, as it does unless the environment is cyclic or huge) -/
theorem app_res (env : Env) (t b : Term) (h : resolve (inner - 1) env t = some b)
    (hs : (applyAll inner env t).isSome = true) :
    res env t = b ∧ app env b = app env t := by
  have hmono : ∀ (n : Nat) (t : Term), resolve n env t = some b → resolve (n + 1) env t = some b := by
    intro n
    induction n with
    | zero =>
      intro t h
      cases t <;> simp_all [resolve]
    | succ n ih =>
      intro t h
      cases t with
      | var v =>
        cases hl : env.lookup v with
        | none => simp only [resolve, hl] at h ⊢; exact h
        | some t2 => simp only [resolve, hl] at h ⊢; exact ih t2 h
      | _ => simpa [resolve] using h
  have hidem : ∀ n, resolve (n + 1) env b = some b := by
    intro n
    cases hb : b with
    | var v =>
      have := resolve_var_unbound _ env t v (hb ▸ h)
      simp [resolve, this]
    | _ => simp [resolve]
  have hin : inner = (inner - 1) + 1 := by decide
  refine ⟨?_, ?_⟩
  · unfold res
    rw [hin, hmono _ t h]
    rfl
  · unfold app
    rw [hin] at hs ⊢
    simp only [applyAll, h] at hs ⊢
    have : resolve (inner - 1) env b = some b := hidem (inner - 2)
    rw [this]
    cases b with
    | app f as =>
      simp only [] at hs ⊢
      cases hx : applyAllArgs (inner - 1) env as with
      | none => rw [hx] at hs; cases hs
      | some x => rfl
    | _ => rfl

/-- **vm_ball_is_copy**: `throw(B)` with `B` not a variable raises an error whose term is `B` with
    the bindings of the moment applied (`app env`) and ALL its variables renamed one to one to fresh
    ones: the ball is a variant of the instantiated `B`, every variable of the ball is `≥` the old
    `nextVar` (so the ball shares no variable with anything that existed before), the state only
    allocates these variables.  Errors raised by built-ins (`mkErr`) are built the same way from
    `error(Formal, Context)`. -/
theorem vm_ball_is_copy (n : Nat) (ball : Term) (k : Cont) (env : Env) (m : MS)
    (hnv : ∀ v, res env ball ≠ .var v) :
    ∃ c m', builtin (n + 1) "throw" [ball] k env m = some (some (errP (.exc c), m')) ∧
      Variant (app env (res env ball)) c ∧
      (∀ v ∈ vars c, m.user.nextVar ≤ v ∧ v < m'.user.nextVar) ∧
      m' = { m with user := { m.user with nextVar := m.user.nextVar + (termVars (app env (res env ball)) []).length } } := by
  refine ⟨(renamedCopy (res env ball) env m).1, (renamedCopy (res env ball) env m).2, ?_,
    renamedCopy_spec (res env ball) env m⟩
  rw [vm_throw_eq]
  split
  · rename_i v hv; exact absurd hv (hnv v)
  · rfl

theorem vm_throw_var (n : Nat) (ball : Term) (k : Cont) (env : Env) (m : MS) (v : Nat)
    (hv : res env ball = .var v) :
    builtin (n + 1) "throw" [ball] k env m = some (some (mkErr instErr env m)) := by
  rw [vm_throw_eq, hv]

/-- errors of built-ins: `mkErr formal env m` is the error whose term is the copy of
    `error(formal, Context)` (`Context` = the variable `varContext`, bound by `Arrive` to the
    predicate indicator) -/
theorem vm_builtin_error_is_copy (formal : Term) (env : Env) (m : MS) :
    ∃ c m', mkErr formal env m = (errP (.exc c), m') ∧
      Variant (app env (.app "error" (.cons formal (.cons (.var varContext) .nil)))) c ∧
      (∀ v ∈ vars c, m.user.nextVar ≤ v ∧ v < m'.user.nextVar) :=
  ⟨_, _, rfl, (renamedCopy_spec _ env m).1, (renamedCopy_spec _ env m).2.1⟩

/-! ## B2 — the recovery environment -/

/-- how an error looks to catch/3: an `Exception` is its term, any other Go error `e` is
    `error(system_error, e.Error())` -/
def ballOf : Err → Term
  | .exc t => t
  | .goErr msg => .app "error" (.cons (.atom "system_error") (.cons (.atom msg) .nil))

theorem evalRecover_eq (h : Handler) (e : Err) (m : MS) :
    evalRecover h e m =
      if m.user.flag h.flag then
        match unify inner false h.env h.catcher (ballOf e) with
        | some (env', .ok) => (some (callGoal h.recover h.k env' m).1, (callGoal h.recover h.k env' m).2)
        | _ => (none, m)
      else (none, m) := by
  unfold evalRecover
  cases e <;> rfl

/-- the handler of a catch/3 frame declines an error: the catch is inactive, or the catcher does
    not unify with the ball -/
def Declines (h : Handler) (e : Err) (m : MS) : Prop :=
  m.user.flag h.flag = false ∨ ∀ env', unify inner false h.env h.catcher (ballOf e) ≠ some (env', .ok)

/-- **vm_recovery_env**: when a catch/3 frame accepts a ball (its flag is active and the catcher
    unifies), the recovery goal is called — `callGoal h.recover h.k env'` — with the continuation of
    the catch/3 CALL (`h.k`) under the environment `env'` obtained by unifying catcher and ball in
    the environment captured WHEN catch/3 WAS CALLED (`h.env`): the solutions of `env'` are exactly
    the solutions of `h.env` that unify catcher and ball.  No binding made by the goal of the catch
    since the call enters `env'`: it is a function of `h.env`, catcher and ball alone (the ball being
    a copy with fresh variables, `vm_ball_is_copy`) — the bindings are undone. -/
theorem vm_recovery_env (h : Handler) (e : Err) (m : MS) (env' : Env)
    (hflag : m.user.flag h.flag = true)
    (hu : unify inner false h.env h.catcher (ballOf e) = some (env', .ok)) :
    evalRecover h e m = (some (callGoal h.recover h.k env' m).1, (callGoal h.recover h.k env' m).2) ∧
    ∀ θ, Sol env' θ ↔ (Sol h.env θ ∧ Unifies θ h.catcher (ballOf e)) := by
  refine ⟨?_, unify_spec inner false h.env h.catcher (ballOf e) env' .ok hu⟩
  rw [evalRecover_eq]
  simp only [hflag, if_true]
  rw [hu]

/-- **vm_recovery_declines**: an inactive flag or a catcher that does not unify declines — `none`,
    the state untouched; and these are the only ways to decline -/
theorem vm_recovery_declines (h : Handler) (e : Err) (m : MS) :
    (Declines h e m → evalRecover h e m = (none, m)) ∧
    ((evalRecover h e m).1 = none → Declines h e m) := by
  rw [evalRecover_eq]
  constructor
  · rintro (hf | hu)
    · simp [hf]
    · split
      · split
        · rename_i env' heq; exact absurd heq (hu env')
        · rfl
      · rfl
  · intro hn
    split at hn
    · split at hn
      · simp at hn
      · rename_i hne
        right
        intro env' heq
        exact hne env' heq
    · rename_i hf
      left
      simpa using hf

/-- if the catcher does not unify, no solution of the call-time environment unifies it with the ball -/
theorem vm_recovery_declines_sound (h : Handler) (e : Err) (env' : Env) (r : Res)
    (hu : unify inner false h.env h.catcher (ballOf e) = some (env', r)) (hr : r ≠ .ok) :
    ∀ θ, Sol h.env θ → ¬ Unifies θ h.catcher (ballOf e) := by
  have hs := unify_spec inner false h.env h.catcher (ballOf e) env' r hu
  cases r with
  | ok => exact absurd rfl hr
  | clash => exact hs
  | occurs => exact hs

/-! ## B3 — the activity flag of a catch/3 call -/

/-- writing an activity flag -/
def setFlag (m : MS) (flag : Nat) (b : Bool) : MS :=
  { m with user := { m.user with flags := (flag, b) :: m.user.flags } }

theorem flag_setFlag (m : MS) (flag : Nat) (b : Bool) (f : Nat) :
    (setFlag m flag b).user.flag f = if f = flag then b else m.user.flag f := by
  unfold setFlag St.flag
  simp only [List.lookup]
  by_cases h : f = flag
  · subst h; simp
  · have hb : (f == flag) = false := by simpa using h
    simp [hb, h]

/-- **vm_catch_call**: `catch(Goal, Catcher, Recovery)` draws a fresh identifier (`freshId`: the
    current `nextId`) as its activity flag and returns ONE promise: its only alternative is the thunk
    that calls `Goal`, its recovery closure holds flag, catcher, recovery goal, the continuation of
    the catch/3 call and the environment of the call -/
theorem vm_catch_call (n : Nat) (goal catcher recover : Term) (k : Cont) (env : Env) (m : MS) :
    builtin (n + 1) "catch" [goal, catcher, recover] k env m =
      some (some ({ delayed := [.catchBody goal m.user.nextId k env],
                    recover := some ⟨m.user.nextId, catcher, recover, k, env⟩ }, (freshId m).2)) := by
  simp only [builtin]
  rfl

/-- the same seen from `Arrive`: the environment the closure captures is the environment of the call
    (plus `Arrive`'s binding of the context variable to `catch/3`) -/
theorem vm_catch_arrive (n : Nat) (goal catcher recover : Term) (k : Cont) (env : Env) (m : MS) :
    arrive (n + 2) "catch" [goal, catcher, recover] k env m =
      some ({ delayed := [.catchBody goal m.user.nextId k
                (env.bind varContext (.app "/" (.cons (.atom "catch") (.cons (.int 3) .nil))))],
              recover := some ⟨m.user.nextId, catcher, recover, k,
                env.bind varContext (.app "/" (.cons (.atom "catch") (.cons (.int 3) .nil)))⟩ }, (freshId m).2) := by
  simp only [arrive, vm_catch_call]
  rfl

/-- no flag has been written under an identifier that has not been drawn yet -/
def FlagsBelow (s : St) : Prop := ∀ f b, (f, b) ∈ s.flags → f < s.nextId

/-- born active: the flag has no entry, so it reads `true` -/
theorem vm_catch_born_active (m : MS) (h : FlagsBelow m.user) :
    (freshId m).2.user.flag m.user.nextId = true := by
  unfold St.flag
  have : (freshId m).2.user.flags.lookup m.user.nextId = none := by
    simp only [freshId]
    rw [List.lookup_eq_none_iff]
    intro p hp
    have := h p.1 p.2 hp
    have hne : m.user.nextId ≠ p.1 := by omega
    simpa using hne
  rw [this]
  rfl

/-- the thunk of catch/3 calls `Goal` with the exit continuation `.catchExit flag k` -/
theorem vm_catch_body (n : Nat) (goal : Term) (flag : Nat) (k : Cont) (env : Env) (m : MS) :
    evalThunk (n + 1) (.catchBody goal flag k env) m = some (callGoal goal (.catchExit flag k) env m) := by
  simp only [evalThunk]

/-- **vm_catch_exit**: each time `Goal` exits (with environment `env`), a promise with exactly two
    alternatives is returned: first "switch the flag OFF and run the continuation of catch/3",
    then — reached on backtracking — "switch the flag ON again and fail" (into `Goal`) -/
theorem vm_catch_exit (n : Nat) (flag : Nat) (k : Cont) (env : Env) (m : MS) :
    applyCont (n + 1) (.catchExit flag k) env m =
      some ({ id := m.user.nextId,
              delayed := [.exitAlt flag false (some k) env, .exitAlt flag true none env] }, (freshId m).2) := by
  simp only [applyCont]
  rfl

/-- first alternative: flag off, then the continuation of catch/3 under the exit environment -/
theorem vm_exit_alt_off (n : Nat) (flag : Nat) (k : Cont) (env : Env) (m : MS) :
    evalThunk (n + 1) (.exitAlt flag false (some k) env) m = applyCont n k env (setFlag m flag false) ∧
    (setFlag m flag false).user.flag flag = false ∧
    ∀ f, f ≠ flag → (setFlag m flag false).user.flag f = m.user.flag f := by
  refine ⟨by simp only [evalThunk]; rfl, by simp [flag_setFlag], ?_⟩
  intro f hf
  simp [flag_setFlag, hf]

/-- second alternative: flag on again, fail -/
theorem vm_exit_alt_on (n : Nat) (flag : Nat) (env : Env) (m : MS) :
    evalThunk (n + 1) (.exitAlt flag true none env) m = some (failP, setFlag m flag true) ∧
    (setFlag m flag true).user.flag flag = true ∧
    ∀ f, f ≠ flag → (setFlag m flag true).user.flag f = m.user.flag f := by
  refine ⟨by simp only [evalThunk]; rfl, by simp [flag_setFlag], ?_⟩
  intro f hf
  simp [flag_setFlag, hf]

/-- while the flag is off the handler of that catch/3 declines every error (so an error raised in
    the continuation travels on to the next enclosing catch/3); once on again it decides by
    unification as before -/
theorem vm_inactive_declines (h : Handler) (e : Err) (m : MS) (hf : m.user.flag h.flag = false) :
    evalRecover h e m = (none, m) :=
  (vm_recovery_declines h e m).1 (Or.inl hf)

/-- **vm_catch_exit_run** (the protocol on the trampoline): the exit promise on top of the stack.
    Iteration 1 switches the flag off and runs the continuation `k` of catch/3 — its promise `q` goes
    on top, the exit promise stays below with its second alternative.  If `q` is exhausted (the
    continuation failed: `q = failP`), iterations 2 and 3 pop it, switch the flag on again and fail:
    the trampoline continues with the stack below (backtracking into `Goal`), catch/3 active again. -/
theorem vm_catch_exit_run (fuel n : Nat) (flag : Nat) (k : Cont) (env : Env) (id : Nat)
    (stack : List Pr) (m : MS) (q : Pr) (m' : MS)
    (hk : applyCont fuel k env (setFlag { m with iter := m.iter + 1 } flag false) = some (q, m')) :
    force (sem (fuel + 1)) none (n + 1)
        ({ id := id, delayed := [.exitAlt flag false (some k) env, .exitAlt flag true none env] } :: stack) m =
      force (sem (fuel + 1)) none n
        (q :: { id := id, delayed := [.exitAlt flag true none env] } :: stack) m' ∧
    force (sem (fuel + 1)) none (n + 3)
        (failP :: { id := id, delayed := [.exitAlt flag true none env] } :: stack) m' =
      force (sem (fuel + 1)) none n (({ id := id } : Pr) :: stack)
        (setFlag { m' with iter := m'.iter + 3 } flag true) := by
  constructor
  · rw [force]
    simp only [isCancelled, sem, (vm_exit_alt_off fuel flag k env _).1, hk, afterChild]
    rfl
  · rw [force]
    simp only [isCancelled, failP, Bool.false_eq_true, if_false]
    rw [force]
    simp only [isCancelled, sem, (vm_exit_alt_on fuel flag env _).1, afterChild, Bool.false_eq_true, if_false]
    rw [force]
    simp only [isCancelled, failP, Bool.false_eq_true, if_false]
    rfl

/-! ## B4 — one statement about the trampoline over the VM semantics -/

theorem declineAll_vm (fuel : Nat) (e : Err) : ∀ (above : List Pr) (m : MS),
    (∀ q ∈ above, ∀ h, q.recover = some h → Declines h e m) → declineAll (sem fuel) e above m = some m
  | [], m, _ => rfl
  | p :: rest, m, h => by
    have hrest : ∀ q ∈ rest, ∀ h, q.recover = some h → Declines h e m :=
      fun q hq => h q (by simp [hq])
    simp only [declineAll]
    split
    · exact declineAll_vm fuel e rest m hrest
    · rename_i hd hr
      have := (vm_recovery_declines hd e m).1 (h p (by simp) hd hr)
      simp only [sem, this]
      exact declineAll_vm fuel e rest m hrest

/-- **vm_throw_to_innermost**: an error promise (ball `ballOf e`) on top of the stack
    `above ++ frame :: below`.  If every catch/3 frame of `above` declines (inactive, or catcher does
    not unify) and `frame` is a catch/3 frame that is active and whose catcher unifies with the ball
    (unifier `env'` over its call-time environment), then in ONE iteration: the frames of `above` are
    discarded, `frame` is replaced by the promise of its recovery goal called with the continuation
    of that catch/3 under `env'`, `below` is untouched, and no state but the poll counter changed
    before the recovery goal is called. -/
theorem vm_throw_to_innermost (fuel n : Nat) (ca : Option Nat) (p : Pr) (e : Err) (above : List Pr)
    (frame : Pr) (below : List Pr) (m : MS) (hd : Handler) (env' : Env)
    (hnc : isCancelled ca m.iter = false) (hpd : p.delayed = []) (hpe : p.err = some e)
    (habove : ∀ q ∈ above, ∀ h, q.recover = some h → Declines h e { m with iter := m.iter + 1 })
    (hr : frame.recover = some hd) (hflag : m.user.flag hd.flag = true)
    (hu : unify inner false hd.env hd.catcher (ballOf e) = some (env', .ok)) :
    force (sem fuel) ca (n + 1) (p :: (above ++ frame :: below)) m =
      force (sem fuel) ca n
        ((callGoal hd.recover hd.k env' { m with iter := m.iter + 1 }).1 :: below)
        (callGoal hd.recover hd.k env' { m with iter := m.iter + 1 }).2 ∧
    ∀ θ, Sol env' θ ↔ (Sol hd.env θ ∧ Unifies θ hd.catcher (ballOf e)) := by
  have hacc := vm_recovery_env hd e { m with iter := m.iter + 1 } env' hflag hu
  refine ⟨?_, hacc.2⟩
  have hrs : recoverStack (sem fuel) e (above ++ frame :: below) { m with iter := m.iter + 1 } =
      (some ((callGoal hd.recover hd.k env' { m with iter := m.iter + 1 }).1 :: below),
        (callGoal hd.recover hd.k env' { m with iter := m.iter + 1 }).2) := by
    rw [recoverStack_append (sem fuel) e above (frame :: below) _ _ (declineAll_vm fuel e above _ habove)]
    simp only [recoverStack, hr, sem, hacc.1]
  rw [force]
  simp only [hnc, hpd, hpe, hrs, Bool.false_eq_true, if_false]

/-- **vm_throw_unhandled**: if every frame declines, the run ends with the error carrying the ball -/
theorem vm_throw_unhandled (fuel n : Nat) (ca : Option Nat) (p : Pr) (e : Err) (stack : List Pr) (m : MS)
    (hnc : isCancelled ca m.iter = false) (hpd : p.delayed = []) (hpe : p.err = some e)
    (hall : ∀ q ∈ stack, ∀ h, q.recover = some h → Declines h e { m with iter := m.iter + 1 }) :
    force (sem fuel) ca (n + 1) (p :: stack) m = some (.error e, { m with iter := m.iter + 1 }) := by
  have hrs : recoverStack (sem fuel) e stack { m with iter := m.iter + 1 } = (none, { m with iter := m.iter + 1 }) := by
    have := recoverStack_append (sem fuel) e stack [] _ _ (declineAll_vm fuel e stack _ hall)
    simpa [recoverStack] using this
  rw [force]
  simp only [hnc, hpd, hpe, hrs, Bool.false_eq_true, if_false]

/-! ## the hypotheses are satisfiable -/
namespace Ex

def m0 : MS := { user := {} }
def fXYX : Term := .app "f" (.cons (.var 1) (.cons (.var 2) (.cons (.var 1) .nil)))

-- the copy of f(X, Y, X) with X bound to g(Z): f(g(_A), _B, g(_A)) over fresh variables
example : (renamedCopy fXYX [(1, .app "g" (.cons (.var 3) .nil))] m0).1 =
    .app "f" (.cons (.app "g" (.cons (.var 1000000) .nil)) (.cons (.var 1000001)
      (.cons (.app "g" (.cons (.var 1000000) .nil)) .nil))) := by decide +kernel
example : (renamedCopy fXYX [(1, .app "g" (.cons (.var 3) .nil))] m0).2.user.nextVar = 1000002 := by decide +kernel

-- throw(b): the hypothesis of `vm_ball_is_copy`
example := vm_ball_is_copy 0 (.atom "b") .done [] m0 (by
  have : res [] (.atom "b") = .atom "b" := by decide +kernel
  intro v; rw [this]; intro h; cases h)
-- throw(X) with X bound to b
example := vm_ball_is_copy 0 (.var 1) .done [(1, .atom "b")] m0 (by
  have : res [(1, .atom "b")] (.var 1) = .atom "b" := by decide +kernel
  intro v; rw [this]; intro h; cases h)
example := vm_throw_var 0 (.var 1) .done [] m0 1 (by decide +kernel)
example : res [(1, .var 2), (2, .atom "b")] (.var 1) = .atom "b" ∧
    app [(1, .var 2), (2, .atom "b")] (.atom "b") = app [(1, .var 2), (2, .atom "b")] (.var 1) :=
  app_res _ _ _ (by decide +kernel) (by decide +kernel)

/-- a catch/3 frame `catch(_, E, true)` called under the environment `[X ↦ a]` -/
def hAny : Handler := ⟨7, .var 5, .atom "true", .done, [(1, .atom "a")]⟩
/-- a catch/3 frame `catch(_, a, true)` -/
def hA : Handler := ⟨8, .atom "a", .atom "true", .done, []⟩

-- accepts the ball b: the recovery runs under the call-time environment plus E ↦ b
example := vm_recovery_env hAny (.exc (.atom "b")) m0 [(5, .atom "b"), (1, .atom "a")] rfl (by decide +kernel)
-- `catch(_, a, _)` declines the ball b
theorem hA_declines (m : MS) : Declines hA (.exc (.atom "b")) m :=
  Or.inr (fun env' => by
    have : unify inner false hA.env hA.catcher (ballOf (.exc (.atom "b"))) = some ([], .clash) := by decide +kernel
    rw [this]; intro h; cases h)
example (m : MS) : evalRecover hA (.exc (.atom "b")) m = (none, m) :=
  (vm_recovery_declines hA (.exc (.atom "b")) m).1 (hA_declines m)
-- an exited catch/3 (flag off) declines
example : evalRecover hAny (.exc (.atom "b")) (setFlag m0 7 false) = (none, setFlag m0 7 false) :=
  vm_inactive_declines hAny _ _ (by simp [flag_setFlag, hAny])

-- throw b under `catch(catch(_, a, _) , E, true)`: the inner frame declines, the outer accepts
example (n : Nat) (below : List Pr) :=
  vm_throw_to_innermost 3 n none (errP (.exc (.atom "b"))) (.exc (.atom "b"))
    [failP, { recover := some hA }] { recover := some hAny } below m0 hAny [(5, .atom "b"), (1, .atom "a")]
    rfl rfl rfl
    (by
      intro q hq h hr
      simp only [List.mem_cons, List.not_mem_nil, or_false] at hq
      rcases hq with rfl | rfl
      · cases hr
      · cases hr; exact hA_declines _)
    rfl rfl (by decide +kernel)

example (n : Nat) :=
  vm_throw_unhandled 3 n none (errP (.exc (.atom "b"))) (.exc (.atom "b")) [{ recover := some hA }] m0 rfl rfl rfl
    (by
      intro q hq h hr
      simp only [List.mem_singleton] at hq
      subst hq
      cases hr; exact hA_declines _)

-- the exit protocol with the continuation `Success`
example (n : Nat) (stack : List Pr) :=
  vm_catch_exit_run 1 n 7 .done [] 3 stack m0 okP (setFlag { m0 with iter := m0.iter + 1 } 7 false)
    (by simp only [applyCont])

end Ex

end PrologVerif.VMCatch
