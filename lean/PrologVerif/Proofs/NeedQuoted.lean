/-
  (c) the atoms `needQuoted` leaves unquoted are exactly texts that lex as one name token (or `[]`,
  `{}`), in every context that cannot extend the token.
-/
import PrologVerif.Proofs.LexShapes
set_option linter.unusedSimpArgs false
set_option linter.unusedVariables false
namespace PrologVerif.Write
open PrologVerif PrologVerif.Lexer

variable (cfg : Cfg)

/-- the atom texts that are written without quotes -/
def Unquoted (s : List Char) : Prop :=
  LDName cfg s ∨ GraphicName cfg s ∨ s = [';'] ∨ s = ['!'] ∨ s = ['[', ']'] ∨ s = ['{', '}']

/-! ## the scanner never makes a text longer -/

def _root_.PrologVerif.Lexer.UQ.pending : UQ → Nat
  | .norm => 0
  | .quote => 1
  | .bs => 1
  | .hex ds => 2 + ds.length
  | .oct ds => 1 + ds.length

theorem symbolicEscape_length (c : Char) (out : List Char) (h : symbolicEscape c = some out) : out.length ≤ 1 := by
  unfold symbolicEscape at h
  by_cases h1 : c = '\n'; · simp [h1] at h; simp [h]
  by_cases h2 : c = 'a'; · simp [h2] at h; simp [← h]
  by_cases h3 : c = 'b'; · simp [h3] at h; simp [← h]
  by_cases h4 : c = 'f'; · simp [h4] at h; simp [← h]
  by_cases h5 : c = 'n'; · simp [h5] at h; simp [← h]
  by_cases h6 : c = 'r'; · simp [h6] at h; simp [← h]
  by_cases h7 : c = 't'; · simp [h7] at h; simp [← h]
  by_cases h8 : c = 'v'; · simp [h8] at h; simp [← h]
  by_cases h9 : c = '\\'; · simp [h9] at h; simp [← h]
  by_cases h10 : c = '\''; · simp [h10] at h; simp [← h]
  by_cases h11 : c = '"'; · simp [h11] at h; simp [← h]
  by_cases h12 : c = '`'; · simp [h12] at h; simp [← h]
  simp [h1, h2, h3, h4, h5, h6, h7, h8, h9, h10, h11, h12] at h

theorem scan_length (q : Char) (cs : List Char) : ∀ st, (scan q st cs).length ≤ cs.length + st.pending := by
  induction cs with
  | nil => intro st; cases st <;> simp [scan, UQ.pending] <;> omega
  | cons c cs ih =>
    intro st
    have hn := ih .norm
    have hq := ih .quote
    have hb := ih .bs
    have hh0 := ih (.hex [])
    have ho1 := ih (.oct [c])
    simp only [UQ.pending, List.length_nil, List.length_cons] at hn hq hb hh0 ho1
    cases st with
    | norm =>
      simp only [scan, UQ.pending]
      repeat' split
      all_goals (simp only [List.length_cons]; omega)
    | quote =>
      simp only [scan, UQ.pending]
      repeat' split
      all_goals (simp only [List.length_cons]; omega)
    | bs =>
      simp only [scan, UQ.pending]
      cases hs : symbolicEscape c with
      | some out =>
        have := symbolicEscape_length c out hs
        simp only [List.length_append, List.length_map, List.length_cons]; omega
      | none =>
        simp only
        repeat' split
        all_goals (simp only [List.length_cons]; omega)
    | hex ds =>
      have hh := ih (.hex (ds ++ [c]))
      simp only [UQ.pending, List.length_append, List.length_cons, List.length_nil] at hh
      simp only [scan, UQ.pending]
      repeat' split
      all_goals (simp only [List.length_cons, List.length_append, List.length_map]; omega)
    | oct ds =>
      have ho := ih (.oct (ds ++ [c]))
      simp only [UQ.pending, List.length_append, List.length_cons, List.length_nil] at ho
      simp only [scan, UQ.pending]
      repeat' split
      all_goals (simp only [List.length_cons, List.length_append, List.length_map]; omega)

theorem unquote_length (v : List Char) : (unquote v).length ≤ v.length - 2 := by
  unfold unquote unescapeFrom stripEnds
  have := scan_length '\'' ((v.drop 1).dropLast) .norm
  simp [UQ.pending] at this ⊢
  omega

/-! ## `needQuoted s = false` pins down the shape of `s` -/

theorem GraphicName_of_GShape (s : List Char) (h : GShape cfg s) (hdot : s ≠ ['.']) : GraphicName cfg s := by
  obtain ⟨c, w, rfl, h1, h2, h3, h4, h5⟩ := h
  refine ⟨c, w, rfl, h1, h2, h3, h4, ?_⟩
  intro hc
  cases w with
  | nil => subst hc; exact absurd rfl hdot
  | cons c2 w2 => exact ⟨c2, w2, rfl, h5 hc c2 w2 rfl⟩

/-- (c), first half: an atom that is written without quotes has one of the unquoted shapes -/
theorem unquoted_of_needQuoted (s : List Char) (h : needQuoted cfg s = false) : Unquoted cfg s := by
  have hp : parseAtom cfg s = some s := by simpa [needQuoted] using h
  unfold parseAtom at hp
  simp only [tokens] at hp
  cases hlex : lexToken (plain cfg) (Lexer.ofList s) with
  | error e => simp [hlex, Read.atom, Read.name, Read.next] at hp
  | ok v =>
    obtain ⟨t1, l1⟩ := v
    have hshape := lexToken_shape (plain cfg) _ _ _ hlex
    obtain ⟨sLD, sG, sSemi, sCut, sQ⟩ := hshape
    simp only [hlex] at hp
    cases hk : t1.kind
    all_goals simp only [Read.atom, Read.name, Read.next, Read.backup, hk] at hp
    case letterDigit =>
      simp at hp; rw [← hp]; exact .inl (sLD hk)
    case graphic =>
      simp at hp; subst hp
      refine .inr (.inl (GraphicName_of_GShape cfg _ (sG hk) ?_))
      intro hd
      rw [hd] at h
      exact absurd h (by rw [show needQuoted cfg ['.'] = true from rfl]; simp)
    case semicolon =>
      simp at hp; rw [← hp]; exact .inr (.inr (.inl (sSemi hk)))
    case cut =>
      simp at hp; rw [← hp]; exact .inr (.inr (.inr (.inl (sCut hk))))
    case quoted =>
      simp at hp
      exfalso
      have h1 := sQ hk
      have h2 := unquote_length t1.val
      rw [hp] at h2
      simp only [Lexer.ofList] at h1
      have hs0 : s = [] := by
        have : s.length = 0 := by omega
        exact List.eq_nil_of_length_eq_zero this
      subst hs0
      simp [lexToken, tokenFuel, layoutTextSequence, next, rawNext, token, Lexer.ofList] at hlex
    case openList =>
      cases hlex2 : lexToken (plain cfg) l1 with
      | error e => simp [hlex2, Read.next] at hp
      | ok v2 =>
        obtain ⟨t2, l2⟩ := v2
        simp only [hlex2, Read.next] at hp
        by_cases hk2 : t2.kind = .closeList
        · simp [hk2] at hp
          exact .inr (.inr (.inr (.inr (.inl (by rw [← hp])))))
        · simp [hk2] at hp
    case openCurly =>
      cases hlex2 : lexToken (plain cfg) l1 with
      | error e => simp [hlex2, Read.next] at hp
      | ok v2 =>
        obtain ⟨t2, l2⟩ := v2
        simp only [hlex2, Read.next] at hp
        by_cases hk2 : t2.kind = .closeCurly
        · simp [hk2] at hp
          exact .inr (.inr (.inr (.inr (.inr (by rw [← hp])))))
        · simp [hk2] at hp
    all_goals simp at hp

end PrologVerif.Write
