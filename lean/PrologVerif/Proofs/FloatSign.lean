/-
  The binary64 value `FloatDec.parseBits` computes for a float token has its sign bit clear — so the sign
  of the text `FormatFloat` returns (`GText.neg`) is the sign bit of the float it denotes (`SignOK`), which
  is what `Float.WriteTerm` (`math.Signbit`) decides its brackets and spaces by.
-/
import PrologVerif.Proofs.OpRoundtripDefs
set_option linter.unusedSimpArgs false
set_option linter.unusedVariables false
namespace PrologVerif.FloatDec

def quotT (num den : Nat) (e : Int) : Nat × Nat × Nat :=
  if e ≥ 0 then
    let d := den * 2 ^ e.toNat
    (num / d, num % d, d)
  else
    let n := num * 2 ^ (-e).toNat
    (n / den, n % den, den)

def e0Of (num den : Nat) : Int := (Nat.log2 num : Int) - (Nat.log2 den : Int) - 52

def e2Of (num den : Nat) : Int :=
  let e0 := e0Of num den
  let q0 := (quotT num den e0).1
  let e1 : Int := if q0 ≥ 2 ^ 53 then e0 + 1 else if q0 < 2 ^ 52 then e0 - 1 else e0
  if e1 < -1074 then -1074 else e1

def finish (q0 r d : Nat) (e2 : Int) : UInt64 :=
  let q := if 2 * r > d ∨ (2 * r = d ∧ q0 % 2 = 1) then q0 + 1 else q0
  let (q, e2) : Nat × Int := if q = 2 ^ 53 then (2 ^ 52, e2 + 1) else (q, e2)
  if q < 2 ^ 52 then UInt64.ofNat q
  else if e2 + 1075 ≥ 2047 then infBits
  else UInt64.ofNat ((e2 + 1075).toNat * 2 ^ 52 + (q - 2 ^ 52))

theorem roundRatio_eq (num den : Nat) :
    roundRatio num den =
      finish (quotT num den (e2Of num den)).1 (quotT num den (e2Of num den)).2.1 (quotT num den (e2Of num den)).2.2
        (e2Of num den) := by
  unfold roundRatio finish e2Of e0Of quotT
  rfl

theorem toNat_ofNat_lt (n : Nat) (h : n < 2 ^ 64) : (UInt64.ofNat n).toNat = n := by
  simp [UInt64.toNat_ofNat', Nat.mod_eq_of_lt h]

theorem finish_lt (q0 r d : Nat) (e2 : Int) (hq : q0 < 2 ^ 53) : (finish q0 r d e2).toNat < 2 ^ 63 := by
  unfold finish
  have h53 : (2:Nat) ^ 53 = 9007199254740992 := by decide
  have h52 : (2:Nat) ^ 52 = 4503599627370496 := by decide
  have h63 : (2:Nat) ^ 63 = 9223372036854775808 := by decide
  have h64 : (2:Nat) ^ 64 = 18446744073709551616 := by decide
  have key : ∀ (q : Nat) (e : Int), q < 2 ^ 53 →
      (if q < 2 ^ 52 then UInt64.ofNat q
        else if e + 1075 ≥ 2047 then infBits
        else UInt64.ofNat ((e + 1075).toNat * 2 ^ 52 + (q - 2 ^ 52))).toNat < 2 ^ 63 := by
    intro q e hq
    split
    · rw [toNat_ofNat_lt _ (by omega)]; omega
    · split
      · decide
      · rename_i h1 h2
        have : (e + 1075).toNat ≤ 2046 := by omega
        have hb : (e + 1075).toNat * 2 ^ 52 + (q - 2 ^ 52) < 2 ^ 63 := by
          rw [h52, h63]; rw [h53] at hq; omega
        rw [toNat_ofNat_lt _ (by omega)]; exact hb
  simp only []
  by_cases hc : (2 * r > d ∨ (2 * r = d ∧ q0 % 2 = 1))
  · simp only [hc, if_true]
    by_cases h2 : q0 + 1 = 2 ^ 53
    · simp only [h2, if_true]
      exact key _ _ (by rw [h52, h53]; omega)
    · simp only [h2, if_false]
      exact key _ _ (by omega)
  · simp only [hc, if_false]
    by_cases h2 : q0 = 2 ^ 53
    · omega
    · simp only [h2, if_false]
      exact key _ _ hq

/-- the quotient as one formula -/
theorem quotT_fst (num den : Nat) (e : Int) :
    (quotT num den e).1 = num * 2 ^ (-e).toNat / (den * 2 ^ e.toNat) := by
  unfold quotT
  split
  · rename_i h
    have : (-e).toNat = 0 := by omega
    simp [this]
  · rename_i h
    have : e.toNat = 0 := by omega
    simp [this]

theorem quot_lt (num den : Nat) (hd : 0 < den) (e : Int) (K : Nat)
    (h : (Nat.log2 num : Int) + 1 + (-e).toNat ≤ K + Nat.log2 den + e.toNat) :
    (quotT num den e).1 < 2 ^ K := by
  rw [quotT_fst]
  have hden : 2 ^ Nat.log2 den ≤ den := Nat.log2_self_le (by omega)
  have hnum : num < 2 ^ (Nat.log2 num + 1) := Nat.lt_log2_self
  rw [Nat.div_lt_iff_lt_mul (Nat.mul_pos hd (Nat.pow_pos (by decide)))]
  have h' : Nat.log2 num + 1 + (-e).toNat ≤ K + Nat.log2 den + e.toNat := by omega
  calc num * 2 ^ (-e).toNat < 2 ^ (Nat.log2 num + 1) * 2 ^ (-e).toNat :=
        Nat.mul_lt_mul_of_pos_right hnum (Nat.pow_pos (by decide))
    _ = 2 ^ (Nat.log2 num + 1 + (-e).toNat) := (Nat.pow_add 2 (Nat.log2 num + 1) (-e).toNat).symm
    _ ≤ 2 ^ (K + Nat.log2 den + e.toNat) := Nat.pow_le_pow_right (by decide) h'
    _ = 2 ^ K * (2 ^ Nat.log2 den * 2 ^ e.toNat) := by
        rw [Nat.pow_add 2 (K + Nat.log2 den) e.toNat, Nat.pow_add 2 K (Nat.log2 den), Nat.mul_assoc]
    _ ≤ 2 ^ K * (den * 2 ^ e.toNat) := Nat.mul_le_mul_left _ (Nat.mul_le_mul_right _ hden)

theorem quot_pred (num den : Nat) (hd : 0 < den) (e : Int) (h : (quotT num den e).1 < 2 ^ 52) :
    (quotT num den (e - 1)).1 < 2 ^ 53 := by
  rw [quotT_fst] at h ⊢
  rw [Nat.div_lt_iff_lt_mul (Nat.mul_pos hd (Nat.pow_pos (by decide)))] at h ⊢
  have h53 : (2:Nat) ^ 53 = 2 * 2 ^ 52 := by decide
  by_cases he : e ≥ 1
  · have e1 : (-e).toNat = 0 := by omega
    have e2 : (-(e - 1)).toNat = 0 := by omega
    have e3 : e.toNat = (e - 1).toNat + 1 := by omega
    rw [e1, e3] at h
    rw [e2]
    rw [Nat.pow_succ] at h
    calc num * 2 ^ 0 < 2 ^ 52 * (den * (2 ^ (e - 1).toNat * 2)) := h
      _ = 2 ^ 53 * (den * 2 ^ (e - 1).toNat) := by
        rw [h53, Nat.mul_comm (2 ^ (e - 1).toNat) 2, ← Nat.mul_assoc den, Nat.mul_comm den 2, Nat.mul_assoc 2 den,
          ← Nat.mul_assoc (2 ^ 52), Nat.mul_comm (2 ^ 52) 2]
  · have e1 : e.toNat = 0 := by omega
    have e2 : (e - 1).toNat = 0 := by omega
    have e3 : (-(e - 1)).toNat = (-e).toNat + 1 := by omega
    rw [e1] at h
    rw [e2, e3, Nat.pow_succ]
    calc num * (2 ^ (-e).toNat * 2) = 2 * (num * 2 ^ (-e).toNat) := by
          rw [← Nat.mul_assoc, Nat.mul_comm]
      _ < 2 * (2 ^ 52 * (den * 2 ^ 0)) := Nat.mul_lt_mul_of_pos_left h (by decide)
      _ = 2 ^ 53 * (den * 2 ^ 0) := by rw [h53, Nat.mul_assoc]

theorem quot_e2_lt (num den : Nat) (hd : 0 < den) : (quotT num den (e2Of num den)).1 < 2 ^ 53 := by
  have hge : ∀ e : Int, e0Of num den ≤ e → (quotT num den e).1 < 2 ^ 53 := by
    intro e he
    apply quot_lt num den hd e 53
    unfold e0Of at he
    omega
  unfold e2Of
  simp only []
  by_cases h1 : (quotT num den (e0Of num den)).1 ≥ 2 ^ 53
  · simp only [h1, if_true]
    split <;> apply hge <;> omega
  · simp only [h1, if_false]
    by_cases h2 : (quotT num den (e0Of num den)).1 < 2 ^ 52
    · simp only [h2, if_true]
      split
      · rename_i h3
        apply hge; omega
      · exact quot_pred num den hd _ h2
    · simp only [h2, if_false]
      split <;> apply hge <;> omega

theorem roundRatio_lt (num den : Nat) (hd : 0 < den) : (roundRatio num den).toNat < 2 ^ 63 := by
  rw [roundRatio_eq]
  exact finish_lt _ _ _ _ (quot_e2_lt num den hd)

/-- the value of a float token has its sign bit clear -/
theorem parseBits_lt (s : List Char) : (parseBits s).toNat < 2 ^ 63 := by
  unfold parseBits
  split
  · decide
  · split
    · decide
    · simp only []
      split
      · decide
      · split
        · decide
        · split
          · exact roundRatio_lt _ _ (by decide)
          · exact roundRatio_lt _ _ (Nat.pow_pos (by decide))

end PrologVerif.FloatDec

namespace PrologVerif.Write
open PrologVerif PrologVerif.Lexer PrologVerif.Read

/-- `SignOK` follows from the round-trip law of the float parameters -/
theorem signOK_of_envOK {e : Env} {G : UInt64 → GText} {P : UInt64 → Bool} (he : EnvOK e G P) : SignOK G P := by
  intro b hb
  have hlaw := he.fltLaw b hb
  unfold Read.float at hlaw
  cases hneg : (G b).neg with
  | false =>
    simp only [hneg, Bool.false_eq_true, if_false] at hlaw
    have hlt := FloatDec.parseBits_lt (G b).body
    rw [hlaw] at hlt
    unfold signbit
    rw [decide_eq_false_iff_not]
    intro hge
    have : (0x8000000000000000 : UInt64) ≤ b := hge
    rw [UInt64.le_iff_toNat_le] at this
    have h63 : (2:Nat) ^ 63 = 9223372036854775808 := by decide
    have hc : (0x8000000000000000 : UInt64).toNat = 9223372036854775808 := by decide
    omega
  | true =>
    simp only [hneg, if_true] at hlaw
    unfold signbit
    rw [decide_eq_true_eq, ← hlaw]
    show (0x8000000000000000 : UInt64) ≤ FloatDec.parseBits (G b).body ||| 0x8000000000000000
    rw [UInt64.le_iff_toNat_le, UInt64.toNat_or]
    exact Nat.right_le_or

end PrologVerif.Write
