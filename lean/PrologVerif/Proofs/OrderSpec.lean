/-
  The specification order `stdCompare` is a total preorder whose `=` is structural identity
  (modulo float ==).  Mutual structural induction over Term / Args with the `Trans3` invariant.
-/
import PrologVerif.Proofs.OrderBase
namespace PrologVerif.OrderProofs
open PrologVerif PrologVerif.Order PrologVerif.OrderSpec

theorem cmpCodePoints_eq_cmpList (a b : List Char) :
    cmpCodePoints a b = cmpList (fun c d : Char => cmpOfLt (· < ·) c.toNat d.toNat) a b := by
  induction a generalizing b with
  | nil => cases b <;> rfl
  | cons c cs ih => cases b with
    | nil => rfl
    | cons d ds => simp [cmpCodePoints, cmpList, ih]

theorem cmpChar_lawful : Lawful (fun c d : Char => cmpOfLt (· < ·) c.toNat d.toNat) :=
  ⟨fun x y => cmpOfLt_nat_lawful.swap _ _, fun x y z => cmpOfLt_nat_lawful.trans _ _ _⟩

theorem cmpCodePoints_lawful : Lawful cmpCodePoints := by
  have := cmpList_lawful cmpChar_lawful
  constructor
  · intro x y; simp only [cmpCodePoints_eq_cmpList]; exact this.swap x y
  · intro x y z; simp only [cmpCodePoints_eq_cmpList]; exact this.trans x y z

theorem char_toNat_inj {c d : Char} (h : c.toNat = d.toNat) : c = d := by
  apply Char.ext; apply UInt32.toNat_inj.mp; exact h

theorem cmpCodePoints_eq_iff (a b : List Char) : cmpCodePoints a b = .eq ↔ a = b := by
  rw [cmpCodePoints_eq_cmpList]
  apply cmpList_eq_iff
  intro x y
  rw [cmpOfLt_nat_eq]
  exact ⟨char_toNat_inj, fun h => by rw [h]⟩

theorem cmpText_spec_eq_iff (a b : String) : cmpCodePoints a.toList b.toList = .eq ↔ a = b := by
  rw [cmpCodePoints_eq_iff]
  exact ⟨fun h => String.toList_inj.mp h, fun h => by rw [h]⟩

/-! ### antisymmetry -/

mutual
  theorem stdCompare_swap : ∀ x y : Term, stdCompare y x = (stdCompare x y).swap
    | .var v, y => by cases y <;> simp [stdCompare, rank, cmpOfLt_nat_lawful.swap v] <;> rfl
    | .flt f, y => by cases y <;> simp [stdCompare, rank, cmpOfLt_int_lawful.swap (floatKey f)] <;> rfl
    | .int i, y => by cases y <;> simp [stdCompare, rank, cmpOfLt_int_lawful.swap i] <;> rfl
    | .atom a, y => by cases y <;> simp [stdCompare, rank, cmpCodePoints_lawful.swap a.toList] <;> rfl
    | .str s, y => by cases y <;> simp [stdCompare, rank, cmpOfLt_nat_lawful.swap s] <;> rfl
    | .app f as, y => by
      cases y with
      | app g bs =>
        simp only [stdCompare, Ordering.swap_then]
        rw [cmpOfLt_nat_lawful.swap as.length, cmpCodePoints_lawful.swap f.toList, stdCompareArgs_swap as bs]
      | _ => simp [stdCompare, rank] <;> rfl
  theorem stdCompareArgs_swap : ∀ as bs : Args, stdCompareArgs bs as = (stdCompareArgs as bs).swap
    | .nil, bs => by cases bs <;> simp [stdCompareArgs, Ordering.swap]
    | .cons a as, bs => by
      cases bs with
      | nil => simp [stdCompareArgs, Ordering.swap]
      | cons b bs =>
        simp only [stdCompareArgs, Ordering.swap_then]
        rw [stdCompare_swap a b, stdCompareArgs_swap as bs]
end

/-! ### transitivity (with `=` a congruence) -/

/-- closes the goals where at least two of the three terms have different types -/
macro "rank_cases" : tactic =>
  `(tactic| (simp [stdCompare, rank, Trans3, cmpOfLt]))

mutual
  theorem stdCompare_trans : ∀ x y z : Term,
      Trans3 (stdCompare x y) (stdCompare y z) (stdCompare x z)
    | .var v, y, z => by
      cases y <;> cases z <;>
        first | exact cmpOfLt_nat_lawful.trans _ _ _ | rank_cases
    | .flt f, y, z => by
      cases y <;> cases z <;>
        first | exact cmpOfLt_int_lawful.trans _ _ _ | rank_cases
    | .int i, y, z => by
      cases y <;> cases z <;>
        first | exact cmpOfLt_int_lawful.trans _ _ _ | rank_cases
    | .atom a, y, z => by
      cases y <;> cases z <;>
        first | exact cmpCodePoints_lawful.trans _ _ _ | rank_cases
    | .str s, y, z => by
      cases y <;> cases z <;>
        first | exact cmpOfLt_nat_lawful.trans _ _ _ | rank_cases
    | .app f as, y, z => by
      cases y with
      | app g bs =>
        cases z with
        | app h cs =>
          simp only [stdCompare]
          exact (cmpOfLt_nat_lawful.trans _ _ _).then
            ((cmpCodePoints_lawful.trans _ _ _).then (stdCompareArgs_trans as bs cs))
        | _ => rank_cases
      | _ => cases z <;> rank_cases
  theorem stdCompareArgs_trans : ∀ as bs cs : Args,
      Trans3 (stdCompareArgs as bs) (stdCompareArgs bs cs) (stdCompareArgs as cs)
    | .nil, bs, cs => by
      cases bs <;> cases cs <;> simp [stdCompareArgs, Trans3]
    | .cons a as, bs, cs => by
      cases bs with
      | nil => cases cs <;> simp [stdCompareArgs, Trans3]
      | cons b bs =>
        cases cs with
        | nil =>
          simp only [stdCompareArgs, Trans3]
          cases stdCompare a b <;> cases stdCompareArgs as bs <;> simp [Ordering.then]
        | cons c cs =>
          simp only [stdCompareArgs]
          exact (stdCompare_trans a b c).then (stdCompareArgs_trans as bs cs)
end

theorem stdCompare_lawful : Lawful stdCompare := ⟨stdCompare_swap, stdCompare_trans⟩

/-! ### `=` is structural identity -/

mutual
  theorem identical_of_std_eq : ∀ x y : Term, noNaN x = true → noNaN y = true →
      stdCompare x y = .eq → identical x y = true
    | .var v, y => by
      cases y <;> simp [stdCompare, rank, cmpOfLt_nat_eq, identical]
    | .flt f, y => by
      cases y <;> simp [stdCompare, rank, cmpOfLt_nat_eq, cmpOfLt_int_eq, identical, noNaN]
      intro h1 h2 h3; simp [h1, h2, h3]
    | .int i, y => by
      cases y <;> simp [stdCompare, rank, cmpOfLt_nat_eq, cmpOfLt_int_eq, identical]
    | .atom a, y => by
      cases y <;> simp [stdCompare, rank, cmpOfLt_nat_eq, identical, cmpText_spec_eq_iff]
    | .str s, y => by
      cases y <;> simp [stdCompare, rank, cmpOfLt_nat_eq, identical]
    | .app f as, y => by
      cases y with
      | app g bs =>
        simp only [stdCompare, noNaN, identical, Ordering.then_eq_eq, Bool.and_eq_true, beq_iff_eq]
        intro hx hy ⟨_, h2, h3⟩
        exact ⟨(cmpText_spec_eq_iff _ _).mp h2, identicalArgs_of_std_eq as bs hx hy h3⟩
      | _ => simp [stdCompare, rank, cmpOfLt_nat_eq]
  theorem identicalArgs_of_std_eq : ∀ as bs : Args, noNaNArgs as = true → noNaNArgs bs = true →
      stdCompareArgs as bs = .eq → identicalArgs as bs = true
    | .nil, bs => by cases bs <;> simp [stdCompareArgs, identicalArgs]
    | .cons a as, bs => by
      cases bs with
      | nil => simp [stdCompareArgs]
      | cons b bs =>
        simp only [stdCompareArgs, noNaNArgs, identicalArgs, Ordering.then_eq_eq, Bool.and_eq_true]
        intro ⟨h1, h2⟩ ⟨h3, h4⟩ ⟨h5, h6⟩
        exact ⟨identical_of_std_eq a b h1 h3 h5, identicalArgs_of_std_eq as bs h2 h4 h6⟩
end

mutual
  theorem std_eq_of_identical : ∀ x y : Term, identical x y = true → stdCompare x y = .eq
    | .var v, y => by
      cases y <;> simp [stdCompare, cmpOfLt_nat_eq, identical]
    | .flt f, y => by
      cases y <;> simp [stdCompare, cmpOfLt_int_eq, identical]
    | .int i, y => by
      cases y <;> simp [stdCompare, cmpOfLt_int_eq, identical]
    | .atom a, y => by
      cases y <;> simp [stdCompare, identical, cmpText_spec_eq_iff]
    | .str s, y => by
      cases y <;> simp [stdCompare, cmpOfLt_nat_eq, identical]
    | .app f as, y => by
      cases y with
      | app g bs =>
        simp only [stdCompare, identical, Ordering.then_eq_eq, Bool.and_eq_true, beq_iff_eq]
        intro ⟨h1, h2⟩
        have h3 := identicalArgs_length as bs h2
        exact ⟨by rw [cmpOfLt_nat_eq]; exact h3, (cmpText_spec_eq_iff _ _).mpr h1,
          std_eq_of_identicalArgs as bs h2⟩
      | _ => simp [identical]
  theorem std_eq_of_identicalArgs : ∀ as bs : Args, identicalArgs as bs = true →
      stdCompareArgs as bs = .eq
    | .nil, bs => by cases bs <;> simp [stdCompareArgs, identicalArgs]
    | .cons a as, bs => by
      cases bs with
      | nil => simp [identicalArgs]
      | cons b bs =>
        simp only [stdCompareArgs, identicalArgs, Ordering.then_eq_eq, Bool.and_eq_true]
        intro ⟨h1, h2⟩
        exact ⟨std_eq_of_identical a b h1, std_eq_of_identicalArgs as bs h2⟩
  theorem identicalArgs_length : ∀ as bs : Args, identicalArgs as bs = true → as.length = bs.length
    | .nil, bs => by cases bs <;> simp [identicalArgs, Args.length]
    | .cons a as, bs => by
      cases bs with
      | nil => simp [identicalArgs]
      | cons b bs =>
        simp only [identicalArgs, Bool.and_eq_true, Args.length]
        intro ⟨_, h2⟩
        rw [identicalArgs_length as bs h2]
end

end PrologVerif.OrderProofs
