/-
  C01, the end-to-end refinement — THE VM MODEL REFINES THE REFERENCE INTERPRETER on the Horn
  fragment: whenever `VM.runQuery` (compiled clauses on the trampoline, bootstrap loaded, the query
  compiled by `callGoal`, run exactly as `Driver.C01.vmLine` runs it) and `SLD.solveQuery`
  (`Driver.C01.specLine`) both return, they return the same answers in the same order up to renaming
  of variables, and end the same way.  Statements and proofs: Proofs/Refine.lean (and the files
  Proofs/Refine*.lean it imports).
-/
import PrologVerif.Proofs.Refine
import PrologVerif.Restate
namespace PrologVerif.C01
open PrologVerif PrologVerif.Refine

/- **C01_vm_refines_sld_horn**: program and query in `HornFrag` (clauses `H :- B1,…,Bn` / facts over
    user predicates, body and query goals: user predicates — defined or not —, `true`, `=`/2,
    conjunctions however nested; arbitrary argument terms in every encoding), `max ≥ 1`, all fuels.
    Same number of answers; the i-th answers agree up to `Term.canon` — or the model's `applyAll`
    ran out of its inner fuel on that answer (`AnsRel`); same end (exhausted / more / same error). -/
restate C01_vm_refines_sld_horn := vm_refines_sld_horn

/- **C01_vm_refines_sld_horn_canon**: the statement behind the three-way check, `as1.map canon =
    as2.map canon ∧ endAgree e1 e2`, for ground queries, or when no VM answer is literally the
    unresolved query term. -/
restate C01_vm_refines_sld_horn_canon := vm_refines_sld_horn_canon

/- **C01_vm_refines_sld_cut** (stage 2): the same for `CutFrag` = Horn clauses with `!` in clause
    bodies and in the query (cut parents of the VM ↔ cut levels of the reference). -/
restate C01_vm_refines_sld_cut := vm_refines_sld_cut

restate C01_vm_refines_sld_cut_canon := vm_refines_sld_cut_canon

/- **C01_vm_refines_sld_call** (stage 3a): the same for `CallFrag` = `CutFrag` + `call(G)` as a goal of
    clause bodies, of the query and — recursively — of the goals that are called (`G` any term;
    what it is bound to at call time must be a variable (instantiation error on both sides) or again
    a body of the fragment: that, and that the model's inner fuel suffices to dereference `G`, is
    the side condition `CallsOK` on the VM's run).  A cut inside `call/1` is local. -/
restate C01_vm_refines_sld_call := vm_refines_sld_call

/- **C01_vm_refines_sld_ctl** (stage 3, growing): `CtlFrag` = `CutFrag` + the control constructs as goals
    (clause bodies, query, called goals): `call(G)`, if-then-else `(C -> T ; E)`, if-then `(C -> T)`
    — executed by the VM through the clauses of bootstrap.pl (`If -> Then ; _ :- If, !, Then.`,
    `_ -> _ ; Else :- !, Else.`, `If -> Then :- If, !, Then.`), by the reference as a branch with a
    cut local to the construct; `once(G)` (VM: `once(P) :- P, !.`; reference: `(call(G) -> true)`,
    i.e. with calls `call(call(G))`, `call(true)` the VM does not make); `\\+ G` (VM: the thunk
    `negate` calls `G` in a trampoline of its own — `force` on an empty stack, related to the
    recursive search by `force_dfsG_conv` and `vm_nested_well_scoped` —, reference:
    `(call(G) -> fail ; true)`).
    Disjunction `;`/2 at the top level of a clause body (one compiled clause per alternative —
    `altBodies` — against the reference's `splitClause`), of the query and of a called goal.
    Side condition `CallsOK` as for `call/1` (for `\\+ G` also on the goal `G` and, recursively, on
    the nested search).
    (A non-if-then-else disjunction as a goal INSIDE a conjunction and call/N, 2 ≤ N ≤ 8: see
    `C01_vm_refines_sld_ctl2`, `C01_vm_refines_sld_callN` below.)
    FINDING: for call/N with N ≥ 9 the VM model answers where the reference (and the Go engine, which
    defines call/1..call/8 only) raises existence_error(procedure, call/N). -/
restate C01_vm_refines_sld_ctl := vm_refines_sld_ctl

/- **C01_vm_refines_sld_callN** (stage 4a): `CallNFrag` = `CtlFrag` + `call(G, A1, …, Ak)`, 1 ≤ k ≤ 7
    (call/2 … call/8, what the Go engine defines) as a goal of clause bodies, of the query and of
    called goals.  VM: `callN` dereferences the closure and appends the arguments (instantiation
    error for a variable, type_error(callable, _) for a number or string), then `Call` on the goal
    so built; reference: `addArgs`, then the body of `call/1`.  Side condition `CallsOK` (now also
    about the goals built by call/N: `callNOK`).  `C01_vm_refines_sld_ctl` is the instance without
    call/N goals (its side condition has become weaker: called goals may contain call/N).
    For N ≥ 9 the MODEL and the reference disagree (see above). -/
restate C01_vm_refines_sld_callN := vm_refines_sld_callN

/- **C01_vm_refines_sld_ctl2** (stage 4b): `Ctl2Frag` = `CallNFrag` + a disjunction `(A ; B)` that is
    not an if-then-else as a GOAL — a conjunct of a conjunction — in clause bodies, the query and
    called goals (`A` callable and not `_ -> _`, in particular not a variable; a body that is itself a
    disjunction is, as before, one alternative per disjunct).  VM: the three clauses of `;`/2 of
    bootstrap.pl — the heads of the two if-then-else clauses clash with the goal, `P ; Q :-
    call((P ; Q)).` is a clause frame the reference has no level for; reference: the body of
    `call((A ; B))` in place of the goal.  A cut inside a disjunct is local to the disjunction.
    `','/2` in goal position does not arise (conjunctions are flattened on both sides); through
    call/N it is a called goal.  Side condition `CallsOK` (it covers the `call/1` of the bootstrap
    clause as well).  This closes what `VmRefinesSldCtlFullStatement` recorded as open, except: a
    VARIABLE (or a number) as the first alternative of a disjunction goal, and call/N for N ≥ 9
    (where the model and the reference disagree). -/
restate C01_vm_refines_sld_ctl2 := vm_refines_sld_ctl2

end PrologVerif.C01
