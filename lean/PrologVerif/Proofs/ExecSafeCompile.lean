/-
  exec_safe, part 1 — everything `compile` emits is `safe`.

  `Seg nv ops a s a' s'`: in front of any code that is safe from the abstract state `(a', s')`, the
  segment `ops` is safe from `(a, s)` (continuation style, so that `unsupported`, which ends the
  abstract run with `true`, needs no special case).  An argument compiled in head mode consumes one
  argument and leaves the shape stack alone; in body mode it adds one.  Variable offsets are below
  the length of the FINAL table because `varOffset` only appends.
-/
import PrologVerif.Proofs.ExecSafeDefs
import PrologVerif.Proofs.DecompileCompile
namespace PrologVerif.ExecSafe
open PrologVerif PrologVerif.VM PrologVerif.DecompileCompile

/-! ## segments -/

def Seg (nv : Nat) (ops : List Op) (a : Nat) (s : List Shape) (a' : Nat) (s' : List Shape) : Prop :=
  ∀ rest, safe rest nv a' s' = true → safe (ops ++ rest) nv a s = true

theorem Seg.nil {nv a s} : Seg nv [] a s a s := fun _ h => h

theorem Seg.append {nv o1 o2 a s a1 s1 a2 s2} (h1 : Seg nv o1 a s a1 s1) (h2 : Seg nv o2 a1 s1 a2 s2) :
    Seg nv (o1 ++ o2) a s a2 s2 := by
  intro rest h
  rw [List.append_assoc]
  exact h1 _ (h2 _ h)

/-- `ops` is the code of `k` arguments: head mode consumes `k` arguments, body mode adds `k` -/
def ArgSeg (hd : Bool) (nv : Nat) (ops : List Op) (k : Nat) : Prop :=
  ∀ a s, Seg nv ops (cond hd (a + k) a) s (cond hd a (a + k)) s

theorem ArgSeg_nil (hd : Bool) (nv : Nat) : ArgSeg hd nv [] 0 := by
  intro a s
  cases hd <;> exact Seg.nil

theorem ArgSeg_append {hd nv o1 o2 k1 k2} (h1 : ArgSeg hd nv o1 k1) (h2 : ArgSeg hd nv o2 k2) :
    ArgSeg hd nv (o1 ++ o2) (k1 + k2) := by
  intro a s
  cases hd with
  | true =>
    have a1 := h1 (a + k2) s
    have a2 := h2 a s
    simp only [cond_true] at a1 a2 ⊢
    have e : a + (k1 + k2) = a + k2 + k1 := by omega
    rw [e]
    exact a1.append a2
  | false =>
    have a1 := h1 a s
    have a2 := h2 (a + k1) s
    simp only [cond_false] at a1 a2 ⊢
    rw [← Nat.add_assoc]
    exact a1.append a2

theorem ArgSeg_const (hd : Bool) (nv : Nat) (t : Term) : ArgSeg hd nv [opConst hd t] 1 := by
  intro a s rest h
  cases hd <;> simpa [opConst, safe] using h

theorem ArgSeg_var (hd : Bool) (nv i : Nat) (hi : i < nv) : ArgSeg hd nv [opVar hd i] 1 := by
  intro a s rest h
  cases hd <;> simpa [opVar, safe, hi] using h

theorem ArgSeg_unsupported (hd : Bool) (nv : Nat) (w : String) : ArgSeg hd nv [.unsupported w] 1 := by
  intro a s rest _
  simp [safe]

theorem ArgSeg_consts (hd : Bool) (nv : Nat) : ∀ ts : List Term, ArgSeg hd nv (ts.map (opConst hd)) ts.length
  | [] => ArgSeg_nil hd nv
  | t :: ts => by
    have := ArgSeg_append (ArgSeg_const hd nv t) (ArgSeg_consts hd nv ts)
    simpa [Nat.add_comm] using this

theorem ArgSeg_functor (hd : Bool) (nv : Nat) (f : String) (n : Nat) (ops : List Op)
    (h : ArgSeg hd nv ops n) : ArgSeg hd nv (opFunctor hd f n :: ops ++ [.pop]) 1 := by
  intro a s rest hr
  cases hd with
  | true =>
    have := h 0 (.get a :: s) (.pop :: rest) (by simpa [safe] using hr)
    simpa [opFunctor, safe] using this
  | false =>
    have := h 0 (.put a :: s) (.pop :: rest) (by simpa [safe] using hr)
    simpa [opFunctor, safe] using this

theorem ArgSeg_list (hd : Bool) (nv : Nat) (n : Nat) (ops : List Op)
    (h : ArgSeg hd nv ops n) : ArgSeg hd nv (opList hd n :: ops ++ [.pop]) 1 := by
  intro a s rest hr
  cases hd with
  | true =>
    have := h 0 (.get a :: s) (.pop :: rest) (by simpa [safe] using hr)
    simpa [opList, safe] using this
  | false =>
    have := h 0 (.put a :: s) (.pop :: rest) (by simpa [safe] using hr)
    simpa [opList, safe] using this

theorem ArgSeg_partial (hd : Bool) (nv : Nat) (n : Nat) (ops : List Op)
    (h : ArgSeg hd nv ops (n + 1)) : ArgSeg hd nv (opPartial hd n :: ops ++ [.pop]) 1 := by
  intro a s rest hr
  cases hd with
  | true =>
    have := h 0 (.get a :: s) (.pop :: rest) (by simpa [safe] using hr)
    simpa [opPartial, safe] using this
  | false =>
    have := h 0 (.put a :: s) (.pop :: rest) (by simpa [safe] using hr)
    simpa [opPartial, safe] using this

/-! ## arguments -/

theorem varOffset_lt (c : CState) (v : Nat) :
    (varOffset c v).2.code = c.code ∧ c.vars.length ≤ (varOffset c v).2.vars.length ∧
      (varOffset c v).1 < (varOffset c v).2.vars.length := by
  obtain ⟨i, c', h, hc, hp, hv⟩ := varOffset_spec c v
  rw [h]
  refine ⟨hc, hp.length_le, ?_⟩
  rcases Nat.lt_or_ge i c'.vars.length with hlt | hge
  · exact hlt
  · rw [List.getElem?_eq_none hge] at hv; cases hv

mutual
  theorem compileArg_safe (hd : Bool) : ∀ (r : Rep) (c : CState),
      ∃ ops, (compileArg hd r c).code = c.code ++ ops ∧
        c.vars.length ≤ (compileArg hd r c).vars.length ∧
        ∀ nv, (compileArg hd r c).vars.length ≤ nv → ArgSeg hd nv ops 1
    | .var v, c => by
      obtain ⟨h1, h2, h3⟩ := varOffset_lt c v
      refine ⟨[opVar hd (varOffset c v).1], ?_, ?_, ?_⟩
      · simp [compileArg, h1]
      · simpa [compileArg] using h2
      · intro nv hnv
        refine ArgSeg_var hd nv _ ?_
        simp only [compileArg, emit_vars] at hnv
        omega
    | .atom s, c => ⟨[opConst hd (.atom s)], by simp [compileArg], by simp [compileArg],
        fun nv _ => ArgSeg_const hd nv _⟩
    | .int i, c => ⟨[opConst hd (.int i)], by simp [compileArg], by simp [compileArg],
        fun nv _ => ArgSeg_const hd nv _⟩
    | .flt b, c => ⟨[opConst hd (.flt b)], by simp [compileArg], by simp [compileArg],
        fun nv _ => ArgSeg_const hd nv _⟩
    | .str n, c => ⟨[opConst hd (.str n)], by simp [compileArg], by simp [compileArg],
        fun nv _ => ArgSeg_const hd nv _⟩
    | .charList s, c => ⟨[opConst hd (Rep.abs (.charList s))], by simp [compileArg],
        by simp [compileArg], fun nv _ => ArgSeg_const hd nv _⟩
    | .codeList s, c => ⟨[opConst hd (Rep.abs (.codeList s))], by simp [compileArg],
        by simp [compileArg], fun nv _ => ArgSeg_const hd nv _⟩
    | .compound f args, c => by
      obtain ⟨ops, hcode, hlen, hs⟩ := compileArgs_safe hd args (emit c (opFunctor hd f args.length))
      refine ⟨opFunctor hd f args.length :: ops ++ [.pop], ?_, ?_, ?_⟩
      · simp [compileArg, hcode]
      · simpa [compileArg] using hlen
      · intro nv hnv
        exact ArgSeg_functor hd nv f _ ops (hs nv (by simpa [compileArg] using hnv))
    | .list elems, c => by
      obtain ⟨ops, hcode, hlen, hs⟩ := compileArgs_safe hd elems (emit c (opList hd elems.length))
      refine ⟨opList hd elems.length :: ops ++ [.pop], ?_, ?_, ?_⟩
      · simp [compileArg, hcode]
      · simpa [compileArg] using hlen
      · intro nv hnv
        exact ArgSeg_list hd nv _ ops (hs nv (by simpa [compileArg] using hnv))
    | .part pre tail, c => by
      cases pre with
      | list elems =>
        obtain ⟨ops1, hcode1, hlen1, hs1⟩ := compileArg_safe hd tail (emit c (opPartial hd elems.length))
        obtain ⟨ops2, hcode2, hlen2, hs2⟩ :=
          compileArgs_safe hd elems (compileArg hd tail (emit c (opPartial hd elems.length)))
        refine ⟨opPartial hd elems.length :: (ops1 ++ ops2) ++ [.pop], ?_, ?_, ?_⟩
        · simp [compileArg, hcode1, hcode2]
        · simp only [compileArg, emit_vars] at hlen1 hlen2 ⊢
          omega
        · intro nv hnv
          simp only [compileArg, emit_vars] at hnv hlen2 hlen1
          have := ArgSeg_append (hs1 nv (by omega)) (hs2 nv hnv)
          rw [Nat.add_comm] at this
          exact ArgSeg_partial hd nv _ _ this
      | charList s =>
        obtain ⟨ops1, hcode1, hlen1, hs1⟩ := compileArg_safe hd tail (emit c (opPartial hd s.length))
        obtain ⟨hf1, hf2⟩ := foldl_emit (opConst hd) (charConsts s)
          (compileArg hd tail (emit c (opPartial hd s.length)))
        refine ⟨opPartial hd s.length :: (ops1 ++ (charConsts s).map (opConst hd)) ++ [.pop], ?_, ?_, ?_⟩
        · simp [compileArg, hcode1, hf1]
        · simp only [compileArg, emit_vars, hf2] at hlen1 ⊢
          exact hlen1
        · intro nv hnv
          simp only [compileArg, emit_vars, hf2] at hnv
          have := ArgSeg_append (hs1 nv hnv) (ArgSeg_consts hd nv (charConsts s))
          have el : (charConsts s).length = s.length := by simp [charConsts]
          rw [Nat.add_comm, el] at this
          exact ArgSeg_partial hd nv _ _ this
      | codeList s =>
        obtain ⟨ops1, hcode1, hlen1, hs1⟩ := compileArg_safe hd tail (emit c (opPartial hd s.length))
        obtain ⟨hf1, hf2⟩ := foldl_emit (opConst hd) (codeConsts s)
          (compileArg hd tail (emit c (opPartial hd s.length)))
        refine ⟨opPartial hd s.length :: (ops1 ++ (codeConsts s).map (opConst hd)) ++ [.pop], ?_, ?_, ?_⟩
        · simp [compileArg, hcode1, hf1]
        · simp only [compileArg, emit_vars, hf2] at hlen1 ⊢
          exact hlen1
        · intro nv hnv
          simp only [compileArg, emit_vars, hf2] at hnv
          have := ArgSeg_append (hs1 nv hnv) (ArgSeg_consts hd nv (codeConsts s))
          have el : (codeConsts s).length = s.length := by simp [codeConsts]
          rw [Nat.add_comm, el] at this
          exact ArgSeg_partial hd nv _ _ this
      | var _ => exact ⟨[.unsupported "partial over compound/partial prefix"], by simp [compileArg], by simp [compileArg],
          fun nv _ => ArgSeg_unsupported hd nv _⟩
      | atom _ => exact ⟨[.unsupported "partial over compound/partial prefix"], by simp [compileArg], by simp [compileArg],
          fun nv _ => ArgSeg_unsupported hd nv _⟩
      | int _ => exact ⟨[.unsupported "partial over compound/partial prefix"], by simp [compileArg], by simp [compileArg],
          fun nv _ => ArgSeg_unsupported hd nv _⟩
      | flt _ => exact ⟨[.unsupported "partial over compound/partial prefix"], by simp [compileArg], by simp [compileArg],
          fun nv _ => ArgSeg_unsupported hd nv _⟩
      | str _ => exact ⟨[.unsupported "partial over compound/partial prefix"], by simp [compileArg], by simp [compileArg],
          fun nv _ => ArgSeg_unsupported hd nv _⟩
      | compound _ _ => exact ⟨[.unsupported "partial over compound/partial prefix"], by simp [compileArg], by simp [compileArg],
          fun nv _ => ArgSeg_unsupported hd nv _⟩
      | part _ _ => exact ⟨[.unsupported "partial over compound/partial prefix"], by simp [compileArg], by simp [compileArg],
          fun nv _ => ArgSeg_unsupported hd nv _⟩
  theorem compileArgs_safe (hd : Bool) : ∀ (rs : RepList) (c : CState),
      ∃ ops, (compileArgs hd rs c).code = c.code ++ ops ∧
        c.vars.length ≤ (compileArgs hd rs c).vars.length ∧
        ∀ nv, (compileArgs hd rs c).vars.length ≤ nv → ArgSeg hd nv ops rs.length
    | .nil, c => ⟨[], by simp [compileArgs], by simp [compileArgs], fun nv _ => ArgSeg_nil hd nv⟩
    | .cons r rs, c => by
      obtain ⟨ops1, hcode1, hlen1, hs1⟩ := compileArg_safe hd r c
      obtain ⟨ops2, hcode2, hlen2, hs2⟩ := compileArgs_safe hd rs (compileArg hd r c)
      refine ⟨ops1 ++ ops2, ?_, ?_, ?_⟩
      · simp [compileArgs, hcode1, hcode2]
      · simp only [compileArgs]
        omega
      · intro nv hnv
        simp only [compileArgs] at hnv
        have := ArgSeg_append (hs1 nv (by omega)) (hs2 nv hnv)
        rw [Nat.add_comm] at this
        simpa [RepList.length] using this
end

/-! ## body goals -/

/-- goal code: from an empty shape stack (any number of arguments) back to an empty shape stack -/
def BodySeg (nv : Nat) (ops : List Op) : Prop :=
  ∀ rest, (∀ a, safe rest nv a [] = true) → ∀ a, safe (ops ++ rest) nv a [] = true

theorem BodySeg_nil (nv : Nat) : BodySeg nv [] := fun _ h => h

theorem BodySeg_append {nv o1 o2} (h1 : BodySeg nv o1) (h2 : BodySeg nv o2) : BodySeg nv (o1 ++ o2) := by
  intro rest h a
  rw [List.append_assoc]
  exact h1 _ (h2 _ h) a

theorem BodySeg_cut (nv : Nat) : BodySeg nv [.cut] := by
  intro rest h a
  simpa [safe] using h a

theorem BodySeg_enter (nv : Nat) : BodySeg nv [.enter] := by
  intro rest h a
  simpa [safe] using h a

theorem BodySeg_call {nv ops k} (f : String) (n : Nat) (h : ArgSeg false nv ops k) :
    BodySeg nv (ops ++ [.call f n]) := by
  intro rest hr a
  have := h a [] (.call f n :: rest) (by simpa [safe] using hr 0)
  simpa using this

/-- the code of a goal whose arguments are `h`, `t` (a list cell called as '.'/2) -/
theorem cell_safe (h t : Rep) (c : CState) :
    ∃ ops, (emit (compileBodyArg t (compileBodyArg h c)) (.call "." 2)).code = c.code ++ ops ∧
      c.vars.length ≤ (emit (compileBodyArg t (compileBodyArg h c)) (.call "." 2)).vars.length ∧
      ∀ nv, (emit (compileBodyArg t (compileBodyArg h c)) (.call "." 2)).vars.length ≤ nv → BodySeg nv ops := by
  rw [compileBodyArg_eq h, compileBodyArg_eq t]
  obtain ⟨ops1, hcode1, hlen1, hs1⟩ := compileArg_safe false h c
  obtain ⟨ops2, hcode2, hlen2, hs2⟩ := compileArg_safe false t (compileArg false h c)
  refine ⟨(ops1 ++ ops2) ++ [.call "." 2], by simp [hcode1, hcode2], by simp only [emit_vars]; omega, ?_⟩
  intro nv hnv
  simp only [emit_vars] at hnv
  exact BodySeg_call "." 2 (ArgSeg_append (hs1 nv (by omega)) (hs2 nv hnv))

theorem var_goal_safe (v : Nat) (c : CState) :
    ∃ ops, (emit (compileBodyArg (.var v) c) (.call "call" 1)).code = c.code ++ ops ∧
      c.vars.length ≤ (emit (compileBodyArg (.var v) c) (.call "call" 1)).vars.length ∧
      ∀ nv, (emit (compileBodyArg (.var v) c) (.call "call" 1)).vars.length ≤ nv → BodySeg nv ops := by
  rw [compileBodyArg_eq]
  obtain ⟨ops1, hcode1, hlen1, hs1⟩ := compileArg_safe false (.var v) c
  exact ⟨ops1 ++ [.call "call" 1], by simp [hcode1], by simpa using hlen1,
    fun nv hnv => BodySeg_call "call" 1 (hs1 nv (by simpa using hnv))⟩

theorem compound_goal_safe (f : String) (args : RepList) (c : CState) :
    ∃ ops, (emit (compileBodyArgs args c) (.call f args.length)).code = c.code ++ ops ∧
      c.vars.length ≤ (emit (compileBodyArgs args c) (.call f args.length)).vars.length ∧
      ∀ nv, (emit (compileBodyArgs args c) (.call f args.length)).vars.length ≤ nv → BodySeg nv ops := by
  rw [compileBodyArgs_eq]
  obtain ⟨ops1, hcode1, hlen1, hs1⟩ := compileArgs_safe false args c
  exact ⟨ops1 ++ [.call f args.length], by simp [hcode1], by simpa using hlen1,
    fun nv hnv => BodySeg_call f _ (hs1 nv (by simpa using hnv))⟩

theorem compilePred_safe (g : Rep) (c c' : CState) (h : compilePred g c = some c') :
    ∃ ops, c'.code = c.code ++ ops ∧ c.vars.length ≤ c'.vars.length ∧
      ∀ nv, c'.vars.length ≤ nv → BodySeg nv ops := by
  unfold compilePred at h
  split at h
  · cases h; exact var_goal_safe _ _
  · cases h
    exact ⟨[.cut], by simp, by simp, fun nv _ => BodySeg_cut nv⟩
  · rename_i s _
    cases h
    exact ⟨[] ++ [.call s 0], by simp, by simp, fun nv _ => BodySeg_call s 0 (ArgSeg_nil false nv)⟩
  · cases h; exact compound_goal_safe _ _ _
  all_goals first
    | cases h; done
    | (split at h
       · cases h; exact cell_safe _ _ _
       · cases h)

theorem goals_safe : ∀ (gs : List Rep) (c c' : CState),
    gs.foldl (fun oc g => oc.bind (compilePred g)) (some c) = some c' →
    ∃ ops, c'.code = c.code ++ ops ∧ c.vars.length ≤ c'.vars.length ∧
      ∀ nv, c'.vars.length ≤ nv → BodySeg nv ops
  | [], c, c', h => by
    simp only [List.foldl, Option.some.injEq] at h
    subst h
    exact ⟨[], by simp, Nat.le_refl _, fun nv _ => BodySeg_nil nv⟩
  | g :: gs, c, c', h => by
    simp only [List.foldl, Option.bind_some] at h
    cases h1 : compilePred g c with
    | none =>
      rw [h1] at h
      have : ∀ gs : List Rep, gs.foldl (fun oc g => oc.bind (compilePred g)) (none : Option CState) = none := by
        intro gs; induction gs with
        | nil => rfl
        | cons g gs ih => simpa using ih
      rw [this] at h; cases h
    | some c1 =>
      rw [h1] at h
      obtain ⟨ops1, hc1, hl1, hs1⟩ := compilePred_safe g c c1 h1
      obtain ⟨ops2, hc2, hl2, hs2⟩ := goals_safe gs c1 c' h
      exact ⟨ops1 ++ ops2, by simp [hc2, hc1], by omega,
        fun nv hnv => BodySeg_append (hs1 nv (by omega)) (hs2 nv hnv)⟩

theorem compileBody_safe (body : Rep) (c c' : CState) (h : compileBody body c = some c') :
    ∃ ops, c'.code = c.code ++ ops ∧ c.vars.length ≤ c'.vars.length ∧
      ∀ nv, c'.vars.length ≤ nv → BodySeg nv ops := by
  obtain ⟨ops, hc, hl, hs⟩ := goals_safe (seqGoals body) (emit c .enter) c' h
  exact ⟨[.enter] ++ ops, by simp [hc], by simpa using hl,
    fun nv hnv => BodySeg_append (BodySeg_enter nv) (hs nv hnv)⟩

/-! ## heads, clauses -/

theorem compileHead_safe (head : Rep) (c : CState) :
    ∃ ops, (compileHead head c).2.2.code = c.code ++ ops ∧
      c.vars.length ≤ (compileHead head c).2.2.vars.length ∧
      ∀ nv, (compileHead head c).2.2.vars.length ≤ nv → ArgSeg true nv ops (compileHead head c).2.1 := by
  have triv : ∀ (f : String), ∃ ops, ((f, 0, c) : String × Nat × CState).2.2.code = c.code ++ ops ∧
      c.vars.length ≤ ((f, 0, c) : String × Nat × CState).2.2.vars.length ∧
      ∀ nv, ((f, 0, c) : String × Nat × CState).2.2.vars.length ≤ nv →
        ArgSeg true nv ops ((f, 0, c) : String × Nat × CState).2.1 :=
    fun f => ⟨[], by simp, Nat.le_refl _, fun nv _ => ArgSeg_nil true nv⟩
  unfold compileHead
  split
  · exact triv _
  · simp only
    rw [compileHeadArgs_eq]
    exact compileArgs_safe true _ _
  · exact triv _
  · exact triv _
  · exact triv _
  · exact triv _
  · split
    · rename_i h t _ _
      simp only
      rw [compileHeadArg_eq h, compileHeadArg_eq t]
      obtain ⟨ops1, hcode1, hlen1, hs1⟩ := compileArg_safe true h c
      obtain ⟨ops2, hcode2, hlen2, hs2⟩ := compileArg_safe true t (compileArg true h c)
      exact ⟨ops1 ++ ops2, by simp [hcode1, hcode2], by omega,
        fun nv hnv => ArgSeg_append (hs1 nv (by omega)) (hs2 nv hnv)⟩
    · exact triv _

/-- name and arity come from the head alone; the code is safe when entered with `arity` arguments -/
theorem compileClause_safe (head : Rep) (body : Option Rep) (f : String) (n : Nat) (c : CState)
    (h : compileClause head body = some (f, n, c)) :
    f = (compileHead head {}).1 ∧ n = (compileHead head {}).2.1 ∧
      safe c.code c.vars.length n [] = true := by
  obtain ⟨hops, hcode, _, hs⟩ := compileHead_safe head {}
  unfold compileClause at h
  rcases hh : compileHead head {} with ⟨f0, n0, c0⟩
  rw [hh] at h hcode hs
  simp only at h hcode hs
  cases body with
  | none =>
    simp only [Option.some.injEq, Prod.mk.injEq] at h
    obtain ⟨rfl, rfl, rfl⟩ := h
    refine ⟨rfl, rfl, ?_⟩
    have := hs c0.vars.length (Nat.le_refl _) 0 [] [.exit] (by simp [safe])
    simpa [hcode] using this
  | some b =>
    simp only [Option.map_eq_some_iff, Prod.mk.injEq] at h
    obtain ⟨c1, hb, rfl, rfl, rfl⟩ := h
    refine ⟨rfl, rfl, ?_⟩
    obtain ⟨bops, hbcode, hblen, hbs⟩ := compileBody_safe b c0 c1 hb
    have h1 : ∀ a, safe (bops ++ [.exit]) c1.vars.length a [] = true :=
      hbs c1.vars.length (Nat.le_refl _) [.exit] (by simp [safe])
    have := hs c1.vars.length hblen 0 [] (bops ++ [.exit]) (h1 0)
    simpa [hbcode, hcode] using this

/-! ## `compile` -/

/-- the head of the clause term as `compile` sees it -/
def headOf : Rep → Rep
  | .compound ":-" (.cons head (.cons _ .nil)) => head
  | t => t

/-- what `compile` guarantees of every clause it returns -/
def Emitted (r : Rep) (c : Clause) : Prop :=
  ClauseOK c ∧ c.name = (compileHead (headOf r) {}).1 ∧ c.arity = (compileHead (headOf r) {}).2.1

theorem altStep_fold_inv (head : Rep) (raw err : Term) (Q : Clause → Prop)
    (hQ : ∀ alt f n c, compileClause head (some alt) = some (f, n, c) →
      Q { name := f, arity := n, raw := raw, vars := c.vars, code := c.code }) :
    ∀ (alts : List Rep) (acc : Except Term (List Clause)), (∀ cs, acc = .ok cs → ∀ c ∈ cs, Q c) →
      ∀ cs, alts.foldl (altStep head raw err) acc = .ok cs → ∀ c ∈ cs, Q c
  | [], acc, hacc, cs, hcs => hacc cs hcs
  | alt :: alts, acc, hacc, cs, hcs => by
    simp only [List.foldl] at hcs
    refine altStep_fold_inv head raw err Q hQ alts _ ?_ cs hcs
    intro cs1 h1 c hc
    unfold altStep at h1
    split at h1
    · cases h1
    · rename_i cs0
      split at h1
      · cases h1
      · rename_i f n cc hcl
        cases h1
        rcases List.mem_append.1 hc with hc | hc
        · exact hacc cs0 rfl c hc
        · simp only [List.mem_singleton] at hc
          subst hc
          exact hQ alt f n cc hcl

theorem compile_emitted (r : Rep) (cs : List Clause) (h : compile r = .ok cs) : ∀ c ∈ cs, Emitted r c := by
  by_cases hr : ∃ head body, r = .compound ":-" (.cons head (.cons body .nil))
  · obtain ⟨head, body, rfl⟩ := hr
    rw [compile_rule_eq] at h
    refine altStep_fold_inv head _ _ _ ?_ (altBodies body) (.ok []) ?_ cs h
    · intro alt f n cc hcl
      obtain ⟨e1, e2, e3⟩ := compileClause_safe head (some alt) f n cc hcl
      exact ⟨e3, e1, e2⟩
    · intro cs h; cases h; simp
  · have hh : headOf r = r := by
      unfold headOf
      split
      · rename_i head body; exact absurd ⟨head, body, rfl⟩ hr
      · rfl
    unfold compile at h
    split at h
    · rename_i head body; exact absurd ⟨head, body, rfl⟩ hr
    · split at h
      · cases h
      · rename_i f n cc hcl
        cases h
        intro c hc
        simp only [List.mem_singleton] at hc
        subst hc
        obtain ⟨e1, e2, e3⟩ := compileClause_safe r none f n cc hcl
        rw [Emitted, hh]
        exact ⟨e3, e1, e2⟩

end PrologVerif.ExecSafe
