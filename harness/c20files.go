package main

// C20, stream c20.files: HISTORIES of file loads (consult/1 queries, Exec of texts with ensure_loaded/1,
// consult/1, include/1 directives, files that load files, recursive and mutual loads, one file under two
// spellings) in ONE interpreter over a file system (fstest.MapFS assigned to Interpreter.FS) whose files
// are broken, repaired, changed and removed between the steps.  Case format: see
// lean/PrologVerif/Driver/C20.lean.  After every load step: the result of the load and the listing of
// all user predicates.

import (
	"context"
	"fmt"
	"math/rand"
	"sort"
	"strings"
	"testing/fstest"

	"github.com/ichiban/prolog/engine"
)

func init() {
	register(&stream{name: "c20.files", gen: genC20Files, run: runC20Files})
}

// ---------------------------------------------------------------------------------------------
// generator
// ---------------------------------------------------------------------------------------------

var c20fileNames = []string{"lib", "util", "main"}

// what a file may do besides defining its own predicate
type c20fileOpts struct {
	version int    // the clauses are name(vN_1), name(vN_2), ...: a changed file is visible in the listing
	n       int    // number of own clauses
	loads   []*gt_c09 // directives (ensure_loaded / consult / include / initialization(consult)) ...
	at      []int  // ... and their positions among the clauses
	fault   string // "" or a fault kind ...
	faultAt int    // ... inserted at this item position
}

func c20fileFault(kind, pred string) (c20item, bool) {
	switch kind {
	case "syn":
		return c20item{kind: 'x', sub: "paren"}, true
	case "tok":
		return c20item{kind: 'x', sub: "tok"}, true
	case "num":
		return c20item{kind: 't', t: gi(3)}, true
	case "nbody":
		return c20item{kind: 't', t: grule(ga("zz"), gi(3))}, true
	case "dfail":
		return c20directive(ga("fail")), true
	case "dthrow":
		return c20directive(gc("throw", ga("oops"))), true
	case "ifail": // fails AFTER the commit
		return c20directive(gc("initialization", ga("fail"))), true
	case "nofile":
		return c20directive(gc("ensure_loaded", ga("no_such_file"))), true
	case "stray": // a clause of another predicate in the middle: the file's own predicate becomes discontiguous
		return c20item{kind: 't', t: gc("stray_"+pred, gi(0))}, true
	}
	return c20item{}, false
}

var c20fileFaultKinds = []string{"syn", "tok", "num", "nbody", "dfail", "dthrow", "ifail", "nofile", "stray"}

func c20fileItems(name string, o c20fileOpts) []c20item {
	var items []c20item
	for i := 0; i < o.n; i++ {
		for j, p := range o.at {
			if p == i {
				items = append(items, c20directive(o.loads[j]))
			}
		}
		items = append(items, c20item{kind: 't', t: gc(name, ga(fmt.Sprintf("v%d_%d", o.version, i+1)))})
	}
	for j, p := range o.at {
		if p >= o.n {
			items = append(items, c20directive(o.loads[j]))
		}
	}
	if f, ok := c20fileFault(o.fault, name); ok {
		pos := o.faultAt
		if pos > len(items) {
			pos = len(items)
		}
		items = append(append(append([]c20item(nil), items[:pos]...), f), items[pos:]...)
	}
	return items
}

func c20w(file string, items []c20item) string {
	return "w " + file + " = " + c20itemsPayload(items)
}

func c20q(arg *gt_c09) string { return "q " + arg.wire() }

// include/1 has no guard against cycles in the engine (a file that includes itself recurses until the Go
// stack overflows and the process dies — C05's subject): only main and texts that are not files include,
// and only lib or util, which never include.
func c20loadDirective(r *rand.Rand, target string, mayInclude bool) *gt_c09 {
	k := r.Intn(8)
	if k == 7 && (!mayInclude || target == "main") {
		k = 0
	}
	switch k {
	case 0, 1, 2:
		return gc("ensure_loaded", ga(target))
	case 3, 4:
		return gc("consult", ga(target))
	case 5:
		return gc("consult", gtList(ga(target), ga(pick(r, c20fileNames))))
	case 6:
		return gc("initialization", gc("consult", ga(target)))
	default:
		return gc("include", ga(target))
	}
}

// a random history
func genC20FilesRandom(r *rand.Rand) string {
	version := map[string]int{}
	fileOf := func(name string, broken bool) []c20item {
		version[name]++
		o := c20fileOpts{version: version[name], n: 1 + r.Intn(3)}
		if r.Intn(3) == 0 {
			other := pick(r, c20fileNames)
			o.loads = append(o.loads, c20loadDirective(r, other, name == "main"))
			// between the clauses it splits the run (a fault of its own); mostly in front or behind
			if r.Intn(5) == 0 {
				o.at = append(o.at, r.Intn(o.n+1))
			} else {
				o.at = append(o.at, pick(r, []int{0, o.n}))
			}
		}
		if broken {
			o.fault = pick(r, c20fileFaultKinds)
			o.faultAt = r.Intn(o.n + 2)
		}
		return c20fileItems(name, o)
	}
	path := func(name string) string {
		if r.Intn(12) == 0 {
			return name // a file without extension: `lib` finds it before lib.pl
		}
		return name + ".pl"
	}
	spelling := func(name string) *gt_c09 {
		if r.Intn(4) == 0 {
			return ga(name + ".pl")
		}
		return ga(name)
	}
	var steps []string
	for _, n := range c20fileNames[:2+r.Intn(2)] {
		steps = append(steps, c20w(path(n), fileOf(n, r.Intn(3) == 0)))
	}
	last := pick(r, c20fileNames)
	for i, k := 0, 3+r.Intn(6); i < k; i++ {
		name := last
		if r.Intn(3) == 0 {
			name = pick(r, c20fileNames)
		}
		last = name
		switch c := r.Intn(20); {
		case c < 8:
			steps = append(steps, c20q(spelling(name)))
		case c < 10:
			steps = append(steps, c20q(gtList(spelling(name), spelling(pick(r, c20fileNames)))))
		case c < 11:
			steps = append(steps, c20q(pick(r, []*gt_c09{gv(0), gi(3), ga("no_such_file"), ga("[]"),
				gc(".", ga(name), gv(1))})))
		case c < 14:
			// a text that is not a file and loads files
			items := []c20item{{kind: 't', t: gc("top", gi(int64(i)))}}
			d := c20directive(c20loadDirective(r, name, true))
			if r.Intn(2) == 0 {
				items = append([]c20item{d}, items...)
			} else {
				items = append(items, d)
			}
			if r.Intn(6) == 0 {
				f, _ := c20fileFault(pick(r, c20fileFaultKinds), "top")
				items = append(items, f)
			}
			steps = append(steps, "load "+c20itemsPayload(items))
		case c < 19:
			// break / repair / change the file
			steps = append(steps, c20w(path(name), fileOf(name, r.Intn(5) < 2)))
		default:
			steps = append(steps, "rm "+path(name))
		}
	}
	return strings.Join(steps, " // ")
}

// the systematic part: for every way a file can be loaded x every fault kind x every position of the
// fault in the inner and in the outer file:  load (fails) / load again (must fail again) / repair / load
// (must define the repaired text) / load again (no-op) / change / load (no-op: load-once).
func genC20FilesSystematic() []string {
	var out []string
	lib := func(v int, fault string, at int) []c20item {
		return c20fileItems("lib", c20fileOpts{version: v, n: 2, fault: fault, faultAt: at})
	}
	type scenario struct {
		name  string
		outer func(fault string, at int) []c20item // nil: lib is consulted directly
		top   *gt_c09
	}
	mainWith := func(d *gt_c09, pos int) func(string, int) []c20item {
		return func(fault string, at int) []c20item {
			return c20fileItems("main", c20fileOpts{version: 1, n: 2, loads: []*gt_c09{d}, at: []int{pos}, fault: fault, faultAt: at})
		}
	}
	scenarios := []scenario{
		{"direct", nil, ga("lib")},
		{"spelling", nil, ga("lib.pl")},
		{"ensure_first", mainWith(gc("ensure_loaded", ga("lib")), 0), ga("main")},
		{"ensure_last", mainWith(gc("ensure_loaded", ga("lib")), 2), ga("main")},
		{"consult_goal", mainWith(gc("consult", ga("lib")), 0), ga("main")},
		{"consult_list", mainWith(gc("consult", gtList(ga("lib"), ga("lib"))), 2), ga("main")},
		{"init_consult", mainWith(gc("initialization", gc("consult", ga("lib"))), 0), ga("main")},
		{"include", mainWith(gc("include", ga("lib")), 2), ga("main")},
	}
	for _, sc := range scenarios {
		for _, kind := range c20fileFaultKinds {
			for at := 0; at <= 2; at++ {
				// fault in the inner file (lib)
				var steps []string
				steps = append(steps, "load "+c20itemsPayload([]c20item{{kind: 't', t: gc("lib", ga("old"))}, {kind: 't', t: gc("other", ga("o"))}}))
				steps = append(steps, c20w("lib.pl", lib(1, kind, at)))
				if sc.outer != nil {
					steps = append(steps, c20w("main.pl", sc.outer("", 0)))
				}
				steps = append(steps, c20q(sc.top), c20q(sc.top))
				steps = append(steps, c20w("lib.pl", lib(2, "", 0)), c20q(sc.top), c20q(sc.top))
				steps = append(steps, c20w("lib.pl", lib(3, "", 0)), c20q(sc.top), c20q(ga("lib")))
				out = append(out, strings.Join(steps, " // ")+fmt.Sprintf(" @tag sc=%s where=inner kind=%s", sc.name, kind))
				if sc.outer == nil {
					continue
				}
				// fault in the outer file (main), lib is fine
				for _, at2 := range []int{at, at + 2} {
					steps = nil
					steps = append(steps, c20w("lib.pl", lib(1, "", 0)), c20w("main.pl", sc.outer(kind, at2)))
					steps = append(steps, c20q(sc.top), c20q(sc.top))
					steps = append(steps, c20w("main.pl", sc.outer("", 0)), c20w("lib.pl", lib(2, "", 0)), c20q(sc.top), c20q(sc.top), c20q(ga("lib")))
					out = append(out, strings.Join(steps, " // ")+fmt.Sprintf(" @tag sc=%s where=outer kind=%s", sc.name, kind))
				}
			}
		}
	}
	// recursive and mutual loads, with a failure at each end
	for _, kind := range append([]string{""}, c20fileFaultKinds...) {
		for _, where := range []string{"a", "b"} {
			fa, fb := "", ""
			if where == "a" {
				fa = kind
			} else {
				fb = kind
			}
			a := c20fileItems("lib", c20fileOpts{version: 1, n: 2, loads: []*gt_c09{gc("ensure_loaded", ga("lib")), gc("ensure_loaded", ga("util"))}, at: []int{0, 0}, fault: fa, faultAt: 4})
			b := c20fileItems("util", c20fileOpts{version: 1, n: 1, loads: []*gt_c09{gc("ensure_loaded", ga("lib"))}, at: []int{0}, fault: fb, faultAt: 2})
			steps := []string{c20w("lib.pl", a), c20w("util.pl", b), c20q(ga("lib")), c20q(ga("util")), c20q(ga("lib")),
				c20w("lib.pl", c20fileItems("lib", c20fileOpts{version: 2, n: 1})), c20w("util.pl", c20fileItems("util", c20fileOpts{version: 2, n: 1})),
				c20q(gtList(ga("lib"), ga("util"))), c20q(ga("util"))}
			out = append(out, strings.Join(steps, " // ")+fmt.Sprintf(" @tag sc=mutual where=%s kind=%s", where, kind))
		}
	}
	return out
}

// every history of at most 4 steps over a small alphabet
func genC20FilesExhaustive() []string {
	good := func(v int) []c20item { return c20fileItems("lib", c20fileOpts{version: v, n: 1}) }
	bad := c20fileItems("lib", c20fileOpts{version: 9, n: 1, fault: "syn", faultAt: 1})
	ifail := c20fileItems("lib", c20fileOpts{version: 8, n: 1, fault: "ifail", faultAt: 1})
	mainEns := c20fileItems("main", c20fileOpts{version: 1, n: 1, loads: []*gt_c09{gc("ensure_loaded", ga("lib"))}, at: []int{0}})
	alphabet := []string{
		c20w("lib.pl", good(1)), c20w("lib.pl", good(2)), c20w("lib.pl", bad), c20w("lib.pl", ifail), c20w("main.pl", mainEns),
		c20q(ga("lib")), c20q(ga("main")), c20q(gtList(ga("main"), ga("lib.pl"))), "rm lib.pl",
		"load " + c20itemsPayload([]c20item{c20directive(gc("ensure_loaded", ga("lib"))), {kind: 't', t: gc("m", gi(1))}}),
	}
	var out []string
	var rec func(prefix []string, depth int)
	rec = func(prefix []string, depth int) {
		if len(prefix) > 0 && !strings.HasPrefix(prefix[len(prefix)-1], "w ") && !strings.HasPrefix(prefix[len(prefix)-1], "rm ") {
			out = append(out, strings.Join(prefix, " // ")+" @tag sc=exhaustive")
		}
		if depth == 0 {
			return
		}
		for _, a := range alphabet {
			rec(append(append([]string(nil), prefix...), a), depth-1)
		}
	}
	rec(nil, 4)
	return out
}

func genC20Files(r *rand.Rand, n int, tier string) []string {
	out := genC20FilesSystematic()
	if tier == "thorough" {
		out = append(out, genC20FilesExhaustive()...)
	}
	for i := 0; i < n; i++ {
		out = append(out, genC20FilesRandom(r)+" @tag sc=random")
	}
	return out
}

// ---------------------------------------------------------------------------------------------
// runner
// ---------------------------------------------------------------------------------------------

func runC20Files(payload string) string {
	c20baselineOnce.Do(func() {
		c20baseline = map[string]bool{}
		i, _ := newInterp("")
		for _, p := range i.VM.VerifProcedures() {
			c20baseline[fmt.Sprintf("%s/%d", p.Name, p.Arity)] = true
		}
	})
	tags := ""
	if k := strings.Index(payload, " @tag "); k >= 0 {
		tags = payload[k+6:]
		payload = payload[:k]
	}
	i, _ := newInterp("")
	mfs := fstest.MapFS{}
	i.FS = mfs
	var out []string
	loads, failed, reloadAfterFail, reloadAfterOK := 0, 0, 0, 0
	lastResult := map[string]string{} // load target (as written) -> last result class
	note := func(target, res string) {
		loads++
		if prev, ok := lastResult[target]; ok {
			if prev == "ok" {
				reloadAfterOK++
			} else {
				reloadAfterFail++
			}
		}
		if res != "ok" {
			failed++
		}
		lastResult[target] = res
	}
	for _, st := range strings.Split(payload, " // ") {
		st = strings.TrimSpace(st)
		f := strings.SplitN(st, " ", 2)
		arg := ""
		if len(f) > 1 {
			arg = f[1]
		}
		switch f[0] {
		case "w":
			ne := strings.SplitN(arg, " =", 2)
			body := ""
			if len(ne) > 1 {
				body = ne[1]
			}
			text, _ := c20layout(c20parseItems(body))
			mfs[strings.TrimSpace(ne[0])] = &fstest.MapFile{Data: []byte(text)}
			out = append(out, "-")
		case "rm":
			delete(mfs, strings.TrimSpace(arg))
			out = append(out, "-")
		case "q":
			ts, err := newTermDecoder().terms(arg)
			must(err)
			ok, err := engine.Call(&i.VM, compound("consult", ts[0]), engine.Success, nil).Force(context.Background())
			res := c20result(err)
			if err == nil && !ok {
				res = "false"
			}
			note(strings.TrimSuffix(arg, ".pl"), strings.SplitN(res, " ", 2)[0])
			out = append(out, res+" "+c20listing(i))
		case "load":
			text, _ := c20layout(c20parseItems(arg))
			res := c20result(i.Exec(text))
			note("load "+arg, strings.SplitN(res, " ", 2)[0])
			out = append(out, res+" "+c20listing(i))
		default:
			panic("bad step " + st)
		}
	}
	nt := 0
	if reloadAfterFail+reloadAfterOK > 0 {
		nt = 1
	}
	tg := map[string]string{}
	for _, kv := range strings.Fields(tags) {
		if j := strings.IndexByte(kv, '='); j > 0 {
			tg[kv[:j]] = kv[j+1:]
		}
	}
	var extra []string
	for _, k := range []string{"sc", "where", "kind"} {
		if v, ok := tg[k]; ok {
			extra = append(extra, k+"="+v)
		}
	}
	sort.Strings(extra)
	b := func(n int) string {
		if n > 3 {
			return "4+"
		}
		return fmt.Sprint(n)
	}
	return strings.Join(out, " // ") + fmt.Sprintf(" ### nt=%d loads=%s failed=%s reload_after_fail=%s reload_after_ok=%s %s",
		nt, b(loads), b(failed), b(reloadAfterFail), b(reloadAfterOK), strings.Join(extra, " "))
}
