package main

// C18: histories of op/3 and current_op/3 against the operator table.

import (
	"bytes"
	"fmt"
	"math/rand"
	"sort"
	"strings"

	"github.com/ichiban/prolog"
	"github.com/ichiban/prolog/engine"
)

func init() {
	register(&stream{name: "c18.hist", gen: genC18, run: runC18})
}

var c18Names = []string{"foo", "bar", "baz", "|", ",", "[]", "{}", "+", "-", "=", "mod"}
var c18Pris = []int64{0, 0, 1, 200, 400, 700, 999, 1000, 1001, 1040, 1050, 1090, 1105, 1200, 1201, -1}
var c18Specs = []string{"fx", "fy", "xf", "yf", "xfx", "xfy", "yfx"}

func genC18Name(r *rand.Rand) engine.Term {
	if r.Intn(12) == 0 {
		switch r.Intn(4) {
		case 0:
			return engine.Integer(1)
		case 1:
			return engine.NewVariable()
		case 2:
			return compound("f", atom("a"))
		default:
			return engine.Float(1.5)
		}
	}
	if r.Intn(4) != 0 {
		return atom(pick(r, c18Names[:3]))
	}
	return atom(pick(r, c18Names))
}

func genC18Op(r *rand.Rand) string {
	var p, s, n engine.Term
	switch k := r.Intn(20); {
	case k == 0:
		p = engine.NewVariable()
	case k == 1:
		p = atom("high")
	case k == 2:
		p = engine.Float(200)
	default:
		p = engine.Integer(pick(r, c18Pris))
	}
	switch k := r.Intn(20); {
	case k == 0:
		s = engine.NewVariable()
	case k == 1:
		s = atom("yfy")
	case k == 2:
		s = engine.Integer(1)
	default:
		s = atom(pick(r, c18Specs))
	}
	switch k := r.Intn(10); {
	case k < 5:
		n = genC18Name(r)
	default:
		m := r.Intn(4)
		elems := make([]engine.Term, m)
		for i := range elems {
			elems[i] = genC18Name(r)
		}
		switch r.Intn(10) {
		case 0:
			n = engine.PartialList(engine.NewVariable(), elems...)
		case 1:
			n = engine.PartialList(atom("tail"), elems...)
		default:
			n = engine.List(elems...)
		}
	}
	return "op " + wireRaw(p) + " " + wireRaw(s) + " " + wireRaw(n)
}

func genC18Cur(r *rand.Rand) string {
	var p, s, n engine.Term = engine.NewVariable(), engine.NewVariable(), engine.NewVariable()
	if r.Intn(2) == 0 {
		switch r.Intn(8) {
		case 0:
			p = atom("x")
		case 1:
			p = engine.Integer(1201)
		default:
			p = engine.Integer(pick(r, c18Pris))
		}
	}
	if r.Intn(2) == 0 {
		switch r.Intn(8) {
		case 0:
			s = atom("yfy")
		case 1:
			s = engine.Integer(3)
		default:
			s = atom(pick(r, c18Specs))
		}
	}
	if r.Intn(2) == 0 {
		switch r.Intn(8) {
		case 0:
			n = engine.Integer(3)
		case 1:
			n = compound("f", atom("a"))
		default:
			n = atom(pick(r, c18Names))
		}
	}
	return "cur " + wireRaw(p) + " " + wireRaw(s) + " " + wireRaw(n)
}

func genC18(r *rand.Rand, n int, tier string) []string {
	var out []string
	for i := 0; i < n; i++ {
		k := 1 + r.Intn(8)
		ops := make([]string, k)
		for j := range ops {
			switch r.Intn(5) {
			case 4:
				// an enumeration of the whole table with an update made between its first and its second
				// solution: the answers are the table AT CALL TIME (ISO 8.14.4.1)
				ops[j] = "cm" + strings.TrimPrefix(genC18Op(r), "op")
			case 0:
				ops[j] = genC18Cur(r)
			case 1:
				if r.Intn(3) == 0 {
					// terms around '|' and '->' written and read back under the table as it is now
					ops[j] = "rt Ax"
					if r.Intn(2) == 0 {
						// ... right after '|' was given a priority of its own choice (1001..1200 are legal)
						ops[j] = "op " + wireRaw(engine.Integer(pick(r, []int64{1001, 1040, 1049, 1050, 1051, 1090, 1099, 1100, 1150, 1200}))) + " " +
							wireRaw(atom(pick(r, []string{"xfx", "xfy", "yfx"}))) + " " + wireRaw(atom("|")) + " ; rt Ax"
					}
				} else {
					ops[j] = "probe A" + encName(pick(r, []string{"foo", "bar", "baz", "mod"}))
				}
			default:
				ops[j] = genC18Op(r)
			}
		}
		out = append(out, strings.Join(ops, " ; "))
	}
	return out
}

// dumpOps lists the whole table through current_op(P, S, N), sorted.
func dumpOps(vm *engine.VM, p, s, n engine.Term) (string, error) {
	tmpl := compound("t", p, s, n)
	rows, err := solveAll(vm, compound("current_op", p, s, n), tmpl, 1<<20)
	if err != nil {
		return "", err
	}
	sort.Strings(rows)
	return "[" + strings.Join(rows, ", ") + "]", nil
}

func runC18(payload string) string {
	i, _ := newInterp("")
	var res []string
	okOps, errOps := 0, 0
	for _, opText := range strings.Split(payload, " ; ") {
		f := strings.SplitN(strings.TrimSpace(opText), " ", 2)
		d := newTermDecoder()
		switch f[0] {
		case "op":
			ts, err := d.terms(f[1])
			must(err)
			r := solveOnce(&i.VM, c18OpGoal(ts, opText))
			if r == "true" {
				okOps++
			} else {
				errOps++
			}
			res = append(res, r)
		case "cm":
			ts, err := d.terms(f[1])
			must(err)
			sols, err := i.Query("current_op(P, T, N).")
			must(err)
			var rows []string
			first := true
			opRes := "notrun"
			for sols.Next() {
				var row struct {
					P int
					T string
					N string
				}
				must(sols.Scan(&row))
				rows = append(rows, wireRaw(compound("t", engine.Integer(row.P), atom(row.T), atom(row.N))))
				if first {
					first = false
					opRes = solveOnce(&i.VM, c18OpGoal(ts, opText))
					if opRes == "true" {
						okOps++
					} else {
						errOps++
					}
				}
			}
			_ = sols.Close()
			sort.Strings(rows)
			res = append(res, "ans ["+strings.Join(rows, ", ")+"] / "+opRes)
		case "cur":
			ts, err := d.terms(f[1])
			must(err)
			rows, err := dumpOps(&i.VM, ts[0], ts[1], ts[2])
			if err != nil {
				res = append(res, errWire(err))
			} else {
				res = append(res, "ans "+rows)
			}
		case "rt":
			// what the writer produces under the CURRENT table, the reader must turn back into the same term
			// (reader and writer consult one table: the one op/3 maintains)
			a, b, c := atom("a"), atom("b"), atom("c")
			var rs []string
			for _, t := range []engine.Term{
				compound("->", a, compound("|", b, c)), compound("|", compound("->", a, b), c),
				compound("|", a, compound("|", b, c)), compound("|", compound("|", a, b), c),
				compound(":-", a, compound("|", b, c)), compound("|", compound(",", a, b), c),
				compound("f", compound("|", a, b)), engine.List(compound("|", a, b)),
				compound("foo", a, compound("|", b, c)), compound("|", compound("bar", a), c),
			} {
				rs = append(rs, c18RoundTrip(i, t))
			}
			res = append(res, "rt "+strings.Join(rs, " "))
		case "probe":
			// does the reader / the writer use the table?  name is an alphanumeric atom.
			ts, err := d.terms(f[1])
			must(err)
			name := ts[0].(engine.Atom).String()
			res = append(res, fmt.Sprintf("probe %s %s %s %s",
				// functional notation: the probe text itself must not depend on any operator
				// (a history may remove '=' from the table)
				readProbe(i, "'='(X, (a "+name+" b))"),
				readProbe(i, "'='(X, ("+name+" a))"),
				readProbe(i, "'='(X, (a "+name+"))"),
				writeProbe(i, name)))
		default:
			panic("bad op " + f[0])
		}
	}
	rows, err := dumpOps(&i.VM, engine.NewVariable(), engine.NewVariable(), engine.NewVariable())
	must(err)
	res = append(res, "tbl "+rows)
	nt := 0
	if okOps >= 2 || (okOps >= 1 && errOps >= 1) {
		nt = 1
	}
	return strings.Join(res, " ; ") + fmt.Sprintf(" ### nt=%d ok_ops=%d err_ops=%d", nt, okOps, errOps)
}

// c18OpGoal: op(P, S, Names) — in half of the cases (drawn from the text of the operation) the atoms of a
// list of names are reached through variables bound by earlier goals of the same conjunction.
func c18OpGoal(ts []engine.Term, opText string) engine.Term {
	goal := compound("op", ts...)
	h := 0
	for _, c := range []byte(opText) {
		h = (h*31 + int(c)) % 1000003
	}
	if h%2 == 0 {
		return goal
	}
	var elems []engine.Term
	it := engine.ListIterator{List: ts[2]}
	for it.Next() {
		elems = append(elems, it.Current())
	}
	if it.Err() != nil || len(elems) == 0 {
		return goal
	}
	var binds []engine.Term
	for k, e := range elems {
		if _, ok := e.(engine.Atom); ok && (h>>uint(k+1))%2 == 0 {
			v := engine.NewVariable()
			binds = append(binds, compound("=", v, e))
			elems[k] = v
		}
	}
	goal = compound("op", ts[0], ts[1], engine.List(elems...))
	for k := len(binds) - 1; k >= 0; k-- {
		goal = compound(",", binds[k], goal)
	}
	return goal
}

func c18RoundTrip(i *prolog.Interpreter, t engine.Term) string {
	var buf bytes.Buffer
	i.SetUserOutput(engine.NewOutputTextStream(&buf))
	if r := solveOnce(&i.VM, compound("writeq", t)); r != "true" {
		return "writeerr"
	}
	text := buf.String()
	back, err := engine.NewParser(&i.VM, strings.NewReader(text+" .")).Term()
	if err != nil {
		return "synerr(" + encName(text) + ")"
	}
	if solveOnce(&i.VM, compound("==", t, back)) != "true" {
		return "differ(" + encName(text) + ")"
	}
	return "same"
}
