/-
  C02 — unification yields a most general unifier, whatever the term representation.

  Subject: `Model/Unify.lean` (engine/env.go `Resolve`, `unify`, `contains`), `Model/Env.lean`
  (the persistent red-black tree, shown to refine the map the former works on) and
  `Model/Rep.lean` (the Go encodings of compounds behind the `Compound` interface).
  Fuel: every theorem says "for all fuel, if the run finishes within the fuel then …".
-/
import PrologVerif.Proofs.UnifyOC
import PrologVerif.Proofs.Env
import PrologVerif.Proofs.Rep
namespace PrologVerif.C02
open PrologVerif

/-- **C02_unify_preserves_solutions** (checked and unchecked, no acyclicity assumed).
    Success: the solutions of the new environment are exactly the solutions of the old one that
    unify `x` and `y` — ⊆ is soundness, ⊇ is most-generality in equational form (no unifier
    compatible with `e` is lost).  Failure: no solution of `e` unifies `x` and `y`. -/
theorem C02_unify_preserves_solutions (n : Nat) (oc : Bool) (e : Env) (x y : Term) (e' : Env) (r : Res)
    (h : unify n oc e x y = some (e', r)) :
    (r = .ok → ∀ θ, Sol e' θ ↔ (Sol e θ ∧ Unifies θ x y)) ∧
    (r ≠ .ok → ∀ θ, Sol e θ → ¬ Unifies θ x y) := by
  have hs := unify_spec n oc e x y e' r h
  constructor
  · rintro rfl; exact hs
  · intro hr
    cases r with
    | ok => exact absurd rfl hr
    | clash => exact hs
    | occurs => exact hs

/-- soundness: after success every solution of the new environment unifies the two terms and
    respects all earlier bindings -/
theorem C02_unify_sound (n : Nat) (oc : Bool) (e : Env) (x y : Term) (e' : Env)
    (h : unify n oc e x y = some (e', .ok)) (θ : Subst) (hθ : Sol e' θ) :
    Unifies θ x y ∧ Sol e θ := by
  have := (C02_unify_preserves_solutions n oc e x y e' .ok h).1 rfl θ
  exact ⟨(this.mp hθ).2, (this.mp hθ).1⟩

/-- =/2 (and unify_with_occurs_check/2) fail only if the terms are not unifiable: failure means NO
    substitution into finite terms that respects `e` unifies them; for `occurs` this is the
    "fails when the unifier would be infinite" clause of the property -/
theorem C02_failure_iff_not_unifiable (n : Nat) (oc : Bool) (e : Env) (x y : Term) (e' : Env) (r : Res)
    (h : unify n oc e x y = some (e', r)) (hr : r ≠ .ok) :
    ¬ ∃ θ, Sol e θ ∧ Unifies θ x y := by
  rintro ⟨θ, hs, hu⟩
  exact (C02_unify_preserves_solutions n oc e x y e' r h).2 hr θ hs hu

/-- the outcome does not depend on the order of the arguments: both runs leave the same solution set -/
theorem C02_unify_symm (n m : Nat) (oc : Bool) (e : Env) (x y : Term) (e1 e2 : Env)
    (h1 : unify n oc e x y = some (e1, .ok)) (h2 : unify m oc e y x = some (e2, .ok)) :
    ∀ θ, Sol e1 θ ↔ Sol e2 θ := by
  intro θ
  rw [(C02_unify_preserves_solutions n oc e x y e1 .ok h1).1 rfl θ,
      (C02_unify_preserves_solutions m oc e y x e2 .ok h2).1 rfl θ]
  constructor <;> rintro ⟨a, b⟩ <;> exact ⟨a, b.symm⟩

/-- **C02_unify_oc_mgu** (classical form).  If the environment has an idempotent most general
    solution (true of the empty environment and preserved by every checked unification), then after
    a successful checked unification the new environment has one too, σ'; σ' unifies `x` and `y`,
    and EVERY unifier θ of `x`,`y` compatible with `e` is an instance of it: θ = θ ∘ σ'. -/
theorem C02_unify_oc_mgu (n : Nat) (e : Env) (x y : Term) (e' : Env) (σ : Subst) (hσ : IsMGU e σ)
    (h : unify n true e x y = some (e', .ok)) :
    ∃ σ', IsMGU e' σ' ∧ Unifies σ' x y ∧
      ∀ θ, Sol e θ → Unifies θ x y → ∀ v, θ v = (σ' v).subst θ := by
  obtain ⟨σ', hσ'⟩ := unify_oc_mgu n e x y e' .ok h ⟨σ, hσ⟩
  have hsp := (C02_unify_preserves_solutions n true e x y e' .ok h).1 rfl
  refine ⟨σ', hσ', ((hsp σ').mp hσ'.sol).2, ?_⟩
  intro θ hs hu v
  exact hσ'.general θ ((hsp θ).mpr ⟨hs, hu⟩) v

/-- checked unification succeeds iff a (finite) unifier exists -/
theorem C02_unify_oc_succeeds_iff_unifiable (n : Nat) (e : Env) (x y : Term) (e' : Env) (r : Res)
    (σ : Subst) (hσ : IsMGU e σ) (h : unify n true e x y = some (e', r)) :
    r = .ok ↔ ∃ θ, Sol e θ ∧ Unifies θ x y := by
  constructor
  · rintro rfl
    obtain ⟨σ', hσ', hu, _⟩ := C02_unify_oc_mgu n e x y e' σ hσ h
    exact ⟨σ', (C02_unify_sound n true e x y e' h σ' hσ'.sol).2, hu⟩
  · intro hex
    cases hr : r with
    | ok => rfl
    | clash => exact absurd hex (C02_failure_iff_not_unifiable n true e x y e' r h (by simp [hr]))
    | occurs => exact absurd hex (C02_failure_iff_not_unifiable n true e x y e' r h (by simp [hr]))

/-- **C02_nsto_agrees**: on pairs not subject to occurs check (the checked run never answers
    "occurs") =/2 and unify_with_occurs_check/2 take the same steps: same bindings, same outcome.
    Hence on NSTO pairs =/2 computes the most general unifier of `C02_unify_oc_mgu`. -/
theorem C02_nsto_agrees (n : Nat) (e : Env) (x y : Term) (e' : Env) (r : Res)
    (h : unify n true e x y = some (e', r)) (hr : r ≠ .occurs) :
    unify n false e x y = some (e', r) :=
  unify_oc_agrees n e x y e' r h hr

/-- **C02_identical_after_success**: after a successful (checked, or unchecked NSTO) unification
    the two terms are identical once the bindings are applied — what `==`/`compare/3` and the
    answer substitution observe -/
theorem C02_identical_after_success (n k k' : Nat) (e : Env) (x y : Term) (e' : Env) (σ : Subst)
    (hσ : IsMGU e σ) (h : unify n true e x y = some (e', .ok)) (tx ty : Term)
    (hx : applyAll k e' x = some tx) (hy : applyAll k' e' y = some ty) : tx = ty := by
  obtain ⟨σ', hσ', hu, _⟩ := C02_unify_oc_mgu n e x y e' σ hσ h
  rw [applyAll_eq_subst hσ' k x tx hx, applyAll_eq_subst hσ' k' y ty hy]
  exact hu

/-! ### the environment: the persistent red-black tree refines a finite map -/

/-- **C02_rbenv_refines_map**: on every environment value the Go code can hold (nil or an ordered
    tree — `Wf`), `bind` followed by `lookup` is a finite-map update, and `bind` keeps the invariant.
    Persistence of older versions is this theorem applied to the old (immutable) value. -/
theorem C02_rbenv_refines_map (e : RBEnv) (v : Int) (t : Term) (h : RBEnv.Wf e) :
    RBEnv.Wf (e.bind v t) ∧ ∀ w, (e.bind v t).lookup w = if w = v then some t else e.lookup w :=
  ⟨RBEnv.wf_bind e v t h, RBEnv.lookup_bind e v t h⟩

theorem C02_rbenv_nil_wf : RBEnv.Wf RBEnv.nil := RBEnv.wf_nil

/-- the key transformation `newEnvKey` never identifies two variables -/
theorem C02_newEnvKey_injective (a b : Int) (h : RBEnv.newEnvKey a = RBEnv.newEnvKey b) : a = b :=
  RBEnv.newEnvKey_injective a b h

/-- rebalancing never changes the contents (in-order list of bindings) -/
theorem C02_balance_keeps_contents (t : RBEnv) : RBEnv.toList (RBEnv.balance t) = RBEnv.toList t :=
  RBEnv.toList_balance t

/-! ### representation independence: every Go encoding is faithful to its abstract term -/

theorem C02_rep_faithful_compound (f : String) (args : RepList) : Rep.Faithful (.compound f args) :=
  Rep.faithful_compound f args
theorem C02_rep_faithful_list (h : Rep) (t : RepList) : Rep.Faithful (.list (.cons h t)) :=
  Rep.faithful_list h t
theorem C02_rep_faithful_charList (c : Char) (cs : List Char) : Rep.Faithful (.charList (c :: cs)) :=
  Rep.faithful_charList c cs
theorem C02_rep_faithful_codeList (c : Char) (cs : List Char) : Rep.Faithful (.codeList (c :: cs)) :=
  Rep.faithful_codeList c cs
/-- `*partial` (what `append/3`'s fast path and `[H|T]` notation build) over any faithful list cell -/
theorem C02_rep_faithful_partial (pre tail : Rep) (hp : Rep.Faithful pre)
    (hdot : Rep.functor pre = some "." ∧ Rep.arity pre = 2)
    (htl : ∀ p1, Rep.arg pre 1 = some p1 → p1 = .atom "[]" ∨ (Rep.functor p1).isSome = true) :
    Rep.Faithful (.part pre tail) :=
  Rep.faithful_part pre tail hp hdot htl

/-! ### non-vacuity -/

-- f(X, b) = f(a, Y) succeeds, binding X ↦ a, Y ↦ b
example : unify 10 false [] (.app "f" (.cons (.var 0) (.cons (.atom "b") .nil)))
    (.app "f" (.cons (.atom "a") (.cons (.var 1) .nil))) =
    some ([(1, .atom "b"), (0, .atom "a")], .ok) := by decide +kernel
-- X = f(X): unchecked succeeds with a cyclic binding (no finite solution), checked answers `occurs`
example : unify 10 true [] (.var 0) (.app "f" (.cons (.var 0) .nil)) = some ([], .occurs) := by decide +kernel
example : unify 10 false [] (.var 0) (.app "f" (.cons (.var 0) .nil)) =
    some ([(0, .app "f" (.cons (.var 0) .nil))], .ok) := by decide +kernel
example : IsMGU [] (fun v => .var v) := isMGU_empty
-- "ab" as charList and as partial-over-charList with tail [] denote the same abstract list
example : Rep.abs (.charList ['a', 'b']) = Rep.abs (.part (.charList ['a', 'b']) (.atom "[]")) := by decide +kernel
example : Rep.abs (.charList ['a', 'b']) = Rep.abs (.list (.cons (.atom "a") (.cons (.atom "b") .nil))) := by decide +kernel

end PrologVerif.C02
