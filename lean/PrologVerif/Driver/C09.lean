/-
  Stream c09.hist: histories of database updates interleaved with open calls / open retracts.

  A case is a list of commands run on ONE interpreter (payload, " ; "-separated):
    az <clause> | aa <clause>      assertz / asserta (one-shot)
    ab <pi>                        abolish
    ra <head>                      retractall
    oc <k> <goal> | or <k> <pat>   declare iterator k (an open call / an open retract); the goal is
                                   started by the first `nx k` (as with `Solutions`)
    nx <k>                         next solution of iterator k
    cl <k>                         close iterator k
    ls                             listing of the predicate universe
    nest <template> & <goal> & …   findall(Template, (Goal, …), L) with goals
                                   c <goal> | r <pat> | az <c> | aa <c> | ab <pi> | ra <head> | at V<n>
  A final `ls` is appended by both sides.

  The same interpreter of commands is run over two machines: the MODEL (`DB.step .fixed`) — its
  line must equal the implementation's — and the SPECIFICATION (`LUV.step`) — it judges the
  implementation's line.
-/
import PrologVerif.Driver.Common
import PrologVerif.Model.DB
import PrologVerif.Spec.LUV
namespace PrologVerif.Driver.C09
open PrologVerif PrologVerif.DB PrologVerif.Driver

structure Machine (σ : Type) where
  step : σ → Op → σ × Out
  /-- retractall/1 — bootstrap.pl: `retractall(Head) :- retract((Head :- _)), fail.  retractall(_).` —
      as defined next to the machine (`DB.retractall`, `LUV.retractall`) -/
  retractall : σ → Term → σ × Out

def modelMachine : Machine DB.State := ⟨DB.step .fixed, DB.retractall .fixed 100000⟩
def pinnedMachine : Machine DB.State := ⟨DB.step .pinned, DB.retractall .pinned 100000⟩
def specMachine : Machine LUV.State := ⟨LUV.step, LUV.retractall 100000⟩

/-! initial database of every case (the harness consults the same):
      :- dynamic(p/1).   s(1). s(2).
    plus two procedures that cannot be modified: member/2 (bootstrap, static) and
    atom_length/2 (built-in).  Fresh variables start above every variable of a payload. -/
def initProcs : Procs :=
  [ (⟨"p", 1⟩, ⟨true, []⟩),
    (⟨"s", 1⟩, ⟨false, [⟨0, Term.a1 "s" (.int 1), .atom "true"⟩, ⟨1, Term.a1 "s" (.int 2), .atom "true"⟩]⟩),
    (⟨"member", 2⟩, ⟨false, []⟩),
    (⟨"atom_length", 2⟩, ⟨false, []⟩) ]

def initModel : DB.State := ⟨initProcs, 2, 100000, []⟩
def initSpec : LUV.State := ⟨initProcs, 2, 100000, []⟩

def predUniverse : List PI := [⟨"p", 1⟩, ⟨"q", 2⟩, ⟨"r", 0⟩, ⟨"s", 1⟩]

def showErr (e : Term) : String := "err " ++ e.canon.wire

def showOut : Out → String
  | .ok => "true"
  | .opened _ => "-"
  | .answer t => "ans " ++ t.canon.wire
  | .no => "no"
  | .error e => showErr e
  | .panic => "panic"
  | .badHandle => "BAD-HANDLE"
  | .listing _ _ _ => "BAD-LISTING"

def showListing (M : Machine σ) (st : σ) : String :=
  "ls " ++ " ".intercalate (predUniverse.map fun pi =>
    let head := pi.name ++ "/" ++ toString pi.arity ++ ":"
    match (M.step st (.listing pi)).2 with
    | .listing false _ _ => head ++ "U[]"
    | .listing true dyn cs =>
      head ++ (if dyn then "D" else "S") ++ bracket (cs.map fun c => (rulify c).canon.wire)
    | _ => head ++ "?")

/-! ### nested goals: depth-first, left-to-right execution of a conjunction over a machine -/

inductive Goal where
  | call (t : Term) | retract (t : Term) | asserta (t : Term) | assertz (t : Term)
  | abolish (t : Term) | retractall (t : Term) | atomic (v : Nat)

def bigFuel : Nat := 200

mutual
  /-- all solutions of the conjunction `gs` under substitution `s`; the database is threaded
      through (never backtracked); an error aborts the search -/
  def solveConj (M : Machine σ) : Nat → List Goal → Subst → σ → σ × Except Out (List Subst)
    | 0, _, _, st => (st, .error .badHandle)
    | _ + 1, [], s, st => (st, .ok [s])
    | fuel + 1, g :: rest, s, st =>
      match g with
      | .atomic v =>
        match resolve bigFuel s (.var v) with
        | .atom _ | .int _ => solveConj M fuel rest s st
        | _ => (st, .ok [])
      | .asserta t => oneShot M fuel rest s (M.step st (.asserta (resolve bigFuel s t)))
      | .assertz t => oneShot M fuel rest s (M.step st (.assertz (resolve bigFuel s t)))
      | .abolish t => oneShot M fuel rest s (M.step st (.abolish (resolve bigFuel s t)))
      | .retractall t => oneShot M fuel rest s (M.retractall st (resolve bigFuel s t))
      | .call t =>
        let g := resolve bigFuel s t
        match M.step st (.openCall g) with
        | (st1, .opened h) => redo M fuel h g rest s st1
        | (st1, o) => (st1, .error o)
      | .retract t =>
        let g := resolve bigFuel s t
        match M.step st (.openRetract g) with
        | (st1, .opened h) => redo M fuel h g rest s st1
        | (st1, o) => (st1, .error o)
  def oneShot (M : Machine σ) : Nat → List Goal → Subst → σ × Out → σ × Except Out (List Subst)
    | 0, _, _, r => (r.1, .error .badHandle)
    | fuel + 1, rest, s, (st, .ok) => solveConj M fuel rest s st
    | _ + 1, _, _, (st, o) => (st, .error o)
  /-- failure-driven enumeration of iterator `h` (goal `g`), continuing with `rest` per solution -/
  def redo (M : Machine σ) : Nat → Nat → Term → List Goal → Subst → σ → σ × Except Out (List Subst)
    | 0, _, _, _, _, st => (st, .error .badHandle)
    | fuel + 1, h, g, rest, s, st =>
      match M.step st (.next h) with
      | (st1, .answer a) =>
        match unify bigFuel s g a with
        | none => (st1, .error .badHandle)
        | some s' =>
          match solveConj M fuel rest s' st1 with
          | (st2, .error o) => (st2, .error o)
          | (st2, .ok sols) =>
            match redo M fuel h g rest s st2 with
            | (st3, .error o) => (st3, .error o)
            | (st3, .ok more) => (st3, .ok (sols ++ more))
      | (st1, .no) => (st1, .ok [])
      | (st1, o) => (st1, .error o)
end

def parseGoal (s : String) : Option Goal :=
  let (w, rest) := headWord s
  let w := (w.splitOn "@").headD w   -- "@n": how the harness passes the argument (see below); the abstract call is the same
  match w, parseTerms rest with
  | "c", some [t] => some (.call t)
  | "r", some [t] => some (.retract t)
  | "aa", some [t] => some (.asserta t)
  | "az", some [t] => some (.assertz t)
  | "ab", some [t] => some (.abolish t)
  | "ra", some [t] => some (.retractall t)
  | "at", some [.var v] => some (.atomic v)
  | _, _ => none

/-! ### the command interpreter -/

inductive Slot where
  | pending (isRetract : Bool) (t : Term)
  | running (h : Nat)
  | done

structure Run (σ : Type) where
  st : σ
  slots : List (Nat × Slot)
  outs : List String

def slotOf (slots : List (Nat × Slot)) (k : Nat) : Option Slot := (slots.find? (·.1 == k)).map (·.2)
def setSlot (slots : List (Nat × Slot)) (k : Nat) (s : Slot) : List (Nat × Slot) :=
  (k, s) :: slots.filter (·.1 != k)

def natOf (s : String) : Option Nat := natOfChars s.toList

def showSols (tmpl : Term) (sols : List Subst) : String :=
  "sols " ++ bracket (sols.map fun s => (resolve bigFuel s tmpl).canon.wire)

def command (M : Machine σ) (r : Run σ) (cmd : String) : Run σ :=
  let (w, rest) := headWord cmd
  -- `az@3`, `or@1` …: the harness realises the SAME abstract call with the argument passed in another Go
  -- representation (through variables bound by earlier goals of one conjunction); model and spec ignore it
  let w := (w.splitOn "@").headD w
  let emit (st : σ) (o : String) : Run σ := { r with st := st, outs := r.outs ++ [o] }
  match w with
  | "az" | "aa" | "ab" =>
    match parseTerms rest with
    | some [t] =>
      let op := if w == "az" then Op.assertz t else if w == "aa" then Op.asserta t else Op.abolish t
      let (st, o) := M.step r.st op
      emit st (showOut o)
    | _ => emit r.st "BAD-CMD"
  | "ra" =>
    match parseTerms rest with
    | some [t] => let (st, o) := M.retractall r.st t; emit st (showOut o)
    | _ => emit r.st "BAD-CMD"
  | "oc" | "or" =>
    let (k, rest') := headWord rest
    match natOf k, parseTerms rest' with
    | some k, some [t] => { r with slots := setSlot r.slots k (.pending (w == "or") t), outs := r.outs ++ ["-"] }
    | _, _ => emit r.st "BAD-CMD"
  | "nx" =>
    match natOf rest with
    | none => emit r.st "BAD-CMD"
    | some k =>
      let stepIt (st : σ) (h : Nat) : Run σ :=
        let (st', o) := M.step st (.next h)
        let slots := match o with
          | .answer _ => setSlot r.slots k (.running h)
          | _ => setSlot r.slots k .done
        { st := st', slots := slots, outs := r.outs ++ [showOut o] }
      match slotOf r.slots k with
      | some (.pending isR t) =>
        match M.step r.st (if isR then Op.openRetract t else Op.openCall t) with
        | (st, .opened h) => stepIt st h
        | (st, o) => { st := st, slots := setSlot r.slots k .done, outs := r.outs ++ [showOut o] }
      | some (.running h) => stepIt r.st h
      | _ => emit r.st "done"
  | "cl" =>
    match natOf rest with
    | none => emit r.st "BAD-CMD"
    | some k =>
      match slotOf r.slots k with
      | some (.running h) =>
        { st := (M.step r.st (.close h)).1, slots := setSlot r.slots k .done, outs := r.outs ++ ["-"] }
      | _ => { r with slots := setSlot r.slots k .done, outs := r.outs ++ ["-"] }
  | "ls" => emit r.st (showListing M r.st)
  | "nest" =>
    match (rest.splitOn " & ").map trim with
    | tm :: gs =>
      match parseTerms tm, gs.mapM parseGoal with
      | some [tmpl], some goals =>
        match solveConj M 100000 goals [] r.st with
        | (st, .ok sols) => emit st (showSols tmpl sols)
        | (st, .error o) => emit st (showOut o)
      | _, _ => emit r.st "BAD-CMD"
    | [] => emit r.st "BAD-CMD"
  | _ => emit r.st "BAD-CMD"

def runAll (M : Machine σ) (init : σ) (cmds : List String) : List String :=
  let r := cmds.foldl (command M) ⟨init, [], []⟩
  r.outs ++ [showListing M r.st]

/-- first position where the implementation's outputs differ from the specification's -/
def judge (cmds : List String) (want got : List String) : String :=
  let rec go : List String → List String → List String → Nat → String
    | _, [], [], _ => "ok"
    | c :: cs, w :: ws, g :: gs, i =>
      if w == g then go cs ws gs (i + 1)
      else s!"FAIL command #{i} ({(headWord c).1}): logical update view gives `{w}`, implementation gave `{g}`"
    | [], [w], [g], i =>
      if w == g then "ok" else s!"FAIL final listing (#{i}): logical update view gives `{w}`, implementation gave `{g}`"
    | _, _, _, _ => "FAIL output length mismatch"
  go cmds want got 0

def handlerOn (M : Machine DB.State) : Handler := fun payload impl =>
  let cmds := splitOps payload
  let model := " ; ".intercalate (runAll M initModel cmds)
  let spec := runAll specMachine initSpec cmds
  (model, judge cmds spec (splitOps impl))

def handler : Handler := handlerOn modelMachine

/-- not registered in props.py: the pinned arithmetic, to replay the witnesses against the pinned code by hand -/
def handlerPinned : Handler := handlerOn pinnedMachine

end PrologVerif.Driver.C09
