/-
  Model of the standard order of terms and of the sorting built-ins.

  Mirrors, by name and in the same order of checks:
    engine/variable.go  (Variable).Compare        -> compareVar
    engine/float.go     (Float).Compare           -> compareFloat
    engine/integer.go   (Integer).Compare         -> compareInt
    engine/atom.go      (Atom).Compare            -> compareAtom   (strings.Compare on the UTF-8 bytes)
    engine/stream.go    (*Stream).Compare / engine/term.go CompareAtomic -> compareStream
    engine/compound.go  CompareCompound           -> the `.app` case of `compare` + `compareArgs`
    engine/compound.go  (*Env).set                -> set      (sort.Slice is a PARAMETER)
    engine/builtin.go   Compare / Sort / KeySort  -> compare3 / sort / keysort
    bootstrap.pl        @< @=< @> @>= == \==      -> callOrderOp (mini SLD over the tied clauses)

  The model works on RESOLVED abstract terms (`PrologVerif.Term`): every Go `Compare` first calls
  `env.Resolve` on its argument, and the Go encodings of a list cell (list / partial / charList /
  codeList / compound) are only seen through `Functor/Arity/Arg` — that layer (`Model/Rep`) is
  separate.  One function per left-hand Go type, so an asymmetry between two Go methods is an
  asymmetry between two model functions.

  Core Lean only (linked into the driver).
-/
import PrologVerif.Model.Errors
namespace PrologVerif.Order
open PrologVerif

/-! ## Go's three-way comparisons on machine values -/

/-- `switch { case x > y: return 1; case x < y: return -1; default: return 0 }` on naturals
    (variable numbers, arities, stream addresses, bytes) -/
def cmpNat (x y : Nat) : Ordering := if x > y then .gt else if x < y then .lt else .eq

/-- the same switch on `Integer` -/
def cmpInt (x y : Int) : Ordering := if x > y then .gt else if x < y then .lt else .eq

/-! ### floats

  A `Float` is its IEEE-754 binary64 bit pattern.  `fltLt`/`fltEq` are IEEE `<` and `==`
  expressed on sign / magnitude (exponent and mantissa together order the non-negative
  doubles like the integers of their bit patterns): false whenever an operand is a NaN,
  `-0.0 == 0.0`, infinities at the ends. -/

/-- exponent and mantissa (the 63 low bits) -/
def fltMag (b : UInt64) : Nat := b.toNat % 2 ^ 63

/-- sign bit -/
def fltNeg (b : UInt64) : Prop := 2 ^ 63 ≤ b.toNat

instance (b : UInt64) : Decidable (fltNeg b) := by unfold fltNeg; infer_instance

/-- exponent all ones and mantissa non-zero -/
def fltIsNaN (b : UInt64) : Prop := 0x7FF0000000000000 < fltMag b

instance (b : UInt64) : Decidable (fltIsNaN b) := by unfold fltIsNaN; infer_instance

/-- the real line position of a non-NaN double, as an integer key (monotone, ±0 ↦ 0) -/
def fltKey (b : UInt64) : Int := if fltNeg b then - (fltMag b : Int) else (fltMag b : Int)

/-- Go `x < y` on float64 -/
def fltLt (x y : UInt64) : Prop := ¬ fltIsNaN x ∧ ¬ fltIsNaN y ∧ fltKey x < fltKey y

/-- Go `x == y` on float64 -/
def fltEq (x y : UInt64) : Prop := ¬ fltIsNaN x ∧ ¬ fltIsNaN y ∧ fltKey x = fltKey y

instance (x y : UInt64) : Decidable (fltLt x y) := by unfold fltLt; infer_instance
instance (x y : UInt64) : Decidable (fltEq x y) := by unfold fltEq; infer_instance

/-- `switch { case f > t: return 1; case f < t: return -1; default: return 0 }` on `Float`
    (with a NaN operand both tests are false: the default branch answers 0) -/
def cmpFlt (f t : UInt64) : Ordering := if fltLt t f then .gt else if fltLt f t then .lt else .eq

/-! ### strings

  `strings.Compare(a, b)` compares the bytes of the two Go strings lexicographically (a proper
  prefix is smaller).  A Go string holding an atom's text is its UTF-8 encoding. -/

/-- lexicographic three-way comparison (`bytes.Compare`).
    `o.then r` is `if o != 0 { return o }; r` (`Ordering.then`: `r` when `o = .eq`, else `o`). -/
def cmpList {α : Type} (cmp : α → α → Ordering) : List α → List α → Ordering
  | [], [] => .eq
  | [], _ :: _ => .lt
  | _ :: _, [] => .gt
  | a :: as, b :: bs => (cmp a b).then (cmpList cmp as bs)   -- first difference decides

def cmpByte (x y : UInt8) : Ordering := cmpNat x.toNat y.toNat

/-- the bytes of a Go string with this text -/
def utf8 (s : String) : List UInt8 := s.toList.flatMap String.utf8EncodeChar

/-- `strings.Compare(a.String(), t.String())` followed by the sign switch of `Atom.Compare` -/
def cmpText (a b : String) : Ordering := cmpList cmpByte (utf8 a) (utf8 b)

/-! ## the per-type `Compare` methods -/

/-- `(Variable).Compare` for an unbound receiver (a bound one is resolved first and dispatched on
    its value — that is `compare` below applied to the resolved term) -/
def compareVar (v : Nat) (t : Term) : Ordering :=
  match t with
  | .var w => cmpNat v w
  | _ => .lt

/-- `(Float).Compare` -/
def compareFloat (f : UInt64) (t : Term) : Ordering :=
  match t with
  | .var _ => .gt
  | .flt g => cmpFlt f g
  | _ => .lt                       -- Integer, Atom, custom atomic terms, Compound

/-- `(Integer).Compare` -/
def compareInt (i : Int) (t : Term) : Ordering :=
  match t with
  | .var _ => .gt
  | .flt _ => .gt
  | .int j => cmpInt i j
  | _ => .lt                       -- Atom, custom atomic terms, Compound

/-- `(Atom).Compare` -/
def compareAtom (a : String) (t : Term) : Ordering :=
  match t with
  | .var _ => .gt
  | .flt _ => .gt
  | .int _ => .gt
  | .atom b => cmpText a b
  | _ => .lt                       -- custom atomic terms, Compound

/-- `(*Stream).Compare` = `CompareAtomic[*Stream]` with the address comparison; `Stream` is the only
    custom atomic type of the engine, so the `%T` branch of `CompareAtomic` is unreachable -/
def compareStream (s : Nat) (t : Term) : Ordering :=
  match t with
  | .var _ => .gt
  | .flt _ => .gt
  | .int _ => .gt
  | .atom _ => .gt
  | .str u => cmpNat s u
  | .app _ _ => .lt

mutual
  /-- `Term.Compare` — dynamic dispatch on the (resolved) receiver -/
  def compare : Term → Term → Ordering
    | .var v, t => compareVar v t
    | .flt f, t => compareFloat f t
    | .int i, t => compareInt i t
    | .atom a, t => compareAtom a t
    | .str s, t => compareStream s t
    | .app f as, t =>              -- CompareCompound
      match t with
      | .app g bs =>
        (cmpNat as.length bs.length).then      -- switch x, y := c.Arity(), t.Arity()
          ((cmpText f g).then                  -- if o := c.Functor().Compare(t.Functor(), env); o != 0 { return o }
            (compareArgs as bs))               -- for i := 0; i < c.Arity(); i++ { … }
      | _ => .gt
  /-- the argument loop of `CompareCompound` (only entered with equal arities) -/
  def compareArgs : Args → Args → Ordering
    | .cons a as, .cons b bs => (compare a b).then (compareArgs as bs)   -- if o != 0 { return o }
    | _, _ => .eq
end

/-- `CompareCompound(c, t, env)` as a function of its own, for reference in theorems -/
def compareCompound (f : String) (as : Args) (t : Term) : Ordering := compare (.app f as) t

/-! ## compare/3 -/

def orderAtom : Ordering → Term
  | .lt => .atom "<"
  | .eq => .atom "="
  | .gt => .atom ">"

/-- engine/builtin.go `Compare`: checks `order`, then unifies it with the outcome.
    Result: error, or whether the call succeeds and the binding of `order` when it was unbound. -/
def compare3 (order t1 t2 : Term) : Except Term (Option Term) :=
  match order with
  | .var _ => .ok (some (orderAtom (compare t1 t2)))
  | .atom o =>
    if o = "<" ∨ o = "=" ∨ o = ">" then
      if orderAtom (compare t1 t2) = .atom o then .ok (some (.atom o)) else .ok none
    else .error (domainErr "order" order)
  | _ => .error (typeErr "atom" order)

/-! ## the comparison operators of bootstrap.pl

  `X @< Y :- compare(<, X, Y).` etc.  Calling such a clause unifies the call's arguments with the
  fresh head variables in argument order (`opGetVar`: `env.Unify(arg, fresh)` binds an UNBOUND
  argument to the fresh variable, while a non-variable argument is what the fresh variable gets
  bound to).  So two distinct unbound variables passed at top level are seen by compare/3 as two
  fresh variables numbered in argument order: the first is smaller.  This is the implementation
  dependence the property allows; `headArgs` makes it explicit. -/

/-- what compare/3 sees inside the clause body: the fresh variable numbers `n`, `n+1` for
    unbound top-level arguments (aliased ones share a number) -/
def headArgs (n : Nat) (t1 t2 : Term) : Term × Term :=
  match t1, t2 with
  | .var a, .var b => if a = b then (.var (n + 1), .var (n + 1)) else (.var n, .var (n + 1))
  | .var _, t => (.var n, t)
  | t, .var _ => (t, .var (n + 1))
  | s, t => (s, t)

/-- the six clauses groups, as terms (tied to `Generated.bootstrapTerms` in Properties/C08) -/
def orderClauses : List Term :=
  let v0 : Term := .var 0
  let v1 : Term := .var 1
  let cl := fun (h : String) (b : Term) => Term.a2 ":-" (Term.a2 h v0 v1) b
  let cmp := fun (o : String) => Term.a3 "compare" (.atom o) v0 v1
  [ cl "@=<" (cmp "="), cl "@=<" (cmp "<"),
    cl "==" (cmp "="),
    cl "\\==" (Term.a1 "\\+" (Term.a2 "==" v0 v1)),
    cl "@<" (cmp "<"),
    cl "@>" (cmp ">"),
    cl "@>=" (cmp ">"), cl "@>=" (cmp "=") ]

/-- number of solutions of the goal `name(t1, t2)` against `clauses`: depth-first over the clauses
    whose head is `name(V0, V1)`; bodies `compare(O, V0, V1)` and `\\+ G(V0, V1)` (G again looked up
    in `clauses`).  `fresh` is the number of the first fresh head variable.
    `none` = a clause shape this evaluator does not cover, or out of fuel. -/
def solveOp (clauses : List Term) (fresh : Nat) : Nat → String → Term → Term → Option Nat
  | 0, _, _, _ => none
  | fuel + 1, name, t1, t2 =>
    let a := headArgs fresh t1 t2
    clauses.foldl (fun acc c =>
      match acc with
      | none => none
      | some n =>
        match c with
        | .app ":-" (.cons (.app h (.cons (.var 0) (.cons (.var 1) .nil))) (.cons body .nil)) =>
          if h = name then
            match body with
            | .app "compare" (.cons (.atom o) (.cons (.var 0) (.cons (.var 1) .nil))) =>
              if orderAtom (compare a.1 a.2) = .atom o then some (n + 1) else some n
            | .app "\\+" (.cons (.app g (.cons (.var 0) (.cons (.var 1) .nil))) .nil) =>
              match solveOp clauses (fresh + 2) fuel g a.1 a.2 with
              | some 0 => some (n + 1)
              | some _ => some n
              | none => none
            | _ => none
          else some n
        | _ => some n) (some 0)

/-- a call of one of the six operators: number of solutions through the bootstrap clauses -/
def callOrderOp (fresh : Nat) (name : String) (t1 t2 : Term) : Option Nat :=
  solveOp orderClauses fresh 3 name t1 t2

/-! ## sorting -/

/-- the loop of `Env.set` after `sort.Slice`: keep `t` unless the last kept element compares 0 with it -/
def dedupFrom {α : Type} (cmp : α → α → Ordering) : Option α → List α → List α
  | _, [] => []
  | none, t :: ts => t :: dedupFrom cmp (some t) ts
  | some u, t :: ts =>
    if cmp u t = .eq then dedupFrom cmp (some u) ts else t :: dedupFrom cmp (some t) ts

def dedupAdjacent {α : Type} (cmp : α → α → Ordering) (ts : List α) : List α := dedupFrom cmp none ts

/-- `(*Env).set`, with Go's `sort.Slice` as the parameter `sorter` -/
def set (sorter : List Term → List Term) (ts : List Term) : List Term :=
  dedupAdjacent compare (sorter ts)

/-- insert before the first element that is not smaller (so: after all smaller ones, before equal ones) -/
def orderedInsert {α : Type} (cmp : α → α → Ordering) (x : α) : List α → List α
  | [] => [x]
  | y :: ys => if cmp x y = .gt then y :: orderedInsert cmp x ys else x :: y :: ys

/-- the executable sorter of the model: stable insertion sort -/
def insertionSort {α : Type} (cmp : α → α → Ordering) : List α → List α
  | [] => []
  | x :: xs => orderedInsert cmp x (insertionSort cmp xs)

/-- how a `ListIterator` over a resolved finite term ends: `Err()` after the last `Next()`;
    `tail` is what is left after the list cells of `whole` -/
def listEnd (allowPartial : Bool) (whole tail : Term) : Except Term Unit :=
  match tail with
  | .atom "[]" => .ok ()
  | .var _ => if allowPartial then .ok () else .error instErr
  | _ => .error (typeErr "list" whole)

/-- a loop `for iter.Next() { collect }` followed by `iter.Err()`: the elements, or the error -/
def listElems (allowPartial : Bool) (l : Term) : Except Term (List Term) := do
  listEnd allowPartial l l.spine.2
  pure l.spine.1

/-- engine/builtin.go `Sort` for an unbound or arbitrary `sorted` argument: error, or the list the
    `sorted` argument is unified with -/
def sort (sorter : List Term → List Term) (list sorted : Term) : Except Term Term := do
  let elems ← listElems false list
  let _ ← listElems true sorted
  pure (Term.list (set sorter elems))

def pairKey : Term → Option Term
  | .app "-" (.cons k (.cons _ .nil)) => some k
  | _ => none

/-- the element checks of `KeySort` on the input list -/
def checkPairs : List Term → Except Term Unit
  | [] => .ok ()
  | .var _ :: _ => .error instErr
  | e :: es =>
    match pairKey e with
    | some _ => checkPairs es
    | none => .error (typeErr "pair" e)

/-- the element checks of `KeySort` on the `sorted` argument (variables are skipped) -/
def checkSortedPairs : List Term → Except Term Unit
  | [] => .ok ()
  | .var _ :: es => checkSortedPairs es
  | e :: es =>
    match pairKey e with
    | some _ => checkSortedPairs es
    | none => .error (typeErr "pair" e)

/-- `e.(Compound).Arg(0)`: the key of a `K-V` pair.  `KeySort` only sorts after every element
    passed `checkPairs`, so the type assertion cannot fail there (second equation unreachable). -/
def keyOf : Term → Term
  | .app _ (.cons k _) => k
  | t => t

/-- `less` of `KeySort`: `elems[i].(Compound).Arg(0).Compare(elems[j].(Compound).Arg(0), env)` -/
def cmpKey (x y : Term) : Ordering := compare (keyOf x) (keyOf y)

/-- engine/builtin.go `KeySort`, with Go's `sort.SliceStable` as the parameter `sorter`.
    Both loops check each element inside the loop body, i.e. BEFORE the iterator reports how the
    list ends. -/
def keysort (sorter : List Term → List Term) (pairs sorted : Term) : Except Term Term := do
  checkPairs pairs.spine.1
  listEnd false pairs pairs.spine.2
  match sorted with
  | .var _ => pure ()
  | s =>
    checkSortedPairs s.spine.1
    listEnd true s s.spine.2       -- AllowPartial (fixed: the pinned code rejected partial lists here)
  pure (Term.list (sorter pairs.spine.1))

end PrologVerif.Order
