/-
  C16 — relational built-ins enumerate exactly their relation in every call mode.
-/
import PrologVerif.Model.Rel
import PrologVerif.Spec.Relations
namespace PrologVerif.C16
open PrologVerif PrologVerif.Rel

/-- the clauses of member/2 and select/3 used by the model are those of bootstrap.pl -/
theorem C16_bootstrap_tie :
    bootClauses "member" 2 =
      [ Term.a2 "member" (.var 0) (Term.consT (.var 0) (.var 1)),
        Term.a2 ":-" (Term.a2 "member" (.var 0) (Term.consT (.var 1) (.var 2))) (Term.a2 "member" (.var 0) (.var 2)) ] ∧
    bootClauses "select" 3 =
      [ Term.a3 "select" (.var 0) (Term.consT (.var 0) (.var 1)) (.var 1),
        Term.a2 ":-" (Term.a3 "select" (.var 0) (Term.consT (.var 1) (.var 2)) (Term.consT (.var 1) (.var 3)))
          (Term.a3 "select" (.var 0) (.var 2) (.var 3)) ] := by
  decide +kernel

end PrologVerif.C16
