/-
  Specification of the operator table (ISO 8.14.3 / 6.3.4.3, as worded by property C18).

  The abstract table is a partial function (name, class) ↦ (priority, specifier).
-/
import PrologVerif.Model.Ops
namespace PrologVerif.Ops

/-- abstract view of a table -/
def absTable (t : Table) (n : String) (c : Class) : Option (Nat × Spec) :=
  (lookup t n c).map fun o => (o.pri, o.spec)

/-- The ISO well-formedness rules that must hold after any history. -/
structure Valid (t : Table) : Prop where
  /-- at most one definition per (name, class) -/
  unique : t.Pairwise (fun a b => ¬ (a.name = b.name ∧ a.spec.cls = b.spec.cls))
  /-- priorities are in 1..1200 -/
  range : ∀ o ∈ t, 1 ≤ o.pri ∧ o.pri ≤ 1200
  /-- never an infix and a postfix operator with the same name -/
  noInfixPostfix : ∀ n, ¬ (definedInClass t n .inf = true ∧ definedInClass t n .post = true)
  /-- ',' is exactly the infix operator (1000, xfy) -/
  comma : ∀ o ∈ t, o.name = "," → o = ⟨",", 1000, .xfy⟩
  commaDefined : definedInClass t "," .inf = true
  /-- '|' is at most an infix operator of priority ≥ 1001 -/
  bar : ∀ o ∈ t, o.name = "|" → o.spec.cls = .inf ∧ 1001 ≤ o.pri
  /-- '[]' and '{}' are never operators -/
  noBrackets : ∀ o ∈ t, o.name ≠ "[]" ∧ o.name ≠ "{}"

/-- What a successful `op(P, S, Names)` must do to the abstract table. -/
def specApply (a : String → Class → Option (Nat × Spec)) (p : Nat) (s : Spec) (ns : List String) :
    String → Class → Option (Nat × Spec) :=
  fun n c => if n ∈ ns ∧ c = s.cls then (if p = 0 then none else some (p, s)) else a n c

/-- executable reference: apply a successful op/3 to an association list kept sorted by nothing
    in particular (used by the driver as the oracle; compared as a set). -/
def specOp (t : Table) (p : Nat) (s : Spec) (ns : List String) : Table :=
  t.filter (fun o => !(ns.contains o.name && o.spec.cls == s.cls))
    ++ (if p = 0 then [] else ns.eraseDups.map fun n => ⟨n, p, s⟩)

/-- executable reference for the error condition of op/3 on already type-checked arguments:
    the ISO rules that make the update illegal. -/
def specIllegal (t : Table) (p : Nat) (s : Spec) (ns : List String) : Bool :=
  ns.any fun n =>
    (n == "," && definedInClass t "," .inf)
    || (n == "|" && (s.cls != .inf || (0 < p && p < 1001)))
    || n == "[]" || n == "{}"
    || (s.cls == .inf && definedInClass t n .post)
    || (s.cls == .post && definedInClass t n .inf)

end PrologVerif.Ops
