/-
  Driver/C07 — stream handlers of C07.
    c07.kernels   the TRANSLATED kernels (Generated/Arith, compiled into this driver, F := hardware Float)
                  against the real functions, case by case on the boundary grid; verdict from C07Spec
    c07.queries   `X is Expr` / `E1 op E2` on expression trees: hand model of eval (Model/Eval) over the
                  translated kernels against the real interpreter; verdict from C07Spec
-/
import PrologVerif.Driver.Common
import PrologVerif.Driver.C07Spec
import PrologVerif.Model.Eval
namespace PrologVerif.Driver.C07
open PrologVerif PrologVerif.Driver PrologVerif.Arith PrologVerif.Generated.Arith

def numWire : Num Float → String
  | .int i => "I" ++ toString i.val
  | .flt f => "F" ++ hex16 f.toBits

def panicName : GoPanic → String
  | .divideByZero => "divideByZero"
  | .negativeShift => "negativeShift"
  | .untranslated f => "untranslated:" ++ f
  | .outOfFuel f => "outOfFuel:" ++ f

def resLine : Eval.Res Float → String
  | .num n => "ok " ++ numWire n
  | .err t => errLine t
  | .panic p => "panic " ++ panicName p

def intKernel (name : String) : Option (I64 → I64 → Except Err I64) :=
  match name with
  | "addI" => some (U.addI Float) | "subI" => some (U.subI Float) | "mulI" => some (U.mulI Float)
  | "intDivI" => some (U.intDivI Float) | "remI" => some (U.remI Float) | "modI" => some (U.modI Float)
  | "intFloorDivI" => some (U.intFloorDivI Float) | "intPow" => some (U.intPow Float)
  | "negI" => some fun x _ => U.negI Float x
  | "absI" => some fun x _ => U.absI Float x
  | "posI" => some fun x _ => U.posI Float x
  | "signI" => some fun x _ => .ok (U.signI Float x)
  | _ => none

def toNum : Term → Option (Num Float)
  | .int i => some (.int (I64.ofInt i))
  | .flt b => some (.flt (Float.ofBits b))
  | _ => none

def libFunctors : List String := ["sin", "cos", "tan", "asin", "acos", "atan", "exp", "log", "**", "^", "atan2"]

/-- The VALUES of the transcendental library functions are not compared: Go's pure-Go libm and the C
    libm behind Lean's Float differ (a few ulp in general, grossly for subnormal arguments of log, **
    and atan2).  For those functors, when model and implementation both return a float, the model
    line takes the implementation's value; every error outcome and the int/float kind ARE compared —
    the guard logic (domain checks, Inf/NaN/0 → error) is what C07 claims about them. -/
def fuzz (f : String) (model impl : String) : String :=
  if libFunctors.contains f && model.startsWith "ok F" && impl.startsWith "ok F" then impl else model

def snum : Num Float → SNum
  | .int i => .int i.val
  | .flt f => .flt f

def kernelsHandler : Handler := fun payload impl =>
  let (kind, rest) := headWord payload
  -- gint/gfun/gcmp mark the cases of the exhaustive grid
  let kind := if kind.startsWith "g" then (kind.drop 1).toString else kind
  match kind with
  | "int" =>
    match words rest with
    | [fn, xs, ys] =>
      match intKernel fn, intOfChars xs.toList, intOfChars ys.toList with
      | some k, some x, some y =>
        let model := resLine (Eval.ofKernel ((k (I64.ofInt x) (I64.ofInt y)).map (Num.int (F := Float))))
        let want : Want :=
          open PrologVerif.Spec.ExactArith in
          match fn with
          | "addI" => ofOutcome (add x y) | "subI" => ofOutcome (sub x y) | "mulI" => ofOutcome (mul x y)
          | "intDivI" => ofOutcome (intDiv x y) | "remI" => ofOutcome (rem x y) | "modI" => ofOutcome (mod x y)
          | "intFloorDivI" => ofOutcome (floorDiv x y)
          | "intPow" => if y ≥ 0 then ofOutcome (powFast x y) else .free
          | "negI" => ofOutcome (neg x) | "absI" => ofOutcome (abs x) | "posI" => ofOutcome (pos x)
          | "signI" => ofOutcome (sign x)
          | _ => .free
        (model, judge want impl)
      | _, _, _ => ("BAD-CASE", "-")
    | _ => ("BAD-CASE", "-")
  | "fun" =>
    let (fenc, args) := headWord rest
    match decName fenc.toList, parseTerms args with
    | some f, some [a] =>
      match toNum a, evalUnary (F := Float) f with
      | some x, some g => (fuzz f (resLine (Eval.ofKernel (g x))) impl, judge (wantUnary f (snum x)) impl)
      | _, _ => ("BAD-CASE", "-")
    | some f, some [a, b] =>
      match toNum a, toNum b, evalBinary (F := Float) f with
      | some x, some y, some g =>
        (fuzz f (resLine (Eval.ofKernel (g x y))) impl,
          withTriggers (judge (wantBinary f (snum x) (snum y)) impl) (triggersBinary f (snum x) (snum y)))
      | _, _, _ => ("BAD-CASE", "-")
    | _, _ => ("BAD-CASE", "-")
  | "cmp" =>
    let (openc, args) := headWord rest
    match decName openc.toList, parseTerms args with
    | some op, some [a, b] =>
      match toNum a, toNum b, Eval.cmpKernels (F := Float) op with
      | some x, some y, some k =>
        let model := if Eval.compareNums k x y then "true" else "false"
        let verdict := match wantCompare op (snum x) (snum y) with
          | some w => if impl == (if w then "true" else "false") then "ok" else s!"FAIL want {w}"
          | none => "-"
        (model, verdict)
      | _, _, _ => ("BAD-CASE", "-")
    | _, _ => ("BAD-CASE", "-")
  | _ => ("BAD-CASE", "-")

def answerLine : Eval.Answer Float → String
  | .value n => "ok " ++ numWire n
  | .holds b => if b then "true" else "false"
  | .err t => errLine t
  | .panic p => "panic " ++ panicName p

/-- the root functor (the generator puts transcendental functors at the root only) -/
def rootFunctor : Term → String
  | .app f _ => f
  | _ => ""

def queriesHandler : Handler := fun payload impl =>
  let (kind, rest) := headWord payload
  match kind with
  | "is" =>
    match parseTerms rest with
    | some [e] =>
      let model := answerLine (Eval.is (F := Float) e)
      let model := fuzz (rootFunctor e) model impl
      let verdict := match specEval e with
        | (.num n, ts) => withTriggers (judge (.num n) impl) ts
        | (.err t, ts) => withTriggers (judge (.err t) impl) ts
        | (.free, _) => judge .free impl
      (model, verdict)
    | _ => ("BAD-CASE", "-")
  | "cmp" =>
    let (openc, args) := headWord rest
    match decName openc.toList, parseTerms args with
    | some op, some [e1, e2] =>
      let model := match Eval.compare (F := Float) op e1 e2 with
        | some a => answerLine a
        | none => "BAD-OP"
      let verdict := match specEval e1 with
        | (.err t, ts) => withTriggers (judge (.err t) impl) ts
        | (.free, _) => judge .free impl
        | (.num x, ts) =>
          match specEval e2 with
          | (.err t, ts') => withTriggers (judge (.err t) impl) (ts ++ ts')
          | (.free, _) => judge .free impl
          | (.num y, ts') =>
            match wantCompare op x y with
            | some w => withTriggers (if impl == (if w then "true" else "false") then "ok" else s!"FAIL want {w}") (ts ++ ts')
            | none => "-"
      (model, verdict)
    | _, _ => ("BAD-CASE", "-")
  | _ => ("BAD-CASE", "-")

end PrologVerif.Driver.C07
