/-
  Small-step facts about the parser model: peeking restores the state; what the helper methods do on
  a token that cannot start / continue a term.
-/
import PrologVerif.Model.Read
set_option linter.unusedSimpArgs false
set_option linter.unusedVariables false
namespace PrologVerif.Read
open PrologVerif PrologVerif.Lexer PrologVerif.Ops

/-- a token that ends a term in a context of maximum priority `mp`: `end`, `)`, or `,` below 1000 -/
def Stops (mp : Nat) (t : Token) : Prop :=
  t.kind = .end_ ∨ t.kind = .close ∨ (t.kind = .comma ∧ mp < 1000)

theorem name_stop {mp : Nat} {t : Token} (h : Stops mp t) (b r : List Token) (vs : List (List Char × Nat)) (nv : Nat) :
    name ⟨b, t :: r, vs, nv⟩ = (.error .expectation, ⟨b, t :: r, vs, nv⟩) := by
  rcases h with h | h | ⟨h, _⟩ <;> simp [name, next, backup, h]

theorem atom_stop {mp : Nat} {t : Token} (h : Stops mp t) (dq : DoubleQuotes) (b r : List Token)
    (vs : List (List Char × Nat)) (nv : Nat) :
    atom dq ⟨b, t :: r, vs, nv⟩ = (.error .expectation, ⟨b, t :: r, vs, nv⟩) := by
  rcases h with h | h | ⟨h, _⟩ <;> simp [atom, name, next, backup, h]

theorem op_stop {mp : Nat} {t : Token} (h : Stops mp t) (dq : DoubleQuotes) (b r : List Token)
    (vs : List (List Char × Nat)) (nv : Nat) :
    op dq mp ⟨b, t :: r, vs, nv⟩ = (.error .expectation, ⟨b, t :: r, vs, nv⟩) := by
  rcases h with h | h | ⟨h, hm⟩
  · simp [op, atom, name, next, backup, h]
  · simp [op, atom, name, next, backup, h]
  · have : ¬ mp ≥ 1000 := by omega
    simp [op, atom, name, next, backup, h, this]

theorem infix_stop {mp : Nat} {t : Token} (h : Stops mp t) (ops : Table) (dq : DoubleQuotes) (b r : List Token)
    (vs : List (List Char × Nat)) (nv : Nat) :
    «infix» ops dq mp ⟨b, t :: r, vs, nv⟩ = (.error .noOp, ⟨b, t :: r, vs, nv⟩) := by
  simp [«infix», op_stop h]

/-- after a complete operand, a stop token ends the `for` loop of `term` -/
theorem infixLoop_stop {mp : Nat} {t : Token} (h : Stops mp t) (ops : Table) (dq : DoubleQuotes) (fuel : Nat)
    (lhs : Term) (b r : List Token) (vs : List (List Char × Nat)) (nv : Nat) :
    infixLoop ops dq (fuel + 1) mp lhs ⟨b, t :: r, vs, nv⟩ = (.ok lhs, ⟨b, t :: r, vs, nv⟩) := by
  simp [infixLoop, infix_stop h]

/-- a number token (after an optional `-`) is not a prefix-operator application -/
theorem prefix_number (ops : Table) (dq : DoubleQuotes) (mp : Nat) (t : Token) (hk : isNumberKind t.kind = true)
    (b r : List Token) (vs : List (List Char × Nat)) (nv : Nat) :
    «prefix» ops dq mp ⟨b, t :: r, vs, nv⟩ = (.error .noOp, ⟨b, t :: r, vs, nv⟩) := by
  have hk' : t.kind = .integer ∨ t.kind = .floatNumber := by
    simpa [isNumberKind] using hk
  rcases hk' with h | h <;> simp [«prefix», op, atom, name, next, backup, h]

theorem prefix_minus_number (ops : Table) (dq : DoubleQuotes) (mp : Nat) (t : Token) (hk : isNumberKind t.kind = true)
    (b r : List Token) (vs : List (List Char × Nat)) (nv : Nat) :
    «prefix» ops dq mp ⟨b, ⟨.graphic, ['-']⟩ :: t :: r, vs, nv⟩ =
      (.error .noOp, ⟨b, ⟨.graphic, ['-']⟩ :: t :: r, vs, nv⟩) := by
  have e : String.ofList ['-'] = "-" := rfl
  simp [«prefix», op, atom, name, next, backup, hk, e]

theorem term0_number (ops : Table) (dq : DoubleQuotes) (fuel mp : Nat) (t : Token) (n : Term)
    (hk : isNumberKind t.kind = true) (hn : numberTerm false t = .ok n)
    (b r : List Token) (vs : List (List Char × Nat)) (nv : Nat) :
    term0 ops dq (fuel + 1) mp ⟨b, t :: r, vs, nv⟩ = (.ok n, ⟨t :: b, r, vs, nv⟩) := by
  have hk' : t.kind = .integer ∨ t.kind = .floatNumber := by simpa [isNumberKind] using hk
  rcases hk' with h | h <;> simp [term0, next, h, hn]

theorem term0_minus_number (ops : Table) (dq : DoubleQuotes) (fuel mp : Nat) (t : Token) (n : Term)
    (hk : isNumberKind t.kind = true) (hn : numberTerm true t = .ok n)
    (b r : List Token) (vs : List (List Char × Nat)) (nv : Nat) :
    term0 ops dq (fuel + 2) mp ⟨b, ⟨.graphic, ['-']⟩ :: t :: r, vs, nv⟩ =
      (.ok n, ⟨t :: ⟨.graphic, ['-']⟩ :: b, r, vs, nv⟩) := by
  have e : String.ofList ['-'] = "-" := rfl
  simp [term0, term0Atom, atom, name, next, backup, hk, hn, e]

/-- a (possibly negative) number followed by a stop token is read by `term` as that number -/
theorem term_number (ops : Table) (dq : DoubleQuotes) (fuel mp : Nat) (t stop : Token) (n : Term)
    (hk : isNumberKind t.kind = true) (hn : numberTerm false t = .ok n) (hs : Stops mp stop)
    (b r : List Token) (vs : List (List Char × Nat)) (nv : Nat) :
    term ops dq (fuel + 2) mp ⟨b, t :: stop :: r, vs, nv⟩ = (.ok n, ⟨t :: b, stop :: r, vs, nv⟩) := by
  simp only [term, prefix_number ops dq mp t hk, term0_number ops dq fuel mp t n hk hn,
    infixLoop_stop hs]

theorem term_minus_number (ops : Table) (dq : DoubleQuotes) (fuel mp : Nat) (t stop : Token) (n : Term)
    (hk : isNumberKind t.kind = true) (hn : numberTerm true t = .ok n) (hs : Stops mp stop)
    (b r : List Token) (vs : List (List Char × Nat)) (nv : Nat) :
    term ops dq (fuel + 3) mp ⟨b, ⟨.graphic, ['-']⟩ :: t :: stop :: r, vs, nv⟩ =
      (.ok n, ⟨t :: ⟨.graphic, ['-']⟩ :: b, stop :: r, vs, nv⟩) := by
  simp only [term, prefix_minus_number ops dq mp t hk, term0_minus_number ops dq fuel mp t n hk hn,
    infixLoop_stop hs]

theorem parseTerm_end (ops : Table) (dq : DoubleQuotes) (fuel : Nat) (p : PState) (t : Term) (e : Token)
    (b r : List Token) (vs : List (List Char × Nat)) (nv : Nat) (he : e.kind = .end_)
    (h : term ops dq fuel 1201 p = (.ok t, ⟨b, e :: r, vs, nv⟩)) :
    (parseTerm ops dq fuel p).1 = .ok t := by
  simp [parseTerm, h, next, he]

end PrologVerif.Read
