/-
  Proofs/DCGThreads — the reference translation `Body.tr` satisfies the relational specification
  `Threads`; which variables a translation can mention; the translation commutes with
  instantiating the two hidden arguments.
-/
import PrologVerif.Proofs.DCG
namespace PrologVerif.Grammar
open PrologVerif

/-- number of hidden variables the translation of a body introduces -/
def Body.nhid : Body → Nat
  | .seq a b => a.nhid + b.nhid + 1
  | .alt a b => a.nhid + b.nhid
  | .ite c t e => c.nhid + t.nhid + e.nhid + 1
  | .ifthen c t => c.nhid + t.nhid + 1
  | .not b => b.nhid + 1
  | _ => 0

theorem tr_next (b : Body) : ∀ (s0 s : Term) (n : Nat), (b.tr s0 s n).2 = n + b.nhid := by
  induction b with
  | seq a b iha ihb => intro s0 s n; simp [Body.tr, Body.nhid, iha, ihb]; omega
  | alt a b iha ihb => intro s0 s n; simp [Body.tr, Body.nhid, iha, ihb]; omega
  | ite c t e ihc iht ihe => intro s0 s n; simp [Body.tr, Body.nhid, ihc, iht, ihe]; omega
  | ifthen c t ihc iht => intro s0 s n; simp [Body.tr, Body.nhid, ihc, iht]; omega
  | not b ih => intro s0 s n; simp [Body.tr, Body.nhid, ih]; omega
  | _ => intro s0 s n; simp [Body.tr, Body.nhid]

theorem range'_cons_append (n a b : Nat) :
    List.range' n (a + b + 1) = n :: (List.range' (n + 1) a ++ List.range' (n + 1 + a) b) := by
  rw [show a + b + 1 = (a + b) + 1 from rfl, List.range'_succ, List.range'_append_1]

/-- the reference translation is a correct threading; its hidden variables are exactly
    `n, n+1, …, n + nhid - 1` -/
theorem tr_threads (b : Body) :
    ∀ (s0 s : Term) (n : Nat), Threads b s0 s (List.range' n b.nhid) (b.tr s0 s n).1 := by
  induction b with
  | eps => intro s0 s n; exact Threads.eps s0 s
  | terminals ts => intro s0 s n; exact Threads.terminals ts s0 s
  | nt f as => intro s0 s n; exact Threads.nt f as s0 s
  | seq a b iha ihb =>
    intro s0 s n
    have h1 := iha s0 (.var n) (n + 1)
    have h2 := ihb (.var n) s (n + 1 + a.nhid)
    have := Threads.seq h1 h2
    simpa [Body.tr, Body.nhid, tr_next, range'_cons_append] using this
  | alt a b iha ihb =>
    intro s0 s n
    have h1 := iha s0 s n
    have h2 := ihb s0 s (n + a.nhid)
    have := Threads.alt h1 h2
    simpa [Body.tr, Body.nhid, tr_next, List.range'_append_1] using this
  | ite c t e ihc iht ihe =>
    intro s0 s n
    have h1 := ihc s0 (.var n) (n + 1)
    have h2 := iht (.var n) s (n + 1 + c.nhid)
    have h3 := ihe s0 s (n + 1 + c.nhid + t.nhid)
    have := Threads.ite h1 h2 h3
    have e : List.range' n (c.nhid + t.nhid + e.nhid + 1) =
        n :: (List.range' (n + 1) c.nhid ++ List.range' (n + 1 + c.nhid) t.nhid ++
          List.range' (n + 1 + c.nhid + t.nhid) e.nhid) := by
      rw [List.range'_succ, List.range'_append_1, Nat.add_assoc (n + 1), List.range'_append_1]
    simpa [Body.tr, Body.nhid, tr_next, e] using this
  | ifthen c t ihc iht =>
    intro s0 s n
    have h1 := ihc s0 (.var n) (n + 1)
    have h2 := iht (.var n) s (n + 1 + c.nhid)
    have := Threads.ifthen h1 h2
    simpa [Body.tr, Body.nhid, tr_next, range'_cons_append] using this
  | block g => intro s0 s n; exact Threads.block g s0 s
  | not b ih =>
    intro s0 s n
    have h1 := ih s0 (.var n) (n + 1)
    have := Threads.not (s := s) h1
    simpa [Body.tr, Body.nhid, tr_next, List.range'_succ] using this
  | cut => intro s0 s n; exact Threads.cut s0 s
  | call1 g => intro s0 s n; exact Threads.call1 g s0 s
  | phrase g => intro s0 s n; exact Threads.phrase g s0 s
  | var v => intro s0 s n; exact Threads.var v s0 s

/-! ### which variables a translation mentions -/

mutual
  /-- does variable `v` occur in the term? -/
  def occT (v : Nat) : Term → Bool
    | .var w => v == w
    | .app _ as => occA v as
    | _ => false
  def occA (v : Nat) : Args → Bool
    | .nil => false
    | .cons t ts => occT v t || occA v ts
end

def occL (v : Nat) (ts : List Term) : Bool := ts.any (occT v)

/-- does variable `v` occur in the grammar body (the source)? -/
def Body.occ (v : Nat) : Body → Bool
  | .eps => false
  | .terminals ts => occL v ts
  | .nt _ as => occL v as
  | .seq a b => a.occ v || b.occ v
  | .alt a b => a.occ v || b.occ v
  | .ite c t e => c.occ v || t.occ v || e.occ v
  | .ifthen c t => c.occ v || t.occ v
  | .block g => occT v g
  | .not b => b.occ v
  | .cut => false
  | .call1 g => occT v g
  | .phrase g => occT v g
  | .var w => v == w

@[simp] theorem occL_nil (v : Nat) : occL v [] = false := rfl
@[simp] theorem occL_cons (v : Nat) (t : Term) (ts : List Term) :
    occL v (t :: ts) = (occT v t || occL v ts) := by simp [occL]
@[simp] theorem occL_append (v : Nat) (as bs : List Term) :
    occL v (as ++ bs) = (occL v as || occL v bs) := by simp [occL]

@[simp] theorem occA_ofList (v : Nat) : ∀ l : List Term, occA v (Args.ofList l) = occL v l
  | [] => rfl
  | t :: ts => by simp [Args.ofList, occA, occA_ofList v ts]

@[simp] theorem occT_a1 (v : Nat) (f : String) (x : Term) : occT v (Term.a1 f x) = occT v x := by
  simp [Term.a1, occT, occA]
@[simp] theorem occT_a2 (v : Nat) (f : String) (x y : Term) :
    occT v (Term.a2 f x y) = (occT v x || occT v y) := by
  simp [Term.a2, occT, occA]
@[simp] theorem occT_a3 (v : Nat) (f : String) (x y z : Term) :
    occT v (Term.a3 f x y z) = (occT v x || occT v y || occT v z) := by
  simp [Term.a3, occT, occA, Bool.or_assoc]
@[simp] theorem occT_var (v w : Nat) : occT v (.var w) = (v == w) := rfl
@[simp] theorem occT_atom (v : Nat) (a : String) : occT v (.atom a) = false := rfl

@[simp] theorem occT_list (v : Nat) (s : Term) : ∀ ts : List Term,
    occT v (Term.list ts s) = (occL v ts || occT v s)
  | [] => by simp [Term.list]
  | t :: ts => by
    have ih := occT_list v s ts
    simp only [Term.list, List.foldr_cons] at ih ⊢
    simp [Term.consT, occT, occA, ih, Bool.or_assoc]

theorem mk_append2 (f : String) (as : List Term) (x y : Term) :
    Term.mk f (as ++ [x, y]) = .app f (Args.ofList (as ++ [x, y])) := by
  cases as <;> rfl

@[simp] theorem occT_mk2 (v : Nat) (f : String) (as : List Term) (x y : Term) :
    occT v (Term.mk f (as ++ [x, y])) = (occL v as || (occT v x || occT v y)) := by
  simp [mk_append2, occT]

/-- every variable of a translation comes from the source body, from the two hidden arguments
    it was given, or is one of its own hidden variables -/
theorem threads_occ {b : Body} {s0 s : Term} {hs : List Nat} {g : Term} (h : Threads b s0 s hs g)
    (v : Nat) (hv : occT v g = true) :
    b.occ v = true ∨ occT v s0 = true ∨ occT v s = true ∨ v ∈ hs := by
  induction h with
  | seq _ _ iha ihb =>
    simp only [occT_a2, Bool.or_eq_true] at hv
    rcases hv with hv | hv
    · rcases iha hv with h | h | h | h <;> simp_all [Body.occ]
    · rcases ihb hv with h | h | h | h <;> simp_all [Body.occ]
  | alt _ _ iha ihb =>
    simp only [occT_a2, Bool.or_eq_true] at hv
    rcases hv with hv | hv
    · rcases iha hv with h | h | h | h <;> simp_all [Body.occ]
    · rcases ihb hv with h | h | h | h <;> simp_all [Body.occ]
  | ite _ _ _ ihc iht ihe =>
    simp only [occT_a2, Bool.or_eq_true] at hv
    rcases hv with (hv | hv) | hv
    · rcases ihc hv with h | h | h | h <;> simp_all [Body.occ]
    · rcases iht hv with h | h | h | h <;> simp_all [Body.occ]
    · rcases ihe hv with h | h | h | h <;> simp_all [Body.occ]
  | ifthen _ _ ihc iht =>
    simp only [occT_a2, Bool.or_eq_true] at hv
    rcases hv with hv | hv
    · rcases ihc hv with h | h | h | h <;> simp_all [Body.occ]
    · rcases iht hv with h | h | h | h <;> simp_all [Body.occ]
  | not _ ih =>
    simp only [occT_a2, occT_a1, Bool.or_eq_true] at hv
    rcases hv with hv | hv | hv
    · rcases ih hv with h | h | h | h <;> simp_all [Body.occ]
    · simp_all
    · simp_all
  | _ => simp_all [Body.occ] <;> grind

/-! ### the reader does not invent variables -/

mutual
  theorem spine_occ (v : Nat) : (t : Term) → occL v t.spine.1 = true → occT v t = true
    | .app f as, h => by
      unfold Term.spine at h
      split at h
      · simpa [occT] using spineArgs_occ v (.app f as) as h
      · simp at h
    | .var _, h => by simp [Term.spine] at h
    | .atom _, h => by simp [Term.spine] at h
    | .int _, h => by simp [Term.spine] at h
    | .flt _, h => by simp [Term.spine] at h
    | .str _, h => by simp [Term.spine] at h
  theorem spineArgs_occ (v : Nat) (whole : Term) :
      (as : Args) → occL v (Args.spineArgs whole as).1 = true → occA v as = true
    | .cons h (.cons t .nil), hh => by
      simp only [Args.spineArgs, occL_cons, Bool.or_eq_true] at hh
      rcases hh with hh | hh
      · simp [occA, hh]
      · simp [occA, spine_occ v t hh]
    | .nil, hh => by simp [Args.spineArgs] at hh
    | .cons _ .nil, hh => by simp [Args.spineArgs] at hh
    | .cons _ (.cons _ (.cons _ _)), hh => by simp [Args.spineArgs] at hh
end

theorem terminalsOf_occ (v : Nat) (t : Term) (ts : List Term) (h : terminalsOf t = .ok ts)
    (ho : occL v ts = true) : occT v t = true := by
  unfold terminalsOf at h
  split at h
  · simp at h
  · rename_i elems a heq
    split at h
    · simp only [Except.ok.injEq] at h
      subst h
      apply spine_occ
      rw [heq]; exact ho
    · simp at h
  · simp at h

theorem mkAlt_occ (v : Nat) (a b : Body) : (mkAlt a b).occ v = (a.occ v || b.occ v) := by
  cases a <;> simp [mkAlt, Body.occ]

theorem occL_toList (v : Nat) : ∀ as : Args, occL v as.toList = occA v as
  | .nil => rfl
  | .cons t ts => by simp [Args.toList, occA, occL_toList v ts]

/-- a variable of the body that was read occurs in the term it was read from -/
theorem ofTerm_occ (v : Nat) (t : Term) :
    ∀ b, Body.ofTerm t = .ok b → b.occ v = true → occT v t = true := by
  fun_induction Body.ofTerm t <;> intro b hb ho <;>
    (try simp only [Except.ok.injEq, reduceCtorEq] at hb) <;> (try subst hb)
  case case5 h t ts hts =>
    have := terminalsOf_occ v _ ts hts (by simpa [Body.occ] using ho)
    simpa [occT, occA] using this
  all_goals simp_all [Body.occ, occT, occA, mkAlt_occ, occL_toList]
  all_goals grind

/-! ### instantiating the hidden arguments -/

mutual
  /-- apply a substitution (a total function on variables) -/
  def substT (σ : Nat → Term) : Term → Term
    | .var w => σ w
    | .app f as => .app f (substA σ as)
    | t => t
  def substA (σ : Nat → Term) : Args → Args
    | .nil => .nil
    | .cons t ts => .cons (substT σ t) (substA σ ts)
end

mutual
  theorem substT_id (σ : Nat → Term) :
      (t : Term) → (∀ w, occT w t = true → σ w = .var w) → substT σ t = t
    | .var w, h => by simpa [substT] using h w (by simp)
    | .app f as, h => by
      simp only [substT]
      rw [substA_id σ as (fun w hw => h w (by simpa [occT] using hw))]
    | .atom _, _ => rfl
    | .int _, _ => rfl
    | .flt _, _ => rfl
    | .str _, _ => rfl
  theorem substA_id (σ : Nat → Term) :
      (as : Args) → (∀ w, occA w as = true → σ w = .var w) → substA σ as = as
    | .nil, _ => rfl
    | .cons t ts, h => by
      simp only [substA]
      rw [substT_id σ t (fun w hw => h w (by simp [occA, hw])),
          substA_id σ ts (fun w hw => h w (by simp [occA, hw]))]
end

theorem substL_id (σ : Nat → Term) : ∀ (ts : List Term), (∀ w, occL w ts = true → σ w = .var w) →
    ts.map (substT σ) = ts
  | [], _ => rfl
  | t :: ts, h => by
    simp only [List.map_cons]
    rw [substT_id σ t (fun w hw => h w (by simp [hw])),
        substL_id σ ts (fun w hw => h w (by simp [hw]))]

@[simp] theorem substA_ofList (σ : Nat → Term) : ∀ l : List Term,
    substA σ (Args.ofList l) = Args.ofList (l.map (substT σ))
  | [] => rfl
  | t :: ts => by simp [Args.ofList, substA, substA_ofList σ ts]

@[simp] theorem substT_a1 (σ : Nat → Term) (f : String) (x : Term) :
    substT σ (Term.a1 f x) = Term.a1 f (substT σ x) := by simp [Term.a1, substT, substA]
@[simp] theorem substT_a2 (σ : Nat → Term) (f : String) (x y : Term) :
    substT σ (Term.a2 f x y) = Term.a2 f (substT σ x) (substT σ y) := by
  simp [Term.a2, substT, substA]
@[simp] theorem substT_a3 (σ : Nat → Term) (f : String) (x y z : Term) :
    substT σ (Term.a3 f x y z) = Term.a3 f (substT σ x) (substT σ y) (substT σ z) := by
  simp [Term.a3, substT, substA]

theorem substT_list (σ : Nat → Term) (s : Term) : ∀ ts : List Term,
    substT σ (Term.list ts s) = Term.list (ts.map (substT σ)) (substT σ s)
  | [] => by simp [Term.list]
  | t :: ts => by
    have ih := substT_list σ s ts
    simp only [Term.list, List.foldr_cons, List.map_cons] at ih ⊢
    simp [Term.consT, substT, substA, ih]

theorem substT_mk2 (σ : Nat → Term) (f : String) (as : List Term) (x y : Term) :
    substT σ (Term.mk f (as ++ [x, y])) =
      Term.mk f (as.map (substT σ) ++ [substT σ x, substT σ y]) := by
  rw [mk_append2, mk_append2]
  simp [substT]

/-- the translation commutes with instantiating its two hidden arguments, for any substitution
    that leaves the variables of the source body and the hidden variables (≥ n) alone -/
theorem tr_subst (σ : Nat → Term) (b : Body) :
    ∀ (i o : Term) (n : Nat), (∀ w, n ≤ w → σ w = .var w) → (∀ w, b.occ w = true → σ w = .var w) →
      substT σ (b.tr i o n).1 = (b.tr (substT σ i) (substT σ o) n).1 := by
  induction b with
  | eps => intro i o n _ _; simp [Body.tr]
  | terminals ts =>
    intro i o n _ hb
    simp [Body.tr, substT_list, substL_id σ ts (fun w hw => hb w (by simpa [Body.occ] using hw))]
  | nt f as =>
    intro i o n _ hb
    simp [Body.tr, substT_mk2, substL_id σ as (fun w hw => hb w (by simpa [Body.occ] using hw))]
  | seq a b iha ihb =>
    intro i o n hn hb
    have ha := iha i (.var n) (n + 1) (fun w hw => hn w (by omega)) (fun w hw => hb w (by simp [Body.occ, hw]))
    have hb' := ihb (.var n) o (n + 1 + a.nhid) (fun w hw => hn w (by omega)) (fun w hw => hb w (by simp [Body.occ, hw]))
    have hv : substT σ (.var n) = .var n := by simpa [substT] using hn n (Nat.le_refl n)
    simp [Body.tr, tr_next, ha, hb', hv]
  | alt a b iha ihb =>
    intro i o n hn hb
    have ha := iha i o n hn (fun w hw => hb w (by simp [Body.occ, hw]))
    have hb' := ihb i o (n + a.nhid) (fun w hw => hn w (by omega)) (fun w hw => hb w (by simp [Body.occ, hw]))
    simp [Body.tr, tr_next, ha, hb']
  | ite c t e ihc iht ihe =>
    intro i o n hn hb
    have hc := ihc i (.var n) (n + 1) (fun w hw => hn w (by omega)) (fun w hw => hb w (by simp [Body.occ, hw]))
    have ht := iht (.var n) o (n + 1 + c.nhid) (fun w hw => hn w (by omega)) (fun w hw => hb w (by simp [Body.occ, hw]))
    have he := ihe i o (n + 1 + c.nhid + t.nhid) (fun w hw => hn w (by omega)) (fun w hw => hb w (by simp [Body.occ, hw]))
    have hv : substT σ (.var n) = .var n := by simpa [substT] using hn n (Nat.le_refl n)
    simp [Body.tr, tr_next, hc, ht, he, hv]
  | ifthen c t ihc iht =>
    intro i o n hn hb
    have hc := ihc i (.var n) (n + 1) (fun w hw => hn w (by omega)) (fun w hw => hb w (by simp [Body.occ, hw]))
    have ht := iht (.var n) o (n + 1 + c.nhid) (fun w hw => hn w (by omega)) (fun w hw => hb w (by simp [Body.occ, hw]))
    have hv : substT σ (.var n) = .var n := by simpa [substT] using hn n (Nat.le_refl n)
    simp [Body.tr, tr_next, hc, ht, hv]
  | block g =>
    intro i o n _ hb
    simp [Body.tr, substT_id σ g (fun w hw => hb w (by simpa [Body.occ] using hw))]
  | not b ih =>
    intro i o n hn hb
    have h1 := ih i (.var n) (n + 1) (fun w hw => hn w (by omega)) (fun w hw => hb w (by simpa [Body.occ] using hw))
    have hv : substT σ (.var n) = .var n := by simpa [substT] using hn n (Nat.le_refl n)
    simp [Body.tr, h1, hv]
  | cut => intro i o n _ _; simp [Body.tr, substT]
  | call1 g =>
    intro i o n _ hb
    simp [Body.tr, substT_id σ g (fun w hw => hb w (by simpa [Body.occ] using hw))]
  | phrase g =>
    intro i o n _ hb
    simp [Body.tr, substT_id σ g (fun w hw => hb w (by simpa [Body.occ] using hw))]
  | var v =>
    intro i o n _ hb
    have : σ v = .var v := hb v (by simp [Body.occ])
    simp [Body.tr, substT, this]

end PrologVerif.Grammar
