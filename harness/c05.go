package main

// C05, stream c05.matrix: every registered procedure × argument-shape vectors, run on the real
// engine (one fresh interpreter per case, in the isolated worker).  The oracle is in the Lean
// driver (Spec/IsoError.lean `isIsoError`): the call returned, the process is alive, an error is an
// ISO error term, and nothing is the residue of a recovered Go panic.

import (
	"context"
	"errors"
	"fmt"
	"math"
	"math/rand"
	"os"
	"path/filepath"
	"sort"
	"strconv"
	"strings"
	"sync"
	"time"

	"github.com/ichiban/prolog"
	"github.com/ichiban/prolog/engine"
)

func init() {
	register(&stream{name: "c05.matrix", gen: genC05Matrix, run: runC05Matrix, serial: true})
	// the same runner in a worker WITHOUT a Go memory limit (the limit makes the engine's free-memory
	// check answer before any allocation is attempted): sizes the runtime itself refuses (> 2^48 bytes;
	// nothing is allocated) must still come back as resource_error(memory)
	register(&stream{name: "c05.nolimit", gen: func(*rand.Rand, int, string) []string {
		return []string{
			"g length 2 var huge", "g length 2 var huge2", "g functor 3 var atom huge", "g functor 3 var atom huge2",
			"g length 2 var maxint", "g functor 3 var atom maxint",
		}
	}, run: runC05Matrix, serial: true})
}

// ---------------------------------------------------------------------------
// argument shapes
// ---------------------------------------------------------------------------

type c05Ctx struct {
	i       *prolog.Interpreter
	prelude []engine.Term // goals run before the goal under test (they bind variables used in its arguments)
}

type c05Shape struct {
	name  string
	build func(c *c05Ctx) engine.Term
}

var c05WorkDirOnce sync.Once
var c05WorkDir string

// c05Dir: a scratch directory the worker chdir()s into, so that open/consult on relative
// names cannot touch anything else.  It holds one small text file.
func c05Dir() string {
	c05WorkDirOnce.Do(func() {
		d, err := os.MkdirTemp("", "c05-")
		must(err)
		must(os.WriteFile(filepath.Join(d, "in.txt"), []byte("foo(bar). baz.\n"), 0o644))
		must(os.Chdir(d))
		c05WorkDir = d
	})
	return c05WorkDir
}

var c05Shapes = []c05Shape{
	{"var", func(*c05Ctx) engine.Term { return engine.NewVariable() }},
	{"atom", func(*c05Ctx) engine.Term { return atom("a") }},
	{"nil", func(*c05Ctx) engine.Term { return atom("[]") }},
	{"int1", func(*c05Ctx) engine.Term { return engine.Integer(1) }},
	{"int0", func(*c05Ctx) engine.Term { return engine.Integer(0) }},
	{"huge", func(*c05Ctx) engine.Term { return engine.Integer(100000000000000) }},
	{"huge2", func(*c05Ctx) engine.Term { return engine.Integer(1000000000000000000) }},
	{"neg", func(*c05Ctx) engine.Term { return engine.Integer(-1) }},
	{"minint", func(*c05Ctx) engine.Term { return engine.Integer(math.MinInt64) }},
	{"maxint", func(*c05Ctx) engine.Term { return engine.Integer(math.MaxInt64) }},
	{"minint1", func(*c05Ctx) engine.Term { return engine.Integer(math.MinInt64 + 1) }},
	{"maxint1", func(*c05Ctx) engine.Term { return engine.Integer(math.MaxInt64 - 1) }},
	{"float", func(*c05Ctx) engine.Term { return engine.Float(1.5) }},
	{"cmp", func(*c05Ctx) engine.Term { return compound("f", engine.NewVariable()) }},
	{"cut", func(*c05Ctx) engine.Term { return compound(",", atom("true"), atom("!")) }},
	{"conj", func(*c05Ctx) engine.Term { return compound(",", atom("a"), atom("b")) }},
	{"ncall", func(*c05Ctx) engine.Term { return compound(",", atom("true"), engine.Integer(1)) }},
	// a callable that enumerates up to max_integer: two answers, then it must fail
	{"gbet", func(*c05Ctx) engine.Term {
		return compound("between", engine.Integer(math.MaxInt64-1), engine.Integer(math.MaxInt64), engine.NewVariable())
	}},
	{"list", func(*c05Ctx) engine.Term { return engine.List(atom("a"), atom("b")) }},
	{"ilist", func(*c05Ctx) engine.Term { return engine.List(engine.Integer(1), engine.Integer(2)) }},
	{"plist", func(*c05Ctx) engine.Term { return engine.PartialList(engine.NewVariable(), atom("a")) }},
	{"imlist", func(*c05Ctx) engine.Term { return engine.PartialList(atom("b"), atom("a")) }},
	{"chars", func(*c05Ctx) engine.Term { return engine.CharList("ab") }},
	{"codes", func(*c05Ctx) engine.Term { return engine.CodeList("ab") }},
	// lists built by append/3: a `partial` whose prefix is a charList (closed / open tail)
	{"appc", func(c *c05Ctx) engine.Term {
		l := engine.NewVariable()
		c.prelude = append(c.prelude, compound("append", engine.CharList("ab"), engine.List(atom("c")), l))
		return l
	}},
	{"appo", func(c *c05Ctx) engine.Term {
		l := engine.NewVariable()
		c.prelude = append(c.prelude, compound("append", engine.CodeList("ab"), engine.NewVariable(), l))
		return l
	}},
	// the same encoding one level down: f(L), L built by append/3
	{"cmpapp", func(c *c05Ctx) engine.Term {
		l := engine.NewVariable()
		c.prelude = append(c.prelude, compound("append", engine.CharList("ab"), engine.NewVariable(), l))
		return compound("f", l)
	}},
	{"sin", func(*c05Ctx) engine.Term { return engine.NewInputTextStream(strings.NewReader("foo(bar). baz.\n")) }},
	{"sout", func(*c05Ctx) engine.Term { return engine.NewOutputTextStream(&strings.Builder{}) }},
	{"sbin", func(*c05Ctx) engine.Term { return engine.NewInputBinaryStream(strings.NewReader("\x01\xff")) }},
	{"closed", func(c *c05Ctx) engine.Term {
		s := engine.NewVariable()
		c.prelude = append(c.prelude, compound("open", atom("in.txt"), atom("read"), s), compound("close", s))
		return s
	}},
	{"alias", func(*c05Ctx) engine.Term { return atom("user_input") }},
	{"aliaso", func(*c05Ctx) engine.Term { return atom("user_output") }},
	// values that let the argument checks of specific predicates pass, so that the code behind them runs
	{"atom2", func(*c05Ctx) engine.Term { return atom("foo") }},
	{"kwread", func(*c05Ctx) engine.Term { return atom("read") }},
	{"kwwrite", func(*c05Ctx) engine.Term { return atom("write") }},
	{"flag", func(*c05Ctx) engine.Term { return atom("double_quotes") }},
	{"pi", func(*c05Ctx) engine.Term { return compound("/", atom("foo"), engine.Integer(1)) }},
	{"pairs", func(*c05Ctx) engine.Term {
		return engine.List(compound("-", atom("b"), engine.Integer(2)), compound("-", atom("a"), engine.Integer(1)))
	}},
	{"optq", func(*c05Ctx) engine.Term { return engine.List(compound("quoted", atom("true"))) }},
	{"optt", func(*c05Ctx) engine.Term { return engine.List(compound("type", atom("binary"))) }},
	{"optvn", func(*c05Ctx) engine.Term {
		return engine.List(compound("variable_names", engine.List(compound("=", atom("X"), engine.NewVariable()))))
	}},
	{"bigcode", func(*c05Ctx) engine.Term { return engine.Integer(1114112) }},
	// (sizes kept small: the writer and acyclic_term/1 scan a `visited` list per node, i.e. they are quadratic in
	// the nesting depth — 20000 levels take ~17 s to write; slow, but the property does not bound time)
	{"deep", func(*c05Ctx) engine.Term { // f(f(…f(a)…)), 400 deep
		var t engine.Term = atom("a")
		for k := 0; k < 400; k++ {
			t = compound("f", t)
		}
		return t
	}},
	{"long", func(*c05Ctx) engine.Term { // [0,1,…,399]
		es := make([]engine.Term, 400)
		for k := range es {
			es[k] = engine.Integer(k)
		}
		return engine.List(es...)
	}},
}

var c05ShapeIdx = func() map[string]int {
	m := map[string]int{}
	for i, s := range c05Shapes {
		m[s.name] = i
	}
	return m
}()

// ---------------------------------------------------------------------------
// procedures (the matrix follows the code: hook VerifProcedures on a fresh interpreter)
// ---------------------------------------------------------------------------

type c05Proc struct {
	name  string
	arity int
}

func c05Procs() []c05Proc {
	i, _ := newInterp("")
	var out []c05Proc
	for _, p := range i.VM.VerifProcedures() {
		out = append(out, c05Proc{p.Name, p.Arity})
	}
	sort.Slice(out, func(a, b int) bool {
		if out[a].name != out[b].name {
			return out[a].name < out[b].name
		}
		return out[a].arity < out[b].arity
	})
	return out
}

// halt/0, halt/1 end the process by design (excluded by the property).
func c05Excluded(p c05Proc) bool { return p.name == "halt" }

// ---------------------------------------------------------------------------
// generator
// ---------------------------------------------------------------------------

func c05Case(p c05Proc, vec []int) string {
	var sb strings.Builder
	fmt.Fprintf(&sb, "g %s %d", encName(p.name), p.arity)
	for _, v := range vec {
		sb.WriteByte(' ')
		sb.WriteString(c05Shapes[v].name)
	}
	return sb.String()
}

// pairwise returns a pairwise-covering set of vectors of length k over v values:
// rows (i, j) in Z_p × Z_p, column c holds (i + c·j) mod p; for c ≠ c' the map
// (i,j) ↦ (i + c·j, i + c'·j) is a bijection of Z_p², so every pair of values occurs in every
// pair of columns (p prime ≥ v, p ≥ k; values ≥ v are folded by the PRNG).
func pairwise(r *rand.Rand, k, v int) [][]int {
	p := v
	for !isPrime(p) || p < k {
		p++
	}
	var rows [][]int
	for i := 0; i < p; i++ {
		for j := 0; j < p; j++ {
			row := make([]int, k)
			for c := 0; c < k; c++ {
				x := (i + c*j) % p
				if x >= v {
					x = r.Intn(v)
				}
				row[c] = x
			}
			rows = append(rows, row)
		}
	}
	return rows
}

func isPrime(n int) bool {
	if n < 2 {
		return false
	}
	for d := 2; d*d <= n; d++ {
		if n%d == 0 {
			return false
		}
	}
	return true
}

// the core shapes: the quick tier runs the complete matrix over these (and a sample of the rest)
var c05Core = []string{"var", "atom", "nil", "int1", "int0", "huge", "neg", "minint", "maxint", "float", "cmp", "ncall",
	"list", "plist", "imlist", "chars", "appo", "sin", "closed"}

// c05Matrix: all vectors for arity ≤ 2, a pairwise-covering array for arity 3–8, over the shapes `idx`
func c05Matrix(r *rand.Rand, idx []int) (small, big []string) {
	v := len(idx)
	pick := func(row []int) []int {
		out := make([]int, len(row))
		for k, x := range row {
			out[k] = idx[x]
		}
		return out
	}
	for _, p := range c05Procs() {
		if c05Excluded(p) {
			continue
		}
		switch {
		case p.arity == 0:
			small = append(small, c05Case(p, nil))
		case p.arity == 1:
			for a := 0; a < v; a++ {
				small = append(small, c05Case(p, pick([]int{a})))
			}
		case p.arity == 2:
			for a := 0; a < v; a++ {
				for b := 0; b < v; b++ {
					big = append(big, c05Case(p, pick([]int{a, b})))
				}
			}
		default:
			for _, row := range pairwise(r, p.arity, v) {
				big = append(big, c05Case(p, pick(row)))
			}
		}
	}
	return small, big
}

// the boundary integers (and an unbound variable): every vector over these for arity ≤ 3, every pair of
// positions for higher arities — pairwise coverage does not reach e.g. between(max, max, X)
var c05IntShapes = []string{"var", "minint", "minint1", "neg", "int0", "int1", "maxint1", "maxint"}

// fillers that let an integer argument check be reached (arg/3, nth0/3, sub_atom/5 …)
var c05Fillers = []string{"atom", "cmp", "list", "chars"}

func c05Idx(names []string) []int {
	out := make([]int, len(names))
	for k, n := range names {
		i, ok := c05ShapeIdx[n]
		if !ok {
			panic("unknown shape " + n)
		}
		out[k] = i
	}
	return out
}

func c05IntRows(r *rand.Rand, tier string) []string {
	ints := c05Idx(c05IntShapes)
	fill := c05Idx(c05Fillers)
	v := c05ShapeIdx["var"]
	var out []string
	for _, p := range c05Procs() {
		if c05Excluded(p) || p.arity < 2 {
			continue
		}
		if p.arity <= 3 {
			vec := make([]int, p.arity)
			var rec func(k int)
			rec = func(k int) {
				if k == p.arity {
					out = append(out, c05Case(p, vec))
					return
				}
				for _, x := range ints {
					vec[k] = x
					rec(k + 1)
				}
			}
			rec(0)
			if tier == "thorough" && p.arity == 3 { // one filler, integers elsewhere
				for fp := 0; fp < 3; fp++ {
					for _, f := range fill {
						for _, a := range ints {
							for _, b := range ints {
								vec := []int{a, b}
								row := append(append(append([]int{}, vec[:fp]...), f), vec[fp:]...)
								out = append(out, c05Case(p, row))
							}
						}
					}
				}
			}
			continue
		}
		if tier != "thorough" && (p.name == "call" || p.name == "maplist") {
			continue
		}
		for a := 0; a < p.arity; a++ {
			for b := a + 1; b < p.arity; b++ {
				for _, x := range ints {
					for _, y := range ints {
						vec := make([]int, p.arity)
						for k := range vec {
							vec[k] = v
							if tier == "thorough" && r.Intn(2) == 0 {
								vec[k] = fill[r.Intn(len(fill))]
							}
						}
						vec[a], vec[b] = x, y
						out = append(out, c05Case(p, vec))
					}
				}
			}
		}
	}
	return out
}

// edge atoms in every position kind: quick — per (procedure, atom) three random (kind, argument position,
// context) choices; thorough — every (procedure, argument position, atom, kind) with one random context
func c05EdgeRows(r *rand.Rand, tier string) []string {
	ctxs := c05Idx([]string{"var", "atom", "int1", "list"})
	nk := len(c05EdgeKinds)
	var out []string
	for _, p := range c05Procs() {
		if c05Excluded(p) || p.arity == 0 {
			continue
		}
		row := func(pos, shape int) {
			vec := make([]int, p.arity)
			c := ctxs[r.Intn(len(ctxs))]
			for k := range vec {
				vec[k] = c
			}
			vec[pos] = shape
			out = append(out, c05Case(p, vec))
		}
		for ai := range c05EdgeAtoms {
			if tier == "thorough" {
				for pos := 0; pos < p.arity; pos++ {
					for k := 0; k < nk; k++ {
						row(pos, c05BaseCount+ai*nk+k)
					}
				}
			} else {
				for n := 0; n < 3; n++ {
					row(r.Intn(p.arity), c05BaseCount+ai*nk+r.Intn(nk))
				}
			}
		}
	}
	return out
}

// evaluable expressions in both argument positions of the arithmetic predicates
func c05EvalRows() []string {
	var out []string
	for _, p := range c05Procs() {
		switch p.name {
		case "is", "=:=", "=\\=", "<", "=<", ">", ">=", "succ":
		default:
			continue
		}
		if p.arity != 2 {
			continue
		}
		for _, x := range c05ExprShapeNames {
			xi := c05ShapeIdx[x]
			for _, other := range []string{"var", "int1", "float"} {
				oi := c05ShapeIdx[other]
				out = append(out, c05Case(p, []int{oi, xi}), c05Case(p, []int{xi, oi}))
			}
			out = append(out, c05Case(p, []int{xi, xi}))
		}
	}
	return out
}

// representation shapes (variables bound by an earlier goal of the conjunction) in every argument position of every
// procedure, the other arguments all unbound / all [a,b] / alternating, in the execution contexts T (top-level
// conjunction), S (stored clause) and — thorough tier — Rc Rk Rf Rn (recompiled under call/catch/findall/\\+).
// Complete and seed-independent in both tiers.
func c05BoundRows(tier string) []string {
	v, l := c05ShapeIdx["var"], c05ShapeIdx["list"]
	var out []string
	for _, p := range c05Procs() {
		if c05Excluded(p) || p.arity == 0 {
			continue
		}
		for pos := 0; pos < p.arity; pos++ {
			for _, b := range c05BoundShapeNames {
				fillers := [][2]int{{v, v}, {l, l}, {v, l}, {l, v}}
				if p.arity == 1 {
					fillers = fillers[:1]
				}
				for fi, fl := range fillers {
					vec := make([]int, p.arity)
					for k := range vec {
						vec[k] = fl[k%2]
					}
					vec[pos] = c05ShapeIdx[b]
					row := strings.TrimPrefix(c05Case(p, vec), "g")
					out = append(out, "gc:T"+row)
					if fi < 2 {
						out = append(out, "gc:S"+row)
					}
					if tier == "thorough" && fi < 2 {
						out = append(out, "gc:Rc"+row, "gc:Rk"+row, "gc:Rf"+row, "gc:Rn"+row)
					}
				}
			}
		}
	}
	return out
}

// interpreters made by prolog.New(nil, nil) (README: "if you don't need user_input/user_output")
func c05NilRows() []string {
	var out []string
	for _, p := range c05Procs() {
		if c05Excluded(p) {
			continue
		}
		for _, first := range []string{"var", "atom", "alias", "aliaso"} {
			vec := make([]int, p.arity)
			for k := range vec {
				vec[k] = c05ShapeIdx["var"]
				if first == "atom" {
					vec[k] = c05ShapeIdx["atom"]
				}
			}
			if p.arity > 0 {
				vec[0] = c05ShapeIdx[first]
			} else if first != "var" {
				continue
			}
			out = append(out, "gn"+strings.TrimPrefix(c05Case(p, vec), "g"))
		}
	}
	return out
}

func genC05Matrix(r *rand.Rand, n int, tier string) []string {
	all := make([]int, c05BaseCount)
	for k := range all {
		all[k] = k
	}
	out := []string{"procs"}
	small, big := c05Matrix(r, all)
	out = append(out, small...)
	out = append(out, c05NilRows()...)
	seen := map[string]bool{}
	add := func(cs []string) {
		for _, c := range cs {
			if !seen[c] {
				seen[c] = true
				out = append(out, c)
			}
		}
	}
	add(c05IntRows(r, tier))
	add(c05EvalRows())
	add(c05BoundRows(tier))
	add(c05EdgeRows(r, tier))
	add(c05CodeRows())
	if tier == "thorough" || n <= 0 || n >= len(big) {
		add(big)
		return out
	}
	// quick: arity ≤ 1 over all shapes; the complete matrix over the core shapes; a uniform sample of the rest
	_, coreBig := c05Matrix(r, c05Idx(c05Core))
	add(coreBig)
	r.Shuffle(len(big), func(a, b int) { big[a], big[b] = big[b], big[a] })
	for _, c := range big {
		if n <= 0 {
			break
		}
		if !seen[c] {
			seen[c] = true
			out = append(out, c)
			n--
		}
	}
	return out
}

// ---------------------------------------------------------------------------
// runner
// ---------------------------------------------------------------------------

const c05GoalTimeout = 2 * time.Second

// c05ErrWire is errWire, except that error(system_error, Msg) — what catch/3 makes of a Go error that
// is not a Prolog exception — keeps its message: it is the trace of a non-ISO error.
func c05ErrWire(err error) string {
	var ex engine.Exception
	if errors.As(err, &ex) {
		if c, ok := ex.Term().(engine.Compound); ok && c.Functor().String() == "error" && c.Arity() == 2 {
			if a, ok := c.Arg(0).(engine.Atom); ok && a.String() == "system_error" {
				return "syserr " + wire(c.Arg(1), nil, newVarNamer())
			}
		}
	}
	return errWire(err)
}

func c05Result(ok bool, err error) string {
	switch {
	case errors.Is(err, context.DeadlineExceeded):
		return "TIMEOUT"
	case err != nil:
		return c05ErrWire(err)
	case ok:
		return "true"
	default:
		return "false"
	}
}

func c05Class(res string) string {
	f := strings.Fields(res)
	if len(f) == 0 {
		return "empty"
	}
	if f[0] == "err" && len(f) > 1 {
		t := f[1]
		if k := strings.IndexByte(t, ':'); k >= 0 && t[0] == 'C' {
			return t[k+1:]
		}
		return strings.TrimPrefix(t, "A")
	}
	return f[0]
}

func runC05Matrix(payload string) string {
	c05Dir()
	f := strings.Fields(payload)
	if f[0] == "procs" {
		var names []string
		for _, p := range c05Procs() {
			names = append(names, encName(p.name)+"/"+strconv.Itoa(p.arity))
		}
		return "procs " + strings.Join(names, " ") + " ### nt=0 kind=procs"
	}
	execCtx := ""
	if strings.HasPrefix(f[0], "gc:") {
		execCtx = f[0][3:]
	}
	if (f[0] != "g" && f[0] != "gn" && execCtx == "") || len(f) < 3 {
		panic("bad c05.matrix case: " + payload)
	}
	name, err := decName(f[1])
	must(err)
	arity, err := strconv.Atoi(f[2])
	must(err)
	if len(f) != 3+arity {
		panic("bad c05.matrix case (arity): " + payload)
	}
	i, _ := newInterp("")
	if f[0] == "gn" {
		i = prolog.New(nil, nil)
	}
	c05RegisterBind(i)
	c := &c05Ctx{i: i}
	args := make([]engine.Term, arity)
	for j := range args {
		k, ok := c05ShapeIdx[f[3+j]]
		if !ok {
			panic("unknown shape " + f[3+j])
		}
		args[j] = c05Shapes[k].build(c)
	}
	var goal engine.Term = atom(name)
	if arity > 0 {
		goal = atom(name).Apply(args...)
	}
	// One conjunction (prelude goals, a marker, the goal under test), compiled as a whole: the variables the
	// prelude binds are still unbound when the goal is compiled, so at run time the predicate receives the
	// term in the encoding the prelude produced (Call would otherwise rebuild it while compiling the goal).
	preludeOK := false
	i.Register0(atom("$prelude_done"), func(_ *engine.VM, k engine.Cont, env *engine.Env) *engine.Promise {
		preludeOK = true
		return k(env)
	})
	full := goal
	if execCtx != "" {
		full = c05InContext(i, execCtx, c.prelude, goal, args)
	} else if len(c.prelude) > 0 {
		if arity == 2 && (name == "," || name == ";" || name == "->") {
			// control constructs are compiled inline: a non-callable argument would make the whole
			// conjunction (prelude included) a type_error(callable, _) at compile time
			full = compound("call", goal)
		}
		full = compound(",", atom("$prelude_done"), full)
		for k := len(c.prelude) - 1; k >= 0; k-- {
			full = compound(",", c.prelude[k], full)
		}
	}
	// run 1: backtrack through up to 20 answers and, when there are fewer, one more redo after the last one (redo
	// paths of the predicate; the answer count is judged against the relation where the spec knows it);
	// run 2: the same goal once more on the interpreter as run 1 left it (state-dependent paths: asserted
	// clauses, opened/closed streams, ops).  Then the host-side API surface on the error / the first answer.
	const maxAnswers = 20
	var firstEnv *engine.Env
	var lastErr error
	count := 0
	once := func(max int, record bool) string {
		ctx, cancel := context.WithTimeout(context.Background(), c05GoalTimeout)
		defer cancel()
		preludeOK = len(c.prelude) == 0
		n := 0
		_, ferr := engine.Call(&i.VM, full, func(env *engine.Env) *engine.Promise {
			n++
			if record && n == 1 {
				firstEnv = env
			}
			return engine.Bool(n >= max)
		}, nil).Force(ctx)
		if record {
			count, lastErr = n, ferr
		}
		if !preludeOK {
			return "PRELUDE-FAILED " + c05Result(false, ferr)
		}
		return c05Result(n > 0, ferr)
	}
	res1 := once(maxAnswers, true)
	cnt := strconv.Itoa(count)
	if count >= maxAnswers {
		cnt += "+"
	}
	res2 := once(1, false)
	var answer engine.Term
	if count > 0 {
		answer = goal
	}
	host := hostSurface(&i.VM, lastErr, answer, firstEnv)
	nt := 0
	if strings.HasPrefix(res1, "err ") || strings.HasPrefix(res2, "err ") {
		nt = 1
	}
	return fmt.Sprintf("%s ; %s ; n %s ; host %s ### nt=%d out=%s out2=%s ar=%d io=%s host=%s", res1, res2, cnt, host, nt,
		c05Class(res1), c05Class(res2), arity, f[0], strings.Fields(host)[0])
}
