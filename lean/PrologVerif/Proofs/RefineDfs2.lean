/-
  Refine, part 11b — the search, continued: the clause compiled by `call/1` (`tc_succ`), the
  promises (`tp_succ`), and the induction on the fuel of the search (`t_all`).
-/
import PrologVerif.Proofs.RefineDfsNeg
import PrologVerif.Proofs.RefineDfsWrap
namespace PrologVerif.Refine
open PrologVerif PrologVerif.VM PrologVerif.DecompileCompile PrologVerif.Activation
  PrologVerif.RefineITree PrologVerif.RefineRobinson PrologVerif.VMScoped
  PrologVerif.Promise PrologVerif.DFSG PrologVerif.ForceDFSGConv

section
variable {fl : Bool} {mo : Option Nat} {tmpl : Term} {max : Nat} {prog : List Term} {F : Nat}

theorem tp_succ {k : Nat} (ihA : TAk fl mo tmpl max prog F k) (ihD : TDk fl mo tmpl max prog F k)
    (ihPall : ∀ j, j ≤ k → TPk fl mo tmpl max prog F j) (hprog : ∀ c ∈ prog, clauseS fl c = true)
    (ihF : ∀ nF, F = nF + 1 → ∀ (mo' : Option Nat) (k' : Nat), TPk fl mo' tmpl max prog nF k') :
    TPk fl mo tmpl max prog F (k + 1) := by
  intro p lv m sig m' hd hgood d0 ans0 r0 hspecW hok0 hst hlt
  obtain ⟨j, r, hspec, rfl⟩ := hspecW
  have hok : LvOK mo lv (d0 + j) := hok0.deeper (Nat.le_add_right _ _)
  generalize hdj : d0 + j = d at hspec hok
  suffices hmain : sig = .illScoped ∨ Match mo tmpl max prog lv ans0 m m' sig r by
    rcases hmain with h | h
    · exact Or.inl h
    · exact Or.inr (match_postN j d0 hok0 h)
  clear hok0 hdj
  cases hspec with
  | fail hans =>
    rw [leaf_ok' rfl rfl] at hd
    simp only [Option.some.injEq, Prod.mk.injEq] at hd
    obtain ⟨rfl, rfl⟩ := hd
    exact Or.inr ⟨⟨[], (by show m.user.answers = [] ++ ans0; simpa using hans), .nil, fun _ => rfl⟩,
      Or.inl ⟨rfl, rfl, by rw [show (tick m).user.answers = m.user.answers from rfl, hans]; exact hlt⟩,
      stOK_tick hst, Nat.le_refl _⟩
  | done hmo hans =>
    rename_i dN
    rw [leaf_ok' rfl rfl] at hd
    simp only [Option.some.injEq, Prod.mk.injEq] at hd
    obtain ⟨rfl, rfl⟩ := hd
    subst hmo
    exact Or.inr ⟨⟨[], (by show m.user.answers = [] ++ ans0; simpa using hans), .nil, fun _ => rfl⟩,
      Or.inr (Or.inr (Or.inl ⟨rfl, rfl⟩)), stOK_tick hst, Nat.le_refl _⟩
  | answer hmo hans hrel =>
    rename_i a q
    subst hmo
    by_cases hc : (a :: ans0).length ≥ max
    · rw [if_pos hc] at hd
      rw [leaf_ok' rfl rfl] at hd
      simp only [Option.some.injEq, Prod.mk.injEq] at hd
      obtain ⟨rfl, rfl⟩ := hd
      have h1 : max - ans0.length = 1 := by simp only [List.length_cons] at hc; omega
      refine Or.inr ⟨⟨[a], (by show m.user.answers = [a] ++ ans0; simpa using hans), .cons hrel .nil, fun h => by cases h⟩,
        Or.inr (Or.inr (Or.inl ⟨rfl, by simp [h1, foundStop]⟩)), stOK_tick hst, Nat.le_refl _⟩
    · rw [if_neg hc] at hd
      rw [leaf_ok' rfl rfl] at hd
      simp only [Option.some.injEq, Prod.mk.injEq] at hd
      obtain ⟨rfl, rfl⟩ := hd
      have h1 : max - ans0.length ≠ 1 := by simp only [List.length_cons] at hc; omega
      refine Or.inr ⟨⟨[a], (by show m.user.answers = [a] ++ ans0; simpa using hans), .cons hrel .nil, fun h => by cases h⟩,
        Or.inl ⟨rfl, by simp [h1], ?_⟩, stOK_tick hst, Nat.le_refl _⟩
      rw [show (tick m).user.answers = m.user.answers from rfl, hans]
      simp only [List.length_cons] at hc ⊢
      omega
  | err hans =>
    rename_i F' c1 c2
    rw [leaf_err' rfl rfl] at hd
    simp only [Option.some.injEq, Prod.mk.injEq] at hd
    obtain ⟨rfl, rfl⟩ := hd
    exact Or.inr ⟨⟨[], (by show m.user.answers = [] ++ ans0; simpa using hans), .nil, fun _ => rfl⟩,
      Or.inr (Or.inr (Or.inr ⟨F', c1, c2, [], none, rfl, rfl⟩)), stOK_tick hst, Nat.le_refl _⟩
  | alts hans hid0 hshape hsim hs =>
    rename_i id its g K env R q nv n
    cases its with
    | nil =>
      rw [leaf_ok' rfl rfl] at hd
      simp only [Option.some.injEq, Prod.mk.injEq] at hd
      obtain ⟨rfl, rfl⟩ := hd
      cases n with
      | zero => rw [List.filterMap_nil, solveAlts_zero] at hs; cases hs
      | succ n' =>
        rw [List.filterMap_nil, solveAlts_nil] at hs
        simp only [SLD.failed, Option.some.injEq] at hs
        subst hs
        exact Or.inr ⟨⟨[], (by show m.user.answers = [] ++ ans0; simpa using hans), .nil, fun _ => rfl⟩,
          Or.inl ⟨rfl, rfl, by rw [show (tick m).user.answers = m.user.answers from rfl, hans]; exact hlt⟩,
          stOK_tick hst, Nat.le_refl _⟩
    | cons it its' =>
      by_cases hid : (id ≠ 0 ∧ (lv.map Prod.fst).contains id)
      · rw [ill_id' rfl hid] at hd
        simp only [Option.some.injEq, Prod.mk.injEq] at hd
        exact Or.inl hd.1.symm
      · rw [nocut' rfl hid rfl] at hd
        have hf : afterChild ({ ({ id := id, delayed := (it :: its').map (fun it => Thunk.clause it.1 (argList g) K env id) } : Pr) with cutParent := none }) =
            ({ id := id, delayed := its'.map (fun it => Thunk.clause it.1 (argList g) K env id) } : Pr) := by
          simp [afterChild]
        rw [hf] at hd
        simp only [List.map_cons] at hd
        have hidn : id ∉ lv.map Prod.fst := by
          intro hmem
          exact hid ⟨hid0, by simpa using hmem⟩
        have hgA : GoodA fl F k (Thunk.clause it.1 (argList g) K env id)
            { id := id, delayed := its'.map (fun it => Thunk.clause it.1 (argList g) K env id) }
            (lv.map Prod.fst) (tick m) := by
          intro x mx hx
          rw [← hf] at hx
          exact hgood x mx (.nocut (ts := its'.map (fun it => Thunk.clause it.1 (argList g) K env id)) rfl hid rfl hx)
        rcases ihA it its' id g K env R q nv n d r lv (tick m) sig m' ans0 hd hgA hans hid0 hidn hshape hsim hs
          hok (stOK_tick hst) hlt with hill | hm
        · exact Or.inl hill
        · exact Or.inr (hm.from (Nat.le_refl _))
  | direct hans hid0 hcode hvars hsim hs =>
    rename_i id ct K env R q nv n
    by_cases hid : (id ≠ 0 ∧ (lv.map Prod.fst).contains id)
    · rw [ill_id' rfl hid] at hd
      simp only [Option.some.injEq, Prod.mk.injEq] at hd
      exact Or.inl hd.1.symm
    · rw [nocut' rfl hid rfl] at hd
      have hf : afterChild ({ ({ id := id, delayed := [Thunk.clause ct [] K env id] } : Pr) with cutParent := none }) =
          ({ id := id, delayed := [] } : Pr) := by
        simp [afterChild]
      rw [hf] at hd
      have hidn : id ∉ lv.map Prod.fst := by
        intro hmem
        exact hid ⟨hid0, by simpa using hmem⟩
      have hgA : GoodA fl F k (Thunk.clause ct [] K env id) { id := id, delayed := [] }
          (lv.map Prod.fst) (tick m) := by
        intro x mx hx
        rw [← hf] at hx
        exact hgood x mx (.nocut (ts := []) rfl hid rfl hx)
      rcases ihD ct id K env R q nv n d r lv (tick m) sig m' ans0 hd hgA hans hid0 hidn hcode hvars hsim hs
        hok (stOK_tick hst) hlt with hill | hm
      · exact Or.inl hill
      · exact Or.inr (hm.from (Nat.le_refl _))
  | wrap hans hid0 hshape hsim hs =>
    rename_i id its cl c g K env R q nv n Fs
    cases its with
    | nil =>
      -- the wrapper clause alone
      simp only [List.map_nil, List.nil_append] at hd hgood
      by_cases hid : (id ≠ 0 ∧ (lv.map Prod.fst).contains id)
      · rw [ill_id' rfl hid] at hd
        simp only [Option.some.injEq, Prod.mk.injEq] at hd
        exact Or.inl hd.1.symm
      · rw [nocut' rfl hid rfl] at hd
        have hf : afterChild ({ ({ id := id, delayed := [Thunk.clause cl (argList g) K env id] } : Pr) with cutParent := none }) =
            ({ id := id, delayed := [] } : Pr) := by
          simp [afterChild]
        rw [hf] at hd
        have hidn : id ∉ lv.map Prod.fst := by
          intro hmem
          exact hid ⟨hid0, by simpa using hmem⟩
        cases k with
        | zero => simp [dfsAlts] at hd
        | succ k0 =>
        have hgA : GoodA fl F (k0 + 1) (Thunk.clause cl (argList g) K env id) { id := id, delayed := [] }
            (lv.map Prod.fst) (tick m) := by
          intro x mx hx
          rw [← hf] at hx
          exact hgood x mx (.nocut (ts := []) rfl hid rfl hx)
        obtain ⟨N, σ, π, D, G, hN, hW, hcg, hgr, hco, hq', hgD, _, _, hwr, hwb⟩ := hsim
        rcases tw_last (ihPall k0 (Nat.le_succ k0)) hprog hd hgA hans hid0 hidn hshape
          ⟨N, σ, π, D, G, hN, hW, hcg, hgr, hco, hq', hgD, hwr, hwb⟩ hs hok (stOK_tick hst) hlt with hill | hm
        · exact Or.inl hill
        · exact Or.inr (hm.from (Nat.le_refl _))
    | cons it its' =>
      simp only [List.map_cons, List.cons_append] at hd hgood
      by_cases hid : (id ≠ 0 ∧ (lv.map Prod.fst).contains id)
      · rw [ill_id' rfl hid] at hd
        simp only [Option.some.injEq, Prod.mk.injEq] at hd
        exact Or.inl hd.1.symm
      · rw [nocut' rfl hid rfl] at hd
        have hf : afterChild ({ ({ id := id, delayed := Thunk.clause it.1 (argList g) K env id ::
              (its'.map (fun it => Thunk.clause it.1 (argList g) K env id) ++ [Thunk.clause cl (argList g) K env id]) } : Pr)
              with cutParent := none }) =
            ({ id := id, delayed := its'.map (fun it => Thunk.clause it.1 (argList g) K env id) ++
              [Thunk.clause cl (argList g) K env id] } : Pr) := by
          simp [afterChild]
        rw [hf] at hd
        cases k with
        | zero => simp [dfsAlts] at hd
        | succ k0 =>
        have hgA : GoodA fl F (k0 + 1) (Thunk.clause it.1 (argList g) K env id)
            { id := id, delayed := its'.map (fun it => Thunk.clause it.1 (argList g) K env id) ++
              [Thunk.clause cl (argList g) K env id] } (lv.map Prod.fst) (tick m) := by
          intro x mx hx
          rw [← hf] at hx
          exact hgood x mx (.nocut (ts := its'.map (fun it => Thunk.clause it.1 (argList g) K env id) ++
            [Thunk.clause cl (argList g) K env id]) rfl hid rfl hx)
        rcases tw_dead (ihPall k0 (Nat.le_succ k0)) hd hgA hans hid0 hshape hsim hs hok (stOK_tick hst) hlt with
          hill | hm
        · exact Or.inl hill
        · exact Or.inr (hm.from (Nat.le_refl _))
  | neg hans hid0 hfl hsim hs =>
    rename_i id g c K env R q nv n l
    by_cases hid : (id ≠ 0 ∧ (lv.map Prod.fst).contains id)
    · rw [ill_id' rfl hid] at hd
      simp only [Option.some.injEq, Prod.mk.injEq] at hd
      exact Or.inl hd.1.symm
    · rw [nocut' rfl hid rfl] at hd
      have hf : afterChild ({ ({ id := id, delayed := [Thunk.negate g K env] } : Pr) with cutParent := none }) =
          ({ id := id, delayed := [] } : Pr) := by
        simp [afterChild]
      rw [hf] at hd
      have hidn : id ∉ lv.map Prod.fst := by
        intro hmem
        exact hid ⟨hid0, by simpa using hmem⟩
      cases k with
      | zero => simp [dfsAlts] at hd
      | succ k0 =>
      have hgA : GoodA fl F (k0 + 1) (Thunk.negate g K env) { id := id, delayed := [] }
          (lv.map Prod.fst) (tick m) := by
        intro x mx hx
        rw [← hf] at hx
        exact hgood x mx (.nocut (ts := []) rfl hid rfl hx)
      rcases tn_succ (ihPall k0 (Nat.le_succ k0)) hprog ihF hd hgA hans hid0 hidn hfl hsim hs hok (stOK_tick hst) hlt with
        hill | hm
      · exact Or.inl hill
      · exact Or.inr (hm.from (Nat.le_refl _))
  | cut hans hlcp hN hW hcg hgr hco hq hbnd hs =>
    rename_i pc vars kk cp l env R q nv n r' N σ π D G'
    rcases cut_core ihPall hprog hd hgood hans hlcp hN hW hcg hgr hco hq hbnd hs hok hst hlt with
      hill | ⟨sigB, rfl, hm⟩
    · exact Or.inl hill
    · exact Or.inr (match_afterCut hok hlcp hm)

theorem tp_zero : TPk fl mo tmpl max prog F 0 := by
  intro p lv m sig m' hd
  simp [dfsP] at hd

theorem ta_zero : TAk fl mo tmpl max prog F 0 := by
  intro it its id g K env R q nv n d r lv m sig m' ans0 hda
  simp [dfsAlts] at hda

theorem td_zero : TDk fl mo tmpl max prog F 0 := by
  intro ct id K env R q nv n d r lv m sig m' ans0 hda
  simp [dfsAlts] at hda

theorem t_all (hprog : ∀ c ∈ prog, clauseS fl c = true)
    (ihF : ∀ nF, F = nF + 1 → ∀ (mo' : Option Nat) (k' : Nat), TPk fl mo' tmpl max prog nF k') : ∀ k : Nat,
    (∀ j, j ≤ k → TPk fl mo tmpl max prog F j) ∧ TAk fl mo tmpl max prog F k ∧ TDk fl mo tmpl max prog F k
  | 0 => ⟨fun j hj => by
      have : j = 0 := by omega
      subst this; exact tp_zero, ta_zero, td_zero⟩
  | k + 1 =>
    have ih := t_all hprog ihF k
    have ihP : TPk fl mo tmpl max prog F k := ih.1 k (Nat.le_refl k)
    ⟨fun j hj => by
      rcases Nat.lt_or_ge j (k + 1) with h | h
      · exact ih.1 j (by omega)
      · have : j = k + 1 := by omega
        subst this
        exact tp_succ ih.2.1 ih.2.2 ih.1 hprog ihF,
     ta_succ ih.1 hprog, td_succ ihP hprog⟩

end

/-- **the refinement of the search**, for every fuel of the thunks (the searches nested in `\\+` run
    with one unit less), every mode and every fuel of the search -/
theorem tp_all {fl : Bool} {tmpl : Term} {max : Nat} {prog : List Term} (hprog : ∀ c ∈ prog, clauseS fl c = true) :
    ∀ (F : Nat) (mo : Option Nat) (k : Nat), TPk fl mo tmpl max prog F k
  | 0, mo, k => (t_all hprog (fun nF h => by cases h) k).1 k (Nat.le_refl k)
  | F + 1, mo, k =>
    (t_all hprog (fun nF h mo' k' => by
      have : nF = F := by omega
      subst this
      exact tp_all hprog nF mo' k') k).1 k (Nat.le_refl k)

end PrologVerif.Refine
