/-
  C20, file loads: the registration discipline of text.go (`vm.loaded`: register first, unregister
  on failure) refines the specification (register on success only), for all histories.
-/
import PrologVerif.Model.Files
namespace PrologVerif.Files
open PrologVerif PrologVerif.Load

/-- the model of the code and the specification are in corresponding states: same procedure
    table; what the code has registered is what the specification has loaded or has in progress;
    and a load in progress is not (yet) loaded -/
structure Rel (c s : VM) : Prop where
  procs : c.procs = s.procs
  mem : ∀ x, x ∈ c.loaded ↔ x ∈ s.loaded ∨ x ∈ s.inProgress
  disj : ∀ x, x ∈ s.inProgress → x ∉ s.loaded

theorem Rel.setProcs {c s : VM} (h : Rel c s) (p : Procs) :
    Rel { c with procs := p } { s with procs := p } :=
  ⟨rfl, h.mem, h.disj⟩

/-- result of a pair of runs: same error, related states, the specification's in-progress stack is
    back where it was -/
def Agree (s0 : VM) (rc rs : VM × Option LoadErr) : Prop :=
  rc.2 = rs.2 ∧ Rel rc.1 rs.1 ∧ rs.1.inProgress = s0.inProgress

def AgreeL (s0 : VM) (rc rs : (VM × Text) × Option LoadErr) : Prop :=
  rc.2 = rs.2 ∧ rc.1.2 = rs.1.2 ∧ Rel rc.1.1 rs.1.1 ∧ rs.1.1.inProgress = s0.inProgress

variable (fs : FileSys) (ev : Eval)

def REnsure (n : Nat) : Prop := ∀ c s file, Rel c s →
  Agree s (ensureLoaded .code fs ev n c file) (ensureLoaded .spec fs ev n s file)
def RConsult (n : Nat) : Prop := ∀ c s files, Rel c s →
  Agree s (consultAll .code fs ev n c files) (consultAll .spec fs ev n s files)
def RLoop (n : Nat) : Prop := ∀ items c s tx, Rel c s →
  AgreeL s (loopV .code fs ev n items c tx) (loopV .spec fs ev n items s tx)
def RGoals (n : Nat) : Prop := ∀ gs c s, Rel c s →
  Agree s (runGoalsV .code fs ev n gs c) (runGoalsV .spec fs ev n gs s)
def RCompile (n : Nat) : Prop := ∀ c s items, Rel c s →
  Agree s (compileV .code fs ev n c items) (compileV .spec fs ev n s items)

theorem rEnsure_succ (n : Nat) (hC : RCompile fs ev n) : REnsure fs ev (n + 1) := by
  intro c s file hrel
  rw [ensureLoaded, ensureLoaded]
  cases hopen : openFile fs file with
  | error e => exact ⟨rfl, hrel, rfl⟩
  | ok r =>
    obtain ⟨f, items⟩ := r
    simp only
    by_cases hin : f ∈ c.loaded
    · have hs : f ∈ s.loaded ∨ f ∈ s.inProgress := (hrel.mem f).mp hin
      simp only [hin, hs, if_true]
      exact ⟨rfl, hrel, rfl⟩
    · have hs : ¬ (f ∈ s.loaded ∨ f ∈ s.inProgress) := fun h => hin ((hrel.mem f).mpr h)
      simp only [hin, hs, if_false]
      have hs1 : f ∉ s.loaded := fun h => hs (Or.inl h)
      have hs2 : f ∉ s.inProgress := fun h => hs (Or.inr h)
      have hrel1 : Rel { c with loaded := f :: c.loaded } { s with inProgress := f :: s.inProgress } := by
        refine ⟨hrel.procs, ?_, ?_⟩
        · intro x
          simp only [List.mem_cons]
          rw [hrel.mem x]
          constructor
          · rintro (h | h | h)
            · exact Or.inr (Or.inl h)
            · exact Or.inl h
            · exact Or.inr (Or.inr h)
          · rintro (h | h | h)
            · exact Or.inr (Or.inl h)
            · exact Or.inl h
            · exact Or.inr (Or.inr h)
        · intro x hx
          simp only [List.mem_cons] at hx
          rcases hx with rfl | hx
          · exact hs1
          · exact hrel.disj x hx
      have hagree := hC { c with loaded := f :: c.loaded } { s with inProgress := f :: s.inProgress } items hrel1
      generalize compileV .code fs ev n { c with loaded := f :: c.loaded } items = rc at hagree ⊢
      generalize compileV .spec fs ev n { s with inProgress := f :: s.inProgress } items = rs at hagree ⊢
      obtain ⟨c', ec⟩ := rc
      obtain ⟨s', es⟩ := rs
      obtain ⟨he, hr, hp⟩ := hagree
      simp only at he hr hp ⊢
      subst he
      have hfnot : f ∉ s'.loaded := hr.disj f (by rw [hp]; simp)
      cases ec with
      | some e =>
        refine ⟨rfl, ⟨hr.procs, ?_, ?_⟩, rfl⟩
        · intro x
          simp only [List.mem_filter, decide_eq_true_eq, ne_eq]
          rw [hr.mem x, hp]
          simp only [List.mem_cons]
          constructor
          · rintro ⟨h | h | h, hne⟩
            · exact Or.inl h
            · exact absurd h hne
            · exact Or.inr h
          · rintro (h | h)
            · exact ⟨Or.inl h, fun e => hfnot (e ▸ h)⟩
            · exact ⟨Or.inr (Or.inr h), fun e => hs2 (e ▸ h)⟩
        · intro x hx
          exact hr.disj x (by rw [hp]; exact List.mem_cons_of_mem _ hx)
      | none =>
        refine ⟨rfl, ⟨hr.procs, ?_, ?_⟩, rfl⟩
        · intro x
          rw [hr.mem x, hp]
          simp only [List.mem_cons]
          constructor
          · rintro (h | h | h)
            · exact Or.inl (Or.inr h)
            · exact Or.inl (Or.inl h)
            · exact Or.inr h
          · rintro ((h | h) | h)
            · exact Or.inr (Or.inl h)
            · exact Or.inl h
            · exact Or.inr (Or.inr h)
        · intro x hx
          simp only [List.mem_cons, not_or]
          exact ⟨fun e => hs2 (e ▸ hx), hr.disj x (by rw [hp]; exact List.mem_cons_of_mem _ hx)⟩

theorem rConsult_succ (n : Nat) (hE : REnsure fs ev n) (hS : RConsult fs ev n) : RConsult fs ev (n + 1) := by
  intro c s files hrel
  cases files with
  | nil => rw [consultAll, consultAll]; exact ⟨rfl, hrel, rfl⟩
  | cons f rest =>
    rw [consultAll, consultAll]
    have h1 := hE c s f hrel
    generalize ensureLoaded .code fs ev n c f = rc at h1 ⊢
    generalize ensureLoaded .spec fs ev n s f = rs at h1 ⊢
    obtain ⟨c', ec⟩ := rc
    obtain ⟨s', es⟩ := rs
    obtain ⟨he, hr, hp⟩ := h1
    simp only at he hr hp ⊢
    subst he
    cases ec with
    | some e => exact ⟨rfl, hr, hp⟩
    | none =>
      simp only
      obtain ⟨h2, h3, h4⟩ := hS c' s' rest hr
      exact ⟨h2, h3, by rw [h4, hp]⟩

theorem rLoop_succ (n : Nat) (hE : REnsure fs ev n) (hCo : RConsult fs ev n) (hL : RLoop fs ev n) :
    RLoop fs ev (n + 1) := by
  intro items c s tx hrel
  cases items with
  | nil => rw [loopV, loopV]; exact ⟨rfl, rfl, hrel, rfl⟩
  | cons it rest =>
    rw [loopV, loopV]
    cases hld : loadDirective it with
    | some d =>
      cases d with
      | ensure file =>
        simp only
        cases hfl : flush tx with
        | error e => exact ⟨rfl, rfl, hrel, rfl⟩
        | ok tx' =>
          simp only
          have h1 := hE c s file hrel
          generalize ensureLoaded .code fs ev n c file = rc at h1 ⊢
          generalize ensureLoaded .spec fs ev n s file = rs at h1 ⊢
          obtain ⟨c', ec⟩ := rc
          obtain ⟨s', es⟩ := rs
          obtain ⟨he, hr, hp⟩ := h1
          simp only at he hr hp ⊢
          subst he
          cases ec with
          | some e => exact ⟨rfl, rfl, hr, hp⟩
          | none =>
            simp only
            obtain ⟨h2, h3, h4, h5⟩ := hL rest c' s' tx' hr
            exact ⟨h2, h3, h4, by rw [h5, hp]⟩
      | consult arg =>
        simp only
        cases hfl : flush tx with
        | error e => exact ⟨rfl, rfl, hrel, rfl⟩
        | ok tx' =>
          simp only
          have h1 := hCo c s (fileNames arg) hrel
          generalize consultAll .code fs ev n c (fileNames arg) = rc at h1 ⊢
          generalize consultAll .spec fs ev n s (fileNames arg) = rs at h1 ⊢
          obtain ⟨c', ec⟩ := rc
          obtain ⟨s', es⟩ := rs
          obtain ⟨he, hr, hp⟩ := h1
          simp only at he hr hp ⊢
          subst he
          cases ec with
          | some e => exact ⟨rfl, rfl, hr, hp⟩
          | none =>
            simp only
            obtain ⟨h2, h3, h4, h5⟩ := hL rest c' s' tx' hr
            exact ⟨h2, h3, h4, by rw [h5, hp]⟩
    | none =>
      simp only
      rw [hrel.procs]
      cases hst : stepItem (includeFS fs) (pureCall ev) ⟨s.procs, tx⟩ it with
      | next ls =>
        simp only
        obtain ⟨h2, h3, h4, h5⟩ := hL rest _ _ ls.tx (hrel.setProcs ls.procs)
        exact ⟨h2, h3, h4, h5⟩
      | splice items ls =>
        simp only
        obtain ⟨h2, h3, h4, h5⟩ := hL (items ++ rest) _ _ ls.tx (hrel.setProcs ls.procs)
        exact ⟨h2, h3, h4, h5⟩
      | stop ls e => exact ⟨rfl, rfl, hrel.setProcs ls.procs, rfl⟩

theorem rGoals_succ (n : Nat) (hCo : RConsult fs ev n) (hG : RGoals fs ev n) : RGoals fs ev (n + 1) := by
  intro gs c s hrel
  cases gs with
  | nil => rw [runGoalsV, runGoalsV]; exact ⟨rfl, hrel, rfl⟩
  | cons g gs =>
    rw [runGoalsV, runGoalsV]
    cases hca : consultArg g with
    | some a =>
      simp only
      have h1 := hCo c s (fileNames a) hrel
      generalize consultAll .code fs ev n c (fileNames a) = rc at h1 ⊢
      generalize consultAll .spec fs ev n s (fileNames a) = rs at h1 ⊢
      obtain ⟨c', ec⟩ := rc
      obtain ⟨s', es⟩ := rs
      obtain ⟨he, hr, hp⟩ := h1
      simp only at he hr hp ⊢
      subst he
      cases ec with
      | some e => exact ⟨rfl, hr, hp⟩
      | none =>
        simp only
        obtain ⟨h2, h3, h4⟩ := hG gs c' s' hr
        exact ⟨h2, h3, by rw [h4, hp]⟩
    | none =>
      simp only
      rw [hrel.procs]
      cases initErr (ev s.procs g) with
      | some e => exact ⟨rfl, hrel, rfl⟩
      | none => exact hG gs c s hrel

theorem rCompile_succ (n : Nat) (hL : RLoop fs ev n) (hG : RGoals fs ev n) : RCompile fs ev (n + 1) := by
  intro c s items hrel
  rw [compileV, compileV]
  have h1 := hL items c s Text.empty hrel
  generalize loopV .code fs ev n items c Text.empty = rc at h1 ⊢
  generalize loopV .spec fs ev n items s Text.empty = rs at h1 ⊢
  obtain ⟨⟨c', txc⟩, ec⟩ := rc
  obtain ⟨⟨s', txs⟩, es⟩ := rs
  obtain ⟨he, ht, hr, hp⟩ := h1
  simp only at he ht hr hp ⊢
  subst he
  subst ht
  cases ec with
  | some e => exact ⟨rfl, hr, hp⟩
  | none =>
    simp only
    cases flush txc with
    | error e => exact ⟨rfl, hr, hp⟩
    | ok tx' =>
      simp only
      rw [hr.procs]
      obtain ⟨h2, h3, h4⟩ := hG tx'.goals _ _ (hr.setProcs (commit s'.procs tx'.clauses))
      exact ⟨h2, h3, by rw [h4]; exact hp⟩

/-- the registration discipline of the code agrees with the specification's, at every fuel -/
theorem refines_all (n : Nat) :
    REnsure fs ev n ∧ RConsult fs ev n ∧ RLoop fs ev n ∧ RGoals fs ev n ∧ RCompile fs ev n := by
  induction n with
  | zero =>
    refine ⟨?_, ?_, ?_, ?_, ?_⟩
    · intro c s file hrel; rw [ensureLoaded, ensureLoaded]; exact ⟨rfl, hrel, rfl⟩
    · intro c s files hrel; rw [consultAll, consultAll]; exact ⟨rfl, hrel, rfl⟩
    · intro items c s tx hrel; rw [loopV, loopV]; exact ⟨rfl, rfl, hrel, rfl⟩
    · intro gs c s hrel; rw [runGoalsV, runGoalsV]; exact ⟨rfl, hrel, rfl⟩
    · intro c s items hrel; rw [compileV, compileV]; exact ⟨rfl, hrel, rfl⟩
  | succ n ih =>
    obtain ⟨hE, hCo, hL, hG, hC⟩ := ih
    exact ⟨rEnsure_succ fs ev n hC, rConsult_succ fs ev n hE hCo, rLoop_succ fs ev n hE hCo hL,
      rGoals_succ fs ev n hCo hG, rCompile_succ fs ev n hL hG⟩

/-! ### histories -/

/-- corresponding worlds between two steps of a history: same files, related VMs, and the
    specification has no load in progress -/
structure WRel (wc ws : World) : Prop where
  fs : wc.fs = ws.fs
  vm : Rel wc.vm ws.vm
  idle : ws.vm.inProgress = []

theorem wrel_empty : WRel World.empty World.empty :=
  ⟨rfl, ⟨rfl, fun _ => by simp [World.empty], fun _ h => by simp [World.empty] at h⟩, rfl⟩

theorem step_refines (ev : Eval) (fuel : Nat) (wc ws : World) (h : WRel wc ws) (st : Step) :
    (step .code ev fuel wc st).2 = (step .spec ev fuel ws st).2 ∧
    WRel (step .code ev fuel wc st).1 (step .spec ev fuel ws st).1 := by
  cases st with
  | write n items => exact ⟨rfl, ⟨by simp [step, h.fs], h.vm, h.idle⟩⟩
  | remove n => exact ⟨rfl, ⟨by simp [step, h.fs], h.vm, h.idle⟩⟩
  | consult arg =>
    simp only [step]
    rw [h.fs]
    obtain ⟨h1, h2, h3⟩ := (refines_all ws.fs ev fuel).2.1 wc.vm ws.vm (fileNames arg) h.vm
    exact ⟨h1, ⟨rfl, h2, by rw [h3]; exact h.idle⟩⟩
  | exec items =>
    simp only [step]
    rw [h.fs]
    obtain ⟨h1, h2, h3⟩ := (refines_all ws.fs ev fuel).2.2.2.2 wc.vm ws.vm items h.vm
    exact ⟨h1, ⟨rfl, h2, by rw [h3]; exact h.idle⟩⟩

theorem run_refines (ev : Eval) (fuel : Nat) (wc ws : World) (h : WRel wc ws) (steps : List Step) :
    (run .code ev fuel wc steps).2 = (run .spec ev fuel ws steps).2 ∧
    WRel (run .code ev fuel wc steps).1 (run .spec ev fuel ws steps).1 := by
  induction steps generalizing wc ws with
  | nil => exact ⟨rfl, h⟩
  | cons st steps ih =>
    obtain ⟨h1, h2⟩ := step_refines ev fuel wc ws h st
    obtain ⟨h3, h4⟩ := ih _ _ h2
    simp only [run]
    exact ⟨by rw [h1, h3], h4⟩

/-! ### what is registered stays registered (model of the code) -/

def MEnsure (n : Nat) : Prop := ∀ vm file x, x ∈ vm.loaded → x ∈ (ensureLoaded .code fs ev n vm file).1.loaded
def MConsult (n : Nat) : Prop := ∀ vm files x, x ∈ vm.loaded → x ∈ (consultAll .code fs ev n vm files).1.loaded
def MLoop (n : Nat) : Prop := ∀ items vm tx x, x ∈ vm.loaded → x ∈ (loopV .code fs ev n items vm tx).1.1.loaded
def MGoals (n : Nat) : Prop := ∀ gs vm x, x ∈ vm.loaded → x ∈ (runGoalsV .code fs ev n gs vm).1.loaded
def MCompile (n : Nat) : Prop := ∀ vm items x, x ∈ vm.loaded → x ∈ (compileV .code fs ev n vm items).1.loaded

theorem mono_all (n : Nat) :
    MEnsure fs ev n ∧ MConsult fs ev n ∧ MLoop fs ev n ∧ MGoals fs ev n ∧ MCompile fs ev n := by
  induction n with
  | zero =>
    refine ⟨?_, ?_, ?_, ?_, ?_⟩
    · intro vm file x hx; rw [ensureLoaded]; exact hx
    · intro vm files x hx; rw [consultAll]; exact hx
    · intro items vm tx x hx; rw [loopV]; exact hx
    · intro gs vm x hx; rw [runGoalsV]; exact hx
    · intro vm items x hx; rw [compileV]; exact hx
  | succ n ih =>
    obtain ⟨hE, hCo, hL, hG, hC⟩ := ih
    refine ⟨?_, ?_, ?_, ?_, ?_⟩
    · intro vm file x hx
      rw [ensureLoaded]
      cases openFile fs file with
      | error e => exact hx
      | ok r =>
        obtain ⟨f, items⟩ := r
        simp only
        by_cases hin : f ∈ vm.loaded
        · simp only [hin, if_true]; exact hx
        · simp only [hin, if_false]
          have := hC { vm with loaded := f :: vm.loaded } items x (List.mem_cons_of_mem _ hx)
          generalize compileV .code fs ev n { vm with loaded := f :: vm.loaded } items = r at this ⊢
          obtain ⟨vm', e⟩ := r
          cases e with
          | none => exact this
          | some e =>
            simp only [List.mem_filter, decide_eq_true_eq, ne_eq]
            exact ⟨this, fun e => hin (e ▸ hx)⟩
    · intro vm files x hx
      cases files with
      | nil => rw [consultAll]; exact hx
      | cons f rest =>
        rw [consultAll]
        have := hE vm f x hx
        generalize ensureLoaded .code fs ev n vm f = r at this ⊢
        obtain ⟨vm', e⟩ := r
        cases e with
        | some e => exact this
        | none => exact hCo vm' rest x this
    · intro items vm tx x hx
      cases items with
      | nil => rw [loopV]; exact hx
      | cons it rest =>
        rw [loopV]
        cases loadDirective it with
        | some d =>
          cases d with
          | ensure file =>
            simp only
            cases flush tx with
            | error e => exact hx
            | ok tx' =>
              simp only
              have := hE vm file x hx
              generalize ensureLoaded .code fs ev n vm file = r at this ⊢
              obtain ⟨vm', e⟩ := r
              cases e with
              | some e => exact this
              | none => exact hL rest vm' tx' x this
          | consult arg =>
            simp only
            cases flush tx with
            | error e => exact hx
            | ok tx' =>
              simp only
              have := hCo vm (fileNames arg) x hx
              generalize consultAll .code fs ev n vm (fileNames arg) = r at this ⊢
              obtain ⟨vm', e⟩ := r
              cases e with
              | some e => exact this
              | none => exact hL rest vm' tx' x this
        | none =>
          simp only
          cases stepItem (includeFS fs) (pureCall ev) ⟨vm.procs, tx⟩ it with
          | next ls => exact hL rest _ ls.tx x hx
          | splice items ls => exact hL (items ++ rest) _ ls.tx x hx
          | stop ls e => exact hx
    · intro gs vm x hx
      cases gs with
      | nil => rw [runGoalsV]; exact hx
      | cons g gs =>
        rw [runGoalsV]
        cases consultArg g with
        | some a =>
          simp only
          have := hCo vm (fileNames a) x hx
          generalize consultAll .code fs ev n vm (fileNames a) = r at this ⊢
          obtain ⟨vm', e⟩ := r
          cases e with
          | some e => exact this
          | none => exact hG gs vm' x this
        | none =>
          simp only
          cases initErr (ev vm.procs g) with
          | some e => exact hx
          | none => exact hG gs vm x hx
    · intro vm items x hx
      rw [compileV]
      have := hL items vm Text.empty x hx
      generalize loopV .code fs ev n items vm Text.empty = r at this ⊢
      obtain ⟨⟨vm', tx⟩, e⟩ := r
      cases e with
      | some e => exact this
      | none =>
        simp only
        cases flush tx with
        | error e => exact this
        | ok tx' => exact hG tx'.goals _ x this

end PrologVerif.Files
