package main

// Unicode.lean: the character classes lexer.go takes from Go's unicode package, for every code
// point >= 0x80, as sorted lists of inclusive ranges (ASCII is spelled out in Model/Lexer.lean and
// compared with the real lexer exhaustively by the c06.lex stream).
//
//   lowerRanges  unicode.In(r, Ll, Lo, Lm)          (isSmallLetterChar)
//   upperRanges  unicode.IsUpper(r)                  (isCapitalLetterChar)
//   spaceRanges  unicode.IsSpace(r)                  (isLayoutChar)
//   hexUpRanges  unicode.ToUpper(r) in 0-9A-F        (isHexadecimalDigitChar)

import (
	"fmt"
	"strings"
	"unicode"
)

func init() {
	extractors = append(extractors, extractor{file: "Unicode.lean", run: genUnicode})
}

func rangesOf(pred func(r rune) bool) [][2]rune {
	var out [][2]rune
	in := false
	var lo rune
	for r := rune(0x80); r <= unicode.MaxRune+1; r++ {
		p := r <= unicode.MaxRune && !(r >= 0xD800 && r <= 0xDFFF) && pred(r)
		switch {
		case p && !in:
			in, lo = true, r
		case !p && in:
			in = false
			out = append(out, [2]rune{lo, r - 1})
		}
	}
	return out
}

func leanRanges(name, doc string, rs [][2]rune) string {
	var sb strings.Builder
	fmt.Fprintf(&sb, "/-- %s -/\ndef %s : Array (Nat × Nat) := #[", doc, name)
	for i, r := range rs {
		if i != 0 {
			sb.WriteString(",")
		}
		if i%8 == 0 {
			sb.WriteString("\n  ")
		} else {
			sb.WriteString(" ")
		}
		fmt.Fprintf(&sb, "(0x%X, 0x%X)", r[0], r[1])
	}
	sb.WriteString("]\n\n")
	return sb.String()
}

func genUnicode(repo string) (string, error) {
	var sb strings.Builder
	sb.WriteString("namespace PrologVerif.Generated\n\n")
	fmt.Fprintf(&sb, "/-- version of the Unicode tables of the Go toolchain the harness is built with -/\ndef unicodeVersion : String := %q\n\n", unicode.Version)
	sb.WriteString(leanRanges("lowerRanges", "code points >= 0x80 in Ll, Lo or Lm", rangesOf(func(r rune) bool { return unicode.In(r, unicode.Ll, unicode.Lo, unicode.Lm) })))
	sb.WriteString(leanRanges("upperRanges", "code points >= 0x80 with unicode.IsUpper", rangesOf(unicode.IsUpper)))
	sb.WriteString(leanRanges("spaceRanges", "code points >= 0x80 with unicode.IsSpace", rangesOf(unicode.IsSpace)))
	sb.WriteString(leanRanges("hexUpRanges", "code points >= 0x80 whose unicode.ToUpper is one of 0-9A-F", rangesOf(func(r rune) bool {
		return strings.ContainsRune("0123456789ABCDEF", unicode.ToUpper(r))
	})))
	sb.WriteString("end PrologVerif.Generated\n")
	return sb.String(), nil
}
