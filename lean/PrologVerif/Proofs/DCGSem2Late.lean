/-
  Proofs/DCGSem2Late — what call//1, phrase//1 and variable bodies need: the reference evaluation
  is monotone in the fuel (`solve_mono`: call//1 spends one level of fuel more on the SLD side than
  in the denotation); a body read at run time from terms that are the same up to the
  correspondence of the variables is the same body up to that correspondence (`ofTerm_sim`), and
  such terms are related in the world (`trel_eq`: corresponding variables are unbound).
-/
import PrologVerif.Proofs.DCGSem2Rules
namespace PrologVerif.Grammar
open PrologVerif

/-! ### the two call handlers -/

/-- what `den` does for a non-terminal / run-time body (the handler it passes to `denBody`) -/
def dynH (cfg : Cfg) (gr : Grammar) (n : Nat) : Dyn → St → Term → Res Out := fun d st l =>
  match d with
  | .nt "call" (g :: a :: as) =>
    match walk st.σ g with
    | .atom f => den cfg gr n true (.nt f (a :: as)) st l |> barrier
    | .app f bs => den cfg gr n true (.nt f (bs.toList ++ a :: as)) st l |> barrier
    | _ => .error (.unsupported "call//N of a non-callable term")
  | .nt f args =>
    let rules := gr.filter (fun r => r.name = f ∧ r.args.length = args.length)
    if rules.isEmpty then .error (.unsupported ("no rule for " ++ f))
    else match tryRules cfg.uf (den cfg gr n) args st l rules with
      | .error e => .error e
      | .ok as => .ok ⟨as, false⟩
  | .late g =>
    match resolve cfg.uf st.σ g with
    | none => .error .fuel
    | some (.var _) => .error (.unsupported "instantiation_error: unbound run-time body")
    | some g' =>
      match Body.ofTerm g' with
      | .error _ => .error (.unsupported "run-time body is not a grammar body")
      | .ok b' => den cfg gr n true b' st l

/-- what `solve` does for a goal that is not a control construct (the handler it passes to
    `solveGoal`) -/
def callH (uf : Nat) (prog : Program) (n : Nat) : Term → St → Res SOut := fun g st =>
  match g with
  | .app "call" (.cons c extra) =>
    match addArgs (walk st.σ c) extra.toList with
    | some g' => sBarrier (solve uf prog n g' st)
    | none => .error (.unsupported "call/N of a non-callable term")
  | .app "phrase" (.cons b (.cons s0 (.cons s .nil))) =>
    match resolve uf st.σ b with
    | none => .error .fuel
    | some (.var _) => .error (.unsupported "instantiation_error: phrase/3 with an unbound body")
    | some b' =>
      match Body.ofTerm b' with
      | .error _ => .error (.unsupported "phrase/3: not a grammar body")
      | .ok bb =>
        let r := bb.tr s0 s st.next
        sBarrier (solve uf prog n r.1 { st with next := r.2 })
  | g =>
    match sig g with
    | none => .error (.unsupported "goal is not callable")
    | some (f, k) =>
      let cs := prog.filter (fun c => sig c.head = some (f, k))
      if cs.isEmpty then .error (.unsupported ("unknown procedure " ++ f))
      else match tryClauses uf (solve uf prog n) g st cs with
        | .error e => .error e
        | .ok as => .ok ⟨as, false⟩

theorem den_succ (cfg : Cfg) (gr : Grammar) (n : Nat) (top : Bool) (b : Body) (st : St) (l : Term) :
    den cfg gr (n + 1) top b st l = denBody cfg (dynH cfg gr n) top b st l := rfl

theorem solve_succ (uf : Nat) (prog : Program) (n : Nat) (g : Term) (st : St) :
    solve uf prog (n + 1) g st = solveGoal uf (callH uf prog n) g st := rfl


/-! ### the reference evaluation is monotone in the fuel -/

theorem sAndThen_mono {k1 k2 : St → Res SOut} (h : ∀ st A, k1 st = .ok A → k2 st = .ok A) :
    ∀ (l : List St) (A : SOut), sAndThen k1 l = .ok A → sAndThen k2 l = .ok A
  | [], A, e => e
  | st :: rest, A, e => by
    simp only [sAndThen] at e ⊢
    cases h1 : k1 st with
    | error err => simp [h1] at e
    | ok o =>
      rw [h st o h1]
      simp only [h1] at e ⊢
      by_cases hc : o.cut = true
      · simpa [hc] using e
      · have hc0 : o.cut = false := by simpa using hc
        simp only [hc0, Bool.false_eq_true, if_false] at e ⊢
        cases h2 : sAndThen k1 rest with
        | error err => simp [h2] at e
        | ok o' =>
          rw [sAndThen_mono h rest o' h2]
          simpa [h2] using e

theorem solveGoal_mono (uf : Nat) {c1 c2 : Term → St → Res SOut}
    (h : ∀ g st A, c1 g st = .ok A → c2 g st = .ok A) :
    ∀ (g : Term) (st : St) (A : SOut), solveGoal uf c1 g st = .ok A → solveGoal uf c2 g st = .ok A := by
  intro g st
  fun_induction solveGoal uf c1 g st <;> intro A e
  all_goals (try (simp only [solveGoal] at e ⊢; exact e))
  all_goals (try (cases e; done))
  all_goals (try (simp_all [solveGoal]; done))
  rename_i a b st o1 hx1 o2 hx2 ih2 ih1
  simp only [solveGoal, ih2 _ hx1, sAndThen_mono ih1 _ _ hx2]
  exact e

theorem tryClauses_mono (uf : Nat) {b1 b2 : Term → St → Res SOut}
    (h : ∀ g st A, b1 g st = .ok A → b2 g st = .ok A) (goal : Term) (st : St) :
    ∀ (cs : List Clause) (as : List St), tryClauses uf b1 goal st cs = .ok as → tryClauses uf b2 goal st cs = .ok as
  | [], as, e => e
  | c :: cs, as, e => by
    simp only [tryClauses] at e ⊢
    cases hu : unify uf st.σ goal (renameT st.next c.head) with
    | out => simp [hu] at e
    | done o =>
      cases o with
      | none =>
        simp only [hu] at e ⊢
        exact tryClauses_mono uf h goal st cs as e
      | some σ' =>
        simp only [hu] at e ⊢
        cases hb : b1 (renameT st.next c.body) ⟨σ', st.next + c.nv⟩ with
        | error err => simp [hb] at e
        | ok o =>
          rw [h _ _ o hb]
          simp only [hb] at e ⊢
          by_cases hc : o.cut = true
          · simpa [hc] using e
          · have hc0 : o.cut = false := by simpa using hc
            simp only [hc0, Bool.false_eq_true, if_false] at e ⊢
            cases hr : tryClauses uf b1 goal st cs with
            | error err => simp [hr] at e
            | ok more =>
              rw [tryClauses_mono uf h goal st cs more hr]
              simpa [hr] using e

/-- with more fuel the reference evaluation gives the same result, if it gave one -/
theorem solve_mono (uf : Nat) (prog : Program) : ∀ (n : Nat) (g : Term) (st : St) (A : SOut),
    solve uf prog n g st = .ok A → solve uf prog (n + 1) g st = .ok A
  | 0, _, _, _, e => by simp [solve] at e
  | n + 1, g, st, A, e => by
    have IH := solve_mono uf prog n
    rw [solve_succ] at e ⊢
    refine solveGoal_mono uf (fun g st A e => ?_) g st A e
    unfold callH at e ⊢
    split at e
    · rename_i c extra
      cases ha : addArgs (walk st.σ c) extra.toList with
      | none => simp [ha] at e
      | some g' =>
        simp only [ha] at e ⊢
        cases hs : solve uf prog n g' st with
        | error err => simp [hs, sBarrier] at e
        | ok o => rw [IH _ _ _ hs]; simpa [hs] using e
    · rename_i b s0 s
      cases hr : resolve uf st.σ b with
      | none => simp [hr] at e
      | some b' =>
        simp only [hr] at e ⊢
        cases b' with
        | var v => simp at e
        | _ =>
          simp only [] at e ⊢
          split at e
          · simp at e
          · rename_i bb ho
            cases hs : solve uf prog n (bb.tr s0 s st.next).1 { st with next := (bb.tr s0 s st.next).2 } with
            | error err => simp [hs, sBarrier] at e
            | ok o => rw [IH _ _ _ hs]; simpa [hs] using e
    · cases hsig : sig g with
      | none => simp [hsig] at e
      | some p =>
        obtain ⟨f, k⟩ := p
        simp only [hsig] at e ⊢
        split at e
        · simp at e
        · rename_i hne
          simp only [hne]
          cases ht : tryClauses uf (solve uf prog n) g st
              (prog.filter (fun c => decide (sig c.head = some (f, k)))) with
          | error err => simp [ht] at e
          | ok as =>
            rw [tryClauses_mono uf IH g st _ as ht]
            simpa [ht] using e

/-! ### terms that are the same up to the correspondence are related in the world -/

mutual
  theorem trel_eq {W : World} (hW : W.Good) : ∀ (t u : Term), TRel W.ρ t u → W.Eq t u
    | .var a, _, h => by
      cases h with
      | var r =>
        rw [World.Eq_unfold, walk_unbound _ _ (hW.unb _ _ r).1, walk_unbound _ _ (hW.unb _ _ r).2]
        exact .var r
    | .atom a, _, h => by
      cases h; rw [World.Eq_unfold, walk_nonvar _ _ rfl, walk_nonvar _ _ rfl]; exact .atom a
    | .int a, _, h => by
      cases h; rw [World.Eq_unfold, walk_nonvar _ _ rfl, walk_nonvar _ _ rfl]; exact .int a
    | .flt a, _, h => by
      cases h; rw [World.Eq_unfold, walk_nonvar _ _ rfl, walk_nonvar _ _ rfl]; exact .flt a
    | .str a, _, h => by
      cases h; rw [World.Eq_unfold, walk_nonvar _ _ rfl, walk_nonvar _ _ rfl]; exact .str a
    | .app f as, _, h => by
      cases h with
      | app r =>
        rw [World.Eq_unfold, walk_nonvar _ _ rfl, walk_nonvar _ _ rfl]
        exact .app (trelA_eq hW as _ r)
  theorem trelA_eq {W : World} (hW : W.Good) : ∀ (as bs : Args), TRelA W.ρ as bs → ArgsRel W.Eq as bs
    | .nil, _, h => by cases h; exact .nil
    | .cons a as, _, h => by
      cases h with
      | cons r rs => exact .cons (trel_eq hW a _ r) (trelA_eq hW as _ rs)
end

/-! ### reading a body from related terms -/

theorem trelA_toList {ρ : Nat → Nat → Prop} : ∀ {as bs : Args}, TRelA ρ as bs → All2 (TRel ρ) as.toList bs.toList
  | _, _, .nil => .nil
  | _, _, .cons r rs => .cons r (trelA_toList rs)

mutual
  theorem spine_sim {ρ : Nat → Nat → Prop} : ∀ (t u : Term), TRel ρ t u →
      All2 (TRel ρ) t.spine.1 u.spine.1 ∧ TRel ρ t.spine.2 u.spine.2
    | .app f as, _, h => by
      cases h with
      | app r =>
        rename_i bs
        unfold Term.spine
        by_cases hf : f = "."
        · simp only [hf, if_true]
          exact spineArgs_sim (.app "." as) (.app "." bs) (.app r) as bs r
        · simp only [hf, if_false]
          exact ⟨.nil, .app r⟩
    | .var _, _, h => by cases h with | var r => exact ⟨.nil, .var r⟩
    | .atom _, _, h => by cases h; exact ⟨.nil, .atom _⟩
    | .int _, _, h => by cases h; exact ⟨.nil, .int _⟩
    | .flt _, _, h => by cases h; exact ⟨.nil, .flt _⟩
    | .str _, _, h => by cases h; exact ⟨.nil, .str _⟩
  theorem spineArgs_sim {ρ : Nat → Nat → Prop} (whole whole' : Term) (hw : TRel ρ whole whole') :
      ∀ (as bs : Args), TRelA ρ as bs →
        All2 (TRel ρ) (Args.spineArgs whole as).1 (Args.spineArgs whole' bs).1 ∧
          TRel ρ (Args.spineArgs whole as).2 (Args.spineArgs whole' bs).2
    | .cons h (.cons t .nil), _, r => by
      cases r with
      | cons rh rt =>
        cases rt with
        | cons rt rn =>
          cases rn
          have := spine_sim t _ rt
          simp only [Args.spineArgs]
          exact ⟨.cons rh this.1, this.2⟩
    | .nil, _, r => by cases r; exact ⟨.nil, hw⟩
    | .cons _ .nil, _, r => by
      cases r with
      | cons _ rt => cases rt; exact ⟨.nil, hw⟩
    | .cons _ (.cons _ (.cons _ _)), _, r => by
      cases r with
      | cons _ rt =>
        cases rt with
        | cons _ rn =>
          cases rn with
          | cons _ _ => exact ⟨.nil, hw⟩
end

/-- results of the reader on related terms -/
def ORel (ρ : Nat → Nat → Prop) : Except Term Body → Except Term Body → Prop
  | .ok b, .ok b' => BodyRel (TRel ρ) b b'
  | .error _, .error _ => True
  | _, _ => False

theorem terminalsOf_sim {ρ : Nat → Nat → Prop} {t u : Term} (h : TRel ρ t u) :
    match terminalsOf t, terminalsOf u with
    | .ok ts, .ok us => All2 (TRel ρ) ts us
    | .error _, .error _ => True
    | _, _ => False := by
  have hs := spine_sim t u h
  unfold terminalsOf
  revert hs
  generalize t.spine = p
  generalize u.spine = p'
  obtain ⟨es, tl⟩ := p
  obtain ⟨es', tl'⟩ := p'
  rintro ⟨h1, h2⟩
  simp only at h1 h2
  cases h2 with
  | var _ => trivial
  | atom a =>
    simp only []
    by_cases ha : a = "[]"
    · simp only [ha, if_true]; exact h1
    · simp only [ha, if_false]
  | int _ => trivial
  | flt _ => trivial
  | str _ => trivial
  | app _ => trivial

theorem trel_goalRel {ρ : Nat → Nat → Prop} : ∀ (g g' : Term), TRel ρ g g' → GoalRel (TRel ρ) g g'
  | .app f (.cons a (.cons b .nil)), _, h => by
    cases h with
    | app r =>
      cases r with
      | cons ra r2 =>
        cases r2 with
        | cons rb r3 =>
          cases r3
          by_cases hf : f = ","
          · subst hf; exact .conj (trel_goalRel a _ ra) (trel_goalRel b _ rb)
          · exact .bin hf ra rb
  | .atom a, _, h => by cases h; exact .atom a
  | .app _ .nil, _, h => by
    cases h with | app r => cases r; exact .other rfl (fun uf st => evalBlock_arity0 uf _ st)
  | .app _ (.cons _ .nil), _, h => by
    cases h with
    | app r => cases r with | cons _ r2 => cases r2; exact .other rfl (fun uf st => evalBlock_arity1 uf _ _ st)
  | .app _ (.cons _ (.cons _ (.cons _ _))), _, h => by
    cases h with
    | app r =>
      cases r with
      | cons _ r2 => cases r2 with
        | cons _ r3 => cases r3 with
          | cons _ _ => exact .other rfl (fun uf st => evalBlock_arity3 uf _ _ _ _ _ st)
  | .var _, _, h => by cases h; exact .other rfl (fun _ _ => ⟨_, rfl⟩)
  | .int _, _, h => by cases h; exact .other rfl (fun _ _ => ⟨_, rfl⟩)
  | .flt _, _, h => by cases h; exact .other rfl (fun _ _ => ⟨_, rfl⟩)
  | .str _, _, h => by cases h; exact .other rfl (fun _ _ => ⟨_, rfl⟩)

theorem mkAlt_rel {R : Term → Term → Prop} {a a' b b' : Body} (ha : BodyRel R a a') (hb : BodyRel R b b') :
    BodyRel R (mkAlt a b) (mkAlt a' b') := by
  cases ha <;> simp only [mkAlt] <;> first | exact .ite ‹_› ‹_› hb | exact .alt (by constructor <;> assumption) hb

theorem ofTerm_app0 (f : String) : Body.ofTerm (.app f .nil) = .ok (.nt f []) := by
  unfold Body.ofTerm
  split <;> simp_all
  all_goals (rename_i heq; rw [← heq.2]; simp [Args.toList])

theorem ofTerm_app3 (f : String) (a b c : Term) (ds : Args) :
    Body.ofTerm (.app f (.cons a (.cons b (.cons c ds)))) = .ok (.nt f (a :: b :: c :: ds.toList)) := by
  unfold Body.ofTerm
  split <;> simp_all
  all_goals (rename_i heq; rw [← heq.2]; simp [Args.toList])

theorem ofTerm_app1_other (f : String) (a : Term) (h1 : f ≠ "{}") (h2 : f ≠ "call") (h3 : f ≠ "phrase")
    (h4 : f ≠ "\\+") : Body.ofTerm (.app f (.cons a .nil)) = .ok (.nt f [a]) := by
  unfold Body.ofTerm
  split <;> simp_all
  all_goals (rename_i heq; rw [← heq.2]; simp [Args.toList])

theorem ofTerm_app2_other (f : String) (a b : Term) (h1 : f ≠ ".") (h2 : f ≠ ",") (h3 : f ≠ ";")
    (h4 : f ≠ "|") (h5 : f ≠ "->") : Body.ofTerm (.app f (.cons a (.cons b .nil))) = .ok (.nt f [a, b]) := by
  unfold Body.ofTerm
  split <;> simp_all
  all_goals (rename_i heq; rw [← heq.2]; simp [Args.toList])

theorem ofTerm_atom_rel {ρ : Nat → Nat → Prop} (a : String) :
    ORel ρ (Body.ofTerm (.atom a)) (Body.ofTerm (.atom a)) := by
  by_cases h1 : a = "[]"
  · subst h1; exact .eps
  · by_cases h2 : a = "!"
    · subst h2; exact .cut
    · have : Body.ofTerm (.atom a) = .ok (.nt a []) := by
        unfold Body.ofTerm
        split <;> simp_all
      rw [this]; exact .nt .nil

/-- sequencing two readings -/
theorem ORel.bind2 {ρ : Nat → Nat → Prop} {ra ra' rb rb' : Except Term Body} (f : Body → Body → Body)
    (hf : ∀ a a' b b', BodyRel (TRel ρ) a a' → BodyRel (TRel ρ) b b' → BodyRel (TRel ρ) (f a b) (f a' b')) :
    ORel ρ ra ra' → ORel ρ rb rb' →
    ORel ρ (match ra with
      | .error e => .error e
      | .ok a => match rb with
        | .error e => .error e
        | .ok b => .ok (f a b))
      (match ra' with
      | .error e => .error e
      | .ok a => match rb' with
        | .error e => .error e
        | .ok b => .ok (f a b)) := by
  intro ha hb
  cases ra with
  | error e =>
    cases ra' with
    | error e' => trivial
    | ok _ => exact ha.elim
  | ok a =>
    cases ra' with
    | error _ => exact ha.elim
    | ok a' =>
      cases rb with
      | error e =>
        cases rb' with
        | error _ => trivial
        | ok _ => exact hb.elim
      | ok b =>
        cases rb' with
        | error _ => exact hb.elim
        | ok b' => exact hf _ _ _ _ ha hb

/-- **reading a body at run time**: related terms read as related bodies, or both do not read -/
theorem ofTerm_sim {ρ : Nat → Nat → Prop} : ∀ (t u : Term), TRel ρ t u → ORel ρ (Body.ofTerm t) (Body.ofTerm u)
  | .var v, _, h => by
    cases h with
    | var r => simp only [Body.ofTerm]; exact .var (.var r)
  | .atom a, _, h => by cases h; exact ofTerm_atom_rel a
  | .int _, _, h => by cases h; simp only [Body.ofTerm]; trivial
  | .flt _, _, h => by cases h; simp only [Body.ofTerm]; trivial
  | .str _, _, h => by cases h; simp only [Body.ofTerm]; trivial
  | .app f .nil, _, h => by
    cases h with
    | app r => cases r; rw [ofTerm_app0]; exact .nt .nil
  | .app f (.cons a (.cons b (.cons c ds))), _, h => by
    cases h with
    | app r =>
      cases r with
      | cons ra r2 => cases r2 with
        | cons rb r3 => cases r3 with
          | cons rc rd =>
            rw [ofTerm_app3, ofTerm_app3]
            exact .nt (.cons ra (.cons rb (.cons rc (trelA_toList rd))))
  | .app f (.cons a .nil), _, h => by
    cases h with
    | app r =>
      cases r with
      | cons ra r2 =>
        cases r2
        rename_i a'
        by_cases h1 : f = "{}"
        · subst h1; simp only [Body.ofTerm]; exact .block (trel_goalRel a a' ra)
        · by_cases h2 : f = "call"
          · subst h2; simp only [Body.ofTerm]; exact .call1 ra
          · by_cases h3 : f = "phrase"
            · subst h3; simp only [Body.ofTerm]; exact .phrase ra
            · by_cases h4 : f = "\\+"
              · subst h4
                simp only [Body.ofTerm]
                have := ofTerm_sim a a' ra
                revert this
                cases Body.ofTerm a <;> cases Body.ofTerm a' <;> simp [ORel]
                exact fun h => .not h
              · rw [ofTerm_app1_other f a h1 h2 h3 h4, ofTerm_app1_other f a' h1 h2 h3 h4]
                exact .nt (.cons ra .nil)
  | .app f (.cons a (.cons b .nil)), _, h => by
    cases h with
    | app r =>
      cases r with
      | cons ra r2 =>
        cases r2 with
        | cons rb r3 =>
          cases r3
          rename_i a' b'
          by_cases h1 : f = "."
          · subst h1
            simp only [Body.ofTerm]
            have := terminalsOf_sim (ρ := ρ) (t := .app "." (.cons a (.cons b .nil)))
              (u := .app "." (.cons a' (.cons b' .nil))) (.app (.cons ra (.cons rb .nil)))
            revert this
            cases terminalsOf (.app "." (.cons a (.cons b .nil))) <;>
              cases terminalsOf (.app "." (.cons a' (.cons b' .nil))) <;> simp [ORel]
            exact fun h => .terminals h
          · by_cases h2 : f = ","
            · subst h2
              simp only [Body.ofTerm]
              exact ORel.bind2 Body.seq (fun _ _ _ _ h h' => .seq h h') (ofTerm_sim a a' ra) (ofTerm_sim b b' rb)
            · by_cases h3 : f = ";"
              · subst h3
                simp only [Body.ofTerm]
                exact ORel.bind2 mkAlt (fun _ _ _ _ h h' => mkAlt_rel h h') (ofTerm_sim a a' ra) (ofTerm_sim b b' rb)
              · by_cases h4 : f = "|"
                · subst h4
                  simp only [Body.ofTerm]
                  exact ORel.bind2 mkAlt (fun _ _ _ _ h h' => mkAlt_rel h h') (ofTerm_sim a a' ra) (ofTerm_sim b b' rb)
                · by_cases h5 : f = "->"
                  · subst h5
                    simp only [Body.ofTerm]
                    exact ORel.bind2 Body.ifthen (fun _ _ _ _ h h' => .ifthen h h') (ofTerm_sim a a' ra)
                      (ofTerm_sim b b' rb)
                  · rw [ofTerm_app2_other f a b h1 h2 h3 h4 h5, ofTerm_app2_other f a' b' h1 h2 h3 h4 h5]
                    exact .nt (.cons ra (.cons rb .nil))

/-- what the reader delivers is in the (non-strict) fragment: `( c -> t ; e )` is read as an
    if-then-else, never as an alternation with a bare if-then -/
theorem mkAlt_ok {a b : Body} (ha : a.ok false = true) (hb : b.ok false = true) : (mkAlt a b).ok false = true := by
  cases a <;> simp_all [mkAlt, Body.ok, Body.isIfthen]

theorem ofTerm_ok (t : Term) : ∀ b, Body.ofTerm t = .ok b → b.ok false = true := by
  fun_induction Body.ofTerm t <;> intro b hb <;>
    (try simp only [Except.ok.injEq, reduceCtorEq] at hb) <;> (try subst hb) <;>
    simp_all [Body.ok, mkAlt_ok]

end PrologVerif.Grammar
