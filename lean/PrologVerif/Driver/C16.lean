import PrologVerif.Driver.Common
import PrologVerif.Model.Rel
import PrologVerif.Spec.Relations
/-
  Stream c16.rel:  payload `<pred> <k> <args…>`, implementation output `ans [t(…), …]` / `err E`.

  model output  = `Model/Rel.call`, first k answers, printed like the harness prints;
  verdict       = the specification (Spec/Relations) judging the IMPLEMENTATION's answers:
     * an error must be one the ISO table allows for the call (`modeErrors`/`optionalErrors`);
       an insufficiently instantiated call must raise, a call outside the modes must not answer;
     * every answer is a tuple of the relation and an instance of the call;
     * brute force: every tuple of the relation from the finite universe of the call that is an
       instance of the call is covered by an answer — exactly once (as multisets when the
       candidates are ground; member/2 and select/3 count one answer per position);
     * generating modes (functor/3, length/2) bind to fresh, pairwise distinct variables;
     * truncated enumerations (k answers taken): the prefix is judged, and for between/3 and
       length/2 the n-th answer must be the n-th tuple;
     * calls on OPEN lists (unbound tail; infinitely many answers): the tail is closed with every
       list up to length 2 over a fresh constant and the constants of the call, and every resulting
       tuple of the relation must be covered by an answer no later than its position
       (`openUniverse`) — an answer that closes the tail by itself is caught here;
     * non-ground data: the most general common instance of a candidate and the call (verified
       unifier) must be covered.
  Stream c16.conj reuses all of this: its payload is the same call plus a representation directive
  (runner only) and unifications executed after the call, which are applied to the call first.
  The instance test is the verified one-way matcher (Proofs/RelMatch: `matchL_isSome_iff`).
-/
namespace PrologVerif.Driver.C16
open PrologVerif PrologVerif.Rel PrologVerif.Driver

def row (t : List Term) : String := (Term.app "t" (Args.ofList t)).canon.wire

def showResult (k : Nat) : Result → String
  | .error e => "err " ++ e.canon.wire
  | .ok ans => "ans " ++ bracket ((ans.take k).map row)

def parseCase (payload : String) : Option (String × Nat × List Term) :=
  let (pred, rest) := headWord payload
  let (ks, rest) := headWord rest
  match natOfChars ks.toList, parseTerms rest with
  | some k, some args => some (pred, k, args)
  | _, _ => none

/-! ### parsing the implementation's line -/

structure Impl where
  answers : List (List Term)
  err : Option Term
  bad : Bool := false

def parseRow (s : String) : Option (List Term) :=
  match parseTerms s with
  | some [.app "t" as] => some as.toList
  | _ => none

def parseErr (s : String) : Option Term :=
  let (w, rest) := headWord s
  if w = "err" then Term.ofWire rest else none

def parseImpl (impl : String) : Impl :=
  if impl.startsWith "ans [" then
    match ((impl.drop 5).toString.splitOn "]") with
    | [rows, rest] =>
      let rs := if trim rows = "" then [] else (rows.splitOn ", ").map parseRow
      if rs.all Option.isSome then
        let answers := rs.filterMap id
        if trim rest = "" then ⟨answers, none, false⟩
        else match parseErr rest with
          | some e => ⟨answers, some e, false⟩
          | none => ⟨[], none, true⟩
      else ⟨[], none, true⟩
    | _ => ⟨[], none, true⟩
  else match parseErr impl with
    | some e => ⟨[], some e, false⟩
    | none => ⟨[], none, true⟩

/-! ### the finite universe of a call (brute force, independent of the model's enumeration) -/

def natRange (n : Nat) : List Int := (List.range n).map Int.ofNat

def substrings (w : List Char) : List (List Char) :=
  ((List.range (w.length + 1)).flatMap fun i =>
    (List.range (w.length + 1 - i)).map fun l => (w.drop i).take l).eraseDups

def candUniverse (pred : String) (args : List Term) : Option (List (List Term)) :=
  match pred, args with
  | "atom_length", [.atom a, _] => some ((natRange (4 * a.length + 2)).map fun n => [.atom a, .int n])
  | "atom_concat", [_, _, .atom c] =>
    let w := c.toList
    some ((List.range (w.length + 1)).flatMap fun i => (List.range (w.length + 1)).map fun j =>
      [mkAtom (w.take i), mkAtom (w.drop j), .atom c])
  | "atom_concat", [.atom a, .atom b, _] =>
    some ([[.atom a, .atom b, .atom (a ++ b)], [.atom a, .atom b, .atom (b ++ a)], [.atom a, .atom b, .atom a]].eraseDups)
  | "sub_atom", [.atom w, _, _, _, _] =>
    let cs := w.toList
    let n := cs.length + 1
    if cs.length ≤ 4 then
      some ((natRange n).flatMap fun b => (natRange n).flatMap fun l => (natRange n).flatMap fun a =>
        (substrings cs).map fun s => [.atom w, .int b, .int l, .int a, mkAtom s])
    else
      some ((natRange n).flatMap fun b => (natRange n).flatMap fun l => (natRange n).map fun a =>
        [.atom w, .int b, .int l, .int a, mkAtom ((cs.drop b.toNat).take l.toNat)])
  | "atom_chars", [.atom a, _] => some [[.atom a, Term.list (a.toList.map fun c => mkAtom [c])]]
  | "atom_chars", [.var _, l] =>
    match Relations.asList l with
    | some es => match Relations.textsOf es with
      | some cs => some [[mkAtom cs.flatten, l]]
      | none => none
    | none => none
  | "atom_codes", [.atom a, _] => some [[.atom a, Term.list (a.toList.map fun c => .int (Int.ofNat c.toNat))]]
  | "atom_codes", [.var _, l] =>
    match Relations.asList l with
    | some es => match Relations.intsOf es with
      | some cs =>
        if cs.all Relations.isCharCode then some [[mkAtom (cs.map fun i => Char.ofNat i.toNat), l]] else none
      | none => none
    | none => none
  | "char_code", [.atom c, _] =>
    match c.toList with
    | [ch] => some ([-1, 0, 1].map fun d : Int => [.atom c, .int (Int.ofNat ch.toNat + d)])
    | _ => none
  | "char_code", [.var _, .int n] =>
    if Relations.isCharCode n then some [[mkAtom [Char.ofNat n.toNat], .int n]] else none
  | "between", [.int l, .int h, _] =>
    if h - l ≤ 2000 then some ((natRange (h - l + 3).toNat).map fun d => [.int l, .int h, .int (l - 1 + d)]) else none
  | "succ", [.int x, _] => some [[.int x, .int (x + 1)], [.int x, .int x], [.int x, .int (x - 1)]]
  | "succ", [.var _, .int s] => some [[.int (s - 1), .int s], [.int s, .int s], [.int (s + 1), .int s]]
  | "functor", [.app f as, _, _] => some [[.app f as, .atom f, .int (Int.ofNat as.length)]]
  | "functor", [.var _, _, _] => none
  | "functor", [t, _, _] => some [[t, t, .int 0]]
  | "arg", [.int n, .app f as, _] =>
    match as.toList[(n - 1).toNat]? with
    | some e => some [[.int n, .app f as, e]]
    | none => some []
  | "univ", [.app f as, _] => some [[.app f as, Term.list (.atom f :: as.toList)]]
  | "univ", [.var _, l] =>
    match Relations.asList l with
    | some [e] => some [[e, l]]
    | some (.atom f :: e :: es) => some [[.app f (Args.ofList (e :: es)), l]]
    | _ => none
  | "univ", [t, _] => some [[t, Term.list [t]]]
  | "nth0", [_, l, _] => some ((List.range l.spine.1.length).filterMap fun i => l.spine.1[i]?.map fun e => [.int (Int.ofNat i), l, e])
  | "nth1", [_, l, _] => some ((List.range l.spine.1.length).filterMap fun i => l.spine.1[i]?.map fun e => [.int (Int.ofNat i + 1), l, e])
  | "length", [l, _] =>
    match Relations.asList l with
    | some es => some [[l, .int (Int.ofNat es.length)]]
    | none => none
  | "append", [x, y, z] =>
    match Relations.asList z with
    | some zs => some ((List.range (zs.length + 1)).map fun i => [Term.list (zs.take i), Term.list (zs.drop i), z])
    | none =>
      match Relations.asList x with
      | some xs => some [[x, y, Term.list xs y]]
      | none => none
  | "member", [_, l] => if l.spine.2 = Term.nilT then some (l.spine.1.map fun e => [e, l]) else none
  | "select", [_, l, _] =>
    if l.spine.2 = Term.nilT then
      some ((List.range l.spine.1.length).filterMap fun i => l.spine.1[i]?.map fun e => [e, l, Term.list (l.spine.1.eraseIdx i)])
    else none
  | _, _ => none

/-! ### calls on open lists: the universe after closing the unbound tail

  A call whose list argument ends in an unbound variable has infinitely many answers.  Its tuples are
  sampled by closing the tail with every list up to length 2 over a fresh constant and the atomic
  constants of the call; each sample carries a rank: the position (for append/length: the number of
  generated elements) at which the enumeration reaches it.  A sample of rank r must be covered by one
  of the first r+1 answers. -/

def isGroundAtomic : Term → Bool
  | .var _ => false
  | .app _ _ => false
  | _ => true

def closedTails (args : List Term) : List (List Term) :=
  let consts := ((Term.atom "$c" :: (args ++ args.flatMap fun a => a.spine.1).filter isGroundAtomic).eraseDups).take 3
  [[]] ++ consts.map (fun a => [a]) ++ consts.flatMap fun a => consts.map fun b => [a, b]

def tailVar (t : Term) : Option Nat :=
  match t.spine.2 with
  | .var v => some v
  | _ => none

def openUniverse (pred : String) (args : List Term) : Option (List (Nat × List Term)) :=
  let primary : Option Term := match pred, args with
    | "member", [_, l] => some l
    | "select", [_, l, _] => some l
    | "length", [l, _] => some l
    | "append", [x, _, z] => if (tailVar z).isSome then some z else some x
    | _, _ => none
  match primary.bind tailVar with
  | none => none
  | some v =>
    let byLength := pred == "append" || pred == "length"
    let base := match args with | a :: _ => a.spine.1.length | [] => 0
    some ((closedTails args).flatMap fun r =>
      let args' := args.map (substT (bind1 v (Term.list r)))
      match candUniverse pred args' with
      | none => []
      | some u =>
        (u.zip (List.range u.length)).map fun (c, i) =>
          let rank := if byLength then (match c with | x :: _ => x.spine.1.length - base | [] => 0) else i
          (rank, c))

/-! ### the judge -/

def isInstance (pattern t : List Term) : Bool := (matchL pattern t []).isSome

def groundL (t : List Term) : Bool := t.all groundT

def count (a : List Term) (l : List (List Term)) : Nat := (l.filter (· == a)).length

def nodup : List (List Term) → Bool
  | [] => true
  | a :: as => !as.contains a && nodup as

def isVarT : Term → Bool
  | .var _ => true
  | _ => false

/-- the terms are pairwise distinct variables -/
def distinctVars (ts : List Term) : Bool := ts.all isVarT && nodup (ts.map fun t => [t])

/-- answers of the generating modes: the generated part consists of distinct variables, and the
    number of variables of the answer shows that they are new -/
def generalityOk (pred : String) (args : List Term) (ans : List Term) : Bool :=
  let nv (ts : List Term) : Nat := ((Term.app "t" (Args.ofList ts)).canonAux []).2.length
  match pred, args, ans with
  | "functor", [.var _, _, .int n], [.app _ as, _, _] =>
    distinctVars as.toList && nv ans == nv args - 1 + n.toNat
  | "length", [l, .int n], [l', _] =>
    match l.spine.2 with
    | .var _ =>
      let added := l'.spine.1.drop l.spine.1.length
      distinctVars added && added.length == (n - Int.ofNat l.spine.1.length).toNat &&
        nv ans == nv args - 1 + added.length
    | _ => true
  | "length", [l, .var _], [l', _] =>
    match l.spine.2 with
    | .var _ =>
      let added := l'.spine.1.drop l.spine.1.length
      distinctVars added && nv ans == nv args - 2 + added.length
    | _ => true
  | _, _, _ => true

/-- the n-th answer is the n-th tuple (enumerations that may be cut off after k answers) -/
def orderOk (pred : String) (args : List Term) (answers : List (List Term)) : Bool :=
  match pred, args with
  | "between", [.int l, _, .var _] =>
    (answers.zip (List.range answers.length)).all fun (a, i) =>
      match a with
      | [_, _, .int x] => x == l + Int.ofNat i
      | _ => false
  | "length", [l, .var _] =>
    match l.spine.2 with
    | .var _ =>
      (answers.zip (List.range answers.length)).all fun (a, i) =>
        match a with
        | [_, .int n] => n == Int.ofNat (l.spine.1.length + i)
        | _ => false
    | _ => true
  | _, _ => true

def showErrs (es : List Term) : String := bracket (es.map fun e => e.canon.wire)

def judge (pred : String) (k : Nat) (args : List Term) (impl : Impl) : String :=
  if impl.bad then "FAIL unparsable implementation output" else
  let mode := Relations.modeErrors pred args
  let allowed := mode ++ Relations.optionalErrors pred args
  match Relations.holds pred [] with
  | none => "-"
  | some _ =>
  match impl.answers, impl.err with
  | [], some e =>
    if allowed.contains e then "ok"
    else if allowed.isEmpty then s!"FAIL the call is inside the modes but raised {e.canon.wire}"
    else s!"FAIL raised {e.canon.wire}, the errors allowed for this call are {showErrs allowed}"
  | _ :: _, some e => s!"FAIL error {e.canon.wire} after answers"
  | answers, none =>
    if mode.contains instErr then "FAIL insufficiently instantiated call must raise instantiation_error"
    else if !mode.isEmpty && !answers.isEmpty then s!"FAIL answers for a call outside the modes (allowed errors {showErrs mode})"
    else
      let holdsB := fun t => (Relations.holds pred t).getD false
      match answers.find? (fun t => !holdsB t) with
      | some t => s!"FAIL answer {row t} is not a tuple of the relation"
      | none =>
      match answers.find? (fun t => !isInstance args t) with
      | some t => s!"FAIL answer {row t} is not an instance of the call"
      | none =>
      match answers.find? (fun t => !generalityOk pred args t) with
      | some t => s!"FAIL answer {row t} is not most general (generated part must be fresh distinct variables)"
      | none =>
      if !orderOk pred args answers then "FAIL the n-th answer is not the n-th tuple of the enumeration" else
      let dupOk := pred == "member" || pred == "select"
      let truncated := answers.length ≥ k
      match candUniverse pred args with
      | none =>
        if !(dupOk || nodup answers) then "FAIL an answer is given twice" else
        match openUniverse pred args with
        | none => "ok"
        | some ou =>
          let due := ou.filter fun (r, c) => holdsB c && isInstance args c && (!truncated || r < answers.length)
          match due.find? (fun (_, c) => !answers.any (fun a => isInstance a c)) with
          | some (r, c) => s!"FAIL tuple {row c} of the relation matches the call (position {r} of the enumeration) but none of the {answers.length} answers covers it"
          | none => "ok"
      | some u =>
        let expected := u.filter fun c => holdsB c && isInstance args c
        if u.all groundL then
          -- ground tuples: the answers are exactly the expected tuples, each once (per position)
          if truncated then
            if answers.all (fun a => count a answers ≤ count a expected) then "ok"
            else "FAIL an answer is given more often than the relation has it"
          else
            match expected.find? (fun c => count c answers != count c expected) with
            | some c => s!"FAIL tuple {row c} of the relation matches the call and is answered {count c answers} time(s) instead of {count c expected}"
            | none =>
              if answers.length == expected.length then "ok" else "FAIL more answers than matching tuples"
        else
          if !(dupOk || nodup answers) then "FAIL an answer is given twice"
          else if truncated then "ok"
          else
            -- non-ground data: the most general common instance of the candidate and the call
            -- (the model's unifier is a verified most general unifier: unifyE_sound / unifyE_complete)
            let common := u.filterMap fun c =>
              if holdsB c then
                match unifyM (tuple args) (tuple c) with
                | some δ => let c' := c.map (substT δ); if holdsB c' then some c' else none
                | none => none
              else none
            match (expected ++ common).find? (fun c => !answers.any (fun a => isInstance a c)) with
            | some c => s!"FAIL tuple {row c} of the relation matches the call but no answer covers it"
            | none => "ok"

/-- the side condition of the theorems about unification with non-ground data (`UnifyDefined`,
    `SldDefined`): no unification of the model's run ran out of fuel -/
def definedOk (pred : String) (k : Nat) (args : List Term) : Bool :=
  match pred, args with
  | "member", [x, l] =>
    sldDefinedB ((bootClauses "member" 2).map clauseParts) (k + x.size + l.size + 4) [Term.a2 "member" x l] args
  | "select", [e, l, r] =>
    sldDefinedB ((bootClauses "select" 3).map clauseParts) (k + e.size + l.size + r.size + 4)
      [Term.a3 "select" e l r] args
  | "append", [xs, ys, zs] =>
    if appendFast xs then unifyDefinedB zs (Term.list xs.spine.1 ys)
    else sldDefinedB (appendClauses.map clauseParts) (k + xs.size + ys.size + zs.size + 4)
      [Term.a3 "append" xs ys zs] args
  | "arg", [.int n, .app _ as, a] =>
    match as.toList[(n - 1).toNat]? with
    | some e => unifyDefinedB a e
    | none => true
  | "univ", [.app f as, l] => unifyDefinedB l (Term.list (.atom f :: as.toList))
  | "nth0", [n, l, e] =>
    (List.range l.spine.1.length).all fun i => match l.spine.1[i]? with
      | some x => unifyDefinedB (tuple [n, e]) (tuple [.int (Int.ofNat i), x]) && unifyDefinedB e x
      | none => true
  | "nth1", [n, l, e] =>
    (List.range l.spine.1.length).all fun i => match l.spine.1[i]? with
      | some x => unifyDefinedB (tuple [n, e]) (tuple [.int (1 + Int.ofNat i), x]) && unifyDefinedB e x
      | none => true
  | _, _ => true

def handler : Handler := fun payload impl =>
  match parseCase payload with
  | some (pred, k, args) =>
    match call pred k args with
    | some r =>
      if definedOk pred k args then (showResult k r, judge pred k args (parseImpl impl))
      else (showResult k r, "FAIL the model's unifier ran out of fuel on this case (outside the verified domain)")
    | none => ("BAD-CASE", "-")
  | none => ("BAD-CASE", "-")

/-! ### stream c16.conj: `<call> @ repr <name> <seed> [@ V<n> <term>]…`

  The representation directive concerns the runner only.  The unifications after the call are
  applied to the call: the model and the specification judge the effective (instantiated) call. -/

def parsePost (s : String) : Option (Nat × Term) :=
  match parseTerms s with
  | some [.var v, t] => some (v, t)
  | _ => none

/-- `V₁ = t₁, V₂ = t₂, …` in this order (a later term is taken under the earlier bindings) -/
def applyPosts (args : List Term) (posts : List (Nat × Term)) : List Term :=
  (posts.foldl (fun (st : List Term × (Nat → Term)) (p : Nat × Term) =>
    let β := bind1 p.1 (substT st.2 p.2)
    (st.1.map (substT β), fun v => substT β (st.2 v))) (args, Term.var)).1

def conjHandler : Handler := fun payload impl =>
  match payload.splitOn " @ " with
  | call :: _repr :: posts =>
    match parseCase call, posts.mapM parsePost with
    | some (pred, k, args), some ps =>
      let args' := applyPosts args ps
      match Rel.call pred k args' with
      | some r =>
        if definedOk pred k args' then (showResult k r, judge pred k args' (parseImpl impl))
        else (showResult k r, "FAIL the model's unifier ran out of fuel on this case (outside the verified domain)")
      | none => ("BAD-CASE", "-")
    | _, _ => ("BAD-CASE", "-")
  | _ => ("BAD-CASE", "-")

end PrologVerif.Driver.C16
