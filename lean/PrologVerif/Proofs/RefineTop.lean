/-
  Refine, part 12 — the query: `callGoal` compiles it as the one-off clause `tuple(FVs) :- Query`;
  that clause is a clause of the Horn fragment (its head name, the NUL atom, is no predicate of
  bootstrap.pl), so everything proved about clause activations applies to it.  Also: the state
  `runQuery` starts from.
-/
import PrologVerif.Proofs.RefineDfs
import PrologVerif.Driver.C01
namespace PrologVerif.Refine
open PrologVerif PrologVerif.VM PrologVerif.DecompileCompile PrologVerif.Activation
  PrologVerif.RefineITree PrologVerif.RefineRobinson PrologVerif.VMScoped

/-! ### the driver's shift -/

mutual
  theorem shiftVars_eq (k : Nat) : ∀ t : Term, Driver.C01.shiftVars k t = SLD.shift k t
    | .var _ => rfl
    | .atom _ => rfl
    | .int _ => rfl
    | .flt _ => rfl
    | .str _ => rfl
    | .app f as => by simp only [Driver.C01.shiftVars, SLD.shift, shiftArgs_eq k as]
  theorem shiftArgs_eq (k : Nat) : ∀ as : Args, Driver.C01.shiftArgs k as = SLD.shiftArgs k as
    | .nil => rfl
    | .cons t ts => by simp only [Driver.C01.shiftArgs, SLD.shiftArgs, shiftVars_eq k t, shiftArgs_eq k ts]
end

/-! ### variables of the query -/

mutual
  theorem mem_termVars {v : Nat} : ∀ (t : Term) (acc : List Nat),
      v ∈ termVars t acc ↔ (v ∈ acc ∨ t.hasVar v = true)
    | .var w, acc => by
      simp only [termVars, Term.hasVar, beq_iff_eq]
      split
      · rename_i hc
        simp only [List.contains_eq_mem, decide_eq_true_eq] at hc
        constructor
        · exact fun h => Or.inl h
        · rintro (h | h)
          · exact h
          · subst h; exact hc
      · simp only [List.mem_append, List.mem_singleton]
        constructor
        · rintro (h | h)
          · exact Or.inl h
          · exact Or.inr h.symm
        · rintro (h | h)
          · exact Or.inl h
          · exact Or.inr h.symm
    | .atom _, acc => by simp [termVars, Term.hasVar]
    | .int _, acc => by simp [termVars, Term.hasVar]
    | .flt _, acc => by simp [termVars, Term.hasVar]
    | .str _, acc => by simp [termVars, Term.hasVar]
    | .app _ as, acc => by simp only [termVars, Term.hasVar]; exact mem_argsVars as acc
  theorem mem_argsVars {v : Nat} : ∀ (as : Args) (acc : List Nat),
      v ∈ argsVars as acc ↔ (v ∈ acc ∨ as.hasVar v = true)
    | .nil, acc => by simp [argsVars, Args.hasVar]
    | .cons t ts, acc => by
      simp only [argsVars, Args.hasVar, Bool.or_eq_true]
      rw [mem_argsVars ts, mem_termVars t]
      constructor
      · rintro ((h | h) | h)
        · exact Or.inl h
        · exact Or.inr (Or.inl h)
        · exact Or.inr (Or.inr h)
      · rintro (h | h | h)
        · exact Or.inl (Or.inl h)
        · exact Or.inl (Or.inr h)
        · exact Or.inr h
end

/-- the head `callGoal` gives the query's clause -/
def qHead (g : Term) : Term :=
  if ((termVars g []).map Term.var).isEmpty then Term.atom tupleName
  else Term.app tupleName (Args.ofList ((termVars g []).map Term.var))

theorem qHead_args (g : Term) : argList (qHead g) = (termVars g []).map Term.var := by
  unfold qHead
  split
  · rename_i h
    simp only [List.isEmpty_iff] at h
    simp [argList, h]
  · simp [argList]

theorem qHead_hasVar (g : Term) (v : Nat) : (qHead g).hasVar v = true ↔ g.hasVar v = true := by
  have hm := mem_termVars (v := v) g []
  simp only [List.not_mem_nil, false_or] at hm
  rw [← hm]
  unfold qHead
  split
  · rename_i h
    simp only [List.isEmpty_iff, List.map_eq_nil_iff] at h
    simp [Term.hasVar, h]
  · simp only [Term.hasVar, hasVar_ofList_iff, List.mem_map]
    constructor
    · rintro ⟨t, ⟨w, hw, rfl⟩, ht⟩
      simp only [Term.hasVar, beq_iff_eq] at ht
      subst ht; exact hw
    · intro h
      exact ⟨.var v, ⟨v, h, rfl⟩, by simp [Term.hasVar]⟩

theorem qHead_shape (g : Term) : Shape (qHead g) := by
  unfold qHead
  split
  · exact Or.inl ⟨_, rfl⟩
  · rename_i h
    refine Or.inr ⟨_, _, rfl, ?_⟩
    cases hl : (termVars g []).map Term.var with
    | nil => simp [hl] at h
    | cons a as => simp [Args.ofList, Args.length]

/-! ### the NUL atom is no predicate of bootstrap.pl -/

def bootNoTuple : Bool := bootState.procs.all (fun e => e.1.1 != tupleName)

theorem bootNoTuple_eq : bootNoTuple = true := by decide +kernel

theorem lookup_none_of_all {α β : Type} [BEq α] [LawfulBEq α] (k : α) :
    ∀ l : List (α × β), (∀ e ∈ l, e.1 ≠ k) → l.lookup k = none
  | [], _ => rfl
  | (a, b) :: l, h => by
    have ha : a ≠ k := h (a, b) (by simp)
    have : (k == a) = false := by simpa using fun e => ha e.symm
    simp only [List.lookup, this]
    exact lookup_none_of_all k l (fun e he => h e (by simp [he]))

theorem userPred_tuple (n : Nat) : userPred tupleName n = true := by
  have h := bootNoTuple_eq
  simp only [bootNoTuple, List.all_eq_true, bne_iff_ne, ne_eq] at h
  simp only [userPred, Bool.and_eq_true, Bool.not_eq_true', Option.isNone_iff_eq_none]
  constructor
  · decide
  · unfold lookupProc
    apply lookup_none_of_all
    intro e he heq
    exact h e he (by rw [heq])

/-! ### the query's clause is a clause of the fragment -/

mutual
  theorem wfT_rename (ρ : Nat → Nat) : ∀ t : Term, wfT (t.rename ρ) = wfT t
    | .var _ => rfl
    | .atom _ => rfl
    | .int _ => rfl
    | .flt _ => rfl
    | .str _ => rfl
    | .app f .nil => rfl
    | .app f (.cons a as) => by
      have h1 := wfT_rename ρ a
      have h2 := wfAs_rename ρ as
      simp only [Term.rename, Args.rename] at h1 h2
      simp only [Term.rename, Term.subst, Args.subst, wfT, h1, h2]
  theorem wfAs_rename (ρ : Nat → Nat) : ∀ as : Args, wfAs (as.rename ρ) = wfAs as
    | .nil => rfl
    | .cons t ts => by
      have h1 := wfT_rename ρ t
      have h2 := wfAs_rename ρ ts
      simp only [Term.rename, Args.rename] at h1 h2
      simp only [Args.rename, Args.subst, wfAs, h1, h2]
end

theorem wfAs_ofList_vars : ∀ l : List Nat, wfAs (Args.ofList (l.map Term.var)) = true
  | [] => rfl
  | _ :: l => by simp [Args.ofList, wfAs, wfT, wfAs_ofList_vars l]

theorem wfT_qHead (g : Term) : wfT (qHead g) = true := by
  unfold qHead
  split
  · rfl
  · rename_i h
    cases hl : (termVars g []) with
    | nil => simp [hl] at h
    | cons a as =>
      simp only [List.map_cons, Args.ofList, wfT, Bool.true_and]
      exact wfAs_ofList_vars as

theorem cutGoal_rename (ρ : Nat → Nat) (t : Term) : cutGoal (t.rename ρ) = cutGoal t := by
  unfold cutGoal
  rw [hornGoal_rename]
  cases t with
  | var v =>
    have h1 : (Term.rename ρ (.var v) == Term.atom "!") = false := by
      simp [Term.rename, Term.subst]
    have h2 : (Term.var v == Term.atom "!") = false := by simp
    rw [h1, h2]
  | app f as =>
    have h1 : (Term.rename ρ (.app f as) == Term.atom "!") = false := by
      simp [Term.rename, Term.subst]
    have h2 : (Term.app f as == Term.atom "!") = false := by simp
    rw [h1, h2]
  | _ => simp [Term.rename, Term.subst]

theorem bodyOK_shift (k : Nat) (b : Term) : bodyOK (SLD.shift k b) = bodyOK b := by
  unfold bodyOK
  rw [conjuncts_shift, List.all_map]
  congr 1
  funext t
  simp only [Function.comp, shift_eq_rename, cutGoal_rename]

theorem bodyOK_not_var {b : Term} (h : bodyOK b = true) : ∀ v, b ≠ .var v := by
  rintro v rfl
  simp only [bodyOK, SLD.conjuncts, SLD.wrapVar, SLD.call1, List.all_cons, List.all_nil, Bool.and_true] at h
  rcases cutGoal_cases h with h | h
  · cases h
  rcases hornGoal_shape h with ⟨f, hf, _⟩ | ⟨a, b, hab⟩ | ⟨f, as, hfa, hu, _⟩
  · cases hf
  · simp at hab
  · simp only [Term.app.injEq] at hfa
    obtain ⟨rfl, rfl⟩ := hfa
    exact reserved_not_user hu (by decide)

/-- the clause `callGoal` compiles for the goal `g` -/
def qClause (g : Term) : Term := SLD.rule (qHead g) g

theorem clauseOK_qClause {g : Term} (hb : bodyOK g = true) (hw : wfT g = true) :
    clauseOK (qClause g) = true := by
  have hh : hornHead (qHead g) = true := by
    unfold qHead
    split
    · simp [hornHead, userPred_tuple]
    · rename_i h
      simp only [hornHead, Bool.and_eq_true, decide_eq_true_eq, userPred_tuple, and_true]
      cases hl : (termVars g []).map Term.var with
      | nil => simp [hl] at h
      | cons a as => simp [Args.ofList, Args.length]
  simp only [clauseOK, qClause, headBody_rule, SLD.rule, SLD.mk2, wfT, wfAs, Bool.and_true, Bool.and_eq_true]
  exact ⟨⟨⟨wfT_qHead g, hw⟩, hh⟩, hb⟩

/-! ### `callGoal` on the empty environment -/

theorem res_nonvar (env : Env) (t : Term) (h : ∀ v, t ≠ .var v) : res env t = t := by
  unfold res
  cases t with
  | var v => exact absurd rfl (h v)
  | _ => simp [resolve]

theorem app_nil (t : Term) : app [] t = t := by
  unfold app
  cases h : applyAll inner [] t with
  | none => rfl
  | some t' =>
    simp only [Option.getD_some]
    rw [applyAll_eq_subst isMGU_empty inner t t' h, Term.subst_id]

theorem callGoal_query (g : Term) (K : Cont) (m : MS) (hb : bodyOK g = true) (hw : wfT g = true) :
    callGoal g K [] m = clausesCall [clauseOf (qClause g)] (argList (qHead g)) K [] m := by
  have hnv := bodyOK_not_var hb
  unfold callGoal
  rw [res_nonvar [] g hnv]
  have hcc : compileCall g [] = .ok ([clauseOf (qClause g)], argList (qHead g)) := by
    unfold compileCall
    simp only [app_nil]
    have := (clauseOf_spec (qClause g) (clauseOK_qClause hb hw)).1
    change (match compile (toRep (qClause g)) with
      | .ok cs => Except.ok (cs, (termVars g []).map Term.var)
      | .error e => .error e) = _
    rw [this, qHead_args]
  cases g with
  | var v => exact absurd rfl (hnv v)
  | _ => simp only [hcc]

/-! ### the initial state -/

theorem setProc_nextVar (s : St) (f : String) (n : Nat) (p : Proc) : (setProc s f n p).nextVar = s.nextVar := rfl
theorem setProc_answers (s : St) (f : String) (n : Nat) (p : Proc) : (setProc s f n p).answers = s.answers := rfl

theorem loadClauses_nextVar : ∀ (ts : List Term) (s : St),
    (loadClauses s ts).nextVar = s.nextVar ∧ (loadClauses s ts).answers = s.answers
  | [], _ => ⟨rfl, rfl⟩
  | t :: ts, s => by
    unfold loadClauses
    rw [List.foldl_cons]
    have ih := loadClauses_nextVar ts
    unfold loadClauses at ih
    rw [(ih _).1, (ih _).2]
    split
    · exact ⟨rfl, rfl⟩
    · split
      · exact ⟨rfl, rfl⟩
      · exact ⟨rfl, rfl⟩

theorem assertStep_nextVar (s : St) (c : Term) :
    (assertStep s c).nextVar = s.nextVar ∧ (assertStep s c).answers = s.answers := by
  unfold assertStep
  split
  · exact ⟨rfl, rfl⟩
  · exact ⟨rfl, rfl⟩

theorem assertProg_nextVar : ∀ (prog : List Term) (s : St),
    (prog.foldl assertStep s).nextVar = s.nextVar ∧ (prog.foldl assertStep s).answers = s.answers
  | [], _ => ⟨rfl, rfl⟩
  | c :: prog, s => by
    rw [List.foldl_cons, (assertProg_nextVar prog _).1, (assertProg_nextVar prog _).2]
    exact assertStep_nextVar s c

theorem initState_nextVar (prog : List Term) :
    (initState prog none).nextVar = 1000000 ∧ (initState prog none).answers = [] := by
  unfold initState
  rw [(assertProg_nextVar prog _).1, (assertProg_nextVar prog _).2]
  simp only [loadClauses_nil]
  unfold bootState
  exact loadClauses_nextVar Generated.bootstrapTerms {}

end PrologVerif.Refine
