/-
  Refine, part 12 — the query: `callGoal` compiles it as the one-off clause `tuple(FVs) :- Query`;
  that clause is a clause of the Horn fragment (its head name, the NUL atom, is no predicate of
  bootstrap.pl), so everything proved about clause activations applies to it.  Also: the state
  `runQuery` starts from.
-/
import PrologVerif.Proofs.RefineDfs2
import PrologVerif.Driver.C01
namespace PrologVerif.Refine
open PrologVerif PrologVerif.VM PrologVerif.DecompileCompile PrologVerif.Activation
  PrologVerif.RefineITree PrologVerif.RefineRobinson PrologVerif.VMScoped

/-! ### the driver's shift -/

mutual
  theorem shiftVars_eq (k : Nat) : ∀ t : Term, Driver.C01.shiftVars k t = SLD.shift k t
    | .var _ => rfl
    | .atom _ => rfl
    | .int _ => rfl
    | .flt _ => rfl
    | .str _ => rfl
    | .app f as => by simp only [Driver.C01.shiftVars, SLD.shift, shiftArgs_eq k as]
  theorem shiftArgs_eq (k : Nat) : ∀ as : Args, Driver.C01.shiftArgs k as = SLD.shiftArgs k as
    | .nil => rfl
    | .cons t ts => by simp only [Driver.C01.shiftArgs, SLD.shiftArgs, shiftVars_eq k t, shiftArgs_eq k ts]
end

theorem cutGoal_rename (ρ : Nat → Nat) (t : Term) : cutGoal (t.rename ρ) = cutGoal t := by
  unfold cutGoal
  rw [hornGoal_rename]
  cases t with
  | var v =>
    have h1 : (Term.rename ρ (.var v) == Term.atom "!") = false := by
      simp [Term.rename, Term.subst]
    have h2 : (Term.var v == Term.atom "!") = false := by simp
    rw [h1, h2]
  | app f as =>
    have h1 : (Term.rename ρ (.app f as) == Term.atom "!") = false := by
      simp [Term.rename, Term.subst]
    have h2 : (Term.app f as == Term.atom "!") = false := by simp
    rw [h1, h2]
  | _ => simp [Term.rename, Term.subst]

theorem bodyOK_shift (k : Nat) (b : Term) : bodyOK (SLD.shift k b) = bodyOK b := by
  unfold bodyOK
  rw [conjuncts_shift, List.all_map]
  congr 1
  funext t
  simp only [Function.comp, shift_eq_rename, cutGoal_rename]

theorem bodyS_shift (fl : Bool) (k : Nat) (b : Term) : bodyS fl (SLD.shift k b) = bodyS fl b := by
  rw [shift_eq_rename, bodyS_rename]

/-! ### the initial state -/

theorem setProc_nextVar (s : St) (f : String) (n : Nat) (p : Proc) : (setProc s f n p).nextVar = s.nextVar := rfl
theorem setProc_answers (s : St) (f : String) (n : Nat) (p : Proc) : (setProc s f n p).answers = s.answers := rfl

theorem loadClauses_nextVar : ∀ (ts : List Term) (s : St),
    (loadClauses s ts).nextVar = s.nextVar ∧ (loadClauses s ts).answers = s.answers
  | [], _ => ⟨rfl, rfl⟩
  | t :: ts, s => by
    unfold loadClauses
    rw [List.foldl_cons]
    have ih := loadClauses_nextVar ts
    unfold loadClauses at ih
    rw [(ih _).1, (ih _).2]
    split
    · exact ⟨rfl, rfl⟩
    · split
      · exact ⟨rfl, rfl⟩
      · exact ⟨rfl, rfl⟩

theorem assertStep_nextVar (s : St) (c : Term) :
    (assertStep s c).nextVar = s.nextVar ∧ (assertStep s c).answers = s.answers := by
  unfold assertStep
  split
  · exact ⟨rfl, rfl⟩
  · exact ⟨rfl, rfl⟩

theorem assertProg_nextVar : ∀ (prog : List Term) (s : St),
    (prog.foldl assertStep s).nextVar = s.nextVar ∧ (prog.foldl assertStep s).answers = s.answers
  | [], _ => ⟨rfl, rfl⟩
  | c :: prog, s => by
    rw [List.foldl_cons, (assertProg_nextVar prog _).1, (assertProg_nextVar prog _).2]
    exact assertStep_nextVar s c

theorem initState_nextVar (prog : List Term) :
    (initState prog none).nextVar = 1000000 ∧ (initState prog none).answers = [] := by
  unfold initState
  rw [(assertProg_nextVar prog _).1, (assertProg_nextVar prog _).2]
  simp only [loadClauses_nil]
  unfold bootState
  exact loadClauses_nextVar Generated.bootstrapTerms {}

theorem assertStep_cancelAt (s : St) (c : Term) : (assertStep s c).cancelAt = s.cancelAt := by
  unfold assertStep
  split
  · rfl
  · rfl

theorem assertProg_cancelAt : ∀ (prog : List Term) (s : St), (prog.foldl assertStep s).cancelAt = s.cancelAt
  | [], _ => rfl
  | c :: prog, s => by
    rw [List.foldl_cons, assertProg_cancelAt prog _]
    exact assertStep_cancelAt s c

theorem initState_cancelAt (prog : List Term) : (initState prog none).cancelAt = none := by
  unfold initState
  rw [assertProg_cancelAt prog _]

end PrologVerif.Refine
