/-
  ISO error terms as built by engine/exception.go (context argument dropped: the
  harness canonicalises `error(Formal, _)` to `Formal`).
-/
import PrologVerif.Basic
namespace PrologVerif

def Term.a1 (f : String) (x : Term) : Term := .app f (.cons x .nil)
def Term.a2 (f : String) (x y : Term) : Term := .app f (.cons x (.cons y .nil))
def Term.a3 (f : String) (x y z : Term) : Term := .app f (.cons x (.cons y (.cons z .nil)))

def instErr : Term := .atom "instantiation_error"
def typeErr (ty : String) (culprit : Term) : Term := .a2 "type_error" (.atom ty) culprit
def domainErr (d : String) (culprit : Term) : Term := .a2 "domain_error" (.atom d) culprit
def existenceErr (o : String) (culprit : Term) : Term := .a2 "existence_error" (.atom o) culprit
def permissionErr (action ty : String) (culprit : Term) : Term :=
  .a3 "permission_error" (.atom action) (.atom ty) culprit
def representationErr (flag : String) : Term := .a1 "representation_error" (.atom flag)
def evaluationErr (e : String) : Term := .a1 "evaluation_error" (.atom e)
def resourceErr (r : String) : Term := .a1 "resource_error" (.atom r)

end PrologVerif
