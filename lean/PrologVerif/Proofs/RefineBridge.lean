/-
  Refine, part 4 — THE BRIDGE between one unification of the VM (into its environment, without
  occurs check, through head code or `=`/2) and the same unification of the reference interpreter
  (`Robinson.solve` on the instantiated, renamed terms, mgu applied eagerly).

  VM side: environment `env` with its idempotent solution σ (`MG N env σ`), equation `a = b` over
  VM variables below `M ≥ N`; afterwards `env'`, known through `MGUStep` (semantics), `UChain`
  (it is reached by `unify` steps) and `ISound` (soundness in infinite trees).
  Reference side: `a2 = (aσ)π`, `b2 = (bσ)π` for a renaming π that is one-to-one on the unbound
  variables below `M`; outcome of `Robinson.solve n [(a2, b2)] []`.

    * `bridge_fail`   the VM fails                     ⇒ Robinson does not answer `mgu`;
    * `bridge_clash`  the VM goes on                   ⇒ Robinson does not answer `clash`
                      (infinite trees: a cyclic environment still has a tree solution);
    * `bridge_ok`     the VM goes on, Robinson = mgu θ ⇒ `env'` is acyclic again (σ'), and there is
                      a renaming π', one-to-one on the unbound variables of σ', such that for every
                      term t below M:  (tσ')π' = ((tσ)π)θ   — the two machines stay in step.
-/
import PrologVerif.Proofs.RefineInv
namespace PrologVerif.Refine
open PrologVerif PrologVerif.VM PrologVerif.Activation PrologVerif.RefineITree PrologVerif.RefineRobinson

/-! ### renamings -/

def InjOn (π : Nat → Nat) (S : Nat → Prop) : Prop := ∀ x y, S x → S y → π x = π y → x = y

/-- a left inverse of π on S -/
noncomputable def invOn (π : Nat → Nat) (S : Nat → Prop) (y : Nat) : Nat :=
  open Classical in if h : ∃ x, S x ∧ π x = y then Classical.choose h else 0

theorem invOn_spec {π : Nat → Nat} {S : Nat → Prop} (hi : InjOn π S) {x : Nat} (hx : S x) :
    invOn π S (π x) = x := by
  unfold invOn
  have h : ∃ x', S x' ∧ π x' = π x := ⟨x, hx, rfl⟩
  rw [dif_pos h]
  obtain ⟨h1, h2⟩ := Classical.choose_spec h
  exact hi _ _ h1 hx h2

theorem rename_subst (π : Nat → Nat) (τ : Subst) (t : Term) :
    (t.rename π).subst τ = t.subst (fun v => τ (π v)) := by
  rw [Term.rename, Term.subst_comp]
  exact Term.subst_ext (fun v => by simp [Subst.comp, Term.subst]) t

theorem subst_rename (σ : Subst) (π : Nat → Nat) (t : Term) :
    (t.subst σ).rename π = t.subst (fun v => (σ v).rename π) := by
  rw [Term.rename, Term.subst_comp]
  exact Term.subst_ext (fun v => by simp [Subst.comp, Term.rename]) t

/-- a substitution that fixes a term fixes its variables -/
theorem subst_fix_vars (γ : Subst) : ∀ t : Term, t.subst γ = t → ∀ x, t.hasVar x = true → γ x = .var x := by
  intro t
  refine Term.rec (motive_1 := fun t => t.subst γ = t → ∀ x, t.hasVar x = true → γ x = .var x)
    (motive_2 := fun as => as.subst γ = as → ∀ x, as.hasVar x = true → γ x = .var x)
    ?_ ?_ ?_ ?_ ?_ ?_ ?_ ?_ t
  · intro w hw x hx
    simp only [Term.hasVar, beq_iff_eq] at hx
    subst hx
    simpa [Term.subst] using hw
  · intro _ _ x hx; simp [Term.hasVar] at hx
  · intro _ _ x hx; simp [Term.hasVar] at hx
  · intro _ _ x hx; simp [Term.hasVar] at hx
  · intro _ _ x hx; simp [Term.hasVar] at hx
  · intro f as ih hw x hx
    simp only [Term.subst, Term.app.injEq, true_and] at hw
    exact ih hw x (by simpa [Term.hasVar] using hx)
  · intro _ x hx; simp [Args.hasVar] at hx
  · intro t ts iht ihts hw x hx
    simp only [Args.subst, Args.cons.injEq] at hw
    simp only [Args.hasVar, Bool.or_eq_true] at hx
    rcases hx with hx | hx
    · exact iht hw.1 x hx
    · exact ihts hw.2 x hx

/-- **variants**: two substitutions (looked at below `M`) each an instance of the other differ by a
    renaming that is one-to-one on the variables of the first -/
theorem variant_of_instances (D : Nat → Prop) (S1 S2 : Subst) (α β : Subst)
    (hα : ∀ v, D v → (S1 v).subst α = S2 v) (hβ : ∀ v, D v → (S2 v).subst β = S1 v) :
    ∃ π' : Nat → Nat, InjOn π' (fun x => ∃ v, D v ∧ (S1 v).hasVar x = true) ∧
      ∀ v, D v → (S1 v).rename π' = S2 v := by
  let π' : Nat → Nat := fun x => match α x with | .var y => y | _ => 0
  have key : ∀ x, (∃ v, D v ∧ (S1 v).hasVar x = true) → α x = .var (π' x) ∧ β (π' x) = .var x := by
    rintro x ⟨v, hv, hx⟩
    have hfix : (S1 v).subst (Subst.comp β α) = S1 v := by
      rw [← Term.subst_comp, hα v hv, hβ v hv]
    have := subst_fix_vars _ _ hfix x hx
    simp only [Subst.comp] at this
    cases hax : α x with
    | var y =>
      rw [hax] at this
      exact ⟨by simp [π', hax], by simpa [π', hax, Term.subst] using this⟩
    | _ => rw [hax] at this; simp [Term.subst] at this
  refine ⟨π', ?_, ?_⟩
  · intro x y hx hy hxy
    have h1 := (key x hx).2
    have h2 := (key y hy).2
    rw [hxy, h2] at h1
    exact (Term.var.inj h1).symm
  · intro v hv
    rw [← hα v hv, Term.rename]
    exact subst_congr _ _ _ (fun x hx => ((key x ⟨v, hv, hx⟩).1).symm)

/-! ### facts about the invariant -/

/-- composing any substitution after the idempotent solution gives a solution -/
theorem sol_comp {e : Env} {σ : Subst} (h : IsMGU e σ) (γ : Subst) : Sol e (fun v => (σ v).subst γ) := by
  intro v t hl
  show (σ v).subst γ = t.subst _
  rw [h.sol v t hl, Term.subst_comp]
  exact Term.subst_ext (fun w => rfl) t

/-- unbound variables beyond the counter -/
theorem MG.id_above {N : Nat} {e : Env} {σ : Subst} (h : MG N e σ) {v : Nat} (hv : N ≤ v) : σ v = .var v := by
  apply h.mgu.idUnbound
  cases hl : e.lookup v with
  | none => rfl
  | some t => exact absurd (h.eok v t hl).1 (by omega)

/-- the variables in the range of σ are unbound and (below the counter) below the counter -/
theorem MG.range {N : Nat} {e : Env} {σ : Subst} (h : MG N e σ) {v x : Nat} (hv : v < N)
    (hx : (σ v).hasVar x = true) : x < N ∧ σ x = .var x := by
  refine ⟨?_, h.mgu.fixes hx⟩
  by_cases hxN : x < N
  · exact hxN
  · exfalso
    have hxv : x ≠ v := by omega
    have hun : e.lookup x = none := by
      cases hl : e.lookup x with
      | none => rfl
      | some t => exact absurd (h.eok x t hl).1 hxN
    have := h.mgu.not_in_range hxv (fun w s hl => by
      cases hh : s.hasVar x with
      | false => rfl
      | true => exact absurd ((h.eok w s hl).2 x hh).2 hxN) (Or.inl hun) (v := v)
    rw [this] at hx
    cases hx

theorem MG.range_le {N M : Nat} {e : Env} {σ : Subst} (h : MG N e σ) (hM : N ≤ M) {v x : Nat} (hv : v < M)
    (hx : (σ v).hasVar x = true) : x < M ∧ σ x = .var x := by
  by_cases hvN : v < N
  · exact ⟨Nat.lt_of_lt_of_le (h.range hvN hx).1 hM, (h.range hvN hx).2⟩
  · have := h.id_above (Nat.le_of_not_lt hvN)
    rw [this] at hx
    simp only [Term.hasVar, beq_iff_eq] at hx
    subst hx
    exact ⟨hv, this⟩

/-- the variables in the range of σ over the relevant variables `D` -/
def RV (σ : Subst) (D : Nat → Prop) (x : Nat) : Prop := ∃ v, D v ∧ (σ v).hasVar x = true

theorem vars_subst_rv {σ : Subst} {D : Nat → Prop} {t : Term}
    (ht : ∀ v, t.hasVar v = true → D v) {x : Nat} (hx : (t.subst σ).hasVar x = true) : RV σ D x := by
  obtain ⟨v, hv, hvx⟩ := hasVar_subst σ x t hx
  exact ⟨v, ht v hv, hvx⟩

/-! ### the bridge -/

section bridge
variable {N M N' : Nat} {env env' : Env} {σ : Subst} {a b : Term} {π : Nat → Nat} {D : Nat → Prop}

/-- the VM-side substitution an SLD-side unifier τ2 induces: first σ, then π, then τ2 -/
def pull (σ : Subst) (π : Nat → Nat) (τ2 : Subst) : Subst := fun v => ((σ v).rename π).subst τ2

theorem pull_subst (σ : Subst) (π : Nat → Nat) (τ2 : Subst) (t : Term) :
    t.subst (pull σ π τ2) = ((t.subst σ).rename π).subst τ2 := by
  rw [rename_subst, Term.subst_comp]
  exact Term.subst_ext (fun v => by simp [Subst.comp, pull, rename_subst]) t

theorem pull_sol (h : IsMGU env σ) (π : Nat → Nat) (τ2 : Subst) : Sol env (pull σ π τ2) := by
  have := sol_comp h (fun v => τ2 (π v))
  have e : (fun v => (σ v).subst (fun v => τ2 (π v))) = pull σ π τ2 := by
    funext v; simp [pull, rename_subst]
  rwa [e] at this

/-- the VM fails (no solution of `env` unifies a and b) ⇒ the images have no unifier -/
theorem bridge_fail' (hσ : IsMGU env σ) (hfail : ¬ ∃ θ, Sol env θ ∧ a.subst θ = b.subst θ)
    (τ2 : Subst) (hu : ((a.subst σ).rename π).subst τ2 = ((b.subst σ).rename π).subst τ2) : False := by
  apply hfail
  refine ⟨pull σ π τ2, pull_sol hσ π _, ?_⟩
  rw [pull_subst, pull_subst]
  exact hu

/-- the VM fails (no solution of `env` unifies a and b) ⇒ the reference does not find an mgu -/
theorem bridge_fail (hσ : IsMGU env σ) (hfail : ¬ ∃ θ, Sol env θ ∧ a.subst θ = b.subst θ)
    {n : Nat} {θ2 : List (Nat × Term)}
    (hr : Robinson.solve n [((a.subst σ).rename π, (b.subst σ).rename π)] [] = .mgu θ2) : False :=
  bridge_fail' hσ hfail (substOf θ2) (solve_mgu_sound hr)

/-- the VM goes on ⇒ the reference does not answer `clash` -/
theorem bridge_clash (hσ : MG N env σ) (hc : ChainOK env)
    (ha : ∀ v, a.hasVar v = true → D v) (hb : ∀ v, b.hasVar v = true → D v)
    (hπ : InjOn π (RV σ D))
    (hchain : UChain M env N' env')
    (hsound : ISound env (fun θ => interp θ a = interp θ b) env')
    {n : Nat}
    (hr : Robinson.solve n [((a.subst σ).rename π, (b.subst σ).rename π)] [] = .clash) : False := by
  obtain ⟨θ, hθ⟩ := exists_isol (hchain.chainOK hc)
  obtain ⟨hs, hu⟩ := hsound θ hθ
  apply robinson_clash_no_iunifier hr
  refine ⟨fun y => θ (invOn π (RV σ D) y), ?_⟩
  have key : ∀ t : Term, (∀ v, t.hasVar v = true → D v) →
      interp (fun y => θ (invOn π (RV σ D) y)) ((t.subst σ).rename π) = interp θ t := by
    intro t ht
    rw [Term.rename, interp_subst, ← interp_subst_general hσ.igen hs t]
    apply interp_congr
    intro x hx
    show θ (invOn π (RV σ D) (π x)) = θ x
    rw [invOn_spec hπ (vars_subst_rv ht hx)]
  rw [key a ha, key b hb, hu]

/-- the VM goes on and the reference finds the mgu θ2 ⇒ the new environment is acyclic, and the two
    sides stay in step up to a renaming π' -/
theorem bridge_ok' (hσ : MG N env σ) (hM : N ≤ M) (hD : ∀ v, D v → v < M)
    (ha : ∀ v, a.hasVar v = true → D v) (hb : ∀ v, b.hasVar v = true → D v)
    (hπ : InjOn π (RV σ D))
    (hstep : MGUStep M env (fun θ => a.subst θ = b.subst θ) N' env')
    (hchain : UChain M env N' env')
    (τ2 : Subst)
    (hsnd : ((a.subst σ).rename π).subst τ2 = ((b.subst σ).rename π).subst τ2)
    (hgen : ∀ β : Subst, ((a.subst σ).rename π).subst β = ((b.subst σ).rename π).subst β →
      ∀ v, β v = (τ2 v).subst β) :
    ∃ σ' π', MG N' env' σ' ∧ InjOn π' (RV σ' D) ∧
      ∀ t : Term, (∀ v, t.hasVar v = true → D v) →
        (t.subst σ').rename π' = ((t.subst σ).rename π).subst τ2 := by
  let γ := pull σ π τ2
  have hγs : Sol env γ := pull_sol hσ.mgu π τ2
  have hγu : a.subst γ = b.subst γ := by
    rw [pull_subst, pull_subst]; exact hsnd
  -- a solution of env' that agrees with γ below M
  obtain ⟨θ', hag, hθ'⟩ := (hstep.iff γ).2 ⟨hγs, hγu⟩
  obtain ⟨σ', hσ'⟩ := uchain_mg hchain ⟨σ, hσ.mono hM⟩ ⟨θ', hθ'⟩
  -- (a') γ is an instance of σ' below M
  have hα : ∀ v, D v → (σ' v).subst θ' = γ v := by
    intro v hv
    rw [← hσ'.mgu.general θ' hθ' v]
    exact hag v (hD v hv)
  -- σ' solves env and unifies a, b
  obtain ⟨hs0, hu0⟩ := (hstep.iff σ').1 ⟨σ', AgreeBelow.refl _ _, hσ'.mgu.sol⟩
  -- (b') σ' is an instance of γ below M
  let β : Subst := fun y => σ' (invOn π (RV σ D) y)
  have hβπ : ∀ t : Term, (∀ v, t.hasVar v = true → D v) →
      ((t.subst σ).rename π).subst β = t.subst σ' := by
    intro t ht
    rw [rename_subst]
    have : (t.subst σ).subst (fun v => β (π v)) = (t.subst σ).subst σ' := by
      apply subst_congr
      intro x hx
      show σ' (invOn π (RV σ D) (π x)) = σ' x
      rw [invOn_spec hπ (vars_subst_rv ht hx)]
    rw [this]
    exact hσ.mgu.subst_general σ' hs0 t
  have hβu : ((a.subst σ).rename π).subst β = ((b.subst σ).rename π).subst β := by
    rw [hβπ a ha, hβπ b hb, hu0]
  have hβg := hgen β hβu
  have hβ : ∀ v, D v → (γ v).subst β = σ' v := by
    intro v hv
    show (((σ v).rename π).subst τ2).subst β = σ' v
    rw [Term.subst_comp]
    have : ((σ v).rename π).subst (Subst.comp β τ2) = ((σ v).rename π).subst β :=
      Term.subst_ext (fun y => (hβg y).symm) _
    rw [this]
    have := hβπ (.var v) (fun w hw => by simp only [Term.hasVar, beq_iff_eq] at hw; subst hw; exact hv)
    simpa [Term.subst] using this
  obtain ⟨π', hinj, hren⟩ := variant_of_instances D σ' γ θ' β hα hβ
  refine ⟨σ', π', hσ', hinj, ?_⟩
  intro t ht
  rw [subst_rename, ← pull_subst]
  exact subst_congr _ _ _ (fun v hv => hren v (ht v hv))

theorem bridge_ok (hσ : MG N env σ) (hM : N ≤ M) (hD : ∀ v, D v → v < M)
    (ha : ∀ v, a.hasVar v = true → D v) (hb : ∀ v, b.hasVar v = true → D v)
    (hπ : InjOn π (RV σ D))
    (hstep : MGUStep M env (fun θ => a.subst θ = b.subst θ) N' env')
    (hchain : UChain M env N' env')
    {n : Nat} {θ2 : List (Nat × Term)}
    (hr : Robinson.solve n [((a.subst σ).rename π, (b.subst σ).rename π)] [] = .mgu θ2) :
    ∃ σ' π', MG N' env' σ' ∧ InjOn π' (RV σ' D) ∧
      ∀ t : Term, (∀ v, t.hasVar v = true → D v) →
        (t.subst σ').rename π' = ((t.subst σ).rename π).subst (substOf θ2) :=
  bridge_ok' hσ hM hD ha hb hπ hstep hchain (substOf θ2) (solve_mgu_sound hr) (solve_mgu_general hr)

end bridge

end PrologVerif.Refine
