/-
  Proofs/DCGSem2Body — the fragment of grammar bodies for which semantic preservation is proved
  beyond ground inputs (`Body.ok`), the relation between a result of the reference SLD evaluation
  and a result of the denotation (`RelW`), and the combinators (sequence, alternation, condition,
  negation, the closing `S0 = S`) with their simulation lemmas.
-/
import PrologVerif.Proofs.DCGSem2Terminals
namespace PrologVerif.Grammar
open PrologVerif

/-! ### the fragment -/

/-- functors that are control constructs / built-ins of the reference evaluation at arity 2 -/
def ctl2 : List String := [",", ";", "->", "=", "\\=", "==", "\\=="]

/-- a non-terminal `f` with `k` arguments whose translation `f(…, S0, S)` the reference evaluation
    would take for a control construct or built-in (`'='`//0 becomes =/2, `call`//k is call/(k+2),
    `phrase`//1 is phrase/3) -/
def special (f : String) (k : Nat) : Bool :=
  (k == 0 && ctl2.contains f) || f == "call" || (f == "phrase" && k == 1)

/-- a closure of call//N that is known when the rule is translated and is not itself `call`/`phrase` -/
def staticClosure : Term → Bool
  | .atom f => f != "call" && f != "phrase"
  | .app f _ => f != "call" && f != "phrase"
  | _ => false

/-- non-terminals of the fragment: anything that does not clash; `call//N` (N ≥ 2), in the strict
    reading only with a static closure -/
def ntOK (strict : Bool) (f : String) (as : List Term) : Bool :=
  if f = "call" then
    match as with
    | g :: _ :: _ => !strict || staticClosure g
    | _ => false
  else !special f as.length

/-- goals inside `{}`: true, fail, false, `!`, `=`, `\\=`, `==`, `\\==` and conjunctions -/
def goalOK : Term → Bool
  | .atom a => a == "true" || a == "fail" || a == "false" || a == "!"
  | .app f (.cons a (.cons b .nil)) =>
    if f = "," then goalOK a && goalOK b
    else f == "=" || f == "\\=" || f == "==" || f == "\\=="
  | _ => false

/-- the fragment of bodies.  Strict: what both evaluations cover, so that "both give no result or
    both succeed" can be claimed.  Non-strict (`strict = false`): EVERY body the reader
    `Body.ofTerm` delivers — the only condition left is that an alternation does not have a bare
    if-then as its first branch (the reader makes an if-then-else of that); where the denotation does
    not cover a construct (a goal in `{}` outside its list, a non-terminal that clashes with a
    control construct) it gives up when it reaches it, and nothing is claimed. -/
def Body.ok (strict : Bool) : Body → Bool
  | .eps => true
  | .terminals _ => true
  | .nt f as => ntOK strict f as || !strict
  | .seq a b => a.ok strict && b.ok strict
  | .alt a b => a.ok strict && b.ok strict && !a.isIfthen
  | .ite c t e => c.ok strict && t.ok strict && e.ok strict
  | .ifthen c t => c.ok strict && t.ok strict
  | .block g => goalOK g || !strict
  | .not b => b.ok strict
  | .cut => true
  | .call1 _ => !strict
  | .phrase _ => !strict
  | .var _ => !strict

/-! ### corresponding goals and bodies on the two sides -/

/-- `{}`-goals: the same control structure, related arguments -/
inductive GoalRel (R : Term → Term → Prop) : Term → Term → Prop
  | atom (a : String) : GoalRel R (.atom a) (.atom a)
  | conj {a a' b b' : Term} : GoalRel R a a' → GoalRel R b b' →
      GoalRel R (.app "," (.cons a (.cons b .nil))) (.app "," (.cons a' (.cons b' .nil)))
  | bin {f : String} {x x' y y' : Term} : f ≠ "," → R x x' → R y y' →
      GoalRel R (.app f (.cons x (.cons y .nil))) (.app f (.cons x' (.cons y' .nil)))
  /-- any other shape: not a goal the denotation covers -/
  | other {g g' : Term} : goalOK g = false → (∀ uf st, ∃ e, evalBlock uf g' st = .error e) → GoalRel R g g'

theorem GoalRel.mono {R R' : Term → Term → Prop} {g g' : Term} (h : GoalRel R g g')
    (f : ∀ a b, R a b → R' a b) : GoalRel R' g g' := by
  induction h with
  | atom a => exact .atom a
  | conj _ _ iha ihb => exact .conj iha ihb
  | bin hf hx hy => exact .bin hf (f _ _ hx) (f _ _ hy)
  | other h1 h2 => exact .other h1 h2

/-- bodies: the same shape, related terms -/
inductive BodyRel (R : Term → Term → Prop) : Body → Body → Prop
  | eps : BodyRel R .eps .eps
  | terminals {ts us : List Term} : All2 R ts us → BodyRel R (.terminals ts) (.terminals us)
  | nt {f : String} {as bs : List Term} : All2 R as bs → BodyRel R (.nt f as) (.nt f bs)
  | seq {a a' b b' : Body} : BodyRel R a a' → BodyRel R b b' → BodyRel R (.seq a b) (.seq a' b')
  | alt {a a' b b' : Body} : BodyRel R a a' → BodyRel R b b' → BodyRel R (.alt a b) (.alt a' b')
  | ite {c c' t t' e e' : Body} : BodyRel R c c' → BodyRel R t t' → BodyRel R e e' →
      BodyRel R (.ite c t e) (.ite c' t' e')
  | ifthen {c c' t t' : Body} : BodyRel R c c' → BodyRel R t t' → BodyRel R (.ifthen c t) (.ifthen c' t')
  | block {g g' : Term} : GoalRel R g g' → BodyRel R (.block g) (.block g')
  | not {b b' : Body} : BodyRel R b b' → BodyRel R (.not b) (.not b')
  | cut : BodyRel R .cut .cut
  | call1 {g g' : Term} : R g g' → BodyRel R (.call1 g) (.call1 g')
  | phrase {g g' : Term} : R g g' → BodyRel R (.phrase g) (.phrase g')
  | var {v v' : Nat} : R (.var v) (.var v') → BodyRel R (.var v) (.var v')

theorem BodyRel.mono {R R' : Term → Term → Prop} {b b' : Body} (h : BodyRel R b b')
    (f : ∀ a b, R a b → R' a b) : BodyRel R' b b' := by
  induction h with
  | eps => exact .eps
  | terminals h => exact .terminals (h.imp f)
  | nt h => exact .nt (h.imp f)
  | seq _ _ iha ihb => exact .seq iha ihb
  | alt _ _ iha ihb => exact .alt iha ihb
  | ite _ _ _ ihc iht ihe => exact .ite ihc iht ihe
  | ifthen _ _ ihc iht => exact .ifthen ihc iht
  | block h => exact .block (h.mono f)
  | not _ ih => exact .not ih
  | cut => exact .cut
  | call1 h => exact .call1 (f _ _ h)
  | phrase h => exact .phrase (f _ _ h)
  | var h => exact .var (f _ _ h)

/-! ### results -/

/-- an answer of the SLD evaluation and an answer (state, remainder) of the denotation: the two
    states form a good world after `W` (frame `P`), in which `φ` holds of the remainder -/
def AnsG (W : World) (P : Nat → Prop) (φ : World → Term → Prop) (st' : St) (a : St × Term) : Prop :=
  ∃ W' : World, st' = W'.stS ∧ a.1 = W'.stD ∧ W'.Good ∧ Step W W' P ∧ φ W' a.2

/-- … in which the variable `s` of the SLD side is what the denotation says is left -/
def AnsW (W : World) (P : Nat → Prop) (s : Nat) : St → St × Term → Prop :=
  AnsG W P (fun W' r => W'.Eq (.var s) r)

/-- results correspond: both succeed with the same pending cut and corresponding answers in the
    same order; or both give no result.  The SLD side alone may run out of (unification) fuel.  In
    the non-strict reading the denotation may also give up where the SLD evaluation goes on. -/
def RelG (strict : Bool) (W : World) (P : Nat → Prop) (φ : World → Term → Prop) : Res SOut → Res Out → Prop
  | .ok A, .ok D => A.cut = D.cut ∧ All2 (AnsG W P φ) A.answers D.answers
  | .error e, .ok _ => strict = true → e = .fuel
  | .ok _, .error _ => strict = false
  | .error _, .error _ => True

def RelW (strict : Bool) (W : World) (P : Nat → Prop) (s : Nat) : Res SOut → Res Out → Prop :=
  RelG strict W P (fun W' r => W'.Eq (.var s) r)

theorem RelG.errS {strict : Bool} {W : World} {P : Nat → Prop} {φ : World → Term → Prop} {e : Stop}
    (h : strict = true → e = .fuel) (rD : Res Out) : RelG strict W P φ (.error e) rD := by
  cases rD with
  | error _ => trivial
  | ok _ => exact h

theorem RelG.errD {strict : Bool} {W : World} {P : Nat → Prop} {φ : World → Term → Prop} {e : Stop}
    (h : strict = false) (rS : Res SOut) : RelG strict W P φ rS (.error e) := by
  cases rS with
  | error _ => trivial
  | ok _ => exact h

theorem AnsG.rebase {W W' : World} {P1 P2 Q : Nat → Prop} {φ : World → Term → Prop} {st'' : St} {a : St × Term}
    (h : AnsG W' P2 φ st'' a) (hs : Step W W' P1) (h1 : ∀ v, P1 v → Q v) (h2 : ∀ v, P2 v → Q v) :
    AnsG W Q φ st'' a := by
  obtain ⟨W'', e1, e2, g, st, he⟩ := h
  exact ⟨W'', e1, e2, g, hs.trans st h1 h2, he⟩

theorem RelG.rebase {strict : Bool} {W W' : World} {P1 P2 Q : Nat → Prop} {φ : World → Term → Prop}
    {rS : Res SOut} {rD : Res Out}
    (h : RelG strict W' P2 φ rS rD) (hs : Step W W' P1) (h1 : ∀ v, P1 v → Q v) (h2 : ∀ v, P2 v → Q v) :
    RelG strict W Q φ rS rD := by
  cases rS <;> cases rD <;> simp_all [RelG]
  exact h.2.imp (fun _ _ h => h.rebase hs h1 h2)

theorem RelG.rebase' {strict : Bool} {W W' : World} {P1 P2 Q : Nat → Prop} {φ : World → Term → Prop}
    {rS : Res SOut} {rD : Res Out}
    (h : RelG strict W' P2 φ rS rD) (hs : Step W W' P1) (h1 : ∀ v, P1 v → Q v) (h2 : ∀ v, P2 v → Q v ∨ W.nS ≤ v) :
    RelG strict W Q φ rS rD := by
  cases rS <;> cases rD <;> simp_all [RelG]
  refine h.2.imp (fun _ _ h => ?_)
  obtain ⟨W'', e1, e2, g, st, he⟩ := h
  exact ⟨W'', e1, e2, g, hs.trans' st h1 h2, he⟩

theorem RelG.mono {strict : Bool} {W : World} {P Q : Nat → Prop} {φ : World → Term → Prop}
    {rS : Res SOut} {rD : Res Out} (h : RelG strict W P φ rS rD) (hPQ : ∀ v, P v → Q v) :
    RelG strict W Q φ rS rD :=
  h.rebase (Step.refl W P) hPQ hPQ

/-- the frame of a body: its remainder variable and its hidden variables -/
def Fr (s lo hi : Nat) : Nat → Prop := fun v => v = s ∨ (lo ≤ v ∧ v < hi)

/-! ### combinators of the two evaluations -/

def sConj (rS : Res SOut) (k : St → Res SOut) : Res SOut :=
  match rS with
  | .error e => .error e
  | .ok oa =>
    match sAndThen k oa.answers with
    | .error e => .error e
    | .ok ob => .ok ⟨ob.answers, oa.cut || ob.cut⟩

def dConj (rD : Res Out) (kd : St → Term → Res Out) : Res Out :=
  match rD with
  | .error e => .error e
  | .ok oa =>
    match andThen kd oa.answers with
    | .error e => .error e
    | .ok ob => .ok ⟨ob.answers, oa.cut || ob.cut⟩

def sAlt (rSa rSb : Res SOut) : Res SOut :=
  match rSa with
  | .error e => .error e
  | .ok oa =>
    if oa.cut then .ok oa
    else match rSb with
      | .error e => .error e
      | .ok ob => .ok ⟨oa.answers ++ ob.answers, ob.cut⟩

def dAlt (rDa rDb : Res Out) : Res Out :=
  match rDa with
  | .error e => .error e
  | .ok oa =>
    if oa.cut then .ok oa
    else match rDb with
      | .error e => .error e
      | .ok ob => .ok ⟨oa.answers ++ ob.answers, ob.cut⟩

def sIte (rSc : Res SOut) (kt : St → Res SOut) (rSe : Res SOut) : Res SOut :=
  match rSc with
  | .error e => .error e
  | .ok oc =>
    match oc.answers with
    | st' :: _ => kt st'
    | [] => rSe

def dIte (rDc : Res Out) (kt : St → Term → Res Out) (rDe : Res Out) : Res Out :=
  match rDc with
  | .error e => .error e
  | .ok oc =>
    match oc.answers with
    | (st', l') :: _ => kt st' l'
    | [] => rDe

theorem solveGoal_conj' (uf : Nat) (call : Term → St → Res SOut) (a b : Term) (st : St) :
    solveGoal uf call (Term.a2 "," a b) st =
      sConj (solveGoal uf call a st) (fun st' => solveGoal uf call b st') := by
  rw [solveGoal_conj]; rfl

theorem solveGoal_disj' (uf : Nat) (call : Term → St → Res SOut) (a b : Term) (st : St) (h : notThen a) :
    solveGoal uf call (Term.a2 ";" a b) st = sAlt (solveGoal uf call a st) (solveGoal uf call b st) := by
  rw [solveGoal_disj _ _ _ _ _ h]; rfl

theorem solveGoal_ite' (uf : Nat) (call : Term → St → Res SOut) (c t e : Term) (st : St) :
    solveGoal uf call (Term.a2 ";" (Term.a2 "->" c t) e) st =
      sIte (solveGoal uf call c st) (fun st' => solveGoal uf call t st') (solveGoal uf call e st) := by
  rw [solveGoal_ite]; rfl

theorem solveGoal_ifthen' (uf : Nat) (call : Term → St → Res SOut) (c t : Term) (st : St) :
    solveGoal uf call (Term.a2 "->" c t) st =
      sIte (solveGoal uf call c st) (fun st' => solveGoal uf call t st') (.ok ⟨[], false⟩) := by
  rw [solveGoal_ifthen]; rfl

/-- sequencing: run a second part in every answer of a first part -/
theorem seqG {strict : Bool} {W : World} {P1 P2 Q : Nat → Prop} {φ1 φ2 : World → Term → Prop}
    (k : St → Res SOut) (kd : St → Term → Res Out)
    (hk : ∀ (W' : World) (r : Term), W'.Good → Step W W' P1 → φ1 W' r →
      RelG strict W' P2 φ2 (k W'.stS) (kd W'.stD r))
    (h1 : ∀ v, P1 v → Q v) (h2 : ∀ v, P2 v → Q v)
    {As : List St} {Ds : List (St × Term)} (h : All2 (AnsG W P1 φ1) As Ds) :
    RelG strict W Q φ2 (sAndThen k As) (andThen kd Ds) := by
  induction h with
  | nil => exact ⟨rfl, .nil⟩
  | @cons st' a As Ds hr _ ih =>
    obtain ⟨sa, ra⟩ := a
    obtain ⟨W', e1, e2, g, stp, he⟩ := hr
    simp only at e2 he
    subst e1 e2
    have hh := hk W' ra g stp he
    simp only [sAndThen, andThen]
    cases hx : k W'.stS with
    | error e =>
      cases hy : kd W'.stD ra with
      | error e' => trivial
      | ok od =>
        rw [hx, hy] at hh
        exact RelG.errS hh _
    | ok o =>
      cases hy : kd W'.stD ra with
      | error e' =>
        rw [hx, hy] at hh
        exact RelG.errD hh _
      | ok od =>
        rw [hx, hy] at hh
        obtain ⟨c1, hall⟩ := hh
        have hall' : All2 (AnsG W Q φ2) o.answers od.answers :=
          hall.imp (fun _ _ h => h.rebase stp h1 h2)
        by_cases hc : o.cut = true
        · have hc' : od.cut = true := c1 ▸ hc
          simp only [hc, hc', if_true]
          exact ⟨rfl, hall'⟩
        · have hc0 : o.cut = false := by simpa using hc
          have hc' : od.cut = false := c1 ▸ hc0
          simp only [hc0, hc', Bool.false_eq_true, if_false]
          cases hx2 : sAndThen k As with
          | error e =>
            cases hy2 : andThen kd Ds with
            | error e' => trivial
            | ok od2 => rw [hx2, hy2] at ih; exact ih
          | ok o2 =>
            cases hy2 : andThen kd Ds with
            | error e' => rw [hx2, hy2] at ih; exact ih
            | ok od2 =>
              rw [hx2, hy2] at ih
              exact ⟨ih.1, hall'.append ih.2⟩

theorem conjG {strict : Bool} {W : World} {P1 P2 Q : Nat → Prop} {φ1 φ2 : World → Term → Prop}
    {rS : Res SOut} {rD : Res Out} (h : RelG strict W P1 φ1 rS rD)
    (k : St → Res SOut) (kd : St → Term → Res Out)
    (hk : ∀ (W' : World) (r : Term), W'.Good → Step W W' P1 → φ1 W' r →
      RelG strict W' P2 φ2 (k W'.stS) (kd W'.stD r))
    (h1 : ∀ v, P1 v → Q v) (h2 : ∀ v, P2 v → Q v) :
    RelG strict W Q φ2 (sConj rS k) (dConj rD kd) := by
  cases rS with
  | error e =>
    cases rD with
    | error e' => trivial
    | ok od => exact RelG.errS h _
  | ok oa =>
    cases rD with
    | error e' => exact RelG.errD h _
    | ok od =>
      obtain ⟨c1, hall⟩ := h
      have key := seqG k kd hk h1 h2 hall
      simp only [sConj, dConj]
      cases hx : sAndThen k oa.answers with
      | error e =>
        cases hy : andThen kd od.answers with
        | error e' => trivial
        | ok ob => rw [hx, hy] at key; exact key
      | ok ob =>
        cases hy : andThen kd od.answers with
        | error e' => rw [hx, hy] at key; exact key
        | ok ob' =>
          rw [hx, hy] at key
          exact ⟨by rw [c1, key.1], key.2⟩

theorem altG {strict : Bool} {W : World} {P : Nat → Prop} {φ : World → Term → Prop}
    {rSa rSb : Res SOut} {rDa rDb : Res Out} (ha : RelG strict W P φ rSa rDa) (hb : RelG strict W P φ rSb rDb) :
    RelG strict W P φ (sAlt rSa rSb) (dAlt rDa rDb) := by
  cases rSa with
  | error e =>
    cases rDa with
    | error e' => trivial
    | ok od => exact RelG.errS ha _
  | ok oa =>
    cases rDa with
    | error e' => exact RelG.errD ha _
    | ok od =>
      obtain ⟨c1, halla⟩ := ha
      simp only [sAlt, dAlt]
      by_cases hc : oa.cut = true
      · have hc' : od.cut = true := c1 ▸ hc
        simp only [hc, hc', if_true]
        exact ⟨c1, halla⟩
      · have hc0 : oa.cut = false := by simpa using hc
        have hc' : od.cut = false := c1 ▸ hc0
        simp only [hc0, hc', Bool.false_eq_true, if_false]
        cases rSb with
        | error e =>
          cases rDb with
          | error e' => trivial
          | ok ob => exact hb
        | ok ob =>
          cases rDb with
          | error e' => exact hb
          | ok ob' => exact ⟨hb.1, halla.append hb.2⟩

theorem iteG {strict : Bool} {W : World} {P1 P2 Q : Nat → Prop} {φ1 φ2 : World → Term → Prop}
    {rSc rSe : Res SOut} {rDc rDe : Res Out} (hc : RelG strict W P1 φ1 rSc rDc)
    (kt : St → Res SOut) (ktd : St → Term → Res Out)
    (hk : ∀ (W' : World) (r : Term), W'.Good → Step W W' P1 → φ1 W' r →
      RelG strict W' P2 φ2 (kt W'.stS) (ktd W'.stD r))
    (he : RelG strict W Q φ2 rSe rDe)
    (h1 : ∀ v, P1 v → Q v) (h2 : ∀ v, P2 v → Q v) :
    RelG strict W Q φ2 (sIte rSc kt rSe) (dIte rDc ktd rDe) := by
  cases rSc with
  | error e =>
    cases rDc with
    | error e' => trivial
    | ok od => exact RelG.errS hc _
  | ok oc =>
    cases rDc with
    | error e' => exact RelG.errD hc _
    | ok od =>
      obtain ⟨_, hall⟩ := hc
      obtain ⟨ocA, occ⟩ := oc
      obtain ⟨odA, odc⟩ := od
      simp only [sIte, dIte]
      simp only at hall
      cases hall with
      | nil => exact he
      | @cons st' a As Ds hr _ =>
        obtain ⟨sa, ra⟩ := a
        obtain ⟨W', e1, e2, g, stp, hφ⟩ := hr
        change sa = W'.stD at e2
        change φ1 W' ra at hφ
        subst e1 e2
        exact (hk W' ra g stp hφ).rebase stp h1 h2

/-! ### the closing `S0 = S` -/

/-- before a translated body is run: the world is good, the input `x` is what the denotation's
    input `l` is, the remainder variable `s` and the hidden variables [lo, hi) are untouched and in
    scope -/
structure PreW (W : World) (x l : Term) (s lo hi : Nat) : Prop where
  good : W.Good
  inp : W.Eq x l
  sUn : ¬ W.TS s
  sLt : s < W.nS
  hUn : ∀ v, lo ≤ v → v < hi → ¬ W.TS v
  hLt : hi ≤ W.nS
  sOut : ¬ (lo ≤ s ∧ s < hi)

theorem eqStepG (strict : Bool) (uf : Nat) (call : Term → St → Res SOut) {W : World} {x l : Term} {s : Nat}
    (hW : W.Good) (hx : W.Eq x l) (hs : ¬ W.TS s) (hlt : s < W.nS) (P : Nat → Prop) (hP : P s) :
    RelG strict W P (fun W' r => W'.Eq (.var s) r)
      (solveGoal uf call (Term.a2 "=" x (.var s)) W.stS) (.ok ⟨[(W.stD, l)], false⟩) := by
  rw [solveGoal_eq]
  cases uf with
  | zero => simp only [unify]; exact fun _ => rfl
  | succ k =>
    obtain ⟨W', e, e1, e2, e3, g, st, he⟩ := unify_to_hidden k hW hx hs hlt
    simp only [World.stS] at e ⊢
    rw [e]
    refine ⟨rfl, .cons ⟨W', ?_, ?_, g, st.mono (fun v hv => hv ▸ hP), he⟩ .nil⟩
    · simp [World.stS, e2]
    · simp [World.stD, e1, e3]

theorem andThen_id : ∀ Ds : List (St × Term),
    andThen (fun st' r => .ok ⟨[(st', r)], false⟩) Ds = .ok ⟨Ds, false⟩
  | [] => rfl
  | (st, r) :: Ds => by simp [andThen, andThen_id Ds]

/-- `G, S0 = S` where the answers of `G` left the input alone (`r = l`) -/
theorem tailG {strict : Bool} {uf : Nat} {call : Term → St → Res SOut} {W : World} {x l : Term} {s lo hi : Nat}
    (P : PreW W x l s lo hi) {rS : Res SOut} {Ds : List (St × Term)} {c : Bool}
    (h : RelG strict W (fun _ => False) (fun _ r => r = l) rS (.ok ⟨Ds, c⟩)) :
    RelG strict W (Fr s lo hi) (fun W' r => W'.Eq (.var s) r)
      (sConj rS (fun st' => solveGoal uf call (Term.a2 "=" x (.var s)) st')) (.ok ⟨Ds, c⟩) := by
  have key := conjG (Q := Fr s lo hi) (P2 := Fr s lo hi) (φ2 := fun W' r => W'.Eq (.var s) r) h
    (fun st' => solveGoal uf call (Term.a2 "=" x (.var s)) st')
    (fun st' r => .ok ⟨[(st', r)], false⟩)
    (fun W' r g st hr => by
      subst hr
      exact eqStepG strict uf call g (st.eq _ _ P.inp) (st.untouched P.sUn (fun h => h) P.sLt)
        (Nat.lt_of_lt_of_le P.sLt st.nS) _ (.inl rfl))
    (fun _ h => h.elim) (fun _ h => h)
  simpa [dConj, andThen_id] using key

/-! ### goals inside `{}` -/

def dBlock (r : Res (List St × Bool)) (l : Term) : Res Out :=
  match r with
  | .error e => .error e
  | .ok (sts, c) => .ok ⟨sts.map (fun s => (s, l)), c⟩

mutual
  theorem trel_fn {ρ : Nat → Nat → Prop} (fn : ∀ a b b', ρ a b → ρ a b' → b = b') :
      ∀ (t u u' : Term), TRel ρ t u → TRel ρ t u' → u = u'
    | .var _, _, _, h, h' => by cases h with | var r => cases h' with | var r' => rw [fn _ _ _ r r']
    | .atom _, _, _, h, h' => by cases h; cases h'; rfl
    | .int _, _, _, h, h' => by cases h; cases h'; rfl
    | .flt _, _, _, h, h' => by cases h; cases h'; rfl
    | .str _, _, _, h, h' => by cases h; cases h'; rfl
    | .app _ as, _, _, h, h' => by
      cases h with | app r => cases h' with | app r' => rw [trelA_fn fn as _ _ r r']
  theorem trelA_fn {ρ : Nat → Nat → Prop} (fn : ∀ a b b', ρ a b → ρ a b' → b = b') :
      ∀ (as bs bs' : Args), TRelA ρ as bs → TRelA ρ as bs' → bs = bs'
    | .nil, _, _, h, h' => by cases h; cases h'; rfl
    | .cons a as, _, _, h, h' => by
      cases h with
      | cons r rs => cases h' with
        | cons r' rs' => rw [trel_fn fn a _ _ r r', trelA_fn fn as _ _ rs rs']
end

mutual
  theorem trel_inj {ρ : Nat → Nat → Prop} (inj : ∀ a a' b, ρ a b → ρ a' b → a = a') :
      ∀ (u t t' : Term), TRel ρ t u → TRel ρ t' u → t = t'
    | .var _, _, _, h, h' => by cases h with | var r => cases h' with | var r' => rw [inj _ _ _ r r']
    | .atom _, _, _, h, h' => by cases h; cases h'; rfl
    | .int _, _, _, h, h' => by cases h; cases h'; rfl
    | .flt _, _, _, h, h' => by cases h; cases h'; rfl
    | .str _, _, _, h, h' => by cases h; cases h'; rfl
    | .app _ bs, _, _, h, h' => by
      cases h with | app r => cases h' with | app r' => rw [trelA_inj inj bs _ _ r r']
  theorem trelA_inj {ρ : Nat → Nat → Prop} (inj : ∀ a a' b, ρ a b → ρ a' b → a = a') :
      ∀ (bs as as' : Args), TRelA ρ as bs → TRelA ρ as' bs → as = as'
    | .nil, _, _, h, h' => by cases h; cases h'; rfl
    | .cons b bs, _, _, h, h' => by
      cases h with
      | cons r rs => cases h' with
        | cons r' rs' => rw [trel_inj inj b _ _ r r', trelA_inj inj bs _ _ rs rs']
end

/-- `==` decides the same on both sides -/
theorem identical_sim {W : World} (hW : W.Good) (k : Nat) {xS yS xD yD : Term} (hx : W.Eq xS xD)
    (hy : W.Eq yS yD) :
    match resolve k W.σS xS, resolve k W.σS yS, resolve k W.σD xD, resolve k W.σD yD with
    | some a, some b, some a', some b' => (a = b ↔ a' = b')
    | some _, some _, _, _ => False
    | _, _, some _, some _ => False
    | _, _, _, _ => True := by
  have h1 := resolve_sim W k xS xD (hx k)
  have h2 := resolve_sim W k yS yD (hy k)
  match hS1 : resolve k W.σS xS, hD1 : resolve k W.σD xD, h1 with
  | none, none, _ => cases resolve k W.σS yS <;> cases resolve k W.σD yD <;> trivial
  | some a, some a', r1 =>
    match hS2 : resolve k W.σS yS, hD2 : resolve k W.σD yD, h2 with
    | none, none, _ => trivial
    | some b, some b', r2 =>
      constructor
      · intro e; subst e; exact trel_fn hW.fn _ _ _ r1 r2
      · intro e; subst e; exact trel_inj hW.inj _ _ _ r1 r2

theorem goalOK_bin {f : String} {x y : Term} (hf : f ≠ ",") (h : goalOK (.app f (.cons x (.cons y .nil))) = true) :
    f = "=" ∨ f = "\\=" ∨ f = "==" ∨ f = "\\==" := by
  simp only [goalOK, hf, if_false, Bool.or_eq_true, beq_iff_eq] at h
  rcases h with ((h | h) | h) | h <;> simp [h]

theorem goalOK_atom {a : String} (h : goalOK (.atom a) = true) :
    a = "true" ∨ a = "fail" ∨ a = "false" ∨ a = "!" := by
  simp only [goalOK, Bool.or_eq_true, beq_iff_eq] at h
  rcases h with ((h | h) | h) | h <;> simp [h]

theorem evalBlock_atom_err {a : String} (h : goalOK (.atom a) = false) (uf : Nat) (st : St) :
    ∃ e, evalBlock uf (.atom a) st = .error e := by
  simp only [goalOK, Bool.or_eq_false_iff, beq_eq_false_iff_ne] at h
  obtain ⟨⟨⟨h1, h2⟩, h3⟩, h4⟩ := h
  unfold evalBlock
  split <;> simp_all

theorem evalBlock_bin_err {f : String} {x y : Term} (hf : f ≠ ",")
    (h : goalOK (.app f (.cons x (.cons y .nil))) = false) (x' y' : Term) (uf : Nat) (st : St) :
    ∃ e, evalBlock uf (.app f (.cons x' (.cons y' .nil))) st = .error e := by
  simp only [goalOK, hf, if_false, Bool.or_eq_false_iff, beq_eq_false_iff_ne] at h
  obtain ⟨⟨⟨h1, h2⟩, h3⟩, h4⟩ := h
  unfold evalBlock
  split <;> simp_all

/-- the goals the denotation covers have at most one answer -/
theorem evalBlock_le_one (uf : Nat) {R : Term → Term → Prop} {gS gD : Term} (h : GoalRel R gS gD) :
    ∀ (st : St) (sts : List St) (c : Bool), evalBlock uf gD st = .ok (sts, c) → sts.length ≤ 1 := by
  induction h with
  | atom a =>
    intro st sts c e
    by_cases ok : goalOK (.atom a) = true
    · rcases goalOK_atom ok with rfl | rfl | rfl | rfl <;> simp only [evalBlock, Except.ok.injEq, Prod.mk.injEq] at e <;>
        (obtain ⟨rfl, -⟩ := e; simp)
    · obtain ⟨err, he⟩ := evalBlock_atom_err (by simpa using ok) uf st
      rw [he] at e; cases e
  | @conj a a' b b' _ _ iha ihb =>
    intro st sts c e
    rw [evalBlock] at e
    cases ha : evalBlock uf a' st with
    | error err => simp [ha] at e
    | ok ra =>
      obtain ⟨sa, ca⟩ := ra
      simp only [ha] at e
      cases sa with
      | nil => simp only [Except.ok.injEq, Prod.mk.injEq] at e; obtain ⟨rfl, -⟩ := e; simp
      | cons st' rest =>
        simp only at e
        cases hb : evalBlock uf b' st' with
        | error err => simp [hb] at e
        | ok rb =>
          obtain ⟨sb, cb⟩ := rb
          simp only [hb, Except.ok.injEq, Prod.mk.injEq] at e
          exact e.1 ▸ ihb st' sb cb hb
  | @bin f x x' y y' hf _ _ =>
    intro st sts c e
    by_cases ok : goalOK (.app f (.cons x (.cons y .nil))) = true
    · rcases goalOK_bin hf ok with rfl | rfl | rfl | rfl
      · rw [evalBlock] at e
        cases hu : unify uf st.σ x' y' with
        | out => simp [hu] at e
        | done o =>
          cases o <;> simp only [hu, Except.ok.injEq, Prod.mk.injEq] at e <;> (obtain ⟨rfl, -⟩ := e; simp)
      · rw [evalBlock] at e
        cases hu : unify uf st.σ x' y' with
        | out => simp [hu] at e
        | done o =>
          cases o <;> simp only [hu, Except.ok.injEq, Prod.mk.injEq] at e <;> (obtain ⟨rfl, -⟩ := e; simp)
      · rw [evalBlock] at e
        cases h1 : resolve uf st.σ x' <;> cases h2 : resolve uf st.σ y' <;> simp [h1, h2] at e
        rw [← e.1]; split <;> simp
      · rw [evalBlock] at e
        cases h1 : resolve uf st.σ x' <;> cases h2 : resolve uf st.σ y' <;> simp [h1, h2] at e
        rw [← e.1]; split <;> simp
    · obtain ⟨err, he⟩ := evalBlock_bin_err hf (by simpa using ok) x' y' uf st
      rw [he] at e; cases e
  | other _ herr =>
    intro st sts c e
    obtain ⟨err, he⟩ := herr uf st
    rw [he] at e; cases e

theorem dBlock_conj (uf : Nat) (a b : Term) (st : St) (l : Term)
    (h1 : ∀ sa ca, evalBlock uf a st = .ok (sa, ca) → sa.length ≤ 1) :
    dBlock (evalBlock uf (.app "," (.cons a (.cons b .nil))) st) l =
      dConj (dBlock (evalBlock uf a st) l) (fun st' r => dBlock (evalBlock uf b st') r) := by
  rw [evalBlock]
  cases ha : evalBlock uf a st with
  | error e => simp [dBlock, dConj]
  | ok ra =>
    obtain ⟨sa, ca⟩ := ra
    have hl := h1 sa ca ha
    cases sa with
    | nil => simp [dBlock, dConj, andThen]
    | cons st' rest =>
      have : rest = [] := by cases rest with | nil => rfl | cons _ _ => simp at hl
      subst this
      cases hb : evalBlock uf b st' with
      | error e => simp [dBlock, dConj, andThen, hb]
      | ok rb =>
        obtain ⟨sb, cb⟩ := rb
        cases cb <;> simp [dBlock, dConj, andThen, hb]

theorem RelG.same {strict : Bool} {W : World} (hW : W.Good) (l : Term) (c : Bool) :
    RelG strict W (fun _ => False) (fun _ r => r = l) (.ok ⟨[W.stS], c⟩) (.ok ⟨[(W.stD, l)], c⟩) :=
  ⟨rfl, .cons ⟨W, rfl, rfl, hW, Step.refl W _, rfl⟩ .nil⟩

/-- **goals inside `{}`**: the reference evaluation and `evalBlock` correspond (for a goal the
    denotation does not cover it gives up: nothing is claimed, non-strict reading only) -/
theorem block_sim (strict : Bool) (uf : Nat) (call : Term → St → Res SOut) {R : Term → Term → Prop}
    {gS gD : Term} (h : GoalRel R gS gD) :
    (goalOK gS = true ∨ strict = false) → ∀ (W : World), W.Good → (∀ a b, R a b → W.Eq a b) → ∀ l : Term,
      RelG strict W (fun _ => False) (fun _ r => r = l) (solveGoal uf call gS W.stS)
        (dBlock (evalBlock uf gD W.stD) l) := by
  induction h with
  | atom a =>
    intro hok W hW _ l
    by_cases ok : goalOK (.atom a) = true
    · rcases goalOK_atom ok with rfl | rfl | rfl | rfl
      · simp only [solveGoal, evalBlock, dBlock, List.map]; exact RelG.same hW l false
      · simp only [solveGoal, evalBlock, dBlock, List.map]; exact ⟨rfl, .nil⟩
      · simp only [solveGoal, evalBlock, dBlock, List.map]; exact ⟨rfl, .nil⟩
      · simp only [solveGoal, evalBlock, dBlock, List.map]; exact RelG.same hW l true
    · have hs : strict = false := by rcases hok with h | h; exact absurd h ok; exact h
      obtain ⟨err, he⟩ := evalBlock_atom_err (by simpa using ok) uf W.stD
      rw [he]; exact RelG.errD hs _
  | @conj a a' b b' ha _ iha ihb =>
    intro hok W hW hR l
    have hok' : (goalOK a = true ∨ strict = false) ∧ (goalOK b = true ∨ strict = false) := by
      rcases hok with h | h
      · simp only [goalOK, if_true, Bool.and_eq_true] at h
        exact ⟨.inl h.1, .inl h.2⟩
      · exact ⟨.inr h, .inr h⟩
    rw [show Term.app "," (.cons a (.cons b .nil)) = Term.a2 "," a b from rfl, solveGoal_conj',
      dBlock_conj uf a' b' W.stD l (fun sa ca e => evalBlock_le_one uf ha _ sa ca e)]
    exact conjG (iha hok'.1 W hW hR l) _ _
      (fun W' r g st hr => by
        cases hr
        exact ihb hok'.2 W' g (fun a b h => st.eq _ _ (hR a b h)) l)
      (fun _ h => h) (fun _ h => h)
  | other hno herr =>
    intro hok W hW _ l
    have hs : strict = false := by
      rcases hok with h | h
      · rw [hno] at h; cases h
      · exact h
    obtain ⟨err, he⟩ := herr uf W.stD
    rw [he]; exact RelG.errD hs _
  | @bin f x x' y y' hf hx hy =>
    intro hok W hW hR l
    by_cases ok : goalOK (.app f (.cons x (.cons y .nil))) = true
    case neg =>
      have hs : strict = false := by rcases hok with h | h; exact absurd h ok; exact h
      obtain ⟨err, he⟩ := evalBlock_bin_err hf (by simpa using ok) x' y' uf W.stD
      rw [he]; exact RelG.errD hs _
    rcases goalOK_bin hf ok with rfl | rfl | rfl | rfl
    · rw [show Term.app "=" (.cons x (.cons y .nil)) = Term.a2 "=" x y from rfl, solveGoal_eq, evalBlock]
      have hu := unify_sim uf uf (Nat.le_refl _) W hW x y x' y' (hR _ _ hx) (hR _ _ hy)
      match hS : unify uf W.stS.σ x y, hD : unify uf W.stD.σ x' y', hu with
      | .out, _, _ => exact RelG.errS (fun _ => rfl) _
      | .done none, .done none, _ => exact ⟨rfl, .nil⟩
      | .done (some σ1), .done (some σ1'), ⟨W1, e1, e2, e3, e4, g, st⟩ =>
        subst e1 e2
        refine ⟨rfl, .cons ⟨W1, ?_, ?_, g, st, rfl⟩ .nil⟩
        · simp [World.stS, e3]
        · simp [World.stD, e4]
    · rw [solveGoal, evalBlock]
      have hu := unify_sim uf uf (Nat.le_refl _) W hW x y x' y' (hR _ _ hx) (hR _ _ hy)
      match hS : unify uf W.stS.σ x y, hD : unify uf W.stD.σ x' y', hu with
      | .out, _, _ => exact RelG.errS (fun _ => rfl) _
      | .done none, .done none, _ => exact RelG.same hW l false
      | .done (some σ1), .done (some σ1'), _ => exact ⟨rfl, .nil⟩
    · rw [solveGoal, evalBlock]
      have hi := identical_sim hW uf (hR _ _ hx) (hR _ _ hy)
      revert hi
      show (match resolve uf W.stS.σ x, resolve uf W.stS.σ y, resolve uf W.stD.σ x', resolve uf W.stD.σ y' with
        | some a, some b, some a', some b' => (a = b ↔ a' = b')
        | some _, some _, _, _ => False
        | _, _, some _, some _ => False
        | _, _, _, _ => True) → _
      cases resolve uf W.stS.σ x <;> cases resolve uf W.stS.σ y <;> cases resolve uf W.stD.σ x' <;>
        cases resolve uf W.stD.σ y' <;> intro hi <;> simp only [dBlock] <;> try trivial
      rename_i a b a' b'
      by_cases hab : a = b
      · simp only [hab, hi.1 hab, if_true, List.map]; exact RelG.same hW l false
      · have : ¬ a' = b' := fun e => hab (hi.2 e)
        simp only [hab, this, if_false, List.map]; exact ⟨rfl, .nil⟩
    · rw [solveGoal, evalBlock]
      have hi := identical_sim hW uf (hR _ _ hx) (hR _ _ hy)
      revert hi
      show (match resolve uf W.stS.σ x, resolve uf W.stS.σ y, resolve uf W.stD.σ x', resolve uf W.stD.σ y' with
        | some a, some b, some a', some b' => (a = b ↔ a' = b')
        | some _, some _, _, _ => False
        | _, _, some _, some _ => False
        | _, _, _, _ => True) → _
      cases resolve uf W.stS.σ x <;> cases resolve uf W.stS.σ y <;> cases resolve uf W.stD.σ x' <;>
        cases resolve uf W.stD.σ y' <;> intro hi <;> simp only [dBlock] <;> try trivial
      rename_i a b a' b'
      by_cases hab : a = b
      · simp only [hab, hi.1 hab, if_true, List.map]; exact ⟨rfl, .nil⟩
      · have : ¬ a' = b' := fun e => hab (hi.2 e)
        simp only [hab, this, if_false, List.map]; exact RelG.same hW l false

/-! ### non-terminal goals are passed on to the program -/

theorem ofList_append2 (x y : Term) : ∀ as : List Term, ∃ c d ds, Args.ofList (as ++ [x, y]) = .cons c (.cons d ds)
  | [] => ⟨x, y, .nil, rfl⟩
  | [a] => ⟨a, x, .cons y .nil, rfl⟩
  | a :: b :: as => by
    obtain ⟨c, d, ds, e⟩ := ofList_append2 x y as
    exact ⟨a, b, Args.ofList (as ++ [x, y]), rfl⟩

theorem solveGoal_nt (uf : Nat) (call : Term → St → Res SOut) (f : String) (as : List Term) (x y : Term) (st : St)
    (h : as ≠ [] ∨ ctl2.contains f = false) :
    solveGoal uf call (Term.mk f (as ++ [x, y])) st = call (Term.mk f (as ++ [x, y])) st := by
  rw [mk_append2]
  cases as with
  | nil =>
    simp only [List.nil_append, Args.ofList]
    have hf : ctl2.contains f = false := by simpa using h
    conv => lhs; unfold solveGoal
    split <;> simp_all [ctl2]
  | cons a as =>
    obtain ⟨c, d, ds, e⟩ := ofList_append2 x y as
    simp only [List.cons_append, Args.ofList, e]
    conv => lhs; unfold solveGoal
    split <;> simp_all

theorem ntOK_ctl {strict : Bool} {f : String} {as : List Term} (h : ntOK strict f as = true) :
    as ≠ [] ∨ ctl2.contains f = false := by
  unfold ntOK at h
  split at h
  · left; intro e; subst e; simp at h
  · cases as with
    | nil => right; simp [special] at h; simpa using h.1
    | cons a as => left; simp

theorem ofList_eq_two {l : List Term} {c t : Term} (h : Args.ofList l = .cons c (.cons t .nil)) : l = [c, t] := by
  have := congrArg Args.toList h
  simpa [Args.toList] using this

theorem tr_notThen2 (strict : Bool) (b : Body) (hb : b.ok strict = true) (hi : b.isIfthen = false)
    (hne : b ≠ .nt "->" []) (i o : Term) (n : Nat) :
    notThen (b.tr i o n).1 := by
  intro c t
  cases b with
  | nt f as =>
    simp only [Body.tr]
    rw [mk_append2]
    intro h
    injection h with h1 h2
    have := ofList_eq_two h2
    have has : as = [] := by
      cases as with
      | nil => rfl
      | cons a as => simp at this; cases as <;> simp at this
    subst has h1
    exact hne rfl
  | ifthen c t => simp [Body.isIfthen] at hi
  | _ => simp_all [Body.ok, Body.tr, Term.a2, Term.a3]

/-! ### the denotation of a body in terms of the combinators -/

theorem denBody_seq (cfg : Cfg) (dyn : Dyn → St → Term → Res Out) (top : Bool) (a b : Body) (st : St) (l : Term) :
    denBody cfg dyn top (.seq a b) st l =
      dConj (denBody cfg dyn false a st l) (fun st' l' => denBody cfg dyn false b st' l') := by
  simp only [denBody]; rfl

theorem denBody_alt (cfg : Cfg) (hcfg : cfg.engine = false) (dyn : Dyn → St → Term → Res Out) (top : Bool)
    (a b : Body) (st : St) (l : Term) :
    denBody cfg dyn top (.alt a b) st l =
      dAlt (denBody cfg dyn false a st l) (denBody cfg dyn true b st l) := by
  simp only [denBody, hcfg, Bool.false_and, Bool.false_eq_true, if_false]; rfl

theorem denBody_ite (cfg : Cfg) (hcfg : cfg.engine = false) (dyn : Dyn → St → Term → Res Out) (top : Bool)
    (c t e : Body) (st : St) (l : Term) :
    denBody cfg dyn top (.ite c t e) st l =
      dIte (denBody cfg dyn true c st l) (fun st' l' => denBody cfg dyn true t st' l')
        (denBody cfg dyn true e st l) := by
  simp only [denBody, hcfg, Bool.false_eq_true, if_false]; rfl

theorem denBody_ifthen (cfg : Cfg) (hcfg : cfg.engine = false) (dyn : Dyn → St → Term → Res Out) (top : Bool)
    (c t : Body) (st : St) (l : Term) :
    denBody cfg dyn top (.ifthen c t) st l =
      dIte (denBody cfg dyn true c st l) (fun st' l' => denBody cfg dyn true t st' l') (.ok ⟨[], false⟩) := by
  simp only [denBody, hcfg, Bool.false_eq_true, if_false]; rfl

theorem denBody_block (cfg : Cfg) (dyn : Dyn → St → Term → Res Out) (top : Bool) (g : Term) (st : St) (l : Term) :
    denBody cfg dyn top (.block g) st l = dBlock (evalBlock cfg.uf g st) l := by
  simp only [denBody, dBlock]
  cases evalBlock cfg.uf g st with
  | error e => rfl
  | ok r => rfl

theorem BodyRel.nhid_eq {R : Term → Term → Prop} {b b' : Body} (h : BodyRel R b b') : b'.nhid = b.nhid := by
  induction h <;> simp_all [Body.nhid]

/-! ### bodies -/

/-- calls of translated non-terminals correspond to the denotation of the non-terminals -/
def CallW (strict : Bool) (dyn : Dyn → St → Term → Res Out) (call : Term → St → Res SOut) : Prop :=
  ∀ (f : String) (asS asD : List Term), ntOK strict f asS = true → ∀ (W : World), W.Good →
    ∀ (x l : Term) (s : Nat), W.Eq x l → All2 W.Eq asS asD → ¬ W.TS s → s < W.nS →
      RelW strict W (fun v => v = s) s (call (Term.mk f (asS ++ [x, .var s])) W.stS) (dyn (.nt f asD) W.stD l)

theorem PreW.first {W : World} {x l : Term} {s m n1 n2 : Nat} (P : PreW W x l s m (m + (n1 + n2 + 1))) :
    PreW W x l m (m + 1) (m + 1 + n1) :=
  ⟨P.good, P.inp, P.hUn m (Nat.le_refl _) (by omega), by have := P.hLt; omega,
    fun v h1 h2 => P.hUn v (by omega) (by omega), by have := P.hLt; omega, fun h => by omega⟩

theorem PreW.second {W W' : World} {x l r : Term} {s m n1 lo hi : Nat} {H : Nat}
    (P : PreW W x l s m H) (g : W'.Good) (st : Step W W' (Fr m (m + 1) (m + 1 + n1)))
    (he : W'.Eq (.var m) r) (h1 : m + 1 + n1 ≤ lo) (h2 : hi ≤ H) (h0 : m < H) (h3 : lo ≤ hi) :
    PreW W' (.var m) r s lo hi := by
  have hsm : s ≠ m := fun e => P.sOut (by omega)
  refine ⟨g, he, ?_, Nat.lt_of_lt_of_le P.sLt st.nS, ?_, Nat.le_trans (Nat.le_trans h2 P.hLt) st.nS,
    fun h => P.sOut (by omega)⟩
  · refine st.untouched P.sUn ?_ P.sLt
    rintro (h | h)
    · exact hsm h
    · exact P.sOut (by omega)
  · intro v hv1 hv2
    refine st.untouched (P.hUn v (by omega) (by omega)) ?_ (by have := P.hLt; omega)
    rintro (h | h) <;> omega

theorem All2.isEmpty_eq' {α β : Type} {R : α → β → Prop} {as : List α} {bs : List β} (h : All2 R as bs) :
    as.isEmpty = bs.isEmpty := by
  cases h <;> rfl

/-- a non-terminal that clashes with a control construct is an error of the denotation -/
def DynErr (dyn : Dyn → St → Term → Res Out) : Prop :=
  ∀ (f : String) (as : List Term), ntOK false f as = false → ∀ (st : St) (l : Term), ∃ e, dyn (.nt f as) st l = .error e

/-- what the denotation does for call//1 -/
def denCall1 (dyn : Dyn → St → Term → Res Out) (g : Term) (st : St) (l : Term) : Res Out :=
  match walk st.σ g with
  | .atom a => barrier (dyn (.nt a []) st l)
  | .app f as => barrier (dyn (.nt f as.toList) st l)
  | _ => .error (.unsupported "call//1 of a non-callable term")

/-- call//1: `call(G, S0, S)` against the denotation's call//1 -/
def Call1W (dyn : Dyn → St → Term → Res Out) (call : Term → St → Res SOut) : Prop :=
  ∀ (gS gD : Term) (W : World), W.Good → ∀ (x l : Term) (s : Nat), W.Eq x l → W.Eq gS gD → ¬ W.TS s → s < W.nS →
    RelW false W (fun v => v = s) s (call (Term.a3 "call" gS x (.var s)) W.stS) (denCall1 dyn gD W.stD l)

/-- phrase//1 and variable bodies: `phrase(G, S0, S)` against the run-time body -/
def LateW (dyn : Dyn → St → Term → Res Out) (call : Term → St → Res SOut) : Prop :=
  ∀ (gS gD : Term) (W : World), W.Good → ∀ (x l : Term) (s : Nat), W.Eq x l → W.Eq gS gD → ¬ W.TS s → s < W.nS →
    RelW false W (fun v => v = s) s (call (Term.a3 "phrase" gS x (.var s)) W.stS)
      (barrier (dyn (.late gD) W.stD l))

theorem ntOK_false_len (f : String) {as bs : List Term} (h : as.length = bs.length) :
    ntOK false f as = ntOK false f bs := by
  unfold ntOK
  split
  · match as, bs, h with
    | [], [], _ => rfl
    | [_], [_], _ => rfl
    | _ :: _ :: _, _ :: _ :: _, _ => rfl
  · rw [h]

theorem solveGoal_a3 (uf : Nat) (call : Term → St → Res SOut) (f : String) (a b c : Term) (st : St) :
    solveGoal uf call (Term.a3 f a b c) st = call (Term.a3 f a b c) st := by
  simp only [Term.a3]
  conv => lhs; unfold solveGoal
  split <;> simp_all

theorem ok_strict_false {strict : Bool} {f : String} {as : List Term}
    (hok : (ntOK strict f as || !strict) = true) (hno : ntOK strict f as = false) : strict = false := by
  simpa [hno] using hok

/-- **bodies**: given the correspondence for calls, the reference evaluation of the translation of
    a body of the fragment corresponds to the denotation of the body -/
theorem body_simW (cfg : Cfg) (hcfg : cfg.engine = false) (strict : Bool)
    (dyn : Dyn → St → Term → Res Out) (call : Term → St → Res SOut) (H : CallW strict dyn call)
    (HE : strict = false → DynErr dyn) (HC : strict = false → Call1W dyn call)
    (HL : strict = false → LateW dyn call) :
    ∀ (bS : Body), bS.ok strict = true → ∀ (bD : Body) (W : World), BodyRel W.Eq bS bD →
      ∀ (top : Bool) (x l : Term) (s m : Nat), PreW W x l s m (m + bS.nhid) →
        RelW strict W (Fr s m (m + bS.nhid)) s (solveGoal cfg.uf call (bS.tr x (.var s) m).1 W.stS)
          (denBody cfg dyn top bD W.stD l) := by
  intro bS
  induction bS with
  | eps =>
    intro _ bD W hrel top x l s m P
    cases hrel
    simp only [Body.tr, denBody]
    exact eqStepG strict cfg.uf call P.good P.inp P.sUn P.sLt _ (.inl rfl)
  | terminals tsS =>
    intro _ bD W hrel top x l s m P
    cases hrel with
    | terminals hts =>
      rename_i tsD
      simp only [Body.tr, solveGoal_eq, denBody]
      have ht := terminals_sim cfg.uf tsS tsD cfg.uf (Nat.le_refl _) W P.good x l P.inp hts s P.sUn P.sLt
      match hS : unify cfg.uf W.stS.σ x (Term.list tsS (.var s)), hD : consume cfg.uf tsD W.stD l, ht with
      | .out, _, _ => exact RelG.errS (fun _ => rfl) _
      | .done none, .done none, _ => exact ⟨rfl, .nil⟩
      | .done (some σ1), .done (some (dst', r)), ⟨W', e1, e2, e3, g, st, he⟩ =>
        subst e1 e3
        refine ⟨rfl, .cons ⟨W', ?_, rfl, g, st.mono (fun v hv => .inl hv), he⟩ .nil⟩
        simp [World.stS, e2]
  | nt f asS =>
    intro hok bD W hrel top x l s m P
    cases hrel with
    | nt hargs =>
      rename_i asD
      simp only [Body.ok] at hok
      simp only [Body.tr, denBody]
      cases hnt : ntOK strict f asS with
      | true =>
        rw [solveGoal_nt _ _ _ _ _ _ _ (ntOK_ctl hnt)]
        exact (H f asS _ hnt W P.good x l s P.inp hargs P.sUn P.sLt).mono (fun v hv => .inl hv)
      | false =>
        have hs : strict = false := ok_strict_false hok hnt
        subst hs
        obtain ⟨e, he⟩ := HE rfl f asD (by rw [← ntOK_false_len f hargs.length_eq]; exact hnt) W.stD l
        rw [he]
        exact RelG.errD rfl _
  | seq a b iha ihb =>
    intro hok bD W hrel top x l s m P
    cases hrel with
    | seq ha hb =>
      rename_i a' b'
      simp only [Body.ok, Bool.and_eq_true] at hok
      simp only [Body.nhid] at P ⊢
      simp only [Body.tr, tr_next]
      rw [solveGoal_conj', denBody_seq]
      refine conjG (iha hok.1 a' W ha false x l m (m + 1) P.first) _ _ ?_ ?_ ?_
        (P2 := Fr s (m + 1 + a.nhid) (m + 1 + a.nhid + b.nhid))
      · intro W' r g st he
        exact ihb hok.2 b' W' (hb.mono (fun _ _ h => st.eq _ _ h)) false (.var m) r s (m + 1 + a.nhid)
          (P.second g st he (Nat.le_refl _) (by omega) (by omega) (by omega))
      · rintro v (h | h)
        · exact .inr (by omega)
        · exact .inr (by omega)
      · rintro v (h | h)
        · exact .inl h
        · exact .inr (by omega)
  | alt a b iha ihb =>
    intro hok bD W hrel top x l s m P
    cases hrel with
    | alt ha hb =>
      rename_i a' b'
      simp only [Body.ok, Bool.and_eq_true, Bool.not_eq_true'] at hok
      simp only [Body.nhid] at P ⊢
      by_cases hne : a = .nt "->" []
      · subst hne
        cases ha with
        | nt hargs =>
          cases hargs
          have hs : strict = false := by
            have := hok.1.1
            simp only [Body.ok] at this
            exact ok_strict_false this (by simp [ntOK, special, ctl2])
          subst hs
          obtain ⟨e, he⟩ := HE rfl "->" [] (by simp [ntOK, special, ctl2]) W.stD l
          rw [denBody_alt cfg hcfg]
          simp only [denBody, he, dAlt]
          exact RelG.errD rfl _
      simp only [Body.tr, tr_next]
      rw [solveGoal_disj' _ _ _ _ _ (tr_notThen2 strict a hok.1.1 hok.2 hne _ _ _), denBody_alt cfg hcfg]
      have Pa : PreW W x l s m (m + a.nhid) :=
        ⟨P.good, P.inp, P.sUn, P.sLt, fun v h1 h2 => P.hUn v h1 (by omega), by have := P.hLt; omega,
          fun h => P.sOut (by omega)⟩
      have Pb : PreW W x l s (m + a.nhid) (m + a.nhid + b.nhid) :=
        ⟨P.good, P.inp, P.sUn, P.sLt, fun v h1 h2 => P.hUn v (by omega) (by omega), by have := P.hLt; omega,
          fun h => P.sOut (by omega)⟩
      refine altG ((iha hok.1.1 a' W ha false x l s m Pa).mono ?_) ((ihb hok.1.2 b' W hb true x l s (m + a.nhid) Pb).mono ?_)
      · rintro v (h | h)
        · exact .inl h
        · exact .inr (by omega)
      · rintro v (h | h)
        · exact .inl h
        · exact .inr (by omega)
  | ite c t e ihc iht ihe =>
    intro hok bD W hrel top x l s m P
    cases hrel with
    | ite hc ht he =>
      rename_i c' t' e'
      simp only [Body.ok, Bool.and_eq_true] at hok
      simp only [Body.nhid] at P ⊢
      simp only [Body.tr, tr_next]
      rw [solveGoal_ite', denBody_ite cfg hcfg]
      have Pc : PreW W x l m (m + 1) (m + 1 + c.nhid) :=
        ⟨P.good, P.inp, P.hUn m (Nat.le_refl _) (by omega), by have := P.hLt; omega,
          fun v h1 h2 => P.hUn v (by omega) (by omega), by have := P.hLt; omega, fun h => by omega⟩
      have Pe : PreW W x l s (m + 1 + c.nhid + t.nhid) (m + 1 + c.nhid + t.nhid + e.nhid) :=
        ⟨P.good, P.inp, P.sUn, P.sLt, fun v h1 h2 => P.hUn v (by omega) (by omega), by have := P.hLt; omega,
          fun h => P.sOut (by omega)⟩
      refine iteG (ihc hok.1.1 c' W hc true x l m (m + 1) Pc) _ _ ?_
        ((ihe hok.2 e' W he true x l s _ Pe).mono ?_) ?_ ?_
        (P2 := Fr s (m + 1 + c.nhid) (m + 1 + c.nhid + t.nhid))
      · intro W' r g st hr
        exact iht hok.1.2 t' W' (ht.mono (fun _ _ h => st.eq _ _ h)) true (.var m) r s (m + 1 + c.nhid)
          (P.second g st hr (Nat.le_refl _) (by omega) (by omega) (by omega))
      · rintro v (h | h)
        · exact .inl h
        · exact .inr (by omega)
      · rintro v (h | h)
        · exact .inr (by omega)
        · exact .inr (by omega)
      · rintro v (h | h)
        · exact .inl h
        · exact .inr (by omega)
  | ifthen c t ihc iht =>
    intro hok bD W hrel top x l s m P
    cases hrel with
    | ifthen hc ht =>
      rename_i c' t'
      simp only [Body.ok, Bool.and_eq_true] at hok
      simp only [Body.nhid] at P ⊢
      simp only [Body.tr, tr_next]
      rw [solveGoal_ifthen', denBody_ifthen cfg hcfg]
      refine iteG (ihc hok.1 c' W hc true x l m (m + 1) P.first) _ _ ?_ ⟨rfl, .nil⟩ ?_ ?_
        (P2 := Fr s (m + 1 + c.nhid) (m + 1 + c.nhid + t.nhid))
      · intro W' r g st hr
        exact iht hok.2 t' W' (ht.mono (fun _ _ h => st.eq _ _ h)) true (.var m) r s (m + 1 + c.nhid)
          (P.second g st hr (Nat.le_refl _) (by omega) (by omega) (by omega))
      · rintro v (h | h)
        · exact .inr (by omega)
        · exact .inr (by omega)
      · rintro v (h | h)
        · exact .inl h
        · exact .inr (by omega)
  | block gS =>
    intro hok bD W hrel top x l s m P
    cases hrel with
    | block hg =>
      rename_i gD
      simp only [Body.ok] at hok
      simp only [Body.tr]
      rw [solveGoal_conj', denBody_block]
      have hok' : goalOK gS = true ∨ strict = false := by
        cases hgo : goalOK gS with
        | true => exact .inl rfl
        | false => right; simpa [hgo] using hok
      have hb := block_sim strict cfg.uf call hg hok' W P.good (fun _ _ h => h) l
      cases hd : dBlock (evalBlock cfg.uf gD W.stD) l with
      | error e =>
        rw [hd] at hb
        cases hs : solveGoal cfg.uf call gS W.stS with
        | error e' => trivial
        | ok o => rw [hs] at hb; exact RelG.errD hb _
      | ok od =>
        rw [hd] at hb
        exact tailG P hb
  | not b ih =>
    intro hok bD W hrel top x l s m P
    cases hrel with
    | not hb =>
      rename_i b'
      simp only [Body.ok] at hok
      simp only [Body.nhid] at P ⊢
      simp only [Body.tr]
      rw [solveGoal_conj', solveGoal_not]
      simp only [denBody]
      have Pb : PreW W x l m (m + 1) (m + 1 + b.nhid) :=
        ⟨P.good, P.inp, P.hUn m (Nat.le_refl _) (by omega), by have := P.hLt; omega,
          fun v h1 h2 => P.hUn v (by omega) (by omega), by have := P.hLt; omega, fun h => by omega⟩
      have rb := ih hok b' W hb true x l m (m + 1) Pb
      cases hx : solveGoal cfg.uf call (b.tr x (.var m) (m + 1)).1 W.stS with
      | error e =>
        cases hy : denBody cfg dyn true b' W.stD l with
        | error e' => trivial
        | ok od => rw [hx, hy] at rb; exact rb
      | ok ob =>
        cases hy : denBody cfg dyn true b' W.stD l with
        | error e' => rw [hx, hy] at rb; exact RelG.errD rb _
        | ok od =>
          rw [hx, hy] at rb
          have hemp := rb.2.isEmpty_eq'
          simp only [← hemp]
          refine tailG P ?_
          cases ob.answers.isEmpty with
          | true => exact RelG.same P.good l false
          | false => exact ⟨rfl, .nil⟩
  | cut =>
    intro _ bD W hrel top x l s m P
    cases hrel
    simp only [Body.tr]
    rw [solveGoal_conj', solveGoal_cut]
    simp only [denBody]
    exact tailG P (RelG.same P.good l true)
  | call1 gS =>
    intro hok bD W hrel top x l s m P
    have hs : strict = false := by simpa [Body.ok] using hok
    subst hs
    cases hrel with
    | call1 hg =>
      simp only [Body.tr]
      rw [solveGoal_a3]
      have := HC rfl gS _ W P.good x l s P.inp hg P.sUn P.sLt
      simp only [denBody]
      exact RelG.mono this (fun v hv => .inl hv)
  | phrase gS =>
    intro hok bD W hrel top x l s m P
    have hs : strict = false := by simpa [Body.ok] using hok
    subst hs
    cases hrel with
    | phrase hg =>
      simp only [Body.tr]
      rw [solveGoal_a3]
      have := HL rfl gS _ W P.good x l s P.inp hg P.sUn P.sLt
      simp only [denBody]
      exact RelG.mono this (fun v hv => .inl hv)
  | var v =>
    intro hok bD W hrel top x l s m P
    have hs : strict = false := by simpa [Body.ok] using hok
    subst hs
    cases hrel with
    | var hg =>
      simp only [Body.tr]
      rw [solveGoal_a3]
      have := HL rfl (.var v) _ W P.good x l s P.inp hg P.sUn P.sLt
      simp only [denBody]
      exact RelG.mono this (fun v hv => .inl hv)

end PrologVerif.Grammar
