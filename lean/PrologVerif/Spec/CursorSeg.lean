/-
  Spec/CursorSeg.lean — the cursor specification for a source that GOES ON after an end of file
  (a terminal, a growing pipe): the source is a sequence of SEGMENTS separated by end-of-file marks.

    bytes (all segments concatenated) + end-of-file marks (ascending offsets) + ONE index +
    "end_of_file was delivered" + the number of the current segment.

  * a get / peek / read_term works on the unread bytes of the CURRENT segment only; at its end it
    delivers end_of_file / -1 (a get marks it delivered: the stream is `past`);
  * an input operation on a stream that is past follows eof_action: `error` raises the permission
    error for ever; `reset` makes the stream not-past and moves to the NEXT segment (behind the last
    mark the source has ended for good and stays where it is);
  * position = index (counted over all segments); end_of_stream is `past` iff end_of_file was
    delivered and not yet reset, `at` ONLY if the current segment has no unread byte left — never
    while it has —, `not` otherwise.

  With no marks this is Spec/Cursor.lean.  (eof_action(eof_code) over a continuing source is not
  specified here: the correspondence stream draws `reset` and `error`.)  Used as the verdict column
  of c19.ops for `rd=seg` cases.
-/
import PrologVerif.Spec.Cursor
namespace PrologVerif.Stream.SegSpec
open PrologVerif.Stream

structure SCfg where
  bytes : List Nat
  typ : StreamType
  action : EofAction
  marks : List Nat

structure Cursor where
  idx : Nat := 0
  delivered : Bool := false
  seg : Nat := 0
  deriving DecidableEq, Repr

/-- where the current segment ends -/
def segEnd (c : SCfg) (cu : Cursor) : Nat := (c.marks[cu.seg]?).getD c.bytes.length

/-- the unread bytes of the current segment -/
def window (c : SCfg) (cu : Cursor) : List Nat := (c.bytes.take (segEnd c cu)).drop cu.idx

def pastAction (c : SCfg) (cu : Cursor) : Option Err × Cursor :=
  if cu.delivered then
    match c.action with
    | .error => (some .pastEOS, cu)
    | .eofCode => (none, cu)
    | .reset => (none, { cu with delivered := false, seg := if cu.seg < c.marks.length then cu.seg + 1 else cu.seg })
  else (none, cu)

def advance (consume : Bool) (n : Nat) (cu : Cursor) : Cursor :=
  if consume then { cu with idx := cu.idx + n } else cu

def deliverEOF (consume : Bool) (cu : Cursor) : Cursor :=
  if consume then { cu with delivered := true } else cu

def readChar (c : SCfg) (consume : Bool) (cu : Cursor) : Result × Cursor :=
  match pastAction c cu with
  | (some e, cu) => (.err e, cu)
  | (none, cu) =>
    if c.typ ≠ .text then (.err .binaryStream, cu)
    else
      match window c cu with
      | [] => (.eof, deliverEOF consume cu)
      | w =>
        let d := decodeRune w
        if d.1 = runeError then (.err .reprChar, advance consume d.2 cu)
        else (.char d.1, advance consume d.2 cu)

def readByte (c : SCfg) (consume : Bool) (cu : Cursor) : Result × Cursor :=
  match pastAction c cu with
  | (some e, cu) => (.err e, cu)
  | (none, cu) =>
    if c.typ ≠ .binary then (.err .textStream, cu)
    else
      match window c cu with
      | [] => (.eofByte, deliverEOF consume cu)
      | b :: _ => (.byte b, advance consume 1 cu)

def readTerm {σ : Type} (c : SCfg) (sc : Scanner σ) (cu : Cursor) : Result × Cursor :=
  match pastAction c cu with
  | (some e, cu) => (.err e, cu)
  | (none, cu) =>
    if c.typ ≠ .text then (.err .binaryStream, cu)
    else
      match Spec.scan sc (c.bytes.length + 2) sc.init (window c cu) 0 with
      | (some (.out (.term t)), n) => (.term t, { cu with idx := cu.idx + n })
      | (some (.out .syntaxErr), n) => (.err .syntax, { cu with idx := cu.idx + n })
      | (some .endOfFile, n) => (.eof, { cu with idx := cu.idx + n, delivered := true })
      | (none, _) => (.err .other, cu)

def eosOk (c : SCfg) (cu : Cursor) : EOS → Bool
  | .past => cu.delivered
  | .at => decide (cu.idx = segEnd c cu) && !cu.delivered
  | .not => !cu.delivered

def check {σ : Type} (c : SCfg) (sc : Scanner σ) (op : Op) (cu : Cursor) (r : Result) : Option Cursor :=
  let exact (p : Result × Cursor) : Option Cursor := if r = p.1 then some p.2 else none
  match op with
  | .getChar => exact (readChar c true cu)
  | .peekChar => exact (readChar c false cu)
  | .getByte => exact (readByte c true cu)
  | .peekByte => exact (readByte c false cu)
  | .readTerm => exact (readTerm c sc cu)
  | .atEnd =>
    match r with
    | .bool true => if cu.idx = segEnd c cu then some cu else none
    | .bool false => if cu.delivered then none else some cu
    | _ => none
  | .propPos => if r = .pos cu.idx then some cu else none
  | .propEos =>
    match r with
    | .eos e => if eosOk c cu e then some cu else none
    | _ => none

def judgeConj {σ : Type} (c : SCfg) (sc : Scanner σ) : List Op → List Result → Cursor → Option Cursor
  | [], [], cu => some cu
  | o :: os, r :: rs, cu =>
    match check c sc o cu r with
    | none => none
    | some cu' => if r.isErr then (if rs = [] then some cu' else none) else judgeConj c sc os rs cu'
  | _, _, _ => none

def judge {σ : Type} (c : SCfg) (sc : Scanner σ) : List (List Op) → List (List Result) → Cursor → Option Cursor
  | [], [], cu => some cu
  | q :: qs, r :: rs, cu =>
    match judgeConj c sc q r cu with
    | none => none
    | some cu' => judge c sc qs rs cu'
  | _, _, _ => none

end PrologVerif.Stream.SegSpec
