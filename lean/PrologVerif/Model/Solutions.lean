/-
  Model/Solutions — the request/response protocol between a `Solutions` value and the search
  goroutine started by `Interpreter.QueryContext` (interpreter.go) and driven by
  `Solutions.Next/Scan/Err/Close` (solutions.go).

      more := make(chan bool, 1); next := make(chan *engine.Env)
      go func() {                                   -- the PRODUCER
          defer close(next)                         --   exiting  → exited
          if !<-more { return }                     --   await0
          if _, err := engine.Call(.., func(env) {  --   searching
              next <- env                           --   offering a
              return engine.Bool(!<-more)           --   awaitMore
          }, env).Force(ctx); err != nil {
              sols.err = err                        --   failing e
          }
      }()

      func (s *Solutions) Next() bool {             -- the CONSUMER (one goroutine, runs `todo`)
          if s.closed || s.done { return false }    --   idle      (`|| s.done`: the D14 repair)
          s.more <- true                            --   nextSend
          var ok bool
          s.env, ok = <-s.next                      --   nextRecv
          if !ok { s.done = true }                  --                (the D14 repair)
          return ok
      }
      func (s *Solutions) Close() error {
          if s.closed { return ErrClosed }
          close(s.more); s.closed = true; return nil
      }

  A small-step transition system.  Each goroutine has a program counter; `cStep`/`pStep` give
  the (unique) next step of the consumer / the producer when it is enabled; `Step` allows either
  — i.e. EVERY schedule.  Channels follow the Go memory model's channel semantics: `more` is a
  buffer of capacity 1 (send enabled iff not full, receive enabled iff non-empty or closed; a
  closed channel still delivers what is buffered; send on / close of a closed channel panics),
  `next` is a rendezvous (send and receive happen as one joint step) and, once closed, every
  receive returns `(nil, false)`.

  The query is an outcome stream (Spec/Iter `Query`); one `searching` step stands for the whole
  (terminating) search for the next outcome and is counted in the ghost field `work`
  ("a goal ran").  The consumer's program (`todo`) and the log of completed calls (`hist`, `out`)
  are part of the state so that "all call sequences" = all initial `todo`.

  `fix = false` is the protocol of the pinned tree (no `done` field), kept for the D14 witness.
-/
import PrologVerif.Spec.Iter
namespace PrologVerif.Solutions
open PrologVerif.Iter

/-- producer program counter -/
inductive PPc where
  | await0                -- `if !<-more` before the search starts
  | searching             -- inside `Force`, looking for the next outcome
  | offering (a : Nat)    -- `next <- env`
  | awaitMore             -- `engine.Bool(!<-more)` inside the continuation
  | failing (e : Nat)     -- `Force` returned err; about to `sols.err = err`
  | exiting               -- about to run the deferred `close(next)`
  | exited
  deriving DecidableEq, Repr

/-- consumer program counter -/
inductive CPc where
  | idle                  -- between two calls
  | nextSend              -- in `Next`, about to `s.more <- true`
  | nextRecv              -- in `Next`, about to `s.env, ok = <-s.next`
  | crashed               -- Go panic (send on closed channel / close of closed channel)
  deriving DecidableEq, Repr

/-- capacity of `more` -/
def moreCap : Nat := 1

structure Sys where
  -- the consumer: its program, the log of completed calls, the fields of `Solutions`
  todo : List Op
  hist : List Op := []
  out : List Ret := []
  c : CPc := .idle
  env : Option Nat := none
  closed : Bool := false
  done : Bool := false
  -- the channels
  more : Nat := 0
  moreClosed : Bool := false
  nextClosed : Bool := false
  -- the producer
  p : PPc := .await0
  pos : Nat := 0            -- number of answers produced = index of the next outcome
  work : Nat := 0           -- ghost: search steps performed
  perr : Option Nat := none -- `sols.err`
  deriving DecidableEq, Repr

def init (todo : List Op) : Sys := { todo := todo }

/-- a call returns: log it -/
def Sys.ret (s : Sys) (op : Op) (r : Ret) : Sys :=
  { s with c := .idle, hist := s.hist ++ [op], out := s.out ++ [r] }

/-- the consumer's next step, if it is enabled -/
def cStep (fix : Bool) (s : Sys) : Option Sys :=
  match s.c with
  | .idle =>
    match s.todo with
    | [] => none
    | .next :: rest =>
      if s.closed = true ∨ (fix = true ∧ s.done = true) then some ({ s with todo := rest }.ret .next (.bool false))
      else some { s with todo := rest, c := .nextSend }
    | .scan :: rest => some ({ s with todo := rest }.ret .scan (.ans s.env))
    | .err :: rest => some ({ s with todo := rest }.ret .err (.err s.perr))
    | .close :: rest =>
      if s.closed = true then some ({ s with todo := rest }.ret .close (.closed true))
      else if s.moreClosed = true then some { s with todo := rest, c := .crashed }
      else some ({ s with todo := rest, moreClosed := true, closed := true }.ret .close (.closed false))
  | .nextSend =>
    if s.moreClosed = true then some { s with c := .crashed }
    else if s.more < moreCap then some { s with more := s.more + 1, c := .nextRecv }
    else none
  | .nextRecv =>
    match s.p with
    | .offering a => some ({ s with p := .awaitMore, env := some a }.ret .next (.bool true))
    | _ =>
      if s.nextClosed = true then some ({ s with env := none, done := fix }.ret .next (.bool false))
      else none
  | .crashed => none

/-- `<-more` in the producer: a token, or "closed", or not enabled -/
def recvMore (s : Sys) : Option Sys :=
  if 0 < s.more then some { s with more := s.more - 1, p := .searching }
  else if s.moreClosed = true then some { s with p := .exiting }
  else none

/-- the producer's next step, if it is enabled -/
def pStep (q : Query) (s : Sys) : Option Sys :=
  match s.p with
  | .await0 => recvMore s
  | .awaitMore => recvMore s
  | .searching =>
    match q s.pos with
    | .answer a => some { s with work := s.work + 1, pos := s.pos + 1, p := .offering a }
    | .exhausted => some { s with work := s.work + 1, p := .exiting }
    | .error e => some { s with work := s.work + 1, p := .failing e }
  | .offering _ => none
  | .failing e => some { s with perr := some e, p := .exiting }
  | .exiting => some { s with nextClosed := true, p := .exited }
  | .exited => none

/-- one step of the system: ANY enabled goroutine may move -/
def Step (fix : Bool) (q : Query) (s s' : Sys) : Prop :=
  cStep fix s = some s' ∨ pStep q s = some s'

instance (fix q s s') : Decidable (Step fix q s s') := by unfold Step; infer_instance

/-- executable form: the successor states -/
def succ (fix : Bool) (q : Query) (s : Sys) : List Sys :=
  (cStep fix s).toList ++ (pStep q s).toList

theorem mem_succ (fix : Bool) (q : Query) (s s' : Sys) : s' ∈ succ fix q s ↔ Step fix q s s' := by
  simp [succ, Step, eq_comm]

/-- states reachable from the initial state of a call sequence, under every schedule -/
inductive Reach (fix : Bool) (q : Query) (todo : List Op) : Sys → Prop where
  | init : Reach fix q todo (init todo)
  | step {s s'} : Reach fix q todo s → Step fix q s s' → Reach fix q todo s'

/-- the consumer has run its whole program -/
def Finished (s : Sys) : Prop := s.c = .idle ∧ s.todo = []

instance (s : Sys) : Decidable (Finished s) := by unfold Finished; infer_instance

/-- a run of exactly `n` steps -/
inductive Run (fix : Bool) (q : Query) : Nat → Sys → Sys → Prop where
  | refl (s) : Run fix q 0 s s
  | step {n s s' s''} : Run fix q n s s' → Step fix q s' s'' → Run fix q (n + 1) s s''

/-- follow a schedule (`true` = consumer moves, `false` = producer moves) -/
def follow (fix : Bool) (q : Query) : List Bool → Sys → Option Sys
  | [], s => some s
  | true :: rest, s => (cStep fix s).bind (follow fix q rest)
  | false :: rest, s => (pStep q s).bind (follow fix q rest)

/-- all states reachable within `fuel` steps, explored breadth first without duplicates
    (used by the driver to enumerate every schedule of a concrete case) -/
def explore (fix : Bool) (q : Query) : Nat → List Sys → List Sys → List Sys
  | 0, _, seen => seen
  | fuel + 1, frontier, seen =>
    let new := (frontier.flatMap (succ fix q)).foldl
      (fun acc s => if s ∈ seen ∨ s ∈ acc then acc else acc ++ [s]) []
    if new.isEmpty then seen else explore fix q fuel new (seen ++ new)

/-- the terminal states (no successor) reachable from the start of a call sequence -/
def terminals (fix : Bool) (q : Query) (todo : List Op) : List Sys :=
  (explore fix q (16 * todo.length + 16) [init todo] [init todo]).filter fun s => (succ fix q s).isEmpty

end PrologVerif.Solutions
