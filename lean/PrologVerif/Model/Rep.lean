/-
  The Go encodings of terms (engine/compound.go, atom.go, …): `*compound`, `list`, `*partial`,
  `charList`, `codeList`, seen through the `Compound` interface (`Functor/Arity/Arg`), and the
  abstraction `abs : Rep → Term` onto the abstract terms all other models use.
-/
import PrologVerif.Basic
namespace PrologVerif

mutual
  inductive Rep where
    | var (v : Nat)
    | atom (s : String)
    | int (i : Int)
    | flt (bits : UInt64)
    | str (id : Nat)
    | compound (f : String) (args : RepList)   -- `*compound{functor, args}`
    | list (elems : RepList)                   -- `list` ([]Term), at least one element
    | part (pre : Rep) (tail : Rep)            -- `*partial{Compound: pre, tail: &tail}`
    | charList (s : List Char)                 -- `charList`, non-empty string
    | codeList (s : List Char)                 -- `codeList`, non-empty string
  inductive RepList where
    | nil
    | cons (r : Rep) (rs : RepList)
end

deriving instance DecidableEq for Rep, RepList

namespace RepList
def length : RepList → Nat
  | nil => 0
  | cons _ rs => rs.length + 1
def get? : RepList → Nat → Option Rep
  | nil, _ => none
  | cons r _, 0 => some r
  | cons _ rs, n + 1 => rs.get? n
end RepList

namespace Rep

def charAtom (c : Char) : Rep := .atom (String.singleton c)
def charCode (c : Char) : Rep := .int c.toNat

/-- `Functor()`; `none` for terms that are not compounds -/
def functor : Rep → Option String
  | compound f _ => some f
  | list _ | charList _ | codeList _ => some "."
  | part pre _ => functor pre
  | _ => none

/-- `Arity()` -/
def arity : Rep → Nat
  | compound _ args => args.length
  | list _ | charList _ | codeList _ => 2
  | part pre _ => arity pre
  | _ => 0

/-- `Arg(n)`; `none` where the Go code would panic (index out of range, failed type assertion)
    or return a nil Term -/
def arg : Rep → Nat → Option Rep
  | compound _ args, n => args.get? n
  | list (.cons h _), 0 => some h
  | list (.cons _ .nil), 1 => some (.atom "[]")
  | list (.cons _ (.cons h2 t2)), 1 => some (.list (.cons h2 t2))
  | charList (c :: _), 0 => some (charAtom c)
  | charList [_], 1 => some (.atom "[]")
  | charList (_ :: c2 :: cs), 1 => some (.charList (c2 :: cs))
  | codeList (c :: _), 0 => some (charCode c)
  | codeList [_], 1 => some (.atom "[]")
  | codeList (_ :: c2 :: cs), 1 => some (.codeList (c2 :: cs))
  | part pre tail, n =>
    match arg pre n with
    | none => none
    | some t =>
      if functor pre = some "." ∧ arity pre = 2 ∧ n = 1 then
        if t = .atom "[]" then some tail
        else if (functor t).isSome then some (.part t tail)
        else none   -- `t.(Compound)` panics otherwise
      else some t
  | _, _ => none

/-- replace the terminating `[]` of a list spine by `t` -/
def graft : Term → Term → Term
  | .app "." (.cons h (.cons tl .nil)), t => .app "." (.cons h (.cons (graft tl t) .nil))
  | .atom "[]", t => t
  | other, _ => other

mutual
  def abs : Rep → Term
    | var v => .var v
    | atom s => .atom s
    | int i => .int i
    | flt b => .flt b
    | str n => .str n
    | compound f args => .app f (absArgs args)
    | list elems => absList elems
    | part pre tail => graft (abs pre) (abs tail)
    | charList s => Term.list (s.map fun c => .atom (String.singleton c))
    | codeList s => Term.list (s.map fun c => .int c.toNat)
  def absArgs : RepList → Args
    | .nil => .nil
    | .cons r rs => .cons (abs r) (absArgs rs)
  def absList : RepList → Term
    | .nil => .atom "[]"
    | .cons r rs => .app "." (.cons (abs r) (.cons (absList rs) .nil))
end

end Rep
end PrologVerif
