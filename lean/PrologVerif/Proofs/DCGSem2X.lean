/-
  Proofs/DCGSem2X — bodies, rules and the induction on the fuel when the remainder argument of the
  translation is an ARBITRARY term `sT` and the denotation's answers are post-processed by
  unifying what is left with the corresponding third argument `rD` of phrase/3 (`post`).

  Only the last part of every branch sees `sT`; everything before it runs with a hidden variable
  as before (`body_simW`).  The relation is the non-strict one (`RelG false`: whenever both sides
  succeed they agree), in the shape of the open statement.
-/
import PrologVerif.Proofs.DCGSem2XTerm
namespace PrologVerif.Grammar
open PrologVerif

/-- results correspond (whenever both succeed): same pending cut, answers pairwise in a good
    world after `W` -/
abbrev RelX (W : World) (P : Nat → Prop) : Res SOut → Res Out → Prop :=
  RelG false W P (fun _ _ => True)

theorem RelX.errS {W : World} {P : Nat → Prop} {e : Stop} (rD : Res Out) : RelX W P (.error e) rD :=
  RelG.errS (fun h => Bool.noConfusion h) rD

theorem RelX.errD {W : World} {P : Nat → Prop} {e : Stop} (rS : Res SOut) : RelX W P rS (.error e) :=
  RelG.errD rfl rS

/-- it is enough to relate the SLD result to a result that is `ok` whenever the denotation's is -/
theorem RelX.of_ok {W : World} {P : Nat → Prop} {rS : Res SOut} {rD1 rD2 : Res Out}
    (h : ∀ o, rD1 = .ok o → rD2 = .ok o) (hr : RelX W P rS rD2) : RelX W P rS rD1 := by
  cases rD1 with
  | error e => exact RelX.errD rS
  | ok o => rw [h o rfl] at hr; exact hr

def FrX (lo hi : Nat) : Nat → Prop := fun v => lo ≤ v ∧ v < hi

/-- before a translated body is run with the remainder argument `sT` -/
structure PreX (W : World) (x l sT rD : Term) (lo hi : Nat) : Prop where
  good : W.Good
  inp : W.Eq x l
  rem : W.Eq sT rD
  hUn : ∀ v, lo ≤ v → v < hi → ¬ W.TS v
  hLt : hi ≤ W.nS

/-- the closing `S0 = sT` against "unify what is left with `rD`" -/
theorem eqStepX (uf : Nat) (call : Term → St → Res SOut) {W : World} {x l sT rD : Term}
    (hW : W.Good) (hx : W.Eq x l) (hr : W.Eq sT rD) (P : Nat → Prop) :
    RelX W P (solveGoal uf call (Term.a2 "=" x sT) W.stS) (postOne uf rD W.stD l false) := by
  rw [solveGoal_eq]
  unfold postOne
  have hu := unify_sim uf uf (Nat.le_refl _) W hW x sT l rD hx hr
  match hS : unify uf W.stS.σ x sT, hD : unify uf W.stD.σ l rD, hu with
  | .out, _, _ => exact RelX.errS _
  | .done none, .done none, _ => exact ⟨rfl, .nil⟩
  | .done (some σ1), .done (some σ1'), ⟨W1, e1, e2, e3, e4, g, st⟩ =>
    subst e1 e2
    refine ⟨rfl, .cons ⟨W1, ?_, ?_, g, st.mono (fun _ h => h.elim), trivial⟩ .nil⟩
    · simp [World.stS, e3]
    · simp [World.stD, e4]

/-- `post` of a result whose answers are given: post-process them one by one -/
theorem post_as_conj (uf : Nat) (r : Term) (Ds : List (St × Term)) (c : Bool) (f : Term → Term) (o : Out)
    (h : post uf r (.ok ⟨Ds.map (fun a => (a.1, f a.2)), c⟩) = .ok o) :
    dConj (.ok ⟨Ds, c⟩) (fun st' rem => postOne uf r st' (f rem) false) = .ok o := by
  have h1 : dConj (.ok ⟨Ds, c⟩) (fun st' rem => .ok ⟨[(st', f rem)], false⟩) =
      .ok ⟨Ds.map (fun a => (a.1, f a.2)), c⟩ := by
    simp [dConj, andThen_map]
  rw [← h1] at h
  have := post_dConj uf r _ _ o h
  simpa [post_single] using this

/-- `G, S0 = sT` where the answers of `G` left the input alone -/
theorem tailX {uf : Nat} {call : Term → St → Res SOut} {W : World} {x l sT rD : Term} {lo hi : Nat}
    (P : PreX W x l sT rD lo hi) {rS : Res SOut} {Ds : List (St × Term)} {c : Bool}
    (h : RelG false W (fun _ => False) (fun _ r => r = l) rS (.ok ⟨Ds, c⟩)) :
    RelX W (FrX lo hi) (sConj rS (fun st' => solveGoal uf call (Term.a2 "=" x sT) st'))
      (post uf rD (.ok ⟨Ds, c⟩)) := by
  refine RelX.of_ok (fun o ho => ?_) (conjG (Q := FrX lo hi) (P2 := FrX lo hi) (φ2 := fun _ _ => True) h
    (fun st' => solveGoal uf call (Term.a2 "=" x sT) st')
    (fun st' rem => postOne uf rD st' rem false)
    (fun W' r g st hr => by
      subst hr
      exact eqStepX uf call g (st.eq _ _ P.inp) (st.eq _ _ P.rem) _)
    (fun _ h => h.elim) (fun _ h => h))
  have := post_as_conj uf rD Ds c id o (by simpa using ho)
  simpa using this

theorem PreX.first {W : World} {x l sT rD : Term} {m n1 n2 : Nat} (P : PreX W x l sT rD m (m + (n1 + n2 + 1))) :
    PreW W x l m (m + 1) (m + 1 + n1) :=
  ⟨P.good, P.inp, P.hUn m (Nat.le_refl _) (by omega), by have := P.hLt; omega,
    fun v h1 h2 => P.hUn v (by omega) (by omega), by have := P.hLt; omega, fun h => by omega⟩

theorem PreX.second {W W' : World} {x l sT rD r : Term} {m n1 lo hi : Nat} {H : Nat}
    (P : PreX W x l sT rD m H) (g : W'.Good) (st : Step W W' (Fr m (m + 1) (m + 1 + n1)))
    (he : W'.Eq (.var m) r) (h1 : m + 1 + n1 ≤ lo) (h2 : hi ≤ H) :
    PreX W' (.var m) r sT rD lo hi := by
  refine ⟨g, he, st.eq _ _ P.rem, ?_, Nat.le_trans (Nat.le_trans h2 P.hLt) st.nS⟩
  intro v hv1 hv2
  refine st.untouched (P.hUn v (by omega) (by omega)) ?_ (by have := P.hLt; omega)
  rintro (h | h) <;> omega

/-- calls of translated non-terminals with an arbitrary remainder argument -/
def CallX (uf : Nat) (dyn : Dyn → St → Term → Res Out) (call : Term → St → Res SOut) : Prop :=
  ∀ (f : String) (asS asD : List Term), ntOK false f asS = true → ∀ (W : World), W.Good →
    ∀ (x l sT rD : Term), W.Eq x l → All2 W.Eq asS asD → W.Eq sT rD →
      RelX W (fun _ => False) (call (Term.mk f (asS ++ [x, sT])) W.stS) (post uf rD (dyn (.nt f asD) W.stD l))

/-- call//1, arbitrary remainder argument -/
def Call1X (uf : Nat) (dyn : Dyn → St → Term → Res Out) (call : Term → St → Res SOut) : Prop :=
  ∀ (gS gD : Term) (W : World), W.Good → ∀ (x l sT rD : Term), W.Eq x l → W.Eq gS gD → W.Eq sT rD →
    RelX W (fun _ => False) (call (Term.a3 "call" gS x sT) W.stS) (post uf rD (denCall1 dyn gD W.stD l))

/-- phrase//1 and variable bodies, arbitrary remainder argument -/
def LateX (uf : Nat) (dyn : Dyn → St → Term → Res Out) (call : Term → St → Res SOut) : Prop :=
  ∀ (gS gD : Term) (W : World), W.Good → ∀ (x l sT rD : Term), W.Eq x l → W.Eq gS gD → W.Eq sT rD →
    RelX W (fun _ => False) (call (Term.a3 "phrase" gS x sT) W.stS)
      (post uf rD (barrier (dyn (.late gD) W.stD l)))

/-- **bodies, arbitrary remainder argument** -/
theorem body_simX (cfg : Cfg) (hcfg : cfg.engine = false)
    (dyn : Dyn → St → Term → Res Out) (call : Term → St → Res SOut) (H : CallW false dyn call)
    (HE : DynErr dyn) (HC : Call1W dyn call) (HL : LateW dyn call)
    (HX : CallX cfg.uf dyn call) (HCX : Call1X cfg.uf dyn call) (HLX : LateX cfg.uf dyn call) :
    ∀ (bS : Body), bS.ok false = true → ∀ (bD : Body) (W : World), BodyRel W.Eq bS bD →
      ∀ (top : Bool) (x l sT rD : Term) (m : Nat), PreX W x l sT rD m (m + bS.nhid) →
        RelX W (FrX m (m + bS.nhid)) (solveGoal cfg.uf call (bS.tr x sT m).1 W.stS)
          (post cfg.uf rD (denBody cfg dyn top bD W.stD l)) := by
  intro bS
  induction bS with
  | eps =>
    intro _ bD W hrel top x l sT rD m P
    cases hrel
    simp only [Body.tr, denBody]
    rw [post_single]
    exact eqStepX cfg.uf call P.good P.inp P.rem _
  | terminals tsS =>
    intro _ bD W hrel top x l sT rD m P
    cases hrel with
    | terminals hts =>
      rename_i tsD
      simp only [Body.tr, solveGoal_eq, denBody]
      have ht := terminalsX_sim cfg.uf tsS tsD cfg.uf (Nat.le_refl _) W P.good x l P.inp hts sT rD P.rem
      unfold consumeX at ht
      have hσ : W.stS.σ = W.σS := rfl
      rw [hσ]
      revert ht
      generalize unify cfg.uf W.σS x (Term.list tsS sT) = rS
      cases hC : consume cfg.uf tsD W.stD l with
      | out => intro _; exact RelX.errD _
      | done oC =>
        cases oC with
        | none =>
          simp only []
          cases rS with
          | out => intro _; exact RelX.errS _
          | done oS =>
            cases oS with
            | none => intro _; exact ⟨rfl, .nil⟩
            | some _ => intro ht; exact ht.elim
        | some a =>
          obtain ⟨dst1, rem⟩ := a
          simp only [post_single, postOne]
          cases hU : unify cfg.uf dst1.σ rem rD with
          | out => intro _; exact RelX.errD _
          | done oU =>
            cases oU with
            | none =>
              simp only []
              cases rS with
              | out => intro _; exact RelX.errS _
              | done oS =>
                cases oS with
                | none => intro _; exact ⟨rfl, .nil⟩
                | some _ => intro ht; exact ht.elim
            | some σ' =>
              simp only []
              cases rS with
              | out => intro _; exact RelX.errS _
              | done oS =>
                cases oS with
                | none => intro ht; exact ht.elim
                | some σ1 =>
                  rintro ⟨W', e1, e2, e3, g, st⟩
                  subst e1
                  refine ⟨rfl, .cons ⟨W', ?_, e3, g, st.mono (fun _ h => h.elim), trivial⟩ .nil⟩
                  simp [World.stS, e2]
  | nt f asS =>
    intro hok bD W hrel top x l sT rD m P
    cases hrel with
    | nt hargs =>
      rename_i asD
      simp only [Body.tr, denBody]
      cases hnt : ntOK false f asS with
      | true =>
        rw [solveGoal_nt _ _ _ _ _ _ _ (ntOK_ctl hnt)]
        exact (HX f asS _ hnt W P.good x l sT rD P.inp hargs P.rem).mono (fun _ h => h.elim)
      | false =>
        obtain ⟨e, he⟩ := HE f asD (by rw [← ntOK_false_len f hargs.length_eq]; exact hnt) W.stD l
        rw [he]
        exact RelX.errD _
  | seq a b iha ihb =>
    intro hok bD W hrel top x l sT rD m P
    cases hrel with
    | seq ha hb =>
      rename_i a' b'
      simp only [Body.ok, Bool.and_eq_true] at hok
      simp only [Body.nhid] at P ⊢
      simp only [Body.tr, tr_next]
      rw [solveGoal_conj', denBody_seq]
      refine RelX.of_ok (post_dConj cfg.uf rD _ _) ?_
      refine conjG (body_simW cfg hcfg false dyn call H (fun _ => HE) (fun _ => HC) (fun _ => HL) a hok.1 a' W ha false x l m (m + 1) P.first) _ _ ?_ ?_ ?_
        (P2 := FrX (m + 1 + a.nhid) (m + 1 + a.nhid + b.nhid))
      · intro W' r g st he
        exact ihb hok.2 b' W' (hb.mono (fun _ _ h => st.eq _ _ h)) false (.var m) r sT rD (m + 1 + a.nhid)
          (P.second g st he (Nat.le_refl _) (by omega))
      · rintro v (h | h)
        · exact ⟨by omega, by omega⟩
        · exact ⟨by omega, by omega⟩
      · rintro v ⟨h1, h2⟩
        exact ⟨by omega, by omega⟩
  | alt a b iha ihb =>
    intro hok bD W hrel top x l sT rD m P
    cases hrel with
    | alt ha hb =>
      rename_i a' b'
      simp only [Body.ok, Bool.and_eq_true, Bool.not_eq_true'] at hok
      simp only [Body.nhid] at P ⊢
      by_cases hne : a = .nt "->" []
      · subst hne
        cases ha with
        | nt hargs =>
          cases hargs
          obtain ⟨e, he⟩ := HE "->" [] (by simp [ntOK, special, ctl2]) W.stD l
          rw [denBody_alt cfg hcfg]
          simp only [denBody, he, dAlt]
          exact RelX.errD _
      simp only [Body.tr, tr_next]
      rw [solveGoal_disj' _ _ _ _ _ (tr_notThen2 false a hok.1.1 hok.2 hne _ _ _), denBody_alt cfg hcfg]
      refine RelX.of_ok (post_dAlt cfg.uf rD _ _) ?_
      have Pa : PreX W x l sT rD m (m + a.nhid) :=
        ⟨P.good, P.inp, P.rem, fun v h1 h2 => P.hUn v h1 (by omega), by have := P.hLt; omega⟩
      have Pb : PreX W x l sT rD (m + a.nhid) (m + a.nhid + b.nhid) :=
        ⟨P.good, P.inp, P.rem, fun v h1 h2 => P.hUn v (by omega) (by omega), by have := P.hLt; omega⟩
      refine altG ((iha hok.1.1 a' W ha false x l sT rD m Pa).mono ?_)
        ((ihb hok.1.2 b' W hb true x l sT rD (m + a.nhid) Pb).mono ?_)
      · rintro v ⟨h1, h2⟩; exact ⟨h1, by omega⟩
      · rintro v ⟨h1, h2⟩; exact ⟨by omega, by omega⟩
  | ite c t e ihc iht ihe =>
    intro hok bD W hrel top x l sT rD m P
    cases hrel with
    | ite hc ht he =>
      rename_i c' t' e'
      simp only [Body.ok, Bool.and_eq_true] at hok
      simp only [Body.nhid] at P ⊢
      simp only [Body.tr, tr_next]
      rw [solveGoal_ite', denBody_ite cfg hcfg]
      refine RelX.of_ok (post_dIte cfg.uf rD _ _ _) ?_
      have Pc : PreW W x l m (m + 1) (m + 1 + c.nhid) :=
        ⟨P.good, P.inp, P.hUn m (Nat.le_refl _) (by omega), by have := P.hLt; omega,
          fun v h1 h2 => P.hUn v (by omega) (by omega), by have := P.hLt; omega, fun h => by omega⟩
      have Pe : PreX W x l sT rD (m + 1 + c.nhid + t.nhid) (m + 1 + c.nhid + t.nhid + e.nhid) :=
        ⟨P.good, P.inp, P.rem, fun v h1 h2 => P.hUn v (by omega) (by omega), by have := P.hLt; omega⟩
      refine iteG (body_simW cfg hcfg false dyn call H (fun _ => HE) (fun _ => HC) (fun _ => HL) c hok.1.1 c' W hc true x l m (m + 1) Pc) _ _ ?_
        ((ihe hok.2 e' W he true x l sT rD _ Pe).mono ?_) ?_ ?_
        (P2 := FrX (m + 1 + c.nhid) (m + 1 + c.nhid + t.nhid))
      · intro W' r g st hr
        exact iht hok.1.2 t' W' (ht.mono (fun _ _ h => st.eq _ _ h)) true (.var m) r sT rD (m + 1 + c.nhid)
          (P.second g st hr (Nat.le_refl _) (by omega))
      · rintro v ⟨h1, h2⟩; exact ⟨by omega, by omega⟩
      · rintro v (h | h)
        · exact ⟨by omega, by omega⟩
        · exact ⟨by omega, by omega⟩
      · rintro v ⟨h1, h2⟩; exact ⟨by omega, by omega⟩
  | ifthen c t ihc iht =>
    intro hok bD W hrel top x l sT rD m P
    cases hrel with
    | ifthen hc ht =>
      rename_i c' t'
      simp only [Body.ok, Bool.and_eq_true] at hok
      simp only [Body.nhid] at P ⊢
      simp only [Body.tr, tr_next]
      rw [solveGoal_ifthen', denBody_ifthen cfg hcfg]
      refine RelX.of_ok (post_dIte cfg.uf rD _ _ _) ?_
      rw [post_nil]
      refine iteG (body_simW cfg hcfg false dyn call H (fun _ => HE) (fun _ => HC) (fun _ => HL) c hok.1 c' W hc true x l m (m + 1) P.first) _ _ ?_
        ⟨rfl, .nil⟩ ?_ ?_ (P2 := FrX (m + 1 + c.nhid) (m + 1 + c.nhid + t.nhid))
      · intro W' r g st hr
        exact iht hok.2 t' W' (ht.mono (fun _ _ h => st.eq _ _ h)) true (.var m) r sT rD (m + 1 + c.nhid)
          (P.second g st hr (Nat.le_refl _) (by omega))
      · rintro v (h | h)
        · exact ⟨by omega, by omega⟩
        · exact ⟨by omega, by omega⟩
      · rintro v ⟨h1, h2⟩; exact ⟨by omega, by omega⟩
  | block gS =>
    intro hok bD W hrel top x l sT rD m P
    cases hrel with
    | block hg =>
      rename_i gD
      simp only [Body.ok] at hok
      simp only [Body.tr]
      rw [solveGoal_conj', denBody_block]
      have hb := block_sim false cfg.uf call hg (.inr rfl) W P.good (fun _ _ h => h) l
      cases hd : dBlock (evalBlock cfg.uf gD W.stD) l with
      | error e => exact RelX.errD _
      | ok od =>
        rw [hd] at hb
        exact tailX P hb
  | not b ih =>
    intro hok bD W hrel top x l sT rD m P
    cases hrel with
    | not hb =>
      rename_i b'
      simp only [Body.ok] at hok
      simp only [Body.nhid] at P ⊢
      simp only [Body.tr]
      rw [solveGoal_conj', solveGoal_not]
      simp only [denBody]
      have Pb : PreW W x l m (m + 1) (m + 1 + b.nhid) :=
        ⟨P.good, P.inp, P.hUn m (Nat.le_refl _) (by omega), by have := P.hLt; omega,
          fun v h1 h2 => P.hUn v (by omega) (by omega), by have := P.hLt; omega, fun h => by omega⟩
      have rb := body_simW cfg hcfg false dyn call H (fun _ => HE) (fun _ => HC) (fun _ => HL) b hok b' W hb true x l m (m + 1) Pb
      cases hx : solveGoal cfg.uf call (b.tr x (.var m) (m + 1)).1 W.stS with
      | error e => exact RelX.errS _
      | ok ob =>
        cases hy : denBody cfg dyn true b' W.stD l with
        | error e' => exact RelX.errD _
        | ok od =>
          rw [hx, hy] at rb
          have hemp := rb.2.isEmpty_eq'
          simp only [← hemp]
          refine tailX P ?_
          cases ob.answers.isEmpty with
          | true => exact RelG.same P.good l false
          | false => exact ⟨rfl, .nil⟩
  | cut =>
    intro _ bD W hrel top x l sT rD m P
    cases hrel
    simp only [Body.tr]
    rw [solveGoal_conj', solveGoal_cut]
    simp only [denBody]
    exact tailX P (RelG.same P.good l true)
  | call1 gS =>
    intro _ bD W hrel top x l sT rD m P
    cases hrel with
    | call1 hg =>
      simp only [Body.tr]
      rw [solveGoal_a3]
      simp only [denBody]
      exact (HCX gS _ W P.good x l sT rD P.inp hg P.rem).mono (fun _ h => h.elim)
  | phrase gS =>
    intro _ bD W hrel top x l sT rD m P
    cases hrel with
    | phrase hg =>
      simp only [Body.tr]
      rw [solveGoal_a3]
      simp only [denBody]
      exact (HLX gS _ W P.good x l sT rD P.inp hg P.rem).mono (fun _ h => h.elim)
  | var v =>
    intro _ bD W hrel top x l sT rD m P
    cases hrel with
    | var hg =>
      simp only [Body.tr]
      rw [solveGoal_a3]
      simp only [denBody]
      exact (HLX (.var v) _ W P.good x l sT rD P.inp hg P.rem).mono (fun _ h => h.elim)

/-! ### head unification, arbitrary remainder argument -/

/-- as `HOut`; now `S'` is what the third argument is -/
def HOutX (W : World) (nv nh : Nat) (l rD : Term) : Fuel (Option Subst) → Fuel (Option Subst) → Prop
  | .out, _ => True
  | .done none, .done none => True
  | .done (some σS'), .done (some σD') =>
    ∃ W3 : World, W3.σS = σS' ∧ W3.σD = σD' ∧ W3.nS = W.nS + (nv + 3 + nh) ∧ W3.nD = W.nD + nv ∧ W3.Good ∧
      Step W W3 (fun _ => False) ∧ W3.Eq (.var (nv + W.nS)) l ∧ W3.Eq (.var (nv + 2 + W.nS)) rD ∧
      (∀ v, v < nv → W3.Eq (.var (v + W.nS)) (.var (v + W.nD))) ∧
      (∀ v, nv + 3 + W.nS ≤ v → ¬ W3.TS v) ∧ ¬ W3.TS (nv + 1 + W.nS)
  | _, _ => False

theorem head_simX (uf : Nat) {W : World} (hW : W.Good) (f : String) (asS asD hargs : List Term) (nv nh : Nat)
    (hlen : asS.length = hargs.length) (hB : hargs.all (fun t => decide (boundT t ≤ nv)) = true)
    (has : All2 W.Eq asS asD) {x l sT rD : Term} (hx : W.Eq x l) (hr : W.Eq sT rD) :
    HOutX W nv nh l rD
      (unify uf W.σS (Term.mk f (asS ++ [x, sT]))
        (renameT W.nS (Term.mk f (hargs ++ [.var nv, .var (nv + 2)]))))
      (unifyList uf W.σD asD (hargs.map (renameT W.nD))) := by
  cases uf with
  | zero => simp only [unify]; trivial
  | succ k =>
    rw [renameT_mk2, mk_append2, mk_append2]
    unfold unify
    rw [walk_nonvar _ _ rfl, walk_nonvar _ _ rfl]
    simp only [if_true]
    rw [unifyArgs_append k asS (hargs.map (renameT W.nS)) W.σS _ _ (by simpa using hlen)]
    obtain ⟨gp, stp⟩ := World.addVars_ok (nv := nv) (cS := nv + 3 + nh) (cD := nv) hW (by omega) (Nat.le_refl _)
    have hvp : ∀ v, v < nv → (W.addVars nv (nv + 3 + nh) nv).Eq (.var (v + W.nS)) (.var (v + W.nD)) :=
      fun v hv => World.addVars_eq hW v hv
    have hh := renameL_eq hvp hargs hB
    have hu := unifyList_sim k (k + 1) (by omega) asS asD _ _ (W.addVars nv (nv + 3 + nh) nv) gp
      (has.imp (fun _ _ h => stp.eq _ _ h)) hh
    have eS : (W.addVars nv (nv + 3 + nh) nv).σS = W.σS := rfl
    have eD : (W.addVars nv (nv + 3 + nh) nv).σD = W.σD := rfl
    rw [eS, eD] at hu
    match hS : unifyList k W.σS asS (hargs.map (renameT W.nS)),
          hD : unifyList (k + 1) W.σD asD (hargs.map (renameT W.nD)), hu with
    | .out, _, _ => trivial
    | .done none, .done none, _ => trivial
    | .done (some σ1), .done (some σ1'), ⟨W1, e1, e2, e3, e4, g1, st1⟩ =>
      subst e1 e2
      simp only [Args.ofList, unifyArgsWith, renameT]
      cases k with
      | zero => simp only [unify]; trivial
      | succ k' =>
        have n1 : W1.nS = W.nS + (nv + 3 + nh) := e3
        have un1 : ∀ v, nv + W.nS ≤ v → ¬ W1.TS v := by
          intro v hv ht
          by_cases hlt' : v < W.nS + (nv + 3 + nh)
          · rcases st1.tS v ht with h | h | h
            · rcases World.addVars_TS h with h | h
              · have := hW.scS v h; omega
              · omega
            · exact h
            · have : W.nS + (nv + 3 + nh) ≤ v := h
              omega
          · have := g1.scS v ht; omega
        obtain ⟨W2, e5, e6, e7, e8, g2, st2, he2⟩ :=
          unify_to_hidden k' g1 (st1.eq _ _ (stp.eq _ _ hx)) (un1 _ (Nat.le_refl _)) (by omega)
        rw [e5]
        simp only []
        have un2 : ∀ v, nv + 1 + W.nS ≤ v → ¬ W2.TS v := by
          intro v hv ht
          by_cases hlt' : v < W.nS + (nv + 3 + nh)
          · exact st2.untouched (un1 v (by omega)) (by omega) (by omega) ht
          · have := g2.scS v ht; omega
        obtain ⟨W3, e9, e10, e11, e12, g3, st3, he3⟩ :=
          unify_to_hidden k' g2 (st2.eq _ _ (st1.eq _ _ (stp.eq _ _ hr))) (un2 (nv + 2 + W.nS) (by omega)) (by omega)
        rw [e9]
        simp only []
        refine ⟨W3, rfl, ?_, ?_, ?_, g3, ?_, st3.eq _ _ he2, he3, ?_, ?_, ?_⟩
        · rw [e10, e6]
        · omega
        · rw [e12, e8, e4]; rfl
        · have A : Step W W1 (fun _ => False) := stp.trans st1 (fun _ h => h) (fun _ h => h)
          have B : Step W W2 (fun _ => False) :=
            A.trans' st2 (fun _ h => h) (fun v (h : v = nv + W.nS) => .inr (by omega))
          exact B.trans' st3 (fun _ h => h) (fun v (h : v = nv + 2 + W.nS) => .inr (by omega))
        · intro v hv
          exact st3.eq _ _ (st2.eq _ _ (st1.eq _ _ (hvp v hv)))
        · intro v hv ht
          by_cases hlt' : v < W.nS + (nv + 3 + nh)
          · exact st3.untouched (un2 v (by omega)) (by omega) (by omega) ht
          · have := g3.scS v ht; omega
        · exact st3.untouched (un2 _ (Nat.le_refl _)) (by omega) (by omega)

/-! ### one rule, arbitrary remainder argument -/

/-- the statement at one fuel level -/
def LevelX (cfg : Cfg) (gr : Grammar) (n : Nat) : Prop :=
  ∀ (bS : Body), bS.ok false = true → ∀ (bD : Body) (W : World), BodyRel W.Eq bS bD →
    ∀ (top : Bool) (x l sT rD : Term) (m : Nat), PreX W x l sT rD m (m + bS.nhid) →
      RelX W (FrX m (m + bS.nhid)) (solve cfg.uf (programOf gr) n (bS.tr x sT m).1 W.stS)
        (post cfg.uf rD (den cfg gr n top bD W.stD l))

/-- `S' = [pb… | S1']` closing a clause with push-back, `S'` being what the third argument is:
    against unifying `[pb… | rem]` with the third argument -/
theorem pushStepX (uf : Nat) (call : Term → St → Res SOut) {W : World} {sT rD t r : Term}
    (hW : W.Good) (hs : W.Eq sT rD) (ht : W.Eq t r) :
    RelX W (fun _ => False) (solveGoal uf call (Term.a2 "=" sT t) W.stS) (postOne uf rD W.stD r false) := by
  rw [solveGoal_eq]
  unfold postOne
  have hu := unify_simF uf uf (Nat.le_refl _) W hW sT t rD r hs ht
  match hS : unify uf W.stS.σ sT t, hD : unify uf W.stD.σ r rD, hu with
  | .out, _, _ => exact RelX.errS _
  | .done none, .done none, _ => exact ⟨rfl, .nil⟩
  | .done (some σ1), .done (some σ1'), ⟨W1, e1, e2, e3, e4, g, st⟩ =>
    subst e1 e2
    refine ⟨rfl, .cons ⟨W1, ?_, ?_, g, st, trivial⟩ .nil⟩
    · simp [World.stS, e3]
    · simp [World.stD, e4]

theorem rule_simX (cfg : Cfg) (hcfg : cfg.engine = false) (gr : Grammar) (hgr : ∀ r ∈ gr, GoodRuleW false r)
    (n : Nat) (L : LevelX cfg gr n) (r : Rule) (hr : GoodRuleW false r) {W W3 : World} {l rD : Term}
    (n3 : W3.nS = W.nS + (r.nv + 3 + r.body.nhid)) (g3 : W3.Good) (st : Step W W3 (fun _ => False))
    (hin : W3.Eq (.var (r.nv + W.nS)) l) (hrem : W3.Eq (.var (r.nv + 2 + W.nS)) rD)
    (hv : ∀ v, v < r.nv → W3.Eq (.var (v + W.nS)) (.var (v + W.nD)))
    (un : ∀ v, r.nv + 3 + W.nS ≤ v → ¬ W3.TS v) (un1 : ¬ W3.TS (r.nv + 1 + W.nS)) :
    RelX W (fun _ => False)
      (solve cfg.uf (programOf gr) n (renameT W.nS r.clause.body) W3.stS)
      (post cfg.uf rD (denRule cfg gr n r W.nD W3.stD l)) := by
  obtain ⟨_, hok, hwf⟩ := hr
  simp only [Rule.wf, Bool.and_eq_true] at hwf
  obtain ⟨⟨_, hpbwf⟩, hbwf⟩ := hwf
  have hokS : (r.body.rename W.nS).ok false = true := by rw [ok_rename]; exact hok
  have hrel : BodyRel W3.Eq (r.body.rename W.nS) (r.body.rename W.nD) := rename_bodyRel hv r.body hbwf
  rw [clause_eq]
  unfold denRule
  cases hpb : r.pushback with
  | none =>
    simp only [Option.isNone_none]
    rw [tr_renameG]
    simp only [renameT]
    have P : PreX W3 (.var (r.nv + W.nS)) l (.var (r.nv + 2 + W.nS)) rD (r.nv + 3 + W.nS)
        (r.nv + 3 + W.nS + (r.body.rename W.nS).nhid) :=
      ⟨g3, hin, hrem, fun v h1 _ => un v (by omega), by rw [rename_nhid]; omega⟩
    have hL := L _ hokS _ W3 hrel true _ l _ rD _ P
    cases hden : den cfg gr n true (r.body.rename W.nD) W3.stD l with
    | error e => exact RelX.errD _
    | ok o =>
      rw [hden] at hL
      exact RelG.rebase' hL st (fun _ h => h) (fun v hv => .inr (by have := hv.1; omega))
  | some pb =>
    simp only [Option.isNone_some]
    rw [hpb] at hpbwf
    rw [renameT_a2, renameT_a2, renameT_list, tr_renameG]
    simp only [renameT]
    cases n with
    | zero => simp only [solve]; exact RelX.errS _
    | succ n' =>
      have hsolve : ∀ g st', solve cfg.uf (programOf gr) (n' + 1) g st' = solveGoal cfg.uf _ g st' :=
        fun g st' => rfl
      rw [hsolve, solveGoal_conj']
      simp only [← hsolve]
      have P : PreW W3 (.var (r.nv + W.nS)) l (r.nv + 1 + W.nS) (r.nv + 3 + W.nS)
          (r.nv + 3 + W.nS + (r.body.rename W.nS).nhid) :=
        ⟨g3, hin, un1, by omega, fun v h1 _ => un v (by omega), by rw [rename_nhid]; omega,
          fun h => by omega⟩
      have hL := level_simW false cfg hcfg gr hgr (n' + 1) _ hokS _ W3 hrel false _ l _ _ P
      have key := conjG (Q := fun v => r.nv + 1 + W.nS ≤ v) (P2 := fun _ => False)
        (φ2 := fun _ _ => True) hL
        (fun st' => solve cfg.uf (programOf gr) (n' + 1)
          (Term.a2 "=" (.var (r.nv + 2 + W.nS)) (Term.list (pb.map (renameT W.nS)) (.var (r.nv + 1 + W.nS)))) st')
        (fun st' r' => postOne cfg.uf rD st' (Term.list (pb.map (renameT W.nD)) r') false)
        (fun W' r' g' st' he => by
          rw [hsolve]
          exact pushStepX cfg.uf _ g' (st'.eq _ _ hrem)
            (Eq_list (renameL_eq (fun v hv' => st'.eq _ _ (hv v hv')) pb hpbwf) he))
        (fun v h => by rcases h with h | h <;> omega) (fun v h => h.elim)
      refine RelX.of_ok (fun o ho => ?_) (RelG.rebase' key st (fun _ h => h) (fun v hv => .inr (by omega)))
      cases hden : den cfg gr (n' + 1) false (r.body.rename W.nD) W3.stD l with
      | error e => rw [hden] at ho; simp [post] at ho
      | ok od =>
        rw [hden] at ho
        exact post_as_conj cfg.uf rD od.answers od.cut (fun rem => Term.list (pb.map (renameT W.nD)) rem) o ho

/-! ### the rules in order -/

def RelLX (W : World) : Res (List St) → Res (List (St × Term)) → Prop
  | .ok A, .ok D => All2 (AnsG W (fun _ => False) (fun _ _ => True)) A D
  | _, _ => True

theorem RelLX.of_ok {W : World} {rS : Res (List St)} {rD1 rD2 : Res (List (St × Term))}
    (h : ∀ o, rD1 = .ok o → rD2 = .ok o) (hr : RelLX W rS rD2) : RelLX W rS rD1 := by
  cases rD1 with
  | error e => cases rS <;> trivial
  | ok o => rw [h o rfl] at hr; exact hr

theorem tryGX {W : World} {rS : Res SOut} {rD : Res Out}
    {restS : Res (List St)} {restD : Res (List (St × Term))}
    (h : RelX W (fun _ => False) rS rD) (hr : RelLX W restS restD) :
    RelLX W (sTry rS restS) (dTry rD restD) := by
  cases rS with
  | error e => cases rD <;> trivial
  | ok oa =>
    cases rD with
    | error e' =>
      show RelLX W _ (.error e')
      cases sTry (.ok oa) restS <;> trivial
    | ok od =>
      obtain ⟨c1, hall⟩ := h
      simp only [sTry, dTry]
      by_cases hc : oa.cut = true
      · have hc' : od.cut = true := c1 ▸ hc
        simp only [hc, hc', if_true]
        exact hall
      · have hc0 : oa.cut = false := by simpa using hc
        have hc' : od.cut = false := c1 ▸ hc0
        simp only [hc0, hc', Bool.false_eq_true, if_false]
        cases restS with
        | error e => cases restD <;> trivial
        | ok ob =>
          cases restD with
          | error e' => trivial
          | ok ob' => exact hall.append hr

theorem rules_simX (cfg : Cfg) (hcfg : cfg.engine = false) (gr : Grammar) (hgr : ∀ r ∈ gr, GoodRuleW false r)
    (n : Nat) (L : LevelX cfg gr n)
    (f : String) (asS asD : List Term) {W : World} (hW : W.Good) {x l sT rD : Term} (hx : W.Eq x l)
    (has : All2 W.Eq asS asD) (hr : W.Eq sT rD) :
    ∀ rules : List Rule, (∀ r ∈ rules, GoodRuleW false r ∧ r.name = f ∧ r.args.length = asS.length) →
      RelLX W
        (tryClauses cfg.uf (solve cfg.uf (programOf gr) n) (Term.mk f (asS ++ [x, sT])) W.stS
          (rules.map Rule.clause))
        (postR cfg.uf rD (tryRules cfg.uf (den cfg gr n) asD W.stD l rules)) := by
  intro rules
  induction rules with
  | nil => intro _; exact .nil
  | cons r rs ih =>
    intro hrs
    obtain ⟨hgood, hname, hlen⟩ := hrs r (by simp)
    have ih' := ih (fun r' h' => hrs r' (by simp [h']))
    have hwf := hgood.2.2
    simp only [Rule.wf, Bool.and_eq_true] at hwf
    rw [List.map_cons, tryClauses_cons, tryRules_cons]
    have hh := head_simX cfg.uf hW f asS asD r.args r.nv r.body.nhid hlen.symm hwf.1.1 has hx hr
    have e1 : r.clause.head = Term.mk f (r.args ++ [.var r.nv, .var (r.nv + 2)]) := by rw [clause_eq, hname]
    have e2 : r.clause.nv = r.nv + 3 + r.body.nhid := by rw [clause_eq]
    rw [e1, e2]
    dsimp only [World.stS, World.stD]
    revert hh
    generalize unify cfg.uf W.σS (Term.mk f (asS ++ [x, sT]))
      (renameT W.nS (Term.mk f (r.args ++ [.var r.nv, .var (r.nv + 2)]))) = rS
    generalize unifyList cfg.uf W.σD asD (r.args.map (renameT W.nD)) = rU
    intro hh
    cases rS with
    | out => cases rU with
      | out => trivial
      | done oD => cases oD <;> simp only [] <;> cases postR cfg.uf rD _ <;> trivial
    | done oS =>
      cases oS with
      | none =>
        cases rU with
        | out => exact hh.elim
        | done oD =>
          cases oD with
          | none => exact ih'
          | some _ => exact hh.elim
      | some σ1 =>
        cases rU with
        | out => exact hh.elim
        | done oD =>
          cases oD with
          | none => exact hh.elim
          | some σ1' =>
            obtain ⟨W3, a1, a2, a3, a4, g3, st, hin, hrem, hv, un, un1⟩ := hh
            simp only []
            subst a1 a2
            have := rule_simX cfg hcfg gr hgr n L r hgood (by rw [a3]) g3 st hin hrem hv un un1
            have eS : W3.stS = ⟨W3.σS, W.nS + (r.nv + 3 + r.body.nhid)⟩ := by simp [World.stS, a3]
            have eD : W3.stD = ⟨W3.σD, W.nD + r.nv⟩ := by simp [World.stD, a4]
            rw [eS, eD] at this
            exact RelLX.of_ok (post_dTry cfg.uf rD _ _) (tryGX this ih')

/-! ### the induction on the fuel -/

theorem nt_levelX (cfg : Cfg) (gr : Grammar) (hgr : ∀ r ∈ gr, special r.name r.args.length = false)
    (n : Nat) (ih : LevelX cfg gr n) (f : String) (asS asD : List Term)
    {W : World} (hW : W.Good) {x l sT rD : Term} (hx : W.Eq x l) (has : All2 W.Eq asS asD) (hr : W.Eq sT rD) :
    RelX W (fun _ => False)
      (sBarrier (solve cfg.uf (programOf gr) n (Term.mk f (asS ++ [x, sT])) W.stS))
      (post cfg.uf rD (barrier (den cfg gr n true (.nt f asD) W.stD l))) := by
  cases hok : ntOK false f asS with
  | true =>
    have P : PreX W x l sT rD 0 (0 + (Body.nt f asS).nhid) :=
      ⟨hW, hx, hr, fun v _ h => by simp [Body.nhid] at h, by simp [Body.nhid]⟩
    have := ih (.nt f asS) (by simp [Body.ok, hok]) (.nt f asD) W (.nt has) true x l sT rD 0 P
    exact RelX.of_ok (post_barrier cfg.uf rD _) ((RelG.barrier this).mono (fun v h => by
      simp [FrX, Body.nhid] at h))
  | false =>
    have hlen := has.length_eq
    have hno' : ntOK false f asD = false := by
      unfold ntOK at hok ⊢
      split
      · rename_i hf
        simp only [hf, if_true] at hok
        match asS, asD, has, hok with
        | [], _, .nil, _ => rfl
        | [_], _, .cons _ .nil, _ => rfl
        | _ :: _ :: _, _, _, hno => simp at hno
      · rename_i hf
        simp only [hf, if_false] at hok
        rw [← hlen]; exact hok
    obtain ⟨e, he⟩ := den_special_err cfg gr hgr f asD hno' n true W.stD l
    rw [he]
    exact RelX.errD _

theorem call_simX (cfg : Cfg) (hcfg : cfg.engine = false) (gr : Grammar) (hgr : ∀ r ∈ gr, GoodRuleW false r)
    (n : Nat) (ih : LevelX cfg gr n) : CallX cfg.uf (dynH cfg gr n) (callH cfg.uf (programOf gr) n) := by
  have hsp : ∀ r ∈ gr, special r.name r.args.length = false := fun r hr => (hgr r hr).1
  intro f asS asD hnt W hW x l sT rD hx has hr
  by_cases hf : f = "call"
  · subst hf
    match asS, asD, has, hnt with
    | [], _, _, hnt => simp [ntOK] at hnt
    | [_], _, _, hnt => simp [ntOK] at hnt
    | gS :: aS :: restS, _, .cons hg (.cons ha hrest), hnt =>
      rename_i gD aD restD
      rw [callH_call, dynH_call]
      have hσS : W.stS.σ = W.σS := rfl
      have hσD : W.stD.σ = W.σD := rfl
      rw [hσS, hσD]
      have hgg := (W.Eq_unfold gS gD).1 hg
      revert hgg
      cases hwS : walk W.σS gS with
      | atom f' =>
        intro hgg
        have hwD : walk W.σD gD = .atom f' := by
          revert hgg; generalize walk W.σD gD = w; intro hgg; cases hgg; rfl
        rw [hwD]
        simp only [addArgs]
        exact nt_levelX cfg gr hsp n ih f' (aS :: restS) (aD :: restD) hW hx (.cons ha hrest) hr
      | app f' bsS =>
        intro hgg
        obtain ⟨bsD, hwD, hbs⟩ : ∃ bsD, walk W.σD gD = .app f' bsD ∧ ArgsRel W.Eq bsS bsD := by
          revert hgg; generalize walk W.σD gD = w; intro hgg
          cases hgg with
          | app r => exact ⟨_, rfl, r⟩
        rw [hwD]
        simp only [addArgs]
        have e : bsS.toList ++ (aS :: restS ++ [x, sT]) = (bsS.toList ++ aS :: restS) ++ [x, sT] := by
          simp
        rw [e]
        exact nt_levelX cfg gr hsp n ih f' (bsS.toList ++ aS :: restS) (bsD.toList ++ aD :: restD) hW hx
          ((argsRel_toList hbs).append (.cons ha hrest)) hr
      | var a => intro _; simp only [addArgs]; exact RelX.errS _
      | int a => intro _; simp only [addArgs]; exact RelX.errS _
      | flt a => intro _; simp only [addArgs]; exact RelX.errS _
      | str a => intro _; simp only [addArgs]; exact RelX.errS _
  · have hsp' : special f asS.length = false := by
      simpa [ntOK, hf] using hnt
    have hp : ¬ (f = "phrase" ∧ asS.length = 1) := by
      rintro ⟨h1, h2⟩
      simp [special, h1, h2] at hsp'
    rw [callH_user _ _ _ _ _ _ _ _ hf hp, dynH_user _ _ _ _ _ _ _ hf, filter_clausesG, ← has.length_eq]
    simp only [List.isEmpty_map]
    split
    · exact RelX.errD _
    · have hrs := rules_simX cfg hcfg gr hgr n ih f asS asD hW hx has hr
        (gr.filter (fun r => decide (r.name = f ∧ r.args.length = asS.length)))
        (fun r hr => by
          rw [List.mem_filter] at hr
          have := of_decide_eq_true hr.2
          exact ⟨hgr r hr.1, this.1, this.2⟩)
      revert hrs
      generalize tryClauses cfg.uf (solve cfg.uf (programOf gr) n) (Term.mk f (asS ++ [x, sT])) W.stS
        ((gr.filter (fun r => decide (r.name = f ∧ r.args.length = asS.length))).map Rule.clause) = rS
      generalize tryRules cfg.uf (den cfg gr n) asD W.stD l
        (gr.filter (fun r => decide (r.name = f ∧ r.args.length = asS.length))) = rT
      intro hrs
      cases rT with
      | error e => exact RelX.errD _
      | ok ds =>
        simp only [post, postR] at hrs ⊢
        cases hp : postL cfg.uf rD ds with
        | error e => exact RelX.errD _
        | ok as' =>
          rw [hp] at hrs
          cases rS with
          | error e => exact RelX.errS _
          | ok as => exact ⟨rfl, hrs⟩

/-! ### call//1, phrase//1, variable bodies -/

theorem nt_call1X (cfg : Cfg) (gr : Grammar) (hgr : ∀ r ∈ gr, special r.name r.args.length = false) (n : Nat)
    (CX : CallX cfg.uf (dynH cfg gr n) (callH cfg.uf (programOf gr) n)) (f : String) (asS asD : List Term)
    {W : World} (hW : W.Good) {x l sT rD : Term} (hx : W.Eq x l) (has : All2 W.Eq asS asD) (hr : W.Eq sT rD) :
    RelX W (fun _ => False)
      (sBarrier (solve cfg.uf (programOf gr) n (Term.mk f (asS ++ [x, sT])) W.stS))
      (post cfg.uf rD (barrier (dynH cfg gr n (.nt f asD) W.stD l))) := by
  cases hS : solve cfg.uf (programOf gr) n (Term.mk f (asS ++ [x, sT])) W.stS with
  | error e => exact RelX.errS _
  | ok A =>
    have hS' := solve_mono cfg.uf (programOf gr) n _ _ A hS
    rw [solve_succ] at hS'
    cases hnt : ntOK false f asS with
    | true =>
      rw [solveGoal_nt _ _ _ _ _ _ _ (ntOK_ctl hnt)] at hS'
      have := CX f asS asD hnt W hW x l sT rD hx has hr
      rw [hS'] at this
      exact RelX.of_ok (post_barrier cfg.uf rD _) (RelG.barrier this)
    | false =>
      obtain ⟨e, he⟩ := dynH_special_err cfg gr hgr n f asD
        (by rw [← ntOK_false_len f has.length_eq]; exact hnt) W.stD l
      rw [he]
      exact RelX.errD _

theorem call1_simX (cfg : Cfg) (gr : Grammar) (hgr : ∀ r ∈ gr, special r.name r.args.length = false) (n : Nat)
    (CX : CallX cfg.uf (dynH cfg gr n) (callH cfg.uf (programOf gr) n)) :
    Call1X cfg.uf (dynH cfg gr n) (callH cfg.uf (programOf gr) n) := by
  intro gS gD W hW x l sT rD hx hg hr
  rw [callH_call3]
  unfold denCall1
  have hσS : W.stS.σ = W.σS := rfl
  have hσD : W.stD.σ = W.σD := rfl
  rw [hσS, hσD]
  have hgg := (W.Eq_unfold gS gD).1 hg
  revert hgg
  cases hwS : walk W.σS gS with
  | atom f' =>
    intro hgg
    have hwD : walk W.σD gD = .atom f' := by
      revert hgg; generalize walk W.σD gD = w; intro hgg; cases hgg; rfl
    rw [hwD]
    simp only [addArgs]
    exact nt_call1X cfg gr hgr n CX f' [] [] hW hx .nil hr
  | app f' bsS =>
    intro hgg
    obtain ⟨bsD, hwD, hbs⟩ : ∃ bsD, walk W.σD gD = .app f' bsD ∧ ArgsRel W.Eq bsS bsD := by
      revert hgg; generalize walk W.σD gD = w; intro hgg
      cases hgg with
      | app r => exact ⟨_, rfl, r⟩
    rw [hwD]
    simp only [addArgs]
    exact nt_call1X cfg gr hgr n CX f' bsS.toList bsD.toList hW hx (argsRel_toList hbs) hr
  | var a => intro _; simp only [addArgs]; exact RelX.errS _
  | int a => intro _; simp only [addArgs]; exact RelX.errS _
  | flt a => intro _; simp only [addArgs]; exact RelX.errS _
  | str a => intro _; simp only [addArgs]; exact RelX.errS _

theorem late_coreX (cfg : Cfg) (gr : Grammar) (n : Nat) (ih : LevelX cfg gr n)
    {W : World} (hW : W.Good) {x l sT rD : Term} (hx : W.Eq x l) (hr : W.Eq sT rD)
    {tS tD : Term} (ht : TRel W.ρ tS tD) :
    RelX W (fun _ => False)
      (match Body.ofTerm tS with
       | .error _ => .error (.unsupported "phrase/3: not a grammar body")
       | .ok bb => sBarrier (solve cfg.uf (programOf gr) n (bb.tr x sT W.stS.next).1
           { W.stS with next := (bb.tr x sT W.stS.next).2 }))
      (post cfg.uf rD (barrier (match Body.ofTerm tD with
       | .error _ => .error (.unsupported "run-time body is not a grammar body")
       | .ok b' => den cfg gr n true b' W.stD l))) := by
  have ho := ofTerm_sim tS tD ht
  revert ho
  cases hoS : Body.ofTerm tS with
  | error e => intro _; exact RelX.errS _
  | ok bb =>
    cases hoD : Body.ofTerm tD with
    | error e => intro ho; exact ho.elim
    | ok b' =>
      intro ho
      simp only []
      obtain ⟨g1, st1⟩ := World.bumpS_ok hW bb.nhid
      have hrel : BodyRel (W.bumpS bb.nhid).Eq bb b' :=
        (BodyRel.mono ho (fun a b h => st1.eq _ _ (trel_eq hW a b h)))
      have P : PreX (W.bumpS bb.nhid) x l sT rD W.nS (W.nS + bb.nhid) :=
        ⟨g1, st1.eq _ _ hx, st1.eq _ _ hr, fun v h1 _ ht => by have := hW.scS v ht; omega, Nat.le_refl _⟩
      have := ih bb (ofTerm_ok tS bb hoS) b' (W.bumpS bb.nhid) hrel true x l sT rD W.nS P
      have e1 : ({ W.stS with next := (bb.tr x sT W.stS.next).2 } : St) = (W.bumpS bb.nhid).stS := by
        rw [tr_next]; rfl
      rw [e1]
      refine RelX.of_ok (post_barrier cfg.uf rD _) ?_
      exact RelG.rebase' (RelG.barrier this) st1 (fun _ h => h.elim) (fun v h => .inr h.1)

theorem late_simX (cfg : Cfg) (gr : Grammar) (n : Nat) (ih : LevelX cfg gr n) :
    LateX cfg.uf (dynH cfg gr n) (callH cfg.uf (programOf gr) n) := by
  intro gS gD W hW x l sT rD hx hg hr
  rw [callH_phrase3, dynH_late]
  have hσS : W.stS.σ = W.σS := rfl
  have hσD : W.stD.σ = W.σD := rfl
  rw [hσS, hσD]
  have hres := resolve_sim W cfg.uf gS gD (hg cfg.uf)
  revert hres
  cases resolve cfg.uf W.σS gS with
  | none => intro _; exact RelX.errS _
  | some tS =>
    cases resolve cfg.uf W.σD gD with
    | none => intro h; exact h.elim
    | some tD =>
      intro ht
      have ht' : TRel W.ρ tS tD := ht
      cases ht' with
      | var r => exact RelX.errS _
      | atom a => exact late_coreX cfg gr n ih hW hx hr (.atom a)
      | int a => exact late_coreX cfg gr n ih hW hx hr (.int a)
      | flt a => exact late_coreX cfg gr n ih hW hx hr (.flt a)
      | str a => exact late_coreX cfg gr n ih hW hx hr (.str a)
      | app r => exact late_coreX cfg gr n ih hW hx hr (.app r)

/-- **semantic preservation with an arbitrary third argument, at every fuel level** -/
theorem level_simX (cfg : Cfg) (hcfg : cfg.engine = false) (gr : Grammar)
    (hgr : ∀ r ∈ gr, GoodRuleW false r) : ∀ n, LevelX cfg gr n := by
  intro n
  induction n with
  | zero => intro bS _ bD W _ top x l sT rD m _; simp only [solve]; exact RelX.errS _
  | succ n ih =>
    intro bS hok bD W hrel top x l sT rD m P
    rw [solve_succ, den_succ]
    have hsp : ∀ r ∈ gr, special r.name r.args.length = false := fun r hr => (hgr r hr).1
    have LW := level_simW false cfg hcfg gr hgr n
    have CW := call_simW false cfg gr hgr n LW
    have CX := call_simX cfg hcfg gr hgr n ih
    exact body_simX cfg hcfg _ _ CW (dynH_special_err cfg gr hsp n) (call1_simW cfg gr hsp n CW)
      (late_simW cfg gr n LW) CX (call1_simX cfg gr hsp n CX) (late_simX cfg gr n ih)
      bS hok bD W hrel top x l sT rD m P

end PrologVerif.Grammar
