/-
  (b) the lexer accepts everything `quote` emits: `quote s` followed by anything that does not start
  with a quote is one `quoted` token with that text.
-/
import PrologVerif.Proofs.Quote
set_option linter.unusedSimpArgs false
set_option linter.unusedVariables false
namespace PrologVerif.Write
open PrologVerif PrologVerif.Lexer

variable (cfg : Cfg)

/-- the part of an escape sequence after the backslash -/
def escTail (c : Char) : List Char := (quotedIdentEscape c).tail

theorem quotedIdentEscape_eq (c : Char) : quotedIdentEscape c = '\\' :: escTail c := by
  unfold escTail quotedIdentEscape
  repeat' split
  all_goals rfl

theorem hexadecimalEscapeLoop_digits (hconv : ∀ c, cfg.conv c = c) (ds : List Char) :
    ∀ (fuel : Nat) (l : Lexer) (rest : List Char), (∀ d ∈ ds, HexD d) → l.rest = ds ++ '\\' :: rest →
      ds.length + 1 ≤ fuel →
      ∃ l', hexadecimalEscapeLoop cfg fuel l = .ok (.cont, l') ∧ l'.rest = rest ∧
        l'.chunk = l.chunk ++ ds ++ ['\\'] := by
  induction ds with
  | nil =>
    intro fuel l rest _ hl hf
    rcases l with ⟨hist, r, chunk, ring⟩
    simp only [List.nil_append] at hl
    subst hl
    obtain ⟨fuel, rfl⟩ : ∃ f, fuel = f + 1 := ⟨fuel - 1, by simp at hf; omega⟩
    exact ⟨_, by simp [hexadecimalEscapeLoop, next, rawNext, hconv]; rfl, rfl, by simp [accept]⟩
  | cons d ds ih =>
    intro fuel l rest hd hl hf
    rcases l with ⟨hist, r, chunk, ring⟩
    simp only [List.cons_append] at hl
    subst hl
    obtain ⟨fuel, rfl⟩ : ∃ f, fuel = f + 1 := ⟨fuel - 1, by simp at hf; omega⟩
    obtain ⟨k, hk, rfl⟩ := hd d (by simp)
    obtain ⟨_, _, hne, hhex⟩ := hexDigitLower_facts cfg k hk
    obtain ⟨l', h1, h2, h3⟩ := ih fuel (accept ⟨hexDigitLower k :: hist, ds ++ '\\' :: rest, chunk, ring.read⟩ (hexDigitLower k))
      rest (fun x hx => hd x (by simp [hx])) rfl (by simp at hf ⊢; omega)
    refine ⟨l', ?_, h2, ?_⟩
    · simp only [hexadecimalEscapeLoop, next, rawNext, hconv, hne, if_false, hhex, if_true]
      exact h1
    · simp [h3, accept]

theorem escTail_cases (c : Char) :
    (∃ x, escTail c = [x] ∧ (isMetaChar x = true ∨ isSymbolicControlChar x = true) ∧ x ≠ '\n') ∨
    escTail c = 'x' :: hexDigits c.toNat ++ ['\\'] := by
  unfold escTail quotedIdentEscape
  repeat' split
  all_goals first
    | exact .inr rfl
    | exact .inl ⟨_, rfl, by decide, by decide⟩

/-- the escape sequence `quote` writes for a character the lexer does not accept verbatim is
    accepted by `escapeSequence`, which then calls `cont()` -/
theorem escapeSequence_escTail (hconv : ∀ c, cfg.conv c = c) (c : Char) (fuel : Nat) (l : Lexer)
    (rest : List Char) (hl : l.rest = escTail c ++ rest) (hf : (escTail c).length + 1 ≤ fuel) :
    ∃ l', escapeSequence cfg fuel l = .ok (.cont, l') ∧ l'.rest = rest ∧ l'.chunk = l.chunk ++ escTail c := by
  rcases l with ⟨hist, r, chunk, ring⟩
  simp only at hl
  subst hl
  rcases escTail_cases c with ⟨x, hx, hmeta, _⟩ | hhexcase
  · rw [hx]
    refine ⟨accept ⟨x :: hist, rest, chunk, ring.read⟩ x, ?_, rfl, rfl⟩
    simp only [escapeSequence, rawNext, List.cons_append, List.nil_append, hmeta, if_true]
  · -- hexadecimal
    rw [hhexcase] at hf ⊢
    obtain ⟨h1, h2, h3⟩ := hexDigits_spec c.toNat (char_lt c)
    obtain ⟨d, ds, hds⟩ := List.exists_cons_of_ne_nil h1
    simp only [hds, List.cons_append, List.length_cons, List.length_append, List.length_nil] at hf ⊢
    have hdm : ∀ x ∈ d :: ds, HexD x := by rw [← hds]; exact h2
    obtain ⟨k, hk, rfl⟩ := hdm d (by simp)
    obtain ⟨_, _, _, hhex⟩ := hexDigitLower_facts cfg k hk
    obtain ⟨l', e1, e2, e3⟩ := hexadecimalEscapeLoop_digits cfg hconv ds fuel
      (accept ⟨hexDigitLower k :: 'x' :: hist, ds ++ '\\' :: rest, chunk ++ ['x'], ring.read.read⟩ (hexDigitLower k))
      rest (fun x hx => hdm x (by simp [hx])) rfl (by omega)
    refine ⟨l', ?_, e2, ?_⟩
    · have hm : isMetaChar 'x' = false := rfl
      have hs : isSymbolicControlChar 'x' = false := rfl
      have ho : isOctalDigitChar 'x' = false := rfl
      simp only [escapeSequence, rawNext, hm, hs, ho, accept, hexadecimalEscapeSequence, hhex, if_true,
        Bool.false_eq_true, or_self, if_false, List.append_assoc, List.cons_append, List.nil_append]
      simpa [accept] using e1
    · simp [e3, accept]

theorem escTail_head (c : Char) : ∃ x xs, escTail c = x :: xs ∧ x ≠ '\n' := by
  rcases escTail_cases c with ⟨x, hx, _, hn⟩ | h
  · exact ⟨x, [], hx, hn⟩
  · exact ⟨'x', _, h, by decide⟩

theorem quoteBody_length_le (s : List Char) : s.length ≤ (quoteBody cfg s).length := by
  induction s with
  | nil => simp [quoteBody]
  | cons c s ih =>
    unfold quoteBody
    split
    · simp; omega
    · rw [quotedIdentEscape_eq]; simp; omega

theorem quoteBody_cons (c : Char) (s : List Char) :
    quoteBody cfg (c :: s) =
      (if isSingleQuotedCharacter cfg c = true then [c] else quotedIdentEscape c) ++ quoteBody cfg s := rfl

/-- the loop of `quotedToken` runs through the body `quote` wrote and stops at the closing quote -/
theorem quotedToken_quoteBody (hconv : ∀ c, cfg.conv c = c) (s : List Char) :
    ∀ (fuel : Nat) (l : Lexer) (tail : List Char), l.rest = quoteBody cfg s ++ '\'' :: tail →
      tail.head? ≠ some '\'' → l.rest.length + 1 ≤ fuel →
      ∃ l', quotedToken cfg fuel l = finishQuoted l' ∧ l'.rest = tail ∧
        l'.chunk = l.chunk ++ quoteBody cfg s ++ ['\''] := by
  induction s with
  | nil =>
    intro fuel l tail hl ht hf
    rcases l with ⟨hist, r, chunk, ring⟩
    simp only [quoteBody, List.nil_append] at hl
    subst hl
    obtain ⟨fuel, rfl⟩ : ∃ f, fuel = f + 1 := ⟨fuel - 1, by simp at hf; omega⟩
    have hq : isSingleQuotedCharacter cfg '\'' = false := rfl
    cases tail with
    | nil =>
      exact ⟨_, by simp [quotedToken, rawNext, hq, accept]; rfl, rfl, by simp [quoteBody]⟩
    | cons t tail =>
      have ht' : t ≠ '\'' := by simpa using ht
      refine ⟨_, by simp [quotedToken, rawNext, hq, accept, ht', backup]; rfl, rfl, by simp [quoteBody]⟩
  | cons c s ih =>
    intro fuel l tail hl ht hf
    rcases l with ⟨hist, r, chunk, ring⟩
    obtain ⟨fuel, rfl⟩ : ∃ f, fuel = f + 1 := ⟨fuel - 1, by omega⟩
    simp only at hl
    rw [quoteBody_cons] at hl
    split at hl
    · -- a character the lexer accepts verbatim
      rename_i hsq
      simp only [List.singleton_append, List.cons_append] at hl
      subst hl
      obtain ⟨l', h1, h2, h3⟩ := ih fuel (accept ⟨c :: hist, quoteBody cfg s ++ '\'' :: tail, chunk, ring.read⟩ c)
        tail rfl ht (by simp [accept] at hf ⊢; omega)
      refine ⟨l', ?_, h2, ?_⟩
      · simp only [quotedToken, rawNext, hsq, if_true]; exact h1
      · rw [h3, quoteBody_cons]; simp [hsq, accept]
    · -- an escape sequence
      rename_i hsq
      obtain ⟨x, xs, hx, hxn⟩ := escTail_head c
      rw [quotedIdentEscape_eq, hx] at hl
      simp only [List.cons_append] at hl
      subst hl
      have hb1 : isSingleQuotedCharacter cfg '\\' = false := rfl
      simp only [List.length_cons, List.length_append] at hf
      obtain ⟨l1, e1, e2, e3⟩ := escapeSequence_escTail cfg hconv c fuel
        ⟨'\\' :: hist, x :: (xs ++ (quoteBody cfg s ++ '\'' :: tail)), chunk ++ ['\\'], ring.read.read.unread⟩
        (quoteBody cfg s ++ '\'' :: tail) (by simp [hx]) (by rw [hx]; simp; omega)
      have hlen : l1.rest.length + 1 ≤ fuel := by rw [e2]; simp; omega
      obtain ⟨l', h1, h2, h3⟩ := ih fuel l1 tail e2 ht hlen
      refine ⟨l', ?_, h2, ?_⟩
      · simp only [quotedToken, rawNext, hb1, Bool.false_eq_true, if_false, accept, hxn, backup, List.append_assoc]
        simp only [show ('\\' : Char) ≠ '\'' by decide, if_false, if_true, escThen, e1]
        exact h1
      · rw [h3, e3, quoteBody_cons]
        simp [hsq, quotedIdentEscape_eq, hx]

/-- `token` on the text `quote` wrote: one `quoted` token -/
theorem token_quote (hconv : ∀ c, cfg.conv c = c) (s tail : List Char) (fuel : Nat) (al : Bool) (l : Lexer)
    (hl : l.rest = quote cfg s ++ tail) (hc : l.chunk = []) (ht : tail.head? ≠ some '\'')
    (hf : l.rest.length + 1 ≤ fuel) :
    ∃ l', token cfg fuel al l = .ok (⟨.quoted, quote cfg s⟩, l') ∧ l'.rest = tail := by
  rcases l with ⟨hist, r, chunk, ring⟩
  simp only at hl hc
  subst hc
  unfold quote at hl
  simp only [List.cons_append, List.append_assoc, List.singleton_append, List.nil_append] at hl
  subst hl
  obtain ⟨l', h1, h2, h3⟩ := quotedToken_quoteBody cfg hconv s fuel
    (accept ⟨'\'' :: hist, quoteBody cfg s ++ '\'' :: tail, [], ring.read⟩ '\'') tail rfl ht
    (by simp [accept] at hf ⊢; omega)
  refine ⟨l', ?_, h2⟩
  have hv : validEscapeSequences l'.chunk = true := by
    rw [h3]
    have := validEscapeSequences_quote cfg s
    simpa [quote, accept] using this
  have hch : l'.chunk = quote cfg s := by rw [h3]; simp [quote, accept]
  have c1 : isSmallLetterChar cfg '\'' = false := rfl
  have c2 : isGraphicChar '\'' = false := rfl
  simp only [token, next, rawNext, hconv, c1, c2, Bool.false_eq_true, if_false,
    show ('\'' : Char) ≠ '.' by decide, show ('\'' : Char) ≠ '\\' by decide, or_self, if_true]
  rw [h1, finishQuoted, hv]
  simp [emit, hch]

/-- `Token()` on the text `quote` wrote, whatever follows (but another quote): the `quoted` token -/
theorem lexToken_quote (hconv : ∀ c, cfg.conv c = c) (s tail : List Char) (l : Lexer)
    (hl : l.rest = quote cfg s ++ tail) (ht : tail.head? ≠ some '\'') :
    ∃ l', lexToken cfg l = .ok (⟨.quoted, quote cfg s⟩, l') ∧ l'.rest = tail := by
  rcases l with ⟨hist, r, chunk, ring⟩
  simp only at hl
  subst hl
  have c1 : isLayoutChar cfg '\'' = false := rfl
  obtain ⟨l', h1, h2⟩ := token_quote cfg hconv s tail (2 * (quote cfg s ++ tail).length + 7) false
    ⟨hist, quote cfg s ++ tail, [], ring.read.unread⟩ rfl rfl ht (by simp; omega)
  refine ⟨l', ?_, h2⟩
  simp only [lexToken, tokenFuel, show 2 * (quote cfg s ++ tail).length + 8 = (2 * (quote cfg s ++ tail).length + 7) + 1 from rfl]
  unfold quote at h1 ⊢
  simp only [List.cons_append, layoutTextSequence, next, rawNext, hconv, c1, Bool.false_eq_true, if_false,
    show ('\'' : Char) ≠ '%' by decide, show ('\'' : Char) ≠ '/' by decide, backup]
  exact h1

end PrologVerif.Write
