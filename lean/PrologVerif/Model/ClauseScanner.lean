/-
  Model/ClauseScanner.lean — the term reader (engine/lexer.go + engine/parser.go behind
  `ReadTerm`) as a consumer of runes, for the clause shapes the C19 generators use:

      layout/comments  TOKEN  layout/comments  '.'  (layout char | '%' | end of input)

  with TOKEN a letter-digit atom, a decimal integer or a quoted atom without escapes, `%…` line
  comments and `/*…*/` block comments.  What was measured on the real code and is mirrored here is
  how far the reader reads: up to and including the end token plus exactly one look-ahead rune
  (none at the end of the input), and that a clean end of input (only layout and comments, even an
  unterminated comment) is `end_of_file`.  Everything else is `syntaxErr` = outside the fragment
  (the generators avoid it; the C19 theorems are about ANY `Scanner`, not about this one).
-/
import PrologVerif.Model.StreamTypes
namespace PrologVerif.Stream.Clause

/-- unicode.IsSpace -/
def isLayout (r : Nat) : Prop :=
  (9 ≤ r ∧ r ≤ 13) ∨ r = 32 ∨ r = 0x85 ∨ r = 0xA0 ∨ r = 0x1680 ∨ (0x2000 ≤ r ∧ r ≤ 0x200A) ∨
  r = 0x2028 ∨ r = 0x2029 ∨ r = 0x202F ∨ r = 0x205F ∨ r = 0x3000
instance (r : Nat) : Decidable (isLayout r) := by unfold isLayout; infer_instance

def isDigit (r : Nat) : Prop := 48 ≤ r ∧ r ≤ 57
instance (r : Nat) : Decidable (isDigit r) := by unfold isDigit; infer_instance

/-- small letters: a–z and the three non-ASCII letters the generators draw (é, あ, 𝒶) -/
def isSmall (r : Nat) : Prop := (97 ≤ r ∧ r ≤ 122) ∨ r = 0xE9 ∨ r = 0x3042 ∨ r = 0x1D4B6
instance (r : Nat) : Decidable (isSmall r) := by unfold isSmall; infer_instance

def isAlnum (r : Nat) : Prop := isSmall r ∨ (65 ≤ r ∧ r ≤ 90) ∨ isDigit r ∨ r = 95
instance (r : Nat) : Decidable (isAlnum r) := by unfold isAlnum; infer_instance

/-- ASCII graphic and solo characters, blank, double quote, back quote (lexer.go isSingleQuotedCharacter) -/
def isQuotedChar (r : Nat) : Prop :=
  isAlnum r ∨ r = 32 ∨ r = 34 ∨ r = 96 ∨
  r ∈ [35, 36, 38, 42, 43, 45, 46, 47, 58, 60, 61, 62, 63, 64, 94, 126] ∨      -- #$&*+-./:<=>?@^~
  r ∈ [33, 40, 41, 44, 59, 91, 93, 123, 125, 124, 37]                             -- !(),;[]{}|%
instance (r : Nat) : Decidable (isQuotedChar r) := by unfold isQuotedChar; infer_instance

def atomOf (acc : List Nat) : Term := .atom (String.ofList (acc.reverse.map Char.ofNat))
def intOf (acc : List Nat) : Term := .int (Int.ofNat (acc.reverse.foldl (fun n d => n * 10 + (d - 48)) 0))

inductive St
  | start                         -- before the token: skipping layout and comments
  | alnum (acc : List Nat)        -- in a letter-digit token (runes, reversed)
  | digits (acc : List Nat)
  | quoted (acc : List Nat)
  | quotedQ (acc : List Nat)      -- a quote inside a quoted token: its end, or the first of a doubled quote
  | after (t : Term)              -- token complete: skipping layout and comments before the end token
  | dot (t : Term)                -- '.' seen: is the next rune an end char?
  | lineC (t : Option Term)       -- in a % comment (none = before the token)
  | slash (t : Option Term)       -- '/' seen where a comment may start
  | blockC (t : Option Term)
  | blockStar (t : Option Term)

def resume : Option Term → St
  | none => .start
  | some t => .after t

def afterStep (t : Term) (r : Nat) : St ⊕ ReadOut :=
  if isLayout r then .inl (.after t)
  else if r = 37 then .inl (.lineC (some t))
  else if r = 47 then .inl (.slash (some t))
  else if r = 46 then .inl (.dot t)
  else .inr .syntaxErr

def step : St → Nat → St ⊕ ReadOut
  | .start, r =>
    if isLayout r then .inl .start
    else if r = 37 then .inl (.lineC none)
    else if r = 47 then .inl (.slash none)
    else if isSmall r then .inl (.alnum [r])
    else if isDigit r then .inl (.digits [r])
    else if r = 39 then .inl (.quoted [])
    else .inr .syntaxErr
  | .alnum acc, r => if isAlnum r then .inl (.alnum (r :: acc)) else afterStep (atomOf acc) r
  | .digits acc, r =>
    if isDigit r then .inl (.digits (r :: acc))
    else if isAlnum r then .inr .syntaxErr
    else afterStep (intOf acc) r
  | .quoted acc, r =>
    if r = 39 then .inl (.quotedQ acc)
    else if isQuotedChar r then .inl (.quoted (r :: acc))
    else .inr .syntaxErr
  | .quotedQ acc, r => if r = 39 then .inl (.quoted (r :: acc)) else afterStep (atomOf acc) r
  | .after t, r => afterStep t r
  | .dot t, r => if isLayout r ∨ r = 37 then .inr (.term t) else .inr .syntaxErr
  | .lineC t, r => if r = 10 then .inl (resume t) else .inl (.lineC t)
  | .slash t, r => if r = 42 then .inl (.blockC t) else .inr .syntaxErr
  | .blockC t, r => if r = 42 then .inl (.blockStar t) else .inl (.blockC t)
  | .blockStar t, r =>
    if r = 47 then .inl (resume t) else if r = 42 then .inl (.blockStar t) else .inl (.blockC t)

def eofOut : St → EOFOut
  | .start => .endOfFile
  | .lineC none => .endOfFile
  | .blockC none => .endOfFile
  | .blockStar none => .endOfFile
  | .dot t => .out (.term t)
  | _ => .out .syntaxErr

def scanner : Scanner St := { init := .start, step := step, eof := eofOut }

end PrologVerif.Stream.Clause
