/-
  C10, execution part — "a stored clause executes as the clause that was given": the compiled code
  is safe to run (never indexes out of range) and its execution IS resolution with the source
  clause: head unification = mgu with the renamed source head, body = the renamed source goals in
  order.  Proofs: Proofs/ExecSafe*.lean, Proofs/Activation*.lean.
-/
import PrologVerif.Proofs.Activation
import PrologVerif.Restate
import PrologVerif.Proofs.ExecSafe
namespace PrologVerif.C10
open PrologVerif PrologVerif.VM

/- **C10_compiled_code_safe**: every clause the compiler emits passes the abstract interpretation
    `safe` (see C05_compiled_code_is_safe) -/
theorem C10_compiled_code_safe : ExecSafe.CompileSafeStatement := ExecSafe.compile_safe

/- **C10_exec_is_source_fact**: running a stored fact on call arguments = unifying them with a fresh
    renaming of the SOURCE head (mgu, or failure exactly when not unifiable) -/
restate C10_exec_is_source_fact := Activation.activation_fact

/- **C10_exec_is_source_rule**: running a stored rule clause = the same head unification followed by
    the call of the first renamed SOURCE goal with the remaining source goals as continuation -/
restate C10_exec_is_source_rule := Activation.activation_rule_first_goal

/- **C10_exec_body_in_order**: the body code is the source goals' segments in source order -/
restate C10_exec_body_in_order := Activation.body_in_order

end PrologVerif.C10
