/-
  C03, generic and VM part — the trampoline is the recursive depth-first search with cut barrier
  for EVERY semantics of thunks (not only static promise trees), and the promises the VM creates
  for real programs are always well-scoped, so the theorem applies to every run of every program:
  a cut removes exactly the choice points created since its clause was called.
  Statements and proofs: Spec/DFSG.lean, Proofs/ForceDFSG*.lean, Proofs/VMScoped*.lean.
-/
import PrologVerif.Proofs.ForceDFSGInst
import PrologVerif.Proofs.VMScoped
import PrologVerif.Proofs.VMScopedForce
import PrologVerif.Restate
import PrologVerif.Properties.C03
namespace PrologVerif.C03

/- **C03_force_refines_dfs_generic**: for EVERY semantics `sem` (stateful, lazily generated promises,
   nested trampolines inside thunks), every promise on top of any stack: if the recursive reference
   search `dfsP` (Spec/DFSG: depth-first, left to right, cut = discard everything newer than the cut
   parent, catch frames, repeat) ends with a signal other than "ill-scoped", the trampoline `force`
   continues exactly as that signal says (found → yes; exhausted → go on below, with the cut applied;
   raised → recover on the stack below) with exactly the state the search left. -/
restate C03_force_refines_dfs_generic := PrologVerif.ForceDFSG.force_dfsG

/- the old theorem for static promise trees is a corollary of the generic one -/
restate C03_force_refines_dfs_from_generic := PrologVerif.ForceDFSG.force_dfs_from_G

/- **C03_vm_well_scoped**: from any configuration satisfying the VM's scoping invariant (every cut
   parent mentioned by a continuation is a live ancestor, in stack order; ids fresh) the reference
   search never signals "ill-scoped" — whatever the program. -/
restate C03_vm_well_scoped := PrologVerif.VMScoped.vm_well_scoped

/- **C03_vm_run_well_scoped**: in particular for the promise of ANY query against ANY program
   (bootstrap + asserted clauses), and for the nested searches of `\+` and findall/3. -/
restate C03_vm_run_well_scoped := PrologVerif.VMScoped.vm_run_well_scoped
restate C03_vm_nested_well_scoped := PrologVerif.VMScoped.vm_nested_well_scoped

/- **C03_vm_run_is_dfs**: hence every finished run of the VM model IS the recursive search: if the
   reference search of the query's promise ends with signal `sig`, `runQuery` returns the answers the
   search collected and the corresponding end (given enough fuel). -/
restate C03_vm_run_is_dfs := PrologVerif.VMScoped.vm_runQuery_dfs

/- **C03_vm_cuts_find_their_parent**: unconditionally — also for runs that are cancelled, run out of
   fuel or never end — at every cut step of `force` on a VM run the cut parent is on the stack
   (the cut never empties the stack for want of its parent: defect D21 cannot recur in the model). -/
restate C03_vm_cuts_find_their_parent := PrologVerif.VMScoped.vm_run_cuts_ok

end PrologVerif.C03
