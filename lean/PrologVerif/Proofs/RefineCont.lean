/-
  Refine, part 5 — the goals a continuation still has to run, and one step of each machine on a
  goal of the Horn fragment.

    * `ContGoals tmpl max K G`: the continuation `K` (a chain of `.exec` frames over compiled Horn
      bodies, ending in the query's `.collect tmpl max`) stands for the goal list `G` (terms over the
      VM's variables, bindings not applied);
    * `cont_step`: applying such a continuation records an answer (`G = []`) or ARRIVES at the
      first goal with a continuation for the rest;
    * what `VM.builtin` and `SLD.solve` do on the goals of the fragment.
-/
import PrologVerif.Proofs.RefineBridge
namespace PrologVerif.Refine
open PrologVerif PrologVerif.VM PrologVerif.DecompileCompile PrologVerif.Activation

/-! ## continuations as goal lists -/

/-- the pending goals of a continuation: each with the cut parent of the activation it belongs to -/
inductive ContGoals (s : Bool) (mo : Option Nat) (tmpl : Term) (max : Nat) : Cont → List (Term × Nat) → Prop
  | collect : mo = none → ContGoals s mo tmpl max (.collect tmpl max) []
  | done : mo.isSome = true → ContGoals s mo tmpl max .done []
  | exec {tbl vars : List Nat} {ρ : Nat → Nat} {ops : List Op} {gs : List Rep} {cp : Nat} {k : Cont}
      {G : List (Term × Nat)} :
      BodySem tbl ops gs → Renames tbl vars ρ →
      (∀ g ∈ gs, g = .atom "!" ∨ stepGoal s (goalTerm g) = true) →
      ContGoals s mo tmpl max k G →
      ContGoals s mo tmpl max (.exec (ops ++ [.exit]) vars cp k)
        (gs.map (fun g => ((goalTerm g).rename ρ, cp)) ++ G)

theorem hornGoal_rename (ρ : Nat → Nat) (t : Term) : hornGoal (t.rename ρ) = hornGoal t := by
  cases t with
  | app f as => simp [Term.rename, Term.subst, hornGoal, Args.length_subst]
  | _ => rfl

theorem rename_eq_app {t : Term} {ρ : Nat → Nat} {f : String} {as : Args} (h : t.rename ρ = .app f as) :
    ∃ as', t = .app f as' ∧ as'.subst (fun v => .var (ρ v)) = as := by
  cases t with
  | app f' as' =>
    simp only [Term.rename, Term.subst, Term.app.injEq] at h
    exact ⟨as', by rw [h.1], h.2⟩
  | _ => simp [Term.rename, Term.subst] at h

theorem subst_eq_cons {as : Args} {σ : Subst} {a : Term} {bs : Args} (h : as.subst σ = .cons a bs) :
    ∃ a' bs', as = .cons a' bs' ∧ a'.subst σ = a ∧ bs'.subst σ = bs := by
  cases as with
  | nil => simp [Args.subst] at h
  | cons a' bs' =>
    simp only [Args.subst, Args.cons.injEq] at h
    exact ⟨a', bs', rfl, h.1, h.2⟩

theorem subst_eq_nil {as : Args} {σ : Subst} (h : as.subst σ = .nil) : as = .nil := by
  cases as with
  | nil => rfl
  | cons _ _ => simp [Args.subst] at h

theorem ctlGoal_iff {t : Term} : ctlGoal t = true ↔ Ctl t := by
  constructor
  · exact ctlGoal_shape
  · intro h
    cases h with
    | call x hx => subst hx; rfl
    | ite c t e hx => subst hx; rfl
    | ifthen c t hx => subst hx; simp [ctlGoal]
    | once x hx => subst hx; rfl
    | neg x hx => subst hx; rfl
    | callN x e es hx hl => subst hx; simpa [ctlGoal] using hl
    | disj a b hx ha =>
      subst hx
      unfold ctlGoal
      split <;> simp_all [disjHead]

theorem disjHead_rename (ρ : Nat → Nat) (a : Term) : disjHead (a.rename ρ) = disjHead a := by
  cases a with
  | app f as => simp [Term.rename, Term.subst, disjHead, Args.length_subst]
  | _ => rfl

theorem ctl_rename {t : Term} (ρ : Nat → Nat) (h : Ctl t) : Ctl (t.rename ρ) := by
  cases h with
  | call x hx => subst hx; exact .call (x.rename ρ) rfl
  | ite c t e hx => subst hx; exact .ite (c.rename ρ) (t.rename ρ) (e.rename ρ) rfl
  | ifthen c t hx => subst hx; exact .ifthen (c.rename ρ) (t.rename ρ) rfl
  | once x hx => subst hx; exact .once (x.rename ρ) rfl
  | neg x hx => subst hx; exact .neg (x.rename ρ) rfl
  | callN x e es hx hl =>
    subst hx
    exact .callN (x.rename ρ) (e.rename ρ) (es.rename ρ) rfl (by rw [Args.rename, Args.length_subst]; exact hl)
  | disj a b hx ha =>
    subst hx
    exact .disj (a.rename ρ) (b.rename ρ) rfl (by rw [disjHead_rename]; exact ha)

theorem ctl_of_rename {t : Term} (ρ : Nat → Nat) (h : Ctl (t.rename ρ)) : Ctl t := by
  cases h with
  | call x hx =>
    obtain ⟨as', rfl, has⟩ := rename_eq_app hx
    obtain ⟨a', bs', rfl, _, hb⟩ := subst_eq_cons has
    rw [subst_eq_nil hb]
    exact .call _ rfl
  | ite c t e hx =>
    obtain ⟨as', rfl, has⟩ := rename_eq_app hx
    obtain ⟨a', bs', rfl, ha, hb⟩ := subst_eq_cons has
    obtain ⟨e', bs'', rfl, _, hb'⟩ := subst_eq_cons hb
    rw [subst_eq_nil hb']
    obtain ⟨as2, rfl, has2⟩ := rename_eq_app (t := a') (ρ := ρ) ha
    obtain ⟨c', cs, rfl, _, hc⟩ := subst_eq_cons has2
    obtain ⟨t', ts, rfl, _, ht⟩ := subst_eq_cons hc
    rw [subst_eq_nil ht]
    exact .ite _ _ _ rfl
  | ifthen c t hx =>
    obtain ⟨as', rfl, has⟩ := rename_eq_app hx
    obtain ⟨a', bs', rfl, _, hb⟩ := subst_eq_cons has
    obtain ⟨e', bs'', rfl, _, hb'⟩ := subst_eq_cons hb
    rw [subst_eq_nil hb']
    exact .ifthen _ _ rfl
  | once x hx =>
    obtain ⟨as', rfl, has⟩ := rename_eq_app hx
    obtain ⟨a', bs', rfl, _, hb⟩ := subst_eq_cons has
    rw [subst_eq_nil hb]
    exact .once _ rfl
  | neg x hx =>
    obtain ⟨as', rfl, has⟩ := rename_eq_app hx
    obtain ⟨a', bs', rfl, _, hb⟩ := subst_eq_cons has
    rw [subst_eq_nil hb]
    exact .neg _ rfl
  | callN x e es hx hl =>
    obtain ⟨as', rfl, has⟩ := rename_eq_app hx
    obtain ⟨a', bs', rfl, _, hb⟩ := subst_eq_cons has
    obtain ⟨e', bs'', rfl, _, hb'⟩ := subst_eq_cons hb
    exact .callN _ _ _ rfl (by rw [← hb', Args.length_subst] at hl; exact hl)
  | disj a b hx ha =>
    obtain ⟨as', rfl, has⟩ := rename_eq_app hx
    obtain ⟨a', bs', rfl, ha', hb⟩ := subst_eq_cons has
    obtain ⟨e', bs'', rfl, _, hb'⟩ := subst_eq_cons hb
    rw [subst_eq_nil hb']
    refine .disj _ _ rfl ?_
    rw [← disjHead_rename ρ a']
    rw [← ha'] at ha
    exact ha

theorem ctlGoal_rename (ρ : Nat → Nat) (t : Term) : ctlGoal (t.rename ρ) = ctlGoal t := by
  rw [Bool.eq_iff_iff, ctlGoal_iff, ctlGoal_iff]
  exact ⟨ctl_of_rename ρ, ctl_rename ρ⟩

theorem stepGoal_rename (s : Bool) (ρ : Nat → Nat) (t : Term) : stepGoal s (t.rename ρ) = stepGoal s t := by
  simp [stepGoal, hornGoal_rename, ctlGoal_rename]

/-- the state after the query's hand-off recorded an answer -/
def recordAnswer (tmpl : Term) (env : Env) (m : MS) : MS :=
  { m with user := { m.user with answers := app env tmpl :: m.user.answers } }

/-- the promise the cut instruction returns -/
def cutPromise (pc : List Op) (vars : List Nat) (k : Cont) (env : Env) (cp : Nat) : Pr :=
  { delayed := [.afterCut pc vars k [] [] env cp], cutParent := some cp }

/-- **one step of a continuation**: record an answer, arrive at the first goal, or cut -/
theorem cont_step {s : Bool} {tmpl : Term} {max : Nat} {K : Cont} {G : List (Term × Nat)} (h : ContGoals s mo tmpl max K G) :
    ∀ (fuel : Nat) (env : Env) (m : MS) (res : Pr × MS), applyCont fuel K env m = some res →
    (G = [] ∧ ((mo = none ∧ res = (if (recordAnswer tmpl env m).user.answers.length ≥ max then okP else failP,
        recordAnswer tmpl env m)) ∨ (mo.isSome = true ∧ res = (okP, m)))) ∨
    (∃ g cp G' K' fuel', G = (g, cp) :: G' ∧ ContGoals s mo tmpl max K' G' ∧ fuel' < fuel ∧ stepGoal s g = true ∧
      arrive fuel' (functorName g) (argList g) K' env m = some res) ∨
    (∃ cp G' pc vars k, G = (.atom "!", cp) :: G' ∧ ContGoals s mo tmpl max (.exec pc vars cp k) G' ∧
      res = (cutPromise pc vars k env cp, m)) := by
  induction h with
  | collect hmo =>
    intro fuel env m res hrun
    cases fuel with
    | zero => simp [applyCont] at hrun
    | succ n =>
      rw [applyCont] at hrun
      exact Or.inl ⟨rfl, Or.inl ⟨hmo, (Option.some.inj hrun).symm⟩⟩
  | done hmo =>
    intro fuel env m res hrun
    cases fuel with
    | zero => simp [applyCont] at hrun
    | succ n =>
      rw [applyCont] at hrun
      exact Or.inl ⟨rfl, Or.inr ⟨hmo, (Option.some.inj hrun).symm⟩⟩
  | @exec tbl vars ρ ops gs cp k G hsem hren hgs hk ih =>
    intro fuel env m res hrun
    cases fuel with
    | zero => simp [applyCont] at hrun
    | succ n =>
      rw [continuation_resumes] at hrun
      cases gs with
      | nil =>
        cases hsem
        cases n with
        | zero => simp [exec_zero] at hrun
        | succ n' =>
          simp only [List.nil_append] at hrun
          rw [body_done] at hrun
          rcases ih n' env m res hrun with h1 | ⟨g, cp', G', K', fuel', h1, h2, h3, h4, h5⟩ |
            ⟨cp', G', pc, vars', k', h1, h2, h3⟩
          · exact Or.inl (by simpa using h1)
          · exact Or.inr (Or.inl ⟨g, cp', G', K', fuel', by simpa using h1, h2, by omega, h4, h5⟩)
          · exact Or.inr (Or.inr ⟨cp', G', pc, vars', k', by simpa using h1, h2, h3⟩)
      | cons g gs' =>
        obtain ⟨seg, ops', rfl, _, hb', hcutc, hcall⟩ := first_goal hsem
        have hk' : ContGoals s mo tmpl max (.exec (ops' ++ [.exit]) vars cp k)
            (gs'.map (fun g => ((goalTerm g).rename ρ, cp)) ++ G) :=
          .exec hb' hren (fun g' hg' => hgs g' (by simp [hg'])) hk
        by_cases hc : g = .atom "!"
        · subst hc
          have := hcutc rfl vars n [.exit] k env cp m res hrun
          refine Or.inr (Or.inr ⟨cp, _, ops' ++ [.exit], vars, k, by simp [goalTerm, Rep.abs, Term.rename, Term.subst], hk', ?_⟩)
          rw [this]; rfl
        · have hh : stepGoal s (goalTerm g) = true := by
            rcases hgs g (by simp) with h | h
            · exact absurd h hc
            · exact h
          obtain ⟨fuel', hf', harr⟩ := hcall hc vars ρ hren n [.exit] k env cp m res hrun
          refine Or.inr (Or.inl ⟨(goalTerm g).rename ρ, cp, _, .exec (ops' ++ [.exit]) vars cp k, fuel', by simp,
            hk', by omega, ?_, harr⟩)
          rw [stepGoal_rename]; exact hh

/-! ## the VM's builtin dispatch on the fragment -/

theorem builtin_user (n : Nat) (f : String) (args : List Term) (k : Cont) (env : Env) (m : MS)
    (hf : f ∉ reservedNames) : builtin (n + 1) f args k env m = none := by
  rw [builtin]
  all_goals (intros; subst_vars; exact hf (by decide))

theorem builtin_true (n : Nat) (k : Cont) (env : Env) (m : MS) : builtin (n + 1) "true" [] k env m = none := by
  rw [builtin]
  all_goals simp

theorem builtin_eq (n : Nat) (x y : Term) (k : Cont) (env : Env) (m : MS) :
    builtin (n + 1) "=" [x, y] k env m =
      match unify inner false env x y with
      | some (env', .ok) => some (applyCont n k env' m)
      | some _ => some (some (failP, m))
      | none => some none := by
  rw [builtin]
  rfl

theorem builtin_call1 (n : Nat) (g : Term) (k : Cont) (env : Env) (m : MS) :
    builtin (n + 1) "call" [g] k env m = some (some (callGoal g k env m)) := by
  rw [builtin]
  rfl

/-- `arrive`, unfolded -/
theorem arrive_succ' (n : Nat) (f : String) (args : List Term) (k : Cont) (env : Env) (m : MS) :
    arrive (n + 1) f args k env m =
      match builtin n f args k (env.bind varContext (.app "/" (.cons (.atom f) (.cons (.int args.length) .nil)))) m with
      | some r => r
      | none =>
        match lookupProc m.user f args.length with
        | some p => some (clausesCall p.clauses args k
            (env.bind varContext (.app "/" (.cons (.atom f) (.cons (.int args.length) .nil)))) m)
        | none => some (mkErr (existenceErr "procedure" (.app "/" (.cons (.atom f) (.cons (.int args.length) .nil))))
            (env.bind varContext (.app "/" (.cons (.atom f) (.cons (.int args.length) .nil)))) m) := by
  rw [arrive]
  rfl

/-! ## the reference interpreter on the fragment -/

theorem typeTest_user (f : String) (t : Term) (hf : f ∉ reservedNames) : SLD.typeTest f t = none := by
  unfold SLD.typeTest
  split <;> first | rfl | (exfalso; exact hf (by decide))

theorem sld_builtin_user (f : String) (args : List Term) (hf : f ∉ reservedNames) : SLD.builtin f args = none := by
  unfold SLD.builtin
  split <;> first | rfl | (exfalso; exact hf (by decide)) | simp [typeTest_user _ _ hf]

theorem solve_user (prog : List Term) (n d nv : Nat) (g : Term) (l : Nat) (rest : List SLD.Frame) (q : Term)
    (limit : Nat) (f : String) (args : List Term) (hfun : SLD.functor g = some (f, args))
    (hf : f ∉ reservedNames) :
    SLD.solve false prog (n + 1) d nv (.goal g l :: rest) q limit =
      match prog.filter (SLD.sameProc f args.length) with
      | [] => SLD.raise (SLD.existenceErr f args.length)
      | cs => SLD.solveAlts false prog n d nv (cs.map (.clause g)) rest q limit := by
  rw [SLD.solve]
  · simp only [hfun]
    split <;> first | (exfalso; exact hf (by decide)) | skip
    simp only [sld_builtin_user _ _ hf]
    rfl
  · intro v hv; subst hv; simp [SLD.functor] at hfun

theorem solve_true (prog : List Term) (n d nv : Nat) (l : Nat) (rest : List SLD.Frame) (q : Term) (limit : Nat) :
    SLD.solve false prog (n + 1) d nv (.goal (.atom "true") l :: rest) q limit =
      SLD.solve false prog n d nv rest q limit := by
  rw [SLD.solve]
  · simp [SLD.functor, SLD.builtin]
  · intro v hv; cases hv

theorem solve_eq (prog : List Term) (n d nv : Nat) (l : Nat) (a b : Term) (rest : List SLD.Frame) (q : Term)
    (limit : Nat) :
    SLD.solve false prog (n + 1) d nv (.goal (.app "=" (.cons a (.cons b .nil))) l :: rest) q limit =
      match SLD.unify n a b with
      | .undefined => none
      | .fail => SLD.failed
      | .mgu θ => SLD.solve false prog n d nv (rest.map (SLD.Frame.subst θ)) (Robinson.applySubst θ q) limit := by
  rw [SLD.solve]
  · simp [SLD.functor, SLD.builtin, Args.toList]
    rfl
  · intro v hv; cases hv

theorem solve_cut (prog : List Term) (n d nv : Nat) (l : Nat) (rest : List SLD.Frame) (q : Term) (limit : Nat) :
    SLD.solve false prog (n + 1) d nv (.goal (.atom "!") l :: rest) q limit =
      (SLD.solve false prog n d nv rest q limit).map (SLD.afterCut l) := by
  rw [SLD.solve]
  · simp [SLD.functor]
  · intro v hv; cases hv

theorem solve_nil (prog : List Term) (n d nv : Nat) (q : Term) (limit : Nat) :
    SLD.solve false prog (n + 1) d nv [] q limit = some ⟨[q], if limit = 1 then .full else .exhausted⟩ := by
  rw [SLD.solve]

theorem solve_zero (prog : List Term) (d nv : Nat) (R : List SLD.Frame) (q : Term) (limit : Nat) :
    SLD.solve false prog 0 d nv R q limit = none := by
  rw [SLD.solve]

theorem solveAlts_zero (prog : List Term) (d nv : Nat) (as : List SLD.Alt) (R : List SLD.Frame) (q : Term) (limit : Nat) :
    SLD.solveAlts false prog 0 d nv as R q limit = none := by
  rw [SLD.solveAlts]

theorem solveAlts_nil (prog : List Term) (n d nv : Nat) (R : List SLD.Frame) (q : Term) (limit : Nat) :
    SLD.solveAlts false prog (n + 1) d nv [] R q limit = SLD.failed := by
  rw [SLD.solveAlts]

end PrologVerif.Refine
