/-
  Lemmas about the trampoline model (shared by C03, C04, C13).
-/
import PrologVerif.Model.Promise
namespace PrologVerif.Promise

variable {τ ρ ε σ : Type}

theorem popUntil_append (c : Nat) (above : List (P τ ρ ε)) (pc : P τ ρ ε) (below : List (P τ ρ ε))
    (hpc : pc.id = c) (habove : ∀ p ∈ above, p.id ≠ c) :
    popUntil c (above ++ pc :: below) = below := by
  induction above with
  | nil => simp [popUntil, hpc]
  | cons a as ih =>
    have ha : a.id ≠ c := habove a (by simp)
    simp only [List.cons_append, popUntil, ha, if_false]
    exact ih (fun p hp => habove p (by simp [hp]))

theorem popUntil_not_found (c : Nat) (stack : List (P τ ρ ε)) (h : ∀ p ∈ stack, p.id ≠ c) :
    popUntil c stack = [] := by
  induction stack with
  | nil => rfl
  | cons a as ih =>
    have ha : a.id ≠ c := h a (by simp)
    simp only [popUntil, ha, if_false]
    exact ih (fun p hp => h p (by simp [hp]))

/-- the stack only ever shrinks to a suffix under a cut -/
theorem popUntil_suffix (c : Nat) : ∀ stack : List (P τ ρ ε), ∃ pre, stack = pre ++ popUntil c stack
  | [] => ⟨[], rfl⟩
  | a :: as => by
    simp only [popUntil]
    split
    · exact ⟨[a], rfl⟩
    · obtain ⟨pre, h⟩ := popUntil_suffix c as
      exact ⟨a :: pre, by rw [List.cons_append, ← h]⟩

theorem recoverStack_no_handler (sem : Sem τ ρ ε σ) (e : ε) (p : P τ ρ ε) (rest : List (P τ ρ ε)) (m : M σ)
    (h : p.recover = none) : recoverStack sem e (p :: rest) m = recoverStack sem e rest m := by
  simp [recoverStack, h]

end PrologVerif.Promise

namespace PrologVerif.Promise
variable {τ ρ ε σ : Type}

/-- every frame of `above` has no recovery function or declines the error; the state after all the
    (declining) recovery functions have run -/
def declineAll (sem : Sem τ ρ ε σ) (e : ε) : List (P τ ρ ε) → M σ → Option (M σ)
  | [], m => some m
  | p :: rest, m =>
    match p.recover with
    | none => declineAll sem e rest m
    | some r =>
      match sem.evalRecover r e m with
      | (some _, _) => none
      | (none, m') => declineAll sem e rest m'

theorem recoverStack_append (sem : Sem τ ρ ε σ) (e : ε) :
    ∀ (above rest : List (P τ ρ ε)) (m m1 : M σ), declineAll sem e above m = some m1 →
      recoverStack sem e (above ++ rest) m = recoverStack sem e rest m1
  | [], rest, m, m1, h => by simp [declineAll] at h; subst h; rfl
  | p :: above, rest, m, m1, h => by
    simp only [declineAll] at h
    simp only [List.cons_append, recoverStack]
    split at h
    · rename_i hr; simp only [hr]; exact recoverStack_append sem e above rest m m1 h
    · rename_i r hr
      simp only [hr]
      split at h
      · simp at h
      · rename_i m' he
        simp only [he]
        exact recoverStack_append sem e above rest m' m1 h

/-- thunks and recovery functions never push the poll counter beyond `c` once it is within `c`
    (true of the pure instance, which does not touch it, and of nested trampolines, which stop
    polling at `c`) -/
structure IterBounded (sem : Sem τ ρ ε σ) (c : Nat) : Prop where
  thunk : ∀ n t m q m', sem.evalThunk n t m = some (q, m') → m.iter ≤ c → m'.iter ≤ c
  recover : ∀ r e m q m', sem.evalRecover r e m = (q, m') → m.iter ≤ c → m'.iter ≤ c

theorem recoverStack_iter (sem : Sem τ ρ ε σ) (c : Nat) (hb : IterBounded sem c) (e : ε) :
    ∀ (stack : List (P τ ρ ε)) (m : M σ) (r : Option (List (P τ ρ ε))) (m' : M σ),
      recoverStack sem e stack m = (r, m') → m.iter ≤ c → m'.iter ≤ c
  | [], m, r, m', h, hm => by simp [recoverStack] at h; rw [← h.2]; exact hm
  | p :: rest, m, r, m', h, hm => by
    simp only [recoverStack] at h
    split at h
    · exact recoverStack_iter sem c hb e rest m r m' h hm
    · rename_i rr _
      split at h
      · rename_i q m2 he
        simp only [Prod.mk.injEq] at h
        rw [← h.2]; exact hb.recover rr e m (some q) m2 he hm
      · rename_i m2 he
        exact recoverStack_iter sem c hb e rest m2 r m' h (hb.recover rr e m none m2 he hm)

end PrologVerif.Promise
